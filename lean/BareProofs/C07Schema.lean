import BareProofs.C07SchemaLemmas
import BareProofs.C07SchemaInv
import BareProofs.C07SchemaRead
import BareProofs.C07

/-!
# C07Schema — the published schema, regenerated from the code, and "parse output validates" / "schema-valid = representable"

(extension of C07 "every model returned by `parse_script` satisfies the published BareScript schema" and of the quantifier of C08
"any schema-valid BareScript model")

* `Gen.schema` (BareModel/Gen/Schema.lean) is `bare_script.model.BARE_SCRIPT_TYPES`, regenerated on every check run.
* `Schema.validate` (BareModel/Schema.lean) is `schema_markdown.validate_type`: `none` = raises, `some j'` = the validated,
  transformed copy (members in schema order, strings coerced — see the header of that file for the conventions, in particular
  how numbers are written in `PJson`).
* `Schema.scriptJ` is the JSON the boundary writes for a `List Stmt`; it is the structurally recursive twin of the harness-only
  `partial def Syntax.scriptToJson` (`partial` definitions are opaque to the kernel, so no theorem can be *about* `scriptToJson`;
  the two are compared by `#guard` on the demo program below and on every case of the driver op `schema_script`).
  **All theorems here are about `scriptJ`.**

Theorems (all for every statement list / every JSON document, no bound on size or depth):

* `toJson_validates`        `wfL P → validate Gen.schema "BareScript" (scriptJ P) = some (scriptW P)` — the boundary's JSON of every
                             statement list without an empty include list validates, and the validated copy is `scriptW P`;
                             `toJson_valid` is the Boolean corollary.  `wfL` is necessary: `include_nil_invalid`.
* `parsed_validates`        `parseLines ls = .ok P → valid Gen.schema "BareScript" (scriptJ P) = true` — composition with
                             `C07.schema_valid` (everything the model of `parse_script`'s statement builder returns);
  `lowered_validates`       the same for the spec lowering of every structured program without an empty include.
* `valid_is_representable`  `validate Gen.schema "BareScript" j = some j'` ⇒ the validated copy `j'` *reads* (`scriptOf`) as a
                             statement list `P` (well-formed, identifiers canonical, function ids in source order), `scriptJ P`
                             validates, and its validated copy equals `j'` up to optional members at their defaults
                             (`dropD`: a `false` flag, an empty `args`) — member order is taken care of by the validator itself,
                             whose copy is in schema order, as in Python.  `valid_set_eq_stmt_set` packages both directions:
                             {validated copies} = {`scriptW P`} modulo `dropD`.
* `read_write`              `scriptOf (scriptW P) = some (zeroL P)` for canonical identifiers: reading inverts writing (function
                             ids are not part of the schema), so the correspondence between validated copies (up to defaults) and
                             statement lists (up to function ids) is one-to-one; `readScript_scriptJ`: write, validate, read back
                             = `renumber`.
* `scriptJ_renumber` …      (C07SchemaRead.lean) `renumber` (function ids in source order from 0, as `progen.canon_script` numbers
                             them) changes nothing but the ids; the ids it assigns are `0, 1, …, n-1` in pre-order (`fids_renumber`).

Not proved here: that the statement lists `parseLines` returns have canonical identifiers (`namesL`; true — source identifiers go
through `Name.ofString`, generated ones are `gen k n` — but `Name.ofString (gen k n).render = gen k n` needs the `Nat` decimal
round trip, which no lemma of the project provides yet), so `readScript_scriptJ` is not composed with `parsed_validates`.

What `valid_is_representable` means for C08: a *schema-valid* document is not always a model the runtime can execute as it stands
— `validate_type` also accepts `""` for any struct / array and numeric or boolean *strings* for `float` / `bool`
(`coercions_accepted` below) — but its **validated copy** always is, and that copy is `scriptJ P` for a `P : List Stmt` up to
member order and defaulted optional members.  So "for any schema-valid model" = "for any `List Stmt`" holds for models that went
through `validate_script` (or were built without those coercions), which is what the C08 harness generates.
-/

namespace C07Schema
open Schema PJson Gen Lower

/-! ## every statement list validates -/

/-- **toJson_validates.**  For every statement list `P` with no empty include list (in `P` and, recursively, in function bodies),
`validate_type(BARE_SCRIPT_TYPES, 'BareScript', ·)` accepts the JSON the boundary writes for `P` and returns `scriptW P` (the same
members in schema order). -/
theorem toJson_validates (P : List Stmt) (h : wfL P = true) : validate Gen.schema "BareScript" (scriptJ P) = some (scriptW P) :=
  val_scriptJ P h

theorem toJson_valid (P : List Stmt) (h : wfL P = true) : valid Gen.schema "BareScript" (scriptJ P) = true := by
  simp [valid, toJson_validates P h]

/-- expressions, on their own (`validate_expression`) -/
theorem exprToJson_validates (e : Expr) : validate Gen.schema "Expression" (exprJ e) = some (exprW e) := val_exprJ e

/-- the hypothesis of `toJson_validates` is needed: an empty include list is what the schema's `len > 0` rejects -/
theorem include_nil_invalid : valid Gen.schema "BareScript" (scriptJ [.include []]) = false := by rfl

/-! ### the demo: every statement kind, every expression kind, every optional member present and absent -/

def demoExpr : Expr :=
  .binary .add (.number (mkRat 3 2))
    (.function (.user "f") [.variable (.user "x"), .unary .neg (.group (.string "s")), .function (.user "g") []])

def demoProg : List Stmt :=
  [ .expr (some (.user "y")) demoExpr, .expr none (.unary .not (.variable (.user "z"))),
    .jump (.user "l") (some demoExpr), .jump (.user "l") none, .ret none, .ret (some demoExpr), .label (.user "l"),
    .function 0 (.user "f") [.user "a", .user "b"] true true [.ret (some demoExpr), .function 1 (.user "h") [.user "c"] false true []],
    .function 2 (.user "g") [] false false [],
    .include [⟨"a.bare", true⟩, ⟨"b", false⟩] ]

example : wfL demoProg = true := by decide
example : namesL demoProg = true := by decide
example : validate Gen.schema "BareScript" (scriptJ demoProg) = some (scriptW demoProg) := toJson_validates demoProg (by decide)
/-- the same by evaluation of the validator in the kernel (nothing but `Schema.val` and the generated table is used) -/
example : validate Gen.schema "BareScript" (scriptJ demoProg) = some (scriptW demoProg) := by rfl
example : valid Gen.schema "BareScript" (scriptJ demoProg) = true := by rfl
/-- parser-generated identifiers are rendered in their canonical spelling (`__bareScriptIf0` …) -/
example : valid Gen.schema "BareScript" (scriptJ [.jump (.gen .ifL 0) (some (.variable (.gen .values 3))), .label (.gen .ifL 0)]) =
    true := toJson_valid _ (by decide)

/-! `scriptJ` and the harness-only `partial def Syntax.scriptToJson` write the same JSON (evaluated, not proved: `partial`
definitions are opaque to the kernel; the driver op `schema_script` repeats this on every case, answer member `twin`) -/
#guard (Syntax.scriptToJson demoProg).render == (scriptJ demoProg).render
#guard (Syntax.exprToJson demoExpr).render == (exprJ demoExpr).render

/-! ### five hand-made invalid documents (each also rejected by the real `validate_script`; see the task report) -/

set_option exponentiation.threshold 2000 in
/-- unknown member: `{"statements": [{"return": {"expr": {"number": 1}, "bogus": true}}]}` -/
example : valid Gen.schema "BareScript"
    (mk [("statements", .arr [mk [("return", mk [("expr", mk [("number", .num 1)]), ("bogus", .bool true)])]])]) = false := by rfl
/-- two union members: `{"statements": [{"label": "a", "return": {}}]}` -/
example : valid Gen.schema "BareScript" (mk [("statements", .arr [mk [("label", .str "a"), ("return", mk [])]])]) = false := by rfl
/-- empty `args`: `{"statements": [{"function": {"name": "f", "args": [], "statements": []}}]}` -/
example : valid Gen.schema "BareScript"
    (mk [("statements", .arr [mk [("function", mk [("name", .str "f"), ("args", .arr []), ("statements", .arr [])])]])]) = false := by
  rfl
/-- wrong built-in type: `{"statements": [{"label": 5}]}` -/
example : valid Gen.schema "BareScript" (mk [("statements", .arr [mk [("label", .num 5)]])]) = false := by rfl
/-- missing required member: `{"statements": [{"jump": {}}]}` -/
example : valid Gen.schema "BareScript" (mk [("statements", .arr [mk [("jump", mk [])]])]) = false := by rfl
set_option exponentiation.threshold 2000 in
/-- … and the same documents repaired are accepted -/
example : valid Gen.schema "BareScript"
    (mk [("statements", .arr [mk [("return", mk [("expr", mk [("number", .num 1)])])], mk [("label", .str "a")],
      mk [("function", mk [("name", .str "f"), ("args", .arr [.str "a"]), ("statements", .arr [])])],
      mk [("jump", mk [("label", .str "a")])]])]) = true := by rfl

/-- what `validate_type` accepts beyond the plain shape (each checked against the real function): `""` for a struct or an array,
`"true"` / `"false"` for a bool, an int for a float; the validated copy has them coerced -/
theorem coercions_accepted :
    validate Gen.schema "BareScript" (mk [("statements", .str "")]) = some (mk [("statements", .arr [])]) ∧
    validate Gen.schema "BareScript" (mk [("statements", .arr [mk [("return", .str "")]])]) =
      some (mk [("statements", .arr [mk [("return", mk [])]])]) ∧
    validate Gen.schema "BareScript"
        (mk [("statements", .arr [mk [("function", mk [("statements", .str ""), ("async", .str "true"), ("name", .str "f")])]])]) =
      some (mk [("statements", .arr [mk [("function", mk [("async", .bool true), ("name", .str "f"), ("statements", .arr [])])]])]) ∧
    validate Gen.schema "Expression" (mk [("number", .bool true)]) = none := by
  refine ⟨by rfl, by rfl, by rfl, by rfl⟩

set_option exponentiation.threshold 2000 in
/-- an int where a float is expected is accepted (and becomes the float) -/
example : validate Gen.schema "Expression" (mk [("number", .num 12)]) = some (mk [("number", .arr [.num 12, .num 1])]) := by rfl

/-! a numeric string where a float is expected is accepted when `float()` parses it to a finite value (evaluated: the text grammar
`NumText.numberParseFloat` goes through `String` primitives the kernel does not unfold); a JSON float literal is a float -/
#guard validate Gen.schema "Expression" (mk [("number", .str " 1_0e2 ")]) == some (mk [("number", .arr [.num 1000, .num 1])])
#guard validate Gen.schema "Expression" (mk [("number", .str "inf")]) == none
#guard validate Gen.schema "Expression" (mk [("number", .str "12abc")]) == none
#guard validate Gen.schema "Expression" (mk [("number", .raw "1.5e1")]) == some (mk [("number", .arr [.num 15, .num 1])])
#guard validate Gen.schema "Expression" (mk [("number", .arr [.num 6, .num 4])]) == some (mk [("number", .arr [.num 3, .num 2])])

/-! ## what the parser returns validates -/

mutual
theorem wfS_of_scopes : ∀ s : Stmt, s ≠ .include [] → (∀ sc ∈ C07.bodiesS s, Stmt.include [] ∉ sc) → wfS s = true
  | .expr _ _, _, _ => rfl
  | .jump _ _, _, _ => rfl
  | .ret _, _, _ => rfl
  | .label _, _, _ => rfl
  | .include [], h, _ => absurd rfl h
  | .include (_ :: _), _, _ => rfl
  | .function _ _ _ _ _ body, _, hb => by
      simp only [wfS]
      exact wfL_of_scopes body (hb body (by simp [C07.bodiesS])) (fun sc hsc => hb sc (by simp [C07.bodiesS, hsc]))
theorem wfL_of_scopes : ∀ ss : List Stmt, Stmt.include [] ∉ ss → (∀ sc ∈ C07.bodiesL ss, Stmt.include [] ∉ sc) → wfL ss = true
  | [], _, _ => rfl
  | s :: r, hs, hb => by
      simp only [wfL, Bool.and_eq_true]
      exact ⟨wfS_of_scopes s (fun h => hs (h ▸ List.mem_cons_self)) (fun sc hsc => hb sc (by simp [C07.bodiesL, hsc])),
        wfL_of_scopes r (fun h => hs (List.mem_cons_of_mem _ h)) (fun sc hsc => hb sc (by simp [C07.bodiesL, hsc]))⟩
end

/-- the form in which `C07.schema_valid` states "no empty include list" implies the decidable `wfL` -/
theorem wfL_of_no_empty_include (P : List Stmt) (h : ∀ sc ∈ C07.scopes P, Stmt.include [] ∉ sc) : wfL P = true :=
  wfL_of_scopes P (h P (by simp [C07.scopes])) (fun sc hsc => h sc (by simp [C07.scopes, hsc]))

/-- **parsed_validates.**  Whatever the line-at-a-time statement builder of `parse_script` (mirror `Lower.parseLines`) returns, on
any sequence of classified lines, validates against the published schema (`C07.schema_valid` + `toJson_validates`). -/
theorem parsed_validates (ls : List Line) (P : List Stmt) (h : parseLines ls = .ok P) :
    validate Gen.schema "BareScript" (scriptJ P) = some (scriptW P) :=
  toJson_validates P (wfL_of_no_empty_include P (C07.schema_valid.2 ls P h))

theorem parsed_valid (ls : List Line) (P : List Stmt) (h : parseLines ls = .ok P) :
    valid Gen.schema "BareScript" (scriptJ P) = true :=
  toJson_valid P (wfL_of_no_empty_include P (C07.schema_valid.2 ls P h))

/-- the same for the recursive spec lowering of every structured program without an (unrenderable) empty raw include -/
theorem lowered_validates (B : List SStmt) (h : C07.incOkB B = true) :
    validate Gen.schema "BareScript" (scriptJ (lowerProgram B)) = some (scriptW (lowerProgram B)) :=
  toJson_validates _ (wfL_of_no_empty_include _ (C07.schema_valid.1 B h))

example : parseLines (renderB C07.demo) = .ok (lowerProgram C07.demo) := by rfl
example : valid Gen.schema "BareScript" (scriptJ (lowerProgram C07.demo)) = true := parsed_valid (renderB C07.demo) _ (by rfl)
example : C07.incOkB C07.demo = true := by decide

/-! ## every schema-valid document is a statement list -/

/-- **valid_is_representable.**  If `validate_type(BARE_SCRIPT_TYPES, 'BareScript', j)` succeeds with the validated copy `j'`, then
`readScript` (= read the validated copy, number the function definitions in source order) yields a statement list `P` such that
* `P` is well formed for the boundary (`wfL`), its identifiers are canonical (`namesL`), its function ids are `0 … n-1` in source order;
* the boundary's JSON of `P` validates, and its validated copy `scriptW P` equals `j'` once optional members that are at their
  defaults (a `false` flag, an empty `args`) are dropped on both sides.
Member order needs no separate treatment: the validated copy is in schema order (as Python's is). -/
theorem valid_is_representable (j j' : PJson) (h : validate Gen.schema "BareScript" j = some j') :
    ∃ P, readScript Gen.schema j = some P ∧ wfL P = true ∧ namesL P = true ∧ fidsL P = List.range (fidsL P).length ∧
      validate Gen.schema "BareScript" (scriptJ P) = some (scriptW P) ∧ dropD (scriptW P) = dropD j' := by
  obtain ⟨P0, hP, hw, hn, hd⟩ := script_repr h
  have hfid := fids_renumber P0
  refine ⟨renumber P0, by simp [readScript, h, hP], by rw [wfL_renumber]; exact hw, by rw [namesL_renumber]; exact hn, ?_,
    toJson_validates _ (by rw [wfL_renumber]; exact hw), by rw [scriptW_renumber]; exact hd⟩
  rw [hfid, List.length_range]

/-- a hand-written schema-valid document: members out of schema order, a defaulted flag spelled out, `"true"` for a bool, `""` for
a struct, an int for a float, a function call without `args` -/
def demoDoc : PJson :=
  mk [("statements", .arr [
    mk [("function", mk [("statements", .arr [mk [("return", .str "")]]), ("lastArgArray", .bool false), ("name", .str "f"),
      ("async", .str "true")])],
    mk [("expr", mk [("expr", mk [("function", mk [("name", .str "g")])])])],
    mk [("jump", mk [("expr", mk [("number", .num 12)]), ("label", .str "L")])]])]

set_option exponentiation.threshold 2000 in
example : validate Gen.schema "BareScript" demoDoc = some (mk [("statements", .arr [
    mk [("function", mk [("async", .bool true), ("name", .str "f"), ("lastArgArray", .bool false),
      ("statements", .arr [mk [("return", mk [])]])])],
    mk [("expr", mk [("expr", mk [("function", mk [("name", .str "g")])])])],
    mk [("jump", mk [("label", .str "L"), ("expr", mk [("number", .arr [.num 12, .num 1])])])]])]) := by rfl

set_option exponentiation.threshold 2000 in
example : readScript Gen.schema demoDoc = some [.function 0 (.user "f") [] false true [.ret none],
    .expr none (.function (.user "g") []), .jump (.user "L") (some (.number 12))] := by rfl

/-- Boolean form -/
theorem valid_is_representable' (j : PJson) (h : valid Gen.schema "BareScript" j = true) :
    ∃ j' P, validate Gen.schema "BareScript" j = some j' ∧ readScript Gen.schema j = some P ∧ wfL P = true ∧
      valid Gen.schema "BareScript" (scriptJ P) = true ∧ dropD (scriptW P) = dropD j' := by
  simp only [valid, Option.isSome_iff_exists] at h
  obtain ⟨j', hj⟩ := h
  obtain ⟨P, h1, h2, _, _, h5, h6⟩ := valid_is_representable j j' hj
  exact ⟨j', P, hj, h1, h2, by simp [valid, h5], h6⟩

/-- **read_write.**  Reading the validated copy of a statement list with canonical identifiers gives the list back (function ids
are not part of the schema: they come back as 0, and `readScript` renumbers them). -/
theorem read_write (P : List Stmt) (h : namesL P = true) : scriptOf (scriptW P) = some (zeroL P) := scriptOf_scriptW P h

example : scriptOf (scriptW demoProg) = some (zeroL demoProg) := read_write demoProg (by decide)

/-- writing, validating and reading back a well-formed statement list with canonical identifiers changes nothing but the function ids,
which come back numbered in source order -/
theorem readScript_scriptJ (P : List Stmt) (hw : wfL P = true) (hn : namesL P = true) :
    readScript Gen.schema (scriptJ P) = some (renumber P) := by
  have hr : renumber (zeroL P) = renumber P := renumber_zeroL P
  simp [readScript, toJson_validates P hw, read_write P hn, hr]

/-- **valid_set_eq_stmt_set** ("any schema-valid model" and "any `List Stmt`" are the same set): a JSON value is, up to defaulted
optional members, the validated copy of some schema-valid document iff it is, up to the same, the validated JSON of a
statement list without empty include lists. -/
theorem valid_set_eq_stmt_set (D : PJson) :
    (∃ j j', validate Gen.schema "BareScript" j = some j' ∧ dropD j' = D) ↔ (∃ P, wfL P = true ∧ dropD (scriptW P) = D) := by
  constructor
  · rintro ⟨j, j', h, rfl⟩
    obtain ⟨P, _, hw, _, _, _, hd⟩ := valid_is_representable j j' h
    exact ⟨P, hw, hd⟩
  · rintro ⟨P, hw, rfl⟩
    exact ⟨scriptJ P, scriptW P, toJson_validates P hw, rfl⟩

end C07Schema
