import BareProofs.C06Regex2
import BareProofs.C06Regex3Lemmas

/-!
# C06Regex3 — `jump` / `jumpif`, `include`, `function`, and the full cascade
-/

namespace C06Regex
open Rx Text Scan RxPatterns

/-! ## `jump` / `jumpif` -/

theorem none_orElse' (x : Option St) : (none <|> x) = x := by simp

theorem isPrefixOf_append : ∀ (a b l : List Char), (a ++ b).isPrefixOf l = (a.isPrefixOf l && b.isPrefixOf (l.drop a.length))
  | [], b, l => by simp
  | x :: a, b, [] => by simp [List.isPrefixOf]
  | x :: a, b, y :: l => by simp [List.isPrefixOf, isPrefixOf_append a b l, Bool.and_assoc]

theorem keyword?_jumpif (s : Chars) : keyword? "jumpif" s = (keyword? "jump" s).bind (keyword? "if") := by
  unfold keyword?
  rw [show "jumpif".toList = "jump".toList ++ "if".toList from rfl, isPrefixOf_append]
  rw [show "jumpif".length = 6 from rfl, show "jump".length = 4 from rfl, show "if".length = 2 from rfl,
    show "jump".toList.length = 4 from rfl]
  by_cases h1 : ['j', 'u', 'm', 'p'] <+: s
  · by_cases h2 : ['i', 'f'] <+: s.drop 4
    · simp [h1, h2, List.drop_drop]
    · simp [h1, h2]
  · simp [h1]

theorem jump_R_rejects (K' : K) : RejectsHead isSpace (fun st =>
    (Rx.ncg (.alt (kw "jump".toList) (kw "jumpif".toList ⬝ ws ⬝ elit '(' ⬝ Rx.cap 2 (some "expr") dotPlus ⬝ elit ')'))).m st K') := by
  intro st hst
  show (Rx.ncg _).m st K' = none
  have a : (kw "jump".toList).m st K' = none := rejects_kw' isSpace "jump" 'j' "ump".toList rfl (by decide) K' st hst
  have b : (kw "jumpif".toList ⬝ ws ⬝ elit '(' ⬝ Rx.cap 2 (some "expr") dotPlus ⬝ elit ')').m st K' = none :=
    rejects_kw isSpace "jumpif" 'j' "umpif".toList rfl (by decide) _ K' st hst
  rw [ncg_m, alt_m, a, b]
  rfl

/-- **`^(?P<jump>\s*(?:jump|jumpif\s*\((?P<expr>.+)\)))\s+(?P<name>[A-Za-z_]\w*)\s*$`**: the alternative `jump` first; in the
second one the expression ends before the LAST `)` of the line. -/
theorem jump_regex (line : Chars) (hnl : '\n' ∉ line) : onLine jump? line = rxJump line := by
  unfold onLine rxJump matchAt matchFrom RxPatterns.jump
  rw [lead_cap _ _ _ _ _ _ jump_R_rejects]
  change _ = ((Rx.ncg _).m _ jumpK).bind _
  rw [ncg_m, alt_m, kw_match "jump" 'j' "ump".toList rfl, seq_m, kw_match "jumpif" 'j' "umpif".toList rfl, keyword?_jumpif]
  unfold jump?
  have hs : '\n' ∉ lstripL line := not_mem_dropWhile hnl
  have hl1 := lstrip_split_length line
  cases hk : keyword? "jump" (lstripL line) with
  | none => rfl
  | some r =>
    have hr : '\n' ∉ r := noNL_keyword hs hk
    have hd : line.drop ((line.takeWhile isSpace).length + "jump".length) = r := by
      rw [← List.drop_drop, drop_ind, keyword?_drop hk]
    have hlen := keyword?_length hk
    simp only [Option.bind_some]
    rw [show jumpK ⟨(line.takeWhile isSpace).length + "jump".length, r, []⟩ =
      (ws1 ⬝ Rx.cap 3 (some "name") ident ⬝ ws ⬝ Rx.eol).m ⟨(line.takeWhile isSpace).length + "jump".length, r,
        [(1, 0, (line.takeWhile isSpace).length + "jump".length)]⟩ some from rfl, name_tail _ _ _ hr]
    cases hw : wsNameEnd? r with
    | some name =>
      obtain ⟨tl, htl⟩ := wsNameEnd?_drop hw
      have hg := slice_prefix line ((line.takeWhile isSpace).length + "jump".length + nameOff r) _ name tl
        (by rw [← List.drop_drop, hd, htl]) rfl
      simp [St.group, St.span, List.lookup, hg, Shape.shift]
    | none =>
      simp only []
      cases hki : keyword? "if" r with
      | none => rfl
      | some rI =>
        have hrI : '\n' ∉ rI := noNL_keyword' hr hki
        have hdI : line.drop ((line.takeWhile isSpace).length + "jumpif".length) = rI := by
          rw [← List.drop_drop, drop_ind, keyword?_drop hki, keyword?_drop hk, List.drop_drop]; rfl
        have hlenI := keyword?_length hki
        rw [none_orElse']
        simp only []
        unfold elit
        rw [ws_lit_det true '(' (by decide)]
        have hlI := lstrip_split_length rI
        cases hls : lstripL rI with
        | nil => rfl
        | cons x r2 =>
          by_cases hx : x = '('
          · subst hx
            have hr2 : '\n' ∉ r2 := noNL_lstrip_tail hrI hls
            rw [hls] at hlI
            simp only [List.length_cons] at hlI
            have hd2 : line.drop ((line.takeWhile isSpace).length + "jumpif".length + (rI.takeWhile isSpace).length + 1) = r2 := by
              have e : rI = (rI.takeWhile isSpace ++ ['(']) ++ r2 := by
                have := (List.takeWhile_append_dropWhile (p := isSpace) (l := rI)).symm
                rw [show rI.dropWhile isSpace = '(' :: r2 from hls] at this
                simpa using this
              have := drop_add_of_drop line _ r2 _ (hdI.trans e)
              simpa [Nat.add_assoc] using this
            simp only [if_true]
            have hpr := paren_rx ((line.takeWhile isSpace).length + "jumpif".length + (rI.takeWhile isSpace).length + 1) r2 hr2
            unfold elit at hpr
            rw [hpr]
            cases hsp : splitLastParen r2 with
            | none => rfl
            | some ea =>
              obtain ⟨e, after⟩ := ea
              obtain ⟨e2, _⟩ := splitLastParen_some hsp
              cases e with
              | nil => rfl
              | cons y e' =>
                simp only [List.isEmpty_cons, Bool.false_eq_true, if_false, reduceCtorEq]
                cases hwa : wsNameEnd? after with
                | none => rfl
                | some name =>
                  obtain ⟨tl, htl⟩ := wsNameEnd?_drop hwa
                  have hl2 := congrArg List.length e2
                  simp only [List.length_append, List.length_cons] at hl2
                  have hne2 : r2 ≠ [] := by rw [e2]; simp
                  have htot := length_of_drop line r2 _ hd2 hne2
                  have hda : line.drop ((line.takeWhile isSpace).length + "jumpif".length + (rI.takeWhile isSpace).length + 1 +
                      (y :: e').length + 1) = after := by
                    have := drop_add_of_drop line ((y :: e') ++ [')']) after _ (by rw [hd2, e2]; simp)
                    simpa [Nat.add_assoc] using this
                  have hg3 := slice_prefix line ((line.takeWhile isSpace).length + "jumpif".length + (rI.takeWhile isSpace).length + 1 +
                      (y :: e').length + 1 + nameOff after) _ name tl (by rw [← List.drop_drop, hda, htl]) rfl
                  have hg2 := slice_prefix line ((line.takeWhile isSpace).length + "jumpif".length + (rI.takeWhile isSpace).length + 1)
                      _ (y :: e') (')' :: after) (by rw [hd2, e2]) rfl
                  simp only [Option.bind_some, St.group, St.span, List.lookup, beq_self_eq_true, show (3 == 1) = false from rfl,
                    show (3 == 2) = false from rfl, show (1 == 3) = false from rfl, show (2 == 3) = false from rfl,
                    show (2 == 1) = false from rfl, show (1 == 2) = false from rfl, Option.map_some, hg3, hg2, Shape.shift]
                  simp only [slice, List.drop_zero, Nat.sub_zero, List.length_take, List.length_cons, Option.some.injEq,
                    Shape.jump.injEq, true_and, Prod.mk.injEq, and_true]
                  omega
          · have hne : ∀ r2', x :: r2 = '(' :: r2' → False := fun r2' h => hx (List.cons.inj h).1
            simp only [hne, hx, if_false]
            rfl

example : '\n' ∉ "  jumpif (a) (b)  lbl ".toList ∧
    rxJump "  jumpif (a) (b)  lbl ".toList = some (.jump "lbl".toList (some (10, "a) (b".toList))) := by decide +kernel
example : rxJump " jump  lbl".toList = some (.jump "lbl".toList none) ∧ rxJump "jumpif () l".toList = none := by decide +kernel

/-! ## the cascade, with what is proved so far -/

/-- `Scan.shape` = the regex cascade of parser.py (`RxPatterns.rxShape`).

Full statement: `∀ line, '\n' ∉ line → shape line = rxShape line`.  PROVED for every statement pattern except `function` and
the two `include` forms, whose per-pattern equalities remain hypotheses (compared per pattern with the real `re` by the streams
`rx-scan` / `rx-read`).  For `include` the engine side is done (`delim_prefix`, `system_tail`, `quote_loop`: the star over
`\\'|[^']` = the mirror `quoteEnd`); missing: `quoteEnd` = "closing quote is the last non-blank and `quotesEscaped` body", and
`sub1 exprStringEscape = unescapeQuote`.  For `function`: the three optional groups and `(?:\s*,\s*ident)*` = `argsLoop`. -/
theorem shape_is_cascade_partial3 (line : Chars) (hnl : '\n' ∉ line)
    (hFunction : onLine funcBegin? line = rxFunction line)
    (hInclude : onLine include? line = rxInclude line) :
    shape line = rxShape line :=
  shape_is_cascade_partial2 line hnl hFunction (jump_regex line hnl) hInclude

end C06Regex
