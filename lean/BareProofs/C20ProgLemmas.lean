import BareModel.HostDiff
import BareProofs.HostLibBridge
import BareProofs.C04Lemmas

/-!
# C20Prog — lemmas: a small program logic for straight-line library code on the jump machine over `hostDiff`

Everything here is independent of the text of diff.bare:

* numbers as the machine holds them (`nv n = Value.num (n : Rat)`), the operators of `hostDiff` on them and on strings;
* the library calls diff.bare makes, one lemma each, first on `Lib.lib` (through `C15.lib_eq_specLib`), then as `LibCall`
  facts about `Machine.callValue₀ … (fn (lib name))` over any configuration whose host is `hostDiff`;
* `Ev` — "expression `e` evaluates, in local scope `l`, globals `g`, heap `h`, to `v` leaving heap `h'`" (for every log,
  partial table, statement counter and fuel), with one rule per expression form;
* `Steps` / `Halts` — "from statement index `pc` the cache-free machine `execM₀` reaches index `pc'`" / "returns `v`",
  burning exactly one unit of fuel and one tick of the statement counter per statement, for every amount of spare fuel —
  so that runs compose without any arithmetic on fuel bounds;
* frame lemmas for `Lib.getArr`/`Lib.getObj` under allocation (`h ++ [c]`) and store (`h.set r c`).
-/

set_option linter.unusedSimpArgs false

namespace C20Prog
open Machine HostLib HostDiff Lib

abbrev MValue := Machine.Value

/-! ## values -/

/-- a natural number as the machine holds it -/
def nv (n : Nat) : MValue := .num (n : Rat)

/-- a list of strings as array contents -/
def strs (xs : List String) : List Lib.Value := xs.map Lib.Value.str

theorem strs_length (xs : List String) : (strs xs).length = xs.length := by simp [strs]
theorem strs_append (xs ys : List String) : strs (xs ++ ys) = strs xs ++ strs ys := by simp [strs]
theorem strs_getElem? (xs : List String) (i : Nat) : (strs xs)[i]? = xs[i]?.map Lib.Value.str := by simp [strs]

theorem nv_zero : Machine.Value.num (0 : Rat) = nv 0 := by simp [nv]
theorem numN_eq (n : Nat) : ofLib (numN n) = nv n := by
  simp only [numN, ofLib, nv]; congr 1
theorem toLib_nv (n : Nat) : toLib (nv n) = .num (n : Rat) := rfl

/-! ## heap frame lemmas -/

theorem getArr_append_lt {h : Heap} {r : Nat} (c : Cell) (hr : r < h.length) : getArr (h ++ [c]) r = getArr h r := by
  simp [getArr, List.getElem?_append_left hr]

theorem getObj_append_lt {h : Heap} {r : Nat} (c : Cell) (hr : r < h.length) : getObj (h ++ [c]) r = getObj h r := by
  simp [getObj, List.getElem?_append_left hr]

theorem getArr_append_new (h : Heap) (xs : List Lib.Value) : getArr (h ++ [.arr xs]) h.length = some xs := by
  simp [getArr]

theorem getObj_append_new (h : Heap) (kvs : List (String × Lib.Value)) : getObj (h ++ [.obj kvs]) h.length = some kvs := by
  simp [getObj]

theorem getArr_set_ne {h : Heap} {r r' : Nat} (c : Cell) (hne : r ≠ r') : getArr (h.set r c) r' = getArr h r' := by
  simp [getArr, List.getElem?_set_ne hne]

theorem getObj_set_ne {h : Heap} {r r' : Nat} (c : Cell) (hne : r ≠ r') : getObj (h.set r c) r' = getObj h r' := by
  simp [getObj, List.getElem?_set_ne hne]

theorem getArr_set_same {h : Heap} {r : Nat} (xs : List Lib.Value) (hr : r < h.length) :
    getArr (h.set r (.arr xs)) r = some xs := by
  simp [getArr, hr]

theorem getArr_lt {h : Heap} {r : Nat} {xs : List Lib.Value} (hx : getArr h r = some xs) : r < h.length := by
  unfold getArr at hx
  rcases Nat.lt_or_ge r h.length with hlt | hge
  · exact hlt
  · rw [List.getElem?_eq_none hge] at hx; cases hx

theorem getObj_lt {h : Heap} {r : Nat} {kvs} (hx : getObj h r = some kvs) : r < h.length := by
  unfold getObj at hx
  rcases Nat.lt_or_ge r h.length with hlt | hge
  · exact hlt
  · rw [List.getElem?_eq_none hge] at hx; cases hx

/-! ## the library calls of diff.bare on `Lib.lib` -/

theorem lib_arrayNew (h : Heap) : Lib.lib "arrayNew" [] h = (.ok (.arr h.length), h ++ [.arr []]) := by
  rw [C15.lib_eq_specLib]
  simp [Spec.specLib, Spec.specEff, Spec.rawFns, rawBodies, List.lookup, arrayNewR, Eff.run, refOf]

theorem lib_arrayLength {h : Heap} {r : Nat} {xs : List Lib.Value} (hx : getArr h r = some xs) :
    Lib.lib "arrayLength" [.arr r] h = (.ok (numN xs.length), h) := by
  rw [C15.lib_eq_specLib]
  simp [Spec.specLib, Spec.specEff, Spec.rawFns, Spec.docSig, Spec.specBodies, List.lookup,
    validate, checkArg, Spec.arrP, Spec.P, typeBad, isNum, isArr, isStr, isObj, isDt, isRegex, isFn,
    arrayLengthB, hx, Eff.run]

theorem lib_arrayGet {h : Heap} {r : Nat} {xs : List Lib.Value} {n : Nat} {v : Lib.Value}
    (hx : getArr h r = some xs) (hv : xs[n]? = some v) :
    Lib.lib "arrayGet" [.arr r, .num (n : Rat)] h = (.ok v, h) := by
  rw [C15.lib_eq_specLib]
  simp [Spec.specLib, Spec.specEff, Spec.rawFns, Spec.docSig, Spec.specBodies, List.lookup,
    validate, checkArg, Spec.arrP, Spec.idxP, Spec.P, typeBad, isNum, isArr, isStr, isObj, isDt, isRegex, isFn, numBad,
    isIntegral, boundBad, rle, Spec.arrayGetS, hx, Spec.nat, hv, Eff.run]

theorem lib_arrayPush {h : Heap} {r : Nat} {xs : List Lib.Value} (v : Lib.Value) (hx : getArr h r = some xs) :
    Lib.lib "arrayPush" [.arr r, v] h = (.ok (.arr r), h.set r (.arr (xs ++ [v]))) := by
  rw [C15.lib_eq_specLib]
  simp [Spec.specLib, Spec.specEff, Spec.rawFns, Spec.docSig, Spec.specBodies, List.lookup,
    validate, checkArg, Spec.arrP, Spec.anyP, Spec.P, typeBad, isNum, isArr, isStr, isObj, isDt, isRegex, isFn,
    arrayPushB, hx, Eff.run]

theorem lib_arrayExtend {h : Heap} {r r2 : Nat} {xs ys : List Lib.Value} (hx : getArr h r = some xs)
    (hy : getArr h r2 = some ys) :
    Lib.lib "arrayExtend" [.arr r, .arr r2] h = (.ok (.arr r), h.set r (.arr (xs ++ ys))) := by
  rw [C15.lib_eq_specLib]
  simp [Spec.specLib, Spec.specEff, Spec.rawFns, Spec.docSig, Spec.specBodies, List.lookup,
    validate, checkArg, Spec.arrP, Spec.P, typeBad, isNum, isArr, isStr, isObj, isDt, isRegex, isFn,
    arrayExtendB, hx, hy, Eff.run]

theorem lib_arraySlice2 {h : Heap} {r : Nat} {xs : List Lib.Value} {s : Nat} (hx : getArr h r = some xs)
    (hs : s ≤ xs.length) :
    Lib.lib "arraySlice" [.arr r, .num (s : Rat)] h = (.ok (.arr h.length), h ++ [.arr (xs.drop s)]) := by
  rw [C15.lib_eq_specLib]
  simp [Spec.specLib, Spec.specEff, Spec.rawFns, Spec.docSig, Spec.specBodies, List.lookup,
    validate, checkArg, missingArg, Spec.arrP, Spec.idx0P, Spec.idxEndP, Spec.idxP, Spec.P, typeBad, isNum, isArr, isStr, isObj,
    isDt, isRegex, isFn, numBad, isIntegral, boundBad, rle, parseDefault, digitsVal,
    Spec.arraySliceS, hx, Spec.nat, Spec.endN, Spec.sliceN, hs, Eff.run, refOf]
  exact List.take_of_length_le (by simp)

theorem lib_arraySlice3 {h : Heap} {r : Nat} {xs : List Lib.Value} {s e : Nat} (hx : getArr h r = some xs)
    (hs : s ≤ xs.length) (he : e ≤ xs.length) :
    Lib.lib "arraySlice" [.arr r, .num (s : Rat), .num (e : Rat)] h =
      (.ok (.arr h.length), h ++ [.arr ((xs.drop s).take (e - s))]) := by
  rw [C15.lib_eq_specLib]
  simp [Spec.specLib, Spec.specEff, Spec.rawFns, Spec.docSig, Spec.specBodies, List.lookup,
    validate, checkArg, missingArg, Spec.arrP, Spec.idx0P, Spec.idxEndP, Spec.idxP, Spec.P, typeBad, isNum, isArr, isStr, isObj,
    isDt, isRegex, isFn, numBad, isIntegral, boundBad, rle, parseDefault, digitsVal,
    Spec.arraySliceS, hx, Spec.nat, Spec.endN, Spec.sliceN, hs, he, Eff.run, refOf]

theorem lib_objectNew (h : Heap) (k : String) (v : Lib.Value) :
    Lib.lib "objectNew" [.str "type", .str k, .str "lines", v] h =
      (.ok (.obj h.length), h ++ [.obj [("type", .str k), ("lines", v)]]) := by
  rw [C15.lib_eq_specLib]
  simp [Spec.specLib, Spec.specEff, Spec.rawFns, rawBodies, List.lookup, objectNewR, objectNewLoop, dictSet, Eff.run, refOf]

/-! ## the operators of `hostDiff` on the values diff.bare computes with -/

theorem compare_num (w : HostImpl.World) (x y : Rat) :
    HostImpl.compare? w (.num x) (.num y) = some (if x < y then -1 else if x = y then 0 else 1) := by
  simp [HostImpl.compare?, HostImpl.valueCompare]

theorem compare_str (w : HostImpl.World) (x y : String) :
    HostImpl.compare? w (.str x) (.str y) = some (HostImpl.cmpOrd x y) := by
  simp [HostImpl.compare?, HostImpl.valueCompare]

theorem binop_lt_nv (w : HostImpl.World) (i j : Nat) : HostImpl.binop .lt (nv i) (nv j) w = .bool (decide (i < j)) := by
  simp only [HostImpl.binop, nv, compare_num, Rat.natCast_lt_natCast, Rat.natCast_inj]
  by_cases h : i < j
  · simp [h]
  · by_cases h2 : i = j <;> simp [h, h2]

theorem binop_ge_nv (w : HostImpl.World) (i j : Nat) : HostImpl.binop .ge (nv i) (nv j) w = .bool (decide (i ≥ j)) := by
  simp only [HostImpl.binop, nv, compare_num, Rat.natCast_lt_natCast, Rat.natCast_inj]
  by_cases h : i < j
  · have : ¬ j ≤ i := by omega
    simp [h, this]
  · have h' : j ≤ i := by omega
    by_cases h2 : i = j <;> simp [h, h2, h']

theorem binop_gt_nv (w : HostImpl.World) (i j : Nat) : HostImpl.binop .gt (nv i) (nv j) w = .bool (decide (i > j)) := by
  simp only [HostImpl.binop, nv, compare_num, Rat.natCast_lt_natCast, Rat.natCast_inj]
  by_cases h : i < j
  · have : ¬ j < i := by omega
    simp [h, this]
  · by_cases h2 : i = j
    · subst h2; simp
    · have : j < i := by omega
      simp [h, h2, this]

theorem binop_add_one (w : HostImpl.World) (i : Nat) : HostImpl.binop .add (nv i) (.num (1 : Rat)) w = nv (i + 1) := by
  simp [HostImpl.binop, nv, Rat.natCast_add]

theorem binop_eq_str (w : HostImpl.World) (x y : String) :
    HostImpl.binop .eq (.str x) (.str y) w = .bool (decide (x = y)) := by
  simp only [HostImpl.binop, compare_str, HostImpl.cmpOrd]
  by_cases h : x = y
  · subst h; simp [String.lt_irrefl]
  · by_cases h2 : x < y <;> simp [h, h2]

/-! ## configurations over `hostDiff`, states, library calls -/

/-- a machine state: globals `g`, log `lg`, partial table `pt` (none of which diffLines touches), heap `h`, counter `n` -/
def mkS (g : Env) (lg : List String) (pt : List (MValue × List MValue)) (h : Heap) (n : Nat) : State LWorld :=
  ⟨g, ⟨h, lg, pt⟩, n⟩

theorem hostDiff_lib : hostDiff.lib = HostDiff.lib := rfl

theorem hi_globalGet (n : String) (w : HostImpl.World) :
    HostImpl.lib "systemGlobalGet" [.str n] w =
      .globalGet (Name.ofString n) w fun v w1 => HostImpl.ok (v.getD .null) w1 := rfl

theorem hi_systemType (v : MValue) (w : HostImpl.World) :
    HostImpl.lib "systemType" [v] w = HostImpl.ok (.str (HostImpl.typeName v)) w := rfl


section Logic
variable (cfg : Config LWorld)

/-- the library call `name(args…)` issued by the machine with heap `h` returns `v` and leaves heap `h'`; nothing else moves -/
def LibCall (name : String) (args : List MValue) (h : Heap) (v : MValue) (h' : Heap) : Prop :=
  ∀ g lg pt n fuel, callValue₀ cfg (fuel+1) (.fn (.lib name)) args (mkS g lg pt h n) = .ok v (mkS g lg pt h' n)

variable {cfg} (hh : cfg.host = hostDiff)
include hh

theorem libcall_of_lib {name : String} {args : List MValue} {h h' : Heap} {v : Lib.Value}
    (hn1 : name ≠ "regexNew") (hn2 : name ≠ "regexSplit")
    (hl : Lib.lib name (args.map toLib) h = (.ok v, h')) : LibCall cfg name args h (ofLib v) h' := by
  intro g lg pt n fuel
  rw [callValue₀, hh, hostDiff_lib]
  simp only [HostDiff.lib, hn1, hn2, if_false, HostLib.lib, mkS, hl, runTree]

theorem libcall_arrayNew (h : Heap) : LibCall cfg "arrayNew" [] h (.arr h.length) (h ++ [.arr []]) :=
  libcall_of_lib hh (name := "arrayNew") (args := []) (by decide) (by decide) (lib_arrayNew h)

theorem libcall_arrayLength {h : Heap} {r : Nat} {xs : List Lib.Value} (hx : getArr h r = some xs) :
    LibCall cfg "arrayLength" [.arr r] h (nv xs.length) h := by
  have := libcall_of_lib hh (args := [.arr r]) (by decide) (by decide) (lib_arrayLength hx)
  rwa [numN_eq] at this

theorem libcall_arrayGet {h : Heap} {r : Nat} {xs : List Lib.Value} {n : Nat} {v : Lib.Value}
    (hx : getArr h r = some xs) (hv : xs[n]? = some v) : LibCall cfg "arrayGet" [.arr r, nv n] h (ofLib v) h :=
  libcall_of_lib hh (args := [.arr r, nv n]) (by decide) (by decide) (lib_arrayGet hx hv)

theorem libcall_arrayPush {h : Heap} {r : Nat} {xs : List Lib.Value} (v : MValue) (hx : getArr h r = some xs) :
    LibCall cfg "arrayPush" [.arr r, v] h (.arr r) (h.set r (.arr (xs ++ [toLib v]))) :=
  libcall_of_lib hh (args := [.arr r, v]) (by decide) (by decide) (lib_arrayPush (toLib v) hx)

theorem libcall_arrayExtend {h : Heap} {r r2 : Nat} {xs ys : List Lib.Value} (hx : getArr h r = some xs)
    (hy : getArr h r2 = some ys) :
    LibCall cfg "arrayExtend" [.arr r, .arr r2] h (.arr r) (h.set r (.arr (xs ++ ys))) :=
  libcall_of_lib hh (args := [.arr r, .arr r2]) (by decide) (by decide) (lib_arrayExtend hx hy)

theorem libcall_arraySlice2 {h : Heap} {r : Nat} {xs : List Lib.Value} {s : Nat} (hx : getArr h r = some xs)
    (hs : s ≤ xs.length) :
    LibCall cfg "arraySlice" [.arr r, nv s] h (.arr h.length) (h ++ [.arr (xs.drop s)]) :=
  libcall_of_lib hh (args := [.arr r, nv s]) (by decide) (by decide) (lib_arraySlice2 hx hs)

theorem libcall_arraySlice3 {h : Heap} {r : Nat} {xs : List Lib.Value} {s e : Nat} (hx : getArr h r = some xs)
    (hs : s ≤ xs.length) (he : e ≤ xs.length) :
    LibCall cfg "arraySlice" [.arr r, nv s, nv e] h (.arr h.length) (h ++ [.arr ((xs.drop s).take (e - s))]) :=
  libcall_of_lib hh (args := [.arr r, nv s, nv e]) (by decide) (by decide) (lib_arraySlice3 hx hs he)

theorem libcall_objectNew (h : Heap) (k : String) (v : MValue) :
    LibCall cfg "objectNew" [.str "type", .str k, .str "lines", v] h (.obj h.length)
      (h ++ [.obj [("type", .str k), ("lines", toLib v)]]) :=
  libcall_of_lib hh (args := [.str "type", .str k, .str "lines", v]) (by decide) (by decide) (lib_objectNew h k (toLib v))

/-- `systemType` is one of `hostLib`'s lifted HostImpl functions: the type name, nothing moves -/
theorem libcall_systemType (h : Heap) (v : MValue) : LibCall cfg "systemType" [v] h (.str (HostImpl.typeName v)) h := by
  intro g lg pt n fuel
  have hu : (Lib.lib "systemType" [toLib v] h).1 = .unmodelled := by
    rw [C15.lib_eq_specLib]; simp [Spec.specLib, Spec.specEff, Spec.rawFns, Spec.docSig, List.lookup, Eff.run]
  rw [callValue₀, hh, hostDiff_lib]
  have hne1 : ("systemType" : String) ≠ "regexNew" := by decide
  have hne2 : ("systemType" : String) ≠ "regexSplit" := by decide
  simp only [HostDiff.lib, hne1, hne2, if_false, HostLib.lib, List.map, mkS]
  generalize hr : Lib.lib "systemType" [toLib v] h = r at hu
  obtain ⟨r1, h2⟩ := r
  simp only at hu
  subst hu
  have hk : hostKeeps.contains "systemType" = true := by decide
  simp only [fallback, hk, if_true, hi_systemType, lift, HostImpl.ok, runTree, putBack, LWorld.toImpl]

/-- `regexSplit` with the line-split regex: a fresh array holding `Diff.splitLines s` (the modelled assumption) -/
theorem libcall_regexSplit (h : Heap) (s : String) :
    LibCall cfg "regexSplit" [.regex (encStr lineSplitPattern), .str s] h (.arr h.length)
      (h ++ [.arr (strs (Diff.splitLines s))]) := by
  intro g lg pt n fuel
  rw [callValue₀, hh]
  rw [hostDiff_lib]
  have hne1 : ("regexSplit" : String) ≠ "regexNew" := by decide
  simp [HostDiff.lib, hne1, decStr_encStr, runTree, mkS, strs]

/-- `systemGlobalGet(name)`: the global's value, or null -/
theorem call_systemGlobalGet (n : String) (g : Env) (lg : List String) (pt : List (MValue × List MValue)) (h : Heap)
    (c fuel : Nat) :
    callValue₀ cfg (fuel+1) (.fn (.lib "systemGlobalGet")) [.str n] (mkS g lg pt h c) =
      .ok ((g.get? (Name.ofString n)).getD .null) (mkS g lg pt h c) := by
  have hu : (Lib.lib "systemGlobalGet" [toLib (.str n)] h).1 = .unmodelled := by
    rw [C15.lib_eq_specLib]; simp [Spec.specLib, Spec.specEff, Spec.rawFns, Spec.docSig, List.lookup, Eff.run]
  rw [callValue₀, hh, hostDiff_lib]
  have hne1 : ("systemGlobalGet" : String) ≠ "regexNew" := by decide
  have hne2 : ("systemGlobalGet" : String) ≠ "regexSplit" := by decide
  simp only [HostDiff.lib, hne1, hne2, if_false, HostLib.lib, List.map, mkS]
  generalize hr : Lib.lib "systemGlobalGet" [toLib (.str n)] h = r at hu
  obtain ⟨r1, h2⟩ := r
  simp only at hu
  subst hu
  have hk : hostKeeps.contains "systemGlobalGet" = true := by decide
  simp only [fallback, hk, if_true, hi_globalGet, lift, HostImpl.ok, runTree, putBack, LWorld.toImpl]

/-- a function `Lib` has no model for and `hostLib` does not keep from HostImpl (`schemaParse`): the wrapper's null -/
theorem call_unmodelled {name : String} (hn1 : name ≠ "regexNew") (hn2 : name ≠ "regexSplit")
    (hk : hostKeeps.contains name = false) (hu : ∀ args h, (Lib.lib name args h).1 = .unmodelled)
    (args : List MValue) (g : Env) (lg : List String) (pt : List (MValue × List MValue)) (h : Heap) (c fuel : Nat) :
    callValue₀ cfg (fuel+1) (.fn (.lib name)) args (mkS g lg pt h c) = .ok .null (mkS g lg pt h c) := by
  rw [callValue₀, hh, hostDiff_lib]
  simp only [HostDiff.lib, hn1, hn2, if_false, HostLib.lib, mkS]
  have := hu (args.map toLib) h
  generalize hr : Lib.lib name (args.map toLib) h = r at this
  obtain ⟨r1, h2⟩ := r
  simp only at this
  subst this
  have hk' : ¬ (name ∈ hostKeeps) := by
    intro hm
    have : hostKeeps.contains name = true := by simpa using hm
    rw [hk] at this; cases this
  simp [fallback, hk', runTree, hh, hostDiff, hostLib]

omit hh in
theorem lib_schemaParse_unmodelled (args : List Lib.Value) (h : Heap) : (Lib.lib "schemaParse" args h).1 = .unmodelled := by
  rw [C15.lib_eq_specLib]; simp [Spec.specLib, Spec.specEff, Spec.rawFns, Spec.docSig, List.lookup, Eff.run]

/-- `regexNew(pattern)`: the regex value that remembers `pattern` -/
theorem libcall_regexNew (h : Heap) (p : String) : LibCall cfg "regexNew" [.str p] h (.regex (encStr p)) h := by
  intro g lg pt n fuel
  rw [callValue₀, hh, hostDiff_lib]
  simp [HostDiff.lib, runTree, mkS]

omit hh in
theorem lib_fromCharCode (h : Heap) (n : Nat) (hn : n < 0xD800) :
    Lib.lib "stringFromCharCode" [.num (n : Rat)] h = (.ok (.str (String.ofList [Char.ofNat n])), h) := by
  rw [C15.lib_eq_specLib]
  simp [Spec.specLib, Spec.specEff, Spec.rawFns, rawBodies, List.lookup, stringFromCharCodeR, fromCodes, charOfCode,
    isIntegral, mkStr, Eff.run, hn]

theorem libcall_fromCharCode (h : Heap) (n : Nat) (hn : n < 0xD800) :
    LibCall cfg "stringFromCharCode" [nv n] h (.str (String.ofList [Char.ofNat n])) h :=
  libcall_of_lib hh (name := "stringFromCharCode") (args := [nv n]) (by decide) (by decide) (lib_fromCharCode h n hn)

end Logic

/-! ## truthiness -/

/-- `value_boolean v` with heap `h` is `b`, whatever the log and the partial table -/
def Tr (v : MValue) (h : Heap) (b : Bool) : Prop :=
  ∀ lg pt, HostImpl.truthy v (LWorld.toImpl ⟨h, lg, pt⟩) = b

theorem Tr.bool (b : Bool) (h : Heap) : Tr (.bool b) h b := fun _ _ => rfl
theorem Tr.null (h : Heap) : Tr .null h false := fun _ _ => rfl
theorem Tr.nv (n : Nat) (h : Heap) : Tr (nv n) h (n != 0) := by
  intro lg pt
  simp only [HostImpl.truthy, C20Prog.nv]
  by_cases hn : n = 0
  · subst hn; rfl
  · have : (n : Rat) ≠ 0 := fun h0 => hn (Rat.natCast_eq_zero_iff.mp h0)
    rw [show ((n : Rat) != 0) = true from bne_iff_ne.mpr this, show (n != 0) = true from bne_iff_ne.mpr hn]
theorem Tr.arr {h : Heap} {r : Nat} {xs : List Lib.Value} (hx : getArr h r = some xs) : Tr (.arr r) h (!xs.isEmpty) := by
  intro lg pt
  unfold getArr at hx
  cases hc : h[r]? with
  | none => rw [hc] at hx; cases hx
  | some c =>
    rw [hc] at hx
    cases c with
    | obj kvs => cases hx
    | arr ys =>
      simp only [Option.some.injEq] at hx
      subst hx
      simp [HostImpl.truthy, HostImpl.World.arr?, LWorld.toImpl, hc, cellOfLib]
      cases ys <;> simp

/-! ## expression evaluation -/

/-- the value of variable `x` in local scope `l` over globals `g` -/
def lk (l g : Env) (x : Name) : MValue :=
  match l.get? x with
  | some v => v
  | none => (g.get? x).getD .null

theorem lookupVar_eq (l g : Env) (x : Name) : lookupVar (some l) g x = lk l g x := by
  simp only [lookupVar, lk, C04.contains_eq_isSome]
  cases l.get? x <;> simp

/-- not one of the three literal keywords -/
def NotKw (x : Name) : Prop := x ≠ kwNull ∧ x ≠ kwFalse ∧ x ≠ kwTrue

instance (x : Name) : Decidable (NotKw x) := inferInstanceAs (Decidable (_ ∧ _ ∧ _))

section Logic2
variable (cfg : Config LWorld)

/-- expression `e` evaluates to `v` in local scope `l`, globals `g`, heap `h`, leaving heap `h'` (and everything else) -/
def Ev (g l : Env) (h : Heap) (e : Expr) (v : MValue) (h' : Heap) : Prop :=
  ∀ lg pt n fuel, evalExpr cfg (callValue₀ cfg (fuel+1)) (some l) e (mkS g lg pt h n) = .ok v (mkS g lg pt h' n)

def EvArgs (g l : Env) (h : Heap) (es : List Expr) (vs : List MValue) (h' : Heap) : Prop :=
  ∀ lg pt n fuel, evalArgs cfg (callValue₀ cfg (fuel+1)) (some l) es (mkS g lg pt h n) = .ok vs (mkS g lg pt h' n)

/-- a condition: evaluates to the boolean `b`, heap unchanged -/
def EvB (g l : Env) (h : Heap) (e : Expr) (b : Bool) : Prop := Ev cfg g l h e (.bool b) h

variable {cfg} {g l : Env} {h h1 h2 : Heap}

theorem Ev.num (q : Rat) : Ev cfg g l h (.number q) (.num q) h := fun _ _ _ _ => by simp [evalExpr]
theorem Ev.str (s : String) : Ev cfg g l h (.string s) (.str s) h := fun _ _ _ _ => by simp [evalExpr]

theorem Ev.var {x : Name} (hk : NotKw x) : Ev cfg g l h (.variable x) (lk l g x) h := by
  intro lg pt n fuel
  simp [evalExpr, hk.1, hk.2.1, hk.2.2, lookupVar_eq, mkS]

theorem Ev.varL {x : Name} {v : MValue} (hk : NotKw x) (hx : l.get? x = some v) : Ev cfg g l h (.variable x) v h := by
  have := Ev.var (cfg := cfg) (g := g) (l := l) (h := h) hk
  simpa [lk, hx] using this

theorem Ev.varG {x : Name} {v : MValue} (hk : NotKw x) (hx : l.get? x = none) (hg : g.get? x = some v) :
    Ev cfg g l h (.variable x) v h := by
  have := Ev.var (cfg := cfg) (g := g) (l := l) (h := h) hk
  simpa [lk, hx, hg] using this

theorem Ev.varNull {x : Name} (hk : NotKw x) (hx : l.get? x = none) (hg : g.get? x = none) :
    Ev cfg g l h (.variable x) .null h := by
  have := Ev.var (cfg := cfg) (g := g) (l := l) (h := h) hk
  simpa [lk, hx, hg] using this

theorem Ev.tt : Ev cfg g l h (.variable (.user "true")) (.bool true) h := fun _ _ _ _ => by
  simp [evalExpr, kwNull, kwFalse, kwTrue]

theorem EvArgs.nil : EvArgs cfg g l h [] [] h := fun _ _ _ _ => by simp [evalArgs]

theorem EvArgs.cons {e : Expr} {es : List Expr} {v : MValue} {vs : List MValue}
    (he : Ev cfg g l h e v h1) (hes : EvArgs cfg g l h1 es vs h2) : EvArgs cfg g l h (e :: es) (v :: vs) h2 := by
  intro lg pt n fuel
  simp [evalArgs, he lg pt n fuel, hes lg pt n fuel]

variable (hh : cfg.host = hostDiff)
include hh

/-- a strict binary operator whose result on the two values does not depend on the world -/
theorem Ev.binop {op : BinOp} {a b : Expr} {va vb v : MValue} (hop : op ≠ .and ∧ op ≠ .or)
    (ha : Ev cfg g l h a va h1) (hb : Ev cfg g l h1 b vb h2) (hv : ∀ w, HostImpl.binop op va vb w = v) :
    Ev cfg g l h (.binary op a b) v h2 := by
  intro lg pt n fuel
  have e1 := ha lg pt n fuel
  have e2 := hb lg pt n fuel
  cases op <;> first | exact absurd rfl hop.1 | exact absurd rfl hop.2 |
    simp [evalExpr, e1, e2, hh, hostDiff, hostLib, HostLib.binop, hv]

theorem Ev.not {a : Expr} {va : MValue} {b : Bool} (ha : Ev cfg g l h a va h1) (ht : Tr va h1 b) :
    Ev cfg g l h (.unary .not a) (.bool (!b)) h1 := by
  intro lg pt n fuel
  simp only [evalExpr, ha lg pt n fuel]
  simp [hh, hostDiff, hostLib, HostLib.truthy, mkS, ht lg pt]

theorem EvB.not {a : Expr} {b : Bool} (ha : EvB cfg g l h a b) : EvB cfg g l h (.unary .not a) (!b) :=
  Ev.not hh ha (Tr.bool b h)

theorem EvB.and {a b : Expr} {x y : Bool} (ha : EvB cfg g l h a x) (hb : x = true → EvB cfg g l h b y) :
    EvB cfg g l h (.binary .and a b) (x && y) := by
  intro lg pt n fuel
  cases x with
  | false => simp [evalExpr, ha lg pt n fuel, hh, hostDiff, hostLib, HostLib.truthy, HostImpl.truthy]
  | true => simp [evalExpr, ha lg pt n fuel, hh, hostDiff, hostLib, HostLib.truthy, HostImpl.truthy, hb rfl lg pt n fuel]

theorem EvB.or {a b : Expr} {x y : Bool} (ha : EvB cfg g l h a x) (hb : x = false → EvB cfg g l h b y) :
    EvB cfg g l h (.binary .or a b) (x || y) := by
  intro lg pt n fuel
  cases x with
  | true => simp [evalExpr, ha lg pt n fuel, hh, hostDiff, hostLib, HostLib.truthy, HostImpl.truthy]
  | false => simp [evalExpr, ha lg pt n fuel, hh, hostDiff, hostLib, HostLib.truthy, HostImpl.truthy, hb rfl lg pt n fuel]

theorem EvB.lt {a b : Expr} {i j : Nat} (ha : Ev cfg g l h a (nv i) h) (hb : Ev cfg g l h b (nv j) h) :
    EvB cfg g l h (.binary .lt a b) (decide (i < j)) :=
  Ev.binop hh (by decide) ha hb (fun w => binop_lt_nv w i j)

theorem EvB.ge {a b : Expr} {i j : Nat} (ha : Ev cfg g l h a (nv i) h) (hb : Ev cfg g l h b (nv j) h) :
    EvB cfg g l h (.binary .ge a b) (decide (i ≥ j)) :=
  Ev.binop hh (by decide) ha hb (fun w => binop_ge_nv w i j)

theorem EvB.gt {a b : Expr} {i j : Nat} (ha : Ev cfg g l h a (nv i) h) (hb : Ev cfg g l h b (nv j) h) :
    EvB cfg g l h (.binary .gt a b) (decide (i > j)) :=
  Ev.binop hh (by decide) ha hb (fun w => binop_gt_nv w i j)

theorem EvB.eqStr {a b : Expr} {x y : String} (ha : Ev cfg g l h a (.str x) h) (hb : Ev cfg g l h b (.str y) h) :
    EvB cfg g l h (.binary .eq a b) (decide (x = y)) :=
  Ev.binop hh (by decide) ha hb (fun w => binop_eq_str w x y)

theorem Ev.succ {a : Expr} {i : Nat} (ha : Ev cfg g l h a (nv i) h) :
    Ev cfg g l h (.binary .add a (.number (1 : Rat))) (nv (i + 1)) h :=
  Ev.binop hh (by decide) ha (Ev.num 1) (fun w => binop_add_one w i)

omit hh in
/-- a call of a library function bound in the globals (and not shadowed by a local) -/
theorem Ev.call {name : String} {args : List Expr} {vs : List MValue} {v : MValue}
    (hnif : Name.user name ≠ kwIf) (hargs : EvArgs cfg g l h args vs h1) (hloc : l.get? (.user name) = none)
    (hg : g.get? (.user name) = some (.fn (.lib name))) (hcall : LibCall cfg name vs h1 v h2) :
    Ev cfg g l h (.function (.user name) args) v h2 := by
  intro lg pt n fuel
  have hc : l.contains (.user name) = false := (C04.contains_false_iff _ _).mpr hloc
  have hgc : g.contains (.user name) = true := (C04.contains_true_iff _ _).mpr ⟨_, hg⟩
  simp only [evalExpr, hnif, if_false, hargs lg pt n fuel, lookupFunc, hc, Bool.false_eq_true]
  have e : (mkS g lg pt h1 n).globals = g := rfl
  simp only [e, hgc, if_true, hg]
  exact hcall g lg pt n fuel

end Logic2

/-! ## runs of the statement machine inside a function body (local scope `some l`, globals fixed) -/

section Run
variable (cfg : Config LWorld) (P : List Stmt) (g : Env)

/-- from statement `pc` (locals `l`, heap `h`) the machine reaches statement `pc'` (locals `l'`, heap `h'`): some number `k`
of statements, each burning one unit of fuel and one tick of the counter, for every amount `fuel+1` of spare fuel -/
def Steps (pc : Nat) (l : Env) (h : Heap) (pc' : Nat) (l' : Env) (h' : Heap) : Prop :=
  ∃ k, ∀ lg pt n fuel, execM₀ cfg (fuel+1+k) P (some l) none pc (mkS g lg pt h n) =
    execM₀ cfg (fuel+1) P (some l') none pc' (mkS g lg pt h' (n+k))

/-- from statement `pc` the run of the list ends with `return v`, heap `h'` -/
def Halts (pc : Nat) (l : Env) (h : Heap) (v : MValue) (h' : Heap) : Prop :=
  ∃ k, ∀ lg pt n fuel, execM₀ cfg (fuel+1+k) P (some l) none pc (mkS g lg pt h n) = .ret v (mkS g lg pt h' (n+k))

variable {cfg P g}

theorem Steps.refl (pc : Nat) (l : Env) (h : Heap) : Steps cfg P g pc l h pc l h := ⟨0, fun _ _ _ _ => rfl⟩

theorem Steps.trans {pc pc' pc'' : Nat} {l l' l'' : Env} {h h' h'' : Heap}
    (s1 : Steps cfg P g pc l h pc' l' h') (s2 : Steps cfg P g pc' l' h' pc'' l'' h'') :
    Steps cfg P g pc l h pc'' l'' h'' := by
  obtain ⟨k1, e1⟩ := s1
  obtain ⟨k2, e2⟩ := s2
  refine ⟨k1 + k2, fun lg pt n fuel => ?_⟩
  have hf : fuel + 1 + (k1 + k2) = (fuel + k2) + 1 + k1 := by omega
  have hf2 : fuel + k2 + 1 = fuel + 1 + k2 := by omega
  rw [hf, e1 lg pt n (fuel + k2), hf2, e2 lg pt (n + k1) fuel, Nat.add_assoc]

theorem Steps.halts {pc pc' : Nat} {l l' : Env} {h h' h'' : Heap} {v : MValue}
    (s1 : Steps cfg P g pc l h pc' l' h') (s2 : Halts cfg P g pc' l' h' v h'') : Halts cfg P g pc l h v h'' := by
  obtain ⟨k1, e1⟩ := s1
  obtain ⟨k2, e2⟩ := s2
  refine ⟨k1 + k2, fun lg pt n fuel => ?_⟩
  have hf : fuel + 1 + (k1 + k2) = (fuel + k2) + 1 + k1 := by omega
  have hf2 : fuel + k2 + 1 = fuel + 1 + k2 := by omega
  rw [hf, e1 lg pt n (fuel + k2), hf2, e2 lg pt (n + k1) fuel, Nat.add_assoc]

variable (hmax : cfg.maxStatements = 0)
include hmax

theorem budgetOk (st : State LWorld) : C08.BudgetOk cfg st := by simp [C08.BudgetOk, hmax]

theorem Steps.assign {pc : Nat} {l : Env} {h h' : Heap} {x : Name} {e : Expr} {v : MValue}
    (hP : P[pc]? = some (.expr (some x) e)) (he : Ev cfg g l h e v h') :
    Steps cfg P g pc l h (pc+1) (l.set x v) h' := by
  refine ⟨1, fun lg pt n fuel => ?_⟩
  rw [C08.step_assign_local cfg (fuel+1) P l none pc _ x e hP (budgetOk hmax _)]
  have := he lg pt (n+1) fuel
  simp only [C08.tick, mkS] at this ⊢
  rw [this]

theorem Steps.exprStmt {pc : Nat} {l : Env} {h h' : Heap} {e : Expr} {v : MValue}
    (hP : P[pc]? = some (.expr none e)) (he : Ev cfg g l h e v h') :
    Steps cfg P g pc l h (pc+1) l h' := by
  refine ⟨1, fun lg pt n fuel => ?_⟩
  rw [C08.step_expr cfg (fuel+1) P (some l) none pc _ e hP (budgetOk hmax _)]
  have := he lg pt (n+1) fuel
  simp only [C08.tick, mkS] at this ⊢
  rw [this]

theorem Steps.label {pc : Nat} {l : Env} {h : Heap} {lab : Name} (hP : P[pc]? = some (.label lab)) :
    Steps cfg P g pc l h (pc+1) l h := by
  refine ⟨1, fun lg pt n fuel => ?_⟩
  rw [C08.step_label cfg (fuel+1) P (some l) none pc _ lab hP (budgetOk hmax _)]
  rfl

theorem Steps.jump {pc t : Nat} {l : Env} {h : Heap} {lab : Name} (hP : P[pc]? = some (.jump lab none))
    (hl : findLabel P lab = some t) : Steps cfg P g pc l h (t+1) l h := by
  refine ⟨1, fun lg pt n fuel => ?_⟩
  rw [C08.jump_taken cfg (fuel+1) P (some l) none pc _ lab hP (budgetOk hmax _), hl]
  rfl

variable (hh : cfg.host = hostDiff)
include hh

/-- a conditional jump whose condition is truthy / falsy -/
theorem Steps.jumpif {pc t : Nat} {l : Env} {h h' : Heap} {lab : Name} {c : Expr} {v : MValue} {b : Bool}
    (hP : P[pc]? = some (.jump lab (some c))) (hl : findLabel P lab = some t) (he : Ev cfg g l h c v h') (ht : Tr v h' b) :
    Steps cfg P g pc l h (if b then t+1 else pc+1) l h' := by
  refine ⟨1, fun lg pt n fuel => ?_⟩
  rw [C08.jumpif_step cfg (fuel+1) P (some l) none pc _ lab c hP (budgetOk hmax _)]
  have := he lg pt (n+1) fuel
  simp only [C08.tick, mkS] at this ⊢
  rw [this]
  have htr : cfg.host.truthy v ({ globals := g, world := { heap := h', log := lg, partials := pt }, count := n + 1 } : State LWorld).world = b := by
    rw [hh]; exact ht lg pt
  simp only [htr, hl]
  cases b <;> simp

theorem Steps.jumpifB {pc t : Nat} {l : Env} {h : Heap} {lab : Name} {c : Expr} {b : Bool}
    (hP : P[pc]? = some (.jump lab (some c))) (hl : findLabel P lab = some t) (he : EvB cfg g l h c b) :
    Steps cfg P g pc l h (if b then t+1 else pc+1) l h :=
  Steps.jumpif hmax hh hP hl he (Tr.bool b h)

theorem Steps.jumpifT {pc t : Nat} {l : Env} {h h' : Heap} {lab : Name} {c : Expr} {v : MValue}
    (hP : P[pc]? = some (.jump lab (some c))) (hl : findLabel P lab = some t) (he : Ev cfg g l h c v h') (ht : Tr v h' true) :
    Steps cfg P g pc l h (t+1) l h' := Steps.jumpif hmax hh hP hl he ht

theorem Steps.jumpifF {pc t : Nat} {l : Env} {h h' : Heap} {lab : Name} {c : Expr} {v : MValue}
    (hP : P[pc]? = some (.jump lab (some c))) (hl : findLabel P lab = some t) (he : Ev cfg g l h c v h') (ht : Tr v h' false) :
    Steps cfg P g pc l h (pc+1) l h' := Steps.jumpif hmax hh hP hl he ht

theorem Steps.jumpifBT {pc t : Nat} {l : Env} {h : Heap} {lab : Name} {c : Expr} {b : Bool}
    (hP : P[pc]? = some (.jump lab (some c))) (hl : findLabel P lab = some t) (he : EvB cfg g l h c b) (hb : b = true) :
    Steps cfg P g pc l h (t+1) l h := by
  subst hb; exact Steps.jumpifT hmax hh hP hl he (Tr.bool true h)

theorem Steps.jumpifBF {pc t : Nat} {l : Env} {h : Heap} {lab : Name} {c : Expr} {b : Bool}
    (hP : P[pc]? = some (.jump lab (some c))) (hl : findLabel P lab = some t) (he : EvB cfg g l h c b) (hb : b = false) :
    Steps cfg P g pc l h (pc+1) l h := by
  subst hb; exact Steps.jumpifF hmax hh hP hl he (Tr.bool false h)

omit hh in
theorem Halts.ret {pc : Nat} {l : Env} {h h' : Heap} {e : Expr} {v : MValue}
    (hP : P[pc]? = some (.ret (some e))) (he : Ev cfg g l h e v h') : Halts cfg P g pc l h v h' := by
  refine ⟨1, fun lg pt n fuel => ?_⟩
  rw [C08.step_return_some cfg (fuel+1) P (some l) none pc _ e hP (budgetOk hmax _)]
  have := he lg pt (n+1) fuel
  simp only [C08.tick, mkS] at this ⊢
  rw [this]

end Run

end C20Prog
