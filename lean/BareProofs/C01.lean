import BareModel.Structured
namespace C01
end C01
