import BareProofs.C01Parse
import BareProofs.C01Exact

/-!
# C01 — structured control flow runs with its source-level meaning

Property theorems (helper lemmas live in `C01ParseLemmas`, `C01Parse`, `C01Lemmas`, `C01Exact`):

* **T1 `C01.parseLines_render`** — the line-at-a-time stack/counter algorithm of `parse_script` (mirror `Lower.parseLines`)
  computes exactly the recursive lowering `lowerProgram`, for every well-nested structured program of any depth/size;
  **`C01.parse_rejects_ill_nested`** — and rejects exactly the ill-nested ones.
* **T2 `C01.lower_exact` / `C01.execute₀_lowered` / `C01.lower_exact_body`** — the jump machine on the lowered code *is*
  the ticked structured semantics `execT` (an equation between functions of fuel, counter, locals and state: return
  value, every effect, the statement count, divergence and budget exhaustion are all preserved), globally and for
  function bodies.
* **`C01.parse_then_run`** (below) — the composition: parsing the rendered program succeeds and executing the result
  equals the structured run.
* T3 (`C01Erase`, separate module): erasure of ticks and hidden `for` variables to the plain source-level reading.

Hypotheses are decidable predicates on the structured program: `WellNested` (what the parser accepts), `FidsInOrder`
(function definitions numbered in source order, as the parser numbers them), `NoAdjacentIncludes` (consecutive include
lines are merged into one statement by the parser, so adjacent `include` nodes are one node), `NoRawB` (no raw
`label`/`jump` statements: C01 quantifies over structured programs).
-/

namespace C01
open Machine Lower Structured

variable {W : Type} (cfg : Config W) (base : Option String)

/-- **C01 (machine level)**: for every structured program, `parse_script` of its source lines succeeds with the
recursive lowering, and running that model from a fresh counter equals the (ticked) structured run of the source. -/
theorem parse_then_run (B : List SStmt) (hw : WellNested B) (hf : FidsInOrder B) (hi : NoAdjacentIncludes B)
    (hr : NoRawB B) (fuel : Nat) (st : State W) :
    ∃ P, parseLines (renderB B) = .ok P ∧
      execute₀ cfg fuel P base st =
        toRes (execTB cfg (callValue₀ cfg) (execIncludes₀ cfg) false B 0 fuel none base { st with count := 0 }) :=
  ⟨lowerProgram B, parseLines_render B hw hf hi, execute₀_lowered cfg base B hr fuel st⟩

/-- the loop condition is re-tested before every iteration that is reached by falling through the body (the exception,
`continue` inside `while`, is known finding F7 and is what `loopW` encodes) — unfolding of the definition, kept here
so that the statement the theorem is about is visible next to it -/
theorem while_retests_after_body (cv : CallAt W) (c : Expr) (body : Nat → Option Env → State W → TOut W)
    (n fuel : Nat) (l : Option Env) (st : State W) (l1 : Option Env) (st1 : State W) (f1 : Nat)
    (h : body fuel l st = .norm l1 st1 f1) :
    loopW cfg cv c body (n+1) fuel l st =
      stmtCond cfg cv c f1 l1 st1 fun taken f2 st2 =>
        if taken then loopW cfg cv c body n f2 l1 st2 else stmtSkip cfg f2 l1 st2 := by
  simp only [loopW, h]

/-- F7 as a theorem about the code as it is: `continue` in a `while` body restarts the body without testing `c` -/
theorem while_continue_actual (cv : CallAt W) (c : Expr) (body : Nat → Option Env → State W → TOut W)
    (n fuel : Nat) (l : Option Env) (st : State W) (l1 : Option Env) (st1 : State W) (f1 : Nat)
    (h : body fuel l st = .cont l1 st1 f1) :
    loopW cfg cv c body (n+1) fuel l st = loopW cfg cv c body n f1 l1 st1 := by
  simp only [loopW, h]

end C01
