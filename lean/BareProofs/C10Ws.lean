import BareProofs.C02
import BareProofs.C10
import BareProofs.C10WsLemmas

/-!
# C10 — white space and the expression parser (`ExprParse.parseExpr`): the layout theorems made unconditional

`BareProofs/C10.lean` proves that indentation does not matter *given* `SkipsLeadingBlanks parseExpr`, and trailing blanks
for the statement kinds whose expression text does not reach the end of the line.  Here the hypothesis is discharged for
the expression parser model of C02, and the remaining cases are closed, for **all** texts (no bound on length or nesting):

* `parseExpr_fuel`                 more fuel than the text length does not change `_parse_binary_expression`
* `parseExpr_leading_blanks`       `parseExpr (ws ++ s)` = `parseExpr s`; an error column `c ↦ if c = 1 then 1 else c + |ws|`
* `parseExpr_skips_leading_blanks` hence `SkipsLeadingBlanks ExprParse.parseExpr`, and
  `leading_ws_irrelevant_parseExpr` / `_classify` — `C10.leading_ws_irrelevant` without hypothesis
* `parseExpr_gap`                  one blank run outside string literals and bracketed names (`Gap`) replaced by another:
                                   same tree; same error text, column unchanged in front of the run and moved by the
                                   difference of the lengths behind it
* `parseExpr_trailing_blanks`      `parseExpr (s ++ ws) = parseExpr s` (tree *and* error, column included)
* `shape_append_ws`, `trailing_ws_irrelevant`   trailing blanks after **every** statement kind of the cascade: the
                                   classified line is *equal*; one exclusion — a line whose last non-blank character is
                                   `=` (where the Python really differs: `a =` / `a = `)
* `parseExpr_blank_stretch(_at)`   an inter-token blank may be stretched / shrunk without changing the tree; the position is
                                   given by the inductive `Gap` or checked by the executable `topLevelAt` (`gap_of_topLevelAt`)
* `classifyL_gap`, `shape_assign_replace`   the same through `classify`: for every statement kind if the statement pattern
                                   captures the same groups around the blank run (a hypothesis), for assignments outright
* `continuation_break_line`, `continuation_break_irrelevant(_assign)`   a line broken with a backslash at an inter-token
                                   blank of its expression: the physical lines give the logical line joined by one blank,
                                   and that line classifies like the unbroken one

White space: the line scanners use `Text.isSpace`, the token scanners `ExprScan.isPySpace`; the two are the same function
(`isPySpace_eq_isSpace`, by `rfl`: the 29 code points of `str.isspace`), so "blank" means the same on both sides.

How: `BareProofs/C10WsLemmas.lean` — the parser looks at the text only through ten scanners; a relation on remaining
texts that all scanners respect is respected by the parser (`parseUnary_rel`, induction on fuel); `Lead` and `GapR` are
such relations (`lead_respects`, `gap_respects`); fuel is irrelevant beyond the text length (`parseBinary_more` with
`C02.fuel_sufficient`), so texts of different lengths can be run at a common fuel.
-/

namespace C10
open ExprScan ExprParse

/-! ## fuel -/

/-- **Fuel**: `_parse_binary_expression` with more fuel than the length of the text gives what it gives with exactly that
much (with `C02.fuel_sufficient`: the fuel marker never shows, so nothing depends on the fuel at all). -/
theorem parseExpr_fuel (t : List Char) (k : Nat) : parseBinary (t.length + k) t = parseBinary t.length t :=
  parseBinary_more _ _ _ (fun l => (C02.fuel_sufficient t.length t (Nat.le_refl _) l).2)

example : parseBinary 40 "a + b".toList = parseBinary 5 "a + b".toList := parseExpr_fuel "a + b".toList 35

/-- apply `f` to the column of an error -/
def mapCol (f : Nat → Nat) : Except ParseErr Expr → Except ParseErr Expr
  | .ok e => .ok e
  | .error e => .error { e with column := f e.column }

theorem EqUpToColumn_mapCol (f : Nat → Nat) (r : Except ParseErr Expr) : EqUpToColumn (mapCol f r) r := by
  cases r <;> simp [EqUpToColumn, mapCol]

/-! ## leading blanks -/

/-- **Leading blanks, exactly**: blanks in front of an expression text do not change the tree; an error keeps its text and
its column moves by the number of blanks — except an error at the very start of the text (column 1: nothing at all could
be parsed, parser.py reports the whole text), which stays at column 1. -/
theorem parseExprL_leading_blanks (ws s : List Char) (hws : Blank ws) :
    parseExprL (ws ++ s) = mapCol (fun c => if c = 1 then 1 else c + ws.length) (parseExprL s) := by
  have hrel := parseBinary_rel (lead_respects (s := s) hws) (s.length + ws.length) s (ws ++ s) (Or.inl ⟨rfl, rfl⟩)
  have e1 : parseBinary (ws ++ s).length (ws ++ s) = parseBinary (s.length + ws.length) (ws ++ s) := by
    rw [List.length_append, Nat.add_comm]
  unfold parseExprL
  rw [e1, ← parseExpr_fuel s ws.length]
  cases h1 : parseBinary (s.length + ws.length) s <;> cases h2 : parseBinary (s.length + ws.length) (ws ++ s) <;>
    simp only [h1, h2, RRel] at hrel ⊢
  · rename_i a b
    obtain ⟨m, l⟩ := a; obtain ⟨m', l'⟩ := b
    obtain ⟨rfl, hl⟩ : m = m' ∧ LeadR ws s l l' := hrel
    simp only [mapCol, List.length_append]
    rcases hl with ⟨rfl, rfl⟩ | ⟨rfl, hlen⟩
    · simp
    · have : ¬ (s.length - l.length + 1 = 1) := by omega
      simp only [this, if_false]
      congr 2; omega
  · rename_i a b
    obtain ⟨e, nt⟩ := a; obtain ⟨e', nt'⟩ := b
    obtain ⟨rfl, hl⟩ : e = e' ∧ LeadR ws s nt nt' := hrel
    rcases hl with ⟨rfl, rfl⟩ | ⟨rfl, hlen⟩
    · rw [skipWs_blank_append hws]
      split
      · rfl
      · simp [mapCol]
    · split
      · rfl
      · have : ¬ (s.length - nt.length + 1 = 1) := by omega
        simp only [mapCol, List.length_append, this, if_false]
        congr 2; omega

theorem parseExpr_leading_blanks (ws s : List Char) (h : Text.allSpace ws = true) :
    parseExpr (String.ofList (ws ++ s)) =
      mapCol (fun c => if c = 1 then 1 else c + ws.length) (parseExpr (String.ofList s)) := by
  simp only [parseExpr, String.toList_ofList]
  exact parseExprL_leading_blanks ws s (blank_of_allSpace h)

/-- a column behind the blanks moves by their number (here 4: blank, tab, U+3000, blank); column 1 stays -/
example : parseExpr (String.ofList (" \t　 ".toList ++ "a b".toList)) =
    mapCol (fun c => if c = 1 then 1 else c + 4) (parseExpr (String.ofList "a b".toList)) :=
  parseExpr_leading_blanks " \t　 ".toList "a b".toList (by decide)
example : parseExpr " \t　 a b" = .error ⟨"Syntax error", 6⟩ ∧ parseExpr "a b" = .error ⟨"Syntax error", 2⟩ := by
  constructor <;> kernel_rfl
example : parseExpr "   )" = .error ⟨"Syntax error", 1⟩ ∧ parseExpr ")" = .error ⟨"Syntax error", 1⟩ := by
  constructor <;> kernel_rfl

/-- **The hypothesis of `C10.leading_ws_irrelevant`, discharged** for the expression parser model of C02
(`ExprParse.parseExpr`): with blanks (`Text.isSpace` = `ExprScan.isPySpace`) in front, the same tree or the same error
text. -/
theorem parseExpr_skips_leading_blanks : SkipsLeadingBlanks ExprParse.parseExpr := by
  intro ws s h
  rw [parseExpr_leading_blanks ws s h]
  exact EqUpToColumn_mapCol _ _

section
attribute [local irreducible] EqUpToColumn
/-- (`EqUpToColumn` is made irreducible around the concrete examples only to keep the elaborator from *evaluating* the
parser on the literal when it looks at the type) -/
example : EqUpToColumn (parseExpr (String.ofList ("\t  ".toList ++ "ff(x, 'a  b')".toList)))
    (parseExpr (String.ofList "ff(x, 'a  b')".toList)) :=
  parseExpr_skips_leading_blanks "\t  ".toList "ff(x, 'a  b')".toList (by decide)
end

/-- **Indentation is irrelevant** for every line, for the classifier instantiated with the expression parser — no
hypothesis left.  (Up to the error column; `leading_ws_irrelevant_stmt` and `parseExpr_leading_blanks` say exactly how
it moves.) -/
theorem leading_ws_irrelevant_parseExpr (ws l : List Char) (h : Text.allSpace ws = true) :
    EqUpToColumn (Scan.classifyL ExprParse.parseExpr (ws ++ l)) (Scan.classifyL ExprParse.parseExpr l) :=
  leading_ws_irrelevant ExprParse.parseExpr parseExpr_skips_leading_blanks ws l h

/-- … at the `String` interface -/
theorem leading_ws_irrelevant_classify (ws l : List Char) (h : Text.allSpace ws = true) :
    EqUpToColumn (Scan.classify ExprParse.parseExpr (String.ofList (ws ++ l)))
      (Scan.classify ExprParse.parseExpr (String.ofList l)) := by
  simp only [Scan.classify, String.toList_ofList]
  exact leading_ws_irrelevant_parseExpr ws l h

section
attribute [local irreducible] EqUpToColumn
example : EqUpToColumn (Scan.classifyL parseExpr ("\t  ".toList ++ "ff(x, 'a  b')".toList))
    (Scan.classifyL parseExpr "ff(x, 'a  b')".toList) :=
  leading_ws_irrelevant_parseExpr "\t  ".toList "ff(x, 'a  b')".toList (by decide)
example : EqUpToColumn (Scan.classify parseExpr (String.ofList ("\t  ".toList ++ "ff(x, 'a  b')".toList)))
    (Scan.classify parseExpr (String.ofList "ff(x, 'a  b')".toList)) :=
  leading_ws_irrelevant_classify "\t  ".toList "ff(x, 'a  b')".toList (by decide)
end

/-! ## one blank run replaced by another -/

theorem GapR.isEmpty {ws ws' q : List Char} (ok : GapOK ws ws' q) {t t' : List Char} (h : GapR ws ws' q t t') :
    (skipWs t).isEmpty = (skipWs t').isEmpty := by
  rcases h with hg | ⟨rfl, _⟩
  · rcases hg.skipWs ok with ⟨he, _⟩ | ⟨d, r, r', _, e1, e2, _⟩
    · rw [he]
    · rw [e1, e2]; rfl
  · rfl

/-- **A blank run outside string literals and bracketed names** (`Gap ws ws' q cs cs'`: `cs = a ++ ws ++ q`,
`cs' = a ++ ws' ++ q`, both runs blank and non-empty — or any blank runs at the very end of the text) can be replaced by
another: same tree.  An error keeps its text; its column is unchanged if it is in front of the run (or points at it) and
moves by `|ws'| - |ws|` if it is behind. -/
theorem parseExprL_gap {ws ws' q cs cs' : List Char} (ok : GapOK ws ws' q) (h : Gap ws ws' q cs cs') :
    parseExprL cs' =
      mapCol (fun c => if c + (ws.length + q.length) ≤ cs.length + 1 then c else c + ws'.length - ws.length)
        (parseExprL cs) := by
  obtain ⟨hlen, hle⟩ := h.length
  let F := cs.length + cs'.length
  have hrel := parseBinary_rel (gap_respects ok) F cs cs' (Or.inl h)
  have e1 : parseBinary cs'.length cs' = parseBinary F cs' := by
    rw [show F = cs'.length + cs.length from Nat.add_comm _ _, parseExpr_fuel]
  have e2 : parseBinary cs.length cs = parseBinary F cs := by rw [parseExpr_fuel]
  unfold parseExprL
  rw [e1, e2]
  cases h1 : parseBinary F cs <;> cases h2 : parseBinary F cs' <;> simp only [h1, h2, RRel] at hrel ⊢
  · rename_i a b
    obtain ⟨m, l⟩ := a; obtain ⟨m', l'⟩ := b
    obtain ⟨rfl, hl⟩ : m = m' ∧ GapR ws ws' q l l' := hrel
    simp only [mapCol]
    rcases hl with hg | ⟨rfl, hlt⟩
    · obtain ⟨k1, k2⟩ := hg.length
      have : cs.length - l.length + 1 + (ws.length + q.length) ≤ cs.length + 1 := by omega
      simp only [this, if_true]
      congr 2; omega
    · have : ¬ (cs.length - l.length + 1 + (ws.length + q.length) ≤ cs.length + 1) := by omega
      simp only [this, if_false]
      congr 2; omega
  · rename_i a b
    obtain ⟨e, nt⟩ := a; obtain ⟨e', nt'⟩ := b
    obtain ⟨rfl, hl⟩ : e = e' ∧ GapR ws ws' q nt nt' := hrel
    rw [← GapR.isEmpty ok hl]
    split
    · rfl
    · simp only [mapCol]
      rcases hl with hg | ⟨rfl, hlt⟩
      · obtain ⟨k1, k2⟩ := hg.length
        have : cs.length - nt.length + 1 + (ws.length + q.length) ≤ cs.length + 1 := by omega
        simp only [this, if_true]
        congr 2; omega
      · have : ¬ (cs.length - nt.length + 1 + (ws.length + q.length) ≤ cs.length + 1) := by omega
        simp only [this, if_false]
        congr 2; omega

theorem parseExpr_gap {ws ws' q cs cs' : List Char} (ok : GapOK ws ws' q) (h : Gap ws ws' q cs cs') :
    parseExpr (String.ofList cs') =
      mapCol (fun c => if c + (ws.length + q.length) ≤ cs.length + 1 then c else c + ws'.length - ws.length)
        (parseExpr (String.ofList cs)) := by
  simp only [parseExpr, String.toList_ofList]
  exact parseExprL_gap ok h

/-- a site by hand (three ordinary characters, then the site) … -/
example : Gap " ".toList "   ".toList "b".toList "a + b".toList "a +   b".toList :=
  .cons 'a' rfl (.cons ' ' rfl (.cons '+' rfl .site))
/-- … and found by the executable test: offset 10 of `ff('a  b') + c` is outside the literal, offset 6 is inside it;
the same for a bracketed name -/
example : topLevelAt 14 10 "ff('a  b') + c".toList = true := by kernel_rfl
example : topLevelAt 14 6 "ff('a  b') + c".toList = false := by kernel_rfl
example : topLevelAt 9 6 "[a  b]  c".toList = true := by kernel_rfl
example : topLevelAt 9 2 "[a  b]  c".toList = false := by kernel_rfl
example := parseExpr_gap (ws := " ".toList) (ws' := " \t  ".toList) (q := "+ c".toList)
    ⟨blank_of_allSpace (by decide), blank_of_allSpace (by decide), Or.inl ⟨by simp, by simp⟩⟩
    (gap_of_topLevelAt _ _ _ 14 10 "ff('a  b') + c".toList "ff('a  b')".toList (by kernel_rfl) rfl rfl)
/-- the conclusion on this instance, and that it fails inside the literal -/
example : parseExpr "ff('a  b') \t  + c" = parseExpr "ff('a  b') + c" := by kernel_rfl
example : parseExpr "ff('a  b') + c" ≠ parseExpr "ff('a b') + c" := by
  have e1 : parseExpr "ff('a  b') + c" =
      .ok (.binary .add (.function (.user "ff") [.string "a  b"]) (.variable (.user "c"))) := by kernel_rfl
  have e2 : parseExpr "ff('a b') + c" =
      .ok (.binary .add (.function (.user "ff") [.string "a b"]) (.variable (.user "c"))) := by kernel_rfl
  rw [e1, e2]; intro h; simp at h

/-! ## trailing blanks -/

/-- every text can be read up to its end (`Gap` with the site at the end of the text) -/
theorem gap_trailing (ws : List Char) : ∀ (n : Nat) (s : List Char), s.length ≤ n → Gap [] ws [] s (s ++ ws) := by
  intro n
  induction n with
  | zero =>
    intro s hs
    have : s = [] := List.length_eq_zero_iff.mp (by omega)
    subst this
    simpa using (Gap.site : Gap [] ws [] ([] ++ []) (ws ++ []))
  | succ n ih =>
    intro s hs
    cases s with
    | nil => simpa using (Gap.site : Gap [] ws [] ([] ++ []) (ws ++ []))
    | cons c s1 =>
      have hs1 : s1.length ≤ n := by simpa using hs
      by_cases hsp : special c = false
      · exact Gap.cons c hsp (ih s1 hs1)
      · have hcase : (c = '\'' ∨ c = '"') ∨ c = '[' := by
          by_cases h1 : c = '\''
          · exact Or.inl (Or.inl h1)
          · by_cases h2 : c = '"'
            · exact Or.inl (Or.inr h2)
            · by_cases h3 : c = '['
              · exact Or.inr h3
              · exfalso; apply hsp; simp [special, h1, h2, h3]
        rcases hcase with hq | rfl
        · cases hb : strBody c s1 with
          | none => exact Gap.strFail c hq ((strBody_none_iff c s1).mp hb) (ih s1 hs1)
          | some x =>
            obtain ⟨raw, rest⟩ := x
            have hx := (strBody_local c _ _ _ hb).1
            have hr : rest.length ≤ n := by rw [hx] at hs1; simp at hs1; omega
            have := Gap.str c raw hq (by rw [← hx]; exact hb) (ih rest hr)
            rw [hx]; simpa using this
        · cases hb : brTail s1 with
          | none => exact Gap.brFail hb (ih s1 hs1)
          | some x =>
            obtain ⟨nm, rest⟩ := x
            obtain ⟨lit, _, hx, _⟩ := brTail_local _ _ _ hb
            have hr : rest.length ≤ n := by rw [hx] at hs1; simp at hs1; omega
            have := Gap.br lit nm (by rw [← hx]; exact hb) (ih rest hr)
            rw [hx]; simpa using this

theorem parseExprL_column_le (cs : List Char) (e : ParseErr) (h : parseExprL cs = .error e) : e.column ≤ cs.length + 1 := by
  unfold parseExprL at h
  split at h
  · split at h
    · cases h
    · cases h; simp only; omega
  · cases h; simp only; omega

/-- **Trailing blanks, exactly**: blanks behind an expression text change nothing — same tree, same error, same column. -/
theorem parseExprL_trailing_blanks (s ws : List Char) (hws : Blank ws) : parseExprL (s ++ ws) = parseExprL s := by
  have ok : GapOK [] ws [] := ⟨Blank.nil, hws, Or.inr rfl⟩
  rw [parseExprL_gap ok (gap_trailing ws s.length s (Nat.le_refl _))]
  cases hp : parseExprL s with
  | ok e => rfl
  | error e =>
    have := parseExprL_column_le s e hp
    simp only [mapCol, List.length_nil, Nat.add_zero, Nat.sub_zero, this, if_true]

theorem parseExpr_trailing_blanks (s ws : List Char) (h : Text.allSpace ws = true) :
    parseExpr (String.ofList (s ++ ws)) = parseExpr (String.ofList s) := by
  simp only [parseExpr, String.toList_ofList]
  exact parseExprL_trailing_blanks s ws (blank_of_allSpace h)


example : parseExpr (String.ofList ("a +".toList ++ " \t ".toList)) = parseExpr (String.ofList "a +".toList) :=
  parseExpr_trailing_blanks "a +".toList " \t ".toList (by decide)
example : parseExpr "a + \t " = .error ⟨"Syntax error", 4⟩ ∧ parseExpr "a +" = .error ⟨"Syntax error", 4⟩ := by
  constructor <;> kernel_rfl

end C10

namespace C10
open Text Scan

/-! ## trailing blanks: every statement kind -/

/-- **The regex cascade and trailing blanks** (`shape`, any indentation): same statement kind, same groups, same
offsets; the expression text of an assignment or a `return` (it runs to the end of the line) gets the blanks. -/
theorem shape_append_ws (l ws : Chars) (h : allSpace ws = true) (hne : lastNS l ≠ some '=') :
    shape (l ++ ws) = addTrailS ws (shape l) := by
  unfold shape
  simp only [lstrip_append_right l ws h]
  by_cases hl : lstripL l = []
  · have : shapeS [] = .exprStmt := by decide
    simp [hl, this, Shape.shift, addTrailS]
  · simp only [hl, if_false]
    rw [shapeS_append_ws h _ (by rw [lastNS_lstrip]; exact hne), addTrailS_shift, List.length_append, List.length_append]
    have := lstrip_length_le l
    congr 2; omega

/-- **Trailing blanks are irrelevant** for every statement kind of the cascade — assignment, function begin, the
keyword-only statements, `if`/`elif`/`else`/`while`/`for` headers, labels, `jump`/`jumpif`, `return`, both `include`
forms and expression statements: with the expression parser model, the classified line is *equal* (same statement, same
expression trees, same error text and the same error column).  The one exclusion is a line whose last non-blank
character is `=` (`a =` is the expression statement `a =`; `a = ` is the assignment of the expression `' '`: both are
syntax errors, reported at different columns — this is the behaviour of the Python regex, not an artefact). -/
theorem trailing_ws_irrelevant (l ws : Chars) (h : allSpace ws = true) (hne : lastNS l ≠ some '=') :
    classifyL ExprParse.parseExpr (l ++ ws) = classifyL ExprParse.parseExpr l := by
  unfold classifyL
  rw [shape_append_ws l ws h hne]
  cases shape l with
  | assign n off e => simp only [addTrailS, parseExpr_trailing_blanks e ws h]
  | ret c => cases c with
    | none => rfl
    | some p => obtain ⟨off, e⟩ := p; simp only [addTrailS, parseExpr_trailing_blanks e ws h]
  | jump n c => cases c with
    | none => rfl
    | some p => rfl
  | exprStmt => simp only [addTrailS, parseExpr_trailing_blanks l ws h]
  | _ => rfl

example : classifyL ExprParse.parseExpr ("  x = ff(1, 'a ')".toList ++ " \t".toList) =
    classifyL ExprParse.parseExpr "  x = ff(1, 'a ')".toList :=
  trailing_ws_irrelevant "  x = ff(1, 'a ')".toList " \t".toList (by decide) (by decide)
example : classifyL ExprParse.parseExpr ("for v, i in arr :".toList ++ "  ".toList) =
    classifyL ExprParse.parseExpr "for v, i in arr :".toList :=
  trailing_ws_irrelevant _ _ (by decide) (by decide)
example : classifyL ExprParse.parseExpr ("async function ff(a, b...) :".toList ++ "\t".toList) =
    classifyL ExprParse.parseExpr "async function ff(a, b...) :".toList :=
  trailing_ws_irrelevant _ _ (by decide) (by decide)
/-- the excluded line: the hypothesis fails, and so does the conclusion (different statement kind, different column) -/
example : lastNS "a =".toList = some '=' ∧
    shape "a =".toList = .exprStmt ∧ shape "a = ".toList = .assign "a".toList 3 " ".toList := by decide
example : classifyL ExprParse.parseExpr "a =".toList = .error ⟨"Syntax error", 2⟩ ∧
    classifyL ExprParse.parseExpr "a = ".toList = .error ⟨"Syntax error", 4⟩ := by constructor <;> kernel_rfl

/-! ## a blank run inside the expression of a statement -/

/-- the expression text a statement pattern captured (for an expression statement: the line) -/
def lineExpr (l : Chars) : Option Chars :=
  match shape l with
  | .assign _ _ e => some e
  | .ifBegin _ e => some e
  | .elif _ e => some e
  | .whileBegin _ e => some e
  | .forBegin _ _ _ e => some e
  | .jump _ (some (_, e)) => some e
  | .ret (some (_, e)) => some e
  | .exprStmt => some l
  | _ => none

/-- the same statement with another expression text at the same place -/
def _root_.Scan.Shape.withExpr (e' : Chars) : Shape → Shape
  | .assign n off _ => .assign n off e'
  | .ifBegin off _ => .ifBegin off e'
  | .elif off _ => .elif off e'
  | .whileBegin off _ => .whileBegin off e'
  | .forBegin v i off _ => .forBegin v i off e'
  | .jump n (some (off, _)) => .jump n (some (off, e'))
  | .ret (some (off, _)) => .ret (some (off, e'))
  | s => s

theorem EqUpToColumn_shift_mapCol {α : Type} (off : Nat) (g : Nat → Nat) (f : Expr → α) (r : Except ParseErr Expr) :
    EqUpToColumn ((shiftErr off (mapCol g r)).map f) ((shiftErr off r).map f) := by
  cases r <;> simp [EqUpToColumn, mapCol, shiftErr, Except.map]

/-- **A blank run inside the expression of a statement** (outside string literals and bracketed names) replaced by
another: if the statement pattern captures the same groups around it (`shape l' = (shape l).withExpr e'`; proved for
assignments in `shape_assign_replace`), the classified line is the same, up to the error column. -/
theorem classifyL_gap {l l' e e' ws ws' q : Chars} (ok : GapOK ws ws' q) (h1 : lineExpr l = some e)
    (h2 : lineExpr l' = some e') (h3 : shape l' = (shape l).withExpr e') (hg : Gap ws ws' q e e') :
    EqUpToColumn (classifyL ExprParse.parseExpr l') (classifyL ExprParse.parseExpr l) := by
  have key := parseExpr_gap ok hg
  unfold lineExpr at h1 h2
  unfold classifyL
  cases hs : shape l with
  | assign n off x =>
    rw [hs] at h1 h3; simp only [Option.some.injEq] at h1; subst h1
    simp only [h3, Shape.withExpr, key]; exact EqUpToColumn_shift_mapCol _ _ _ _
  | ifBegin off x =>
    rw [hs] at h1 h3; simp only [Option.some.injEq] at h1; subst h1
    simp only [h3, Shape.withExpr, key]; exact EqUpToColumn_shift_mapCol _ _ _ _
  | elif off x =>
    rw [hs] at h1 h3; simp only [Option.some.injEq] at h1; subst h1
    simp only [h3, Shape.withExpr, key]; exact EqUpToColumn_shift_mapCol _ _ _ _
  | whileBegin off x =>
    rw [hs] at h1 h3; simp only [Option.some.injEq] at h1; subst h1
    simp only [h3, Shape.withExpr, key]; exact EqUpToColumn_shift_mapCol _ _ _ _
  | forBegin v ix off x =>
    rw [hs] at h1 h3; simp only [Option.some.injEq] at h1; subst h1
    simp only [h3, Shape.withExpr, key]; exact EqUpToColumn_shift_mapCol _ _ _ _
  | jump n c =>
    cases c with
    | none => rw [hs] at h1; simp at h1
    | some p =>
      obtain ⟨off, x⟩ := p
      rw [hs] at h1 h3; simp only [Option.some.injEq] at h1; subst h1
      simp only [h3, Shape.withExpr, key]; exact EqUpToColumn_shift_mapCol _ _ _ _
  | ret c =>
    cases c with
    | none => rw [hs] at h1; simp at h1
    | some p =>
      obtain ⟨off, x⟩ := p
      rw [hs] at h1 h3; simp only [Option.some.injEq] at h1; subst h1
      simp only [h3, Shape.withExpr, key]; exact EqUpToColumn_shift_mapCol _ _ _ _
  | exprStmt =>
    rw [hs] at h1 h3; simp only [Option.some.injEq] at h1; subst h1
    simp only [Shape.withExpr] at h3
    rw [h3] at h2; simp only [Option.some.injEq] at h2; subst h2
    simp only [h3, key]
    have := EqUpToColumn_shift_mapCol 0 (fun c => if c + (ws.length + q.length) ≤ l.length + 1 then c else c + ws'.length - ws.length)
      Line.exprStmt (ExprParse.parseExpr (String.ofList l))
    cases hp : ExprParse.parseExpr (String.ofList l) <;> simp [EqUpToColumn, mapCol, Except.map]
  | _ => rw [hs] at h1; simp at h1

/-- **Assignments**: whatever non-empty expression text (starting with a non-blank) replaces the captured one, the
assignment pattern captures it in the same way — same name, same offset. -/
theorem shape_assign_replace {l name e : Chars} {off : Nat} (h : shape l = .assign name off e) (he : lstripL e = e)
    (e' : Chars) (he' : lstripL e' = e') (hne' : e' ≠ []) :
    l = l.take off ++ e ∧ shape (l.take off ++ e') = .assign name off e' := by
  obtain ⟨bl, hbl, hl⟩ := lstrip_decomp l
  have hk : l.length - (lstripL l).length = bl.length := by
    have := congrArg List.length hl; simp at this; omega
  unfold shape at h
  simp only at h
  obtain ⟨off0, hs, rfl⟩ := shift_assign_inv h
  obtain ⟨r1, r2, r3⟩ := assign?_replace (shapeS_assign_inv hs) he e' he' hne'
  rw [hk]
  have htake : l.take (off0 + bl.length) = bl ++ (lstripL l).take off0 := by
    conv => lhs; rw [hl]
    rw [List.take_append, List.take_of_length_le (by omega)]
    congr 2; omega
  rw [htake]
  constructor
  · conv => lhs; rw [hl, r1]
    simp
  · rw [List.append_assoc, shape_leading_ws _ hbl]
    unfold shape
    simp only [assign?_lstrip r3, shapeS_of_assign r3, Nat.sub_self, Shape.shift, Nat.add_zero]

example : shape ("  x = ".toList ++ "g(2)  + 1".toList) = .assign "x".toList 6 "g(2)  + 1".toList :=
  (shape_assign_replace (l := "  x = ff(1)".toList) (name := "x".toList) (e := "ff(1)".toList) (off := 6) (by decide)
    (by decide) "g(2)  + 1".toList (by decide) (by simp)).2

/-! ## line continuation -/

/-- **Where the line is broken**: the physical lines `p \` and `q` — with any blanks before and after the backslash and
any indentation of the second line — are the one logical line `p q`, joined by a single blank. -/
theorem continuation_break_line (i ix : Nat) (p q ws1 tr ind : Chars) (rest : List Chars)
    (hp : rstripL p = p) (hq : stripL q = q) (hpc : isCommentL p = false) (hqc : isCommentL q = false)
    (hqb : contBody? q = none) (h1 : allSpace ws1 = true) (h2 : allSpace tr = true) (h3 : allSpace ind = true) :
    loopL i ((p ++ ws1 ++ '\\' :: tr) :: (ind ++ q) :: rest) [] ix =
      emit (i, p ++ ' ' :: q) (loopL (i + 2) rest [] i) := by
  have hpf : firstNS p ≠ none ∧ firstNS p ≠ some '#' := by
    have : ¬ (firstNS p = none ∨ firstNS p = some '#') := fun h0 => by
      have := (isCommentL_iff p).mpr h0; rw [hpc] at this; cases this
    exact not_or.mp this
  have hqf : firstNS q ≠ none ∧ firstNS q ≠ some '#' := by
    have : ¬ (firstNS q = none ∨ firstNS q = some '#') := fun h0 => by
      have := (isCommentL_iff q).mpr h0; rw [hqc] at this; cases this
    exact not_or.mp this
  have hA : isCommentL (p ++ ws1 ++ '\\' :: tr) = false := by
    have : ¬ (isCommentL (p ++ ws1 ++ '\\' :: tr) = true) := by
      rw [isCommentL_iff, List.append_assoc, firstNS_append]
      cases hf : firstNS p with
      | none => exact absurd hf hpf.1
      | some c => rw [hf] at hpf; simpa using hpf.2
    simpa using this
  have hc : contBody? (p ++ ws1 ++ '\\' :: tr) = some (p ++ ws1) := by
    unfold contBody?
    have : (p ++ ws1 ++ '\\' :: tr).reverse = tr.reverse ++ '\\' :: (p ++ ws1).reverse := by simp
    rw [this, List.dropWhile_append_of_pos (by intro a ha; simp [allSpace] at h2; exact h2 a (by simpa using ha))]
    simp [show isSpace '\\' = false by decide]
  have hB : isCommentL (ind ++ q) = false := by
    unfold isCommentL at hqc ⊢; rw [lstrip_append_ws q h3]; exact hqc
  have hBc : contBody? (ind ++ q) = none := by
    rw [contBody?_none_iff, lastNS_append]
    have hq1 : lastNS q ≠ none := by
      intro h0; rw [lastNS_none_iff, ← firstNS_none_iff] at h0; exact hqf.1 h0
    have := (contBody?_none_iff q).mp hqb
    cases hl : lastNS q with
    | none => exact absurd hl hq1
    | some c => rw [hl] at this; simpa using this
  have hj : joined (p ++ ws1) (ind ++ q) = p ++ ' ' :: q := by
    unfold joined
    have e1 : rstripL (p ++ ws1) = p := by
      unfold rstripL at hp ⊢; rw [rev_dropWhile_append_ws p ws1 h1]; exact hp
    have e2 : stripL (ind ++ q) = q := by
      unfold stripL at hq ⊢; rw [lstrip_append_ws q h3]; exact hq
    rw [e1, e2]
  have := (continuation_join i ix _ _ _ rest hA hc hB hBc).1
  rw [hj] at this; exact this


example : loopL 0 ["x = ff(1, \\  ".toList, "\t 2)".toList] [] 0 = emit (0, "x = ff(1, 2)".toList) ([], none) :=
  continuation_break_line 0 0 "x = ff(1,".toList "2)".toList " ".toList "  ".toList "\t ".toList []
    (by decide) (by decide) (by decide) (by decide) (by decide) (by decide) (by decide) (by decide)

/-! ## stretching an inter-token blank; line continuation -/

/-- **An inter-token blank may be stretched or shrunk**: in `cs = a ++ ws ++ q` the non-empty blank run `ws` stands outside
string literals and bracketed names (`Gap`: `a` is read as ordinary characters, complete string literals and complete
bracketed names); replacing it by another non-empty blank run `ws'` does not change the tree; a rejected text stays
rejected with the same error text (`parseExpr_gap` gives the column).  This is the step from a line to the same line broken
by a backslash, where the two parts are stripped and joined by exactly one blank. -/
theorem parseExpr_blank_stretch {ws ws' q cs cs' : Chars} (hws : allSpace ws = true) (hws' : allSpace ws' = true)
    (hne : ws ≠ []) (hne' : ws' ≠ []) (h : Gap ws ws' q cs cs') :
    (∀ e, ExprParse.parseExpr (String.ofList cs) = .ok e → ExprParse.parseExpr (String.ofList cs') = .ok e) ∧
    EqUpToColumn (ExprParse.parseExpr (String.ofList cs')) (ExprParse.parseExpr (String.ofList cs)) := by
  have ok : GapOK ws ws' q := ⟨blank_of_allSpace hws, blank_of_allSpace hws', Or.inl ⟨hne, hne'⟩⟩
  rw [parseExpr_gap ok h]
  exact ⟨fun e he => by rw [he]; rfl, EqUpToColumn_mapCol _ _⟩

/-- the same with the position given by its offset and checked by the executable test `topLevelAt` -/
theorem parseExpr_blank_stretch_at (a ws ws' q : Chars) (hws : allSpace ws = true) (hws' : allSpace ws' = true)
    (hne : ws ≠ []) (hne' : ws' ≠ [])
    (htop : topLevelAt (a ++ (ws ++ q)).length a.length (a ++ (ws ++ q)) = true) :
    (∀ e, ExprParse.parseExpr (String.ofList (a ++ (ws ++ q))) = .ok e →
      ExprParse.parseExpr (String.ofList (a ++ (ws' ++ q))) = .ok e) ∧
    EqUpToColumn (ExprParse.parseExpr (String.ofList (a ++ (ws' ++ q))))
      (ExprParse.parseExpr (String.ofList (a ++ (ws ++ q)))) :=
  parseExpr_blank_stretch hws hws' hne hne' (gap_of_topLevelAt ws ws' q _ _ _ a htop rfl rfl)

/-- one blank between `ff('a  b')` and `+` stretched to blank-tab-blank-blank: same tree (`ok` case) / same error text -/
example := parseExpr_blank_stretch_at "ff('a  b')".toList " ".toList " \t  ".toList "+ c".toList (by decide) (by decide)
  (by simp) (by simp) (by kernel_rfl)
example := parseExpr_blank_stretch (ws := " ".toList) (ws' := "   ".toList) (q := "b".toList) (cs := "a + b".toList)
  (cs' := "a +   b".toList) (by decide) (by decide) (by simp) (by simp) (.cons 'a' rfl (.cons ' ' rfl (.cons '+' rfl .site)))

/-- **Breaking a line at an inter-token blank of its expression does not matter.**  The logical line `l = p ++ ws ++ q`
(`ws` a non-empty blank run outside string literals and bracketed names of the expression of `l`) and the two physical
lines `p ws1 \ tr` / `ind q` (any blanks `ws1`, `tr`, any indentation `ind`): the line loop yields the one logical line
`p ++ " " ++ q` (first conjunct, with `continuation_join`), and that line classifies like `l` — same statement, same
expression tree, same error text (second conjunct, with `parseExpr_gap`).  Hypothesis `hsh`: the statement pattern
captures the same groups around the blank run; it is a theorem for assignments (`continuation_break_irrelevant_assign`)
and a decidable fact for a given line otherwise. -/
theorem continuation_break_irrelevant (i ix : Nat) (p q ws ws1 tr ind : Chars) (rest : List Chars) (e e' qe : Chars)
    (hp : rstripL p = p) (hq : stripL q = q) (hpc : isCommentL p = false) (hqc : isCommentL q = false)
    (hqb : contBody? q = none) (h1 : allSpace ws1 = true) (h2 : allSpace tr = true) (h3 : allSpace ind = true)
    (hws : allSpace ws = true) (hne : ws ≠ [])
    (he : lineExpr (p ++ ws ++ q) = some e) (he' : lineExpr (p ++ ' ' :: q) = some e')
    (hsh : shape (p ++ ' ' :: q) = (shape (p ++ ws ++ q)).withExpr e') (hg : Gap ws [' '] qe e e') :
    loopL i ((p ++ ws1 ++ '\\' :: tr) :: (ind ++ q) :: rest) [] ix =
      emit (i, p ++ ' ' :: q) (loopL (i + 2) rest [] i) ∧
    EqUpToColumn (classifyL ExprParse.parseExpr (p ++ ' ' :: q)) (classifyL ExprParse.parseExpr (p ++ ws ++ q)) :=
  ⟨continuation_break_line i ix p q ws1 tr ind rest hp hq hpc hqc hqb h1 h2 h3,
    classifyL_gap ⟨blank_of_allSpace hws, blank_of_allSpace (by decide), Or.inl ⟨hne, by simp⟩⟩ he he' hsh hg⟩

/-- an `if` header broken inside its condition: physical lines `if a &&` + backslash and `    b :`, logical line
`if a && b :`, compared with the unbroken `if a &&  b :` (two blanks) -/
example := continuation_break_irrelevant 3 0 "if a &&".toList "b :".toList "  ".toList "".toList "  ".toList "    ".toList []
  "a &&  b ".toList "a && b ".toList "b ".toList
  (by decide) (by decide) (by decide) (by decide) (by decide) (by decide) (by decide) (by decide) (by decide) (by simp)
  (by decide) (by decide) (by decide)
  (.cons 'a' rfl (.cons ' ' rfl (.cons '&' rfl (.cons '&' rfl .site))))

theorem lstrip_append_self {e1 : Chars} (he1 : lstripL e1 = e1) (hne1 : e1 ≠ []) (x : Chars) :
    lstripL (e1 ++ x) = e1 ++ x := by
  obtain ⟨d, r, rfl, hd⟩ := lstrip_self_head he1 hne1
  simp [lstripL, hd]

/-- … for an **assignment** `name = e1 ws q` broken inside its expression: no hypothesis about the statement pattern. -/
theorem continuation_break_irrelevant_assign (i ix : Nat) (pre e1 q ws ws1 tr ind name : Chars) (rest : List Chars)
    (hp : rstripL (pre ++ e1) = pre ++ e1) (hq : stripL q = q) (hpc : isCommentL (pre ++ e1) = false)
    (hqc : isCommentL q = false) (hqb : contBody? q = none) (h1 : allSpace ws1 = true) (h2 : allSpace tr = true)
    (h3 : allSpace ind = true) (hws : allSpace ws = true) (hne : ws ≠ [])
    (hsh : shape (pre ++ e1 ++ ws ++ q) = .assign name pre.length (e1 ++ ws ++ q))
    (he1 : lstripL e1 = e1) (hne1 : e1 ≠ []) (hg : Gap ws [' '] q (e1 ++ ws ++ q) (e1 ++ ' ' :: q)) :
    loopL i ((pre ++ e1 ++ ws1 ++ '\\' :: tr) :: (ind ++ q) :: rest) [] ix =
      emit (i, pre ++ e1 ++ ' ' :: q) (loopL (i + 2) rest [] i) ∧
    EqUpToColumn (classifyL ExprParse.parseExpr (pre ++ e1 ++ ' ' :: q))
      (classifyL ExprParse.parseExpr (pre ++ e1 ++ ws ++ q)) := by
  have hrep := (shape_assign_replace hsh (by rw [List.append_assoc]; exact lstrip_append_self he1 hne1 _)
    (e1 ++ ' ' :: q) (lstrip_append_self he1 hne1 _) (by simp [hne1])).2
  have htake : (pre ++ e1 ++ ws ++ q).take pre.length = pre := by
    rw [List.append_assoc, List.append_assoc]; exact List.take_left
  rw [htake] at hrep
  have hl' : pre ++ e1 ++ ' ' :: q = pre ++ (e1 ++ ' ' :: q) := by simp
  refine continuation_break_irrelevant i ix (pre ++ e1) q ws ws1 tr ind rest (e1 ++ ws ++ q) (e1 ++ ' ' :: q) q
    hp hq hpc hqc hqb h1 h2 h3 hws hne ?_ ?_ ?_ hg
  · unfold lineExpr; rw [hsh]
  · unfold lineExpr; rw [hl', hrep]
  · rw [hl', hrep, hsh]; rfl


/-- `  x = ff(1,` + backslash / `\t\t'a \' b') + 2`: the break is in front of a string literal with an escaped quote; the
site is found by `topLevelAt`, every other hypothesis is decided -/
example := continuation_break_irrelevant_assign 0 0 "  x = ".toList "ff(1,".toList "'a \\' b') + 2".toList "   ".toList
  " ".toList "\t".toList "\t\t".toList "x".toList ["y = 1".toList]
  (by decide) (by decide) (by decide) (by decide) (by decide) (by decide) (by decide) (by decide) (by decide) (by simp)
  (by decide) (by decide) (by simp)
  (gap_of_topLevelAt _ _ _ 30 5 "ff(1,   'a \\' b') + 2".toList "ff(1,".toList (by kernel_rfl) rfl rfl)

end C10
