import BareModel.RxPatterns
import BareProofs.C06RegexLemmas

/-!
# C06Regex — the hand-written scanners of `Scan` / `Text` ARE the regular expressions of parser.py (extension of C06 / C10 / C02)

For every line without `'\n'` (logical lines never contain one: `C10.splitLines_no_newline`): the scanner of `Scan` applied the
way `Scan.shape` applies it (indentation stripped, offsets re-based) = `Rx.matchAt` on the pattern's AST (the first match of
a backtracking engine in priority order, with capture spans) followed by parser.py's reading of the groups
(`RxPatterns.rx…`).  The ASTs are tied to the pattern sources of the working tree in `BareProofs/C06RegexPins.lean`; the
engine itself is compared with CPython's `re` on the real compiled patterns by the streams of `harness/props/c06x.py`.

Proved: the six keyword-only patterns, comment, `else:`, label, assignment; `shape_is_cascade_partial` (the cascade, with the
remaining per-pattern equalities as hypotheses).  General engine lemmas are in `C06RegexLemmas`.
-/

namespace C06Regex
open Rx RxPatterns Text Scan

/-! ## keyword-only lines -/

/-- **`^\s*kw\s*$`** (`break continue endif endwhile endfor endfunction`): `Scan.kwOnly?` on the stripped line = the first
backtracking match of the pattern on the line. -/
theorem kwOnly_regex (w : String) (sh : Shape) (c : Char) (cs : List Char) (hw : w.toList = c :: cs) (hc : isSpace c = false)
    (line : Chars) (hnl : '\n' ∉ line) :
    kwOnly? w sh (lstripL line) = rxKwOnly w sh line := by
  unfold rxKwOnly matchAt matchFrom RxPatterns.kwOnly
  rw [lead _ _ _ (rejects_kw isSpace w c cs hw hc _ _), seq_m, kw_match w c cs hw]
  unfold kwOnly?
  cases hk : keyword? w (lstripL line) with
  | none => rfl
  | some r =>
    have hr : '\n' ∉ r := by
      unfold keyword? at hk
      split at hk
      · cases hk; exact not_mem_drop (not_mem_dropWhile hnl)
      · cases hk
    simp only []
    rw [ws_eol_seq _ _ (by exact hr)]
    by_cases ha : allSpace r = true <;> simp [ha]

theorem noNL_keyword {w : String} {l r : Chars} (h : '\n' ∉ l) (hk : keyword? w l = some r) : '\n' ∉ r := by
  unfold keyword? at hk
  split at hk
  · cases hk; exact not_mem_drop h
  · cases hk

theorem noNL_ident {l name r : Chars} (h : '\n' ∉ l) (hk : ident? l = some (name, r)) : '\n' ∉ r := by
  have := ident?_eq_append hk
  rw [this] at h; exact fun hm => h (List.mem_append_right _ hm)

/-! ## `else:` -/

/-- **`^\s*else\s*:\s*$`** -/
theorem else_regex (line : Chars) (hnl : '\n' ∉ line) : else? (lstripL line) = rxElse line := by
  unfold rxElse matchAt matchFrom ifElse
  rw [lead _ _ _ (rejects_kw isSpace "else" 'e' ['l', 's', 'e'] rfl (by decide) _ _), seq_m, kw_match "else" 'e' ['l', 's', 'e'] rfl]
  unfold else?
  cases hk : keyword? "else" (lstripL line) with
  | none => rfl
  | some r =>
    have hr : '\n' ∉ r := noNL_keyword (not_mem_dropWhile hnl) hk
    simp only []
    rw [colon_tail _ _ (by exact hr)]
    cases lstripL r with
    | nil => rfl
    | cons x r2 =>
      by_cases hx : x = ':'
      · subst hx; by_cases ha : allSpace r2 = true <;> simp [ha]
      · simp only []
        split
        · rename_i heq; cases heq; exact absurd rfl hx
        · split
          · rename_i heq; cases heq; exact absurd rfl hx
          · rfl

/-! ## labels -/

theorem word_colon : ∀ x, isWord x = true → isSpace x = false ∧ x ≠ ':' := by
  intro x hx
  refine ⟨word_not_space hx, fun e => ?_⟩
  rw [e] at hx; exact absurd hx (by decide)

/-- **`^\s*(?P<name>[A-Za-z_]\w*)\s*:\s*$`** -/
theorem label_regex (line : Chars) (hnl : '\n' ∉ line) : label? (lstripL line) = rxLabel line := by
  unfold rxLabel matchAt matchFrom RxPatterns.label
  rw [lead _ _ _ (rejects_cap_ident isSpace (fun x => space_not_idStart) _ _ _ _), seq_m,
    cap_ident_det _ _ _ _ (by unfold lit; exact rejects_ws_lit isWord false ':' word_colon _ _)]
  unfold label?
  cases hk : ident? (lstripL line) with
  | none => rfl
  | some p =>
    obtain ⟨name, r⟩ := p
    have hr : '\n' ∉ r := noNL_ident (not_mem_dropWhile hnl) hk
    simp only []
    rw [colon_tail _ _ (by exact hr)]
    have hg : slice line ((line.takeWhile isSpace).length, (line.takeWhile isSpace).length + name.length) = name :=
      slice_prefix line _ _ name r (by rw [drop_ind]; exact ident?_eq_append hk) rfl
    cases lstripL r with
    | nil => rfl
    | cons x r2 =>
      by_cases hx : x = ':'
      · subst hx; by_cases ha : allSpace r2 = true <;> simp [ha, St.group, St.span, List.lookup, hg]
      · simp only []
        split
        · rename_i heq; cases heq; exact absurd rfl hx
        · split
          · rename_i heq; cases heq; exact absurd rfl hx
          · rfl

/-! ## comment / blank lines -/

/-- **`^\s*(?:#.*)?$`** -/
theorem comment_regex (line : Chars) (hnl : '\n' ∉ line) : isCommentL line = rxComment line := by
  unfold rxComment matchAt matchFrom comment
  rw [lead']
  · unfold isCommentL
    rw [seq_m, opt_m, ncg_m, seq_m]
    unfold lit
    rw [one_m', step_lit]
    cases hs : lstripL line with
    | nil => simp [Rx.m, atEnd]
    | cons c r =>
      have hr : '\n' ∉ r := noNL_lstrip_tail hnl hs
      have hcr : '\n' ∉ c :: r := hs ▸ not_mem_dropWhile hnl
      by_cases hc : c = '#'
      · subst hc
        simp only [if_true]
        rw [dotstar_eol _ _ (by exact hr)]
        simp
      · simp only [hc, if_false]
        rw [eol_none_of_ne _ _ (by exact hcr) (by simp)]
        simp [hc]
  · intro j c r h1 h2
    have hcr : '\n' ∉ c :: r := h1 ▸ not_mem_drop hnl
    have hc : ¬ c = '#' := fun e => by rw [e] at h2; exact absurd h2 (by decide)
    rw [seq_m, opt_m, ncg_m, seq_m]
    unfold lit
    rw [one_m', step_lit, h1]
    simp only [hc, if_false]
    rw [eol_none_of_ne _ _ (by exact hcr) (by simp)]
    rfl

/-! ## assignment -/

theorem word_eq : ∀ x, isWord x = true → isSpace x = false ∧ x ≠ '=' := by
  intro x hx
  refine ⟨word_not_space hx, fun e => ?_⟩
  rw [e] at hx; exact absurd hx (by decide)

/-- **`^\s*(?P<name>[A-Za-z_]\w*)\s*=\s*(?P<expr>.+)$`**: the first `=` after the name; the expression is the rest of the
line without its leading blanks — or its last blank when nothing else follows. -/
theorem assign_regex (line : Chars) (hnl : '\n' ∉ line) :
    (assign? (lstripL line)).map (Shape.shift (line.length - (lstripL line).length)) = rxAssign line := by
  unfold rxAssign matchAt matchFrom assignment
  rw [lead _ _ _ (rejects_cap_ident isSpace (fun x => space_not_idStart) _ _ _ _), seq_m,
    cap_ident_det _ _ _ _ (by unfold lit; exact rejects_ws_lit isWord false '=' word_eq _ _)]
  unfold assign?
  have hs : '\n' ∉ lstripL line := not_mem_dropWhile hnl
  cases hk : ident? (lstripL line) with
  | none => rfl
  | some p =>
    obtain ⟨name, r1⟩ := p
    have hr1 : '\n' ∉ r1 := noNL_ident hs hk
    have hsplit := ident?_eq_append hk
    simp only []
    unfold lit
    rw [ws_lit_det false '=' (by decide)]
    simp only []
    cases h3 : lstripL r1 with
    | nil => rfl
    | cons x r3 =>
      by_cases hx : x = '='
      · subst hx
        have hr3 : '\n' ∉ r3 := noNL_lstrip_tail hr1 h3
        simp only [if_true]
        unfold dotPlus
        rw [ws_dotplus_eol _ _ _ (by exact hr3)]
        simp only []
        -- position bookkeeping: the text from the position after `=` is r3
        have hd1 : line.drop ((line.takeWhile isSpace).length + name.length) = r1 :=
          drop_add_of_drop line name r1 _ (by rw [drop_ind]; exact hsplit)
        have hd2 : line.drop ((line.takeWhile isSpace).length + name.length + (r1.takeWhile isSpace).length + 1) = r3 := by
          have e : r1 = (r1.takeWhile isSpace ++ ['=']) ++ r3 := by
            have := (List.takeWhile_append_dropWhile (p := isSpace) (l := r1)).symm
            rw [show r1.dropWhile isSpace = '=' :: r3 from h3] at this
            simpa using this
          have := drop_add_of_drop line _ r3 _ (hd1.trans e)
          simpa [Nat.add_assoc] using this
        have hg : slice line ((line.takeWhile isSpace).length, (line.takeWhile isSpace).length + name.length) = name :=
          slice_prefix line _ _ name r1 (by rw [drop_ind]; exact hsplit) rfl
        cases hr3e : r3 with
        | nil => simp [List.getLast?, lstripL]
        | cons y r4 =>
          have hne : r3 ≠ [] := by simp [hr3e]
          rw [← hr3e]
          simp only [hne, if_false, Option.bind_some, St.group, St.span, List.lookup, Option.map_some, hg,
            show (1 == 2) = false from rfl, beq_self_eq_true]
          have hlen := length_of_drop line r3 _ hd2 hne
          have hl1 := lstrip_split_length line
          have hl2 := lstrip_split_length r1
          have hl3 := lstrip_split_length r3
          have hsl := congrArg List.length hsplit
          rw [h3] at hl2
          simp only [List.length_append, List.length_cons] at hsl hl2
          have hpos : 0 < r3.length := List.length_pos_iff.mpr hne
          rw [slice_suffix line r3 _ _ hd2 (by omega)]
          cases he : lstripL r3 with
          | nil =>
            rw [he] at hl3
            obtain ⟨c, hc⟩ : ∃ c, r3.getLast? = some c := by
              cases hgl : r3.getLast? with
              | none => exact absurd (List.getLast?_eq_none_iff.mp hgl) hne
              | some c => exact ⟨c, rfl⟩
            rw [hc]
            simp only [List.length_nil] at hl3
            rw [show min (List.takeWhile isSpace r3).length (r3.length - 1) = r3.length - 1 from by omega, drop_last r3 c hc]
            simp only [Option.map_some, Shape.shift, List.length_cons, List.length_nil, Option.some.injEq, Shape.assign.injEq,
              true_and, and_true]
            omega
          | cons z e =>
            rw [he] at hl3
            simp only [List.length_cons] at hl3
            rw [show min (List.takeWhile isSpace r3).length (r3.length - 1) = (List.takeWhile isSpace r3).length from by omega,
              drop_length_takeWhile]
            rw [show List.dropWhile isSpace r3 = z :: e from he]
            simp only [Option.map_some, Shape.shift, List.length_cons, Option.some.injEq, Shape.assign.injEq, true_and, and_true]
            omega
      · simp only [hx, if_false]
        split
        · rename_i heq; cases heq; exact absurd rfl hx
        · rfl

/-! ## instances: the hypotheses are met by ordinary lines -/

example : kwOnly? "break" .break_ (lstripL "  break \t".toList) = rxKwOnly "break" .break_ "  break \t".toList :=
  kwOnly_regex "break" .break_ 'b' ['r', 'e', 'a', 'k'] rfl (by decide) _ (by decide)

/-- the six keyword-only statement patterns -/
theorem kwOnly_regex_all (line : Chars) (hnl : '\n' ∉ line) :
    kwOnly? "endfunction" .funcEnd (lstripL line) = rxKwOnly "endfunction" .funcEnd line ∧
    kwOnly? "endif" .endif (lstripL line) = rxKwOnly "endif" .endif line ∧
    kwOnly? "endwhile" .endwhile (lstripL line) = rxKwOnly "endwhile" .endwhile line ∧
    kwOnly? "endfor" .endfor (lstripL line) = rxKwOnly "endfor" .endfor line ∧
    kwOnly? "break" .break_ (lstripL line) = rxKwOnly "break" .break_ line ∧
    kwOnly? "continue" .continue_ (lstripL line) = rxKwOnly "continue" .continue_ line :=
  ⟨kwOnly_regex _ _ 'e' "ndfunction".toList rfl (by decide) line hnl, kwOnly_regex _ _ 'e' "ndif".toList rfl (by decide) line hnl,
   kwOnly_regex _ _ 'e' "ndwhile".toList rfl (by decide) line hnl, kwOnly_regex _ _ 'e' "ndfor".toList rfl (by decide) line hnl,
   kwOnly_regex _ _ 'b' "reak".toList rfl (by decide) line hnl, kwOnly_regex _ _ 'c' "ontinue".toList rfl (by decide) line hnl⟩

example : '\n' ∉ " a  =   ".toList ∧ rxAssign " a  =   ".toList = some (.assign ['a'] 7 [' ']) := by decide +kernel
example : '\n' ∉ "x == y: z".toList ∧ rxAssign "x == y: z".toList = some (.assign ['x'] 3 "= y: z".toList) := by decide +kernel
example : '\n' ∉ "\t lbl :  ".toList ∧ rxLabel "\t lbl :  ".toList = some (.label "lbl".toList) := by decide +kernel
example : '\n' ∉ "  # if x:".toList ∧ rxComment "  # if x:".toList = true := by decide +kernel
example : '\n' ∉ " else  : ".toList ∧ rxElse " else  : ".toList = some .else_ := by decide +kernel

/-! ## the cascade -/

/-- a scanner of `Scan`, used the way `Scan.shape` uses it: on the line without its indentation, the offsets re-based -/
def onLine (f : Chars → Option Shape) (line : Chars) : Option Shape :=
  (f (lstripL line)).map (Shape.shift (line.length - (lstripL line).length))

theorem map_orElse {α β} (f : α → β) (a b : Option α) : (a <|> b).map f = (a.map f <|> b.map f) := by
  cases a <;> simp

theorem getD_shift (k : Nat) (x : Option Shape) : (x.getD .exprStmt).shift k = (x.map (Shape.shift k)).getD .exprStmt := by
  cases x <;> rfl

theorem kwOnly_shift (w : String) (sh : Shape) (k : Nat) (h : sh.shift k = sh) (s : Chars) :
    (kwOnly? w sh s).map (Shape.shift k) = kwOnly? w sh s := by
  unfold kwOnly?; split
  · split <;> simp [h]
  · rfl

theorem else_shift (k : Nat) (s : Chars) : (else? s).map (Shape.shift k) = else? s := by
  unfold else?; split
  · split
    · split <;> simp [Shape.shift]
    · rfl
  · rfl

theorem label_shift (k : Nat) (s : Chars) : (label? s).map (Shape.shift k) = label? s := by
  unfold label?; split
  · split
    · split <;> simp [Shape.shift]
    · rfl
  · rfl

/-- `Scan.shape` = the cascade of parser.py with every test done by the backtracking matcher on the pattern ASTs
(`RxPatterns.rxShape`), in the order `parse_script` tries them.

Full statement: `∀ line, '\n' ∉ line → shape line = rxShape line`.  PROVED here for the nine patterns with a regex theorem
(assignment, the six keyword-only lines, `else:`, label); the per-pattern equalities for `function`, `if / elif / while`,
`for`, `jump / jumpif`, `return` and `include` are hypotheses (they are compared per pattern with the real `re` by the streams
`rx-scan` / `rx-read`).  What is missing: the closed forms of `.+\s*:\s*$` (back off to the last colon), of the optional
groups of `for` / `function` and of the quoted url. -/
theorem shape_is_cascade_partial (line : Chars) (hnl : '\n' ∉ line)
    (hFunction : onLine funcBegin? line = rxFunction line)
    (hIf : onLine (kwExprColon? "if" .ifBegin) line = rxKwExprColon "if" .ifBegin line)
    (hElif : onLine (kwExprColon? "elif" .elif) line = rxKwExprColon "elif" .elif line)
    (hWhile : onLine (kwExprColon? "while" .whileBegin) line = rxKwExprColon "while" .whileBegin line)
    (hFor : onLine for? line = rxFor line)
    (hJump : onLine jump? line = rxJump line)
    (hReturn : onLine return? line = rxReturn line)
    (hInclude : onLine include? line = rxInclude line) :
    shape line = rxShape line := by
  obtain ⟨k1, k2, k3, k4, k5, k6⟩ := kwOnly_regex_all line hnl
  unfold onLine at hFunction hIf hElif hWhile hFor hJump hReturn hInclude
  unfold shape shapeS rxShape
  simp only [getD_shift, map_orElse]
  rw [assign_regex line hnl, hFunction, hIf, hElif, hWhile, hFor, hJump, hReturn, hInclude,
    kwOnly_shift _ _ _ rfl, kwOnly_shift _ _ _ rfl, kwOnly_shift _ _ _ rfl, kwOnly_shift _ _ _ rfl, kwOnly_shift _ _ _ rfl,
    kwOnly_shift _ _ _ rfl, else_shift, label_shift, k1, k2, k3, k4, k5, k6, else_regex line hnl, label_regex line hnl]

end C06Regex
