import BareModel.IsoText

/-!
# C16Text — lemmas (model: `BareModel/IsoText.lean`; theorems: `BareProofs/C16Text.lean`)

* `Lang r w` is the textbook language of a regular expression (concatenation = split of the word, alternation = union,
  `{n}` = n-fold concatenation, groups transparent).  `rests_spec` proves for EVERY `Re` that the backtracking matcher
  `Re.rests` enumerates exactly the remainders `t` with `s = w ++ t`, `w ∈ Lang r`; hence `fullMatch r s ↔ Lang r s`
  (`fullMatch_iff`).
* `lang_date`, `lang_dateTime`: the languages of the two pattern ASTs in explicit positional form (`DateShape`,
  `DateTimeShape`: which character stands where).
* `scanRaw_shape` / `shape_scanRaw`, `scanDate_shape` / `shape_scanDate`: the hand-written recognisers succeed exactly on
  those shapes.
* `scanRaw_format`, `validate_of_valid`: what the formatter prints scans back to its own fields.
* `zone?_eq`, `fracZone?_eq`, `scanDateTime_eq`: the scanner of the mirror (`Datetime.scanDateTime`) is the new syntactic
  recogniser followed by the offset range check.
* `frac_truncates`: the millisecond value of 1..6 fraction digits is the first three digits, zero-padded.
-/

namespace C16Text
open IsoText Datetime

/-- `k`-fold concatenation of a language -/
def LangPow (L : List Char → Prop) : Nat → List Char → Prop
  | 0, w => w = []
  | k + 1, w => ∃ u v, w = u ++ v ∧ L u ∧ LangPow L k v

/-- the language of a pattern (declarative semantics) -/
def Lang : Re → List Char → Prop
  | .lit c, w => w = [c]
  | .digit, w => ∃ c, isDigit c = true ∧ w = [c]
  | .cls items, w => ∃ c, inCls items c = true ∧ w = [c]
  | .seq a b, w => ∃ u v, w = u ++ v ∧ Lang a u ∧ Lang b v
  | .alt a b, w => Lang a w ∨ Lang b w
  | .opt a, w => Lang a w ∨ w = []
  | .rep a n, w => LangPow (Lang a) n w
  | .repmn a m n, w => ∃ k, m ≤ k ∧ k ≤ n ∧ LangPow (Lang a) k w
  | .ncg a, w => Lang a w
  | .named _ a, w => Lang a w

theorem mem_one {p : Char → Bool} {s t : List Char} : t ∈ one p s ↔ ∃ c, p c = true ∧ s = c :: t := by
  cases s with
  | nil => simp [one]
  | cons x xs =>
    by_cases hx : p x = true
    · simp only [one, hx, if_true, List.mem_singleton, List.cons.injEq]
      constructor
      · intro h; exact ⟨x, hx, rfl, h.symm⟩
      · rintro ⟨c, _, _, h⟩; exact h.symm
    · simp only [one, hx, Bool.false_eq_true, if_false, List.not_mem_nil, List.cons.injEq, false_iff]
      rintro ⟨c, hc, h1, _⟩
      subst h1; exact hx hc

theorem mem_pow {f : List Char → List (List Char)} {L : List Char → Prop}
    (hf : ∀ s t, t ∈ f s ↔ ∃ w, s = w ++ t ∧ L w) :
    ∀ (k : Nat) (s t : List Char), t ∈ pow f k s ↔ ∃ w, s = w ++ t ∧ LangPow L k w
  | 0, s, t => by
    simp only [pow, List.mem_singleton, LangPow]
    constructor
    · intro h; exact ⟨[], by simp [h], rfl⟩
    · rintro ⟨w, h1, h2⟩; subst h2; simpa using h1.symm
  | k + 1, s, t => by
    simp only [pow, List.mem_flatMap, LangPow]
    constructor
    · rintro ⟨u, hu, ht⟩
      obtain ⟨w1, e1, l1⟩ := (hf s u).1 hu
      obtain ⟨w2, e2, l2⟩ := (mem_pow hf k u t).1 ht
      exact ⟨w1 ++ w2, by rw [e1, e2, List.append_assoc], w1, w2, rfl, l1, l2⟩
    · rintro ⟨w, e, w1, w2, ew, l1, l2⟩
      refine ⟨w2 ++ t, (hf s _).2 ⟨w1, by rw [e, ew, List.append_assoc], l1⟩, ?_⟩
      exact (mem_pow hf k _ t).2 ⟨w2, rfl, l2⟩

/-- **matcher correctness** (every pattern, every text): the remainders the matcher returns are exactly the
suffixes left by a prefix in the language -/
theorem rests_spec : ∀ (r : Re) (s t : List Char), t ∈ r.rests s ↔ ∃ w, s = w ++ t ∧ Lang r w
  | .lit c, s, t => by
    simp only [Re.rests, mem_one, Lang, beq_iff_eq]
    constructor
    · rintro ⟨x, hx, e⟩; subst hx; exact ⟨[x], by simp [e], rfl⟩
    · rintro ⟨w, e, hw⟩; subst hw; exact ⟨c, rfl, by simpa using e⟩
  | .digit, s, t => by
    simp only [Re.rests, mem_one, Lang]
    constructor
    · rintro ⟨x, hx, e⟩; exact ⟨[x], by simp [e], x, hx, rfl⟩
    · rintro ⟨w, e, x, hx, hw⟩; subst hw; exact ⟨x, hx, by simpa using e⟩
  | .cls items, s, t => by
    simp only [Re.rests, mem_one, Lang]
    constructor
    · rintro ⟨x, hx, e⟩; exact ⟨[x], by simp [e], x, hx, rfl⟩
    · rintro ⟨w, e, x, hx, hw⟩; subst hw; exact ⟨x, hx, by simpa using e⟩
  | .seq a b, s, t => by
    simp only [Re.rests, List.mem_flatMap, Lang]
    constructor
    · rintro ⟨u, hu, ht⟩
      obtain ⟨w1, e1, l1⟩ := (rests_spec a s u).1 hu
      obtain ⟨w2, e2, l2⟩ := (rests_spec b u t).1 ht
      exact ⟨w1 ++ w2, by rw [e1, e2, List.append_assoc], w1, w2, rfl, l1, l2⟩
    · rintro ⟨w, e, w1, w2, ew, l1, l2⟩
      refine ⟨w2 ++ t, (rests_spec a s _).2 ⟨w1, by rw [e, ew, List.append_assoc], l1⟩, ?_⟩
      exact (rests_spec b _ t).2 ⟨w2, rfl, l2⟩
  | .alt a b, s, t => by
    simp only [Re.rests, List.mem_append, Lang, rests_spec a s t, rests_spec b s t]
    constructor
    · rintro (⟨w, e, l⟩ | ⟨w, e, l⟩)
      · exact ⟨w, e, Or.inl l⟩
      · exact ⟨w, e, Or.inr l⟩
    · rintro ⟨w, e, l | l⟩
      · exact Or.inl ⟨w, e, l⟩
      · exact Or.inr ⟨w, e, l⟩
  | .opt a, s, t => by
    simp only [Re.rests, List.mem_append, List.mem_singleton, Lang, rests_spec a s t]
    constructor
    · rintro (⟨w, e, l⟩ | h)
      · exact ⟨w, e, Or.inl l⟩
      · exact ⟨[], by simp [h], Or.inr rfl⟩
    · rintro ⟨w, e, l | l⟩
      · exact Or.inl ⟨w, e, l⟩
      · subst l; exact Or.inr (by simpa using e.symm)
  | .rep a n, s, t => by
    simp only [Re.rests, Lang]
    exact mem_pow (rests_spec a) n s t
  | .repmn a m n, s, t => by
    simp only [Re.rests, List.mem_flatMap, List.mem_range, Lang]
    constructor
    · rintro ⟨j, hj, ht⟩
      obtain ⟨w, e, l⟩ := (mem_pow (rests_spec a) (m + j) s t).1 ht
      exact ⟨w, e, m + j, by omega, by omega, l⟩
    · rintro ⟨w, e, k, h1, h2, l⟩
      refine ⟨k - m, by omega, ?_⟩
      have : m + (k - m) = k := by omega
      rw [this]
      exact (mem_pow (rests_spec a) k s t).2 ⟨w, e, l⟩
  | .ncg a, s, t => by simp only [Re.rests, Lang]; exact rests_spec a s t
  | .named _ a, s, t => by simp only [Re.rests, Lang]; exact rests_spec a s t

/-- the decidable predicate `fullMatch` decides the language of the pattern -/
theorem fullMatch_iff (r : Re) (s : List Char) : r.fullMatch s = true ↔ Lang r s := by
  simp only [Re.fullMatch, List.any_eq_true, List.isEmpty_iff]
  constructor
  · rintro ⟨t, ht, e⟩
    subst e
    obtain ⟨w, e, l⟩ := (rests_spec r s []).1 ht
    rw [List.append_nil] at e; subst e; exact l
  · intro l
    exact ⟨[], (rests_spec r s []).2 ⟨s, by simp, l⟩, rfl⟩

/-! ### single characters, fixed-width digit groups -/

/-- an ASCII decimal digit -/
def Dig (c : Char) : Prop := isDigit c = true

theorem dig_digit? {c : Char} (h : Dig c) : ∃ n, digit? c = some n ∧ n ≤ 9 := by
  simp only [Dig, isDigit, decide_eq_true_eq] at h
  refine ⟨c.toNat - 48, ?_, by omega⟩
  simp only [digit?, h, and_self, if_true]

theorem digit?_dig {c : Char} {n : Nat} (h : digit? c = some n) : Dig c := by
  unfold digit? at h
  split at h
  · simpa [Dig, isDigit] using ‹_›
  · simp at h

theorem isDigit_eq (c : Char) : isDigit c = (digit? c).isSome := by
  unfold isDigit digit?
  by_cases h : 48 ≤ c.toNat ∧ c.toNat ≤ 57 <;> simp [h]

theorem lang_digit (w : List Char) : Lang .digit w ↔ ∃ c, Dig c ∧ w = [c] := by simp only [Lang, Dig]

theorem langPow_digit : ∀ (k : Nat) (w : List Char), LangPow (Lang .digit) k w ↔ w.length = k ∧ ∀ c ∈ w, Dig c
  | 0, w => by
    simp only [LangPow]
    constructor
    · intro h; subst h; simp
    · intro h; exact List.eq_nil_of_length_eq_zero h.1
  | k + 1, w => by
    simp only [LangPow, langPow_digit k, lang_digit]
    constructor
    · rintro ⟨u, v, e, ⟨c, hc, hu⟩, hl, hv⟩
      subst e hu
      refine ⟨by simp [hl], ?_⟩
      intro x hx
      simp only [List.cons_append, List.nil_append, List.mem_cons] at hx
      rcases hx with hx | hx
      · subst hx; exact hc
      · exact hv x hx
    · rintro ⟨hl, hv⟩
      cases w with
      | nil => simp at hl
      | cons c t =>
        refine ⟨[c], t, rfl, ⟨c, hv c (by simp), rfl⟩, by simpa using hl, fun x hx => hv x (by simp [hx])⟩

theorem lang_lit_seq (c : Char) (r : Re) (w : List Char) : Lang (.lit c ⬝ r) w ↔ ∃ v, w = c :: v ∧ Lang r v := by
  simp only [Lang]
  constructor
  · rintro ⟨u, v, e, hu, hv⟩; subst hu; exact ⟨v, e, hv⟩
  · rintro ⟨v, e, hv⟩; exact ⟨[c], v, e, rfl, hv⟩

theorem lang_digit_seq (r : Re) (w : List Char) : Lang (.digit ⬝ r) w ↔ ∃ a v, w = a :: v ∧ Dig a ∧ Lang r v := by
  simp only [Lang]
  constructor
  · rintro ⟨u, v, e, ⟨c, hc, hu⟩, hv⟩; subst hu; exact ⟨c, v, e, hc, hv⟩
  · rintro ⟨a, v, e, ha, hv⟩; exact ⟨[a], v, e, ⟨a, ha, rfl⟩, hv⟩

theorem lang_cls_seq (items : List (Char × Char)) (r : Re) (w : List Char) :
    Lang (.cls items ⬝ r) w ↔ ∃ a v, w = a :: v ∧ inCls items a = true ∧ Lang r v := by
  simp only [Lang]
  constructor
  · rintro ⟨u, v, e, ⟨c, hc, hu⟩, hv⟩; subst hu; exact ⟨c, v, e, hc, hv⟩
  · rintro ⟨a, v, e, ha, hv⟩; exact ⟨[a], v, e, ⟨a, ha, rfl⟩, hv⟩

theorem lang_d2 (w : List Char) : Lang d2 w ↔ ∃ a b, w = [a, b] ∧ Dig a ∧ Dig b := by
  show LangPow (Lang .digit) 2 w ↔ _
  rw [langPow_digit]
  constructor
  · rintro ⟨hl, hv⟩
    match w, hl with
    | [a, b], _ => exact ⟨a, b, rfl, hv a (by simp), hv b (by simp)⟩
  · rintro ⟨a, b, e, ha, hb⟩
    subst e
    refine ⟨rfl, ?_⟩
    intro c hc
    simp only [List.mem_cons, List.not_mem_nil, or_false] at hc
    rcases hc with hc | hc <;> (subst hc; assumption)

theorem lang_d4 (w : List Char) : Lang d4 w ↔ ∃ a b c d, w = [a, b, c, d] ∧ Dig a ∧ Dig b ∧ Dig c ∧ Dig d := by
  show LangPow (Lang .digit) 4 w ↔ _
  rw [langPow_digit]
  constructor
  · rintro ⟨hl, hv⟩
    match w, hl with
    | [a, b, c, d], _ => exact ⟨a, b, c, d, rfl, hv a (by simp), hv b (by simp), hv c (by simp), hv d (by simp)⟩
  · rintro ⟨a, b, c, d, e, ha, hb, hc, hd⟩
    subst e
    refine ⟨rfl, ?_⟩
    intro x hx
    simp only [List.mem_cons, List.not_mem_nil, or_false] at hx
    rcases hx with hx | hx | hx | hx <;> (subst hx; assumption)

theorem lang_d2_seq (r : Re) (w : List Char) :
    Lang (d2 ⬝ r) w ↔ ∃ a b v, w = a :: b :: v ∧ Dig a ∧ Dig b ∧ Lang r v := by
  rw [Lang]
  simp only [lang_d2]
  constructor
  · rintro ⟨u, v, e, ⟨a, b, hu, ha, hb⟩, hv⟩; subst hu; exact ⟨a, b, v, e, ha, hb, hv⟩
  · rintro ⟨a, b, v, e, ha, hb, hv⟩; exact ⟨[a, b], v, e, ⟨a, b, rfl, ha, hb⟩, hv⟩

theorem lang_d4_seq (r : Re) (w : List Char) :
    Lang (d4 ⬝ r) w ↔ ∃ a b c d v, w = a :: b :: c :: d :: v ∧ Dig a ∧ Dig b ∧ Dig c ∧ Dig d ∧ Lang r v := by
  rw [Lang]
  simp only [lang_d4]
  constructor
  · rintro ⟨u, v, e, ⟨a, b, c, d, hu, ha, hb, hc, hd⟩, hv⟩; subst hu; exact ⟨a, b, c, d, v, e, ha, hb, hc, hd, hv⟩
  · rintro ⟨a, b, c, d, v, e, ha, hb, hc, hd, hv⟩; exact ⟨[a, b, c, d], v, e, ⟨a, b, c, d, rfl, ha, hb, hc, hd⟩, hv⟩

/-! ### the two languages in explicit positional form -/

/-- `^(?P<year>\d{4})-(?P<month>\d{2})-(?P<day>\d{2})\Z` -/
def DateShape (cs : List Char) : Prop :=
  ∃ y1 y2 y3 y4 m1 m2 d1 d2, cs = [y1, y2, y3, y4, '-', m1, m2, '-', d1, d2] ∧
    Dig y1 ∧ Dig y2 ∧ Dig y3 ∧ Dig y4 ∧ Dig m1 ∧ Dig m2 ∧ Dig d1 ∧ Dig d2

/-- `(?:\.\d{1,6})?` -/
def FracShape (f : List Char) : Prop :=
  f = [] ∨ ∃ ds, f = '.' :: ds ∧ 1 ≤ ds.length ∧ ds.length ≤ 6 ∧ ∀ c ∈ ds, Dig c

/-- `(?:Z|[+-]\d{2}:[0-5]\d)` -/
def ZoneShape (z : List Char) : Prop :=
  z = ['Z'] ∨ ∃ sg h1 h2 m1 m2, z = [sg, h1, h2, ':', m1, m2] ∧ (sg = '+' ∨ sg = '-') ∧
    Dig h1 ∧ Dig h2 ∧ inCls [('0', '5')] m1 = true ∧ Dig m2

/-- `^\d{4}-\d{2}-\d{2}T\d{2}:\d{2}:\d{2}(?:\.\d{1,6})?(?:Z|[+-]\d{2}:[0-5]\d)\Z` -/
def DateTimeShape (cs : List Char) : Prop :=
  ∃ y1 y2 y3 y4 m1 m2 d1 d2 h1 h2 i1 i2 s1 s2 f z,
    cs = y1 :: y2 :: y3 :: y4 :: '-' :: m1 :: m2 :: '-' :: d1 :: d2 :: 'T' :: h1 :: h2 :: ':' :: i1 :: i2 :: ':' :: s1 :: s2 :: (f ++ z) ∧
    Dig y1 ∧ Dig y2 ∧ Dig y3 ∧ Dig y4 ∧ Dig m1 ∧ Dig m2 ∧ Dig d1 ∧ Dig d2 ∧
    Dig h1 ∧ Dig h2 ∧ Dig i1 ∧ Dig i2 ∧ Dig s1 ∧ Dig s2 ∧ FracShape f ∧ ZoneShape z

theorem inCls_sign (c : Char) : inCls [('+', '+'), ('-', '-')] c = true ↔ (c = '+' ∨ c = '-') := by
  simp only [inCls, List.any_cons, List.any_nil, Bool.or_false, Bool.or_eq_true, decide_eq_true_eq]
  constructor
  · rintro (h | h)
    · exact Or.inl (Char.toNat_inj.1 (by have : ('+' : Char).toNat = 43 := rfl; omega))
    · exact Or.inr (Char.toNat_inj.1 (by have : ('-' : Char).toNat = 45 := rfl; omega))
  · rintro (h | h) <;> subst h <;> decide

theorem lang_named (n : String) (a : Re) (w : List Char) : Lang (.named n a) w ↔ Lang a w := by simp only [Lang]
theorem lang_ncg (a : Re) (w : List Char) : Lang (.ncg a) w ↔ Lang a w := by simp only [Lang]
theorem lang_named_seq (n : String) (a r : Re) (w : List Char) : Lang (.named n a ⬝ r) w ↔ Lang (a ⬝ r) w := by
  simp only [Lang]

theorem lang_date (cs : List Char) : Lang dateRe cs ↔ DateShape cs := by
  simp only [dateRe, lang_named_seq, lang_named, lang_d4_seq, lang_lit_seq, lang_d2_seq, lang_d2, DateShape]
  constructor
  · rintro ⟨y1, y2, y3, y4, v, e, a1, a2, a3, a4, v2, e2, m1, m2, v3, e3, b1, b2, v4, e4, d1, d2, e5, c1, c2⟩
    subst e5 e4 e3 e2 e
    exact ⟨y1, y2, y3, y4, m1, m2, d1, d2, rfl, a1, a2, a3, a4, b1, b2, c1, c2⟩
  · rintro ⟨y1, y2, y3, y4, m1, m2, d1, d2, e, a1, a2, a3, a4, b1, b2, c1, c2⟩
    exact ⟨y1, y2, y3, y4, _, e, a1, a2, a3, a4, _, rfl, m1, m2, _, rfl, b1, b2, _, rfl, d1, d2, rfl, c1, c2⟩

theorem lang_seq (a b : Re) (w : List Char) : Lang (a ⬝ b) w ↔ ∃ u v, w = u ++ v ∧ Lang a u ∧ Lang b v := by
  simp only [Lang]

theorem lang_frac (f : List Char) : Lang fracRe f ↔ FracShape f := by
  unfold fracRe FracShape
  rw [Lang, lang_ncg, lang_lit_seq]
  constructor
  · rintro (⟨v, e, h⟩ | h)
    · rw [Lang] at h
      obtain ⟨k, k1, k2, hk⟩ := h
      rw [langPow_digit] at hk
      exact Or.inr ⟨v, e, by omega, by omega, hk.2⟩
    · exact Or.inl h
  · rintro (h | ⟨ds, e, l1, l2, hd⟩)
    · exact Or.inr h
    · refine Or.inl ⟨ds, e, ?_⟩
      rw [Lang]
      exact ⟨ds.length, l1, l2, (langPow_digit _ _).2 ⟨rfl, hd⟩⟩

theorem lang_zone (z : List Char) : Lang zoneRe z ↔ ZoneShape z := by
  unfold zoneRe ZoneShape
  rw [lang_ncg, Lang]
  simp only [lang_cls_seq, lang_d2_seq, lang_lit_seq, inCls_sign, lang_digit]
  constructor
  · rintro (h | ⟨sg, v, e, hs, h1, h2, v2, e2, a1, a2, v3, e3, m1, v4, e4, hm1, m2, hm2, e5⟩)
    · rw [Lang] at h; exact Or.inl h
    · subst e5 e4 e3 e2 e
      exact Or.inr ⟨sg, h1, h2, m1, m2, rfl, hs, a1, a2, hm1, hm2⟩
  · rintro (h | ⟨sg, h1, h2, m1, m2, e, hs, a1, a2, hm1, hm2⟩)
    · left; rw [Lang]; exact h
    · exact Or.inr ⟨sg, _, e, hs, h1, h2, _, rfl, a1, a2, _, rfl, m1, _, rfl, hm1, m2, hm2, rfl⟩

theorem lang_dateTime (cs : List Char) : Lang dateTimeRe cs ↔ DateTimeShape cs := by
  simp only [dateTimeRe, lang_d4_seq, lang_lit_seq, lang_d2_seq, lang_seq fracRe zoneRe, lang_frac, lang_zone, DateTimeShape]
  constructor
  · rintro ⟨y1, y2, y3, y4, v, e, a1, a2, a3, a4, v2, e2, m1, m2, v3, e3, b1, b2, v4, e4, d1, d2, v5, e5, c1, c2, v6, e6,
      h1, h2, v7, e7, g1, g2, v8, e8, i1, i2, v9, e9, j1, j2, v10, e10, s1, s2, v11, e11, k1, k2, f, z, e12, hf, hz⟩
    subst e12 e11 e10 e9 e8 e7 e6 e5 e4 e3 e2 e
    exact ⟨y1, y2, y3, y4, m1, m2, d1, d2, h1, h2, i1, i2, s1, s2, f, z, rfl, a1, a2, a3, a4, b1, b2, c1, c2, g1, g2, j1, j2, k1, k2, hf, hz⟩
  · rintro ⟨y1, y2, y3, y4, m1, m2, d1, d2, h1, h2, i1, i2, s1, s2, f, z, e, a1, a2, a3, a4, b1, b2, c1, c2, g1, g2, j1, j2, k1, k2, hf, hz⟩
    exact ⟨y1, y2, y3, y4, _, e, a1, a2, a3, a4, _, rfl, m1, m2, _, rfl, b1, b2, _, rfl, d1, d2, _, rfl, c1, c2, _, rfl,
      h1, h2, _, rfl, g1, g2, _, rfl, i1, i2, _, rfl, j1, j2, _, rfl, s1, s2, _, rfl, k1, k2, f, z, rfl, hf, hz⟩

/-! ### the hand-written recogniser accepts exactly the positional shapes -/

theorem num2?_of_dig {a b : Char} (ha : Dig a) (hb : Dig b) : ∃ n, num2? a b = some n ∧ n ≤ 99 := by
  obtain ⟨x, hx, x9⟩ := dig_digit? ha
  obtain ⟨y, hy, y9⟩ := dig_digit? hb
  exact ⟨x * 10 + y, by simp [num2?, hx, hy], by omega⟩

theorem num4?_of_dig {a b c d : Char} (ha : Dig a) (hb : Dig b) (hc : Dig c) (hd : Dig d) :
    ∃ n, num4? a b c d = some n ∧ n ≤ 9999 := by
  obtain ⟨x, hx, x9⟩ := num2?_of_dig ha hb
  obtain ⟨y, hy, y9⟩ := num2?_of_dig hc hd
  exact ⟨x * 100 + y, by simp [num4?, hx, hy], by omega⟩

theorem num2?_dig {a b : Char} {n : Nat} (h : num2? a b = some n) : Dig a ∧ Dig b := by
  simp only [num2?, Option.bind_eq_bind, Option.bind_eq_some_iff, Option.pure_def, Option.some.injEq] at h
  obtain ⟨x, hx, y, hy, _⟩ := h
  exact ⟨digit?_dig hx, digit?_dig hy⟩

theorem num4?_dig {a b c d : Char} {n : Nat} (h : num4? a b c d = some n) : Dig a ∧ Dig b ∧ Dig c ∧ Dig d := by
  simp only [num4?, Option.bind_eq_bind, Option.bind_eq_some_iff, Option.pure_def, Option.some.injEq] at h
  obtain ⟨x, hx, y, hy, _⟩ := h
  exact ⟨(num2?_dig hx).1, (num2?_dig hx).2, (num2?_dig hy).1, (num2?_dig hy).2⟩

theorem scanZone_shape {z : List Char} {o : Int} (h : scanZone z = some o) : ZoneShape z := by
  unfold scanZone at h
  split at h
  · exact Or.inl rfl
  · rename_i sg h1 h2 m1 m2
    split at h
    · rename_i hsg
      split at h
      · rename_i hm1
        simp only [Option.bind_eq_bind, Option.bind_eq_some_iff, Option.pure_def, Option.some.injEq] at h
        obtain ⟨hh, hhh, mm, hmm, _⟩ := h
        exact Or.inr ⟨sg, h1, h2, m1, m2, rfl, hsg, (num2?_dig hhh).1, (num2?_dig hhh).2, hm1, (num2?_dig hmm).2⟩
      · simp at h
    · simp at h
  · simp at h

theorem cls05_dig {c : Char} (h : inCls [('0', '5')] c = true) : Dig c := by
  simp only [inCls, List.any_cons, List.any_nil, Bool.or_false, decide_eq_true_eq] at h
  have : ('0' : Char).toNat = 48 := rfl
  have : ('5' : Char).toNat = 53 := rfl
  simp only [Dig, isDigit, decide_eq_true_eq]; omega

theorem shape_scanZone {z : List Char} (h : ZoneShape z) : ∃ o, scanZone z = some o := by
  rcases h with h | ⟨sg, h1, h2, m1, m2, e, hs, a1, a2, hm1, hm2⟩
  · subst h; exact ⟨0, rfl⟩
  · subst e
    obtain ⟨hh, hhh, _⟩ := num2?_of_dig a1 a2
    obtain ⟨mm, hmm, _⟩ := num2?_of_dig (cls05_dig hm1) hm2
    simp only [scanZone, hs, if_true, hm1, hhh, hmm, Option.bind_eq_bind, Option.bind_some, Option.pure_def]
    exact ⟨_, rfl⟩

theorem mapM_digit?_of_digs : ∀ {ds : List Char}, (∀ c ∈ ds, Dig c) → ∃ ns, ds.mapM digit? = some ns
  | [], _ => ⟨[], rfl⟩
  | c :: t, h => by
    obtain ⟨n, hn, _⟩ := dig_digit? (h c (by simp))
    obtain ⟨ns, hns⟩ := mapM_digit?_of_digs (ds := t) (fun x hx => h x (by simp [hx]))
    exact ⟨n :: ns, by simp [List.mapM_cons, hn, hns]⟩

theorem frac?_of_digs {ds : List Char} (l1 : 1 ≤ ds.length) (l2 : ds.length ≤ 6) (hd : ∀ c ∈ ds, Dig c) :
    ∃ us, frac? ds = some us := by
  obtain ⟨ns, hns⟩ := mapM_digit?_of_digs hd
  unfold frac?
  rw [if_neg (by omega), hns]
  exact ⟨_, rfl⟩

theorem frac?_len {ds : List Char} {us : Nat} (h : frac? ds = some us) : 1 ≤ ds.length ∧ ds.length ≤ 6 := by
  unfold frac? at h
  split at h
  · simp at h
  · omega

theorem mem_takeWhile_true {p : Char → Bool} : ∀ {l : List Char} {a : Char}, a ∈ l.takeWhile p → p a = true
  | [], a, h => by simp at h
  | x :: xs, a, h => by
    by_cases hx : p x = true
    · simp only [List.takeWhile_cons, hx, if_true, List.mem_cons] at h
      rcases h with h | h
      · subst h; exact hx
      · exact mem_takeWhile_true h
    · simp [hx] at h

theorem zoneShape_head {z : List Char} (h : ZoneShape z) : ∃ c tl, z = c :: tl ∧ isDigit c = false ∧ c ≠ '.' := by
  rcases h with h | ⟨sg, h1, h2, m1, m2, e, hs, _⟩
  · subst h; exact ⟨'Z', [], rfl, by decide, by decide⟩
  · subst e
    rcases hs with hs | hs <;> subst hs
    · exact ⟨'+', _, rfl, by decide, by decide⟩
    · exact ⟨'-', _, rfl, by decide, by decide⟩

theorem takeWhile_digs {ds z : List Char} (hd : ∀ c ∈ ds, Dig c) {c : Char} {tl : List Char} (hz : z = c :: tl)
    (hc : isDigit c = false) : (ds ++ z).takeWhile isDigit = ds ∧ (ds ++ z).dropWhile isDigit = z := by
  subst hz
  induction ds with
  | nil => simp [hc]
  | cons x xs ih =>
    have hx : isDigit x = true := hd x (by simp)
    have := ih (fun y hy => hd y (by simp [hy]))
    simp [hx, this.1, this.2]

theorem scanFracZone_shape {cs : List Char} {r : Nat × Int} (h : scanFracZone cs = some r) :
    ∃ f z, cs = f ++ z ∧ FracShape f ∧ ZoneShape z := by
  unfold scanFracZone at h
  split at h
  · simp at h
  · rename_i c rest
    split at h
    · rename_i hc
      subst hc
      simp only [Option.bind_eq_bind, Option.bind_eq_some_iff, Option.pure_def, Option.some.injEq] at h
      obtain ⟨us, hus, o, ho, _⟩ := h
      have hl := frac?_len hus
      refine ⟨'.' :: rest.takeWhile isDigit, rest.dropWhile isDigit, ?_, ?_, scanZone_shape ho⟩
      · simp only [List.cons_append, List.takeWhile_append_dropWhile]
      · exact Or.inr ⟨_, rfl, hl.1, hl.2, fun c hc => mem_takeWhile_true hc⟩
    · simp only [Option.map_eq_some_iff] at h
      obtain ⟨o, ho, _⟩ := h
      exact ⟨[], c :: rest, rfl, Or.inl rfl, scanZone_shape ho⟩

theorem shape_scanFracZone {f z : List Char} (hf : FracShape f) (hz : ZoneShape z) : ∃ r, scanFracZone (f ++ z) = some r := by
  obtain ⟨c, tl, ez, hc, hdot⟩ := zoneShape_head hz
  obtain ⟨o, ho⟩ := shape_scanZone hz
  rcases hf with hf | ⟨ds, e, l1, l2, hd⟩
  · subst hf
    rw [List.nil_append]
    rw [ez] at ho ⊢
    simp only [scanFracZone, hdot, if_false, ho, Option.map_some]
    exact ⟨_, rfl⟩
  · subst e
    obtain ⟨us, hus⟩ := frac?_of_digs l1 l2 hd
    have := takeWhile_digs hd ez hc
    simp only [List.cons_append, scanFracZone, if_true, this.1, this.2, hus, ho, Option.bind_eq_bind, Option.bind_some,
      Option.pure_def]
    exact ⟨_, rfl⟩

theorem scanRaw_shape {cs : List Char} {r : Raw} (h : scanRaw cs = some r) : DateTimeShape cs := by
  unfold scanRaw at h
  split at h
  · rename_i y1 y2 y3 y4 m1 m2 d1 d2 h1 h2 i1 i2 s1 s2 rest
    simp only [Option.bind_eq_bind, Option.bind_eq_some_iff, Option.pure_def, Option.some.injEq] at h
    obtain ⟨y, hy, mo, hmo, d, hd, hh, hhh, mi, hmi, s, hs, ⟨us, o⟩, hfz, _⟩ := h
    obtain ⟨fr, z, hrest, hfr, hz⟩ := scanFracZone_shape hfz
    have hy' := num4?_dig hy
    subst hrest
    exact ⟨y1, y2, y3, y4, m1, m2, d1, d2, h1, h2, i1, i2, s1, s2, fr, z, rfl, hy'.1, hy'.2.1, hy'.2.2.1, hy'.2.2.2,
      (num2?_dig hmo).1, (num2?_dig hmo).2, (num2?_dig hd).1, (num2?_dig hd).2, (num2?_dig hhh).1, (num2?_dig hhh).2,
      (num2?_dig hmi).1, (num2?_dig hmi).2, (num2?_dig hs).1, (num2?_dig hs).2, hfr, hz⟩
  · simp at h

theorem shape_scanRaw {cs : List Char} (h : DateTimeShape cs) : ∃ r, scanRaw cs = some r := by
  obtain ⟨y1, y2, y3, y4, m1, m2, d1, d2, h1, h2, i1, i2, s1, s2, f, z, e, a1, a2, a3, a4, b1, b2, c1, c2, g1, g2, j1, j2, k1, k2,
    hf, hz⟩ := h
  subst e
  obtain ⟨y, hy, _⟩ := num4?_of_dig a1 a2 a3 a4
  obtain ⟨mo, hmo, _⟩ := num2?_of_dig b1 b2
  obtain ⟨d, hd, _⟩ := num2?_of_dig c1 c2
  obtain ⟨hh, hhh, _⟩ := num2?_of_dig g1 g2
  obtain ⟨mi, hmi, _⟩ := num2?_of_dig j1 j2
  obtain ⟨s, hs, _⟩ := num2?_of_dig k1 k2
  obtain ⟨⟨us, o⟩, hfz⟩ := shape_scanFracZone hf hz
  simp only [scanRaw, hy, hmo, hd, hhh, hmi, hs, hfz, Option.bind_eq_bind, Option.bind_some, Option.pure_def]
  exact ⟨_, rfl⟩

theorem scanDate_shape {cs : List Char} {r : Nat × Nat × Nat} (h : scanDate cs = some r) : DateShape cs := by
  unfold scanDate at h
  split at h
  · rename_i y1 y2 y3 y4 m1 m2 d1 d2
    simp only [Option.bind_eq_bind, Option.bind_eq_some_iff, Option.pure_def, Option.some.injEq] at h
    obtain ⟨y, hy, mo, hmo, d, hd, _⟩ := h
    have := num4?_dig hy
    exact ⟨y1, y2, y3, y4, m1, m2, d1, d2, rfl, this.1, this.2.1, this.2.2.1, this.2.2.2, (num2?_dig hmo).1, (num2?_dig hmo).2,
      (num2?_dig hd).1, (num2?_dig hd).2⟩
  · simp at h

theorem shape_scanDate {cs : List Char} (h : DateShape cs) : ∃ r, scanDate cs = some r := by
  obtain ⟨y1, y2, y3, y4, m1, m2, d1, d2, e, a1, a2, a3, a4, b1, b2, c1, c2⟩ := h
  subst e
  obtain ⟨y, hy, _⟩ := num4?_of_dig a1 a2 a3 a4
  obtain ⟨mo, hmo, _⟩ := num2?_of_dig b1 b2
  obtain ⟨d, hd, _⟩ := num2?_of_dig c1 c2
  simp only [scanDate, hy, hmo, hd, Option.bind_eq_bind, Option.bind_some, Option.pure_def]
  exact ⟨_, rfl⟩

/-! ### what the formatter prints scans back -/

theorem digit_ofNat : ∀ r : Nat, r < 10 → digit? (Char.ofNat (48 + r)) = some r := by decide

theorem digit?_digitChar (k : Nat) : digit? (digitChar k) = some (k % 10) :=
  digit_ofNat (k % 10) (Nat.mod_lt _ (by decide))

theorem dig_digitChar (k : Nat) : Dig (digitChar k) := digit?_dig (digit?_digitChar k)

theorem cls05_ofNat : ∀ r : Nat, r < 6 → inCls [('0', '5')] (Char.ofNat (48 + r)) = true := by decide

theorem cls05_digitChar {k : Nat} (h : k < 6) : inCls [('0', '5')] (digitChar k) = true := by
  unfold digitChar
  rw [Nat.mod_eq_of_lt (by omega)]
  exact cls05_ofNat k h

theorem num2?_pad {n : Nat} (h : n < 100) : num2? (digitChar (n / 10)) (digitChar n) = some n := by
  simp only [num2?, digit?_digitChar, Option.bind_eq_bind, Option.bind_some, Option.pure_def, Option.some.injEq]
  omega

theorem num4?_pad {n : Nat} (h : n < 10000) :
    num4? (digitChar (n / 1000)) (digitChar (n / 100)) (digitChar (n / 10)) (digitChar n) = some n := by
  simp only [num4?, num2?, digit?_digitChar, Option.bind_eq_bind, Option.bind_some, Option.pure_def, Option.some.injEq]
  omega

theorem frac_pad3 {n : Nat} (h : n < 1000) : frac? (pad3 n) = some (n * 1000) := by
  simp only [frac?, pad3, List.length_cons, List.length_nil, List.mapM_cons, List.mapM_nil, digit?_digitChar,
    Option.pure_def, Option.bind_eq_bind, Option.bind_some, Option.map_some]
  simp
  omega

/-- the offset part `±HH:MM` as the formatter prints it -/
def fmtOff (o : Int) : List Char :=
  (if o < 0 then '-' else '+') :: (pad2 (o.natAbs / 60) ++ ':' :: pad2 (o.natAbs % 60))

theorem scanZone_fmtOff {o : Int} (h1 : -1440 < o) (h2 : o < 1440) : scanZone (fmtOff o) = some o := by
  have hh : o.natAbs / 60 < 100 := by omega
  have hm : o.natAbs % 60 < 100 := by omega
  have h5 : o.natAbs % 60 / 10 < 6 := by omega
  simp only [fmtOff, pad2, List.cons_append, List.nil_append, scanZone, cls05_digitChar h5, if_true, num2?_pad hh, num2?_pad hm,
    Option.bind_eq_bind, Option.bind_some, Option.pure_def]
  by_cases hneg : o < 0
  · simp only [hneg, if_true, Char.reduceEq, or_true, Option.some.injEq]
    omega
  · simp only [hneg, if_false, if_true, Char.reduceEq, true_or, Option.some.injEq]
    omega

theorem fmtOff_head (o : Int) : ∃ c tl, fmtOff o = c :: tl ∧ isDigit c = false ∧ c ≠ '.' := by
  by_cases h : o < 0
  · exact ⟨'-', pad2 (o.natAbs / 60) ++ ':' :: pad2 (o.natAbs % 60), by simp only [fmtOff, h, if_true], by decide, by decide⟩
  · exact ⟨'+', pad2 (o.natAbs / 60) ++ ':' :: pad2 (o.natAbs % 60), by simp only [fmtOff, h, if_false], by decide, by decide⟩

theorem scanFracZone_nofrac {o : Int} (h1 : -1440 < o) (h2 : o < 1440) : scanFracZone (fmtOff o) = some (0, o) := by
  have hz := scanZone_fmtOff h1 h2
  obtain ⟨c, tl, e, _, hdot⟩ := fmtOff_head o
  rw [e] at hz ⊢
  simp only [scanFracZone, hdot, if_false, hz, Option.map_some]

theorem scanFracZone_frac {o : Int} {n : Nat} (hn : n < 1000) (h1 : -1440 < o) (h2 : o < 1440) :
    scanFracZone ('.' :: (pad3 n ++ fmtOff o)) = some (n * 1000, o) := by
  have hz := scanZone_fmtOff h1 h2
  obtain ⟨c, tl, e, hc, _⟩ := fmtOff_head o
  have hd : ∀ x ∈ pad3 n, Dig x := by
    intro x hx
    simp only [pad3, List.mem_cons, List.not_mem_nil, or_false] at hx
    rcases hx with hx | hx | hx <;> (subst hx; exact dig_digitChar _)
  have := takeWhile_digs hd e hc
  simp only [scanFracZone, if_true, this.1, this.2, frac_pad3 hn, hz, Option.bind_eq_bind, Option.bind_some, Option.pure_def]

theorem daysInMonth_le (y m : Int) : daysInMonth y m ≤ 31 := by
  unfold daysInMonth monthrange mdays
  repeat' split
  all_goals simp

/-- the text the formatter prints scans back to its own fields -/
theorem scanRaw_format {f : Fields} (sub : Nat) (hv : f.Valid) :
    scanRaw (formatChars f sub) = some ⟨f.year, f.month, f.day, f.hour, f.minute, f.second, f.ms * 1000, f.off⟩ := by
  obtain ⟨⟨y1, y2, m1, m2, d1, d2, a1, a2, b1, b2, c1, c2, e1, e2⟩, o1, o2⟩ := hv
  simp only [Fields.dt] at y1 y2 m1 m2 d1 d2 a1 a2 b1 b2 c1 c2 e1 e2
  have hdim := daysInMonth_le (f.year : Int) (f.month : Int)
  have hY : f.year < 10000 := by omega
  have hM : f.month < 100 := by omega
  have hD : f.day < 100 := by omega
  have hH : f.hour < 100 := by omega
  have hI : f.minute < 100 := by omega
  have hS : f.second < 100 := by omega
  have hms : f.ms < 1000 := by omega
  have hfz : scanFracZone ((if f.ms = 0 ∧ sub = 0 then [] else '.' :: pad3 f.ms) ++ fmtOff f.off) = some (f.ms * 1000, f.off) := by
    by_cases h0 : f.ms = 0 ∧ sub = 0
    · simp only [h0, and_self, if_true, List.nil_append, scanFracZone_nofrac o1 o2]
    · simp only [h0, if_false, List.cons_append, scanFracZone_frac hms o1 o2]
  simp only [fmtOff] at hfz
  simp only [formatChars, pad4, pad2, List.cons_append, List.nil_append, scanRaw, num4?_pad hY, num2?_pad hM,
    num2?_pad hD, num2?_pad hH, num2?_pad hI, num2?_pad hS, Option.bind_eq_bind, Option.bind_some, Option.pure_def]
  simp only [pad2, List.cons_append, List.nil_append] at hfz
  simp only [hfz, Option.bind_some]

theorem validate_of_valid {f : Fields} (hv : f.Valid) :
    validate ⟨f.year, f.month, f.day, f.hour, f.minute, f.second, f.ms * 1000, f.off⟩ = some f := by
  obtain ⟨hd, o1, o2⟩ := hv
  have e : f.ms * 1000 / 1000 = f.ms := by omega
  have hk : mkDT f.year f.month f.day f.hour f.minute f.second ((f.ms * 1000 / 1000 : Nat) : Int) = some f.dt := by
    rw [e]
    unfold mkDT
    exact if_pos hd
  rw [e] at hk
  simp only [validate, e, hk, o1, o2, and_self, if_true]

/-! ### the new recogniser and the mirror's `scanDateTime` -/

/-- the range check `Datetime.zone?` merges into the scan: |offset| < 24 h; the offset in seconds -/
def rawIso (r : Raw) : Option IsoFields :=
  if -1440 < r.off ∧ r.off < 1440 then some ⟨r.year, r.month, r.day, r.hour, r.minute, r.second, r.us, r.off * 60⟩ else none

theorem num2?_cls05 {a b : Char} {n : Nat} (h : num2? a b = some n) : inCls [('0', '5')] a = true ↔ n ≤ 59 := by
  simp only [num2?, Option.bind_eq_bind, Option.bind_eq_some_iff, Option.pure_def, Option.some.injEq] at h
  obtain ⟨x, hx, y, hy, e⟩ := h
  have hy9 : y ≤ 9 := by
    obtain ⟨y', hy', h9⟩ := dig_digit? (digit?_dig hy)
    rw [hy] at hy'; simp only [Option.some.injEq] at hy'; omega
  unfold digit? at hx
  split at hx
  · rename_i hr
    simp only [Option.some.injEq] at hx
    simp only [inCls, List.any_cons, List.any_nil, Bool.or_false, decide_eq_true_eq]
    have : ('0' : Char).toNat = 48 := rfl
    have : ('5' : Char).toNat = 53 := rfl
    omega
  · simp at hx

theorem zone?_eq (z : List Char) :
    zone? z = (scanZone z).bind fun o => if -1440 < o ∧ o < 1440 then some (o * 60) else none := by
  unfold zone? scanZone
  split
  · simp
  · rename_i sg h1 h2 m1 m2
    by_cases hsg : sg = '+' ∨ sg = '-'
    · simp only [hsg, if_true]
      cases hh : num2? h1 h2 with
      | none => by_cases h5 : inCls [('0', '5')] m1 = true <;> simp [h5]
      | some hhv =>
        cases hm : num2? m1 m2 with
        | none => by_cases h5 : inCls [('0', '5')] m1 = true <;> simp [h5]
        | some mmv =>
          have h5 := num2?_cls05 hm
          by_cases hmm : mmv ≤ 59
          · simp only [h5.2 hmm, if_true, Option.bind_eq_bind, Option.bind_some, Option.pure_def, hmm, and_true]
            by_cases hneg : sg = '-'
            · by_cases h23 : hhv ≤ 23
              · rw [if_pos h23, if_pos hneg, if_pos hneg, if_pos (by omega)]; simp only [Option.some.injEq]; omega
              · rw [if_neg h23, if_pos hneg, if_neg (by omega)]
            · by_cases h23 : hhv ≤ 23
              · rw [if_pos h23, if_neg hneg, if_neg hneg, if_pos (by omega)]; simp only [Option.some.injEq]; omega
              · rw [if_neg h23, if_neg hneg, if_neg (by omega)]
          · have : ¬ inCls [('0', '5')] m1 = true := fun c => hmm (h5.1 c)
            simp [this, hmm]
    · simp [hsg]
  · rename_i n1 n2
    split
    · exact absurd rfl n1
    · exact absurd rfl (n2 _ _ _ _ _)
    · rfl

theorem isDigit_fun : (fun c => (digit? c).isSome) = isDigit := by
  funext c; exact (isDigit_eq c).symm

theorem fracZone?_eq (cs : List Char) :
    fracZone? cs = (scanFracZone cs).bind fun p => if -1440 < p.2 ∧ p.2 < 1440 then some (p.1, p.2 * 60) else none := by
  unfold fracZone? scanFracZone
  split
  · rfl
  · rename_i c rest
    by_cases hc : c = '.'
    · simp only [hc, if_true, isDigit_fun, zone?_eq]
      cases frac? (rest.takeWhile isDigit) with
      | none => rfl
      | some us =>
        cases scanZone (rest.dropWhile isDigit) with
        | none => rfl
        | some o => by_cases hr : -1440 < o ∧ o < 1440 <;> simp [hr]
    · simp only [hc, if_false, zone?_eq]
      cases scanZone (c :: rest) with
      | none => rfl
      | some o => by_cases hr : -1440 < o ∧ o < 1440 <;> simp [hr]

/-- the mirror's scanner = the syntactic recogniser followed by the offset range check -/
theorem scanDateTime_eq (cs : List Char) : scanDateTime cs = (scanRaw cs).bind rawIso := by
  unfold scanDateTime scanRaw
  split
  · rename_i y1 y2 y3 y4 m1 m2 d1 d2 h1 h2 i1 i2 s1 s2 rest
    simp only [fracZone?_eq]
    cases num4? y1 y2 y3 y4 <;> try rfl
    cases num2? m1 m2 <;> try rfl
    cases num2? d1 d2 <;> try rfl
    cases num2? h1 h2 <;> try rfl
    cases num2? i1 i2 <;> try rfl
    cases num2? s1 s2 <;> try rfl
    cases scanFracZone rest with
    | none => rfl
    | some p =>
      obtain ⟨us, o⟩ := p
      by_cases hr : -1440 < o ∧ o < 1440 <;> simp [rawIso, hr]
  · rename_i n1
    split
    · exact absurd rfl (n1 _ _ _ _ _ _ _ _ _ _ _ _ _ _ _)
    · rfl

/-! ### the fraction is cut, not rounded -/

/-- the millisecond value of a fraction: its first three digits, right-padded with zeros -/
def ms3 (ds : List Char) : Option Nat :=
  match (ds ++ ['0', '0']).take 3 with
  | [a, b, c] => do let x ← digit? a; let y ← digit? b; let z ← digit? c; pure (x * 100 + y * 10 + z)
  | _ => none

theorem digit?_le {c : Char} {n : Nat} (h : digit? c = some n) : n ≤ 9 := by
  obtain ⟨m, hm, h9⟩ := dig_digit? (digit?_dig h)
  rw [h] at hm; simp only [Option.some.injEq] at hm; omega

theorem frac_truncates {ds : List Char} {us : Nat} (h : frac? ds = some us) : ms3 ds = some (us / 1000) := by
  have hl := frac?_len h
  unfold frac? at h
  rw [if_neg (by omega)] at h
  simp only [Option.map_eq_some_iff] at h
  obtain ⟨ns, hns, e⟩ := h
  subst e
  match ds, hl with
  | [a], _ =>
    simp only [List.mapM_cons, List.mapM_nil, Option.pure_def, Option.bind_eq_bind, Option.bind_eq_some_iff, Option.some.injEq] at hns
    obtain ⟨x, hx, _, rfl, rfl⟩ := hns
    have := digit?_le hx
    simp [ms3, hx, show digit? '0' = some 0 from rfl]
    omega
  | [a, b], _ =>
    simp only [List.mapM_cons, List.mapM_nil, Option.pure_def, Option.bind_eq_bind, Option.bind_eq_some_iff, Option.some.injEq] at hns
    obtain ⟨x, hx, _, ⟨y, hy, _, rfl, rfl⟩, rfl⟩ := hns
    have := digit?_le hx
    have := digit?_le hy
    simp [ms3, hx, hy, show digit? '0' = some 0 from rfl]
    omega
  | [a, b, c], _ =>
    simp only [List.mapM_cons, List.mapM_nil, Option.pure_def, Option.bind_eq_bind, Option.bind_eq_some_iff, Option.some.injEq] at hns
    obtain ⟨x, hx, _, ⟨y, hy, _, ⟨z, hz, _, rfl, rfl⟩, rfl⟩, rfl⟩ := hns
    have := digit?_le hx
    have := digit?_le hy
    have := digit?_le hz
    simp [ms3, hx, hy, hz]
    omega
  | [a, b, c, d], _ =>
    simp only [List.mapM_cons, List.mapM_nil, Option.pure_def, Option.bind_eq_bind, Option.bind_eq_some_iff, Option.some.injEq] at hns
    obtain ⟨x, hx, _, ⟨y, hy, _, ⟨z, hz, _, ⟨u, hu, _, rfl, rfl⟩, rfl⟩, rfl⟩, rfl⟩ := hns
    have := digit?_le hx
    have := digit?_le hy
    have := digit?_le hz
    have := digit?_le hu
    simp [ms3, hx, hy, hz]
    omega
  | [a, b, c, d, e], _ =>
    simp only [List.mapM_cons, List.mapM_nil, Option.pure_def, Option.bind_eq_bind, Option.bind_eq_some_iff, Option.some.injEq] at hns
    obtain ⟨x, hx, _, ⟨y, hy, _, ⟨z, hz, _, ⟨u, hu, _, ⟨v, hv, _, rfl, rfl⟩, rfl⟩, rfl⟩, rfl⟩, rfl⟩ := hns
    have := digit?_le hx
    have := digit?_le hy
    have := digit?_le hz
    have := digit?_le hu
    have := digit?_le hv
    simp [ms3, hx, hy, hz]
    omega
  | [a, b, c, d, e, f], _ =>
    simp only [List.mapM_cons, List.mapM_nil, Option.pure_def, Option.bind_eq_bind, Option.bind_eq_some_iff, Option.some.injEq] at hns
    obtain ⟨x, hx, _, ⟨y, hy, _, ⟨z, hz, _, ⟨u, hu, _, ⟨v, hv, _, ⟨w, hw, _, rfl, rfl⟩, rfl⟩, rfl⟩, rfl⟩, rfl⟩, rfl⟩ := hns
    have := digit?_le hx
    have := digit?_le hy
    have := digit?_le hz
    have := digit?_le hu
    have := digit?_le hv
    have := digit?_le hw
    simp [ms3, hx, hy, hz]
    omega

end C16Text
