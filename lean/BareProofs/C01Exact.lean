import BareProofs.C01Lemmas

/-!
# C01 — T2: the jump machine on lowered code *is* the ticked structured semantics

`simS / simB / simE`: for every structured statement / block / else-chain `s`, lowered at counter `i` inside any program
`P = pre ++ lower s ++ post` whose surroundings do not reuse the generated labels of `s`, running the cache-free machine
from the first lowered statement equals running `execT s` and then continuing the machine after the block (normal exit),
after the enclosing loop's `done` label (break) or `continue` label (continue) — as an **equation between functions of
fuel, locals, counter and state**, so termination, divergence (out of fuel), the statement count and every effect are
preserved at once.  No bound on nesting depth or program size.
-/

namespace C01
open Machine Lower Structured

variable {W : Type} (cfg : Config W) (P : List Stmt) (base : Option String)

/-- what the machine does after a structured outcome -/
def Cont (pb pc after : Nat) (o : TOut W) : Res W :=
  o.bind (fun l st f => execM₀ cfg f P l base after st)
         (fun l st f => execM₀ cfg f P l base (pb+1) st)
         (fun l st f => execM₀ cfg f P l base (pc+1) st)

theorem Cont_def (pb pc after : Nat) (o : TOut W) : Cont cfg P base pb pc after o =
  o.bind (fun l st f => execM₀ cfg f P l base after st)
         (fun l st f => execM₀ cfg f P l base (pb+1) st)
         (fun l st f => execM₀ cfg f P l base (pc+1) st) := rfl

/-- entry offset of an else-chain inside its lowered list: after `label done` for no else, after `label cur` otherwise -/
def elseEntry : SElse → Nat
  | .none => 1
  | _ => 2

theorem lowerElse_shape (lp : Option (Name × Name)) (cur done : Name) (e : SElse) (j : Nat) :
    (e = .none ∧ (lowerElse lp cur done e j).1 = [.label done]) ∨
    (e ≠ .none ∧ ∃ rest, (lowerElse lp cur done e j).1 = .jump done none :: .label cur :: rest) := by
  cases e with
  | none => exact Or.inl ⟨rfl, rfl⟩
  | els b => exact Or.inr ⟨by simp, _, by simp [lowerElse]; rfl⟩
  | elif c t e => exact Or.inr ⟨by simp, _, by simp [lowerElse]; rfl⟩

/-- statement of `simB` for one block (passed to the construct lemmas as induction hypothesis) -/
def SimB (lp : Option (Name × Name)) (pb pc : Nat) (B : List SStmt) (i : Nat) : Prop :=
  ∀ (pre post : List Stmt), NoRawB B →
    P = pre ++ (lowerB lp B i).1 ++ post →
    Fresh pre i (cntB B i) → Fresh post i (cntB B i) →
    ∀ f l st, execM₀ cfg f P l base pre.length st =
      Cont cfg P base pb pc (pre.length + (lowerB lp B i).1.length)
        (execTB cfg (callValue₀ cfg) (execIncludes₀ cfg) lp.isSome B i f l base st)

/-- statement of `simE` for one else-chain -/
def SimE (lp : Option (Name × Name)) (pb pc : Nat) (e : SElse) (j : Nat) : Prop :=
  ∀ (cur done : Name) (pre post : List Stmt), NoRawE e →
    P = pre ++ (lowerElse lp cur done e j).1 ++ post →
    Fresh pre j (cntE e j) → Fresh post j (cntE e j) →
    (∀ K n, cur = .gen K n → n < j) → (∀ K n, done = .gen K n → n < j) →
    findLabel P done = some (pre.length + (lowerElse lp cur done e j).1.length - 1) →
    ∀ f l st, execM₀ cfg f P l base (pre.length + elseEntry e) st =
      Cont cfg P base pb pc (pre.length + (lowerElse lp cur done e j).1.length)
        (execTE cfg (callValue₀ cfg) (execIncludes₀ cfg) lp.isSome e j f l base st)

/-- target of a branch's conditional jump: `done` when it is the last branch and no else follows, else its own `If` label -/
def chainTgt (e : SElse) (k : Nat) (done : Name) : Name :=
  match e with
  | .none => done
  | _ => lIf k

/-- one branch of an `if` chain: conditional jump, then-block, rest of the chain -/
theorem chain_lemma (lp : Option (Name × Name)) (pb pc : Nat) (c : Expr) (t : List SStmt) (e : SElse) (k : Nat) (done : Name)
    (hB : SimB cfg P base lp pb pc t (k+1)) (hE : SimE cfg P base lp pb pc e (cntB t (k+1)))
    (hnt : NoRawB t) (hne : NoRawE e)
    (A post : List Stmt)
    (hP : P = A ++ [.jump (chainTgt e k done) (some (notE c))] ++ (lowerB lp t (k+1)).1 ++
      (lowerElse lp (lIf k) done e (cntB t (k+1))).1 ++ post)
    (hfA : Fresh A k (cntE e (cntB t (k+1)))) (hfp : Fresh post k (cntE e (cntB t (k+1))))
    (hdn : ∀ K n, done = .gen K n → n ≤ k)
    (hd : findLabel P done = some (A.length + 1 + (lowerB lp t (k+1)).1.length +
      (lowerElse lp (lIf k) done e (cntB t (k+1))).1.length - 1))
    (f : Nat) (l : Option Env) (st : State W) :
    execM₀ cfg f P l base A.length st =
      Cont cfg P base pb pc (A.length + 1 + (lowerB lp t (k+1)).1.length + (lowerElse lp (lIf k) done e (cntB t (k+1))).1.length)
        (stmtCond cfg (callValue₀ cfg) (notE c) f l st fun taken f st1 =>
          if taken then execTE cfg (callValue₀ cfg) (execIncludes₀ cfg) lp.isSome e (cntB t (k+1)) f l base st1
          else
            match execTB cfg (callValue₀ cfg) (execIncludes₀ cfg) lp.isSome t (k+1) f l base st1 with
            | .norm l2 st2 f2 => stmtSkip cfg f2 l2 st2
            | o => o) := by
  have rt := lowerB_range lp t (k+1) hnt
  have re := lowerElse_range lp (lIf k) done e (cntB t (k+1)) hne
  have ct := cntB_le t (k+1)
  have ce := cntE_le e (cntB t (k+1))
  generalize hT : (lowerB lp t (k+1)).1 = T at *
  generalize hEl : (lowerElse lp (lIf k) done e (cntB t (k+1))).1 = E at *
  generalize htgt : chainTgt e k done = tgt at hP
  -- position of the conditional jump's target
  have hshape := lowerElse_shape lp (lIf k) done e (cntB t (k+1))
  rw [hEl] at hshape
  have htpos : findLabel P tgt = some (A.length + 1 + T.length + elseEntry e - 1) := by
    rcases hshape with ⟨he, hE1⟩ | ⟨he, rest, hE1⟩
    · subst he; simp only [chainTgt] at htgt; subst htgt
      rw [hd, hE1]; simp [elseEntry]
    · have : tgt = lIf k := by cases e <;> simp_all [chainTgt]
      subst this
      have hEE : elseEntry e = 2 := by cases e <;> simp_all [elseEntry]
      rw [hEE]
      refine find_at (A := A ++ [.jump (lIf k) (some (notE c))] ++ T ++ [.jump done none]) (B := rest ++ post)
        (by rw [hP, hE1]; simp [List.append_assoc]) (by simp; omega) ?_
      intro hm
      simp only [List.mem_append, List.mem_cons, List.not_mem_nil, or_false, false_or, reduceCtorEq] at hm
      rcases hm with hm | hm
      · exact hfA .ifL k (Nat.le_refl _) (by omega) hm
      · obtain ⟨K, n, he', a, b⟩ := rt _ hm; cases he'; omega
  have hg : P[A.length]? = some (.jump tgt (some (notE c))) :=
    get_at (A := A) (B := T ++ E ++ post) (by rw [hP]; simp [List.append_assoc]) rfl
  rw [exec_cond cfg f P l base _ st tgt (notE c) _ hg htpos, Cont_def, bind_stmtCond]
  congr 1; funext taken f' st2
  cases taken with
  | true =>
    simp only [if_true]
    -- else-chain
    have h := hE (lIf k) done (A ++ [.jump tgt (some (notE c))] ++ T) post hne
      (by rw [hP, hEl])
      (by
        intro K n a b hm
        simp only [List.mem_append, List.mem_cons, List.not_mem_nil, or_false, reduceCtorEq] at hm
        rcases hm with hm | hm
        · exact hfA K n (by omega) b hm
        · obtain ⟨K', n', he', a', b'⟩ := rt _ hm; cases he'; omega)
      (hfp.mono (by omega) (Nat.le_refl _))
      (by intro K n h; cases h; omega)
      (by intro K n h; have := hdn K n h; omega)
      (by rw [hEl, hd]; simp; omega)
      f' l st2
    rw [hEl] at h
    simp only [List.length_append, List.length_cons, List.length_nil] at h
    have e1 : A.length + 1 + T.length + elseEntry e - 1 + 1 = A.length + (0 + 1) + T.length + elseEntry e := by
      cases e <;> simp [elseEntry] <;> omega
    rw [e1, h, Cont_def]
  | false =>
    simp only [Bool.false_eq_true, if_false]
    have h := hB (A ++ [.jump tgt (some (notE c))]) (E ++ post) hnt
      (by rw [hP, hT]; simp [List.append_assoc])
      (by
        intro K n a b hm
        simp only [List.mem_append, List.mem_cons, List.not_mem_nil, or_false, reduceCtorEq] at hm
        exact hfA K n (by omega) (by omega) hm)
      (by
        intro K n a b hm
        simp only [List.mem_append] at hm
        rcases hm with hm | hm
        · rcases re _ hm with h | h | ⟨K', n', he', a', b'⟩
          · cases h; omega
          · have := hdn K n h.symm; omega
          · cases he'; omega
        · exact hfp K n (by omega) (by omega) hm)
      f' l st2
    rw [hT] at h
    simp only [List.length_append, List.length_cons, List.length_nil] at h
    rw [h, Cont_def]
    cases hO : execTB cfg (callValue₀ cfg) (execIncludes₀ cfg) lp.isSome t (k+1) f' l base st2 with
    | norm l2 st3 f2 =>
      show execM₀ cfg f2 P l2 base _ st3 = (stmtSkip cfg f2 l2 st3).bind _ _ _
      rw [bind_stmtSkip]
      rcases hshape with ⟨he, hE1⟩ | ⟨he, rest, hE1⟩
      · have hg2 : P[A.length + (0 + 1) + T.length]? = some (.label done) :=
          get_at (A := A ++ [.jump tgt (some (notE c))] ++ T) (B := post)
            (by rw [hP, hE1]; simp [List.append_assoc]) (by simp <;> omega)
        rw [exec_label cfg f2 P l2 base _ st3 done hg2]
        congr 1; funext l st f; congr 1; rw [hE1]; simp <;> omega
      · have hg2 : P[A.length + (0 + 1) + T.length]? = some (.jump done none) :=
          get_at (A := A ++ [.jump tgt (some (notE c))] ++ T) (B := .label (lIf k) :: rest ++ post)
            (by rw [hP, hE1]; simp [List.append_assoc]) (by simp <;> omega)
        rw [exec_jump cfg f2 P l2 base _ st3 done _ hg2 hd]
        congr 1; funext l st f; congr 1
        have : 0 < E.length := by rw [hE1]; simp
        omega
    | brk l2 st3 f2 => rfl
    | cont l2 st3 f2 => rfl
    | ret v st3 => rfl
    | err er st3 => rfl
    | oof => rfl

mutual
theorem simS (lp : Option (Name × Name)) (pb pc : Nat)
    (hlp : ∀ bl cl, lp = some (bl, cl) → findLabel P bl = some pb ∧ findLabel P cl = some pc) :
    ∀ (s : SStmt) (i : Nat) (pre post : List Stmt), NoRawS s →
    P = pre ++ (lowerS lp s i).1 ++ post →
    Fresh pre i (cntS s i) → Fresh post i (cntS s i) →
    ∀ f l st, execM₀ cfg f P l base pre.length st =
      Cont cfg P base pb pc (pre.length + (lowerS lp s i).1.length)
        (execTS cfg (callValue₀ cfg) (execIncludes₀ cfg) lp.isSome s i f l base st)
  | .expr n e, i, pre, post, _, hP, _, _, f, l, st => by
      simp only [lowerS, List.append_assoc, List.cons_append, List.nil_append] at hP
      rw [exec_expr cfg f P l base _ st n e (get_at hP rfl), execTS, Cont_def, bind_stmtExpr]; rfl
  | .ret none, i, pre, post, _, hP, _, _, f, l, st => by
      simp only [lowerS, List.append_assoc, List.cons_append, List.nil_append] at hP
      rw [exec_ret_none cfg f P l base _ st (get_at hP rfl), execTS, Cont_def, bind_tick]; rfl
  | .ret (some e), i, pre, post, _, hP, _, _, f, l, st => by
      simp only [lowerS, List.append_assoc, List.cons_append, List.nil_append] at hP
      rw [exec_ret_some cfg f P l base _ st e (get_at hP rfl), execTS, Cont_def, bind_tick]
      congr 1; funext f' st1
      cases evalExpr cfg (callValue₀ cfg f') l e st1 <;> rfl
  | .label _, i, pre, post, h, _, _, _, f, l, st => by simp [NoRawS] at h
  | .jump _ _, i, pre, post, h, _, _, _, f, l, st => by simp [NoRawS] at h
  | .include incs, i, pre, post, _, hP, _, _, f, l, st => by
      simp only [lowerS, List.append_assoc, List.cons_append, List.nil_append] at hP
      rw [exec_include cfg f P l base _ st incs (get_at hP rfl), execTS, Cont_def, bind_tick]
      congr 1; funext f' st1
      cases execIncludes₀ cfg f' base incs st1 <;> rfl
  | .brk, i, pre, post, _, hP, _, _, f, l, st => by
      cases lp with
      | none => simp [lowerS, execTS, Cont_def, TOut.bind]
      | some p =>
        obtain ⟨bl, cl⟩ := p
        simp only [lowerS, List.append_assoc, List.cons_append, List.nil_append] at hP
        rw [exec_jump cfg f P l base _ st bl pb (get_at hP rfl) (hlp bl cl rfl).1]
        simp only [execTS, Option.isSome_some, if_true, Cont_def, bind_tick]; rfl
  | .cont, i, pre, post, _, hP, _, _, f, l, st => by
      cases lp with
      | none => simp [lowerS, execTS, Cont_def, TOut.bind]
      | some p =>
        obtain ⟨bl, cl⟩ := p
        simp only [lowerS, List.append_assoc, List.cons_append, List.nil_append] at hP
        rw [exec_jump cfg f P l base _ st cl pc (get_at hP rfl) (hlp bl cl rfl).2]
        simp only [execTS, Option.isSome_some, if_true, Cont_def, bind_tick]; rfl
  | .func fid n args laa isAsync b, i, pre, post, _, hP, _, _, f, l, st => by
      simp only [lowerS, List.append_assoc, List.cons_append, List.nil_append] at hP
      rw [exec_func cfg f P l base _ st fid n args laa isAsync _ (get_at hP rfl), execTS, Cont_def, bind_tick]; rfl
  | .ite c t e, i, pre, post, h, hP, hf1, hf2, f, l, st => by
      sorry
  | .while c b, i, pre, post, h, hP, hf1, hf2, f, l, st => by
      sorry
  | .for v ix vals b, i, pre, post, h, hP, hf1, hf2, f, l, st => by
      sorry
theorem simB (lp : Option (Name × Name)) (pb pc : Nat)
    (hlp : ∀ bl cl, lp = some (bl, cl) → findLabel P bl = some pb ∧ findLabel P cl = some pc) :
    ∀ (B : List SStmt) (i : Nat) (pre post : List Stmt), NoRawB B →
    P = pre ++ (lowerB lp B i).1 ++ post →
    Fresh pre i (cntB B i) → Fresh post i (cntB B i) →
    ∀ f l st, execM₀ cfg f P l base pre.length st =
      Cont cfg P base pb pc (pre.length + (lowerB lp B i).1.length)
        (execTB cfg (callValue₀ cfg) (execIncludes₀ cfg) lp.isSome B i f l base st)
  | [], i, pre, post, _, hP, _, _, f, l, st => by simp [lowerB, execTB, Cont_def, TOut.bind]
  | s :: ss, i, pre, post, h, hP, hf1, hf2, f, l, st => by
      obtain ⟨hs, hss⟩ := h
      have r1 := lowerS_range lp s i hs
      have r2 := lowerB_range lp ss (cntS s i) hss
      have c1 := cntS_le s i
      have c2 := cntB_le ss (cntS s i)
      simp only [lowerB, cntB] at hP hf1 hf2 ⊢
      rw [lowerS_cnt] at hP ⊢
      have h1 := simS lp pb pc hlp s i pre ((lowerB lp ss (cntS s i)).1 ++ post) hs
        (by rw [hP]; simp [List.append_assoc])
        (hf1.mono (Nat.le_refl _) c2)
        ((fresh_of_range r2 (Or.inr (Nat.le_refl _))).append (hf2.mono (Nat.le_refl _) c2)) f l st
      rw [h1, execTB]; simp only [Cont_def]
      cases hO : execTS cfg (callValue₀ cfg) (execIncludes₀ cfg) lp.isSome s i f l base st with
      | norm l1 st1 f1 =>
        simp only [TOut.bind]
        have h2 := simB lp pb pc hlp ss (cntS s i) (pre ++ (lowerS lp s i).1) post hss
          (by rw [hP]; simp [List.append_assoc])
          ((hf1.mono c1 (Nat.le_refl _)).append (fresh_of_range r1 (Or.inl (Nat.le_refl _))))
          (hf2.mono c1 (Nat.le_refl _)) f1 l1 st1
        simp only [List.length_append] at h2
        rw [h2, Cont_def, Nat.add_assoc]
        cases execTB cfg (callValue₀ cfg) (execIncludes₀ cfg) lp.isSome ss (cntS s i) f1 l1 base st1 <;> simp [TOut.bind]
      | brk l1 st1 f1 => rfl
      | cont l1 st1 f1 => rfl
      | ret v st1 => rfl
      | err e st1 => rfl
      | oof => rfl
end

end C01
