import BareProofs.C01Lemmas
import BareModel.HostImpl

/-!
# C01 — T2: the jump machine on lowered code *is* the ticked structured semantics

`simS / simB / simE`: for every structured statement / block / else-chain `s`, lowered at counter `i` inside any program
`P = pre ++ lower s ++ post` whose surroundings do not reuse the generated labels of `s`, running the cache-free machine
from the first lowered statement equals running `execT s` and then continuing the machine after the block (normal exit),
after the enclosing loop's `done` label (break) or `continue` label (continue) — as an **equation between functions of
fuel, locals, counter and state**, so termination, divergence (out of fuel), the statement count and every effect are
preserved at once.  No bound on nesting depth or program size.

Structure: machine-side congruence / one-step lemmas (`step_expr`, `step_cond`, `step_label`, `step_jump`); the
non-recursive construct lemmas `chain_lemma` (one branch of an `if` chain), `while_lemma` (F7: `continue` re-enters the
body without the test, exactly as `loopW`), `for_lemma` (header, optional `label continue`, footer, `loopF`), each taking
the simulation of its sub-blocks as a hypothesis (`SimB`, `SimE`); the mutual structural recursion `simS / simB / simE`;
the corollaries `lower_exact_body`, `lower_exact`, `run_lowered_eq_runT`, `execute₀_lowered`; a concrete instance.
-/

namespace C01
open Machine Lower Structured

variable {W : Type} (cfg : Config W) (P : List Stmt) (base : Option String)

/-- what the machine does after a structured outcome -/
def Cont (pb pc after : Nat) (o : TOut W) : Res W :=
  o.bind (fun l st f => execM₀ cfg f P l base after st)
         (fun l st f => execM₀ cfg f P l base (pb+1) st)
         (fun l st f => execM₀ cfg f P l base (pc+1) st)

theorem Cont_def (pb pc after : Nat) (o : TOut W) : Cont cfg P base pb pc after o =
  o.bind (fun l st f => execM₀ cfg f P l base after st)
         (fun l st f => execM₀ cfg f P l base (pb+1) st)
         (fun l st f => execM₀ cfg f P l base (pc+1) st) := rfl

/-- the enclosing loop's labels are where `pb` / `pc` say; the continue label is only required to exist when the code
in question uses `continue` (a `for` loop emits its continue label only then) -/
def LpOK (lp : Option (Name × Name)) (pb pc : Nat) (uses : Bool) : Prop :=
  ∀ bl cl, lp = some (bl, cl) → findLabel P bl = some pb ∧ (uses = true → findLabel P cl = some pc)

theorem LpOK.mono {P : List Stmt} {lp : Option (Name × Name)} {pb pc : Nat} {u u' : Bool}
    (h : LpOK P lp pb pc u) (hu : u' = true → u = true) : LpOK P lp pb pc u' :=
  fun bl cl e => ⟨(h bl cl e).1, fun hu' => (h bl cl e).2 (hu hu')⟩

/-! ## congruence of the machine-side combinators in their continuation (only smaller fuel matters) -/

theorem mtick_congr (fuel : Nat) (st : State W) (k1 k2 : Nat → State W → Res W)
    (h : ∀ f' st1, f' < fuel → k1 f' st1 = k2 f' st1) : mtick cfg fuel st k1 = mtick cfg fuel st k2 := by
  cases fuel with
  | zero => rfl
  | succ f => simp only [mtick]; split
              · rfl
              · exact h f _ (Nat.lt_succ_self f)

theorem mExpr_congr (cv : CallAt W) (n : Option Name) (e : Expr) (fuel : Nat) (l : Option Env) (st : State W)
    (k1 k2 : Option Env → State W → Nat → Res W) (h : ∀ l' st' f', f' < fuel → k1 l' st' f' = k2 l' st' f') :
    mExpr cfg cv n e fuel l st k1 = mExpr cfg cv n e fuel l st k2 := by
  unfold mExpr; apply mtick_congr; intro f' st1 hlt
  cases evalExpr cfg (cv f') l e st1 with
  | ok v st2 => cases n <;> exact h _ _ _ hlt
  | err e st2 => rfl
  | oof => rfl

theorem mCond_congr (cv : CallAt W) (c : Expr) (fuel : Nat) (l : Option Env) (st : State W)
    (k1 k2 : Bool → Nat → State W → Res W) (h : ∀ t f' st', f' < fuel → k1 t f' st' = k2 t f' st') :
    mCond cfg cv c fuel l st k1 = mCond cfg cv c fuel l st k2 := by
  unfold mCond; apply mtick_congr; intro f' st1 hlt
  cases evalExpr cfg (cv f') l c st1 with
  | ok v st2 => exact h _ _ _ hlt
  | err e st2 => rfl
  | oof => rfl

theorem mSkip_congr (fuel : Nat) (l : Option Env) (st : State W)
    (k1 k2 : Option Env → State W → Nat → Res W) (h : ∀ l' st' f', f' < fuel → k1 l' st' f' = k2 l' st' f') :
    mSkip cfg fuel l st k1 = mSkip cfg fuel l st k2 := by
  unfold mSkip; apply mtick_congr; intro f' st1 hlt; exact h _ _ _ hlt

/-! ## one machine step against one structured step -/

/-- `match o with | .norm l st f => g l st f | o => o` as a named function -/
def andThen (o : TOut W) (g : Option Env → State W → Nat → TOut W) : TOut W :=
  match o with
  | .norm l st f => g l st f
  | o' => o'

theorem bind_andThen (o : TOut W) (g : Option Env → State W → Nat → TOut W)
    (kn kb kc : Option Env → State W → Nat → Res W) :
    (andThen o g).bind kn kb kc = o.bind (fun l st f => (g l st f).bind kn kb kc) kb kc := by
  cases o <;> rfl

variable {cfg P base}

theorem step_expr {f : Nat} {l : Option Env} {pc : Nat} {st : State W} {n : Option Name} {e : Expr}
    (hg : P[pc]? = some (.expr n e)) (g : Option Env → State W → Nat → TOut W)
    (kn kb kc : Option Env → State W → Nat → Res W)
    (hk : ∀ l' st' f', f' < f → execM₀ cfg f' P l' base (pc+1) st' = (g l' st' f').bind kn kb kc) :
    execM₀ cfg f P l base pc st = (andThen (stmtExpr cfg (callValue₀ cfg) n e f l st) g).bind kn kb kc := by
  rw [exec_expr cfg f P l base pc st n e hg, bind_andThen, bind_stmtExpr]
  exact mExpr_congr cfg _ _ _ _ _ _ _ _ hk

theorem step_label {f : Nat} {l : Option Env} {pc : Nat} {st : State W} {lab : Name}
    (hg : P[pc]? = some (.label lab)) (g : Option Env → State W → Nat → TOut W)
    (kn kb kc : Option Env → State W → Nat → Res W)
    (hk : ∀ l' st' f', f' < f → execM₀ cfg f' P l' base (pc+1) st' = (g l' st' f').bind kn kb kc) :
    execM₀ cfg f P l base pc st = (andThen (stmtSkip cfg f l st) g).bind kn kb kc := by
  rw [exec_label cfg f P l base pc st lab hg, bind_andThen, bind_stmtSkip]
  exact mSkip_congr cfg _ _ _ _ _ hk

theorem step_jump {f : Nat} {l : Option Env} {pc : Nat} {st : State W} {lab : Name} {tgt : Nat}
    (hg : P[pc]? = some (.jump lab none)) (hf : findLabel P lab = some tgt) (g : Option Env → State W → Nat → TOut W)
    (kn kb kc : Option Env → State W → Nat → Res W)
    (hk : ∀ l' st' f', f' < f → execM₀ cfg f' P l' base (tgt+1) st' = (g l' st' f').bind kn kb kc) :
    execM₀ cfg f P l base pc st = (andThen (stmtSkip cfg f l st) g).bind kn kb kc := by
  rw [exec_jump cfg f P l base pc st lab tgt hg hf, bind_andThen, bind_stmtSkip]
  exact mSkip_congr cfg _ _ _ _ _ hk

theorem step_cond {f : Nat} {l : Option Env} {pc : Nat} {st : State W} {lab : Name} {c : Expr} {tgt : Nat}
    (hg : P[pc]? = some (.jump lab (some c))) (hf : findLabel P lab = some tgt) (k : Bool → Nat → State W → TOut W)
    (kn kb kc : Option Env → State W → Nat → Res W)
    (hk : ∀ t f' st', f' < f →
      (if t then execM₀ cfg f' P l base (tgt+1) st' else execM₀ cfg f' P l base (pc+1) st') = (k t f' st').bind kn kb kc) :
    execM₀ cfg f P l base pc st = (stmtCond cfg (callValue₀ cfg) c f l st k).bind kn kb kc := by
  rw [exec_cond cfg f P l base pc st lab c tgt hg hf, bind_stmtCond]
  exact mCond_congr cfg _ _ _ _ _ _ _ hk

variable (cfg P base)

/-- entry offset of an else-chain inside its lowered list: after `label done` for no else, after `label cur` otherwise -/
def elseEntry : SElse → Nat
  | .none => 1
  | _ => 2

theorem lowerElse_shape (lp : Option (Name × Name)) (cur done : Name) (e : SElse) (j : Nat) :
    (e = .none ∧ (lowerElse lp cur done e j).1 = [.label done]) ∨
    (e ≠ .none ∧ ∃ rest, (lowerElse lp cur done e j).1 = .jump done none :: .label cur :: rest) := by
  cases e with
  | none => exact Or.inl ⟨rfl, rfl⟩
  | els b => exact Or.inr ⟨by simp, _, by simp [lowerElse]; rfl⟩
  | elif c t e => exact Or.inr ⟨by simp, _, by simp [lowerElse]; rfl⟩

/-- statement of `simB` for one block (passed to the construct lemmas as induction hypothesis) -/
def SimB (lp : Option (Name × Name)) (pb pc : Nat) (B : List SStmt) (i : Nat) : Prop :=
  ∀ (pre post : List Stmt), NoRawB B →
    P = pre ++ (lowerB lp B i).1 ++ post →
    Fresh pre i (cntB B i) → Fresh post i (cntB B i) →
    ∀ f l st, execM₀ cfg f P l base pre.length st =
      Cont cfg P base pb pc (pre.length + (lowerB lp B i).1.length)
        (execTB cfg (callValue₀ cfg) (execIncludes₀ cfg) lp.isSome B i f l base st)

/-- statement of `simE` for one else-chain -/
def SimE (lp : Option (Name × Name)) (pb pc : Nat) (e : SElse) (j : Nat) : Prop :=
  ∀ (cur done : Name) (pre post : List Stmt), NoRawE e →
    P = pre ++ (lowerElse lp cur done e j).1 ++ post →
    Fresh pre j (cntE e j) → Fresh post j (cntE e j) →
    (∀ K n, cur = .gen K n → n < j) → (∀ K n, done = .gen K n → n < j) →
    findLabel P done = some (pre.length + (lowerElse lp cur done e j).1.length - 1) →
    ∀ f l st, execM₀ cfg f P l base (pre.length + elseEntry e) st =
      Cont cfg P base pb pc (pre.length + (lowerElse lp cur done e j).1.length)
        (execTE cfg (callValue₀ cfg) (execIncludes₀ cfg) lp.isSome e j f l base st)

/-- target of a branch's conditional jump: `done` when it is the last branch and no else follows, else its own `If` label -/
def chainTgt (e : SElse) (k : Nat) (done : Name) : Name :=
  match e with
  | .none => done
  | _ => lIf k

theorem lowerS_ite_eq (lp : Option (Name × Name)) (c : Expr) (t : List SStmt) (e : SElse) (i : Nat) :
    (lowerS lp (.ite c t e) i).1 = [.jump (chainTgt e i (lDone i)) (some (notE c))] ++ (lowerB lp t (i+1)).1 ++
      (lowerElse lp (lIf i) (lDone i) e (cntB t (i+1))).1 := by
  simp only [lowerS, lowerB_cnt]; cases e <;> rfl

theorem lowerElse_elif_eq (lp : Option (Name × Name)) (cur done : Name) (c : Expr) (t : List SStmt) (e : SElse) (j : Nat) :
    (lowerElse lp cur done (.elif c t e) j).1 =
      [.jump done none, .label cur, .jump (chainTgt e j done) (some (notE c))] ++ (lowerB lp t (j+1)).1 ++
      (lowerElse lp (lIf j) done e (cntB t (j+1))).1 := by
  simp only [lowerElse, lowerB_cnt]; cases e <;> rfl

/-- an else-chain ends with `label done`; the labels before it are `cur` or generated by the chain itself -/
theorem lowerElse_last (lp : Option (Name × Name)) : ∀ (e : SElse) (cur done : Name) (j : Nat), NoRawE e →
    ∃ init, (lowerElse lp cur done e j).1 = init ++ [.label done] ∧
      ∀ l, Stmt.label l ∈ init → l = cur ∨ ∃ K k, l = .gen K k ∧ j ≤ k ∧ k < cntE e j
  | .none, cur, done, j, _ => ⟨[], rfl, by simp⟩
  | .els b, cur, done, j, h => by
      refine ⟨[.jump done none, .label cur] ++ (lowerB lp b j).1, by simp [lowerElse], ?_⟩
      intro l hl
      simp only [List.mem_append, List.mem_cons, List.not_mem_nil, or_false, false_or, reduceCtorEq,
        Stmt.label.injEq] at hl
      rcases hl with hl | hl
      · exact Or.inl hl
      · exact Or.inr (lowerB_range lp b j h l hl)
  | .elif c t e, cur, done, j, h => by
      obtain ⟨ht, he⟩ := h
      obtain ⟨init, hi, hl⟩ := lowerElse_last lp e (lIf j) done (cntB t (j+1)) he
      have ct := cntB_le t (j+1)
      have ce := cntE_le e (cntB t (j+1))
      refine ⟨[.jump done none, .label cur, .jump (chainTgt e j done) (some (notE c))] ++ (lowerB lp t (j+1)).1 ++ init,
        by rw [lowerElse_elif_eq, hi]; simp [List.append_assoc], ?_⟩
      intro l hm
      simp only [List.mem_append, List.mem_cons, List.not_mem_nil, or_false, false_or, reduceCtorEq,
        Stmt.label.injEq, cntE] at hm ⊢
      rcases hm with (hm | hm) | hm
      · exact Or.inl hm
      · obtain ⟨K, k, rfl, a, b⟩ := lowerB_range lp t (j+1) ht l hm
        exact Or.inr ⟨K, k, rfl, by omega, by omega⟩
      · rcases hl l hm with rfl | ⟨K, k, rfl, a, b⟩
        · exact Or.inr ⟨_, _, rfl, Nat.le_refl _, by omega⟩
        · exact Or.inr ⟨K, k, rfl, by omega, by omega⟩

theorem eq_of_pos {pb pc : Nat} {f : Nat} {l : Option Env} {st : State W} {a a' b b' : Nat} {o : TOut W}
    (h : execM₀ cfg f P l base a st = Cont cfg P base pb pc b o) (ha : a' = a) (hb : b' = b) :
    execM₀ cfg f P l base a' st = Cont cfg P base pb pc b' o := by
  subst ha; subst hb; exact h

/-- one branch of an `if` chain: conditional jump, then-block, rest of the chain -/
theorem chain_lemma (lp : Option (Name × Name)) (pb pc : Nat) (c : Expr) (t : List SStmt) (e : SElse) (k : Nat) (done : Name)
    (hB : SimB cfg P base lp pb pc t (k+1)) (hE : SimE cfg P base lp pb pc e (cntB t (k+1)))
    (hnt : NoRawB t) (hne : NoRawE e)
    (A post : List Stmt)
    (hP : P = A ++ [.jump (chainTgt e k done) (some (notE c))] ++ (lowerB lp t (k+1)).1 ++
      (lowerElse lp (lIf k) done e (cntB t (k+1))).1 ++ post)
    (hfA : Fresh A k (cntE e (cntB t (k+1)))) (hfp : Fresh post k (cntE e (cntB t (k+1))))
    (hdn : ∀ K n, done = .gen K n → n ≤ k)
    (hd : findLabel P done = some (A.length + 1 + (lowerB lp t (k+1)).1.length +
      (lowerElse lp (lIf k) done e (cntB t (k+1))).1.length - 1))
    (f : Nat) (l : Option Env) (st : State W) :
    execM₀ cfg f P l base A.length st =
      Cont cfg P base pb pc (A.length + 1 + (lowerB lp t (k+1)).1.length + (lowerElse lp (lIf k) done e (cntB t (k+1))).1.length)
        (stmtCond cfg (callValue₀ cfg) (notE c) f l st fun taken f st1 =>
          if taken then execTE cfg (callValue₀ cfg) (execIncludes₀ cfg) lp.isSome e (cntB t (k+1)) f l base st1
          else
            match execTB cfg (callValue₀ cfg) (execIncludes₀ cfg) lp.isSome t (k+1) f l base st1 with
            | .norm l2 st2 f2 => stmtSkip cfg f2 l2 st2
            | o => o) := by
  have rt := lowerB_range lp t (k+1) hnt
  have re := lowerElse_range lp (lIf k) done e (cntB t (k+1)) hne
  have ct := cntB_le t (k+1)
  have ce := cntE_le e (cntB t (k+1))
  generalize hT : (lowerB lp t (k+1)).1 = T at *
  generalize hEl : (lowerElse lp (lIf k) done e (cntB t (k+1))).1 = E at *
  generalize htgt : chainTgt e k done = tgt at hP
  -- position of the conditional jump's target
  have hshape := lowerElse_shape lp (lIf k) done e (cntB t (k+1))
  rw [hEl] at hshape
  have htpos : findLabel P tgt = some (A.length + 1 + T.length + elseEntry e - 1) := by
    rcases hshape with ⟨he, hE1⟩ | ⟨he, rest, hE1⟩
    · subst he; simp only [chainTgt] at htgt; subst htgt
      rw [hd, hE1]; simp [elseEntry]
    · have : tgt = lIf k := by cases e <;> simp_all [chainTgt]
      subst this
      have hEE : elseEntry e = 2 := by cases e <;> simp_all [elseEntry]
      rw [hEE]
      refine find_at (A := A ++ [.jump (lIf k) (some (notE c))] ++ T ++ [.jump done none]) (B := rest ++ post)
        (by rw [hP, hE1]; simp [List.append_assoc]) (by simp; omega) ?_
      intro hm
      simp only [List.mem_append, List.mem_cons, List.not_mem_nil, or_false, reduceCtorEq] at hm
      rcases hm with hm | hm
      · exact hfA .ifL k (Nat.le_refl _) (by omega) hm
      · obtain ⟨K, n, he', a, b⟩ := rt _ hm; cases he'; omega
  have hg : P[A.length]? = some (.jump tgt (some (notE c))) :=
    get_at (A := A) (B := T ++ E ++ post) (by rw [hP]; simp [List.append_assoc]) rfl
  rw [exec_cond cfg f P l base _ st tgt (notE c) _ hg htpos, Cont_def, bind_stmtCond]
  congr 1; funext taken f' st2
  cases taken with
  | true =>
    simp only [if_true]
    -- else-chain
    have h := hE (lIf k) done (A ++ [.jump tgt (some (notE c))] ++ T) post hne
      (by rw [hP, hEl])
      (by
        intro K n a b hm
        simp only [List.mem_append, List.mem_cons, List.not_mem_nil, or_false, reduceCtorEq] at hm
        rcases hm with hm | hm
        · exact hfA K n (by omega) b hm
        · obtain ⟨K', n', he', a', b'⟩ := rt _ hm; cases he'; omega)
      (hfp.mono (by omega) (Nat.le_refl _))
      (by intro K n h; cases h; omega)
      (by intro K n h; have := hdn K n h; omega)
      (by rw [hEl, hd]; simp; omega)
      f' l st2
    rw [hEl] at h
    simp only [List.length_append, List.length_cons, List.length_nil] at h
    have e1 : A.length + 1 + T.length + elseEntry e - 1 + 1 = A.length + (0 + 1) + T.length + elseEntry e := by
      cases e <;> simp [elseEntry] <;> omega
    rw [e1, h, Cont_def]
  | false =>
    simp only [Bool.false_eq_true, if_false]
    have h := hB (A ++ [.jump tgt (some (notE c))]) (E ++ post) hnt
      (by rw [hP, hT]; simp [List.append_assoc])
      (by
        intro K n a b hm
        simp only [List.mem_append, List.mem_cons, List.not_mem_nil, or_false, reduceCtorEq] at hm
        exact hfA K n (by omega) (by omega) hm)
      (by
        intro K n a b hm
        simp only [List.mem_append] at hm
        rcases hm with hm | hm
        · rcases re _ hm with h | h | ⟨K', n', he', a', b'⟩
          · cases h; omega
          · have := hdn K n h.symm; omega
          · cases he'; omega
        · exact hfp K n (by omega) (by omega) hm)
      f' l st2
    rw [hT] at h
    simp only [List.length_append, List.length_cons, List.length_nil] at h
    rw [h, Cont_def]
    cases hO : execTB cfg (callValue₀ cfg) (execIncludes₀ cfg) lp.isSome t (k+1) f' l base st2 with
    | norm l2 st3 f2 =>
      show execM₀ cfg f2 P l2 base _ st3 = (stmtSkip cfg f2 l2 st3).bind _ _ _
      rw [bind_stmtSkip]
      rcases hshape with ⟨he, hE1⟩ | ⟨he, rest, hE1⟩
      · have hg2 : P[A.length + (0 + 1) + T.length]? = some (.label done) :=
          get_at (A := A ++ [.jump tgt (some (notE c))] ++ T) (B := post)
            (by rw [hP, hE1]; simp [List.append_assoc]) (by simp <;> omega)
        rw [exec_label cfg f2 P l2 base _ st3 done hg2]
        congr 1; funext l st f; congr 1; rw [hE1]; simp <;> omega
      · have hg2 : P[A.length + (0 + 1) + T.length]? = some (.jump done none) :=
          get_at (A := A ++ [.jump tgt (some (notE c))] ++ T) (B := .label (lIf k) :: rest ++ post)
            (by rw [hP, hE1]; simp [List.append_assoc]) (by simp <;> omega)
        rw [exec_jump cfg f2 P l2 base _ st3 done _ hg2 hd]
        congr 1; funext l st f; congr 1
        have : 0 < E.length := by rw [hE1]; simp
        omega
    | brk l2 st3 f2 => rfl
    | cont l2 st3 f2 => rfl
    | ret v st3 => rfl
    | err er st3 => rfl
    | oof => rfl

/-- `while`: header test, `label loop`, the iterations (`loopW`), `label done` -/
theorem while_lemma (lp : Option (Name × Name)) (pb pc : Nat) (c : Expr) (b : List SStmt) (i : Nat)
    (hB : ∀ pbW pcW, findLabel P (lDone i) = some pbW → findLabel P (lLoop i) = some pcW →
      SimB cfg P base (some (lDone i, lLoop i)) pbW pcW b (i+1))
    (hnb : NoRawB b) (pre post : List Stmt)
    (hP : P = pre ++ (lowerS lp (.while c b) i).1 ++ post)
    (hf1 : Fresh pre i (cntB b (i+1))) (hf2 : Fresh post i (cntB b (i+1)))
    (f : Nat) (l : Option Env) (st : State W) :
    execM₀ cfg f P l base pre.length st =
      Cont cfg P base pb pc (pre.length + (lowerS lp (.while c b) i).1.length)
        (execTS cfg (callValue₀ cfg) (execIncludes₀ cfg) lp.isSome (.while c b) i f l base st) := by
  have rb := lowerB_range (some (lDone i, lLoop i)) b (i+1) hnb
  have cb := cntB_le b (i+1)
  simp only [lowerS] at hP ⊢
  generalize hT : (lowerB (some (lDone i, lLoop i)) b (i+1)).1 = T at *
  have hP' : P = pre ++ .jump (lDone i) (some (notE c)) :: .label (lLoop i) :: (T ++
      .jump (lLoop i) (some c) :: .label (lDone i) :: post) := by
    rw [hP]; simp [List.append_assoc]
  have hgH : P[pre.length]? = some (.jump (lDone i) (some (notE c))) := get_at hP' rfl
  have hgL : P[pre.length + 1]? = some (.label (lLoop i)) :=
    get_at (A := pre ++ [.jump (lDone i) (some (notE c))]) (B := T ++
      .jump (lLoop i) (some c) :: .label (lDone i) :: post) (by rw [hP']; simp) (by simp)
  have hgF : P[pre.length + 2 + T.length]? = some (.jump (lLoop i) (some c)) :=
    get_at (A := pre ++ .jump (lDone i) (some (notE c)) :: .label (lLoop i) :: T)
      (B := .label (lDone i) :: post) (by rw [hP']; simp) (by simp <;> omega)
  have hgD : P[pre.length + 2 + T.length + 1]? = some (.label (lDone i)) :=
    get_at (A := pre ++ .jump (lDone i) (some (notE c)) :: .label (lLoop i) :: (T ++
      [.jump (lLoop i) (some c)])) (B := post) (by rw [hP']; simp) (by simp <;> omega)
  have hfl : findLabel P (lLoop i) = some (pre.length + 1) :=
    find_at (A := pre ++ [.jump (lDone i) (some (notE c))]) (B := T ++
      .jump (lLoop i) (some c) :: .label (lDone i) :: post) (by rw [hP']; simp) (by simp)
      (by
        intro hm
        simp only [List.mem_append, List.mem_cons, List.not_mem_nil, or_false, reduceCtorEq] at hm
        exact hf1 .loop i (Nat.le_refl _) (by omega) hm)
  have hfd : findLabel P (lDone i) = some (pre.length + 2 + T.length + 1) :=
    find_at (A := pre ++ .jump (lDone i) (some (notE c)) :: .label (lLoop i) :: (T ++
      [.jump (lLoop i) (some c)])) (B := post) (by rw [hP']; simp) (by simp <;> omega)
      (by
        intro hm
        simp only [List.mem_append, List.mem_cons, List.not_mem_nil, or_false, false_or, reduceCtorEq,
          Stmt.label.injEq, lDone, lLoop, Name.gen.injEq, false_and] at hm
        rcases hm with hm | hm
        · exact hf1 .done i (Nat.le_refl _) (by omega) hm
        · obtain ⟨K, k, he, a, b⟩ := rb _ hm
          simp only [Name.gen.injEq] at he; omega)
  have hbody := hB _ _ hfd hfl (pre ++ [.jump (lDone i) (some (notE c)), .label (lLoop i)])
    (.jump (lLoop i) (some c) :: .label (lDone i) :: post) hnb
    (by rw [hP', hT]; simp)
    (by
      intro K k a b hm
      simp only [List.mem_append, List.mem_cons, List.not_mem_nil, or_false, false_or, reduceCtorEq,
        Stmt.label.injEq, lLoop, Name.gen.injEq] at hm
      rcases hm with hm | hm
      · exact hf1 K k (by omega) b hm
      · omega)
    (by
      intro K k a b hm
      simp only [List.mem_cons, reduceCtorEq, false_or, Stmt.label.injEq, lDone, Name.gen.injEq] at hm
      rcases hm with hm | hm
      · omega
      · exact hf2 K k (by omega) b hm)
  simp only [List.length_append, List.length_cons, List.length_nil, hT, Option.isSome_some] at hbody
  -- the iterations
  have hloop : ∀ n f l st, f < n → execM₀ cfg f P l base (pre.length + 2) st =
      Cont cfg P base pb pc (pre.length + (2 + T.length + 2))
        (loopW cfg (callValue₀ cfg) c
          (fun f l s => execTB cfg (callValue₀ cfg) (execIncludes₀ cfg) true b (i+1) f l base s) n f l st) := by
    intro n
    induction n with
    | zero => intro f l st h; omega
    | succ n ih =>
      intro f l st hlt
      have hb := hbody f l st
      have hok := execTB_ok cfg (callValue₀ cfg) (execIncludes₀ cfg) true b (i+1) f l base st
      rw [show pre.length + (0 + 1 + 1) = pre.length + 2 by omega] at hb
      rw [hb, loopW]
      cases hO : execTB cfg (callValue₀ cfg) (execIncludes₀ cfg) true b (i+1) f l base st with
      | norm l1 st1 f1 =>
        simp only [hO, FuelOK] at hok
        show execM₀ cfg f1 P l1 base _ st1 = (stmtCond _ _ _ _ _ _ _).bind _ _ _
        refine step_cond hgF hfl _ _ _ _ ?_
        intro t f2 st2 hlt2
        cases t with
        | true =>
          simp only [if_true]
          exact ih f2 l1 st2 (by omega)
        | false =>
          simp only [Bool.false_eq_true, if_false]
          rw [bind_stmtSkip, exec_label cfg f2 P l1 base _ st2 _ hgD]
          congr 1; funext l st f; congr 1; omega
      | brk l1 st1 f1 =>
        show execM₀ cfg f1 P l1 base _ st1 = execM₀ cfg f1 P l1 base _ st1
        congr 1; omega
      | cont l1 st1 f1 =>
        simp only [hO, FuelOK] at hok
        show execM₀ cfg f1 P l1 base _ st1 = _
        exact ih f1 l1 st1 (by omega)
      | ret v st1 => rfl
      | err e st1 => rfl
      | oof => rfl
  rw [execTS]
  refine step_cond hgH hfd _ _ _ _ ?_
  intro t f1 st1 _
  cases t with
  | true =>
    simp only [if_true]
    show execM₀ cfg f1 P l base _ st1 = execM₀ cfg f1 P l base _ st1
    congr 1; simp <;> omega
  | false =>
    simp only [Bool.false_eq_true, if_false]
    refine step_label hgL _ _ _ _ ?_
    intro l2 st2 f2 _
    have := hloop (f2+1) f2 l2 st2 (Nat.lt_succ_self _)
    simp only [List.length_append, List.length_cons, List.length_nil] at this ⊢
    rw [show pre.length + 1 + 1 = pre.length + 2 by omega, this, Cont_def]

/-- the part of a `for` iteration after the (optional) `label continue`: index increment, test, next iteration or
`label done` -/
def forAfter (cv : CallAt W) (i : Nat) (v ixv : Name) (hc : Bool) (body : Nat → Option Env → State W → TOut W) (n : Nat)
    (l2 : Option Env) (st2 : State W) (f2 : Nat) : TOut W :=
  andThen (stmtExpr cfg cv (some ixv) (.binary .add (.variable ixv) (.number 1)) f2 l2 st2) fun l3 st3 f3 =>
    stmtCond cfg cv (.binary .lt (.variable ixv) (.variable (vLength i))) f3 l3 st3 fun taken f4 st4 =>
      if taken then loopF cfg cv i v ixv hc body n f4 l3 st4 else stmtSkip cfg f4 l3 st4

theorem loopF_succ (cv : CallAt W) (i : Nat) (v ixv : Name) (hc : Bool) (body : Nat → Option Env → State W → TOut W) (n : Nat)
    (f : Nat) (l : Option Env) (st : State W) :
    loopF cfg cv i v ixv hc body (n+1) f l st =
      andThen (stmtExpr cfg cv (some v) (.function fnArrayGet [.variable (vValues i), .variable ixv]) f l st) fun l0 st0 f0 =>
        match body f0 l0 st0 with
        | .norm l1 st1 f1 =>
            if hc then andThen (stmtSkip cfg f1 l1 st1) (forAfter cfg cv i v ixv hc body n)
            else forAfter cfg cv i v ixv hc body n l1 st1 f1
        | .cont l1 st1 f1 => forAfter cfg cv i v ixv hc body n l1 st1 f1
        | .brk l1 st1 f1 => .norm l1 st1 f1
        | o => o := by
  cases hc <;> rfl

/-- `for`: header (values, length, emptiness test, index, `label loop`), the iterations (`loopF`), `label done` -/
theorem for_lemma (lp : Option (Name × Name)) (pb pc : Nat) (v : Name) (ix : Option Name) (vals : Expr) (b : List SStmt) (i : Nat)
    (hB : ∀ pbW pcW, findLabel P (lDone i) = some pbW → (usesContB b = true → findLabel P (lCont i) = some pcW) →
      SimB cfg P base (some (lDone i, lCont i)) pbW pcW b (i+1))
    (hnb : NoRawB b) (pre post : List Stmt)
    (hP : P = pre ++ (lowerS lp (.for v ix vals b) i).1 ++ post)
    (hf1 : Fresh pre i (cntB b (i+1))) (hf2 : Fresh post i (cntB b (i+1)))
    (f : Nat) (l : Option Env) (st : State W) :
    execM₀ cfg f P l base pre.length st =
      Cont cfg P base pb pc (pre.length + (lowerS lp (.for v ix vals b) i).1.length)
        (execTS cfg (callValue₀ cfg) (execIncludes₀ cfg) lp.isSome (.for v ix vals b) i f l base st) := by
  have rb := lowerB_range (some (lDone i, lCont i)) b (i+1) hnb
  have cb := cntB_le b (i+1)
  rw [execTS]
  simp only [lowerS, forFooter] at hP ⊢
  generalize hT : (lowerB (some (lDone i, lCont i)) b (i+1)).1 = T at *
  generalize hixv : ix.getD (vIndex i) = ixv at *
  generalize hhc : usesContB b = hc at *
  generalize hC : (if hc = true then [Stmt.label (lCont i)] else []) = C at *
  have hCl : ∀ l, Stmt.label l ∈ C → l = lCont i := by
    intro l hl; subst hC; cases hc <;> simp at hl; exact hl
  have hCn : C.length = if hc then 1 else 0 := by subst hC; cases hc <;> rfl
  have hCle : C.length ≤ 1 := by rw [hCn]; cases hc <;> simp
  simp only [forHeader] at hP ⊢
  have hP' : P = pre ++ .expr (some (vValues i)) vals ::
      .expr (some (vLength i)) (.function fnArrayLength [.variable (vValues i)]) ::
      .jump (lDone i) (some (notE (.variable (vLength i)))) ::
      .expr (some ixv) (.number 0) ::
      .label (lLoop i) ::
      .expr (some v) (.function fnArrayGet [.variable (vValues i), .variable ixv]) :: (T ++ (C ++
      .expr (some ixv) (.binary .add (.variable ixv) (.number 1)) ::
      .jump (lLoop i) (some (.binary .lt (.variable ixv) (.variable (vLength i)))) ::
      .label (lDone i) :: post)) := by
    rw [hP]; simp [List.append_assoc]
  have hg0 : P[pre.length]? = some (.expr (some (vValues i)) vals) := get_at hP' rfl
  have hg1 : P[pre.length + 1]? = some (.expr (some (vLength i)) (.function fnArrayLength [.variable (vValues i)])) :=
    get_at (A := pre ++ [.expr (some (vValues i)) vals]) (by rw [hP']; simp; rfl) (by simp)
  have hg2 : P[pre.length + 2]? = some (.jump (lDone i) (some (notE (.variable (vLength i))))) :=
    get_at (A := pre ++ [.expr (some (vValues i)) vals,
      .expr (some (vLength i)) (.function fnArrayLength [.variable (vValues i)])]) (by rw [hP']; simp; rfl) (by simp)
  have hg3 : P[pre.length + 3]? = some (.expr (some ixv) (.number 0)) :=
    get_at (A := pre ++ [.expr (some (vValues i)) vals,
      .expr (some (vLength i)) (.function fnArrayLength [.variable (vValues i)]),
      .jump (lDone i) (some (notE (.variable (vLength i))))]) (by rw [hP']; simp; rfl) (by simp)
  have hg4 : P[pre.length + 4]? = some (.label (lLoop i)) :=
    get_at (A := pre ++ [.expr (some (vValues i)) vals,
      .expr (some (vLength i)) (.function fnArrayLength [.variable (vValues i)]),
      .jump (lDone i) (some (notE (.variable (vLength i)))),
      .expr (some ixv) (.number 0)]) (by rw [hP']; simp; rfl) (by simp)
  have hg5 : P[pre.length + 5]? = some (.expr (some v) (.function fnArrayGet [.variable (vValues i), .variable ixv])) :=
    get_at (A := pre ++ [.expr (some (vValues i)) vals,
      .expr (some (vLength i)) (.function fnArrayLength [.variable (vValues i)]),
      .jump (lDone i) (some (notE (.variable (vLength i)))),
      .expr (some ixv) (.number 0), .label (lLoop i)]) (by rw [hP']; simp; rfl) (by simp)
  -- footer positions
  generalize hH : [Stmt.expr (some (vValues i)) vals,
      .expr (some (vLength i)) (.function fnArrayLength [.variable (vValues i)]),
      .jump (lDone i) (some (notE (.variable (vLength i)))),
      .expr (some ixv) (.number 0), .label (lLoop i),
      .expr (some v) (.function fnArrayGet [.variable (vValues i), .variable ixv])] = H at hP ⊢
  have hHn : H.length = 6 := by subst hH; rfl
  have hHl : ∀ l, Stmt.label l ∈ H → l = lLoop i := by intro l hl; subst hH; simpa using hl
  have hPH : P = pre ++ H ++ T ++ C ++
      .expr (some ixv) (.binary .add (.variable ixv) (.number 1)) ::
      .jump (lLoop i) (some (.binary .lt (.variable ixv) (.variable (vLength i)))) ::
      .label (lDone i) :: post := by
    rw [hP]; simp [List.append_assoc]
  have hg6 : P[pre.length + 6 + T.length + C.length]? = some (.expr (some ixv) (.binary .add (.variable ixv) (.number 1))) :=
    get_at (A := pre ++ H ++ T ++ C) hPH (by simp <;> omega)
  have hg7 : P[pre.length + 6 + T.length + C.length + 1]? =
      some (.jump (lLoop i) (some (.binary .lt (.variable ixv) (.variable (vLength i))))) :=
    get_at (A := pre ++ H ++ T ++ C ++ [.expr (some ixv) (.binary .add (.variable ixv) (.number 1))])
      (B := .label (lDone i) :: post) (by rw [hPH]; simp [List.append_assoc]) (by simp <;> omega)
  have hg8 : P[pre.length + 6 + T.length + C.length + 2]? = some (.label (lDone i)) :=
    get_at (A := pre ++ H ++ T ++ C ++ [.expr (some ixv) (.binary .add (.variable ixv) (.number 1)),
      .jump (lLoop i) (some (.binary .lt (.variable ixv) (.variable (vLength i))))])
      (B := post) (by rw [hPH]; simp [List.append_assoc]) (by simp <;> omega)
  have hfl : findLabel P (lLoop i) = some (pre.length + 4) :=
    find_at (A := pre ++ [.expr (some (vValues i)) vals,
      .expr (some (vLength i)) (.function fnArrayLength [.variable (vValues i)]),
      .jump (lDone i) (some (notE (.variable (vLength i)))),
      .expr (some ixv) (.number 0)]) (by rw [hP']; simp; rfl) (by simp)
      (by
        intro hm
        simp only [List.mem_append, List.mem_cons, List.not_mem_nil, or_false, reduceCtorEq] at hm
        exact hf1 .loop i (Nat.le_refl _) (by omega) hm)
  have hfd : findLabel P (lDone i) = some (pre.length + 6 + T.length + C.length + 2) :=
    find_at (A := pre ++ H ++ T ++ C ++ [.expr (some ixv) (.binary .add (.variable ixv) (.number 1)),
      .jump (lLoop i) (some (.binary .lt (.variable ixv) (.variable (vLength i))))])
      (B := post) (by rw [hPH]; simp [List.append_assoc]) (by simp <;> omega)
      (by
        intro hm
        simp only [List.mem_append, List.mem_cons, List.not_mem_nil, or_false, reduceCtorEq] at hm
        rcases hm with ((hm | hm) | hm) | hm
        · exact hf1 .done i (Nat.le_refl _) (by omega) hm
        · have := hHl _ hm; simp [lDone, lLoop] at this
        · obtain ⟨K, k, he, a, b⟩ := rb _ hm
          simp only [lDone, Name.gen.injEq] at he; omega
        · have := hCl _ hm; simp [lDone, lCont] at this)
  have hfc : hc = true → findLabel P (lCont i) = some (pre.length + 6 + T.length + C.length - 1) := by
    intro h; subst h
    simp only [if_true] at hC; subst hC
    refine find_at (A := pre ++ H ++ T) (B := .expr (some ixv) (.binary .add (.variable ixv) (.number 1)) ::
      .jump (lLoop i) (some (.binary .lt (.variable ixv) (.variable (vLength i)))) ::
      .label (lDone i) :: post) (by rw [hPH]; simp [List.append_assoc]) (by simp <;> omega) ?_
    intro hm
    simp only [List.mem_append] at hm
    rcases hm with (hm | hm) | hm
    · exact hf1 .cont i (Nat.le_refl _) (by omega) hm
    · have := hHl _ hm; simp [lCont, lLoop] at this
    · obtain ⟨K, k, he, a, b⟩ := rb _ hm
      simp only [lCont, Name.gen.injEq] at he; omega
  have hbody := hB _ _ hfd hfc (pre ++ H)
    (C ++ .expr (some ixv) (.binary .add (.variable ixv) (.number 1)) ::
      .jump (lLoop i) (some (.binary .lt (.variable ixv) (.variable (vLength i)))) ::
      .label (lDone i) :: post) hnb
    (by rw [hPH, hT]; simp [List.append_assoc])
    (by
      intro K k a b hm
      simp only [List.mem_append] at hm
      rcases hm with hm | hm
      · exact hf1 K k (by omega) b hm
      · have := hHl _ hm; simp only [lLoop, Name.gen.injEq] at this; omega)
    (by
      intro K k a b hm
      simp only [List.mem_append, List.mem_cons, reduceCtorEq, false_or, Stmt.label.injEq] at hm
      rcases hm with hm | hm | hm
      · have := hCl _ hm; simp only [lCont, Name.gen.injEq] at this; omega
      · simp only [lDone, Name.gen.injEq] at hm; omega
      · exact hf2 K k (by omega) b hm)
  simp only [List.length_append, hHn, hT, Option.isSome_some] at hbody
  have hafter : ∀ X : List Stmt, X.length = 3 →
      pre.length + (H ++ T ++ (C ++ X)).length = pre.length + 6 + T.length + C.length + 3 := by
    intro X hX; simp only [List.length_append, hHn, hX]; omega
  rw [hafter _ rfl]
  -- the iterations
  have hloop : ∀ n f l st, f < n → execM₀ cfg f P l base (pre.length + 5) st =
      Cont cfg P base pb pc (pre.length + 6 + T.length + C.length + 3)
        (loopF cfg (callValue₀ cfg) i v ixv hc
          (fun f l s => execTB cfg (callValue₀ cfg) (execIncludes₀ cfg) true b (i+1) f l base s) n f l st) := by
    intro n
    induction n with
    | zero => intro f l st h; omega
    | succ n ih =>
      intro f l st hlt
      have hAfter : ∀ l2 st2 f2, f2 ≤ n → execM₀ cfg f2 P l2 base (pre.length + 6 + T.length + C.length) st2 =
          Cont cfg P base pb pc (pre.length + 6 + T.length + C.length + 3)
            (forAfter cfg (callValue₀ cfg) i v ixv hc
              (fun f l s => execTB cfg (callValue₀ cfg) (execIncludes₀ cfg) true b (i+1) f l base s) n l2 st2 f2) := by
        intro l2 st2 f2 h2
        refine step_expr hg6 _ _ _ _ ?_
        intro l3 st3 f3 h3
        refine step_cond hg7 hfl _ _ _ _ ?_
        intro t f4 st4 h4
        cases t with
        | true => simp only [if_true]; exact ih f4 l3 st4 (by omega)
        | false =>
          simp only [Bool.false_eq_true, if_false]
          rw [bind_stmtSkip, exec_label cfg f4 P l3 base _ st4 _ hg8]
      rw [loopF_succ]
      refine step_expr hg5 _ _ _ _ ?_
      intro l0 st0 f0 h0
      have hb := hbody f0 l0 st0
      have hok := execTB_ok cfg (callValue₀ cfg) (execIncludes₀ cfg) true b (i+1) f0 l0 base st0
      rw [show pre.length + 5 + 1 = pre.length + 6 from rfl, hb]
      cases hO : execTB cfg (callValue₀ cfg) (execIncludes₀ cfg) true b (i+1) f0 l0 base st0 with
      | norm l1 st1 f1 =>
        simp only [hO, FuelOK] at hok
        show execM₀ cfg f1 P l1 base (pre.length + 6 + T.length) st1 = TOut.bind (if hc = true then _ else _) _ _ _
        cases hc with
        | true =>
          simp only [if_true]
          have hC' : C = [.label (lCont i)] := by rw [← hC]; rfl
          have hg9 : P[pre.length + 6 + T.length]? = some (.label (lCont i)) :=
            get_at (A := pre ++ H ++ T) (B := .expr (some ixv) (.binary .add (.variable ixv) (.number 1)) ::
              .jump (lLoop i) (some (.binary .lt (.variable ixv) (.variable (vLength i)))) ::
              .label (lDone i) :: post) (by rw [hPH, hC']; simp [List.append_assoc]) (by simp <;> omega)
          refine step_label hg9 _ _ _ _ ?_
          intro l2 st2 f2 h2
          have := hAfter l2 st2 f2 (by omega)
          subst hC'
          simp only [List.length_singleton] at this ⊢
          exact this
        | false =>
          have hC' : C = [] := by rw [← hC]; rfl
          have := hAfter l1 st1 f1 (by omega)
          subst hC'
          simp only [List.length_nil, Nat.add_zero, Bool.false_eq_true, if_false] at this ⊢
          exact this
      | cont l1 st1 f1 =>
        simp only [hO, FuelOK] at hok
        show execM₀ cfg f1 P l1 base (pre.length + 6 + T.length + C.length - 1 + 1) st1 = _
        rw [show pre.length + 6 + T.length + C.length - 1 + 1 = pre.length + 6 + T.length + C.length by omega]
        exact hAfter l1 st1 f1 (by omega)
      | brk l1 st1 f1 =>
        show execM₀ cfg f1 P l1 base _ st1 = execM₀ cfg f1 P l1 base _ st1
        congr 1
      | ret v st1 => rfl
      | err e st1 => rfl
      | oof => rfl
  refine step_expr hg0 _ _ _ _ ?_
  intro l1 st1 f1 _
  refine step_expr hg1 _ _ _ _ ?_
  intro l2 st2 f2 _
  refine step_cond hg2 hfd _ _ _ _ ?_
  intro t f3 st3 _
  cases t with
  | true =>
    simp only [if_true]
    show execM₀ cfg f3 P l2 base _ st3 = execM₀ cfg f3 P l2 base _ st3
    congr 1
  | false =>
    simp only [Bool.false_eq_true, if_false]
    refine step_expr hg3 _ _ _ _ ?_
    intro l4 st4 f4 _
    refine step_label hg4 _ _ _ _ ?_
    intro l5 st5 f5 _
    exact hloop (f5+1) f5 l5 st5 (Nat.lt_succ_self _)

mutual
theorem simS (lp : Option (Name × Name)) (pb pc : Nat) :
    ∀ (s : SStmt) (i : Nat) (pre post : List Stmt), NoRawS s → LpOK P lp pb pc (usesContS s) →
    P = pre ++ (lowerS lp s i).1 ++ post →
    Fresh pre i (cntS s i) → Fresh post i (cntS s i) →
    ∀ f l st, execM₀ cfg f P l base pre.length st =
      Cont cfg P base pb pc (pre.length + (lowerS lp s i).1.length)
        (execTS cfg (callValue₀ cfg) (execIncludes₀ cfg) lp.isSome s i f l base st)
  | .expr n e, i, pre, post, _, _, hP, _, _, f, l, st => by
      simp only [lowerS, List.append_assoc, List.cons_append, List.nil_append] at hP
      rw [exec_expr cfg f P l base _ st n e (get_at hP rfl), execTS, Cont_def, bind_stmtExpr]; rfl
  | .ret none, i, pre, post, _, _, hP, _, _, f, l, st => by
      simp only [lowerS, List.append_assoc, List.cons_append, List.nil_append] at hP
      rw [exec_ret_none cfg f P l base _ st (get_at hP rfl), execTS, Cont_def, bind_tick]; rfl
  | .ret (some e), i, pre, post, _, _, hP, _, _, f, l, st => by
      simp only [lowerS, List.append_assoc, List.cons_append, List.nil_append] at hP
      rw [exec_ret_some cfg f P l base _ st e (get_at hP rfl), execTS, Cont_def, bind_tick]
      congr 1; funext f' st1
      cases evalExpr cfg (callValue₀ cfg f') l e st1 <;> rfl
  | .label _, i, pre, post, h, _, _, _, _, f, l, st => by simp [NoRawS] at h
  | .jump _ _, i, pre, post, h, _, _, _, _, f, l, st => by simp [NoRawS] at h
  | .include incs, i, pre, post, _, _, hP, _, _, f, l, st => by
      simp only [lowerS, List.append_assoc, List.cons_append, List.nil_append] at hP
      rw [exec_include cfg f P l base _ st incs (get_at hP rfl), execTS, Cont_def, bind_tick]
      congr 1; funext f' st1
      cases execIncludes₀ cfg f' base incs st1 <;> rfl
  | .brk, i, pre, post, _, hlp, hP, _, _, f, l, st => by
      cases lp with
      | none => simp [lowerS, execTS, Cont_def, TOut.bind]
      | some p =>
        obtain ⟨bl, cl⟩ := p
        simp only [lowerS, List.append_assoc, List.cons_append, List.nil_append] at hP
        rw [exec_jump cfg f P l base _ st bl pb (get_at hP rfl) (hlp bl cl rfl).1]
        simp only [execTS, Option.isSome_some, if_true, Cont_def, bind_tick]; rfl
  | .cont, i, pre, post, _, hlp, hP, _, _, f, l, st => by
      cases lp with
      | none => simp [lowerS, execTS, Cont_def, TOut.bind]
      | some p =>
        obtain ⟨bl, cl⟩ := p
        simp only [lowerS, List.append_assoc, List.cons_append, List.nil_append] at hP
        rw [exec_jump cfg f P l base _ st cl pc (get_at hP rfl) ((hlp bl cl rfl).2 rfl)]
        simp only [execTS, Option.isSome_some, if_true, Cont_def, bind_tick]; rfl
  | .func fid n args laa isAsync b, i, pre, post, _, _, hP, _, _, f, l, st => by
      simp only [lowerS, List.append_assoc, List.cons_append, List.nil_append] at hP
      rw [exec_func cfg f P l base _ st fid n args laa isAsync _ (get_at hP rfl), execTS, Cont_def, bind_tick]; rfl
  | .ite c t e, i, pre, post, h, hlp, hP, hf1, hf2, f, l, st => by
      simp only [NoRawS] at h
      obtain ⟨ht, he⟩ := h
      simp only [cntS] at hf1 hf2
      have ct := cntB_le t (i+1)
      have ce := cntE_le e (cntB t (i+1))
      have rt := lowerB_range lp t (i+1) ht
      rw [lowerS_ite_eq] at hP ⊢
      obtain ⟨init, hi, hil⟩ := lowerElse_last lp e (lIf i) (lDone i) (cntB t (i+1)) he
      have hP2 : P = pre ++ [.jump (chainTgt e i (lDone i)) (some (notE c))] ++ (lowerB lp t (i+1)).1 ++
          (lowerElse lp (lIf i) (lDone i) e (cntB t (i+1))).1 ++ post := by
        rw [hP]; simp only [List.append_assoc]
      have hd : findLabel P (lDone i) = some (pre.length + 1 + (lowerB lp t (i+1)).1.length +
          (lowerElse lp (lIf i) (lDone i) e (cntB t (i+1))).1.length - 1) := by
        refine find_at (A := pre ++ [.jump (chainTgt e i (lDone i)) (some (notE c))] ++ (lowerB lp t (i+1)).1 ++ init)
          (B := post) (by rw [hP2, hi]; simp only [List.append_assoc, List.cons_append, List.nil_append])
          (by rw [hi]; simp only [List.length_append, List.length_cons, List.length_nil]; omega) ?_
        intro hm
        simp only [List.mem_append, List.mem_cons, List.not_mem_nil, or_false, reduceCtorEq] at hm
        rcases hm with (hm | hm) | hm
        · exact hf1 .done i (Nat.le_refl _) (by omega) hm
        · obtain ⟨K, k, he', a, b⟩ := rt _ hm
          simp only [lDone, Name.gen.injEq] at he'; omega
        · rcases hil _ hm with he' | ⟨K, k, he', a, b⟩
          · simp [lDone, lIf] at he'
          · simp only [lDone, Name.gen.injEq] at he'; omega
      have h1 := chain_lemma cfg P base lp pb pc c t e i (lDone i)
        (fun pre post hn hP hf1 hf2 f l st =>
          simB lp pb pc t (i+1) pre post hn (hlp.mono (by simp only [usesContS, Bool.or_eq_true]; exact Or.inl)) hP hf1 hf2 f l st)
        (fun cur done pre post hn hP hf1 hf2 hc hd hfd f l st =>
          simE lp pb pc e (cntB t (i+1)) cur done pre post hn
            (hlp.mono (by simp only [usesContS, Bool.or_eq_true]; exact Or.inr)) hP hf1 hf2 hc hd hfd f l st)
        ht he pre post hP2 hf1 hf2 (by intro K n h; simp only [lDone, Name.gen.injEq] at h; omega) hd f l st
      rw [execTS]
      exact eq_of_pos cfg P base h1 rfl
        (by simp only [List.length_append, List.length_cons, List.length_nil]; omega)
  | .while c b, i, pre, post, h, hlp, hP, hf1, hf2, f, l, st => by
      simp only [NoRawS] at h
      simp only [cntS] at hf1 hf2
      exact while_lemma cfg P base lp pb pc c b i
        (fun pbW pcW h1 h2 pre post hn hP hf1 hf2 f l st =>
          simB (some (lDone i, lLoop i)) pbW pcW b (i+1) pre post hn
            (by intro bl cl e; cases e; exact ⟨h1, fun _ => h2⟩) hP hf1 hf2 f l st)
        h pre post hP hf1 hf2 f l st
  | .for v ix vals b, i, pre, post, h, hlp, hP, hf1, hf2, f, l, st => by
      simp only [NoRawS] at h
      simp only [cntS] at hf1 hf2
      exact for_lemma cfg P base lp pb pc v ix vals b i
        (fun pbW pcW h1 h2 pre post hn hP hf1 hf2 f l st =>
          simB (some (lDone i, lCont i)) pbW pcW b (i+1) pre post hn
            (by intro bl cl e; cases e; exact ⟨h1, h2⟩) hP hf1 hf2 f l st)
        h pre post hP hf1 hf2 f l st
theorem simB (lp : Option (Name × Name)) (pb pc : Nat) :
    ∀ (B : List SStmt) (i : Nat) (pre post : List Stmt), NoRawB B → LpOK P lp pb pc (usesContB B) →
    P = pre ++ (lowerB lp B i).1 ++ post →
    Fresh pre i (cntB B i) → Fresh post i (cntB B i) →
    ∀ f l st, execM₀ cfg f P l base pre.length st =
      Cont cfg P base pb pc (pre.length + (lowerB lp B i).1.length)
        (execTB cfg (callValue₀ cfg) (execIncludes₀ cfg) lp.isSome B i f l base st)
  | [], i, pre, post, _, _, hP, _, _, f, l, st => by simp [lowerB, execTB, Cont_def, TOut.bind]
  | s :: ss, i, pre, post, h, hlp, hP, hf1, hf2, f, l, st => by
      obtain ⟨hs, hss⟩ := h
      have r1 := lowerS_range lp s i hs
      have r2 := lowerB_range lp ss (cntS s i) hss
      have c1 := cntS_le s i
      have c2 := cntB_le ss (cntS s i)
      simp only [lowerB, cntB] at hP hf1 hf2 ⊢
      rw [lowerS_cnt] at hP ⊢
      have h1 := simS lp pb pc s i pre ((lowerB lp ss (cntS s i)).1 ++ post) hs
        (hlp.mono (by simp only [usesContB, Bool.or_eq_true]; exact Or.inl))
        (by rw [hP]; simp [List.append_assoc])
        (hf1.mono (Nat.le_refl _) c2)
        ((fresh_of_range r2 (Or.inr (Nat.le_refl _))).append (hf2.mono (Nat.le_refl _) c2)) f l st
      rw [h1, execTB]; simp only [Cont_def]
      cases hO : execTS cfg (callValue₀ cfg) (execIncludes₀ cfg) lp.isSome s i f l base st with
      | norm l1 st1 f1 =>
        simp only [TOut.bind]
        have h2 := simB lp pb pc ss (cntS s i) (pre ++ (lowerS lp s i).1) post hss
          (hlp.mono (by simp only [usesContB, Bool.or_eq_true]; exact Or.inr))
          (by rw [hP]; simp [List.append_assoc])
          ((hf1.mono c1 (Nat.le_refl _)).append (fresh_of_range r1 (Or.inl (Nat.le_refl _))))
          (hf2.mono c1 (Nat.le_refl _)) f1 l1 st1
        simp only [List.length_append] at h2
        rw [h2, Cont_def, Nat.add_assoc]
        cases execTB cfg (callValue₀ cfg) (execIncludes₀ cfg) lp.isSome ss (cntS s i) f1 l1 base st1 <;> simp [TOut.bind]
      | brk l1 st1 f1 => rfl
      | cont l1 st1 f1 => rfl
      | ret v st1 => rfl
      | err e st1 => rfl
      | oof => rfl
theorem simE (lp : Option (Name × Name)) (pb pc : Nat) :
    ∀ (e : SElse) (j : Nat) (cur done : Name) (pre post : List Stmt), NoRawE e → LpOK P lp pb pc (usesContE e) →
    P = pre ++ (lowerElse lp cur done e j).1 ++ post →
    Fresh pre j (cntE e j) → Fresh post j (cntE e j) →
    (∀ K n, cur = .gen K n → n < j) → (∀ K n, done = .gen K n → n < j) →
    findLabel P done = some (pre.length + (lowerElse lp cur done e j).1.length - 1) →
    ∀ f l st, execM₀ cfg f P l base (pre.length + elseEntry e) st =
      Cont cfg P base pb pc (pre.length + (lowerElse lp cur done e j).1.length)
        (execTE cfg (callValue₀ cfg) (execIncludes₀ cfg) lp.isSome e j f l base st)
  | .none, j, cur, done, pre, post, _, _, hP, _, _, _, _, _, f, l, st => by
      simp [lowerElse, execTE, elseEntry, Cont_def, TOut.bind]
  | .els b, j, cur, done, pre, post, h, hlp, hP, hf1, hf2, hcur, hdone, hd, f, l, st => by
      simp only [NoRawE] at h
      simp only [cntE] at hf1 hf2
      simp only [lowerElse] at hP ⊢
      have hP' : P = pre ++ .jump done none :: .label cur :: ((lowerB lp b j).1 ++ .label done :: post) := by
        rw [hP]; simp [List.append_assoc]
      have h1 := simB lp pb pc b j (pre ++ [.jump done none, .label cur]) (.label done :: post) h
        (hlp.mono (by simp only [usesContE]; exact id))
        (by rw [hP']; simp [List.append_assoc])
        (by
          intro K n a b' hm
          simp only [List.mem_append, List.mem_cons, List.not_mem_nil, or_false, false_or, reduceCtorEq,
            Stmt.label.injEq] at hm
          rcases hm with hm | hm
          · exact hf1 K n a b' hm
          · have := hcur K n hm.symm; omega)
        (by
          intro K n a b' hm
          simp only [List.mem_cons, Stmt.label.injEq] at hm
          rcases hm with hm | hm
          · have := hdone K n hm.symm; omega
          · exact hf2 K n a b' hm)
        f l st
      have hg : P[pre.length + 2 + (lowerB lp b j).1.length]? = some (.label done) :=
        get_at (A := pre ++ .jump done none :: .label cur :: (lowerB lp b j).1) (B := post)
          (by rw [hP']; simp [List.append_assoc]) (by simp <;> omega)
      rw [execTE]
      refine Eq.trans (eq_of_pos cfg P base h1 (by simp [elseEntry]) rfl) ?_
      simp only [Cont_def]
      cases hO : execTB cfg (callValue₀ cfg) (execIncludes₀ cfg) lp.isSome b j f l base st with
      | norm l1 st1 f1 =>
        show execM₀ cfg f1 P l1 base _ st1 = (stmtSkip cfg f1 l1 st1).bind _ _ _
        rw [bind_stmtSkip, show (pre ++ [Stmt.jump done none, Stmt.label cur]).length + (lowerB lp b j).1.length
            = pre.length + 2 + (lowerB lp b j).1.length by simp,
          exec_label cfg f1 P l1 base _ st1 done hg]
        congr 1; funext l st f; congr 1
        simp only [List.length_append, List.length_cons, List.length_nil]; omega
      | brk l1 st1 f1 => rfl
      | cont l1 st1 f1 => rfl
      | ret v st1 => rfl
      | err e st1 => rfl
      | oof => rfl
  | .elif c t e, j, cur, done, pre, post, h, hlp, hP, hf1, hf2, hcur, hdone, hd, f, l, st => by
      simp only [NoRawE] at h
      obtain ⟨ht, he⟩ := h
      simp only [cntE] at hf1 hf2
      have ct := cntB_le t (j+1)
      have ce := cntE_le e (cntB t (j+1))
      rw [lowerElse_elif_eq] at hP hd ⊢
      have hP2 : P = (pre ++ [.jump done none, .label cur]) ++ [.jump (chainTgt e j done) (some (notE c))] ++
          (lowerB lp t (j+1)).1 ++ (lowerElse lp (lIf j) done e (cntB t (j+1))).1 ++ post := by
        rw [hP]; simp [List.append_assoc]
      have h1 := chain_lemma cfg P base lp pb pc c t e j done
        (fun pre post hn hP hf1 hf2 f l st =>
          simB lp pb pc t (j+1) pre post hn (hlp.mono (by simp only [usesContE, Bool.or_eq_true]; exact Or.inl)) hP hf1 hf2 f l st)
        (fun cur done pre post hn hP hf1 hf2 hc hd hfd f l st =>
          simE lp pb pc e (cntB t (j+1)) cur done pre post hn
            (hlp.mono (by simp only [usesContE, Bool.or_eq_true]; exact Or.inr)) hP hf1 hf2 hc hd hfd f l st)
        ht he (pre ++ [.jump done none, .label cur]) post hP2
        (by
          intro K n a b' hm
          simp only [List.mem_append, List.mem_cons, List.not_mem_nil, or_false, false_or, reduceCtorEq,
            Stmt.label.injEq] at hm
          rcases hm with hm | hm
          · exact hf1 K n a b' hm
          · have := hcur K n hm.symm; omega)
        hf2 (fun K n h => Nat.le_of_lt (hdone K n h))
        (by rw [hd]; simp only [List.length_append, List.length_cons, List.length_nil]; congr 1; omega)
        f l st
      rw [execTE]
      exact eq_of_pos cfg P base h1 (by simp [elseEntry])
        (by simp only [List.length_append, List.length_cons, List.length_nil]; omega)
end

/-! ## outside a loop the ticked semantics never yields `break` / `continue` -/

/-- the outcome is not `break` / `continue` -/
def NoBC : TOut W → Prop
  | .brk _ _ _ => False
  | .cont _ _ _ => False
  | _ => True

theorem LoopOK.noBC {f : Nat} {o : TOut W} (h : LoopOK f o) : NoBC o := by
  cases o <;> simp_all [LoopOK, NoBC]

theorem noBC_then {o : TOut W} (h : NoBC o) (g : Option Env → State W → Nat → TOut W)
    (hg : ∀ l st f, NoBC (g l st f)) : NoBC (match o with | .norm l st f => g l st f | o' => o') := by
  cases o <;> simp_all [NoBC]

theorem tick_noBC (f : Nat) (st : State W) (k : Nat → State W → TOut W) (h : ∀ f' st1, NoBC (k f' st1)) :
    NoBC (tick cfg f st k) := by
  cases f with
  | zero => simp [tick, NoBC]
  | succ f => simp only [tick]; split
              · simp [NoBC]
              · exact h _ _

theorem stmtExpr_noBC (cv : CallAt W) (n : Option Name) (e : Expr) (f : Nat) (l : Option Env) (st : State W) :
    NoBC (stmtExpr cfg cv n e f l st) := by
  unfold stmtExpr; apply tick_noBC; intro f' st1
  cases evalExpr cfg (cv f') l e st1 with
  | ok v st2 => cases n <;> simp [NoBC]
  | err e st2 => simp [NoBC]
  | oof => simp [NoBC]

theorem stmtCond_noBC (cv : CallAt W) (c : Expr) (f : Nat) (l : Option Env) (st : State W)
    (k : Bool → Nat → State W → TOut W) (h : ∀ t f' st2, NoBC (k t f' st2)) : NoBC (stmtCond cfg cv c f l st k) := by
  unfold stmtCond; apply tick_noBC; intro f' st1
  cases evalExpr cfg (cv f') l c st1 with
  | ok v st2 => exact h _ _ _
  | err e st2 => simp [NoBC]
  | oof => simp [NoBC]

theorem stmtSkip_noBC (f : Nat) (l : Option Env) (st : State W) : NoBC (stmtSkip cfg f l st) := by
  unfold stmtSkip; apply tick_noBC; intros; simp [NoBC]

mutual
theorem execTS_noBC (cv : CallAt W) (ei : InclAt W) :
    ∀ (s : SStmt) (i f : Nat) (l : Option Env) (base : Option String) (st : State W),
      NoBC (execTS cfg cv ei false s i f l base st)
  | .expr n e, i, f, l, base, st => by rw [execTS]; exact stmtExpr_noBC ..
  | .ret none, i, f, l, base, st => by rw [execTS]; apply tick_noBC; intros; simp [NoBC]
  | .ret (some e), i, f, l, base, st => by
      rw [execTS]; apply tick_noBC; intro f' st1
      cases evalExpr cfg (cv f') l e st1 <;> simp [NoBC]
  | .label _, i, f, l, base, st => by rw [execTS]; exact stmtSkip_noBC ..
  | .jump _ _, i, f, l, base, st => by rw [execTS]; simp [NoBC]
  | .include incs, i, f, l, base, st => by
      rw [execTS]; apply tick_noBC; intro f' st1
      cases ei f' base incs st1 <;> simp [NoBC]
  | .brk, i, f, l, base, st => by rw [execTS]; simp [NoBC]
  | .cont, i, f, l, base, st => by rw [execTS]; simp [NoBC]
  | .func _ _ _ _ _ _, i, f, l, base, st => by rw [execTS]; apply tick_noBC; intros; simp [NoBC]
  | .ite c t e, i, f, l, base, st => by
      rw [execTS]
      apply stmtCond_noBC; intro tk f' st1
      cases tk
      · simp only [Bool.false_eq_true, if_false]
        exact noBC_then (execTB_noBC cv ei t (i+1) f' l base st1) _ (fun l2 st2 f2 => stmtSkip_noBC ..)
      · simp only [if_true]; exact execTE_noBC cv ei e _ f' l base st1
  | .while c b, i, f, l, base, st => by
      rw [execTS]
      apply stmtCond_noBC; intro tk f' st1
      cases tk
      · simp only [Bool.false_eq_true, if_false]
        refine noBC_then (stmtSkip_noBC cfg f' l st1) _ ?_
        intro l2 st2 f2
        exact (loopW_ok cfg cv c _ (fun f l s => execTB_ok cfg cv ei true b (i+1) f l base s) (f2+1) f2 l2 st2).noBC
      · simp [NoBC]
  | .for v ix vals b, i, f, l, base, st => by
      rw [execTS]
      refine noBC_then (stmtExpr_noBC ..) _ ?_
      intro l1 st1 f1
      refine noBC_then (stmtExpr_noBC ..) _ ?_
      intro l2 st2 f2
      apply stmtCond_noBC; intro tk f3 st3
      cases tk
      · simp only [Bool.false_eq_true, if_false]
        refine noBC_then (stmtExpr_noBC ..) _ ?_
        intro l4 st4 f4
        refine noBC_then (stmtSkip_noBC ..) _ ?_
        intro l5 st5 f5
        exact (loopF_ok cfg cv i v _ _ _ (fun f l s => execTB_ok cfg cv ei true b (i+1) f l base s) (f5+1) f5 l5 st5).noBC
      · simp [NoBC]
theorem execTB_noBC (cv : CallAt W) (ei : InclAt W) :
    ∀ (B : List SStmt) (i f : Nat) (l : Option Env) (base : Option String) (st : State W),
      NoBC (execTB cfg cv ei false B i f l base st)
  | [], i, f, l, base, st => by rw [execTB]; simp [NoBC]
  | s :: ss, i, f, l, base, st => by
      rw [execTB]
      exact noBC_then (execTS_noBC cv ei s i f l base st) _ (fun l1 st1 f1 => execTB_noBC cv ei ss _ f1 l1 base st1)
theorem execTE_noBC (cv : CallAt W) (ei : InclAt W) :
    ∀ (e : SElse) (i f : Nat) (l : Option Env) (base : Option String) (st : State W),
      NoBC (execTE cfg cv ei false e i f l base st)
  | .none, i, f, l, base, st => by rw [execTE]; simp [NoBC]
  | .els b, i, f, l, base, st => by
      rw [execTE]
      exact noBC_then (execTB_noBC cv ei b i f l base st) _ (fun l1 st1 f1 => stmtSkip_noBC ..)
  | .elif c t e, i, f, l, base, st => by
      rw [execTE]
      apply stmtCond_noBC; intro tk f' st1
      cases tk
      · simp only [Bool.false_eq_true, if_false]
        exact noBC_then (execTB_noBC cv ei t (i+1) f' l base st1) _ (fun l2 st2 f2 => stmtSkip_noBC ..)
      · simp only [if_true]; exact execTE_noBC cv ei e _ f' l base st1
end

/-! ## T2 -/

/-- the result of a whole structured run (script or function body), as `Structured.runT` reads it off -/
def toRes : TOut W → Res W
  | .norm _ st _ => .done st
  | .brk _ st _ => .done st
  | .cont _ st _ => .done st
  | .ret v st => .ret v st
  | .err e st => .err e st
  | .oof => .oof

/-- **T2 for a function body** (or any block lowered outside a loop, at any value `i` of the label counter): the machine
on the lowered block equals the ticked structured semantics followed by whatever the machine does at the end of the
list — for every fuel, locals, include base and state. -/
theorem lower_exact_body (B : List SStmt) (i : Nat) (h : NoRawB B) (f : Nat) (l : Option Env) (st : State W) :
    execM₀ cfg f (lowerB none B i).1 l base 0 st =
      (execTB cfg (callValue₀ cfg) (execIncludes₀ cfg) false B i f l base st).bind
        (fun l st f => execM₀ cfg f (lowerB none B i).1 l base (lowerB none B i).1.length st)
        (fun _ _ _ => .oof) (fun _ _ _ => .oof) := by
  have h1 := simB cfg (lowerB none B i).1 base none 0 0 B i [] [] h (by intro bl cl e; cases e) (by simp)
    (by intro K k _ _; simp) (by intro K k _ _; simp) f l st
  have hn := execTB_noBC cfg (callValue₀ cfg) (execIncludes₀ cfg) B i f l base st
  simp only [List.length_nil, Nat.zero_add, Option.isSome_none, Cont_def] at h1
  rw [h1]
  cases hO : execTB cfg (callValue₀ cfg) (execIncludes₀ cfg) false B i f l base st <;>
    simp_all [TOut.bind, NoBC]

/-- … and at the end of the list the machine stops: running a lowered body is running the structured body -/
theorem run_body_eq (B : List SStmt) (i : Nat) (h : NoRawB B) (f : Nat) (l : Option Env) (st : State W) :
    execM₀ cfg f (lowerB none B i).1 l base 0 st =
      toRes (execTB cfg (callValue₀ cfg) (execIncludes₀ cfg) false B i f l base st) := by
  rw [lower_exact_body cfg base B i h f l st]
  cases hO : execTB cfg (callValue₀ cfg) (execIncludes₀ cfg) false B i f l base st with
  | norm l1 st1 f1 => exact execM₀_end cfg f1 _ l1 base _ st1 (by simp)
  | brk l1 st1 f1 =>
    have hn := execTB_noBC cfg (callValue₀ cfg) (execIncludes₀ cfg) B i f l base st
    rw [hO] at hn; exact hn.elim
  | cont l1 st1 f1 =>
    have hn := execTB_noBC cfg (callValue₀ cfg) (execIncludes₀ cfg) B i f l base st
    rw [hO] at hn; exact hn.elim
  | ret v st1 => rfl
  | err e st1 => rfl
  | oof => rfl

/-- **T2 `lower_exact`**: the cache-free machine on the lowering of a structured program, started at statement 0, equals
the ticked structured semantics of the program followed by the machine at the end of the statement list — an equation
between functions of fuel, locals, include base, counter and state (no bound on program size or nesting). -/
theorem lower_exact (B : List SStmt) (h : NoRawB B) (f : Nat) (l : Option Env) (st : State W) :
    execM₀ cfg f (lowerProgram B) l base 0 st =
      (execTB cfg (callValue₀ cfg) (execIncludes₀ cfg) false B 0 f l base st).bind
        (fun l st f => execM₀ cfg f (lowerProgram B) l base (lowerProgram B).length st)
        (fun _ _ _ => .oof) (fun _ _ _ => .oof) :=
  lower_exact_body cfg base B 0 h f l st

/-- running the lowered program *is* running the structured program (`Structured.runT` with the cache-free call /
include runners): same result, same final state (globals, world, statement counter), same out-of-fuel behaviour -/
theorem run_lowered_eq_runT (B : List SStmt) (h : NoRawB B) (f : Nat) (l : Option Env) (st : State W) :
    execM₀ cfg f (lowerProgram B) l base 0 st =
      match execTB cfg (callValue₀ cfg) (execIncludes₀ cfg) false B 0 f l base st with
      | .norm _ st' _ => .done st'
      | .brk _ st' _ => .done st'
      | .cont _ st' _ => .done st'
      | .ret v st' => .ret v st'
      | .err e st' => .err e st'
      | .oof => .oof :=
  run_body_eq cfg base B 0 h f l st

/-- `execute_script (parse_script text)` on the cache-free machine -/
theorem execute₀_lowered (B : List SStmt) (h : NoRawB B) (f : Nat) (st : State W) :
    execute₀ cfg f (lowerProgram B) base st =
      toRes (execTB cfg (callValue₀ cfg) (execIncludes₀ cfg) false B 0 f none base { st with count := 0 }) :=
  run_body_eq cfg base B 0 h f none _

/-! ## non-vacuity: a concrete program (`for` inside `while`, an `if / elif / else` with `continue` and `break`) -/

section NonVacuity

private def u (s : String) : Name := .user s

/-- `n = 0; k = 0; while k < 2: (for x in arrayNew(1,2,3,4): if x == 1: continue elif x == 4: break else: n = n + x); k = k + 1`
then `return n` -/
def nvProg : List SStmt := [
  .expr (some (u "n")) (.number 0),
  .expr (some (u "k")) (.number 0),
  .while (.binary .lt (.variable (u "k")) (.number 2)) [
     .for (u "x") none (.function (u "arrayNew") [.number 1, .number 2, .number 3, .number 4]) [
        .ite (.binary .eq (.variable (u "x")) (.number 1)) [.cont]
          (.elif (.binary .eq (.variable (u "x")) (.number 4)) [.brk]
            (.els [.expr (some (u "n")) (.binary .add (.variable (u "n")) (.variable (u "x")))]))
     ],
     .expr (some (u "k")) (.binary .add (.variable (u "k")) (.number 1))
  ],
  .ret (some (.variable (u "n")))
]

theorem nvProg_noRaw : NoRawB nvProg := by simp [nvProg, NoRawB, NoRawS, NoRawE]

def nvSt : State HostImpl.World :=
  { globals := [(u "arrayNew", .fn (.lib "arrayNew")), (u "arrayLength", .fn (.lib "arrayLength")),
                (u "arrayGet", .fn (.lib "arrayGet"))],
    world := {}, count := 0 }

/-- the driver's host -/
def nvCfg : Config HostImpl.World := { host := HostImpl.host, funs := fun _ => none, maxStatements := 1000 }

/-- the hypotheses of `lower_exact` / `run_lowered_eq_runT` / `lower_exact_body` are inhabited by a non-trivial instance -/
example (f : Nat) := lower_exact nvCfg none nvProg nvProg_noRaw f none nvSt
example (f : Nat) := run_lowered_eq_runT nvCfg none nvProg nvProg_noRaw f none nvSt
example (f : Nat) := lower_exact_body nvCfg none nvProg 7 nvProg_noRaw f (some []) nvSt

/-- `HostImpl.host` with the two comparisons the example uses computed directly on numbers (`HostImpl.compare` is
defined by well-founded recursion, which the kernel cannot evaluate) -/
def nvHost : Host HostImpl.World :=
  { HostImpl.host with
    binop := fun op a b w =>
      match op, a, b with
      | .lt, .num x, .num y => .bool (x < y)
      | .eq, .num x, .num y => .bool (x == y)
      | op, a, b => HostImpl.binop op a b w }

def nvCfg' : Config HostImpl.World := { host := nvHost, funs := fun _ => none, maxStatements := 1000 }

private def resSummary {W : Type} : Res W → Option (Value × Nat)
  | .ret v st => some (v, st.count)
  | _ => none

/-- the lowered program has 28 statements and 4 generated label indices -/
example : (lowerProgram nvProg).length = 28 ∧ cntB nvProg 0 = 4 := by decide

/-- the structured run returns 2+3 twice = 10 after exactly 70 (lowered) statements … -/
example : resSummary (toRes (execTB nvCfg' (callValue₀ nvCfg') (execIncludes₀ nvCfg') false nvProg 0 1000 none none nvSt))
    = some (.num 10, 70) := by decide +kernel

/-- … hence (by the theorem, not by running it) so does the jump machine on the lowered program … -/
example : resSummary (execute₀ nvCfg' 1000 (lowerProgram nvProg) none nvSt) = some (.num 10, 70) := by
  rw [execute₀_lowered nvCfg' none nvProg nvProg_noRaw]; decide +kernel

/-- … and with 69 units of fuel both run out of fuel -/
example : execute₀ nvCfg' 69 (lowerProgram nvProg) none nvSt = .oof := by
  rw [execute₀_lowered nvCfg' none nvProg nvProg_noRaw]
  have : (match toRes (execTB nvCfg' (callValue₀ nvCfg') (execIncludes₀ nvCfg') false nvProg 0 69 none none
      { nvSt with count := 0 }) with | .oof => true | _ => false) = true := by decide +kernel
  revert this
  cases toRes (execTB nvCfg' (callValue₀ nvCfg') (execIncludes₀ nvCfg') false nvProg 0 69 none none
      { nvSt with count := 0 }) <;> simp

end NonVacuity

end C01

/-
#print axioms C01.lower_exact
  'C01.lower_exact' depends on axioms: [propext, Classical.choice, Quot.sound]
#print axioms C01.lower_exact_body
  'C01.lower_exact_body' depends on axioms: [propext, Classical.choice, Quot.sound]
#print axioms C01.run_lowered_eq_runT
  'C01.run_lowered_eq_runT' depends on axioms: [propext, Classical.choice, Quot.sound]
#print axioms C01.run_body_eq / C01.execute₀_lowered / C01.simS / C01.simB / C01.simE
  the same three
-/
