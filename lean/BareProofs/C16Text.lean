import BareProofs.C16TextLemmas
import BareProofs.C16
import BareModel.Gen.Regex

/-!
# C16Text — ISO date/datetime TEXT at character level (property C16, text part)

Model: `BareModel/IsoText.lean`; lemmas: `BareProofs/C16TextLemmas.lean`.  What was there before (`BareProofs/C16.lean`):
`iso_roundtrip_partial`, `iso_reject(_fields)` on `List Char`, with the text ↔ fields step and the zone step fused in
`Datetime.isoParse`, the accepted shapes as existential `Prop`s, and the pattern sources pinned as opaque strings.
Added here:

* `iso_regex_sources_pinned`   the two patterns of the working tree ARE `'^' ++ render ast ++ '\Z'` (flags `re.ASCII`) of the
  regex ASTs `dateRe` / `dateTimeRe`; `fullMatch_iff` / `rests_spec` (Lemmas): the matcher decides the declarative language
  of ANY such AST; `isoText_lang`, `isoDate_lang`: the hand-written recognisers accept exactly those languages — so the
  language is tied to the pattern SOURCE, not only to a hand-written shape
* `isoText_roundtrip`     `parseText (formatText f sub) = some f` for EVERY valid field record (years 1..9999, any offset of
  whole minutes with |offset| < 24 h, any sub-millisecond remainder) — no zone involved, full strength
* `isoText_reject`, `isoText_accept`, `isoText_parse_iff`, `validate_some_iff`, `isoText_reparse`, `formatText_injective`   exact characterisation of the accepted
  texts: in the language of `_R_DATETIME` (decidable predicate `isDateTimeText`) with valid fields, nothing else
* `isoText_fraction_truncates`   1..6 fraction digits are cut (not rounded) to the first three
* `isoText_date_form`, `isoDate_reject`, `iso_langs_disjoint`, `iso_date_text_roundtrip`   the date-only form
* `isoParse_factors`, `isoFormat_factors`   the mirror of `value_parse_datetime` / `value_string` IS the text layer followed
  by / preceded by the zone step; `iso_text_roundtrip_partial`, `iso_text_to_text_partial`,
  `iso_text_canonicalises_partial`: the zone-abstracted round trip restated on `String`s, text to text
  (`_partial` for the same reason as `C16.iso_roundtrip_partial`: `astimezone()` over the OS zone database is two abstract
  offset functions)
-/

open Datetime IsoText
namespace C16Text

instance (c : Char) : Decidable (Dig c) := by unfold Dig; exact inferInstance

/-! ### the pattern sources -/

/-- **C16Text / pin.** The sources (and flags: 256 = `re.ASCII`, 32 = `re.UNICODE` default) of the patterns in
`value.py` today — regenerated into `Gen.regexes` on every run — are, character for character, the anchored rendering
`^…\Z` of the regex ASTs whose language the recogniser is proved to accept (`isoText_lang`, `isoDate_lang`); the three
helper patterns of `value_string` / `value_parse_datetime` are the ones the formatter/parser model was written for. -/
theorem iso_regex_sources_pinned :
    Gen.regexes.lookup "value._R_DATE" = some (String.ofList (patSource dateRe), 256) ∧
    Gen.regexes.lookup "value._R_DATETIME" = some (String.ofList (patSource dateTimeRe), 256) ∧
    Gen.regexes.lookup "value._R_DATETIME_ZULU" = some ("Z\\Z", 32) ∧
    Gen.regexes.lookup "value._R_DATETIME_MICROSECOND" = some ("\\.(\\d{6})", 32) ∧
    Gen.regexes.lookup "value._R_DATETIME_TZ_CLEANUP" = some ("([+-]\\d\\d:\\d\\d):\\d\\d$", 32) := by
  decide +kernel

/-- the rendered sources, spelled out -/
example : patSource dateRe = "^(?P<year>\\d{4})-(?P<month>\\d{2})-(?P<day>\\d{2})\\Z".toList ∧
    patSource dateTimeRe =
      "^\\d{4}-\\d{2}-\\d{2}T\\d{2}:\\d{2}:\\d{2}(?:\\.\\d{1,6})?(?:Z|[+-]\\d{2}:[0-5]\\d)\\Z".toList := by decide +kernel

/-! ### the recognisers accept exactly the languages of the patterns -/

/-- **C16Text / language (datetime).** For EVERY text: the hand-written recogniser `scanRaw` succeeds iff the text is in
the language of `_R_DATETIME` (decided by the generic matcher on the AST; `fullMatch_iff`: that is the declarative
language `Lang dateTimeRe`). -/
theorem isoText_lang (cs : List Char) : isDateTimeText cs = true ↔ (scanRaw cs).isSome = true := by
  unfold isDateTimeText
  rw [fullMatch_iff, lang_dateTime]
  constructor
  · intro h; obtain ⟨r, hr⟩ := shape_scanRaw h; simp [hr]
  · intro h; obtain ⟨r, hr⟩ := Option.isSome_iff_exists.1 h; exact scanRaw_shape hr

/-- **C16Text / language (date).** The same for `_R_DATE` and `Datetime.scanDate`. -/
theorem isoDate_lang (cs : List Char) : isDateText cs = true ↔ (scanDate cs).isSome = true := by
  unfold isDateText
  rw [fullMatch_iff, lang_date]
  constructor
  · intro h; obtain ⟨r, hr⟩ := shape_scanDate h; simp [hr]
  · intro h; obtain ⟨r, hr⟩ := Option.isSome_iff_exists.1 h; exact scanDate_shape hr

/-- non-vacuity / hostile texts: the predicate, computed by the kernel (7 fraction digits, lower-case `z`/`t`, trailing
newline, non-ASCII digits, offset minutes 60, missing seconds, 5-digit year: out; `+24:00`, `-00:00`, year `0000`: in the
LANGUAGE — the field check rejects `+24:00` and year 0 later) -/
example : isDateTimeText "2024-01-01T00:00:00.123456+05:30".toList = true ∧
    isDateTimeText "2024-01-01T00:00:00.1234567+05:30".toList = false ∧
    isDateTimeText "2024-01-01T00:00:00Z".toList = true ∧ isDateTimeText "2024-01-01T00:00:00z".toList = false ∧
    isDateTimeText "2024-01-01t00:00:00Z".toList = false ∧ isDateTimeText "2024-01-01T00:00:00Z\n".toList = false ∧
    isDateTimeText "2024-01-0١T00:00:00Z".toList = false ∧ isDateTimeText "2024-01-01T00:00:00+00:60".toList = false ∧
    isDateTimeText "2024-01-01T00:00Z".toList = false ∧ isDateTimeText "12024-01-01T00:00:00Z".toList = false ∧
    isDateTimeText "2024-01-01T00:00:00.Z".toList = false ∧ isDateTimeText "2024-01-01T00:00:00".toList = false ∧
    isDateTimeText "2024-01-01T00:00:00+24:00".toList = true ∧ isDateTimeText "2024-01-01T00:00:00-00:00".toList = true ∧
    isDateTimeText "0000-01-01T00:00:00Z".toList = true ∧
    isDateText "0999-01-01".toList = true ∧ isDateText "2024-01-01\n".toList = false ∧ isDateText "２０２４-01-01".toList = false ∧
    isDateText "2024-1-1".toList = false := by decide +kernel

/-- the two languages are disjoint: the order of the two tests in `value_parse_datetime` is immaterial -/
theorem iso_langs_disjoint (cs : List Char) : ¬ (isDateText cs = true ∧ isDateTimeText cs = true) := by
  rintro ⟨h1, h2⟩
  unfold isDateText at h1; unfold isDateTimeText at h2
  rw [fullMatch_iff, lang_date] at h1
  rw [fullMatch_iff, lang_dateTime] at h2
  obtain ⟨y1, y2, y3, y4, m1, m2, d1, d2, e, _⟩ := h1
  obtain ⟨a1, a2, a3, a4, b1, b2, c1, c2, h1, h2, i1, i2, s1, s2, f, z, e', _⟩ := h2
  rw [e] at e'
  simp at e'

/-! ### validation -/

/-- `validate` succeeds exactly on valid fields, and only cuts the microseconds to milliseconds -/
theorem validate_some_iff (r : Raw) (f : Fields) :
    validate r = some f ↔
      f = ⟨r.year, r.month, r.day, r.hour, r.minute, r.second, r.us / 1000, r.off⟩ ∧ f.Valid := by
  unfold validate
  constructor
  · intro h
    split at h
    · simp at h
    · rename_i t hk
      split at h
      · rename_i hr
        simp only [Option.some.injEq] at h
        have hv := C16.mkDT_some hk
        refine ⟨h.symm, ?_, ?_, ?_⟩
        · have := hv.2; rw [hv.1] at this; rw [← h]; exact this
        · rw [← h]; exact hr.1
        · rw [← h]; exact hr.2
      · simp at h
  · rintro ⟨e, hd, o1, o2⟩
    subst e
    have hk : mkDT r.year r.month r.day r.hour r.minute r.second ((r.us / 1000 : Nat) : Int) =
        some ⟨r.year, r.month, r.day, r.hour, r.minute, r.second, ((r.us / 1000 : Nat) : Int)⟩ := by
      unfold mkDT; exact if_pos hd
    simp only [hk]
    rw [if_pos ⟨o1, o2⟩]

/-! ### round trip -/

/-- **C16Text / round trip (characters).** -/
theorem isoText_roundtrip_chars (f : Fields) (sub : Nat) (hv : f.Valid) : parseChars (formatChars f sub) = some f := by
  simp only [parseChars, scanRaw_format sub hv, Option.bind_some, validate_of_valid hv]

/-- **C16Text / round trip.** For EVERY valid field record `f` — year 1..9999 (printed with four digits: `0999`, `0001`),
a real calendar day, time of day to the millisecond, UTC offset any whole number of minutes with |offset| < 24 h — and every
sub-millisecond remainder `sub` (which only forces the `.mmm` fraction to be printed), the text `value_string` prints
parses back to exactly `f`: nothing is lost or altered between fields and characters.  No zone is involved. -/
theorem isoText_roundtrip (f : Fields) (sub : Nat) (hv : f.Valid) : parseText (formatText f sub) = some f := by
  simp only [parseText, formatText, String.toList_ofList, isoText_roundtrip_chars f sub hv]

/-- non-vacuity: year 999 at −05:30 with milliseconds; UTC prints `+00:00`; `.000` printed when only microseconds exist;
the extreme offsets ±23:59 -/
example : (⟨999, 1, 2, 3, 4, 5, 6, -330⟩ : Fields).Valid ∧
    formatText ⟨999, 1, 2, 3, 4, 5, 6, -330⟩ = "0999-01-02T03:04:05.006-05:30" ∧
    parseText "0999-01-02T03:04:05.006-05:30" = some ⟨999, 1, 2, 3, 4, 5, 6, -330⟩ ∧
    formatText ⟨2024, 2, 29, 23, 59, 59, 0, 0⟩ = "2024-02-29T23:59:59+00:00" ∧
    formatText ⟨2024, 2, 29, 23, 59, 59, 0, 0⟩ 7 = "2024-02-29T23:59:59.000+00:00" ∧
    (⟨9999, 12, 31, 0, 0, 0, 999, 1439⟩ : Fields).Valid ∧
    formatText ⟨9999, 12, 31, 0, 0, 0, 999, 1439⟩ = "9999-12-31T00:00:00.999+23:59" ∧
    formatText ⟨1, 1, 1, 0, 0, 0, 0, -1439⟩ = "0001-01-01T00:00:00-23:59" ∧
    ¬ (⟨2023, 2, 29, 0, 0, 0, 0, 0⟩ : Fields).Valid ∧ ¬ (⟨2024, 1, 1, 0, 0, 0, 0, 1440⟩ : Fields).Valid := by decide +kernel

/-- the formatter is injective on valid records (distinct datetimes/offsets never print the same text) -/
theorem formatText_injective {f g : Fields} {sub sub' : Nat} (hf : f.Valid) (hg : g.Valid)
    (h : formatText f sub = formatText g sub') : f = g := by
  have h1 := isoText_roundtrip f sub hf
  rw [h, isoText_roundtrip g sub' hg] at h1
  exact (Option.some.inj h1).symm

/-! ### rejection and exact acceptance -/

/-- **C16Text / rejection.** If a text parses to a field record at all, the text is in the language of `_R_DATETIME`
(explicit decidable predicate `isDateTimeText` = the generic matcher run on the AST of the pinned source: ASCII digits
only, upper-case `T`/`Z`, 1..6 fraction digits, offset minutes `[0-5]\d`, nothing before or after — no trailing newline)
and the record is valid.  Contrapositive: every other text gives `none` (null), it never fails. -/
theorem isoText_reject (s : String) (f : Fields) (h : parseText s = some f) :
    isDateTimeText s.toList = true ∧ f.Valid := by
  simp only [parseText, parseChars, Option.bind_eq_some_iff] at h
  obtain ⟨r, hr, hv⟩ := h
  exact ⟨(isoText_lang _).2 (by simp [hr]), ((validate_some_iff r f).1 hv).2⟩

/-- what the formatter prints is always in the language of `_R_DATETIME` -/
theorem isoText_format_in_lang (f : Fields) (sub : Nat) (hv : f.Valid) :
    isDateTimeText (formatText f sub).toList = true :=
  (isoText_reject _ f (isoText_roundtrip f sub hv)).1

/-- **C16Text / parse ∘ format ∘ parse = parse** (no zone, full strength): whatever spelling was accepted (`Z`, `-00:00`,
one or six fraction digits), printing the parsed record and parsing again returns the same record. -/
theorem isoText_reparse (s : String) (f : Fields) (sub : Nat) (h : parseText s = some f) :
    parseText (formatText f sub) = some f :=
  isoText_roundtrip f sub (isoText_reject s f h).2

example : parseText "2024-01-01T00:00:00.5Z" = some ⟨2024, 1, 1, 0, 0, 0, 500, 0⟩ ∧
    formatText ⟨2024, 1, 1, 0, 0, 0, 500, 0⟩ = "2024-01-01T00:00:00.500+00:00" := by decide +kernel

/-- **C16Text / acceptance.** Conversely every text in the language scans to a `Raw` record (six numbers, microseconds,
offset) and the outcome is decided by the field check alone. -/
theorem isoText_accept (cs : List Char) (h : isDateTimeText cs = true) :
    ∃ r, scanRaw cs = some r ∧ parseChars cs = validate r := by
  obtain ⟨r, hr⟩ := Option.isSome_iff_exists.1 ((isoText_lang cs).1 h)
  exact ⟨r, hr, by simp [parseChars, hr]⟩

/-- **C16Text / exact characterisation.** -/
theorem isoText_parse_iff (cs : List Char) (f : Fields) :
    parseChars cs = some f ↔
      isDateTimeText cs = true ∧
      ∃ r, scanRaw cs = some r ∧ f = ⟨r.year, r.month, r.day, r.hour, r.minute, r.second, r.us / 1000, r.off⟩ ∧ f.Valid := by
  constructor
  · intro h
    simp only [parseChars, Option.bind_eq_some_iff] at h
    obtain ⟨r, hr, hv⟩ := h
    exact ⟨(isoText_lang _).2 (by simp [hr]), r, hr, (validate_some_iff r f).1 hv⟩
  · rintro ⟨_, r, hr, hv⟩
    simp only [parseChars, hr, Option.bind_some]
    exact (validate_some_iff r f).2 hv

/-- non-vacuity / hostile texts through the whole text layer: fraction cut (not rounded) to milliseconds, 1..6 digits,
`Z` and `-00:00` are offset 0, `+24:00`, minute 60, second 60, hour 24, February 30, year 0 are null -/
example : parseText "2024-01-01T00:00:00.123456+05:30" = some ⟨2024, 1, 1, 0, 0, 0, 123, 330⟩ ∧
    parseText "2024-01-01T00:00:00.9999Z" = some ⟨2024, 1, 1, 0, 0, 0, 999, 0⟩ ∧
    parseText "2024-01-01T00:00:00.1-00:00" = some ⟨2024, 1, 1, 0, 0, 0, 100, 0⟩ ∧
    parseText "2024-01-01T00:00:00.0009Z" = some ⟨2024, 1, 1, 0, 0, 0, 0, 0⟩ ∧
    parseText "2024-01-01T00:00:00-23:59" = some ⟨2024, 1, 1, 0, 0, 0, 0, -1439⟩ ∧
    parseText "2024-01-01T00:00:00.1234567+05:30" = none ∧ parseText "2024-01-01T00:00:00+24:00" = none ∧
    parseText "2024-01-01T23:60:00Z" = none ∧ parseText "2024-01-01T23:59:60Z" = none ∧ parseText "2024-01-01T24:00:00Z" = none ∧
    parseText "2024-02-30T00:00:00Z" = none ∧ parseText "0000-01-01T00:00:00Z" = none ∧ parseText "2024-01-01T00:00:00Z\n" = none ∧
    parseText "" = none := by decide +kernel

/-- **C16Text / fraction.** Whatever the number of fraction digits (1..6) of an accepted text, the millisecond field is
the value of the first three digits, right-padded with zeros (`.1` → 100, `.0009` → 0, `.999999` → 999): digits beyond the
third are CUT, never rounded — what `result.microsecond // 1000` does. -/
theorem isoText_fraction_truncates {y1 y2 y3 y4 m1 m2 d1 d2 h1 h2 i1 i2 s1 s2 : Char} {ds z : List Char} {f : Fields}
    (hd : ∀ c ∈ ds, Dig c) (hz : ZoneShape z)
    (h : parseChars (y1 :: y2 :: y3 :: y4 :: '-' :: m1 :: m2 :: '-' :: d1 :: d2 :: 'T' :: h1 :: h2 :: ':' :: i1 :: i2 :: ':' ::
      s1 :: s2 :: '.' :: (ds ++ z)) = some f) :
    ms3 ds = some f.ms := by
  simp only [parseChars, Option.bind_eq_some_iff] at h
  obtain ⟨r, hr, hv⟩ := h
  have hf := ((validate_some_iff r f).1 hv).1
  simp only [scanRaw, Option.bind_eq_bind, Option.bind_eq_some_iff, Option.pure_def, Option.some.injEq] at hr
  obtain ⟨y, _, mo, _, d, _, hh, _, mi, _, s, _, ⟨us, o⟩, hfz, e⟩ := hr
  obtain ⟨c, tl, ez, hc, _⟩ := zoneShape_head hz
  have htw := takeWhile_digs hd ez hc
  simp only [scanFracZone, if_true, htw.1, htw.2, Option.bind_eq_bind, Option.bind_eq_some_iff, Option.pure_def,
    Option.some.injEq, Prod.mk.injEq] at hfz
  obtain ⟨us', hus, o', _, e1, _⟩ := hfz
  subst e1
  rw [hf, ← e]
  exact frac_truncates hus

example : parseText "2024-01-01T00:00:00.999999Z" = some ⟨2024, 1, 1, 0, 0, 0, 999, 0⟩ ∧ ms3 "999999".toList = some 999 ∧
    ms3 "1".toList = some 100 ∧ ms3 "0009".toList = some 0 ∧ ms3 "12".toList = some 120 ∧
    ZoneShape ['Z'] ∧ ZoneShape "+05:30".toList := by
  refine ⟨by decide +kernel, by decide +kernel, by decide +kernel, by decide +kernel, by decide +kernel, Or.inl rfl, ?_⟩
  exact Or.inr ⟨'+', '0', '5', '3', '0', rfl, Or.inl rfl, by decide, by decide, by decide, by decide⟩

/-! ### the date-only form -/

/-- **C16Text / date form.** `datetimeISOFormat(d, true)` prints `YYYY-MM-DD` (year zero-padded to four digits) and that
text parses back to the same year, month, day — for every real calendar day of years 1..9999. -/
theorem isoText_date_form (y m d : Nat) (hv : DT.Valid ⟨y, m, d, 0, 0, 0, 0⟩) :
    parseDateText (formatDateText y m d) = some (y, m, d) := by
  obtain ⟨y1, y2, m1, m2, d1, d2, _⟩ := hv
  simp only [] at y1 y2 m1 m2 d1 d2
  have hdim := daysInMonth_le (y : Int) (m : Int)
  have hY : y < 10000 := by omega
  have hM : m < 100 := by omega
  have hD : d < 100 := by omega
  have hs : scanDate (formatDateChars y m d) = some (y, m, d) := by
    simp only [formatDateChars, pad4, pad2, List.cons_append, List.nil_append, scanDate, num4?_pad hY, num2?_pad hM,
      num2?_pad hD, Option.bind_eq_bind, Option.bind_some, Option.pure_def]
  have hk : mkDT y m d 0 0 0 0 = some ⟨y, m, d, 0, 0, 0, 0⟩ := by
    unfold mkDT; exact if_pos ⟨y1, y2, m1, m2, d1, d2, by decide⟩
  simp only [parseDateText, formatDateText, String.toList_ofList, parseDateChars, hs, Option.bind_some, hk, Option.map_some]

/-- … and a text that parses as a date is in the language of `_R_DATE` and names a real calendar day -/
theorem isoDate_reject (s : String) (p : Nat × Nat × Nat) (h : parseDateText s = some p) :
    isDateText s.toList = true ∧ DT.Valid ⟨p.1, p.2.1, p.2.2, 0, 0, 0, 0⟩ := by
  simp only [parseDateText, parseDateChars, Option.bind_eq_some_iff, Option.map_eq_some_iff] at h
  obtain ⟨q, hq, t, hk, e⟩ := h
  subst e
  have := C16.mkDT_some hk
  refine ⟨(isoDate_lang _).2 (by simp [hq]), ?_⟩
  have h2 := this.2; rw [this.1] at h2; exact h2

/-- the date text of the text layer is `Datetime.isoFormatDate` (what the driver of C16 compares with the library) -/
theorem formatDate_eq (t : DT) : formatDateChars t.year.toNat t.month.toNat t.day.toNat = isoFormatDate t := rfl

example : formatDateText 999 2 3 = "0999-02-03" ∧ parseDateText "0999-02-03" = some (999, 2, 3) ∧
    formatDateText 5 12 31 = "0005-12-31" ∧ parseDateText "2024-02-30" = none ∧ parseDateText "2023-02-29" = none ∧
    parseDateText "0000-01-01" = none ∧ parseDateText "2024-13-01" = none ∧ parseDateText "2024-01-01\n" = none ∧
    parseDateText "2024-02-29" = some (2024, 2, 29) := by decide +kernel

/-! ### composition with the zone-abstracted mirror -/

/-- `toZone` with the naive datetime and the offset (seconds) named -/
theorem toZone_eq (offU : Int → Int) (f : Fields) (t : DT) (o : Int) (hdt : f.dt = t) (hoff : f.off * 60 = o) :
    toZone offU f = match ofLocalMs (toLocalMs t - o * 1000) with
      | none => none
      | some _ => ofLocalMs (toLocalMs t - o * 1000 + offU (toLocalMs t - o * 1000) * 1000) := by
  subst hdt hoff
  rfl

/-- **C16Text / factoring (parse).** The mirror of `value_parse_datetime` is: the date form (local midnight, no zone), else
the text layer `parseChars` followed by the zone step `toZone` — for every text and every zone function. -/
theorem isoParse_factors (offU : Int → Int) (cs : List Char) :
    isoParse offU cs =
      match parseDateChars cs with
      | some p => some ⟨p.1, p.2.1, p.2.2, 0, 0, 0, 0⟩
      | none => (parseChars cs).bind (toZone offU) := by
  unfold isoParse parseDateChars
  cases hd : scanDate cs with
  | some p =>
    obtain ⟨y, mo, d⟩ := p
    simp only [Option.bind_some]
    cases hk : mkDT y mo d 0 0 0 0 with
    | some t => have := C16.mkDT_some hk; simp [this.1]
    | none =>
      simp only [Option.map_none]
      have hno : scanRaw cs = none := by
        cases hr : scanRaw cs with
        | none => rfl
        | some r =>
          exact absurd ⟨(isoDate_lang cs).2 (by simp [hd]), (isoText_lang cs).2 (by simp [hr])⟩ (iso_langs_disjoint cs)
      simp [parseChars, hno]
  | none =>
    simp only [Option.bind_none, scanDateTime_eq, parseChars]
    cases hr : scanRaw cs with
    | none => rfl
    | some r =>
      have eus : (r.us : Int) / 1000 = ((r.us / 1000 : Nat) : Int) := by omega
      by_cases hrange : -1440 < r.off ∧ r.off < 1440
      · have h1 : rawIso r = some ⟨r.year, r.month, r.day, r.hour, r.minute, r.second, r.us, r.off * 60⟩ := if_pos hrange
        generalize hk : mkDT r.year r.month r.day r.hour r.minute r.second ((r.us / 1000 : Nat) : Int) = m
        cases m with
        | none =>
          have h2 : validate r = none := by simp only [validate, hk]
          simp only [Option.bind_some, h1, h2, eus, hk, Option.bind_none]
        | some t =>
          have h2 : validate r = some ⟨r.year, r.month, r.day, r.hour, r.minute, r.second, r.us / 1000, r.off⟩ := by
            simp only [validate, hk, hrange, and_self, if_true]
          have ht := (C16.mkDT_some hk).1
          simp only [Option.bind_some, h1, h2, eus, hk]
          rw [toZone_eq offU _ t (r.off * 60) (by rw [ht]; rfl) rfl]
          generalize ofLocalMs (toLocalMs t - r.off * 60 * 1000) = q
          cases q <;> rfl
      · have h1 : rawIso r = none := if_neg hrange
        have h2 : validate r = none := by
          simp only [validate, hrange, if_false]
          cases mkDT r.year r.month r.day r.hour r.minute r.second ((r.us / 1000 : Nat) : Int) <;> rfl
        simp only [Option.bind_some, h1, h2, Option.bind_none]

/-- the field record of a naive datetime printed at offset `om` minutes -/
def fieldsOf (t : DT) (om : Int) : Fields :=
  ⟨t.year.toNat, t.month.toNat, t.day.toNat, t.hour.toNat, t.minute.toNat, t.second.toNat, t.ms.toNat, om⟩

theorem fieldsOf_dt {t : DT} (hv : t.Valid) (om : Int) : (fieldsOf t om).dt = t := by
  obtain ⟨y1, y2, m1, m2, d1, d2, a1, a2, b1, b2, c1, c2, e1, e2⟩ := hv
  simp only [fieldsOf, Fields.dt]
  rw [Int.toNat_of_nonneg (by omega), Int.toNat_of_nonneg (by omega), Int.toNat_of_nonneg (by omega),
    Int.toNat_of_nonneg a1, Int.toNat_of_nonneg b1, Int.toNat_of_nonneg c1, Int.toNat_of_nonneg e1]

/-- **C16Text / factoring (format).** The mirror of `value_string` at an offset of whole minutes IS the text-layer
formatter on the field record (offsets with a seconds part, local mean time, are NOT covered: their seconds are dropped
from the text — `C16.iso_offset_seconds_lost`). -/
theorem isoFormat_factors (o : Int) (t : DT) (sub : Nat) (hms : 0 ≤ t.ms) (hmin : o % 60 = 0) :
    isoFormatUs o t sub = formatChars (fieldsOf t (o / 60)) sub := by
  have e1 : (o / 60).natAbs / 60 = o.natAbs / 3600 := by omega
  have e2 : (o / 60).natAbs % 60 = o.natAbs / 60 % 60 := by omega
  have e3 : (o / 60 < 0) ↔ o < 0 := by omega
  have e4 : (t.ms.toNat = 0 ∧ sub = 0) ↔ (t.ms = 0 ∧ (sub : Int) = 0) := by omega
  simp only [isoFormatUs, formatChars, fieldsOf, fmtOffset, e1, e2, e3, e4]

/-- the zone step undoes the printed offset for a datetime that exists in the zone -/
theorem toZone_roundtrip (offL offU : Int → Int) (t : DT) (hv : t.Valid)
    (hmin : offL (toLocalMs t) % 60 = 0)
    (hexists : offU (toLocalMs t - offL (toLocalMs t) * 1000) = offL (toLocalMs t))
    (hutc : (ofLocalMs (toLocalMs t - offL (toLocalMs t) * 1000)).isSome = true) :
    toZone offU (fieldsOf t (offL (toLocalMs t) / 60)) = some t := by
  obtain ⟨u, hu⟩ := Option.isSome_iff_exists.1 hutc
  rw [toZone_eq offU _ t (offL (toLocalMs t)) (fieldsOf_dt hv _) (by show offL (toLocalMs t) / 60 * 60 = _; omega)]
  simp only [hu, hexists]
  have : toLocalMs t - offL (toLocalMs t) * 1000 + offL (toLocalMs t) * 1000 = toLocalMs t := by omega
  rw [this]
  exact C16.ofLocalMs_toLocalMs hv

/-- **C16Text / ISO round trip on strings — PARTIAL** (same missing piece as `C16.iso_roundtrip_partial`: `astimezone()`
over the OS zone database is abstracted as the two offset functions; the hypotheses are the property's carve-outs).
`datetimeISOParse(datetimeISOFormat(t)) = t` on actual `String`s, proved THROUGH the text layer: the printed text is
`formatText` of the field record (`isoFormat_factors`), it parses back to that record (`isoText_roundtrip`), and the
zone step returns `t` (`toZone_roundtrip`). -/
theorem iso_text_roundtrip_partial (offL offU : Int → Int) (t : DT) (hv : t.Valid)
    (hmin : offL (toLocalMs t) % 60 = 0)
    (hlo : -86400 < offL (toLocalMs t)) (hhi : offL (toLocalMs t) < 86400)
    (hexists : offU (toLocalMs t - offL (toLocalMs t) * 1000) = offL (toLocalMs t))
    (hutc : (ofLocalMs (toLocalMs t - offL (toLocalMs t) * 1000)).isSome = true) :
    isoParseText offU (isoFormatText offL t) = some t := by
  have hfv : (fieldsOf t (offL (toLocalMs t) / 60)).Valid := by
    refine ⟨by rw [fieldsOf_dt hv]; exact hv, ?_, ?_⟩
    · show -1440 < offL (toLocalMs t) / 60; omega
    · show offL (toLocalMs t) / 60 < 1440; omega
  have hfmt : isoFormat offL t = formatChars (fieldsOf t (offL (toLocalMs t) / 60)) 0 := by
    have := isoFormat_factors (offL (toLocalMs t)) t 0 hv.2.2.2.2.2.2.2.2.2.2.2.2.1 hmin
    simpa [isoFormat, isoFormatWith] using this
  have hdate : parseDateChars (formatChars (fieldsOf t (offL (toLocalMs t) / 60)) 0) = none := by
    cases hp : parseDateChars (formatChars (fieldsOf t (offL (toLocalMs t) / 60)) 0) with
    | none => rfl
    | some p =>
      exfalso
      simp only [parseDateChars, Option.bind_eq_some_iff] at hp
      obtain ⟨q, hq, _⟩ := hp
      have h2 := scanRaw_format 0 hfv
      have a1 : (scanDate (formatChars (fieldsOf t (offL (toLocalMs t) / 60)) 0)).isSome = true := by rw [hq]; rfl
      have a2 : (scanRaw (formatChars (fieldsOf t (offL (toLocalMs t) / 60)) 0)).isSome = true := by rw [h2]; rfl
      exact iso_langs_disjoint _ ⟨(isoDate_lang _).2 a1, (isoText_lang _).2 a2⟩
  simp only [isoParseText, isoFormatText, String.toList_ofList, isoParse_factors, hfmt, hdate,
    isoText_roundtrip_chars _ 0 hfv, Option.bind_some]
  exact toZone_roundtrip offL offU t hv hmin hexists hutc

/-- **C16Text / text to text — PARTIAL** (zone abstracted, as above). The text `datetimeISOFormat` prints is a fixed point:
parsing it and printing the result gives the same string, character for character. -/
theorem iso_text_to_text_partial (offL offU : Int → Int) (t : DT) (hv : t.Valid)
    (hmin : offL (toLocalMs t) % 60 = 0)
    (hlo : -86400 < offL (toLocalMs t)) (hhi : offL (toLocalMs t) < 86400)
    (hexists : offU (toLocalMs t - offL (toLocalMs t) * 1000) = offL (toLocalMs t))
    (hutc : (ofLocalMs (toLocalMs t - offL (toLocalMs t) * 1000)).isSome = true) :
    (isoParseText offU (isoFormatText offL t)).map (isoFormatText offL) = some (isoFormatText offL t) := by
  rw [iso_text_roundtrip_partial offL offU t hv hmin hlo hhi hexists hutc]; rfl

/-- **C16Text / parse ∘ format ∘ parse = parse — PARTIAL** (zone abstracted). Starting from ANY accepted text `s` (written
with `Z`, another offset, six fraction digits, or the date-only form): what it parses to is a well-formed datetime, and if
that datetime exists in the zone (the carve-outs, now about the parsed value), printing and re-parsing returns it unchanged —
`datetimeISOFormat` canonicalises the text without moving the instant. -/
theorem iso_text_canonicalises_partial (offL offU : Int → Int) (s : String) (t : DT)
    (h : isoParseText offU s = some t)
    (hmin : offL (toLocalMs t) % 60 = 0)
    (hlo : -86400 < offL (toLocalMs t)) (hhi : offL (toLocalMs t) < 86400)
    (hexists : offU (toLocalMs t - offL (toLocalMs t) * 1000) = offL (toLocalMs t))
    (hutc : (ofLocalMs (toLocalMs t - offL (toLocalMs t) * 1000)).isSome = true) :
    t.Valid ∧ isoParseText offU (isoFormatText offL t) = some t := by
  have hv := (C16.iso_reject_fields offU s.toList t h).1
  exact ⟨hv, iso_text_roundtrip_partial offL offU t hv hmin hlo hhi hexists hutc⟩

/-- non-vacuity (Kathmandu, +05:45, constant): a `Z` text with six fraction digits parses to local time, is printed
canonically, and that text is a fixed point -/
example : isoParseText (fun _ => 20700) "2024-02-28T19:17:03.045999Z" = some ⟨2024, 2, 29, 1, 2, 3, 45⟩ ∧
    isoFormatText (fun _ => 20700) ⟨2024, 2, 29, 1, 2, 3, 45⟩ = "2024-02-29T01:02:03.045+05:45" ∧
    isoParseText (fun _ => 20700) "2024-02-29T01:02:03.045+05:45" = some ⟨2024, 2, 29, 1, 2, 3, 45⟩ ∧
    (⟨2024, 2, 29, 1, 2, 3, 45⟩ : DT).Valid ∧ (20700 : Int) % 60 = 0 ∧
    (ofLocalMs (toLocalMs ⟨2024, 2, 29, 1, 2, 3, 45⟩ - 20700 * 1000)).isSome = true ∧
    toZone (fun _ => 20700) ⟨2024, 2, 28, 19, 17, 3, 45, 0⟩ = some ⟨2024, 2, 29, 1, 2, 3, 45⟩ ∧
    isoFormatUs 20700 ⟨2024, 2, 29, 1, 2, 3, 45⟩ 0 = formatChars ⟨2024, 2, 29, 1, 2, 3, 45, 345⟩ 0 := by decide +kernel

/-- **C16Text / date text round trip** (no zone hypothesis at all: a date is local midnight). For every well-formed
datetime, `datetimeISOParse(datetimeISOFormat(t, true))` is `t` cut to midnight, in every zone. -/
theorem iso_date_text_roundtrip (offU : Int → Int) (t : DT) (hv : t.Valid) :
    isoParseText offU (String.ofList (isoFormatDate t)) = some ⟨t.year, t.month, t.day, 0, 0, 0, 0⟩ := by
  obtain ⟨y1, y2, m1, m2, d1, d2, _⟩ := hv
  have hv' : DT.Valid ⟨(t.year.toNat : Int), t.month.toNat, t.day.toNat, 0, 0, 0, 0⟩ := by
    rw [Int.toNat_of_nonneg (by omega), Int.toNat_of_nonneg (by omega), Int.toNat_of_nonneg (by omega)]
    exact ⟨y1, y2, m1, m2, d1, d2, by simp⟩
  have := isoText_date_form t.year.toNat t.month.toNat t.day.toNat hv'
  simp only [parseDateText, formatDateText, String.toList_ofList] at this
  simp only [isoParseText, String.toList_ofList, isoParse_factors, ← formatDate_eq, this]
  rw [Int.toNat_of_nonneg (by omega), Int.toNat_of_nonneg (by omega), Int.toNat_of_nonneg (by omega)]

example : isoParseText (fun _ => -18000) (String.ofList (isoFormatDate ⟨999, 12, 31, 23, 59, 59, 999⟩)) =
    some ⟨999, 12, 31, 0, 0, 0, 0⟩ ∧ String.ofList (isoFormatDate ⟨999, 12, 31, 23, 59, 59, 999⟩) = "0999-12-31" := by
  decide +kernel

end C16Text
