import BareProofs.C06Regex4
import BareProofs.C06Regex5Lemmas

/-!
# C06Regex5 — `function`, the hypothesis-free cascade `shape_is_cascade`, and its corollary for `classifyL`
-/

namespace C06Regex
open Rx Text Scan RxPatterns

/-! ## the scanner side of `function`, as data -/

/-- `Scan.funcBegin?` behind the optional `async` (the text of `Scan.lean`, with `isAsync` as a parameter) -/
def funcScan (isAsync : Bool) (s1 : Chars) : Option Shape :=
  match keyword? "function" s1 with
  | none => none
  | some r =>
    match ws1? r with
    | none => none
    | some r =>
      match ident? r with
      | none => none
      | some (name, r) =>
        match lstripL r with
        | '(' :: r =>
          let r := lstripL r
          let (args, r) := match ident? r with
            | some (a, r') => let (as, r'') := argsLoop r'.length r'; (a :: as, r'')
            | none => ([], r)
          let (laa, r) := match keyword? "..." (lstripL r) with
            | some r' => (true, r')
            | none => (false, r)
          match lstripL r with
          | ')' :: r =>
            match lstripL r with
            | ':' :: r => if allSpace r then some (.funcBegin name args laa isAsync) else none
            | _ => none
          | _ => none
        | _ => none

theorem funcBegin?_eq (s : Chars) :
    funcBegin? s = match keyword? "async" s with
      | some r => funcScan true (lstripL r)
      | none => funcScan false s := by
  unfold funcBegin? funcScan
  cases keyword? "async" s <;> rfl

/-- the same in terms of `funcTail` / `closeOK` -/
def funcRest (isAsync : Bool) (s1 : Chars) : Option Shape :=
  match keyword? "function" s1 with
  | none => none
  | some r1 =>
    match ws1? r1 with
    | none => none
    | some r2 =>
      match ident? r2 with
      | none => none
      | some (name, r3) =>
        match lstripL r3 with
        | x :: r4 => if x = '(' then funcTail name isAsync (lstripL r4) else none
        | [] => none

theorem closeOK_of {R r r' : Chars} (h1 : lstripL R = ')' :: r) (h2 : lstripL r = ':' :: r') : closeOK R = allSpace r' := by
  unfold closeOK; rw [h1]; simp only [h2]; simp

theorem closeOK_not1 {R : Chars} (h : ∀ r, lstripL R = ')' :: r → False) : closeOK R = false := by
  unfold closeOK
  cases hl : lstripL R with
  | nil => rfl
  | cons x r9 =>
    have : ¬ x = ')' := fun e => h r9 (by rw [hl, e])
    simp [this]

theorem closeOK_not2 {R r : Chars} (h1 : lstripL R = ')' :: r) (h : ∀ r', lstripL r = ':' :: r' → False) : closeOK R = false := by
  unfold closeOK; rw [h1]
  cases hl : lstripL r with
  | nil => simp [hl]
  | cons y r10 =>
    have : ¬ y = ':' := fun e => h r10 (by rw [hl, e])
    simp [hl, this]

theorem close_scan (R : Chars) (v : Shape) :
    (match lstripL R with
      | ')' :: r =>
        match lstripL r with
        | ':' :: r => if allSpace r then some v else none
        | _ => none
      | _ => none) = if closeOK R then some v else none := by
  split
  · rename_i r h1
    split
    · rename_i r' h2; rw [closeOK_of h1 h2]
    · rename_i hn; rw [closeOK_not2 h1 (fun r' e => hn r' e)]; rfl
  · rename_i hn; rw [closeOK_not1 (fun r e => hn r e)]; rfl

theorem funcScan_spec (isAsync : Bool) (s1 : Chars) : funcScan isAsync s1 = funcRest isAsync s1 := by
  unfold funcScan funcRest
  cases keyword? "function" s1 with
  | none => rfl
  | some r1 =>
    simp only []
    cases ws1? r1 with
    | none => rfl
    | some r2 =>
      simp only []
      cases ident? r2 with
      | none => rfl
      | some nr =>
        obtain ⟨name, r3⟩ := nr
        simp only []
        cases hl3 : lstripL r3 with
        | nil => rfl
        | cons x r4 =>
          by_cases hx : x = '('
          · subst hx
            simp only [if_true]
            unfold funcTail
            cases ident? (lstripL r4) with
            | none =>
              simp only []
              cases keyword? "..." (lstripL (lstripL r4)) with
              | none => simp only []; exact close_scan _ _
              | some r8 => simp only []; exact close_scan _ _
            | some ar =>
              obtain ⟨a, r6⟩ := ar
              simp only []
              cases keyword? "..." (lstripL (argsLoop r6.length r6).2) with
              | none => simp only []; exact close_scan _ _
              | some r8 => simp only []; exact close_scan _ _
          · have hne : ∀ r, x :: r4 = '(' :: r → False := fun r e => hx (List.cons.inj e).1
            simp only [hne, hx, if_false]

/-! ## the engine side of `function` -/

theorem word_lparen : ∀ x, isWord x = true → isSpace x = false ∧ x ≠ '(' := by
  intro x hx
  refine ⟨word_not_space hx, fun e => ?_⟩
  rw [e] at hx; exact absurd hx (by decide)

/-- `function\s+(?P<name>…)\s*\(\s*(?P<args>…)?(?P<lastArgArray>…)?\s*\)\s*:\s*$` on the text behind the optional `async`,
and parser.py's reading of the groups -/
theorem func_rx (line : Chars) (isAsync : Bool) (p : Nat) (s1 : Chars) (caps : List (Nat × Nat × Nat))
    (hd : line.drop p = s1) (hnl : '\n' ∉ s1) (h1 : (caps.lookup 1).isSome = isAsync)
    (h2 : caps.lookup 2 = none) (h3 : caps.lookup 3 = none) (h4 : caps.lookup 4 = none) :
    ((kw "function".toList ⬝ ws1 ⬝ Rx.cap 2 (some "name") ident ⬝ ws ⬝ elit '(' ⬝ ws ⬝
        Rx.opt (.cap 3 (some "args") (ident ⬝ .star argIter)) ⬝ K5rx).m ⟨p, s1, caps⟩ some).bind (funcReader line) =
      funcRest isAsync s1 := by
  rw [seq_m, kw_match "function" 'f' "unction".toList rfl]
  unfold funcRest
  cases hk : keyword? "function" s1 with
  | none => rfl
  | some r1 =>
    have hr1 : '\n' ∉ r1 := noNL_keyword' hnl hk
    have hd1 : line.drop (p + "function".length) = r1 := by rw [← List.drop_drop, hd, keyword?_drop hk]
    simp only []
    rw [ws1_det _ _ _ (rejects_cap_ident isSpace (fun x => space_not_idStart) _ _ _ _)]
    cases r1 with
    | nil => rfl
    | cons c r0 =>
      have hr0 : '\n' ∉ r0 := fun hm => hr1 (List.mem_cons_of_mem _ hm)
      by_cases hc : isSpace c = true
      · rw [show ws1? (c :: r0) = some (lstripL r0) from by simp [ws1?, hc]]
        simp only [hc, if_true]
        have hd2 : line.drop (p + "function".length + 1 + (r0.takeWhile isSpace).length) = lstripL r0 := by
          have e : line.drop (p + "function".length + 1 + (r0.takeWhile isSpace).length) =
              (line.drop (p + "function".length)).drop (1 + (r0.takeWhile isSpace).length) := by
            rw [List.drop_drop, Nat.add_assoc]
          rw [e, hd1, Nat.add_comm 1, List.drop_succ_cons, drop_length_takeWhile]; rfl
        rw [seq_m, cap_ident_det _ _ _ _ (by unfold elit; exact rejects_ws_lit isWord true '(' word_lparen _ _)]
        cases hi : ident? (lstripL r0) with
        | none => rfl
        | some nr =>
          obtain ⟨name, r3⟩ := nr
          have hr3 : '\n' ∉ r3 := noNL_ident (not_mem_dropWhile hr0) hi
          have hsp := ident?_eq_append hi
          have hd3 := drop_add_of_drop line name r3 _ (hd2.trans hsp)
          have hg2 := slice_prefix line _ _ name r3 (hd2.trans hsp) rfl
          simp only []
          unfold elit
          rw [ws_lit_det true '(' (by decide)]
          cases hl3 : lstripL r3 with
          | nil => rfl
          | cons x r4 =>
            by_cases hx : x = '('
            · subst hx
              have hr4 : '\n' ∉ r4 := noNL_lstrip_tail hr3 hl3
              have hd4 : line.drop (p + "function".length + 1 + (r0.takeWhile isSpace).length + name.length +
                  (r3.takeWhile isSpace).length + 1) = r4 := by
                have e : r3 = (r3.takeWhile isSpace ++ ['(']) ++ r4 := by
                  have := (List.takeWhile_append_dropWhile (p := isSpace) (l := r3)).symm
                  rw [show r3.dropWhile isSpace = '(' :: r4 from hl3] at this
                  simpa using this
                have := drop_add_of_drop line _ r4 _ (hd3.trans e)
                simpa [Nat.add_assoc] using this
              have hd5 : line.drop (p + "function".length + 1 + (r0.takeWhile isSpace).length + name.length +
                  (r3.takeWhile isSpace).length + 1 + (r4.takeWhile isSpace).length) = lstripL r4 := by
                rw [← List.drop_drop, hd4, drop_length_takeWhile]; rfl
              simp only [if_true]
              have hw := ws_K4 (p + "function".length + 1 + (r0.takeWhile isSpace).length + name.length +
                  (r3.takeWhile isSpace).length + 1) r4
                ((2, p + "function".length + 1 + (r0.takeWhile isSpace).length,
                  p + "function".length + 1 + (r0.takeWhile isSpace).length + name.length) :: caps) hr4
              unfold elit at hw
              rw [hw]
              exact func_read line name isAsync _ (lstripL r4) _ hd5 (not_mem_dropWhile hr4)
                (by simp [List.lookup, hg2]) (by simp only [List.lookup]; exact h1) (by simp only [List.lookup]; exact h3)
                (by simp only [List.lookup]; exact h4)
            · simp [hx]
      · simp [hc, ws1?]

theorem ws_det (R : Rx) (st : St) (k : K) (hR : RejectsHead isSpace (fun st => R.m st k)) :
    (ws ⬝ R).m st k = R.m (skip isSpace st) k := by
  rw [seq_m]; simp only [ws, sp]
  rw [star_atom_det _ _ _ (by simpa [space_test] using hR), space_test]

theorem ws_det' (st : St) (k : K) (hk : RejectsHead isSpace k) : ws.m st k = k (skip isSpace st) := by
  simp only [ws, sp]
  rw [star_atom_det _ _ _ (by simpa [space_test] using hk), space_test]

theorem map_shift_ite (c : Prop) [Decidable c] (n : Chars) (a : List Chars) (l b : Bool) (k : Nat) :
    (if c then some (Shape.funcBegin n a l b) else none).map (Shape.shift k) = if c then some (Shape.funcBegin n a l b) else none := by
  split <;> rfl

theorem funcTail_shift (name : Chars) (b : Bool) (r : Chars) (k : Nat) :
    (funcTail name b r).map (Shape.shift k) = funcTail name b r := by
  unfold funcTail
  exact map_shift_ite _ _ _ _ _ _

theorem funcRest_shift (b : Bool) (s : Chars) (k : Nat) : (funcRest b s).map (Shape.shift k) = funcRest b s := by
  unfold funcRest
  split
  · rfl
  · split
    · rfl
    · split
      · rfl
      · split
        · split
          · exact funcTail_shift _ _ _ _
          · rfl
        · rfl

theorem keyword?_async_function {s r : Chars} (h : keyword? "async" s = some r) : keyword? "function" s = none := by
  unfold keyword? at h ⊢
  cases s with
  | nil => simp [show "async".toList = ['a', 's', 'y', 'n', 'c'] from rfl, List.isPrefixOf] at h
  | cons c t =>
    by_cases hc : c = 'a'
    · subst hc; simp [show "function".toList = ['f', 'u', 'n', 'c', 't', 'i', 'o', 'n'] from rfl, List.isPrefixOf]
    · have : ¬ 'a' = c := fun e => hc e.symm
      simp [show "async".toList = ['a', 's', 'y', 'n', 'c'] from rfl, List.isPrefixOf, this] at h

/-- **`_R_SCRIPT_FUNCTION_BEGIN`**: `^(?P<async>\s*async)?\s*function\s+(?P<name>…)\s*\(\s*(?P<args>…)?(?P<lastArgArray>\s*\.\.\.)?`
`\s*\)\s*:\s*$`, `args` split by `_R_SCRIPT_FUNCTION_ARG_SPLIT`. -/
theorem function_regex (line : Chars) (hnl : '\n' ∉ line) : onLine funcBegin? line = rxFunction line := by
  have hshape : functionBegin = Rx.bol ⬝ Rx.opt (.cap 1 (some "async") (ws ⬝ kw "async".toList)) ⬝ ws ⬝
      (kw "function".toList ⬝ ws1 ⬝ Rx.cap 2 (some "name") ident ⬝ ws ⬝ elit '(' ⬝ ws ⬝
        Rx.opt (.cap 3 (some "args") (ident ⬝ .star argIter)) ⬝ K5rx) := rfl
  have hF : ∀ k : K, RejectsHead isSpace (fun st => (kw "function".toList ⬝ ws1 ⬝ Rx.cap 2 (some "name") ident ⬝ ws ⬝ elit '(' ⬝ ws ⬝
        Rx.opt (.cap 3 (some "args") (ident ⬝ .star argIter)) ⬝ K5rx).m st k) :=
    fun k => rejects_kw isSpace "function" 'f' "unction".toList rfl (by decide) _ k
  unfold onLine rxFunction matchAt matchFrom
  rw [hshape, funcBegin?_eq]
  change _ = (Rx.m _ _ some).bind (funcReader line)
  rw [seq_m, bol_m, seq_m, opt_m, cap_m, seq_m,
    ws_det' _ _ (rejects_kw' isSpace "async" 'a' "sync".toList rfl (by decide) _),
    kw_match "async" 'a' "sync".toList rfl, ws_det _ _ _ (hF some)]
  simp only [if_true, skip, show List.dropWhile isSpace line = lstripL line from rfl]
  have hs : '\n' ∉ lstripL line := not_mem_dropWhile hnl
  have hdi : line.drop (0 + (line.takeWhile isSpace).length) = lstripL line := by rw [Nat.zero_add]; exact drop_ind line
  cases hka : keyword? "async" (lstripL line) with
  | none =>
    simp only []
    rw [none_orElse_st,
      func_rx line false _ (lstripL line) [] hdi hs rfl rfl rfl rfl, funcScan_spec, funcRest_shift]
  | some r =>
    have hr : '\n' ∉ r := noNL_keyword hs hka
    have hdr : line.drop (0 + (line.takeWhile isSpace).length + "async".length) = r := by
      rw [← List.drop_drop, hdi, keyword?_drop hka]
    simp only []
    rw [ws_det _ _ _ (hF some)]
    simp only [skip]
    have hnone : (kw "function".toList ⬝ ws1 ⬝ Rx.cap 2 (some "name") ident ⬝ ws ⬝ elit '(' ⬝ ws ⬝
        Rx.opt (.cap 3 (some "args") (ident ⬝ .star argIter)) ⬝ K5rx).m
          ⟨0 + (line.takeWhile isSpace).length, lstripL line, []⟩ some = none := by
      rw [seq_m, kw_match "function" 'f' "unction".toList rfl]
      simp only [keyword?_async_function hka]
    rw [hnone, orElse_none', show List.dropWhile isSpace r = lstripL r from rfl,
      func_rx line true _ (lstripL r) _ (by rw [← List.drop_drop, hdr]; exact drop_ind r) (not_mem_dropWhile hr)
        (by simp [List.lookup]) (by simp [List.lookup]) (by simp [List.lookup]) (by simp [List.lookup]),
      funcScan_spec, funcRest_shift]

example : '\n' ∉ " async function  f ( a , b ... ) : ".toList ∧
    rxFunction " async function  f ( a , b ... ) : ".toList = some (.funcBegin ['f'] [['a'], ['b']] true true) := by decide +kernel
example : rxFunction "function g():".toList = some (.funcBegin ['g'] [] false false) ∧
    rxFunction "function f(a,):".toList = none := by decide +kernel

/-! ## the cascade -/

/-- **`Scan.shape` IS the regex cascade of parser.py**: for every line without `'\n'`, the hand-written classifier equals
`RxPatterns.rxShape` — every statement pattern tried in the order of `parse_script` by the backtracking matcher `Rx.matchAt` on
the pattern AST (rendering pinned to the regenerated sources: `sources_pinned`), followed by parser.py's reading of the groups. -/
theorem shape_is_cascade (line : Chars) (hnl : '\n' ∉ line) : shape line = rxShape line :=
  shape_is_cascade_partial4 line hnl (function_regex line hnl)

/-- the classification of a logical line is decided by the regex cascade on the pinned ASTs: `Scan.classifyL` with `shape`
replaced by `rxShape` -/
def rxClassifyL (parseExpr : String → Except ParseErr Expr) (line : Chars) : Except ParseErr Line :=
  let ex (off : Nat) (e : Chars) : Except ParseErr Expr := shiftErr off (parseExpr (String.ofList e))
  match rxShape line with
  | .assign n off e => (ex off e).map (Line.assign (nameOf n))
  | .funcBegin n args laa isAsync => .ok (.funcBegin (nameOf n) (args.map nameOf) laa isAsync)
  | .funcEnd => .ok .funcEnd
  | .ifBegin off e => (ex off e).map Line.ifBegin
  | .elif off e => (ex off e).map Line.elif
  | .else_ => .ok .else_
  | .endif => .ok .endif
  | .whileBegin off e => (ex off e).map Line.whileBegin
  | .endwhile => .ok .endwhile
  | .forBegin v i off e => (ex off e).map (Line.forBegin (nameOf v) (i.map nameOf))
  | .endfor => .ok .endfor
  | .break_ => .ok .break_
  | .continue_ => .ok .continue_
  | .label n => .ok (.label (nameOf n))
  | .jump n none => .ok (.jump (nameOf n) none)
  | .jump n (some (off, e)) => (ex off e).map (fun c => Line.jump (nameOf n) (some c))
  | .ret none => .ok (.ret none)
  | .ret (some (off, e)) => (ex off e).map (fun c => Line.ret (some c))
  | .include url sys => .ok (.include (String.ofList url) sys)
  | .exprStmt => (parseExpr (String.ofList line)).map Line.exprStmt

/-- **corollary**: `Scan.classifyL pe line` (statement kind, group texts, re-based error columns) is determined by the regex
cascade `rxShape line`, for every expression parser `pe` -/
theorem classifyL_is_cascade (pe : String → Except ParseErr Expr) (line : Chars) (hnl : '\n' ∉ line) :
    classifyL pe line = rxClassifyL pe line := by
  unfold classifyL rxClassifyL
  rw [shape_is_cascade line hnl]
  rfl

/-- two lines with the same regex cascade result and the same text classify alike; in particular the statement kind depends on
`rxShape` only -/
theorem classify_is_cascade (pe : String → Except ParseErr Expr) (line : String) (hnl : '\n' ∉ line.toList) :
    classify pe line = rxClassifyL pe line.toList := classifyL_is_cascade pe line.toList hnl

end C06Regex
