import BareProofs.C11Lemmas

/-!
# C11 — value comparison is a total preorder and every consumer agrees with it

All theorems are about the mirror `Compare.valueCompare` (value.py:193-229) and hold for **all** closed values: any
nesting depth, any array/object size, any rational number, any string.  NaN is excluded by typing (`Rat` has none).

Order laws
* `cmp_range`            the result is always -1, 0 or 1
* `cmp_refl`             `compare(a, a) = 0`
* `cmp_antisymm`         `compare(a, b) = -compare(b, a)`
* `cmp_trans`            `compare(a, b) ≤ 0 → compare(b, c) ≤ 0 → compare(a, c) ≤ 0` (+ the strict and the `= 0` variants)
* `null_least`           null is below every other value and equal only to null
* `cross_type_by_name`   two non-null values of different types compare as their type names do
* `int_float_irrelevant` comparison of numbers factors through the rational value (the `int`/`float` spelling is invisible)
* `arr_elementwise`, `obj_elementwise`, `obj_order_irrelevant`  arrays / objects compare lexicographically, element by
                         element (objects: by sorted key, key before value), then by length; insertion order is invisible
* `str_cmp_zero_iff`     strings compare equal only when equal

Consumers
* `relops_sign`          the six relational operators are the sign tests of the comparison (+ the derived identities)
* `sort_sorted_perm`, `sort_stable`, `stable_sort_unique`   `arraySort` returns an ordered permutation, keeps the order of
                         equal elements, and *is* the only list with these properties; the same for `dataSort`
                         (`dataSort_spec`, its multi-key comparator is a total preorder: `sortDataFn_isPre`)
* `min_max_spec`         `mathMax`/`mathMin` return the first greatest / least argument (null for no argument)
* `indexOf_first`, `lastIndexOf_last`   first / last position at or after / before `index` comparing equal, else -1
-/

namespace C11
open Compare

/-! ## order laws -/

/-- The comparison only ever answers -1, 0 or 1. -/
theorem cmp_range (a b : PValue) : valueCompare a b = -1 ∨ valueCompare a b = 0 ∨ valueCompare a b = 1 := by
  have := (laws a).range b; omega

/-- Reflexive: every value compares equal to itself. -/
theorem cmp_refl (a : PValue) : valueCompare a a = 0 := (laws a).refl

/-- Antisymmetric: swapping the operands negates the result. -/
theorem cmp_antisymm (a b : PValue) : valueCompare a b = - valueCompare b a := (laws a).antisymm b

/-- Transitive. -/
theorem cmp_trans (a b c : PValue) (h₁ : valueCompare a b ≤ 0) (h₂ : valueCompare b c ≤ 0) : valueCompare a c ≤ 0 :=
  valueCompare_isPre.trans a b c h₁ h₂

/-- Transitivity, strict on the left / strict on the right / for "equal". -/
theorem cmp_trans_strict (a b c : PValue) :
    (valueCompare a b < 0 → valueCompare b c ≤ 0 → valueCompare a c < 0) ∧
    (valueCompare a b ≤ 0 → valueCompare b c < 0 → valueCompare a c < 0) ∧
    (valueCompare a b = 0 → valueCompare b c = 0 → valueCompare a c = 0) := (laws a).t3 b c

/-- Total: any two values are comparable. -/
theorem cmp_total (a b : PValue) : valueCompare a b ≤ 0 ∨ valueCompare b a ≤ 0 := by
  have := cmp_antisymm a b; omega

example : valueCompare (.arr [.num 1, .obj [("b", .null), ("a", .str "x")]]) (.arr [.num 1, .obj [("a", .str "x"), ("b", .null)]]) = 0 ∧
    valueCompare (.arr [.num 1]) (.arr [.num 1, .null]) = -1 ∧ valueCompare (.fn 1) (.fn 2) = 0 := by
  have e1 : strCompare "a" "b" = -1 := by decide
  have e2 : strCompare "b" "a" = 1 := by decide
  have e3 : strCompare "a" "a" = 0 := by decide
  have e4 : strCompare "b" "b" = 0 := by decide
  have e5 : strCompare "x" "x" = 0 := by decide
  have e6 : strCompare "function" "function" = 0 := by decide
  refine ⟨?_, ?_, ?_⟩ <;> simp [valueCompare, cmpList, cmpItems, sortItems, sortBy, insertBy, tri, typeName, *]

/-- null orders before everything else, and only null equals null. -/
theorem null_least (b : PValue) :
    valueCompare .null b ≤ 0 ∧ valueCompare b .null ≥ 0 ∧
    (valueCompare .null b = 0 ↔ b = .null) ∧ (b ≠ .null → valueCompare .null b = -1 ∧ valueCompare b .null = 1) := by
  cases b <;> simp [valueCompare]

/-- Two non-null values of different types compare exactly as their type names compare (as strings). -/
theorem cross_type_by_name (a b : PValue) (ha : a ≠ .null) (hb : b ≠ .null) (h : typeName a ≠ typeName b) :
    valueCompare a b = strCompare (typeName a) (typeName b) := by
  cases a <;> cases b <;> simp [typeName] at h ha hb <;> simp [valueCompare, typeName]

/-- … that is: by the alphabetical rank array < boolean < datetime < function < number < object < regex < string. -/
theorem cross_type_by_rank (a b : PValue) :
    (rank a < rank b → valueCompare a b = -1) ∧ (rank b < rank a → valueCompare a b = 1) ∧
    (rank a = rank b ↔ typeName a = typeName b) := by
  refine ⟨cmp_rank_lt a b, cmp_rank_gt a b, ?_⟩
  cases a <;> cases b <;> simp [rank, typeName]

example : valueCompare (.num 5) (.str "") = -1 ∧ valueCompare (.bool true) (.arr []) = 1 ∧
    typeName (.regex 0) ≠ typeName (.obj []) := by
  refine ⟨?_, ?_, ?_⟩ <;> simp [valueCompare, typeName] <;> decide

/-- Numbers compare by their rational value and by nothing else: -/
theorem num_cmp (p q : Rat) :
    (valueCompare (.num p) (.num q) < 0 ↔ p < q) ∧ (valueCompare (.num p) (.num q) = 0 ↔ p = q) ∧
    (valueCompare (.num p) (.num q) > 0 ↔ q < p) := by
  simp only [valueCompare, tri, decide_eq_true_eq]
  by_cases h1 : p < q <;> by_cases h2 : p = q <;> simp [h1, h2] <;> grind

/-- a host number: a Python `int`, or a finite `float` `m · 2^e` -/
inductive PyNum where
  | int (z : Int)
  | float (m : Int) (e : Int)

/-- its exact value -/
def PyNum.val : PyNum → Rat
  | .int z => z
  | .float m e => m * (2 : Rat) ^ e

/-- The comparison sees a number only through its rational value: two spellings of the same number (`1` and `1.0`) are the
same `PValue`, hence indistinguishable in every position of every comparison — as operand, and inside any container
context `C`. -/
theorem int_float_irrelevant (x y : PyNum) (h : x.val = y.val) (C : PValue → PValue) (b : PValue) :
    valueCompare (C (.num x.val)) b = valueCompare (C (.num y.val)) b ∧
    valueCompare b (C (.num x.val)) = valueCompare b (C (.num y.val)) ∧
    valueCompare (.num x.val) (.num y.val) = 0 := by
  rw [h]; exact ⟨rfl, rfl, cmp_refl _⟩

example : (PyNum.int 3).val = (PyNum.float 3 0).val ∧ (PyNum.int 3).val = (PyNum.float 6 (-1)).val := by
  constructor <;> simp only [PyNum.val] <;> grind

/-! ## containers are compared element by element -/

/-- Arrays: the first position where the elements differ decides; a proper prefix is smaller. -/
theorem arr_elementwise :
    valueCompare (.arr []) (.arr []) = 0 ∧
    (∀ y ys, valueCompare (.arr []) (.arr (y :: ys)) = -1) ∧
    (∀ x xs, valueCompare (.arr (x :: xs)) (.arr []) = 1) ∧
    (∀ x xs y ys, valueCompare (.arr (x :: xs)) (.arr (y :: ys)) =
      if valueCompare x y ≠ 0 then valueCompare x y else valueCompare (.arr xs) (.arr ys)) := by
  refine ⟨?_, ?_, ?_, ?_⟩ <;> intros <;> simp [valueCompare, cmpList]

/-- … spelled out: a common prefix of pairwise equal elements is skipped. -/
theorem arr_skip_equal_prefix : ∀ (p q xs ys : List PValue), p.length = q.length →
    (∀ (i : Nat) x y, p[i]? = some x → q[i]? = some y → valueCompare x y = 0) →
    valueCompare (.arr (p ++ xs)) (.arr (q ++ ys)) = valueCompare (.arr xs) (.arr ys)
  | [], [], _, _, _, _ => rfl
  | [], _ :: _, _, _, h, _ => by simp at h
  | _ :: _, [], _, _, h, _ => by simp at h
  | x :: p, y :: q, xs, ys, hl, he => by
    have h0 : valueCompare x y = 0 := he 0 x y rfl rfl
    have ih := arr_skip_equal_prefix p q xs ys (by simpa using hl) (fun i a b ha hb => he (i + 1) a b (by simpa using ha) (by simpa using hb))
    simp only [valueCompare, List.cons_append, cmpList, h0] at ih ⊢
    simpa using ih

/-- Objects: both item lists are put in key order; then the first position where the keys differ, or else the values
differ, decides; a proper prefix is smaller. -/
theorem obj_elementwise (a b : List (String × PValue)) :
    valueCompare (.obj a) (.obj b) = cmpItems (sortItems a) (sortItems b) ∧
    cmpItems [] [] = 0 ∧ (∀ y ys, cmpItems [] (y :: ys) = -1) ∧ (∀ x xs, cmpItems (x :: xs) [] = 1) ∧
    (∀ k₁ v₁ xs k₂ v₂ ys, cmpItems ((k₁, v₁) :: xs) ((k₂, v₂) :: ys) =
      if strCompare k₁ k₂ ≠ 0 then strCompare k₁ k₂
      else if valueCompare v₁ v₂ ≠ 0 then valueCompare v₁ v₂ else cmpItems xs ys) := by
  refine ⟨?_, ?_, ?_, ?_, ?_⟩ <;> intros <;> simp [valueCompare, cmpItems]

/-- Strings compare equal only when they are the same string (code-point order is a linear order). -/
theorem str_cmp_zero_iff (s t : String) : strCompare s t = 0 ↔ s = t := by
  have key : ∀ a b : List Nat, codeCmp a b = 0 → a = b := by
    intro a
    induction a with
    | nil => intro b; cases b <;> simp [codeCmp]
    | cons x xs ih =>
      intro b
      cases b with
      | nil => simp [codeCmp]
      | cons y ys =>
        simp only [codeCmp]
        split
        · omega
        · split
          · intro h; rw [ih ys h]; simp [*]
          · omega
  constructor
  · intro h
    have h' := key _ _ h
    apply String.toList_inj.mp
    exact (List.map_inj_right (fun a b hab => Char.toNat_inj.mp hab)).mp h'
  · rintro rfl; exact codeCmp_refl _

/-- the comparator `sorted(d.items())` effectively uses -/
abbrev keyCmp : String × PValue → String × PValue → Int := fun p q => strCompare p.1 q.1

theorem keyCmp_isPre : IsPre keyCmp :=
  ⟨fun a => (strCompare_laws a.1).refl, fun a b => (strCompare_laws a.1).antisymm b.1, fun a b d h1 h2 => by
    have ⟨t1, t2, t3⟩ := (strCompare_laws a.1).t3 b.1 d.1
    have := (strCompare_laws a.1).range b.1; have := (strCompare_laws b.1).range d.1
    simp only [keyCmp] at *; omega⟩

/-- The item list in key order is canonical: two dicts with the same items (in whatever insertion order) and pairwise
different keys have the *same* sorted item list — -/
theorem sortItems_canonical (a b : List (String × PValue)) (hp : a.Perm b) (hk : (a.map (·.1)).Nodup) :
    sortItems a = sortItems b := by
  refine sorted_stable_unique keyCmp_isPre _ _ (sortBy_sorted keyCmp_isPre a) (sortBy_sorted keyCmp_isPre b) (fun x => ?_)
  show (sortBy (ltOf keyCmp) a).filter _ = (sortBy (ltOf keyCmp) b).filter _
  rw [sortBy_stable keyCmp_isPre, sortBy_stable keyCmp_isPre]
  -- the class of a key holds at most one item
  have hpf := hp.filter (eqv keyCmp x)
  have hnd : ∀ l : List (String × PValue), (l.map (·.1)).Nodup → (l.filter (eqv keyCmp x)).length ≤ 1 := by
    intro l
    induction l with
    | nil => simp
    | cons p l ih =>
      intro hn
      rw [List.map_cons] at hn
      have ⟨hnot, hn'⟩ := List.nodup_cons.mp hn
      rw [List.filter_cons]
      split
      · rename_i hpx
        have : l.filter (eqv keyCmp x) = [] := by
          refine List.filter_eq_nil_iff.mpr (fun q hq hqx => hnot ?_)
          have e1 : strCompare p.1 x.1 = 0 := by simpa [eqv, keyCmp] using hpx
          have e2 : strCompare q.1 x.1 = 0 := by simpa [eqv, keyCmp] using hqx
          rw [(str_cmp_zero_iff _ _).mp e1, ← (str_cmp_zero_iff _ _).mp e2]
          exact List.mem_map.mpr ⟨q, hq, rfl⟩
        simp [this]
      · exact ih hn'
  have la := hnd a hk
  have lb := hnd b ((hp.map (·.1)).nodup_iff.mp hk)
  generalize a.filter (eqv keyCmp x) = fa at *
  generalize b.filter (eqv keyCmp x) = fb at *
  match fa, fb, hpf, la, lb with
  | [], fb, hpf, _, _ => exact (List.Perm.nil_eq hpf)
  | [p], [], hpf, _, _ => exact absurd hpf.length_eq (by simp)
  | [p], [q], hpf, _, _ => simpa using hpf
  | [p], _ :: _ :: _, _, _, lb => simp at lb
  | _ :: _ :: _, _, _, la, _ => simp at la

/-- … so insertion order is invisible to the comparison. -/
theorem obj_order_irrelevant (a b : List (String × PValue)) (hp : a.Perm b) (hk : (a.map (·.1)).Nodup) (c : PValue) :
    valueCompare (.obj a) (.obj b) = 0 ∧ valueCompare (.obj a) c = valueCompare (.obj b) c ∧
    valueCompare c (.obj a) = valueCompare c (.obj b) := by
  have e := sortItems_canonical a b hp hk
  have h1 : ∀ c, valueCompare (.obj a) c = valueCompare (.obj b) c := by
    intro c; cases c <;> simp [valueCompare, e, typeName]
  refine ⟨by rw [h1]; exact cmp_refl _, h1 c, ?_⟩
  rw [cmp_antisymm c, cmp_antisymm c (.obj b), h1]

example : WFValue (.obj [("b", .num 1), ("a", .arr [.obj [("x", .null)]])]) = true ∧
    [("b", PValue.num 1), ("a", .null)].Perm [("a", .null), ("b", .num 1)] := by
  refine ⟨by decide, ?_⟩
  exact List.Perm.swap _ _ _

/-! ## consumers -/

/-- The six relational operators are exactly the sign tests of the comparison … -/
theorem relops_sign (a b : PValue) :
    (relop .eq a b = true ↔ valueCompare a b = 0) ∧ (relop .ne a b = true ↔ valueCompare a b ≠ 0) ∧
    (relop .le a b = true ↔ valueCompare a b ≤ 0) ∧ (relop .lt a b = true ↔ valueCompare a b < 0) ∧
    (relop .ge a b = true ↔ valueCompare a b ≥ 0) ∧ (relop .gt a b = true ↔ valueCompare a b > 0) := by
  simp [relop]

theorem sign_tri (x : Int) : (decide (x < 0)).toNat + (x == 0).toNat + (decide (x > 0)).toNat = 1 := by
  by_cases h1 : x < 0 <;> by_cases h2 : x = 0 <;> by_cases h3 : 0 < x <;> simp [h1, h2, h3] <;> omega

/-- … hence obey the usual identities: `!=` is the negation of `==`, `>` of `<=`, `<` of `>=`; `a >= b` is `b <= a`,
`a > b` is `b < a`; `==` is symmetric; `<=` is `<` or `==`; exactly one of `<`, `==`, `>` holds. -/
theorem relops_identities (a b : PValue) :
    relop .ne a b = !relop .eq a b ∧ relop .gt a b = !relop .le a b ∧ relop .lt a b = !relop .ge a b ∧
    relop .ge a b = relop .le b a ∧ relop .gt a b = relop .lt b a ∧ relop .eq a b = relop .eq b a ∧
    relop .le a b = (relop .lt a b || relop .eq a b) ∧
    ((relop .lt a b).toNat + (relop .eq a b).toNat + (relop .gt a b).toNat = 1) := by
  have h := cmp_antisymm a b
  simp only [relop]
  generalize valueCompare a b = x at *
  generalize valueCompare b a = y at *
  subst h
  refine ⟨?_, ?_, ?_, ?_, ?_, ?_, ?_, sign_tri _⟩
  · simp [bne]
  · rw [Bool.eq_iff_iff]; simp
  · rw [Bool.eq_iff_iff]; simp
  · rw [Bool.eq_iff_iff]; simp
  · rw [Bool.eq_iff_iff]; simp
  · rw [Bool.eq_iff_iff]; simp
  · rw [Bool.eq_iff_iff]; simp; omega

example : relop .lt (.num 1) (.num 2) = true ∧ relop .ge (.str "a") (.null) = true := by
  have e5 : (1 : Rat) < 2 := by decide
  simp [relop, valueCompare, tri, e5]

/-- `arraySort` (no compare function) returns an ordered permutation of its input … -/
theorem sort_sorted_perm (xs : List PValue) :
    (arraySort xs).Pairwise (fun x y => valueCompare x y ≤ 0) ∧ (arraySort xs).Perm xs :=
  ⟨sortBy_sorted valueCompare_isPre xs, sortBy_perm _ xs⟩

/-- … in which elements that compare equal keep their original relative order: for every value `a`, the subsequence of
elements equal to `a` is unchanged. -/
theorem sort_stable (xs : List PValue) (a : PValue) :
    (arraySort xs).filter (fun x => valueCompare x a == 0) = xs.filter (fun x => valueCompare x a == 0) :=
  sortBy_stable valueCompare_isPre xs a

/-- A stable sort by a total preorder has exactly one possible result: *any* ordered list with the same
equal-element subsequences as `xs` (what every stable sort returns — CPython's `list.sort` merge runs included) is
`arraySort xs`. -/
theorem stable_sort_unique (xs ys : List PValue)
    (hsorted : ys.Pairwise (fun x y => valueCompare x y ≤ 0))
    (hstable : ∀ a, ys.filter (fun x => valueCompare x a == 0) = xs.filter (fun x => valueCompare x a == 0)) :
    ys = arraySort xs :=
  sorted_stable_unique valueCompare_isPre ys (arraySort xs) hsorted (sort_sorted_perm xs).1
    (fun a => (hstable a).trans (sort_stable xs a).symm)

/-- the same three facts for any comparator that is a total preorder (used for `dataSort` and for `sortItems`) -/
theorem sortBy_spec {α : Type} {c : α → α → Int} (h : IsPre c) (xs : List α) :
    Sorted c (sortBy (ltOf c) xs) ∧ (sortBy (ltOf c) xs).Perm xs ∧
    (∀ a, (sortBy (ltOf c) xs).filter (eqv c a) = xs.filter (eqv c a)) ∧
    (∀ ys, Sorted c ys → (∀ a, ys.filter (eqv c a) = xs.filter (eqv c a)) → ys = sortBy (ltOf c) xs) :=
  ⟨sortBy_sorted h xs, sortBy_perm _ xs, sortBy_stable h xs, fun ys hs hf =>
    sorted_stable_unique h ys _ hs (sortBy_sorted h xs) (fun a => (hf a).trans (sortBy_stable h xs a).symm)⟩

example : arraySort [.num 2, .fn 7, .null, .num 1, .fn 3] = [.null, .fn 7, .fn 3, .num 1, .num 2] := by
  have e1 : strCompare "function" "function" = 0 := by decide
  have e2 : strCompare "function" "number" = -1 := by decide
  have e3 : strCompare "number" "function" = 1 := by decide
  have e4 : ¬ ((2 : Rat) < 1) := by decide
  have e5 : (1 : Rat) < 2 := by decide
  simp [arraySort, sortBy, insertBy, valueCompare, tri, typeName, *]

/-- The multi-key comparator of `dataSort` (fields in order, each ascending or descending, missing field = null) is a
total preorder on rows … -/
theorem sortDataFn_isPre : ∀ sorts : List (String × Bool), IsPre (sortDataFn sorts)
  | [] => ⟨fun _ => rfl, fun _ _ => rfl, fun _ _ _ _ _ => by simp [sortDataFn]⟩
  | (field, desc) :: rest => by
    have ih := sortDataFn_isPre rest
    have h1 : IsPre (fun r1 r2 : List (String × PValue) =>
        if desc then valueCompare (rowGet field r2) (rowGet field r1) else valueCompare (rowGet field r1) (rowGet field r2)) := by
      cases desc
      · simpa using valueCompare_isPre.comap (rowGet field)
      · simpa using (valueCompare_isPre.comap (rowGet field)).flip
    have := h1.lex ih
    refine ⟨fun a => ?_, fun a b => ?_, fun a b d => ?_⟩
    · simpa [sortDataFn] using this.refl a
    · simpa [sortDataFn] using this.antisymm a b
    · simpa [sortDataFn] using this.trans a b d

/-- … so `dataSort` returns the unique ordered, stable permutation of the rows. -/
theorem dataSort_spec (sorts : List (String × Bool)) (rows : List (List (String × PValue))) :
    Sorted (sortDataFn sorts) (dataSort sorts rows) ∧ (dataSort sorts rows).Perm rows ∧
    (∀ r, (dataSort sorts rows).filter (eqv (sortDataFn sorts) r) = rows.filter (eqv (sortDataFn sorts) r)) ∧
    (∀ ys, Sorted (sortDataFn sorts) ys → (∀ r, ys.filter (eqv (sortDataFn sorts) r) = rows.filter (eqv (sortDataFn sorts) r)) →
      ys = dataSort sorts rows) :=
  sortBy_spec (sortDataFn_isPre sorts) rows

example : dataSort [("a", true), ("b", false)] [[("a", .num 1), ("b", .num 2)], [("a", .num 2)], [("b", .num 1), ("a", .num 1)]] =
    [[("a", .num 2)], [("b", .num 1), ("a", .num 1)], [("a", .num 1), ("b", .num 2)]] := by
  have e4 : ¬ ((2 : Rat) < 1) := by decide
  have e5 : (1 : Rat) < 2 := by decide
  simp [dataSort, sortBy, insertBy, sortDataFn, rowGet, valueCompare, tri, *]

/-! ### mathMax / mathMin -/

/-- the fold of `_math_max` once the first argument has been taken -/
def pick (c : α → α → Int) (r : α) (vs : List α) : α := vs.foldl (fun r v => if c v r > 0 then v else r) r

/-- `r` is a greatest element of `pre`, and the first such -/
def FirstBest (c : α → α → Int) (pre : List α) (r : α) : Prop :=
  ∃ i, pre[i]? = some r ∧ (∀ w ∈ pre, c w r ≤ 0) ∧ (∀ w ∈ pre.take i, c w r < 0)

theorem pick_spec {α : Type} {c : α → α → Int} (h : IsPre c) : ∀ (vs pre : List α) (r : α),
    FirstBest c pre r → FirstBest c (pre ++ vs) (pick c r vs)
  | [], pre, r, hb => by simpa [pick] using hb
  | v :: vs, pre, r, ⟨i, hi, hall, hbefore⟩ => by
    have hlt : i < pre.length := by
      have ⟨hlt, _⟩ := List.getElem?_eq_some_iff.mp hi; exact hlt
    have step : FirstBest c (pre ++ [v]) (if c v r > 0 then v else r) := by
      by_cases hv : c v r > 0
      · simp only [hv, if_true]
        refine ⟨pre.length, by simp, fun w hw => ?_, fun w hw => ?_⟩
        · rcases List.mem_append.mp hw with hw | hw
          · have := h.antisymm v r
            exact Int.le_of_lt (h.le_lt (hall w hw) (by omega))
          · have : w = v := by simpa using hw
            rw [this, h.refl]; omega
        · rw [List.take_left] at hw
          have := h.antisymm v r
          exact h.le_lt (hall w hw) (by omega)
      · simp only [hv, if_false]
        refine ⟨i, by rw [List.getElem?_append_left hlt]; exact hi, fun w hw => ?_, fun w hw => ?_⟩
        · rcases List.mem_append.mp hw with hw | hw
          · exact hall w hw
          · have : w = v := by simpa using hw
            rw [this]; omega
        · rw [List.take_append_of_le_length (Nat.le_of_lt hlt)] at hw
          exact hbefore w hw
    have := pick_spec h vs (pre ++ [v]) _ step
    simpa [pick] using this

theorem foldl_maxStep (r : PValue) (vs : List PValue) :
    (vs.foldl maxStep (r, false)).1 = pick valueCompare r vs := by
  induction vs generalizing r with
  | nil => rfl
  | cons v vs ih =>
    simp only [List.foldl_cons, pick]
    by_cases hv : valueCompare v r > 0
    · simp only [maxStep, hv, if_true, Bool.false_eq_true, if_false]; exact ih v
    · simp only [maxStep, hv, if_false, Bool.false_eq_true]; exact ih r

theorem foldl_minStep (r : PValue) (vs : List PValue) :
    (vs.foldl minStep (r, false)).1 = pick (fun a b => valueCompare b a) r vs := by
  induction vs generalizing r with
  | nil => rfl
  | cons v vs ih =>
    have := cmp_antisymm v r
    simp only [List.foldl_cons, pick]
    by_cases hv : valueCompare v r < 0
    · have hv' : valueCompare r v > 0 := by omega
      simp only [minStep, hv, hv', if_true, Bool.false_eq_true, if_false]; exact ih v
    · have hv' : ¬ valueCompare r v > 0 := by omega
      simp only [minStep, hv, hv', if_false, Bool.false_eq_true]; exact ih r

/-- `mathMax` returns a greatest argument — the *first* one among equals — and `mathMin` a least one, the first among
equals; with no arguments both return null. Arguments may be of any type (null included: it is simply the least value). -/
theorem min_max_spec (values : List PValue) :
    (values = [] → mathMax values = .null ∧ mathMin values = .null) ∧
    (values ≠ [] →
      (∃ i, values[i]? = some (mathMax values) ∧ (∀ w ∈ values, valueCompare w (mathMax values) ≤ 0) ∧
            (∀ w ∈ values.take i, valueCompare w (mathMax values) < 0)) ∧
      (∃ i, values[i]? = some (mathMin values) ∧ (∀ w ∈ values, valueCompare (mathMin values) w ≤ 0) ∧
            (∀ w ∈ values.take i, valueCompare (mathMin values) w < 0))) := by
  refine ⟨fun h => by subst h; exact ⟨rfl, rfl⟩, fun h => ?_⟩
  match values, h with
  | v :: vs, _ =>
    have hmax : mathMax (v :: vs) = pick valueCompare v vs := by
      simp only [mathMax, List.foldl_cons, maxStep, if_true]; exact foldl_maxStep v vs
    have hmin : mathMin (v :: vs) = pick (fun a b => valueCompare b a) v vs := by
      simp only [mathMin, List.foldl_cons, minStep, if_true]; exact foldl_minStep v vs
    have base : ∀ c : PValue → PValue → Int, IsPre c → FirstBest c [v] v := fun c hc =>
      ⟨0, rfl, fun w hw => by have : w = v := by simpa using hw
                              rw [this, hc.refl]; omega, fun w hw => by simp at hw⟩
    have h1 := pick_spec valueCompare_isPre vs [v] v (base _ valueCompare_isPre)
    have h2 := pick_spec valueCompare_isPre.flip vs [v] v (base _ valueCompare_isPre.flip)
    rw [hmax, hmin]
    exact ⟨h1, h2⟩

example : mathMax [.num 1, .str "a", .null, .str "a"] = .str "a" ∧ mathMin [.num 1, .str "a", .null] = .null ∧
    mathMax [] = .null := by
  have e2 : strCompare "string" "number" = 1 := by decide
  have e3 : strCompare "a" "a" = 0 := by decide
  simp [mathMax, mathMin, maxStep, minStep, valueCompare, typeName, *]

/-! ### arrayIndexOf / arrayLastIndexOf -/

theorem scanFrom_spec (v : PValue) : ∀ (xs : List PValue) (ix : Nat),
    (scanFrom v ix xs = -1 ∧ ∀ x ∈ xs, valueCompare x v ≠ 0) ∨
    (∃ k x, scanFrom v ix xs = ((ix + k : Nat) : Int) ∧ xs[k]? = some x ∧ valueCompare x v = 0 ∧
      ∀ j y, j < k → xs[j]? = some y → valueCompare y v ≠ 0)
  | [], ix => by simp [scanFrom]
  | x :: xs, ix => by
    by_cases hx : valueCompare x v = 0
    · right; exact ⟨0, x, by simp [scanFrom, hx], rfl, hx, fun j y hj => by omega⟩
    · rcases scanFrom_spec v xs (ix + 1) with ⟨h1, h2⟩ | ⟨k, y, h1, h2, h3, h4⟩
      · left; refine ⟨by simp [scanFrom, hx, h1], fun w hw => ?_⟩
        rcases List.mem_cons.mp hw with rfl | hw
        · exact hx
        · exact h2 w hw
      · right
        refine ⟨k + 1, y, by simp [scanFrom, hx, h1]; omega, by simpa using h2, h3, fun j w hj hw => ?_⟩
        cases j with
        | zero => simp at hw; rw [← hw]; exact hx
        | succ j => exact h4 j w (by omega) (by simpa using hw)

/-- `arrayIndexOf(array, value, index)` with a value needle returns the first position `k ≥ index` whose element
compares equal to the needle, and -1 when there is none (in particular when `index` is past the end). A function needle
is not a value search (`none`). -/
theorem indexOf_first (xs : List PValue) (v : PValue) (index : Nat) :
    ((∃ id, v = .fn id) ↔ arrayIndexOf xs v index = none) ∧
    ∀ r, arrayIndexOf xs v index = some r →
      (r = -1 ∧ ∀ j x, index ≤ j → xs[j]? = some x → valueCompare x v ≠ 0) ∨
      (∃ (k : Nat) (x : PValue), r = (k : Int) ∧ index ≤ k ∧ xs[k]? = some x ∧ valueCompare x v = 0 ∧
        ∀ j y, index ≤ j → j < k → xs[j]? = some y → valueCompare y v ≠ 0) := by
  constructor
  · cases v <;> simp [arrayIndexOf]
  · intro r hr
    have hr' : r = if index ≥ xs.length then -1 else scanFrom v index (xs.drop index) := by
      cases v <;> simp [arrayIndexOf] at hr <;> omega
    by_cases hlen : index ≥ xs.length
    · left
      refine ⟨by simp [hr', hlen], fun j x hj hx => ?_⟩
      have ⟨hlt, _⟩ := List.getElem?_eq_some_iff.mp hx
      omega
    · simp only [hlen, if_false] at hr'
      rcases scanFrom_spec v (xs.drop index) index with ⟨h1, h2⟩ | ⟨k, x, h1, h2, h3, h4⟩
      · left
        refine ⟨by rw [hr', h1], fun j x hj hx => h2 x ?_⟩
        have : (xs.drop index)[j - index]? = some x := by
          rw [List.getElem?_drop]; rw [← hx]; congr 1; omega
        exact List.mem_of_getElem? this
      · right
        refine ⟨index + k, x, by rw [hr', h1], by omega, by rw [← h2, List.getElem?_drop], h3, fun j y hj hjk hy => ?_⟩
        refine h4 (j - index) y (by omega) ?_
        rw [List.getElem?_drop, ← hy]; congr 1; omega

example : arrayIndexOf [.num 1, .str "x", .num 1] (.num 1) 1 = some 2 ∧ arrayIndexOf [.num 1] (.num 1) 1 = some (-1) ∧
    arrayIndexOf [.fn 0] (.fn 0) = none := by
  have e1 : strCompare "string" "number" = 1 := by decide
  simp [arrayIndexOf, scanFrom, valueCompare, tri, typeName, *]

theorem scanDown_spec (v : PValue) : ∀ (rev : List PValue) (ix : Nat),
    (scanDown v ix rev = -1 ∧ ∀ x ∈ rev, valueCompare x v ≠ 0) ∨
    (∃ k x, scanDown v ix rev = ((ix - k : Nat) : Int) ∧ rev[k]? = some x ∧ valueCompare x v = 0 ∧
      ∀ j y, j < k → rev[j]? = some y → valueCompare y v ≠ 0)
  | [], ix => by simp [scanDown]
  | x :: xs, ix => by
    by_cases hx : valueCompare x v = 0
    · right; exact ⟨0, x, by simp [scanDown, hx], rfl, hx, fun j y hj => by omega⟩
    · rcases scanDown_spec v xs (ix - 1) with ⟨h1, h2⟩ | ⟨k, y, h1, h2, h3, h4⟩
      · left; refine ⟨by simp [scanDown, hx, h1], fun w hw => ?_⟩
        rcases List.mem_cons.mp hw with rfl | hw
        · exact hx
        · exact h2 w hw
      · right
        refine ⟨k + 1, y, ?_, by simpa using h2, h3, fun j w hj hw => ?_⟩
        · simp only [scanDown, hx, beq_iff_eq, if_false, h1]
          congr 1; omega
        · cases j with
          | zero => simp at hw; rw [← hw]; exact hx
          | succ j => exact h4 j w (by omega) (by simpa using hw)

theorem rev_take_get (xs : List PValue) (s k : Nat) (hs : s < xs.length) (hk : k ≤ s) :
    (xs.take (s + 1)).reverse[k]? = xs[s - k]? := by
  have hl : (xs.take (s + 1)).length = s + 1 := by rw [List.length_take]; omega
  rw [List.getElem?_reverse (by omega), hl, List.getElem?_take]
  have : s + 1 - 1 - k < s + 1 := by omega
  simp only [this, if_true]
  congr 1

/-- the scan from position `s < len` downwards -/
theorem scanDown_take (xs : List PValue) (v : PValue) (s : Nat) (hs : s < xs.length) :
    (scanDown v s (xs.take (s + 1)).reverse = -1 ∧ ∀ j x, j ≤ s → xs[j]? = some x → valueCompare x v ≠ 0) ∨
    (∃ (k : Nat) (x : PValue), scanDown v s (xs.take (s + 1)).reverse = (k : Int) ∧ k ≤ s ∧ xs[k]? = some x ∧ valueCompare x v = 0 ∧
      ∀ j y, k < j → j ≤ s → xs[j]? = some y → valueCompare y v ≠ 0) := by
  have hl : (xs.take (s + 1)).reverse.length = s + 1 := by rw [List.length_reverse, List.length_take]; omega
  rcases scanDown_spec v (xs.take (s + 1)).reverse s with ⟨h1, h2⟩ | ⟨k, x, h1, h2, h3, h4⟩
  · left
    refine ⟨h1, fun j x hj hx => h2 x ?_⟩
    have := rev_take_get xs s (s - j) hs (by omega)
    rw [show s - (s - j) = j by omega, hx] at this
    exact List.mem_of_getElem? this
  · right
    have hk : k ≤ s := by
      have ⟨hlt, _⟩ := List.getElem?_eq_some_iff.mp h2
      omega
    refine ⟨s - k, x, h1, by omega, by rw [← rev_take_get xs s k hs hk]; exact h2, h3, fun j y hj hjs hy => ?_⟩
    refine h4 (s - j) y (by omega) ?_
    rw [rev_take_get xs s (s - j) hs (by omega), show s - (s - j) = j by omega]; exact hy

/-- `arrayLastIndexOf(array, value, index)` with a value needle returns the last position `k ≤ index` (default: the last
position of the array) whose element compares equal to the needle, and -1 when there is none; an `index` past the end is
the argument error whose value is -1. -/
theorem lastIndexOf_last (xs : List PValue) (v : PValue) (index : Option Nat) :
    ((∃ id, v = .fn id) ↔ arrayLastIndexOf xs v index = none) ∧
    ∀ r, arrayLastIndexOf xs v index = some r →
      ((∃ i, index = some i ∧ i ≥ xs.length) ∧ r = -1) ∨
      (r = -1 ∧ ∀ j x, j ≤ index.getD (xs.length - 1) → xs[j]? = some x → valueCompare x v ≠ 0) ∨
      (∃ (k : Nat) (x : PValue), r = (k : Int) ∧ k ≤ index.getD (xs.length - 1) ∧ xs[k]? = some x ∧ valueCompare x v = 0 ∧
        ∀ j y, k < j → j ≤ index.getD (xs.length - 1) → xs[j]? = some y → valueCompare y v ≠ 0) := by
  constructor
  · cases v <;> cases index <;> simp [arrayLastIndexOf]
  · intro r hr
    have hr' : r = match index with
        | none => scanDown v (xs.length - 1) xs.reverse
        | some i => if i ≥ xs.length then -1 else scanDown v i (xs.take (i + 1)).reverse := by
      cases v <;> cases index <;> simp [arrayLastIndexOf] at hr <;> simp [hr]
    cases index with
    | some i =>
      simp only at hr'
      by_cases hi : i ≥ xs.length
      · left; exact ⟨⟨i, rfl, hi⟩, by simp [hr', hi]⟩
      · right
        simp only [hi, if_false] at hr'
        simpa [hr'] using scanDown_take xs v i (by omega)
    | none =>
      simp only at hr'
      right
      cases hxs : xs with
      | nil => left; subst hxs; simp [hr', scanDown]
      | cons y ys =>
        rw [← hxs]
        have hlen : xs.length - 1 < xs.length := by rw [hxs]; simp
        have ht : xs.take (xs.length - 1 + 1) = xs := by
          rw [show xs.length - 1 + 1 = xs.length by omega, List.take_length]
        have := scanDown_take xs v (xs.length - 1) hlen
        rw [ht] at this
        simpa [hr'] using this

example : arrayLastIndexOf [.num 1, .str "x", .num 1, .null] (.num 1) = some 2 ∧
    arrayLastIndexOf [.num 1, .str "x", .num 1] (.num 1) (some 1) = some 0 ∧ arrayLastIndexOf [] (.num 1) = some (-1) := by
  have e1 : strCompare "string" "number" = 1 := by decide
  simp [arrayLastIndexOf, scanDown, valueCompare, tri, typeName, *]

end C11
