import BareProofs.C17Lemmas
import BareModel.Include
import BareModel.Gen.Regex

/-!
# C17 — includes resolve relative to the including file and run in global scope

Resolution (`url_file_relative`, all strings):

* `url_regex_source`            the pattern the hand-written URL test mirrors is the one in options.py (generated table)
* `resolve_matches_spec`, `resolve_spec_partial`   Python-shaped resolver = property-shaped resolver, on every pair of
  strings (`_partial`: `pathlib`/`posixpath` are modelled for CPython 3.12 on POSIX only)
* `resolve_url`, `resolve_abs`, `resolve_abs_clean`, `resolve_rel_url_base`, `resolve_rel_path_base`,
  `resolve_rel_path_base_clean`  the readings of the property, case by case
* `resolve_system`              system includes use the configured prefix, plain includes never do

Include machine (every file map, every tree: unbounded depth and fan-out, cycles included; induction on gas and lists):

* `run_spec`                    the event sequence (fetch requests and executed statements, interleaved) of a run that did
  not exhaust a budget is the depth-first program-order sequence of the tree, cut at the first location that cannot be
  loaded, and the outcome is the one that location dictates
* `include_fetch_order`, `include_fetch_prefix`   the fetch trace is `expectedFetches` (a prefix of it when the run failed)
* `include_global_scope`        the final global state is the effects of all executed statements, of all files, in trace order
* `includer_continues`, `return_ends_only_include`  after an include (whether or not the included script returned) the next
  statement of the includer runs, from the state the included script left; what follows a `return` never runs
* `urlfn_restored`              the options a script hands back have the `urlFn` it was started with, whatever happened inside
* `include_errors`, `include_error_step`, `no_fetch_fn`   failures name the *resolved* location; nothing runs after them
* `gas_stable`                  results do not depend on the gas once it suffices
-/

namespace C17
open Url Include

/-- options.py still says `_R_URL = re.compile(r'^[a-z]+:')` (table regenerated from the working tree on every run) -/
theorem url_regex_source :
    Gen.regexes.find? (fun r => r.1 == "options._R_URL") = some ("options._R_URL", "^[a-z]+:", 32) := by decide

/-! ## resolution -/

/-- **resolve_spec** (`_partial`: POSIX model of `pathlib.Path.__str__`, `os.path.dirname`, `os.path.join`).
Full statement intended by the property: for the host's path flavour; what is missing: the Windows flavour
(`\` separators, drives, UNC roots), which the model does not cover. -/
theorem resolve_spec_partial (file url : String) : urlFileRelative file url = resolveSpec file url := by
  simp [urlFileRelative, resolveSpec, resolve_matches_spec]

example : urlFileRelative "http://h/a/b.bare" "c/d.bare" = "http://h/a/c/d.bare" := by decide
example : urlFileRelative "/r/x/m.bare" "./c//d.bare" = "/r/x/c/d.bare" := by decide

theorem not_isUrl_slash (r : Str) : ¬ IsUrl ('/' :: r) := by
  rintro ⟨scheme, rest, h, hne, hall⟩
  cases scheme with
  | nil => exact hne rfl
  | cons c cs =>
    simp only [List.cons_append, List.cons.injEq] at h
    have := hall c (List.mem_cons_self ..)
    rw [← h.1] at this
    simp [isLowerAscii] at this

/-- a URL reference is returned unchanged, whatever the including file is -/
theorem resolve_url (file url : Str) (h : IsUrl url) : urlFileRelativeL file url = url := by
  rw [resolve_matches_spec]; simp [resolveSpecL, h]

example : IsUrl "https://o/q.bare?z=1".toList := by decide
example : ¬ IsUrl "HTTP://O/q.bare".toList := by decide

/-- an absolute path does not depend on the including file: it is put in pathlib's normal form -/
theorem resolve_abs (file r : Str) : urlFileRelativeL file ('/' :: r) = normAbs ('/' :: r) := by
  rw [resolve_matches_spec]; simp [resolveSpecL, not_isUrl_slash]

example : urlFileRelativeL "http://h/a/b".toList "//p/./q//".toList = "//p/q".toList := by decide

/-- an absolute path already in normal form is returned unchanged -/
theorem resolve_abs_clean (file r : Str) (h : CleanRel r) : urlFileRelativeL file ('/' :: r) = '/' :: r := by
  rw [resolve_abs]
  have hh := cleanRel_head h
  cases r with
  | nil => simp [CleanRel, splitSlash, realSeg] at h
  | cons c cs =>
    have hc : (c == '/') = false := by simpa using hh
    have e1 : ('/' :: c :: cs).takeWhile (· == '/') = ['/'] := by simp [List.takeWhile, hc]
    have e2 : ('/' :: c :: cs).dropWhile (· == '/') = c :: cs := by simp [List.dropWhile, hc]
    simp only [normAbs, e1, e2, segments_clean h, join_split]
    simp

example : CleanRel "abs/d.e/my file.bare".toList := by decide

/-- relative reference, URL base: everything of the base up to its last `/`, then the reference verbatim -/
theorem resolve_rel_url_base (d name url : Str) (hu : ¬ IsUrl url) (hh : url.head? ≠ some '/')
    (hf : IsUrl (d ++ '/' :: name)) (hn : '/' ∉ name) :
    urlFileRelativeL (d ++ '/' :: name) url = d ++ '/' :: url := by
  rw [resolve_matches_spec]; simp [resolveSpecL, hu, hh, hf, dirPart_append_slash d name hn]

example : urlFileRelativeL "http://h/a/b.bare?x=1".toList "../c/./d.bare".toList = "http://h/a/../c/./d.bare".toList := by decide

/-- relative reference, path base: the directory of the base joined with the normalised reference -/
theorem resolve_rel_path_base (file url : Str) (hu : ¬ IsUrl url) (hh : url.head? ≠ some '/') (hf : ¬ IsUrl file) :
    urlFileRelativeL file url = joinDir (dirSpec file) (normRel url) := by
  rw [resolve_matches_spec]; simp [resolveSpecL, hu, hh, hf]

theorem dirSpec_append_slash (d name : Str) (hn : '/' ∉ name) (hd : d ≠ []) (hl : d.getLast? ≠ some '/') :
    dirSpec (d ++ '/' :: name) = d := by
  obtain ⟨l, t, hr⟩ : ∃ l t, d.reverse = l :: t := by
    cases h : d.reverse with
    | nil => exact absurd (List.reverse_eq_nil_iff.mp h) hd
    | cons l t => exact ⟨l, t, rfl⟩
  have hdeq : d = t.reverse ++ [l] := by
    have := congrArg List.reverse hr; simpa using this
  have hl' : l ≠ '/' := by
    intro e; apply hl; rw [hdeq]; simp [e]
  have hlb : (l == '/') = false := by simpa using hl'
  have hall : (d ++ ['/']).all (· == '/') = false := by
    rw [Bool.eq_false_iff]; intro ha
    rw [List.all_eq_true] at ha
    have := ha l (by rw [hdeq]; simp)
    simp [hlb] at this
  simp only [dirSpec, dirPart_append_slash d name hn, hall, Bool.false_eq_true, if_false, dropTrailingSlashes]
  simp [hr, List.dropWhile, hlb]
  have := congrArg List.reverse hr; simpa using this.symm

/-- relative reference in normal form, path base `d/name`: the result is `d/reference` -/
theorem resolve_rel_path_base_clean (d name url : Str) (hn : '/' ∉ name) (hd : d ≠ []) (hl : d.getLast? ≠ some '/')
    (hf : ¬ IsUrl (d ++ '/' :: name)) (hu : ¬ IsUrl url) (hc : CleanRel url) :
    urlFileRelativeL (d ++ '/' :: name) url = d ++ '/' :: url := by
  rw [resolve_rel_path_base _ _ hu (cleanRel_head hc) hf, dirSpec_append_slash d name hn hd hl, normRel_clean hc]
  simp [joinDir, hd, hl]

example : urlFileRelativeL "/r/sub dir/main.bare".toList "lib/x.bare".toList = "/r/sub dir/lib/x.bare".toList := by decide
example : urlFileRelativeL "main.bare".toList "lib/x.bare".toList = "lib/x.bare".toList := by decide
example : urlFileRelativeL "r/main.bare".toList "".toList = "r/.".toList := by decide

/-- **resolve_system**: a system include with a configured prefix resolves against the prefix and ignores the including
file; without a configured prefix it is treated like a plain include; a plain include never looks at the prefix. -/
theorem resolve_system (cfg : Config) (uf : UrlFn) (u : String) :
    (∀ p, cfg.systemPrefix = some p → resolveEntry cfg uf ⟨u, true⟩ = resolveSpec p u) ∧
    (cfg.systemPrefix = none → resolveEntry cfg uf ⟨u, true⟩ = applyUrlFn uf u) ∧
    resolveEntry cfg uf ⟨u, false⟩ = applyUrlFn uf u := by
  refine ⟨?_, ?_, ?_⟩
  · intro p hp; simp [resolveEntry, hp, resolve_spec_partial]
  · intro hp; simp [resolveEntry, hp]
  · simp [resolveEntry]

example : resolveEntry ⟨some ":bare-include:/", none, 0⟩ (.relativeTo "/r/m.bare") ⟨"args.bare", true⟩ = ":bare-include:/args.bare" := by
  decide

theorem resolveEntry_eq_spec (cfg : Config) (uf : UrlFn) (e : Entry) :
    resolveEntry cfg uf e = specLocation cfg (selfOf uf) e := by
  obtain ⟨u, sys⟩ := e
  cases sys <;> cases hp : cfg.systemPrefix <;> cases uf <;>
    simp [resolveEntry, specLocation, hp, applyUrlFn, selfOf, resolve_spec_partial]

/-! ## lists: cutting at the first failure -/

theorem cutAt_of_none {α} (p : α → Bool) : ∀ (l : List α), l.find? p = none → cutAt p l = l
  | [], _ => rfl
  | a :: l, h => by
    by_cases ha : p a = true
    · simp [List.find?, ha] at h
    · have ha' : p a = false := by simpa using ha
      simp only [List.find?, ha'] at h
      simp [cutAt, ha', cutAt_of_none p l h]

theorem cutAt_append_none {α} (p : α → Bool) (l₂ : List α) : ∀ (l : List α), l.find? p = none → cutAt p (l ++ l₂) = l ++ cutAt p l₂
  | [], _ => rfl
  | a :: l, h => by
    by_cases ha : p a = true
    · simp [List.find?, ha] at h
    · have ha' : p a = false := by simpa using ha
      simp only [List.find?, ha'] at h
      simp [cutAt, ha', cutAt_append_none p l₂ l h]

theorem cutAt_append_some {α} (p : α → Bool) (l₂ : List α) : ∀ (l : List α) (a : α), l.find? p = some a → cutAt p (l ++ l₂) = cutAt p l
  | [], _, h => by simp at h
  | b :: l, a, h => by
    by_cases hb : p b = true
    · simp [cutAt, hb]
    · have hb' : p b = false := by simpa using hb
      simp only [List.find?, hb'] at h
      simp [cutAt, hb', cutAt_append_some p l₂ l a h]

theorem cutAt_prefix {α} (p : α → Bool) : ∀ (l : List α), cutAt p l <+: l
  | [] => List.prefix_refl _
  | a :: l => by
    by_cases ha : p a = true
    · simp [cutAt, ha]
    · have ha' : p a = false := by simpa using ha
      simp only [cutAt, ha', Bool.false_eq_true, if_false]
      exact (List.prefix_cons_inj a).mpr (cutAt_prefix p l)

theorem cutAt_of_some {α} (p : α → Bool) : ∀ (l : List α) (a : α), l.find? p = some a →
    ∃ pre post, l = pre ++ a :: post ∧ (∀ x ∈ pre, p x = false) ∧ cutAt p l = pre ++ [a]
  | [], _, h => by simp at h
  | b :: l, a, h => by
    by_cases hb : p b = true
    · simp only [List.find?, hb, Option.some.injEq] at h
      subst h
      exact ⟨[], l, rfl, by simp, by simp [cutAt, hb]⟩
    · have hb' : p b = false := by simpa using hb
      simp only [List.find?, hb'] at h
      obtain ⟨pre, post, h1, h2, h3⟩ := cutAt_of_some p l a h
      refine ⟨b :: pre, post, by simp [h1], ?_, by simp [cutAt, hb', h3]⟩
      intro x hx
      rcases List.mem_cons.mp hx with rfl | hx
      · exact hb'
      · exact h2 x hx

theorem specOutcome_ok (fs : String → File) (E : List Event) (h : specOutcome fs E = .ok) : E.find? (failing fs) = none := by
  unfold specOutcome at h
  cases hf : E.find? (failing fs) with
  | none => rfl
  | some ev =>
    have hp := List.find?_some hf
    cases ev with
    | exec t => simp [failing] at hp
    | fetch u =>
      simp only [hf] at h
      cases hu : fs u <;> simp [hu] at h

theorem specOutcome_of_none (fs : String → File) (E : List Event) (h : E.find? (failing fs) = none) : specOutcome fs E = .ok := by
  simp [specOutcome, h]

theorem specOutcome_append_none (fs : String → File) (E F : List Event) (h : E.find? (failing fs) = none) :
    specOutcome fs (E ++ F) = specOutcome fs F := by
  simp [specOutcome, List.find?_append, h]

theorem specOutcome_append_some (fs : String → File) (E F : List Event) (a : Event) (h : E.find? (failing fs) = some a) :
    specOutcome fs (E ++ F) = specOutcome fs E := by
  simp [specOutcome, List.find?_append, h]

theorem find_of_not_ok (fs : String → File) (E : List Event) (h : specOutcome fs E ≠ .ok) : ∃ a, E.find? (failing fs) = some a := by
  cases hf : E.find? (failing fs) with
  | none => exact absurd (specOutcome_of_none fs E hf) h
  | some a => exact ⟨a, rfl⟩

@[simp] theorem tagsOf_nil : tagsOf [] = [] := rfl
@[simp] theorem tagsOf_fetch (u : String) (l : List Event) : tagsOf (.fetch u :: l) = tagsOf l := rfl
@[simp] theorem tagsOf_exec (t : String) (l : List Event) : tagsOf (.exec t :: l) = t :: tagsOf l := rfl
@[simp] theorem tagsOf_append (a b : List Event) : tagsOf (a ++ b) = tagsOf a ++ tagsOf b := by simp [tagsOf]

/-! ## the include machine -/

section
variable {σ : Type} (cfg : Config) (eff : String → σ → σ)

/-- the run was cut short by a budget (statement budget of the implementation, or the gas of the model) -/
def Budget (o : Outcome) : Prop := o = .exceeded ∨ o = .outOfGas

/-! ### `urlFn` is an invariant of the options a script hands back -/

theorem runEntries_urlFn (rec : Options → Script → σ → Res σ) :
    ∀ (es : List Entry) (o : Options) (s : σ), (runEntries cfg rec o es s).opts.urlFn = o.urlFn
  | [], o, s => rfl
  | e :: es, o, s => by
    simp only [runEntries]
    cases hf : cfg.fetch with
    | none => rfl
    | some fs =>
      simp only []
      cases hfile : fs (resolveEntry cfg o.urlFn e) with
      | missing => rfl
      | throws => rfl
      | broken => rfl
      | text sc =>
        simp only []
        cases hout : (rec { o with urlFn := .relativeTo (resolveEntry cfg o.urlFn e) } sc s).outcome <;> simp only []
        exact runEntries_urlFn rec es _ _

theorem runItems_urlFn (rec : Options → Script → σ → Res σ) :
    ∀ (sc : Script) (o : Options) (s : σ), (runItems cfg eff rec o sc s).opts.urlFn = o.urlFn
  | [], o, s => rfl
  | it :: rest, o, s => by
    simp only [runItems]
    split
    · rfl
    · cases it with
      | ret => rfl
      | nop => exact runItems_urlFn rec rest _ _
      | stmt t => exact runItems_urlFn rec rest _ _
      | inc es =>
        simp only []
        have h1 := runEntries_urlFn cfg rec es { o with statementCount := o.statementCount + 1 } s
        cases hout : (runEntries cfg rec { o with statementCount := o.statementCount + 1 } es s).outcome <;> simp only [] <;>
          first
          | exact h1
          | (rw [runItems_urlFn rec rest]; exact h1)

/-- **urlfn_restored**: whatever a script includes, and however it ends (normally, by `return`, with an error, on a
budget), the options it hands back resolve exactly as the options it was started with: resolution depends only on the
file the statement is written in. -/
theorem urlfn_restored (g : Nat) (o : Options) (sc : Script) (s : σ) :
    (runScript cfg eff g o sc s).opts.urlFn = o.urlFn := by
  cases g with
  | zero => rfl
  | succ g => exact runItems_urlFn cfg eff _ sc o s

/-! ### one global state -/

def StateOK (rec : Options → Script → σ → Res σ) : Prop :=
  ∀ o sc s, (rec o sc s).state = (tagsOf (rec o sc s).trace).foldl (fun s t => eff t s) s

theorem runEntries_state (rec : Options → Script → σ → Res σ) (hrec : StateOK eff rec) :
    ∀ (es : List Entry) (o : Options) (s : σ),
      (runEntries cfg rec o es s).state = (tagsOf (runEntries cfg rec o es s).trace).foldl (fun s t => eff t s) s
  | [], o, s => rfl
  | e :: es, o, s => by
    simp only [runEntries]
    cases hf : cfg.fetch with
    | none => rfl
    | some fs =>
      simp only []
      cases hfile : fs (resolveEntry cfg o.urlFn e) with
      | missing => rfl
      | throws => rfl
      | broken => rfl
      | text sc =>
        simp only []
        have hr := hrec { o with urlFn := .relativeTo (resolveEntry cfg o.urlFn e) } sc s
        cases hout : (rec { o with urlFn := .relativeTo (resolveEntry cfg o.urlFn e) } sc s).outcome <;>
          simp only [tagsOf_fetch, tagsOf_append, List.foldl_append]
        · rw [runEntries_state rec hrec es, ← hr]
        all_goals exact hr

theorem runItems_state (rec : Options → Script → σ → Res σ) (hrec : StateOK eff rec) :
    ∀ (sc : Script) (o : Options) (s : σ),
      (runItems cfg eff rec o sc s).state = (tagsOf (runItems cfg eff rec o sc s).trace).foldl (fun s t => eff t s) s
  | [], o, s => rfl
  | it :: rest, o, s => by
    simp only [runItems]
    split
    · rfl
    · cases it with
      | ret => rfl
      | nop => exact runItems_state rec hrec rest _ _
      | stmt t => simp only [tagsOf_exec, List.foldl_cons]; exact runItems_state rec hrec rest _ _
      | inc es =>
        simp only []
        have h1 := runEntries_state cfg eff rec hrec es { o with statementCount := o.statementCount + 1 } s
        cases hout : (runEntries cfg rec { o with statementCount := o.statementCount + 1 } es s).outcome <;>
          simp only [tagsOf_append, List.foldl_append]
        · rw [runItems_state rec hrec rest, ← h1]
        all_goals exact h1

/-- **include_global_scope**: however deep the include tree, all statements of all files act on ONE state — the final
state is the effects of the executed statements applied, in trace order, to the initial global state (for every
statement semantics `eff`, every outcome). In particular what an included script assigns is what the includer sees. -/
theorem include_global_scope (g : Nat) (o : Options) (sc : Script) (s : σ) :
    (runScript cfg eff g o sc s).state = (tagsOf (runScript cfg eff g o sc s).trace).foldl (fun s t => eff t s) s := by
  induction g generalizing o sc s with
  | zero => rfl
  | succ g ih => exact runItems_state cfg eff _ (fun o sc s => ih o sc s) sc o s

/-! ### the trace is the tree, depth-first, in program order, cut at the first failure -/

/-- a result agrees with a specification event list (unless a budget cut the run) -/
def Agrees (fs : String → File) (r : Res σ) (E : List Event) : Prop :=
  ¬ Budget r.outcome → r.trace = cutAt (failing fs) E ∧ r.outcome = specOutcome fs E

theorem runEntries_spec (fs : String → File) (hf : cfg.fetch = some fs)
    (rec : Options → Script → σ → Res σ) (sub : Option String → Script → List Event)
    (hrec : ∀ o sc s, Agrees fs (rec o sc s) (sub (selfOf o.urlFn) sc)) :
    ∀ (es : List Entry) (o : Options) (s : σ),
      Agrees fs (runEntries cfg rec o es s) (entryEvents cfg fs sub (selfOf o.urlFn) es)
  | [], o, s => by intro _; simp [runEntries, entryEvents, cutAt, specOutcome]
  | e :: es, o, s => by
    have hu := resolveEntry_eq_spec cfg o.urlFn e
    simp only [runEntries, hf, entryEvents, ← hu]
    generalize resolveEntry cfg o.urlFn e = url
    cases hfile : fs url with
    | missing =>
      intro _
      simp [cutAt, failing, hfile, specOutcome]
    | throws =>
      intro _
      simp [cutAt, failing, hfile, specOutcome]
    | broken =>
      intro _
      simp [cutAt, failing, hfile, specOutcome]
    | text sc =>
      simp only []
      have hr := hrec { o with urlFn := .relativeTo url } sc s
      simp only [selfOf] at hr
      have hnf : failing fs (.fetch url) = false := by simp [failing, hfile]
      have ih := runEntries_spec fs hf rec sub hrec es
        { o with statementCount := (rec { o with urlFn := .relativeTo url } sc s).opts.statementCount }
        (rec { o with urlFn := .relativeTo url } sc s).state
      generalize rec { o with urlFn := .relativeTo url } sc s = r at hr ih
      generalize sub (some url) sc = N at hr
      cases hout : r.outcome with
      | ok =>
        simp only []
        intro hb
        obtain ⟨ht, ho⟩ := hr (by simp [Budget, hout])
        rw [hout] at ho
        have hnone := specOutcome_ok fs N ho.symm
        obtain ⟨ht2, ho2⟩ := ih hb
        refine ⟨?_, ?_⟩
        · simp only [List.cons_append, cutAt, hnf, Bool.false_eq_true, if_false]
          rw [cutAt_append_none _ _ N hnone, ht, cutAt_of_none _ N hnone, ht2]
        · rw [ho2]
          have : (Event.fetch url :: N).find? (failing fs) = none := by simp [List.find?, hnf, hnone]
          exact (specOutcome_append_none fs _ _ this).symm
      | includeFailed u =>
        simp only []
        intro hb
        obtain ⟨ht, ho⟩ := hr (by simp [Budget, hout])
        rw [hout] at ho
        obtain ⟨a, ha⟩ := find_of_not_ok fs N (by rw [← ho]; simp)
        have : (Event.fetch url :: N).find? (failing fs) = some a := by simp [List.find?, hnf, ha]
        refine ⟨?_, ?_⟩
        · rw [cutAt_append_some _ _ _ a this]; simp [cutAt, hnf, ht]
        · rw [specOutcome_append_some fs _ _ a this, ho]; simp [specOutcome, List.find?, hnf]
      | parseError u =>
        simp only []
        intro hb
        obtain ⟨ht, ho⟩ := hr (by simp [Budget, hout])
        rw [hout] at ho
        obtain ⟨a, ha⟩ := find_of_not_ok fs N (by rw [← ho]; simp)
        have : (Event.fetch url :: N).find? (failing fs) = some a := by simp [List.find?, hnf, ha]
        refine ⟨?_, ?_⟩
        · rw [cutAt_append_some _ _ _ a this]; simp [cutAt, hnf, ht]
        · rw [specOutcome_append_some fs _ _ a this, ho]; simp [specOutcome, List.find?, hnf]
      | exceeded => simp only []; intro hb; exact absurd (Or.inl rfl) hb
      | outOfGas => simp only []; intro hb; exact absurd (Or.inr rfl) hb

theorem runItems_spec (fs : String → File) (hf : cfg.fetch = some fs)
    (rec : Options → Script → σ → Res σ) (sub : Option String → Script → List Event)
    (hrec : ∀ o sc s, Agrees fs (rec o sc s) (sub (selfOf o.urlFn) sc)) :
    ∀ (sc : Script) (o : Options) (s : σ),
      Agrees fs (runItems cfg eff rec o sc s) (itemEvents cfg fs sub (selfOf o.urlFn) (live sc))
  | [], o, s => by intro _; simp [runItems, live, itemEvents, cutAt, specOutcome]
  | it :: rest, o, s => by
    simp only [runItems]
    split
    · intro hb; exact absurd (Or.inl rfl) hb
    · cases it with
      | ret => intro _; simp [live, itemEvents, cutAt, specOutcome]
      | nop =>
        have := runItems_spec fs hf rec sub hrec rest { o with statementCount := o.statementCount + 1 } s
        simpa [live, itemEvents] using this
      | stmt t =>
        have ih := runItems_spec fs hf rec sub hrec rest { o with statementCount := o.statementCount + 1 } (eff t s)
        intro hb
        obtain ⟨h1, h2⟩ := ih hb
        simp only [live, itemEvents]
        refine ⟨by simp [cutAt, failing, h1], ?_⟩
        rw [h2]; simp [specOutcome, List.find?, failing]
      | inc es =>
        simp only [live, itemEvents]
        have he := runEntries_spec cfg fs hf rec sub hrec es { o with statementCount := o.statementCount + 1 } s
        have hurl := runEntries_urlFn cfg rec es { o with statementCount := o.statementCount + 1 } s
        have ih := runItems_spec fs hf rec sub hrec rest
          (runEntries cfg rec { o with statementCount := o.statementCount + 1 } es s).opts
          (runEntries cfg rec { o with statementCount := o.statementCount + 1 } es s).state
        rw [hurl] at ih
        simp only [] at he ih
        generalize runEntries cfg rec { o with statementCount := o.statementCount + 1 } es s = r at he ih
        generalize entryEvents cfg fs sub (selfOf o.urlFn) es = EE at he
        cases hout : r.outcome with
        | ok =>
          simp only []
          intro hb
          obtain ⟨ht, ho⟩ := he (by simp [Budget, hout])
          rw [hout] at ho
          have hnone := specOutcome_ok fs EE ho.symm
          obtain ⟨ht2, ho2⟩ := ih hb
          exact ⟨by rw [cutAt_append_none _ _ EE hnone, ht, cutAt_of_none _ EE hnone, ht2],
                 by rw [ho2, specOutcome_append_none fs _ _ hnone]⟩
        | includeFailed u =>
          simp only []
          intro hb
          obtain ⟨ht, ho⟩ := he hb
          obtain ⟨a, ha⟩ := find_of_not_ok fs EE (by rw [← ho, hout]; simp)
          exact ⟨by rw [cutAt_append_some _ _ _ a ha, ht], by rw [specOutcome_append_some fs _ _ a ha, ho]⟩
        | parseError u =>
          simp only []
          intro hb
          obtain ⟨ht, ho⟩ := he hb
          obtain ⟨a, ha⟩ := find_of_not_ok fs EE (by rw [← ho, hout]; simp)
          exact ⟨by rw [cutAt_append_some _ _ _ a ha, ht], by rw [specOutcome_append_some fs _ _ a ha, ho]⟩
        | exceeded => simp only []; intro hb; exact absurd (Or.inl hout) hb
        | outOfGas => simp only []; intro hb; exact absurd (Or.inr hout) hb

/-- **run_spec**: for every configuration with a fetch function, every file map (cyclic or not), every script, every
statement semantics and every gas: if the run was not cut by a budget, then the sequence of fetch requests and executed
statements IS the depth-first, program-order sequence of the include tree (each entry resolved against the file that
contains it, once per entry) up to and including the first location that cannot be loaded, and the outcome is `ok` if
there is no such location, and otherwise the error naming that location. -/
theorem run_spec (fs : String → File) (hf : cfg.fetch = some fs) (g : Nat) (o : Options) (sc : Script) (s : σ) :
    (runScript cfg eff g o sc s).outcome ≠ .exceeded → (runScript cfg eff g o sc s).outcome ≠ .outOfGas →
    (runScript cfg eff g o sc s).trace = cutAt (failing fs) (expectedEvents cfg fs g (selfOf o.urlFn) sc) ∧
    (runScript cfg eff g o sc s).outcome = specOutcome fs (expectedEvents cfg fs g (selfOf o.urlFn) sc) := by
  have key : ∀ g o sc (s : σ), Agrees fs (runScript cfg eff g o sc s) (expectedEvents cfg fs g (selfOf o.urlFn) sc) := by
    intro g
    induction g with
    | zero => intro o sc s hb; exact absurd (Or.inr rfl) hb
    | succ g ih => intro o sc s; exact runItems_spec cfg eff fs hf _ _ ih sc o s
  intro h1 h2
  exact key g o sc s (by rintro (h | h) <;> contradiction)

/-- **include_fetch_order**: a run that completes has asked `fetchFn` for exactly the locations of the tree, depth-first,
in program order, once per include entry, each resolved against its including file. -/
theorem include_fetch_order (fs : String → File) (hf : cfg.fetch = some fs) (g : Nat) (o : Options) (sc : Script) (s : σ)
    (hok : (runScript cfg eff g o sc s).outcome = .ok) :
    fetchesOf (runScript cfg eff g o sc s).trace = expectedFetches cfg fs g (selfOf o.urlFn) sc := by
  obtain ⟨ht, ho⟩ := run_spec cfg eff fs hf g o sc s (by simp [hok]) (by simp [hok])
  rw [hok] at ho
  rw [ht, cutAt_of_none _ _ (specOutcome_ok fs _ ho.symm)]; rfl

/-- a run that fails has asked for an initial part of them -/
theorem include_fetch_prefix (fs : String → File) (hf : cfg.fetch = some fs) (g : Nat) (o : Options) (sc : Script) (s : σ)
    (h1 : (runScript cfg eff g o sc s).outcome ≠ .exceeded) (h2 : (runScript cfg eff g o sc s).outcome ≠ .outOfGas) :
    fetchesOf (runScript cfg eff g o sc s).trace <+: expectedFetches cfg fs g (selfOf o.urlFn) sc := by
  obtain ⟨ht, _⟩ := run_spec cfg eff fs hf g o sc s h1 h2
  rw [ht]
  exact (cutAt_prefix _ _).filterMap _

/-- **include_errors**: if the run ends with `Include of "u" failed` (resp. a parser error `Included from "u"`), then `u`
is a *resolved* location of the tree (it occurs in the specification's event list), `fetchFn` returned nothing / raised
for it (resp. its text does not parse), it is the LAST thing that happened, nothing before it failed, and the whole
trace is an initial part of the tree's event list — nothing after the failure point ran. -/
theorem include_errors (fs : String → File) (hf : cfg.fetch = some fs) (g : Nat) (o : Options) (sc : Script) (s : σ) (u : String) :
    ((runScript cfg eff g o sc s).outcome = .includeFailed u → (fs u = .missing ∨ fs u = .throws) ∧
      ∃ pre post, expectedEvents cfg fs g (selfOf o.urlFn) sc = pre ++ .fetch u :: post ∧
        (runScript cfg eff g o sc s).trace = pre ++ [.fetch u] ∧ ∀ ev ∈ pre, failing fs ev = false) ∧
    ((runScript cfg eff g o sc s).outcome = .parseError u → fs u = .broken ∧
      ∃ pre post, expectedEvents cfg fs g (selfOf o.urlFn) sc = pre ++ .fetch u :: post ∧
        (runScript cfg eff g o sc s).trace = pre ++ [.fetch u] ∧ ∀ ev ∈ pre, failing fs ev = false) := by
  have main : ∀ out, (runScript cfg eff g o sc s).outcome = out → out ≠ .ok → out ≠ .exceeded → out ≠ .outOfGas →
      ∃ a, (expectedEvents cfg fs g (selfOf o.urlFn) sc).find? (failing fs) = some a ∧
        out = specOutcome fs (expectedEvents cfg fs g (selfOf o.urlFn) sc) ∧
        (runScript cfg eff g o sc s).trace = cutAt (failing fs) (expectedEvents cfg fs g (selfOf o.urlFn) sc) := by
    intro out hout h0 h1 h2
    obtain ⟨ht, ho⟩ := run_spec cfg eff fs hf g o sc s (by rw [hout]; exact h1) (by rw [hout]; exact h2)
    obtain ⟨a, ha⟩ := find_of_not_ok fs _ (by rw [← ho, hout]; exact h0)
    exact ⟨a, ha, by rw [← ho, hout], ht⟩
  constructor
  · intro hout
    obtain ⟨a, ha, ho, ht⟩ := main _ hout (by simp) (by simp) (by simp)
    have hp := List.find?_some ha
    obtain ⟨pre, post, h1, h2, h3⟩ := cutAt_of_some _ _ a ha
    cases a with
    | exec t => simp [failing] at hp
    | fetch v =>
      simp only [specOutcome, ha] at ho
      simp only [failing] at hp
      cases hv : fs v <;> simp [hv] at ho hp
      all_goals subst ho
      · exact ⟨Or.inl hv, pre, post, h1, by rw [ht, h3], h2⟩
      · exact ⟨Or.inr hv, pre, post, h1, by rw [ht, h3], h2⟩
  · intro hout
    obtain ⟨a, ha, ho, ht⟩ := main _ hout (by simp) (by simp) (by simp)
    have hp := List.find?_some ha
    obtain ⟨pre, post, h1, h2, h3⟩ := cutAt_of_some _ _ a ha
    cases a with
    | exec t => simp [failing] at hp
    | fetch v =>
      simp only [specOutcome, ha] at ho
      simp only [failing] at hp
      cases hv : fs v <;> simp [hv] at ho hp
      subst ho
      exact ⟨hv, pre, post, h1, by rw [ht, h3], h2⟩

/-- the statement budget lets the next statement start -/
def Room (o : Options) : Prop := ¬ (cfg.maxStatements > 0 ∧ o.statementCount + 1 > cfg.maxStatements)

theorem room_if (o : Options) (h : Room cfg o) :
    (decide (cfg.maxStatements > 0) && decide (o.statementCount + 1 > cfg.maxStatements)) = false := by
  unfold Room at h
  rw [Bool.eq_false_iff]; intro hc; apply h
  simpa using hc

/-- **include_error_step**: the first entry of an include statement whose *resolved* location cannot be fetched ends the
run there with that location in the error; text that does not parse likewise. Nothing else is fetched or executed. -/
theorem include_error_step (fs : String → File) (hf : cfg.fetch = some fs) (g : Nat) (o : Options) (e : Entry) (es : List Entry)
    (rest : Script) (s : σ) (hroom : Room cfg o) :
    (fs (resolveEntry cfg o.urlFn e) = .missing ∨ fs (resolveEntry cfg o.urlFn e) = .throws →
      (runScript cfg eff (g + 1) o (.inc (e :: es) :: rest) s).trace = [.fetch (resolveEntry cfg o.urlFn e)] ∧
      (runScript cfg eff (g + 1) o (.inc (e :: es) :: rest) s).state = s ∧
      (runScript cfg eff (g + 1) o (.inc (e :: es) :: rest) s).outcome = .includeFailed (resolveEntry cfg o.urlFn e)) ∧
    (fs (resolveEntry cfg o.urlFn e) = .broken →
      (runScript cfg eff (g + 1) o (.inc (e :: es) :: rest) s).trace = [.fetch (resolveEntry cfg o.urlFn e)] ∧
      (runScript cfg eff (g + 1) o (.inc (e :: es) :: rest) s).state = s ∧
      (runScript cfg eff (g + 1) o (.inc (e :: es) :: rest) s).outcome = .parseError (resolveEntry cfg o.urlFn e)) := by
  have hr := room_if cfg o hroom
  refine ⟨?_, ?_⟩
  · rintro (h | h) <;> simp [runScript, runItems, runEntries, hr, hf, h]
  · intro h; simp [runScript, runItems, runEntries, hr, hf, h]

/-- without a fetch function every include fails at once, naming the resolved location, and nothing is requested -/
theorem no_fetch_fn (hf : cfg.fetch = none) (g : Nat) (o : Options) (e : Entry) (es : List Entry) (rest : Script) (s : σ)
    (hroom : Room cfg o) :
    (runScript cfg eff (g + 1) o (.inc (e :: es) :: rest) s).trace = [] ∧
    (runScript cfg eff (g + 1) o (.inc (e :: es) :: rest) s).outcome = .includeFailed (resolveEntry cfg o.urlFn e) := by
  have hr := room_if cfg o hroom
  simp [runScript, runItems, runEntries, hr, hf]

/-- **includer_continues** (global scope, second half): when the script included by a one-entry include statement ends
normally — by running off its end or by `return`, the model does not distinguish them from outside — the includer goes
on with its next statement: from the state the included script left, with its OWN `urlFn`, and with the statement
counter the included script reached. The included script itself ran with `urlFn = relativeTo <resolved location>`. -/
theorem includer_continues (fs : String → File) (hf : cfg.fetch = some fs) (g : Nat) (o : Options) (e : Entry)
    (rest : Script) (s : σ) (sc : Script) (hroom : Room cfg o) (hfile : fs (resolveEntry cfg o.urlFn e) = .text sc)
    (hok : (runScript cfg eff g ⟨.relativeTo (resolveEntry cfg o.urlFn e), o.statementCount + 1⟩ sc s).outcome = .ok) :
    let url := resolveEntry cfg o.urlFn e
    let r := runScript cfg eff g ⟨.relativeTo url, o.statementCount + 1⟩ sc s
    let r2 := runScript cfg eff (g + 1) ⟨o.urlFn, r.opts.statementCount⟩ rest r.state
    (runScript cfg eff (g + 1) o (.inc [e] :: rest) s).trace = .fetch url :: r.trace ++ r2.trace ∧
    (runScript cfg eff (g + 1) o (.inc [e] :: rest) s).state = r2.state ∧
    (runScript cfg eff (g + 1) o (.inc [e] :: rest) s).opts = r2.opts ∧
    (runScript cfg eff (g + 1) o (.inc [e] :: rest) s).outcome = r2.outcome := by
  have hr := room_if cfg o hroom
  simp [runScript, runItems, runEntries, hr, hf, hfile, hok]

theorem runItems_ret (rec : Options → Script → σ → Res σ) (b : Script) :
    ∀ (a : Script) (o : Options) (s : σ), runItems cfg eff rec o (a ++ .ret :: b) s = runItems cfg eff rec o (a ++ [.ret]) s
  | [], o, s => by simp [runItems]
  | it :: a, o, s => by
    simp only [List.cons_append, runItems]
    split
    · rfl
    · cases it with
      | ret => rfl
      | nop => exact runItems_ret rec b a _ _
      | stmt t => simp only []; rw [runItems_ret rec b a]
      | inc es =>
        simp only []
        cases (runEntries cfg rec { o with statementCount := o.statementCount + 1 } es s).outcome <;> simp only []
        rw [runItems_ret rec b a]

/-- **return_ends_only_include**: what follows a `return` in a script is never run, fetched or counted — the script
behaves exactly as if it ended there; by `includer_continues` its includer goes on afterwards. -/
theorem return_ends_only_include (g : Nat) (o : Options) (a b : Script) (s : σ) :
    runScript cfg eff g o (a ++ .ret :: b) s = runScript cfg eff g o (a ++ [.ret]) s := by
  cases g with
  | zero => rfl
  | succ g => exact runItems_ret cfg eff _ b a o s

/-! ### gas -/

theorem runEntries_gas (rec rec' : Options → Script → σ → Res σ)
    (h : ∀ o sc s, (rec o sc s).outcome ≠ .outOfGas → rec' o sc s = rec o sc s) :
    ∀ (es : List Entry) (o : Options) (s : σ), (runEntries cfg rec o es s).outcome ≠ .outOfGas →
      runEntries cfg rec' o es s = runEntries cfg rec o es s
  | [], o, s, _ => rfl
  | e :: es, o, s, hne => by
    simp only [runEntries] at hne ⊢
    cases hf : cfg.fetch with
    | none => rfl
    | some fs =>
      simp only [hf] at hne ⊢
      cases hfile : fs (resolveEntry cfg o.urlFn e) with
      | missing => rfl
      | throws => rfl
      | broken => rfl
      | text sc =>
        simp only [hfile] at hne ⊢
        have hr := h { o with urlFn := .relativeTo (resolveEntry cfg o.urlFn e) } sc s
        cases hout : (rec { o with urlFn := .relativeTo (resolveEntry cfg o.urlFn e) } sc s).outcome with
        | outOfGas => simp [hout] at hne
        | ok =>
          rw [hr (by simp [hout])]
          simp only [hout] at hne ⊢
          rw [runEntries_gas rec rec' h es _ _ hne]
        | includeFailed u => rw [hr (by simp [hout])]; simp only [hout]
        | parseError u => rw [hr (by simp [hout])]; simp only [hout]
        | exceeded => rw [hr (by simp [hout])]; simp only [hout]

theorem runItems_gas (rec rec' : Options → Script → σ → Res σ)
    (h : ∀ o sc s, (rec o sc s).outcome ≠ .outOfGas → rec' o sc s = rec o sc s) :
    ∀ (sc : Script) (o : Options) (s : σ), (runItems cfg eff rec o sc s).outcome ≠ .outOfGas →
      runItems cfg eff rec' o sc s = runItems cfg eff rec o sc s
  | [], o, s, _ => rfl
  | it :: rest, o, s, hne => by
    simp only [runItems] at hne ⊢
    split
    · rfl
    · rename_i hroom
      simp only [hroom] at hne
      cases it with
      | ret => rfl
      | nop => exact runItems_gas rec rec' h rest _ _ hne
      | stmt t => simp only [] at hne ⊢; rw [runItems_gas rec rec' h rest _ _ hne]
      | inc es =>
        simp only [] at hne ⊢
        cases hout : (runEntries cfg rec { o with statementCount := o.statementCount + 1 } es s).outcome with
        | outOfGas => simp [hout] at hne
        | ok =>
          rw [runEntries_gas cfg rec rec' h es _ _ (by simp [hout])]
          simp only [hout] at hne ⊢
          rw [runItems_gas rec rec' h rest _ _ hne]
        | includeFailed u => rw [runEntries_gas cfg rec rec' h es _ _ (by simp [hout])]; simp only [hout]
        | parseError u => rw [runEntries_gas cfg rec rec' h es _ _ (by simp [hout])]; simp only [hout]
        | exceeded => rw [runEntries_gas cfg rec rec' h es _ _ (by simp [hout])]; simp only [hout]

/-- **gas_stable**: gas only bounds the include nesting the model is willing to follow; once a run does not end in
`outOfGas`, more gas changes nothing (so every statement above holds "for all sufficiently large gas"). -/
theorem gas_stable (g : Nat) (o : Options) (sc : Script) (s : σ) (h : (runScript cfg eff g o sc s).outcome ≠ .outOfGas) :
    runScript cfg eff (g + 1) o sc s = runScript cfg eff g o sc s := by
  induction g generalizing o sc s with
  | zero => simp [runScript] at h
  | succ g ih => exact runItems_gas cfg eff _ _ (fun o sc s h => ih o sc s h) sc o s h

end

/-! ## non-vacuity: a depth-3 tree mixing path and URL bases, a system include, a `return`, a broken file -/

def exFs : String → File := fun u =>
  if u = "/r/sub/a.bare" then .text [.stmt "a1", .inc [⟨"http://h/x/b.bare", false⟩, ⟨"../c.bare", false⟩], .ret, .stmt "never"]
  else if u = "http://h/x/b.bare" then .text [.stmt "b1", .inc [⟨"lib/d.bare", false⟩, ⟨"sys.bare", true⟩], .stmt "b2"]
  else if u = "http://h/x/lib/d.bare" then .text [.stmt "d1", .ret, .inc [⟨"never.bare", false⟩]]
  else if u = "/sys/sys.bare" then .text [.stmt "s1"]
  else if u = "/r/sub/../c.bare" then .text [.stmt "c1"]
  else if u = "/r/bad.bare" then .broken
  else .missing

def exCfg : Config := { systemPrefix := some "/sys/", fetch := some exFs, maxStatements := 1000 }

def exRoot : Script := [.stmt "m1", .inc [⟨"sub/a.bare", false⟩], .stmt "m2", .inc [⟨"bad.bare", false⟩, ⟨"x.bare", false⟩], .stmt "never"]

/-- the run: depth 3 (`main → a → b → d`), each reference resolved against ITS includer (path base, then URL base), the
system include against the prefix, `d` and `a` end by `return` and their includers go on, `bad.bare` stops everything. -/
example :
    let r := runLog exCfg 10 (.relativeTo "/r/main.bare") exRoot
    r.trace = [.exec "m1", .fetch "/r/sub/a.bare", .exec "a1", .fetch "http://h/x/b.bare", .exec "b1",
               .fetch "http://h/x/lib/d.bare", .exec "d1", .fetch "/sys/sys.bare", .exec "s1", .exec "b2",
               .fetch "/r/sub/../c.bare", .exec "c1", .exec "m2", .fetch "/r/bad.bare"] ∧
    r.state = ["m1", "a1", "b1", "d1", "s1", "b2", "c1", "m2"] ∧
    r.outcome = .parseError "/r/bad.bare" ∧ r.opts.urlFn = .relativeTo "/r/main.bare" := by decide

/-- the hypotheses of `run_spec` / `include_errors` hold for it, and the specification side computes the same -/
example : (runLog exCfg 10 (.relativeTo "/r/main.bare") exRoot).outcome ≠ .exceeded ∧
    (runLog exCfg 10 (.relativeTo "/r/main.bare") exRoot).outcome ≠ .outOfGas ∧
    cutAt (failing exFs) (expectedEvents exCfg exFs 10 (some "/r/main.bare") exRoot)
      = (runLog exCfg 10 (.relativeTo "/r/main.bare") exRoot).trace := by decide

/-- a run that completes (`include_fetch_order` is not vacuous) -/
example : (runLog exCfg 10 (.relativeTo "/r/main.bare") (exRoot.take 3)).outcome = .ok ∧
    expectedFetches exCfg exFs 10 (some "/r/main.bare") (exRoot.take 3)
      = ["/r/sub/a.bare", "http://h/x/b.bare", "http://h/x/lib/d.bare", "/sys/sys.bare", "/r/sub/../c.bare"] := by decide

/-- a missing file: the error names the resolved location -/
example : (runLog exCfg 10 (.relativeTo "http://h/x/y/main.bare") [.inc [⟨"../nope.bare", false⟩], .stmt "never"]).outcome
    = .includeFailed "http://h/x/y/../nope.bare" := by decide

/-- a file that includes itself runs into the statement budget, not into the gas -/
example : (runLog { systemPrefix := none, fetch := some (fun _ => .text [.stmt "x", .inc [⟨"self.bare", false⟩]]), maxStatements := 7 }
    10 .none [.inc [⟨"self.bare", false⟩]]).outcome = .exceeded := by decide

end C17
