import BareModel.Scope

/-!
# C04 — helper lemmas: insertion-ordered dictionaries (`Env`), library injection, parameter binding

Everything the property file `C04.lean` needs about `Env.get?/contains/set`, about `Scope.inject` and about the
equality of the mirror `Machine.bindArgs` (shaped like the loop of `_script_function`) with the spec `Scope.bindSpec`.
-/

open Machine Scope
namespace C04
variable {W : Type}

/-! ## `Env` as a dictionary -/

theorem get?_nil (n : Name) : Env.get? [] n = none := rfl

theorem get?_cons (k : Name) (x : Value) (e : Env) (n : Name) :
    Env.get? ((k, x) :: e) n = if k = n then some x else Env.get? e n := by
  unfold Env.get?
  by_cases h : k = n <;> simp [h]

theorem contains_cons (k : Name) (x : Value) (e : Env) (n : Name) :
    Env.contains ((k, x) :: e) n = (decide (k = n) || Env.contains e n) := by
  unfold Env.contains
  by_cases h : k = n <;> simp [h]

/-- `name in d` is `d.get(name)` being defined -/
theorem contains_eq_isSome (e : Env) (n : Name) : e.contains n = (e.get? n).isSome := by
  induction e with
  | nil => rfl
  | cons kv e ih =>
    obtain ⟨k, x⟩ := kv
    rw [contains_cons, get?_cons, ih]
    by_cases h : k = n <;> simp [h]

theorem contains_true_iff (e : Env) (n : Name) : e.contains n = true ↔ ∃ v, e.get? n = some v := by
  rw [contains_eq_isSome, Option.isSome_iff_exists]

theorem contains_false_iff (e : Env) (n : Name) : e.contains n = false ↔ e.get? n = none := by
  rw [contains_eq_isSome]; cases e.get? n <;> simp

theorem contains_iff_mem_keys (e : Env) (n : Name) : e.contains n = true ↔ n ∈ e.map (·.1) := by
  induction e with
  | nil => simp [Env.contains]
  | cons kv e ih =>
    obtain ⟨k, x⟩ := kv
    rw [contains_cons, Bool.or_eq_true, ih]
    simp only [decide_eq_true_eq, List.map_cons, List.mem_cons]
    exact ⟨fun h => h.imp Eq.symm id, fun h => h.imp Eq.symm id⟩

/-- `d[n] = v; d[n]` -/
theorem get?_set_same (e : Env) (n : Name) (v : Value) : (e.set n v).get? n = some v := by
  induction e with
  | nil => simp [Env.set, get?_cons]
  | cons kv e ih =>
    obtain ⟨k, x⟩ := kv
    unfold Env.set
    by_cases h : k = n
    · simp [h, get?_cons]
    · simp [h, get?_cons, ih]

/-- `d[n] = v` leaves every other key alone -/
theorem get?_set_other (e : Env) (n m : Name) (v : Value) (h : m ≠ n) : (e.set n v).get? m = e.get? m := by
  induction e with
  | nil => simp [Env.set, get?_cons, get?_nil, Ne.symm h]
  | cons kv e ih =>
    obtain ⟨k, x⟩ := kv
    unfold Env.set
    by_cases hk : k = n
    · subst hk
      simp [get?_cons, Ne.symm h]
    · simp only [beq_iff_eq, hk, if_false, get?_cons, ih]

theorem get?_set (e : Env) (n m : Name) (v : Value) : (e.set n v).get? m = if m = n then some v else e.get? m := by
  by_cases h : m = n
  · subst h; simp [get?_set_same]
  · simp [h, get?_set_other e n m v h]

theorem contains_set (e : Env) (n m : Name) (v : Value) :
    (e.set n v).contains m = (decide (m = n) || e.contains m) := by
  rw [contains_eq_isSome, contains_eq_isSome, get?_set]
  by_cases h : m = n <;> simp [h]

/-- the keys of `d` after `d[n] = v`: unchanged if `n` was bound, else `n` is appended (insertion order) -/
theorem keys_set (e : Env) (n : Name) (v : Value) :
    (e.set n v).map (·.1) = if e.contains n then e.map (·.1) else e.map (·.1) ++ [n] := by
  induction e with
  | nil => simp [Env.set, Env.contains]
  | cons kv e ih =>
    obtain ⟨k, x⟩ := kv
    unfold Env.set
    rw [contains_cons]
    by_cases hk : k = n
    · simp [hk]
    · simp only [beq_iff_eq, hk, if_false, List.map_cons, ih, decide_false, Bool.false_or]
      split <;> simp

theorem get?_append (a b : Env) (n : Name) : Env.get? (a ++ b) n = (Env.get? a n).or (Env.get? b n) := by
  induction a with
  | nil => simp [get?_nil]
  | cons kv a ih =>
    obtain ⟨k, x⟩ := kv
    rw [List.cons_append, get?_cons, get?_cons, ih]
    by_cases h : k = n <;> simp [h]

theorem contains_append (a b : Env) (n : Name) : Env.contains (a ++ b) n = (Env.contains a n || Env.contains b n) := by
  simp [Env.contains]

/-! ## library injection -/

theorem inject_nil (host : Env) : inject [] host = host := rfl

theorem inject_cons (kv : Name × Value) (lib : List (Name × Value)) (host : Env) :
    inject (kv :: lib) host = inject lib (if host.contains kv.1 then host else host ++ [kv]) := rfl

/-- the dictionary after injection: the host's binding if there is one, else the library's (first) binding -/
theorem inject_get? (lib : List (Name × Value)) (host : Env) (k : Name) :
    (inject lib host).get? k = (host.get? k).or (Env.get? lib k) := by
  induction lib generalizing host with
  | nil => simp [inject_nil, get?_nil]
  | cons kv lib ih =>
    obtain ⟨n, x⟩ := kv
    rw [inject_cons, ih, get?_cons]
    by_cases hc : host.contains n = true
    · simp only [hc, if_true]
      by_cases hn : n = k
      · subst hn
        obtain ⟨v, hv⟩ := (contains_true_iff host n).1 hc
        simp [hv]
      · simp [hn]
    · have hc' : host.contains n = false := by simpa using hc
      simp only [hc', Bool.false_eq_true, if_false, get?_append, get?_cons, get?_nil]
      by_cases hn : n = k
      · subst hn
        rw [(contains_false_iff host n).1 hc']
        simp
      · cases host.get? k <;> simp [hn]

/-- the host's entries stay where they are: the injected dictionary is the host's, extended at the end -/
theorem inject_prefix (lib : List (Name × Value)) (host : Env) :
    ∃ extra, inject lib host = host ++ extra ∧ ∀ kv ∈ extra, kv ∈ lib ∧ host.contains kv.1 = false := by
  induction lib generalizing host with
  | nil => exact ⟨[], by simp [inject_nil]⟩
  | cons kv lib ih =>
    rw [inject_cons]
    by_cases hc : host.contains kv.1 = true
    · simp only [hc, if_true]
      obtain ⟨extra, he, hx⟩ := ih host
      exact ⟨extra, he, fun x hxm => ⟨List.mem_cons_of_mem _ (hx x hxm).1, (hx x hxm).2⟩⟩
    · have hc' : host.contains kv.1 = false := by simpa using hc
      simp only [hc', Bool.false_eq_true, if_false]
      obtain ⟨extra, he, hx⟩ := ih (host ++ [kv])
      refine ⟨kv :: extra, by simp [he], ?_⟩
      intro x hxm
      rcases List.mem_cons.1 hxm with rfl | hxm
      · exact ⟨List.mem_cons_self, hc'⟩
      · have := hx x hxm
        refine ⟨List.mem_cons_of_mem _ this.1, ?_⟩
        have h2 := this.2
        rw [contains_append] at h2
        simp only [Bool.or_eq_false_iff] at h2
        exact h2.1

/-- for a table with distinct names (a dict) the fold is the filter of the property's reading -/
theorem inject_eq_spec (lib : List (Name × Value)) (host : Env) (hd : DistinctKeys lib) :
    inject lib host = injectSpec lib host := by
  unfold injectSpec
  induction lib generalizing host with
  | nil => simp [inject_nil]
  | cons kv lib ih =>
    have hd' : DistinctKeys lib := (List.nodup_cons.1 hd).2
    have hnot : kv.1 ∉ lib.map (·.1) := (List.nodup_cons.1 hd).1
    rw [inject_cons]
    by_cases hc : host.contains kv.1 = true
    · simp only [hc, if_true, ih host hd', List.filter_cons, Bool.not_true, Bool.false_eq_true, if_false]
    · have hc' : host.contains kv.1 = false := by simpa using hc
      simp only [hc', Bool.false_eq_true, if_false, ih _ hd', List.filter_cons, Bool.not_false, if_true,
        List.append_assoc, List.singleton_append]
      congr 2
      apply List.filter_congr
      intro x hx
      rw [contains_append]
      have : Env.contains [kv] x.1 = false := by
        rw [contains_false_iff]
        obtain ⟨k, v⟩ := kv
        rw [get?_cons, get?_nil]
        have : k ≠ x.1 := fun h => hnot (by simpa [h] using List.mem_map_of_mem (f := (·.1)) hx)
        simp [this]
      simp [this]

/-! ## parameter binding: `bindArgs` (mirror) = `bindSpec` (spec) -/

/-- assigning a list of pairs in order -/
def setAll (e : Env) (kvs : List (Name × Value)) : Env := kvs.foldl (fun e kv => e.set kv.1 kv.2) e

theorem setAll_nil (e : Env) : setAll e [] = e := rfl
theorem setAll_cons (e : Env) (kv) (kvs) : setAll e (kv :: kvs) = setAll (e.set kv.1 kv.2) kvs := rfl
theorem setAll_append (e : Env) (a b) : setAll e (a ++ b) = setAll (setAll e a) b := by simp [setAll]
theorem fromPairs_eq (kvs) : fromPairs kvs = setAll [] kvs := rfl

theorem setAll_get?_notin (e : Env) (kvs : List (Name × Value)) (p : Name) (h : p ∉ kvs.map (·.1)) :
    (setAll e kvs).get? p = e.get? p := by
  induction kvs generalizing e with
  | nil => rfl
  | cons kv kvs ih =>
    simp only [List.map_cons, List.mem_cons, not_or] at h
    rw [setAll_cons, ih _ h.2, get?_set_other _ _ _ _ h.1]

/-- the LAST assignment to a key is the one that is read back -/
theorem setAll_get?_last (e : Env) (A B : List (Name × Value)) (p : Name) (v : Value) (h : p ∉ B.map (·.1)) :
    (setAll e (A ++ (p, v) :: B)).get? p = some v := by
  rw [setAll_append, setAll_cons, setAll_get?_notin _ _ _ h, get?_set_same]

theorem setAll_contains (e : Env) (kvs : List (Name × Value)) (p : Name) :
    (setAll e kvs).contains p = true ↔ (e.contains p = true ∨ p ∈ kvs.map (·.1)) := by
  induction kvs generalizing e with
  | nil => simp [setAll_nil]
  | cons kv kvs ih =>
    rw [setAll_cons, ih, contains_set]
    simp only [Bool.or_eq_true, decide_eq_true_eq, List.map_cons, List.mem_cons]
    constructor
    · rintro ((h | h) | h)
      · exact Or.inr (Or.inl h)
      · exact Or.inl h
      · exact Or.inr (Or.inr h)
    · rintro (h | h | h)
      · exact Or.inl (Or.inr h)
      · exact Or.inl (Or.inl h)
      · exact Or.inr h

/-- the pairs the spec assigns, for the parameters at positions `k, k+1, …` of `n` -/
def specPairs (laa : Bool) (n : Nat) (full : List Value) (rest : Value) (ps : List Name) (k : Nat) : List (Name × Value) :=
  (ps.zipIdx k).map fun pi => (pi.1, paramValue laa n full rest pi.2)

theorem specPairs_keys (laa n full rest) (ps : List Name) (k : Nat) : (specPairs laa n full rest ps k).map (·.1) = ps := by
  unfold specPairs
  rw [List.map_map]
  have : ((fun x : Name × Value => x.1) ∘ fun pi : Name × Nat => (pi.1, paramValue laa n full rest pi.2)) = Prod.fst := rfl
  rw [this, List.zipIdx_map_fst]

/-- the loop of `_script_function`, started at parameter position `k` with the arguments from position `k` on -/
theorem bindArgs_general (host : Host W) (laa : Bool) :
    ∀ (ps : List Name) (full : List Value) (k : Nat) (env : Env) (w : W),
      bindArgs host laa ps (full.drop k) env w =
        if laa = true ∧ ps ≠ [] then
          (setAll env (specPairs true (k + ps.length) full (host.newArray (restArgs (k + ps.length) full) w).1 ps k),
           (host.newArray (restArgs (k + ps.length) full) w).2)
        else (setAll env (specPairs false (k + ps.length) full .null ps k), w)
  | [], full, k, env, w => by
      simp [bindArgs, specPairs, setAll_nil]
  | [p], full, k, env, w => by
      unfold bindArgs
      cases laa with
      | true =>
        simp [specPairs, setAll_cons, setAll_nil, paramValue, restArgs]
      | false =>
        simp [specPairs, setAll_cons, setAll_nil, paramValue]
  | p :: q :: ps, full, k, env, w => by
      unfold bindArgs
      have ht : (full.drop k).tail = full.drop (k + 1) := by simp [List.tail_drop]
      rw [ht, bindArgs_general host laa (q :: ps) full (k + 1)]
      have hn : k + 1 + (q :: ps).length = k + (p :: q :: ps).length := by simp; omega
      rw [hn]
      have hhead : (full.drop k).head?.getD .null = (full[k]?).getD .null := by simp [List.head?_drop]
      cases laa with
      | true =>
        simp only [true_and, ne_eq, reduceCtorEq, not_false_eq_true, if_true]
        congr 1
        unfold specPairs
        rw [List.zipIdx_cons, List.map_cons, setAll_cons]
        simp only [paramValue, true_and, hhead]
        simp [setAll_cons]
      | false =>
        simp only [Bool.false_eq_true, false_and, if_false]
        congr 1
        unfold specPairs
        rw [List.zipIdx_cons, List.map_cons, setAll_cons]
        simp [paramValue, setAll_cons]

/-- **mirror = spec**: the loop of `_script_function` computes the documented binding -/
theorem bindArgs_eq_bindSpec (host : Host W) (laa : Bool) (ps : List Name) (as : List Value) (w : W) :
    bindArgs host laa ps as [] w = bindSpec host laa ps as w := by
  have := bindArgs_general host laa ps as 0 [] w
  simp only [List.drop_zero, Nat.zero_add] at this
  rw [this]
  unfold bindSpec
  cases laa <;> simp [fromPairs_eq, specPairs]

end C04
