import BareProofs.C14Lemmas

/-!
# C14 — JSON serialisation is faithful: `jsonParse (jsonStringify v) ≈ v`

Model: `BareModel/Json.lean`.  `mirrorEncode` = the two stages of `value_json` (stage 1 `json.dumps` layout with `repr`
numbers, stage 2 the clean-up substitution as a scanner); `specEncode` writes integral numbers without fraction
directly; `decode` is a standard JSON reader; `norm` is the canonical form (numbers by value, members sorted by key)
and `Equiv v w := norm v = norm w` is equality of BareScript values (`value_compare = 0`).

Every theorem is for **all** values: unbounded depth and length, strings and keys over all Unicode scalar values,
every indent (`ind = 0` is "no indent").  Hypothesis `WF v`: the text of every `dec` number is in the `repr` grammar
(`reprDec`, an assumption about `float.__repr__`) and object keys are unique.

* `cleanup_regex_is_modelled`  (in `BareProofs/C14Regex.lean`) the pattern in `value.py` is the one the scanner `clean` was
                               written for (generated table)
* `strings_untouched`          stage 2 copies a string literal verbatim, whatever precedes or follows it
* `cleanup_eq_spec`            stage 2 ∘ stage 1 = spec encoder (only the `.0` of integral floats disappears)
* `string_roundtrip`           unescape ∘ escape = id on all strings (incl. `\uXXXX`, surrogate pairs, controls)
* `json_roundtrip_spec`, `json_roundtrip`   `decode (encode v ind) = some (norm v)`, and `norm v ≈ v`
* `json_injective`             `encode v i = encode w j → v ≈ w`
* `keys_sorted`                the decoded value (members in text order) has ascending keys in every object
* `integral_no_fraction`       integral floats print as their integer; every number token of a value whose numbers are
                               all integral decodes as an integer, and an integer token has only `-` and digits
-/

namespace C14
open Json

/-- **strings_untouched**: the clean-up pass copies the literal of *any* string `s` verbatim and resumes after it, in any
context `rest` (even `.0,` directly inside or after the literal); in particular a string value or a key is serialised as
the plain `ensure_ascii` escape of its characters. -/
theorem strings_untouched (s rest : Str) :
    clean .out (encStr s ++ rest) = encStr s ++ clean .out rest ∧
    (∀ ind, mirrorEncode (.str s) ind = encStr s) ∧
    mirrorEncode (.obj [(s, .null)]) 0 = '{' :: encStr s ++ [':', 'n', 'u', 'l', 'l', '}'] := by
  refine ⟨clean_encStr s rest, ?_, ?_⟩
  · intro ind
    have := clean_encStr s []
    simpa [mirrorEncode, stage1, encWith, clean] using this
  · simp only [mirrorEncode, stage1, encWith, encMembers, sortKeys, insertKey, List.map, joinItems, member, nl, colon, if_true,
      List.nil_append, List.append_assoc, List.cons_append]
    rw [clean_cons (by decide) (by decide), clean_encStr]
    rfl

example : clean .out (encStr "a.0]".toList ++ ".0,".toList) = encStr "a.0]".toList ++ ",".toList := by decide +kernel

/-- **cleanup_eq_spec**: for every well-formed value and every indent, what `value_json` produces (stage 1 + clean-up) is
exactly the spec encoding: nothing inside a string literal is touched and exactly the `.0` of integral floats is removed. -/
theorem cleanup_eq_spec (v : JValue) (h : WF v) (ind : Nat) : mirrorEncode v ind = specEncode v ind := by
  have := clean_encWith ind v h 0 [] trivial
  simpa [mirrorEncode, specEncode, stage1, clean] using this

/-- **string_roundtrip**: unescaping the escape of any string gives the string back (all code points: named escapes,
`\u00XX` controls and DEL, BMP `\uXXXX`, astral characters as surrogate pairs), and stops right after the closing quote. -/
theorem string_roundtrip (s rest : Str) :
    unesc (escBody s ++ '"' :: rest) = some (s, rest) ∧ decode (encStr s) = some (.str s) := by
  refine ⟨unesc_body s rest, ?_⟩
  have := parse_encWith 0 (.str s) (by simp [WF]) 0 ((encStr s).length + 1) [] (by simp [encWith]) trivial
  simp only [encWith, List.append_nil, norm] at this
  simp [decode, this, skipWs]

/-- **json_roundtrip_spec**: decoding the spec encoding of `v` (any indent) yields the canonical form of `v`. -/
theorem json_roundtrip_spec (v : JValue) (h : WF v) (ind : Nat) : decode (specEncode v ind) = some (norm v) := by
  have := parse_encWith ind v h 0 ((specEncode v ind).length + 1) [] (by simp [specEncode]) trivial
  simp only [List.append_nil, specEncode] at this
  simp only [decode, specEncode, this]
  rfl

/-- `norm` is a canonical form: -/
theorem norm_idem (v : JValue) : norm (norm v) = norm v := norm_norm v

/-- **json_roundtrip**: `jsonParse (jsonStringify v indent)` succeeds and is a value `v'` with `v' ≈ v`
(same shape, strings and keys identical, numbers equal in value, objects equal as maps). -/
theorem json_roundtrip (v : JValue) (h : WF v) (ind : Nat) :
    ∃ v', decode (mirrorEncode v ind) = some v' ∧ Equiv v' v ∧ v' = norm v :=
  ⟨norm v, by rw [cleanup_eq_spec v h, json_roundtrip_spec v h], norm_norm v, rfl⟩

/-- **json_injective**: two values with the same serialisation (under any two indents) are equal as values. -/
theorem json_injective (v w : JValue) (hv : WF v) (hw : WF w) (i j : Nat)
    (h : mirrorEncode v i = mirrorEncode w j) : Equiv v w := by
  obtain ⟨_, h1, _, rfl⟩ := json_roundtrip v hv i
  obtain ⟨_, h2, _, rfl⟩ := json_roundtrip w hw j
  rw [h, h2] at h1
  exact (Option.some.inj h1).symm

/-- **keys_sorted**: in the serialised text the members of every object appear in ascending key order (the decoder keeps
text order), and no key occurs twice (`WF v'`), so the decoded member lists are dictionaries. -/
theorem keys_sorted (v : JValue) (h : WF v) (ind : Nat) :
    ∃ v', decode (mirrorEncode v ind) = some v' ∧ KeysSorted v' ∧ WF v' := by
  obtain ⟨v', h1, _, rfl⟩ := json_roundtrip v h ind
  exact ⟨_, h1, keysSorted_norm v, wf_norm v h⟩

/-! ### integral numbers -/

mutual
/-- every number in the value satisfies `P` -/
def AllNums (P : JNum → Prop) : JValue → Prop
  | .num n => P n
  | .arr xs => AllNumsList P xs
  | .obj kvs => AllNumsMembers P kvs
  | _ => True
def AllNumsList (P : JNum → Prop) : List JValue → Prop
  | [] => True
  | x :: xs => AllNums P x ∧ AllNumsList P xs
def AllNumsMembers (P : JNum → Prop) : List (Str × JValue) → Prop
  | [] => True
  | (_, v) :: kvs => AllNums P v ∧ AllNumsMembers P kvs
end

theorem allNumsList_iff (P : JNum → Prop) (xs : List JValue) : AllNumsList P xs ↔ ∀ x ∈ xs, AllNums P x := by
  induction xs with
  | nil => simp [AllNumsList]
  | cons x xs ih => simp [AllNumsList, ih]

theorem allNumsMembers_iff (P : JNum → Prop) (kvs : List (Str × JValue)) :
    AllNumsMembers P kvs ↔ ∀ p ∈ kvs, AllNums P p.2 := by
  induction kvs with
  | nil => simp [AllNumsMembers]
  | cons p kvs ih => obtain ⟨k, v⟩ := p; simp [AllNumsMembers, ih]

/-- a number that is integral: a Python `int` or an integral float below 1e16 -/
def IsIntegral : JNum → Prop
  | .dec _ => False
  | _ => True

/-- a number that the decoder read from an integer token -/
def IsInt : JNum → Prop
  | .int _ => True
  | _ => False

theorem allNums_norm (v : JValue) : AllNums IsIntegral v → AllNums IsInt (norm v) := by
  induction v using valInd with
  | hnull => intro _; simp [norm, AllNums]
  | hbool b => intro _; simp [norm, AllNums]
  | hnum n => intro h; cases n <;> simp_all [norm, AllNums, normNum, IsInt, IsIntegral]
  | hstr s => intro _; simp [norm, AllNums]
  | harr xs ih =>
    intro h
    simp only [AllNums, allNumsList_iff] at h
    simp only [norm, AllNums, normList_eq, allNumsList_iff]
    intro x hx
    obtain ⟨y, hy, rfl⟩ := List.mem_map.mp hx
    exact ih y hy (h y hy)
  | hobj kvs ih =>
    intro h
    simp only [AllNums, allNumsMembers_iff] at h
    simp only [norm, AllNums, normMembers_eq, allNumsMembers_iff]
    intro p hp
    obtain ⟨q, hq, rfl⟩ := List.mem_map.mp ((mem_sortKeys p _).mp hp)
    exact ih q hq (h q hq)

/-- a token the decoder reads as an integer consists of an optional `-` and digits only: no `.`, no exponent -/
theorem int_token_shape (t : Str) (k : Int) (h : parseNum t = some (.int k)) :
    allDigits (stripSign t) = true ∧ (t = stripSign t ∨ t = '-' :: stripSign t) := by
  have happ := td_append (stripSign t)
  have hall := td_all (stripSign t)
  simp only [parseNum] at h
  split at h
  · split at h
    · rename_i he
      have he' : (takeDigits (stripSign t)).2 = [] := by simpa using he
      rw [he', List.append_nil] at happ
      rw [happ] at hall
      obtain ⟨sg, hsg, hs⟩ := stripSign_shape t
      refine ⟨hall, ?_⟩
      rcases hs with rfl | rfl
      · left; simpa using hsg
      · right; simpa using hsg
    · split at h <;> simp at h
  · cases h

/-- **integral_no_fraction**: (1) an integral float (|x| < 1e16, including `-0.0`) is serialised as its integer, without
`.0`, under every indent; (2) if all numbers of a value are integral then every number token of the serialised text is
read back as an integer; and (3) such a token consists of an optional `-` and digits only. -/
theorem integral_no_fraction :
    (∀ neg n ind, mirrorEncode (.num (.fint neg n)) ind = signText neg ++ natText n) ∧
    (∀ v, WF v → AllNums IsIntegral v → ∀ ind, ∃ v', decode (mirrorEncode v ind) = some v' ∧ AllNums IsInt v') ∧
    (∀ t k, parseNum t = some (.int k) → allDigits (stripSign t) = true ∧ (t = stripSign t ∨ t = '-' :: stripSign t)) := by
  refine ⟨?_, ?_, int_token_shape⟩
  · intro neg n ind
    rw [cleanup_eq_spec _ (by simp [WF])]; rfl
  · intro v h hi ind
    obtain ⟨v', h1, _, rfl⟩ := json_roundtrip v h ind
    exact ⟨_, h1, allNums_norm v hi⟩

/-! ### non-vacuity: the nasty strings of the property, all number kinds, nested containers, indentation -/

private def S (s : String) : Str := s.toList

/-- `["etc., x", "a.0]", {"q\"x.0,": "\\", "é": "😀", "b": [1.0, -0.0, 1e+16, 1.5, 12], "a": {}}, [], 2.5e-07]` -/
private def sample : JValue :=
  .arr [.str (S "etc., x"), .str (S "a.0]"),
    .obj [(S "q\"x.0,", .str (S "\\")), (S "é", .str (S "😀")),
          (S "b", .arr [.num (.fint false 1), .num (.fint true 0), .num (.dec (S "1e+16")), .num (.dec (S "1.5")), .num (.int 12)]),
          (S "a", .obj [])],
    .arr [], .num (.dec (S "2.5e-07"))]

private theorem sample_wf : WF sample := by
  simp only [sample, WF, WFList, WFMembers, List.map, and_true, true_and]
  refine ⟨?_, ?_⟩ <;> decide +kernel

example : mirrorEncode sample 0 =
    S "[\"etc., x\",\"a.0]\",{\"a\":{},\"b\":[1,-0,1e+16,1.5,12],\"q\\\"x.0,\":\"\\\\\",\"\\u00e9\":\"\\ud83d\\ude00\"},[],2.5e-07]" := by
  decide +kernel

example : stage1 sample 0 =
    S "[\"etc., x\",\"a.0]\",{\"a\":{},\"b\":[1.0,-0.0,1e+16,1.5,12],\"q\\\"x.0,\":\"\\\\\",\"\\u00e9\":\"\\ud83d\\ude00\"},[],2.5e-07]" := by
  decide +kernel

example : mirrorEncode (.arr [.num (.fint false 1), .obj [(S "k", .str (S "x.0,"))]]) 2 =
    S "[\n  1,\n  {\n    \"k\": \"x.0,\"\n  }\n]" := by decide +kernel

example : (decode (mirrorEncode sample 3)).map (specEncode · 0) = some (specEncode (norm sample) 0) := by decide +kernel

example : ∃ v', decode (mirrorEncode sample 4) = some v' ∧ Equiv v' sample ∧ v' = norm sample := json_roundtrip sample sample_wf 4

example : (decode (S "[\"\\u00e9\\ud83d\\ude00\\/\\b\", -0, 1.5E3]")).map (specEncode · 0) =
    some (S "[\"\\u00e9\\ud83d\\ude00/\\b\",0,1.5E3]") := by decide +kernel

example : decode (S "[1,]") = none ∧ decode (S "\"\\ud83d\"") = none ∧ decode (S "01") = none ∧ decode (S "[1] x") = none := by
  refine ⟨?_, ?_, ?_, ?_⟩ <;> decide +kernel

/-- two different values never share a text — here `1.0` and the string `"1.0"`, `"a.0,"` and `"a,"` (the F3 collision) -/
example : mirrorEncode (.str (S "a.0,")) 0 ≠ mirrorEncode (.str (S "a,")) 0 := by decide +kernel

end C14
