import BareProofs.C15MoreSortLemmas
import BareProofs.C15More

/-!
# C15More — the contract of `arraySort` (no compare function) and of the JSON text

* `valueCompare_tree`   on values that read back from the heap as trees, `Lib.valueCompare` is the C11 `Compare.valueCompare` of the trees
* `comparable_of_readable`  … so every pair is comparable: the call is modelled
* `sortV_tree`          the sorted heap list denotes `Compare.arraySort` of the denoted trees (every C11 theorem applies)
* `sortV_contract`      at the level of the heap values themselves (references keep their identity): permutation, ordered, stable,
                         and the only ordered stable permutation — what *every* stable sort (CPython's `list.sort`) returns
* `arraySort_contract`  the call: stores exactly that list into the array passed, returns that array, changes nothing else
* `json_text_spec`      the JSON text of a container is the direct encoder `Json.specEncode` of the tree read back (C14)
-/

namespace C15More
open Lib LibMore Compare C11

/-- the value reads back as a tree, with the nesting depth the library comparison allows (`|heap| + 1`: every acyclic well-formed
heap value does) -/
def Readable (h : Heap) (v : Value) : Bool := (reify (h.length + 1) h v).isSome

/-- the tree a value denotes -/
def tree (h : Heap) (v : Value) : PValue := (reify (h.length + 1) h v).getD .null

theorem reify_tree {h : Heap} {v : Value} (hv : Readable h v = true) : reify (h.length + 1) h v = some (tree h v) := by
  unfold Readable at hv
  unfold tree
  cases hr : reify (h.length + 1) h v with
  | none => simp [hr] at hv
  | some p => rfl

/-- **the library comparison is the C11 comparison** of the denoted trees -/
theorem valueCompare_tree (h : Heap) (a b : Value) (ha : Readable h a = true) (hb : Readable h b = true) :
    Lib.valueCompare h a b = some (Compare.valueCompare (tree h a) (tree h b)) :=
  vcmp_reify _ h a b _ _ (reify_tree ha) (reify_tree hb)

theorem cmpD_tree (h : Heap) (a b : Value) (ha : Readable h a = true) (hb : Readable h b = true) :
    cmpD h a b = Compare.valueCompare (tree h a) (tree h b) := by
  simp [cmpD, valueCompare_tree h a b ha hb]

theorem comparable_of_readable (h : Heap) (xs : List Value) (hall : ∀ x ∈ xs, Readable h x = true) : comparable h xs = true := by
  simp only [comparable, List.all_eq_true]
  intro x hx y hy
  rw [valueCompare_tree h x y (hall x hx) (hall y hy)]
  rfl

/-- the sorted list of heap values denotes the C11 sort of the denoted trees -/
theorem sortV_tree (h : Heap) (xs : List Value) (hall : ∀ x ∈ xs, Readable h x = true) :
    (sortV h xs).map (tree h) = Compare.arraySort (xs.map (tree h)) := by
  unfold sortV Compare.arraySort
  apply sortBy_map_on
  intro a ha b hb
  rw [cmpD_tree h a b (hall a ha) (hall b hb)]

/-! ## the contract on the heap values themselves -/

/-- the comparator on the elements of `xs` (a subtype, so that it is a total preorder on its whole domain) -/
def cmpOn (h : Heap) (xs : List Value) (a b : {v : Value // v ∈ xs}) : Int :=
  Compare.valueCompare (tree h a.1) (tree h b.1)

theorem cmpOn_isPre (h : Heap) (xs : List Value) : IsPre (cmpOn h xs) :=
  valueCompare_isPre.comap (fun s : {v : Value // v ∈ xs} => tree h s.1)

theorem sortV_attach (h : Heap) (xs : List Value) (hall : ∀ x ∈ xs, Readable h x = true) :
    (sortBy (ltOf (cmpOn h xs)) xs.attach).map Subtype.val = sortV h xs := by
  have := sortBy_map_on (Subtype.val : {v : Value // v ∈ xs} → Value) (ltOf (cmpOn h xs))
    (fun a b => decide (cmpD h a b < 0)) xs.attach (by
      intro a _ b _
      show decide (cmpD h a.1 b.1 < 0) = decide (cmpOn h xs a b < 0)
      rw [cmpD_tree h a.1 b.1 (hall _ a.2) (hall _ b.2)]
      rfl)
  rw [this, List.attach_map_subtype_val]
  rfl

theorem filter_attach (xs : List Value) (p : Value → Bool) :
    (xs.attach.filter (fun s => p s.1)).map Subtype.val = xs.filter p := by
  have h1 : (xs.attach.map Subtype.val).filter p = xs.filter p := by rw [List.attach_map_subtype_val]
  rw [← h1, List.filter_map]
  rfl

/-- **Contract of the sort.** If every element reads back as a tree, the list `arraySort` stores is a permutation of the old
contents, ordered by `value_compare`, in which elements that compare equal keep their relative order (as *references*: two
different arrays with equal contents are not swapped), and it is the only such list: whatever stable sorting algorithm the host
runs (CPython: timsort, binary insertion on short runs) returns it. -/
theorem sortV_contract (h : Heap) (xs : List Value) (hall : ∀ x ∈ xs, Readable h x = true) :
    (sortV h xs).Perm xs ∧
    (sortV h xs).Pairwise (fun x y => cmpD h x y ≤ 0) ∧
    (∀ a ∈ xs, (sortV h xs).filter (fun x => cmpD h x a == 0) = xs.filter (fun x => cmpD h x a == 0)) ∧
    (∀ ys : List Value, ys.Perm xs → ys.Pairwise (fun x y => cmpD h x y ≤ 0) →
      (∀ a ∈ xs, ys.filter (fun x => cmpD h x a == 0) = xs.filter (fun x => cmpD h x a == 0)) → ys = sortV h xs) := by
  obtain ⟨hsorted, _, hstable, huniq⟩ := sortBy_spec (cmpOn_isPre h xs) xs.attach
  have hS := sortV_attach h xs hall
  -- on elements of `xs`, the heap comparator is the subtype comparator
  have hc : ∀ (a b : {v : Value // v ∈ xs}), cmpD h a.1 b.1 = cmpOn h xs a b := fun a b =>
    cmpD_tree h a.1 b.1 (hall _ a.2) (hall _ b.2)
  refine ⟨sortBy_perm _ xs, ?_, ?_, ?_⟩
  · rw [← hS, List.pairwise_map]
    exact hsorted.imp (fun {a b} hab => by rw [hc]; exact hab)
  · intro a ha
    have e : eqv (cmpOn h xs) ⟨a, ha⟩ = (fun s => (fun x => cmpD h x a == 0) s.1) := by
      funext s
      simp only [eqv]
      rw [← hc s ⟨a, ha⟩]
    have h1 := hstable ⟨a, ha⟩
    rw [e] at h1
    have h2 := congrArg (List.map Subtype.val) h1
    rw [filter_attach xs (fun x => cmpD h x a == 0)] at h2
    rw [← hS, List.filter_map]
    exact h2
  · intro ys hperm hys hfil
    -- lift `ys` to the subtype
    have hmem : ∀ y ∈ ys, y ∈ xs := fun y hy => hperm.mem_iff.mp hy
    let ys' : List {v : Value // v ∈ xs} := ys.attachWith (· ∈ xs) hmem
    have hval : ys'.map Subtype.val = ys := List.attachWith_map_subtype_val _
    have hsorted' : Sorted (cmpOn h xs) ys' := by
      have : (ys'.map Subtype.val).Pairwise (fun x y => cmpD h x y ≤ 0) := by rw [hval]; exact hys
      rw [List.pairwise_map] at this
      exact this.imp (fun {a b} hab => by rw [← hc]; exact hab)
    have hfil' : ∀ a, ys'.filter (eqv (cmpOn h xs) a) = xs.attach.filter (eqv (cmpOn h xs) a) := by
      intro a
      apply (List.map_inj_right (f := Subtype.val) (fun a b hab => Subtype.ext hab)).mp
      have e : (eqv (cmpOn h xs) a) = (fun s => (fun x => cmpD h x a.1 == 0) s.1) := by
        funext s
        simp only [eqv]
        rw [← hc s a]
      rw [e]
      have hA := filter_attach xs (fun x => cmpD h x a.1 == 0)
      have hY : (ys'.filter (fun s => (fun x => cmpD h x a.1 == 0) s.1)).map Subtype.val =
          ys.filter (fun x => cmpD h x a.1 == 0) := by
        rw [← hval, List.filter_map]; rfl
      exact hY.trans ((hfil a.1 a.2).trans hA.symm)
    have := huniq ys' hsorted' hfil'
    rw [← hval, this, hS]

/-- **arraySort_contract.** `arraySort(array)` / `arraySort(array, null)` on an allocated array whose elements read back as trees:
the call succeeds, returns the array it was given, and the heap afterwards is the old heap with exactly that cell replaced by the
ordered stable permutation of `sortV_contract`; every other cell is untouched (also `more_frame`). -/
theorem arraySort_contract (T : TextFns) (h : Heap) (r : Nat) (xs : List Value) (hx : getArr h r = some xs)
    (hall : ∀ x ∈ xs, Readable h x = true) (rest : List Value) (hrest : rest = [] ∨ rest = [.null]) :
    libMore T "arraySort" (.arr r :: rest) h = (.ok (.arr r), h.set r (.arr (sortV h xs))) ∧
    (sortV h xs).Perm xs ∧ (sortV h xs).Pairwise (fun x y => cmpD h x y ≤ 0) ∧
    (sortV h xs).map (tree h) = Compare.arraySort (xs.map (tree h)) := by
  refine ⟨?_, (sortV_contract h xs hall).1, (sortV_contract h xs hall).2.1, sortV_tree h xs hall⟩
  have hc := comparable_of_readable h xs hall
  unfold libMore
  rw [effMore_new T (f := "arraySort") (b := arraySortM) rfl (ms := [Spec.arrP "array",
    { Spec.P "compareFn" (some "function") with nullable := true }]) rfl]
  rcases hrest with rfl | rfl
  · have hv : validate h [Spec.arrP "array", { Spec.P "compareFn" (some "function") with nullable := true }] [.arr r] =
        some [.one (.arr r), .one .null] := rfl
    simp [hv, arraySortM, hx, hc, Eff.run]
  · have hv : validate h [Spec.arrP "array", { Spec.P "compareFn" (some "function") with nullable := true }] [.arr r, .null] =
        some [.one (.arr r), .one .null] := rfl
    simp [hv, arraySortM, hx, hc, Eff.run]

/-- non-vacuity: a heap with nested arrays, an object and scalars of several types — every element is readable; the stored list -/
example : (∀ x ∈ [Value.arr 1, numN 2, .str "a", .obj 2, .null, .arr 3],
      Readable [.arr [.arr 1, numN 2, .str "a", .obj 2, .null, .arr 3], .arr [numN 1], .obj [("k", .arr 1)], .arr [numN 1]] x = true) ∧
    sortV [.arr [.arr 1, numN 2, .str "a", .obj 2, .null, .arr 3], .arr [numN 1], .obj [("k", .arr 1)], .arr [numN 1]]
      [.arr 1, numN 2, .str "a", .obj 2, .null, .arr 3] = [.null, .arr 1, .arr 3, numN 2, .obj 2, .str "a"] := by
  decide

end C15More
