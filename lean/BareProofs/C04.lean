import BareProofs.C04Frame
import BareModel.HostImpl
import Drv.ExecJson

/-!
# C04 — scoping, calling convention and host globals behave as documented

All theorems are about `Machine` (the mirror of runtime.py: `evaluate_expression`, the call wrapper, `_script_function`,
`_execute_script_helper`) and `Scope.inject` (the library injection of `execute_script`), for ALL configurations, hosts
(`Host W` is a parameter), programs, states, argument lists and fuel; the concrete host `HostImpl.host` of the driver is
used only where stated (`partial_uses_same_convention`, `injectLib_eq_inject`, the examples).

* calling convention — `bindArgs_eq_bindSpec` (C04Lemmas), `bindArgs_spec`, `bindArgs_spec_nodup`, `bindArgs_missing_null`,
  `bindArgs_surplus_ignored`, `bindArgs_rest_fresh`;
* scoping — `lookup_order`, `builtin_never_shadows`, `eval_variable`, `eval_call`, `local_assign_writes_locals`,
  `toplevel_assign_writes_globals`, `call_starts_from_fresh_locals`, `globals_frame`, `toplevel_frame`,
  `assign_local_only`, `call_leaves_globals`;
* host globals — `inject_preserves_host`, `inject_keeps_host_order`, `inject_eq_spec` (C04Lemmas), `injectLib_eq_inject`,
  `funcdef_overrides_library`;
* one entry point — `callbacks_use_same_convention`, `partial_uses_same_convention`.
-/

open Machine Scope
namespace C04
variable {W : Type}

/-! ## the calling convention -/

theorem bindSpec_world (host : Host W) (laa : Bool) (ps : List Name) (as : List Value) (w : W) :
    (bindSpec host laa ps as w).2 = if laa = true ∧ ps ≠ [] then (host.newArray (restArgs ps.length as) w).2 else w := by
  unfold bindSpec; split <;> rfl

theorem bindSpec_env (host : Host W) (laa : Bool) (ps : List Name) (as : List Value) (w : W) :
    (bindSpec host laa ps as w).1 =
      setAll [] (specPairs laa ps.length as (host.newArray (restArgs ps.length as) w).1 ps 0) := by
  unfold bindSpec specPairs
  cases laa with
  | true =>
    by_cases h : ps = []
    · subst h; simp [fromPairs_eq]
    · simp [h, fromPairs_eq]
  | false => simp [fromPairs_eq, paramValue]

/-- `paramValue`, read out: the `...` parameter gets the fresh array, a parameter with an argument gets that argument,
a parameter without one gets null -/
theorem paramValue_cases (laa : Bool) (n : Nat) (as : List Value) (rest : Value) (i : Nat) :
    paramValue laa n as rest i =
      if laa = true ∧ i + 1 = n then rest
      else if h : i < as.length then as[i] else .null := by
  unfold paramValue
  split
  · rfl
  · by_cases h : i < as.length <;> simp [h]

theorem specPairs_getElem (laa n full rest) (ps : List Name) (i : Nat) (hi : i < ps.length) :
    (specPairs laa n full rest ps 0)[i]'(by simp [specPairs, hi]) = (ps[i], paramValue laa n full rest i) := by
  simp [specPairs]

/-- **bindArgs_spec.**  The locals a call of a script function starts with, for EVERY parameter list `ps` (duplicates
allowed), `lastArgArray` flag and argument list `as` of any length; `fresh = host.newArray (as.drop (n-1)) w` is the
array the host allocates for the `...` parameter:

1. the world changes only by that allocation (and not at all for a function without `...` or without parameters);
2. the locals bind exactly the parameter names — nothing else (no surplus argument is stored anywhere);
3. the parameter at position `i` — if no later position repeats its name; with a repeated name the LATER position wins,
   as in a Python dict — is bound to `fresh` if it is the last parameter of a `...` function, else to argument `i` if
   there is one, else to null. -/
theorem bindArgs_spec (host : Host W) (laa : Bool) (ps : List Name) (as : List Value) (w : W) :
    let r := bindArgs host laa ps as [] w
    let fresh := host.newArray (as.drop (ps.length - 1)) w
    (r.2 = if laa = true ∧ ps ≠ [] then fresh.2 else w) ∧
    (∀ p, r.1.contains p = true ↔ p ∈ ps) ∧
    (∀ i (hi : i < ps.length), (∀ j (hj : j < ps.length), i < j → ps[j] ≠ ps[i]) →
        r.1.get? ps[i] = some (if laa = true ∧ i + 1 = ps.length then fresh.1
                               else if h : i < as.length then as[i] else .null)) := by
  intro r fresh
  have hr : r = bindSpec host laa ps as w := bindArgs_eq_bindSpec host laa ps as w
  refine ⟨?_, ?_, ?_⟩
  · rw [hr, bindSpec_world]; rfl
  · intro p
    rw [hr, bindSpec_env, setAll_contains, specPairs_keys]
    simp [Env.contains]
  · intro i hi hlast
    rw [hr, bindSpec_env, ← paramValue_cases]
    generalize hrest : (host.newArray (restArgs ps.length as) w).1 = rest
    have hrest' : fresh.1 = rest := hrest
    rw [hrest']
    -- split the assignment sequence at position i
    let kvs := specPairs laa ps.length as rest ps 0
    have hlen : kvs.length = ps.length := by simp [kvs, specPairs]
    have hik : i < kvs.length := by omega
    have hsplit : kvs = kvs.take i ++ kvs[i] :: kvs.drop (i + 1) := by
      rw [List.getElem_cons_drop, List.take_append_drop]
    have hget : kvs[i] = (ps[i], paramValue laa ps.length as rest i) := specPairs_getElem _ _ _ _ _ _ hi
    have hkeys : (kvs.drop (i + 1)).map (·.1) = ps.drop (i + 1) := by
      rw [List.map_drop, specPairs_keys]
    have hnot : ps[i] ∉ (kvs.drop (i + 1)).map (·.1) := by
      rw [hkeys]
      intro hmem
      obtain ⟨m, hm, hmeq⟩ := List.mem_iff_getElem.1 hmem
      rw [List.getElem_drop] at hmeq
      rw [List.length_drop] at hm
      exact hlast (i + 1 + m) (by omega) (by omega) hmeq
    show (setAll [] kvs).get? ps[i] = _
    rw [hsplit, hget]
    exact setAll_get?_last _ _ _ _ _ hnot

/-- the usual case, distinct parameter names: EVERY parameter is bound as documented -/
theorem bindArgs_spec_nodup (host : Host W) (laa : Bool) (ps : List Name) (as : List Value) (w : W) (hd : ps.Nodup)
    (i : Nat) (hi : i < ps.length) :
    (bindArgs host laa ps as [] w).1.get? ps[i] =
      some (if laa = true ∧ i + 1 = ps.length then (host.newArray (as.drop (ps.length - 1)) w).1
            else if h : i < as.length then as[i] else .null) := by
  refine (bindArgs_spec host laa ps as w).2.2 i hi ?_
  intro j hj hij heq
  have := (List.getElem_inj hd).1 heq
  omega

/-- lookup of a parameter inside the body sees that binding (locals first) -/
theorem param_lookup (host : Host W) (laa : Bool) (ps : List Name) (as : List Value) (w : W) (hd : ps.Nodup)
    (i : Nat) (hi : i < ps.length) (g : Env) :
    lookupVar (some (bindArgs host laa ps as [] w).1) g ps[i] =
      (if laa = true ∧ i + 1 = ps.length then (host.newArray (as.drop (ps.length - 1)) w).1
       else if h : i < as.length then as[i] else .null) := by
  have h := bindArgs_spec_nodup host laa ps as w hd i hi
  unfold lookupVar
  simp only
  rw [contains_eq_isSome, h]
  simp

/-- a missing argument is null (never an error, never `[]`) -/
theorem bindArgs_missing_null (host : Host W) (ps : List Name) (as : List Value) (w : W) (hd : ps.Nodup)
    (i : Nat) (hi : i < ps.length) (hmiss : as.length ≤ i) (hnotrest : ¬ (laa = true ∧ i + 1 = ps.length)) :
    (bindArgs host laa ps as [] w).1.get? ps[i] = some .null := by
  rw [bindArgs_spec_nodup host laa ps as w hd i hi]
  simp [hnotrest, Nat.not_lt.2 hmiss]

/-- surplus arguments of a function without `...` are ignored: they change neither the locals nor the world -/
theorem bindArgs_surplus_ignored (host : Host W) (ps : List Name) (as extra : List Value) (w : W)
    (h : ps.length ≤ as.length) :
    bindArgs host false ps (as ++ extra) [] w = bindArgs host false ps as [] w := by
  rw [bindArgs_eq_bindSpec, bindArgs_eq_bindSpec]
  unfold bindSpec
  simp only [Bool.false_eq_true, false_and, if_false]
  congr 2
  apply List.map_congr_left
  intro pi hpi
  have hlt : pi.2 < ps.length := by
    have := List.snd_lt_of_mem_zipIdx hpi
    simpa using this
  simp only [paramValue, Bool.false_eq_true, false_and, if_false]
  rw [List.getElem?_append_left (by omega)]

/-- the `...` parameter: a FRESH array (the result of `host.newArray`, i.e. `args[ix:]` / `[]`) holding the arguments
from position `n-1` on — empty when there are fewer — and the only effect of the binding on the world -/
theorem bindArgs_rest_fresh (host : Host W) (ps : List Name) (as : List Value) (w : W) (hd : ps.Nodup) (hne : ps ≠ []) :
    let fresh := host.newArray (as.drop (ps.length - 1)) w
    (bindArgs host true ps as [] w).1.get? (ps.getLast hne) = some fresh.1 ∧
    (bindArgs host true ps as [] w).2 = fresh.2 ∧
    (as.length < ps.length → as.drop (ps.length - 1) = []) := by
  intro fresh
  have hpos : 0 < ps.length := List.length_pos_iff.2 hne
  refine ⟨?_, ?_, ?_⟩
  · have := bindArgs_spec_nodup host true ps as w hd (ps.length - 1) (by omega)
    rw [List.getLast_eq_getElem, this]
    have : ps.length - 1 + 1 = ps.length := by omega
    simp [this, fresh]
  · rw [(bindArgs_spec host true ps as w).1]; simp [hne, fresh]
  · intro h; exact List.drop_eq_nil_of_le (by omega)

/-! ## lookup order -/

/-- **lookup_order** (variables): locals if the name is bound there, else globals, else null -/
theorem lookup_order (l g : Env) (n : Name) :
    (∀ v, l.get? n = some v → lookupVar (some l) g n = v) ∧
    (l.get? n = none → lookupVar (some l) g n = lookupVar none g n) ∧
    (∀ v, g.get? n = some v → lookupVar none g n = v) ∧
    (g.get? n = none → lookupVar none g n = .null) := by
  unfold lookupVar
  refine ⟨?_, ?_, ?_, ?_⟩
  · intro v h; simp [contains_eq_isSome, h]
  · intro h; simp [contains_eq_isSome, h]
  · intro v h; simp [h]
  · intro h; simp [h]

/-- **lookup_order** (functions): locals, else globals, else — only when `cfg.builtins` — the expression built-ins -/
theorem lookup_order_func (cfg : Config W) (l g : Env) (n : Name) :
    (∀ v, l.get? n = some v → lookupFunc cfg (some l) g n = some v) ∧
    (l.get? n = none → lookupFunc cfg (some l) g n = lookupFunc cfg none g n) ∧
    (∀ v, g.get? n = some v → lookupFunc cfg none g n = some v) ∧
    (g.get? n = none → cfg.builtins = true → lookupFunc cfg none g n = (cfg.host.builtin n).map Value.fn) ∧
    (g.get? n = none → cfg.builtins = false → lookupFunc cfg none g n = none) := by
  unfold lookupFunc
  refine ⟨?_, ?_, ?_, ?_, ?_⟩
  · intro v h; simp [contains_eq_isSome, h]
  · intro h; simp [contains_eq_isSome, h]
  · intro v h; simp [contains_eq_isSome, h]
  · intro h hb; simp [contains_eq_isSome, h, hb]
  · intro h hb; simp [contains_eq_isSome, h, hb]

/-- **builtin_never_shadows.**  If the name is bound in the locals or in the globals, the function lookup yields that
binding whatever the built-in table and the `builtins` flag are: two configurations that differ only there agree. -/
theorem builtin_never_shadows (cfg cfg' : Config W) (locals : Option Env) (g : Env) (n : Name)
    (hbound : (∃ l, locals = some l ∧ l.contains n = true) ∨ g.contains n = true) :
    lookupFunc cfg locals g n = lookupFunc cfg' locals g n ∧
    lookupFunc cfg locals g n =
      (match locals with
       | some l => if l.contains n then l.get? n else g.get? n
       | none => g.get? n) := by
  unfold lookupFunc
  rcases hbound with ⟨l, rfl, hl⟩ | hg
  · simp [hl]
  · cases locals with
    | none => simp [hg]
    | some l => by_cases hl : l.contains n = true <;> simp [hl, hg]

/-- a variable reference evaluates by `lookupVar` (the three keywords aside) and has no effect -/
theorem eval_variable (cfg : Config W) (call : CallFn W) (locals : Option Env) (n : Name) (st : State W)
    (h1 : n ≠ kwNull) (h2 : n ≠ kwFalse) (h3 : n ≠ kwTrue) :
    evalExpr cfg call locals (.variable n) st = .ok (lookupVar locals st.globals n) st := by
  simp [evalExpr, h1, h2, h3]

/-- a call expression: arguments left to right, THEN the function lookup (in the globals as the arguments left them),
then the one call wrapper `call` -/
theorem eval_call (cfg : Config W) (call : CallFn W) (locals : Option Env) (n : Name) (args : List Expr) (st : State W)
    (h : n ≠ kwIf) :
    evalExpr cfg call locals (.function n args) st =
      match evalArgs cfg call locals args st with
      | .ok vs st1 =>
          match lookupFunc cfg locals st1.globals n with
          | some .null => .err (.undefinedFunction n) st1
          | some fv => call fv vs st1
          | none => .err (.undefinedFunction n) st1
      | .err e st1 => .err e st1
      | .oof => .oof := by
  simp only [evalExpr, h, if_false]
  rfl

/-! ## assignment: locals inside a function, the globals object at top level -/

/-- the statement budget allows one more statement to start (runtime.py:61 does not raise) -/
def BudgetOk (cfg : Config W) (st : State W) : Prop :=
  (decide (cfg.maxStatements > 0) && decide (st.count + 1 > cfg.maxStatements)) = false

/-- the state after the statement counter has been incremented -/
def tick (st : State W) : State W := { st with count := st.count + 1 }

/-- an assignment statement inside a function (`locals = some l`) writes `l`; the state — hence the globals — is exactly
what the evaluation of the right-hand side left -/
theorem local_assign_writes_locals (cfg : Config W) (fuel : Nat) (P : List Stmt) (l : Env) (base cache) (pc : Nat)
    (st st2 : State W) (n : Name) (e : Expr) (v : Value) (h : P[pc]? = some (.expr (some n) e)) (hb : BudgetOk cfg st)
    (hev : evalExpr cfg (callValue cfg fuel) (some l) e (tick st) = .ok v st2) :
    execM cfg (fuel+1) P (some l) base cache pc st = execM cfg fuel P (some (l.set n v)) base cache (pc+1) st2 := by
  rw [execM.eq_1, h]
  simp only [BudgetOk] at hb
  simp only [tick] at hev
  simp [hb, hev]

/-- **toplevel_assign_writes_globals.**  At top level (`locals = none`) the assignment writes the caller-supplied
globals object: `globals[n] = v`. -/
theorem toplevel_assign_writes_globals (cfg : Config W) (fuel : Nat) (P : List Stmt) (base cache) (pc : Nat)
    (st st2 : State W) (n : Name) (e : Expr) (v : Value) (h : P[pc]? = some (.expr (some n) e)) (hb : BudgetOk cfg st)
    (hev : evalExpr cfg (callValue cfg fuel) none e (tick st) = .ok v st2) :
    execM cfg (fuel+1) P none base cache pc st =
      execM cfg fuel P none base cache (pc+1) { st2 with globals := st2.globals.set n v } := by
  rw [execM.eq_1, h]
  simp only [BudgetOk] at hb
  simp only [tick] at hev
  simp [hb, hev]

/-- **include_continues_with_same_locals.**  An `include` statement, in WHATEVER scope it stands (`locals` arbitrary: the top
level or the locals of any function call), hands the included scripts to `execIncludes` — which does not even take the
including scope's locals as an argument, so nothing an included script does can depend on them or change them — and the
including script continues with exactly the locals it had. -/
theorem include_continues_with_same_locals (cfg : Config W) (fuel : Nat) (P : List Stmt) (locals : Option Env) (base cache)
    (pc : Nat) (st : State W) (incs : List IncludeScript) (h : P[pc]? = some (.include incs)) (hb : BudgetOk cfg st) :
    execM cfg (fuel+1) P locals base cache pc st =
      match execIncludes cfg fuel base incs (tick st) with
      | .done st2 => execM cfg fuel P locals base cache (pc+1) st2
      | o => o := by
  rw [execM.eq_1, h]
  simp only [BudgetOk] at hb
  simp only [tick]
  simp [hb]
  cases execIncludes cfg fuel base incs { globals := st.globals, world := st.world, count := st.count + 1 } <;> rfl

/-- **included_script_runs_at_top_level.**  Every script an include fetches is executed as a script of its own: at TOP
LEVEL (`locals = none`, so by `toplevel_assign_writes_globals` its assignments write the globals object and by
`lookup_order` its reads see the globals only), from its first statement, with an empty label cache; its `return` ends
only the included script. -/
theorem included_script_runs_at_top_level (cfg : Config W) (fuel : Nat) (base : Option String) (inc : IncludeScript)
    (rest : List IncludeScript) (st : State W) (stmts : List Stmt) (h : cfg.fetch (cfg.resolve base inc) = .script stmts) :
    execIncludes cfg (fuel+1) base (inc :: rest) st =
      match execM cfg fuel stmts none (some (cfg.resolve base inc)) [] 0 st with
      | .done st' => execIncludes cfg fuel base rest st'
      | .ret _ st' => execIncludes cfg fuel base rest st'
      | o => o := by
  rw [execIncludes.eq_2]
  simp only [h]
  cases execM cfg fuel stmts none (some (cfg.resolve base inc)) [] 0 st <;> rfl

/-- **a call starts from fresh locals.**  The locals of a script-function call are built from the EMPTY dictionary by
the parameter binding alone: they depend on the function definition, the arguments and the world — not on any earlier
call, not on the caller's locals (which are not even an argument of `callValue`), not on the globals.  What the body
did to its locals is not part of the result (`Out` carries a value and the state only). -/
theorem call_starts_from_fresh_locals (cfg : Config W) (fuel : Nat) (id : FnId) (fd : FuncDef) (h : cfg.funs id = some fd)
    (args : List Value) (st : State W) :
    callValue cfg (fuel+1) (.fn (.script id)) args st =
      match execM cfg fuel fd.body (some (bindSpec cfg.host fd.lastArgArray fd.args args st.world).1) none [] 0
              { st with world := (bindSpec cfg.host fd.lastArgArray fd.args args st.world).2 } with
      | .done st' => .ok .null st'
      | .ret v st' => .ok v st'
      | .err e st' => .err e st'
      | .oof => .oof := by
  rw [callValue.eq_2, h]
  simp only
  rw [← bindArgs_eq_bindSpec]
  rfl

/-! ## the globals change only through explicit global effects -/

/-- names outside `S` keep their binding -/
def SameOutside (S : Name → Prop) (g g' : Env) : Prop := ∀ n, ¬ S n → g'.get? n = g.get? n

theorem respects_sameOutside (S : Name → Prop) : Respects S (SameOutside S) where
  refl := fun _ _ _ => rfl
  trans := fun h1 h2 n hn => (h2 n hn).trans (h1 n hn)
  set := fun g n v hS m hm => get?_set_other g n m v (fun h => hm (h ▸ hS))

theorem respects_eq : Respects (fun _ => False) (fun g g' : Env => g' = g) where
  refl := fun _ => rfl
  trans := fun h1 h2 => h2.trans h1
  set := fun _ _ _ h => h.elim

/-- **globals_frame.**  Let `S` be a set of names such that (a) every `function` statement in the function bodies of the
table and in the body `P` names a member of `S`, (b) every `globalSet` request of a library / host-callable tree names a
member of `S`, (d) every script an include can fetch assigns and defines only members of `S` at its top level (or no
`include` occurs: `I = False`).  Then executing `P` as a function body (`locals = some l`) — including (c) all nested
calls, call-backs and includes, to any depth — leaves every global outside `S` bound exactly as before (or unbound as
before).  In particular NO plain assignment inside a function reaches the globals.  The same holds for a call through
`callValue`. -/
theorem globals_frame (cfg : Config W) (S : Name → Prop) (I : Prop) (hF : Frame cfg S I) (fuel : Nat) :
    (∀ (P : List Stmt) (l : Env) base cache pc (st : State W), (∀ s ∈ P, StmtOK S I true s) →
        ResRel (SameOutside S) st.globals (execM cfg fuel P (some l) base cache pc st)) ∧
    (∀ f args (st : State W), OutRel (SameOutside S) st.globals (callValue cfg fuel f args st)) := by
  have h := frameAt hF (respects_sameOutside S) fuel
  exact ⟨fun P l base cache pc st hP => h.2.1 P (some l) base cache pc st hP, h.1⟩

/-- **no leaked locals.**  The same frame for a whole top-level program (`locals = none`): if `S` contains the names the
program assigns at top level, the names of all `function` statements and the names the library may `globalSet`, then after
the run every name outside `S` is bound (or unbound) as before — whatever the functions assigned to their locals and
parameters, none of it is in the globals. -/
theorem toplevel_frame (cfg : Config W) (S : Name → Prop) (I : Prop) (hF : Frame cfg S I) (fuel : Nat)
    (P : List Stmt) (hP : ∀ s ∈ P, StmtOK S I false s) (base : Option String) (st : State W) :
    ResRel (SameOutside S) st.globals (execute cfg fuel P base st) :=
  (frameAt hF (respects_sameOutside S) fuel).2.1 P none base [] 0 { st with count := 0 } hP

/-- the body contains no `function` and no `include` statement -/
def NoGlobalStmt : Stmt → Prop
  | .function .. => False
  | .include _ => False
  | _ => True

instance : DecidablePred NoGlobalStmt := fun s => by
  cases s <;> simp only [NoGlobalStmt] <;> infer_instance

theorem stmtOK_of_noGlobalStmt {s : Stmt} (h : NoGlobalStmt s) : StmtOK (fun _ => False) False true s := by
  cases s with
  | expr name e => cases name <;> simp [StmtOK]
  | function => exact h.elim
  | «include» => exact h.elim
  | _ => trivial

/-- the final globals of a run (none when the model ran out of fuel — not a Python outcome) -/
def Res.globals? : Res W → Option Env
  | .done st => some st.globals
  | .ret _ st => some st.globals
  | .err _ st => some st.globals
  | .oof => none

def Out.globals? : Out W → Option Env
  | .ok _ st => some st.globals
  | .err _ st => some st.globals
  | .oof => none

/-- **assign_local_only.**  On a host whose library trees and other callables never issue `globalSet`, with a function
table whose bodies contain no `function`/`include` statement: executing ANY such body `P` with locals `l`, from any
statement index, for any fuel, with any nested calls and call-backs, ends — normally, by `return`, or with a runtime
error — with `globals' = globals` (the same dictionary: same keys, same values, same order).  Every assignment of the
body, of its callees and of their call-backs went to the locals of the call that executed it. -/
theorem assign_local_only (cfg : Config W)
    (hlib : ∀ name args w, NoGlobalSet (cfg.host.lib name args w))
    (hother : ∀ k args w, NoGlobalSet (cfg.host.other k args w))
    (hfuns : ∀ id fd, cfg.funs id = some fd → ∀ s ∈ fd.body, NoGlobalStmt s)
    (fuel : Nat) (P : List Stmt) (hP : ∀ s ∈ P, NoGlobalStmt s) (l : Env) (base cache) (pc : Nat) (st : State W) (g' : Env)
    (hrun : Res.globals? (execM cfg fuel P (some l) base cache pc st) = some g') : g' = st.globals := by
  have hF : Frame cfg (fun _ => False) False :=
    { lib := hlib, other := hother,
      funs := fun id fd h s hs => stmtOK_of_noGlobalStmt (hfuns id fd h s hs),
      fetch := fun h => h.elim }
  have h := (frameAt hF respects_eq fuel).2.1 P (some l) base cache pc st (fun s hs => stmtOK_of_noGlobalStmt (hP s hs))
  cases hx : execM cfg fuel P (some l) base cache pc st <;> rw [hx] at h hrun <;> simp [Res.globals?] at hrun <;>
    simp only [ResRel] at h <;> rw [← hrun] <;> exact h

/-- the same for a call of any function value (script function, library function, partial application …) -/
theorem call_leaves_globals (cfg : Config W)
    (hlib : ∀ name args w, NoGlobalSet (cfg.host.lib name args w))
    (hother : ∀ k args w, NoGlobalSet (cfg.host.other k args w))
    (hfuns : ∀ id fd, cfg.funs id = some fd → ∀ s ∈ fd.body, NoGlobalStmt s)
    (fuel : Nat) (f : Value) (args : List Value) (st : State W) (g' : Env)
    (hrun : Out.globals? (callValue cfg fuel f args st) = some g') : g' = st.globals := by
  have hF : Frame cfg (fun _ => False) False :=
    { lib := hlib, other := hother,
      funs := fun id fd h s hs => stmtOK_of_noGlobalStmt (hfuns id fd h s hs),
      fetch := fun h => h.elim }
  have h := (frameAt hF respects_eq fuel).1 f args st
  cases hx : callValue cfg fuel f args st <;> rw [hx] at h hrun <;> simp [Out.globals?] at hrun <;>
    simp only [OutRel] at h <;> rw [← hrun] <;> exact h

/-! ## host globals and the library -/

/-- **inject_preserves_host.**  After the library injection of `execute_script`, every name the caller bound is bound
to the caller's value (also when the library has a function of that name), and every other name is bound as in the
library table (unbound if the library does not have it). -/
theorem inject_preserves_host (lib : List (Name × Value)) (host : Env) :
    (∀ k v, host.get? k = some v → (inject lib host).get? k = some v) ∧
    (∀ k, host.get? k = none → (inject lib host).get? k = Env.get? lib k) := by
  constructor
  · intro k v h; rw [inject_get?, h]; rfl
  · intro k h; rw [inject_get?, h]; rfl

/-- the caller's dictionary is extended at the end, never re-ordered or shortened; what is appended are library entries
under names the caller did not bind -/
theorem inject_keeps_host_order (lib : List (Name × Value)) (host : Env) :
    ∃ extra, inject lib host = host ++ extra ∧ ∀ kv ∈ extra, kv ∈ lib ∧ host.contains kv.1 = false :=
  inject_prefix lib host

/-- the library table of the driver -/
def libTable : List (Name × Value) := HostImpl.libNames.map fun n => (.user n, .fn (.lib n))

/-- the injection used by the correspondence driver (`Drv/ExecJson.injectLib`) is `Scope.inject` on its library table -/
theorem injectLib_eq_inject (g : Env) : ExecJson.injectLib g = inject libTable g := by
  unfold ExecJson.injectLib inject libTable
  rw [List.foldl_map]

theorem libTable_distinct : DistinctKeys libTable := by unfold DistinctKeys; decide

/-- **funcdef_overrides_library.**  Executing `function f …` (at top level or inside a function body) binds the GLOBAL
`f` to the script function — also when the globals hold a library function (or a host value) under that name, e.g.
after `inject` — leaves every other global alone, and from then on a call of `f` from any scope that has no local `f`
resolves to the script function. -/
theorem funcdef_overrides_library (cfg : Config W) (fuel : Nat) (P : List Stmt) (locals base cache) (pc : Nat)
    (st : State W) (fid : Nat) (name : Name) (args : List Name) (laa isAsync : Bool) (body : List Stmt)
    (h : P[pc]? = some (.function fid name args laa isAsync body)) (hb : BudgetOk cfg st) :
    ∃ st' : State W,
      execM cfg (fuel+1) P locals base cache pc st = execM cfg fuel P locals base cache (pc+1) st' ∧
      st'.globals.get? name = some (.fn (.script fid)) ∧
      (∀ m, m ≠ name → st'.globals.get? m = st.globals.get? m) ∧
      st'.world = st.world ∧
      lookupFunc cfg none st'.globals name = some (.fn (.script fid)) ∧
      (∀ l : Env, l.contains name = false → lookupFunc cfg (some l) st'.globals name = some (.fn (.script fid))) := by
  refine ⟨{ (tick st) with globals := st.globals.set name (.fn (.script fid)) }, ?_, ?_, ?_, rfl, ?_, ?_⟩
  · rw [execM.eq_1, h]
    simp only [BudgetOk] at hb
    simp [hb, tick]
  · exact get?_set_same _ _ _
  · intro m hm; exact get?_set_other _ _ _ _ hm
  · exact ((lookup_order_func cfg [] _ name).2.2.1 _ (get?_set_same _ _ _))
  · intro l hl
    rw [(lookup_order_func cfg l _ name).2.1 ((contains_false_iff l name).1 hl)]
    exact ((lookup_order_func cfg [] _ name).2.2.1 _ (get?_set_same _ _ _))

/-- in particular after the injection: whatever `inject lib host` bound `f` to, it is the script function afterwards -/
theorem funcdef_overrides_injected (lib : List (Name × Value)) (host : Env) (f : Name) (fid : Nat) :
    ((inject lib host).set f (.fn (.script fid))).get? f = some (.fn (.script fid)) := get?_set_same _ _ _

/-! ## one entry point for every kind of call -/

/-- **callbacks_use_same_convention.**  `callValue` is the single entry point:
1. a direct call `f(args)` in an expression is `call fv vs` with `call = callValue cfg fuel` (`eval_call`; `execM`
   passes exactly that `call` to `evalExpr`);
2. a library function (`FnVal.lib`) and any other host callable (`FnVal.other`, e.g. a `systemPartial` result) run their
   interaction tree with `callValue cfg fuel` as the call-back handler;
3. every `LibTree.call f args` node of such a tree is executed as `callValue cfg fuel f args` on the current state;
4. a script function value reaches `bindArgs` (= `bindSpec`) with exactly the argument list it was called with.
So `bindArgs_spec` describes the locals on every path. -/
theorem callbacks_use_same_convention (cfg : Config W) (fuel : Nat) :
    (∀ name args (st : State W),
        callValue cfg (fuel+1) (.fn (.lib name)) args st =
          runTree cfg (callValue cfg fuel) (cfg.host.lib name args st.world) st) ∧
    (∀ k args (st : State W),
        callValue cfg (fuel+1) (.fn (.other k)) args st =
          runTree cfg (callValue cfg fuel) (cfg.host.other k args st.world) st) ∧
    (∀ (call : CallFn W) f args w k (st : State W),
        runTree cfg call (.call f args w k) st =
          match call f args { st with world := w } with
          | .ok v st1 => runTree cfg call (k v st1.world) st1
          | o => o) ∧
    (∀ id fd args (st : State W), cfg.funs id = some fd →
        callValue cfg (fuel+1) (.fn (.script id)) args st =
          match execM cfg fuel fd.body (some (bindArgs cfg.host fd.lastArgArray fd.args args [] st.world).1) none [] 0
                  { st with world := (bindArgs cfg.host fd.lastArgArray fd.args args [] st.world).2 } with
          | .done st' => .ok .null st'
          | .ret v st' => .ok v st'
          | .err e st' => .err e st'
          | .oof => .oof) := by
  refine ⟨?_, ?_, ?_, ?_⟩
  · intro name args st; rw [callValue.eq_3]
  · intro k args st; rw [callValue.eq_4]
  · intro call f args w k st; rw [runTree]; rfl
  · intro id fd args st h; rw [callValue.eq_2, h]; rfl

/-- on the concrete host: calling the partial application `systemPartial(f, pre…)` with `args` IS calling `f` through the
same wrapper with `pre ++ args` (then `bindArgs_spec` applies with that argument list) -/
theorem partial_uses_same_convention (cfg : Config HostImpl.World) (hh : cfg.host = HostImpl.host) (fuel : Nat) (k : Nat)
    (f : Value) (pre args : List Value) (st : State HostImpl.World) (hk : st.world.partials[k]? = some (f, pre)) :
    callValue cfg (fuel+1) (.fn (.other k)) args st =
      match callValue cfg fuel f (pre ++ args) st with
      | .ok v st1 => .ok v st1
      | o => o := by
  rw [callValue.eq_4, hh]
  simp only [HostImpl.host, HostImpl.other, hk, runTree, HostImpl.ok]
  cases callValue cfg fuel f (pre ++ args) st <;> rfl

/-! ## non-vacuity: the hypotheses are inhabited, the conclusions are observable on the concrete host of the driver -/

section Examples
open HostImpl

def nm (s : String) : Name := .user s
def va (s : String) : Expr := .variable (.user s)
def callE (f : String) (args : List Expr) : Expr := .function (.user f) args
def logE (e : Expr) : Stmt := .expr none (callE "systemLog" [e])

/-- what a test observes of a run -/
structure Obs where
  kind : String
  val : Option Value
  log : List String
  globals : Env
deriving DecidableEq, Repr

/-- user-visible globals: the library bindings are left out -/
def userGlobals (g : Env) : Env := g.filter fun kv => !ExecJson.isLibBinding kv

def obs : Res World → Obs
  | .done st => ⟨"done", none, st.world.log, userGlobals st.globals⟩
  | .ret v st => ⟨"ret", some v, st.world.log, userGlobals st.globals⟩
  | .err _ st => ⟨"err", none, st.world.log, userGlobals st.globals⟩
  | .oof => ⟨"oof", none, [], []⟩

def xcfg (h : Host World) (funs : List (Nat × FuncDef)) : Config World :=
  { host := h, funs := fun id => (funs.find? (·.1 == id)).map (·.2), maxStatements := 1000 }

/-- the start state `execute_script` builds from the caller's globals -/
def start (hostGlobals : Env) : State World := { globals := inject libTable hostGlobals, world := {}, count := 0 }

/-! ### `function f(a, b, c...)` called with 0, 2 and 5 arguments -/

def restBody : List Stmt := [logE (va "a"), logE (va "b"), logE (va "c"), .ret (some (va "c"))]
def restDef : FuncDef := { name := nm "f", args := [nm "a", nm "b", nm "c"], lastArgArray := true, body := restBody }
def restProg (call : Expr) : List Stmt :=
  [.function 0 (nm "f") [nm "a", nm "b", nm "c"] true false restBody, .expr (some (nm "r")) call]

/-- 0 arguments: a, b null; c a fresh EMPTY array -/
example : (obs (execute (xcfg host [(0, restDef)]) 50 (restProg (callE "f" [])) none (start []))).log
    = ["null", "null", "[]"] := by decide +kernel

/-- 2 arguments: a, b bound; c still an empty array (not null) -/
example : (obs (execute (xcfg host [(0, restDef)]) 50 (restProg (callE "f" [.number 1, .string "x"])) none (start []))).log
    = ["1", "x", "[]"] := by decide +kernel

/-- 5 arguments: c collects arguments 3..5 -/
example : (obs (execute (xcfg host [(0, restDef)]) 50
      (restProg (callE "f" [.number 1, .number 2, .number 3, .number 4, .number 5])) none (start []))).log
    = ["1", "2", "[3,4,5]"] := by decide +kernel

/-- the binding itself, read through `bindArgs_spec`: with 5 arguments the third parameter is the array the host
allocated for `as.drop 2` -/
example : (bindArgs host true [nm "a", nm "b", nm "c"] [.num 1, .num 2, .num 3, .num 4, .num 5] [] {}).1
    = [(nm "a", .num 1), (nm "b", .num 2), (nm "c", .arr 0)] := by decide +kernel
example : (bindArgs host true [nm "a", nm "b", nm "c"] [.num 1, .num 2, .num 3, .num 4, .num 5] [] {}).2.arr? 0
    = some [.num 3, .num 4, .num 5] := by decide +kernel
example : (bindArgs host true [nm "a", nm "b", nm "c"] [] [] {}).1
    = [(nm "a", .null), (nm "b", .null), (nm "c", .arr 0)] := by decide +kernel
example : (bindArgs host true [nm "a", nm "b", nm "c"] [] [] {}).2.arr? 0 = some [] := by decide +kernel
/-- without `...`: surplus ignored, missing null, no allocation -/
example : (bindArgs host false [nm "a", nm "b"] [.num 1, .num 2, .num 3] [] {}).1 = [(nm "a", .num 1), (nm "b", .num 2)] := by
  decide +kernel
example : (bindArgs host false [nm "a", nm "b"] [.num 1] [] {}).1 = [(nm "a", .num 1), (nm "b", .null)] := by decide +kernel
/-- a duplicate parameter name: the later position wins (hypothesis of `bindArgs_spec` part 3 fails for position 0) -/
example : (bindArgs host false [nm "a", nm "a"] [.num 1, .num 2] [] {}).1 = [(nm "a", .num 2)] := by decide +kernel
/-- the hypotheses of `bindArgs_spec_nodup` / `bindArgs_rest_fresh` -/
example : [nm "a", nm "b", nm "c"].Nodup := by decide

/-! ### scoping -/

/-- `x` is a global, a parameter of `g` and assigned inside `f`: each scope sees its own -/
def scopeF : FuncDef :=
  { name := nm "f", args := [], lastArgArray := false,
    body := [.expr (some (nm "x")) (.number 1), .expr (some (nm "y")) (.number 2), logE (va "x"), logE (va "z"),
             .ret (some (callE "g" [.number 7]))] }
def scopeG : FuncDef :=
  { name := nm "g", args := [nm "x"], lastArgArray := false,
    body := [logE (va "x"), logE (va "y"), .ret (some (va "x"))] }
def scopeProg : List Stmt :=
  [.function 0 (nm "f") [] false false scopeF.body, .function 1 (nm "g") [nm "x"] false false scopeG.body,
   .expr (some (nm "x")) (.number 5), .expr (some (nm "r")) (callE "f" []), logE (va "x"), logE (va "y")]

/-- inside `f`: x = 1 (local), z = 9 (host global); inside `g`: x = 7 (parameter), y = null (f's local `y` is not
visible); afterwards the global x is still 5 and no `y` leaked -/
example : obs (execute (xcfg host [(0, scopeF), (1, scopeG)]) 100 scopeProg none (start [(nm "z", .num 9)]))
    = ⟨"done", none, ["1", "9", "7", "null", "5", "null"],
       [(nm "z", .num 9), (nm "f", .fn (.script 0)), (nm "g", .fn (.script 1)), (nm "x", .num 5), (nm "r", .num 7)]⟩ := by
  decide +kernel

/-! ### an `include` issued inside a function runs the included script at top level -/

/-- the included script reads `x`, assigns `x` and a fresh name, defines `h` (which reads `x`) and returns early -/
def incScript : List Stmt :=
  [logE (va "x"), .expr (some (nm "x")) (.string "inc"), .expr (some (nm "fresh")) (.number 1),
   .function 1 (nm "h") [] false false [.ret (some (va "x"))], .ret none, .expr (some (nm "late")) (.number 2)]
def incF : FuncDef :=
  { name := nm "f", args := [nm "x"], lastArgArray := false,
    body := [.include [{ url := "inc.bare", system := false }], logE (va "x"), .ret (some (va "x"))] }
def incH : FuncDef := { name := nm "h", args := [], lastArgArray := false, body := [.ret (some (va "x"))] }
def incCfg : Config World :=
  { xcfg host [(0, incF), (1, incH)] with fetch := fun u => if u = "inc.bare" then .script incScript else .missing }
def incProg : List Stmt :=
  [.function 0 (nm "f") [nm "x"] false false incF.body, .expr (some (nm "x")) (.string "G"),
   .expr (some (nm "r")) (callE "f" [.string "A"]), logE (va "x"), logE (callE "h" [])]

/-- `f("A")` includes the script: its read of `x` sees the GLOBAL "G" (not the parameter "A"), its assignments reach the
globals, `f`'s parameter is still "A" afterwards, the early `return` ended only the included script (no `late`) -/
example : obs (execute incCfg 100 incProg none (start []))
    = ⟨"done", none, ["G", "A", "inc", "inc"],
       [(nm "f", .fn (.script 0)), (nm "x", .str "inc"), (nm "fresh", .num 1), (nm "h", .fn (.script 1)), (nm "r", .str "A")]⟩ := by
  decide +kernel
/-- the hypotheses of `include_continues_with_same_locals` / `included_script_runs_at_top_level` on this instance -/
example : incF.body[0]? = some (.include [{ url := "inc.bare", system := false }]) := rfl
example : incCfg.fetch (incCfg.resolve none { url := "inc.bare", system := false }) = .script incScript := by
  simp [incCfg, xcfg]
example : BudgetOk incCfg (start []) := by unfold BudgetOk; decide

/-- a host without `systemGlobalSet`: every tree of the remaining library is free of `globalSet` requests -/
def hostNoSet : Host World :=
  { host with lib := fun name args w => if name = "systemGlobalSet" then fail .null w else lib name args w }

theorem indexOfFn_noSet (f : Value) : ∀ (xs : List Value) (i : Nat) (w : World), NoGlobalSet (indexOfFn f xs i w)
  | [], i, w => TreeWrites.ret _ _
  | x :: xs, i, w => by
      unfold indexOfFn
      refine TreeWrites.call _ _ _ _ ?_
      intro r w1
      split
      · exact TreeWrites.ret _ _
      · exact indexOfFn_noSet f xs (i+1) w1

theorem hostNoSet_lib (name : String) (args : List Value) (w : World) : NoGlobalSet (hostNoSet.lib name args w) := by
  show NoGlobalSet (if name = "systemGlobalSet" then fail .null w else lib name args w)
  split
  · exact TreeWrites.ret _ _
  · rename_i hne
    unfold HostImpl.lib
    simp -failIfUnchanged only []
    repeat' split
    all_goals first
      | exact TreeWrites.ret _ _
      | exact indexOfFn_noSet _ _ _ _
      | exact TreeWrites.globalGet _ _ _ (fun _ _ => TreeWrites.ret _ _)
      | exact absurd rfl hne

theorem hostNoSet_other (k : Nat) (args : List Value) (w : World) : NoGlobalSet (hostNoSet.other k args w) := by
  show NoGlobalSet (HostImpl.other k args w)
  unfold HostImpl.other
  split
  · exact TreeWrites.call _ _ _ _ (fun _ _ => TreeWrites.ret _ _)
  · exact TreeWrites.ret _ _

/-- the hypotheses of `assign_local_only` hold for the two functions above on that host … -/
example : ∀ id fd, (xcfg hostNoSet [(0, scopeF), (1, scopeG)]).funs id = some fd → ∀ s ∈ fd.body, NoGlobalStmt s := by
  intro id fd h s hs
  match id with
  | 0 => cases h; revert s; decide
  | 1 => cases h; revert s; decide
  | n+2 => cases h

/-- … so the theorem applies to every run of `f`'s body: the globals come back unchanged (here observed) -/
example : Res.globals? (execM (xcfg hostNoSet [(0, scopeF), (1, scopeG)]) 100 scopeF.body (some []) none [] 0
      { globals := [(nm "x", .num 5), (nm "g", .fn (.script 1)), (nm "systemLog", .fn (.lib "systemLog"))], world := {}, count := 0 })
    = some [(nm "x", .num 5), (nm "g", .fn (.script 1)), (nm "systemLog", .fn (.lib "systemLog"))] := by decide +kernel

/-- on the full host `systemGlobalSet` is the explicit way out: `globals_frame` with `S = {x}` -/
def setF : FuncDef :=
  { name := nm "f", args := [], lastArgArray := false,
    body := [.expr (some (nm "x")) (.number 1), .expr none (callE "systemGlobalSet" [.string "x", .number 2]),
             .ret (some (callE "systemGlobalGet" [.string "x"]))] }
example : obs (execute (xcfg host [(0, setF)]) 100
      [.function 0 (nm "f") [] false false setF.body, .expr (some (nm "x")) (.number 5), .expr (some (nm "r")) (callE "f" [])]
      none (start []))
    = ⟨"done", none, [], [(nm "f", .fn (.script 0)), (nm "x", .num 2), (nm "r", .num 2)]⟩ := by decide +kernel

/-! ### lookup order and built-ins -/

example : lookupVar (some [(nm "x", .num 1)]) [(nm "x", .num 2), (nm "y", .num 3)] (nm "x") = .num 1 := by decide
example : lookupVar (some [(nm "x", .num 1)]) [(nm "x", .num 2), (nm "y", .num 3)] (nm "y") = .num 3 := by decide
example : lookupVar (some [(nm "x", .num 1)]) [(nm "x", .num 2), (nm "y", .num 3)] (nm "q") = .null := by decide
/-- a local bound to null still hides the global (bound ≠ non-null) -/
example : lookupVar (some [(nm "x", .null)]) [(nm "x", .num 2)] (nm "x") = .null := by decide

/-- expression mode: a host with the built-in `max`; a global or a local named `max` wins, otherwise the built-in -/
def bcfg : Config World :=
  { host := { host with builtin := fun n => if n = nm "max" then some (.lib "mathMax") else none },
    funs := fun _ => none, maxStatements := 0, builtins := true }
example : lookupFunc bcfg none [] (nm "max") = some (.fn (.lib "mathMax")) := by decide
example : lookupFunc bcfg none [(nm "max", .fn (.script 3))] (nm "max") = some (.fn (.script 3)) := by decide
example : lookupFunc bcfg (some [(nm "max", .fn (.script 4))]) [(nm "max", .fn (.script 3))] (nm "max")
    = some (.fn (.script 4)) := by decide
example : lookupFunc { bcfg with builtins := false } none [] (nm "max") = none := by decide

/-! ### host globals and the library -/

/-- the caller shadows `arrayLength` and `systemLog`; the injection keeps both, adds the rest -/
def shadow : Env := [(nm "arrayLength", .num 5), (nm "x", .str "s"), (nm "systemLog", .null)]
example : (inject libTable shadow).get? (nm "arrayLength") = some (.num 5) := by decide +kernel
example : (inject libTable shadow).get? (nm "systemLog") = some .null := by decide +kernel
example : (inject libTable shadow).get? (nm "arrayPush") = some (.fn (.lib "arrayPush")) := by decide +kernel
example : (inject libTable shadow).take 3 = shadow := by decide +kernel
example : (inject libTable shadow).length = 3 + 16 := by decide +kernel

/-- a host global `arrayLength = 5` makes the call `arrayLength(a)` a call of a non-function: null (the wrapper swallows
the TypeError), while the untouched `arrayNew` still works -/
example : obs (execute (xcfg host []) 50
      [.expr (some (nm "a")) (callE "arrayNew" [.number 1]), .expr (some (nm "n")) (callE "arrayLength" [va "a"]),
       .ret (some (va "arrayLength"))] none (start [(nm "arrayLength", .num 5)]))
    = ⟨"ret", some (.num 5), [], [(nm "arrayLength", .num 5), (nm "a", .arr 0), (nm "n", .null)]⟩ := by decide +kernel

/-- a script function named like a library function replaces it (for every later call, from every scope) -/
def lenDef : FuncDef := { name := nm "arrayLength", args := [nm "a"], lastArgArray := false, body := [.ret (some (.number 42))] }
example : obs (execute (xcfg host [(0, lenDef)]) 50
      [.expr (some (nm "before")) (callE "arrayLength" [callE "arrayNew" [.number 1]]),
       .function 0 (nm "arrayLength") [nm "a"] false false lenDef.body,
       .expr (some (nm "after")) (callE "arrayLength" [callE "arrayNew" [.number 1]])] none (start []))
    = ⟨"done", none, [], [(nm "arrayLength", .fn (.script 0)), (nm "before", .num 1), (nm "after", .num 42)]⟩ := by
  decide +kernel

/-! ### call-backs and partial applications bind parameters like direct calls -/

/-- `p(a, b...)` logs its parameters; called directly, through a variable, through `systemPartial`, and as the predicate
of `arrayIndexOf` (one argument per element; the first truthy result, at index 1, ends the search) -/
def pDef : FuncDef :=
  { name := nm "p", args := [nm "a", nm "b"], lastArgArray := true,
    body := [logE (va "a"), logE (va "b"), .ret (some (va "a"))] }
example : (obs (execute (xcfg host [(0, pDef)]) 200
      [.function 0 (nm "p") [nm "a", nm "b"] true false pDef.body,
       .expr none (callE "p" [.number 1, .number 2, .number 3]),
       .expr (some (nm "q")) (va "p"), .expr none (callE "q" []),
       .expr (some (nm "pp")) (callE "systemPartial" [va "p", .number 8, .number 9]), .expr none (callE "pp" [.number 10]),
       .expr (some (nm "ix")) (callE "arrayIndexOf" [callE "arrayNew" [.number 0, .number 7, .number 3], va "p"]),
       .ret (some (va "ix"))] none (start []))).log
    = ["1", "[2,3]", "null", "[]", "8", "[9,10]", "0", "[]", "7", "[]"] := by decide +kernel

end Examples

end C04
