import BareModel.Gen.Regex

/-! C14 — generated-table obligation, kept in its own module so that a changed pattern breaks exactly this obligation. -/

namespace C14

/-- The clean-up pattern of `value.py` (regenerated from the working tree on every run) is the one `Json.clean`
re-implements: a changed pattern breaks this obligation. -/
theorem cleanup_regex_is_modelled :
    Gen.regexes.filter (fun e => e.1 == "value._R_VALUE_JSON_NUMBER_CLEANUP") =
      [("value._R_VALUE_JSON_NUMBER_CLEANUP", "(\"(?:[^\"\\\\]|\\\\.)*\")|\\.0+(?=[,}\\]\\s]|$)", 32)] := by
  decide

end C14
