import BareModel.Schema
import BareProofs.C02PrintLemmas

/-!
# C07Schema — lemmas: the generated schema pinned type by type, the validator on the boundary's JSON (forward direction),
inversion of the validator (converse direction).  See `C07Schema.lean` for the property theorems.
-/

set_option linter.unusedSimpArgs false

namespace C07Schema
open Schema PJson Gen

/-! ## the generated table, one user type at a time

Every lemma is `rfl` against `Gen.schema`: a renamed / added / removed member, a changed `optional` flag, attribute, member type,
`union` flag or enum value in `model.BARE_SCRIPT_TYPES` breaks the lemma for that type (and with it `lake build BareProofs.C07Schema`). -/

abbrev S := Gen.schema

def msBareScript : List SMember := [
  { name := "statements", type := .array (.user "ScriptStatement") [], optional := false, attr := [] }]
def msScriptStatement : List SMember := [
  { name := "expr", type := .user "ExpressionStatement", optional := false, attr := [] },
  { name := "jump", type := .user "JumpStatement", optional := false, attr := [] },
  { name := "return", type := .user "ReturnStatement", optional := false, attr := [] },
  { name := "label", type := .builtin "string", optional := false, attr := [] },
  { name := "function", type := .user "FunctionStatement", optional := false, attr := [] },
  { name := "include", type := .user "IncludeStatement", optional := false, attr := [] }]
def msExpressionStatement : List SMember := [
  { name := "name", type := .builtin "string", optional := true, attr := [] },
  { name := "expr", type := .user "Expression", optional := false, attr := [] }]
def msJumpStatement : List SMember := [
  { name := "label", type := .builtin "string", optional := false, attr := [] },
  { name := "expr", type := .user "Expression", optional := true, attr := [] }]
def msReturnStatement : List SMember := [
  { name := "expr", type := .user "Expression", optional := true, attr := [] }]
def msFunctionStatement : List SMember := [
  { name := "async", type := .builtin "bool", optional := true, attr := [] },
  { name := "name", type := .builtin "string", optional := false, attr := [] },
  { name := "args", type := .array (.builtin "string") [], optional := true, attr := [("lenGT", 0)] },
  { name := "lastArgArray", type := .builtin "bool", optional := true, attr := [] },
  { name := "statements", type := .array (.user "ScriptStatement") [], optional := false, attr := [] }]
def msIncludeStatement : List SMember := [
  { name := "includes", type := .array (.user "IncludeScript") [], optional := false, attr := [("lenGT", 0)] }]
def msIncludeScript : List SMember := [
  { name := "url", type := .builtin "string", optional := false, attr := [] },
  { name := "system", type := .builtin "bool", optional := true, attr := [] }]
def msExpression : List SMember := [
  { name := "number", type := .builtin "float", optional := false, attr := [] },
  { name := "string", type := .builtin "string", optional := false, attr := [] },
  { name := "variable", type := .builtin "string", optional := false, attr := [] },
  { name := "function", type := .user "FunctionExpression", optional := false, attr := [] },
  { name := "binary", type := .user "BinaryExpression", optional := false, attr := [] },
  { name := "unary", type := .user "UnaryExpression", optional := false, attr := [] },
  { name := "group", type := .user "Expression", optional := false, attr := [] }]
def msBinaryExpression : List SMember := [
  { name := "op", type := .user "BinaryExpressionOperator", optional := false, attr := [] },
  { name := "left", type := .user "Expression", optional := false, attr := [] },
  { name := "right", type := .user "Expression", optional := false, attr := [] }]
def msUnaryExpression : List SMember := [
  { name := "op", type := .user "UnaryExpressionOperator", optional := false, attr := [] },
  { name := "expr", type := .user "Expression", optional := false, attr := [] }]
def msFunctionExpression : List SMember := [
  { name := "name", type := .builtin "string", optional := false, attr := [] },
  { name := "args", type := .array (.user "Expression") [], optional := true, attr := [] }]

theorem def_BareScript : lookupDef S "BareScript" = some (.struct false msBareScript) := by rfl
theorem def_ScriptStatement : lookupDef S "ScriptStatement" = some (.struct true msScriptStatement) := by rfl
theorem def_ExpressionStatement : lookupDef S "ExpressionStatement" = some (.struct false msExpressionStatement) := by rfl
theorem def_JumpStatement : lookupDef S "JumpStatement" = some (.struct false msJumpStatement) := by rfl
theorem def_ReturnStatement : lookupDef S "ReturnStatement" = some (.struct false msReturnStatement) := by rfl
theorem def_FunctionStatement : lookupDef S "FunctionStatement" = some (.struct false msFunctionStatement) := by rfl
theorem def_IncludeStatement : lookupDef S "IncludeStatement" = some (.struct false msIncludeStatement) := by rfl
theorem def_IncludeScript : lookupDef S "IncludeScript" = some (.struct false msIncludeScript) := by rfl
theorem def_Expression : lookupDef S "Expression" = some (.struct true msExpression) := by rfl
theorem def_BinaryExpression : lookupDef S "BinaryExpression" = some (.struct false msBinaryExpression) := by rfl
theorem def_UnaryExpression : lookupDef S "UnaryExpression" = some (.struct false msUnaryExpression) := by rfl
theorem def_FunctionExpression : lookupDef S "FunctionExpression" = some (.struct false msFunctionExpression) := by rfl
theorem def_BinaryExpressionOperator : lookupDef S "BinaryExpressionOperator" = some (.enum (BinOp.all.map BinOp.text)) := by rfl
theorem def_UnaryExpressionOperator : lookupDef S "UnaryExpressionOperator" = some (.enum ["-", "!"]) := by rfl

/-- the table has exactly these fourteen user types (nothing else is reachable or unreachable) -/
theorem schema_names : S.map (·.1) = ["BareScript", "ScriptStatement", "ExpressionStatement", "JumpStatement", "ReturnStatement",
    "FunctionStatement", "IncludeStatement", "IncludeScript", "Expression", "BinaryExpression", "BinaryExpressionOperator",
    "UnaryExpression", "UnaryExpressionOperator", "FunctionExpression"] := by rfl

/-! ## unfolding lemmas (so that `simp` never has to be given `val` itself) -/

theorem val_builtin (S : List (String × SDef)) (b : String) (j : PJson) : val S (.builtin b) j = valBuiltin b j := by
  simp [val]

theorem val_obj {S : List (String × SDef)} {n : String} {u : Bool} {ms : List SMember} (h : lookupDef S n = some (.struct u ms))
    (kvs : List (String × PJson)) : val S (.user n) (.obj kvs) = (valKVs S ms kvs).bind (finishStruct u ms) := by
  simp [val, h]

theorem val_arr (S : List (String × SDef)) (t : SType) (a : List (String × Int)) (xs : List PJson) :
    val S (.array t a) (.arr xs) = (valArr S t a xs).map PJson.arr := by
  simp [val]

/-! ## forward: the validator on what the boundary writes -/

theorem val_binop (op : BinOp) : val S (.user "BinaryExpressionOperator") (.str op.text) = some (.str op.text) := by
  cases op <;> rfl

theorem val_unop (op : UnOp) : val S (.user "UnaryExpressionOperator") (.str op.text) = some (.str op.text) := by
  cases op <;> rfl

mutual
theorem val_exprJ : ∀ e : Expr, val S (.user "Expression") (exprJ e) = some (exprW e)
  | .number q => by
      have hq := q.den_pos
      simp [exprJ, exprW, val_obj def_Expression, msExpression, mk, valKVs, findMember, val_builtin, valBuiltin, floatOf,
        Syntax.ratToJson, hq, Rat.mkRat_self, attrOk, finishStruct, nodupKeys, hasKey, order, lookupKV]
  | .string s => by
      simp [exprJ, exprW, val_obj def_Expression, msExpression, mk, valKVs, findMember, val_builtin, valBuiltin, attrOk,
        finishStruct, nodupKeys, hasKey, order, lookupKV]
  | .variable n => by
      simp [exprJ, exprW, val_obj def_Expression, msExpression, mk, valKVs, findMember, val_builtin, valBuiltin, attrOk,
        finishStruct, nodupKeys, hasKey, order, lookupKV]
  | .group e => by
      simp [exprJ, exprW, val_obj def_Expression, msExpression, mk, valKVs, findMember, val_exprJ e, attrOk, finishStruct,
        nodupKeys, hasKey, order, lookupKV]
  | .unary op e => by
      simp [exprJ, exprW, val_obj def_Expression, msExpression, val_obj def_UnaryExpression, msUnaryExpression, mk, valKVs,
        findMember, val_exprJ e, val_unop op, attrOk, finishStruct, nodupKeys, hasKey, order, lookupKV]
  | .binary op l r => by
      simp [exprJ, exprW, val_obj def_Expression, msExpression, val_obj def_BinaryExpression, msBinaryExpression, mk, valKVs,
        findMember, val_exprJ l, val_exprJ r, val_binop op, attrOk, finishStruct, nodupKeys, hasKey, order, lookupKV]
  | .function n args => by
      simp [exprJ, exprW, val_obj def_Expression, msExpression, val_obj def_FunctionExpression, msFunctionExpression, mk, valKVs,
        findMember, val_arr, val_exprsJ args, val_builtin, valBuiltin, attrOk, finishStruct, nodupKeys, hasKey, order, lookupKV]
theorem val_exprsJ : ∀ es : List Expr, valArr S (.user "Expression") [] (exprsJ es) = some (exprsW es)
  | [] => by simp [exprsJ, exprsW, valArr]
  | e :: r => by simp [exprsJ, exprsW, valArr, val_exprJ e, val_exprsJ r, attrOk]
end

theorem val_names : ∀ args : List Name, valArr S (.builtin "string") [] (args.map fun a => PJson.str a.render) =
    some (args.map fun a => PJson.str a.render)
  | [] => by simp [valArr]
  | a :: r => by simp [valArr, val_builtin, valBuiltin, attrOk, val_names r]

theorem val_incJ (i : IncludeScript) : val S (.user "IncludeScript") (incJ i) = some (incW i) := by
  cases i with
  | mk url system =>
    cases system <;>
      simp [incJ, incW, val_obj def_IncludeScript, msIncludeScript, mk, valKVs, findMember, val_builtin, valBuiltin, attrOk,
        finishStruct, nodupKeys, hasKey, order, lookupKV]

theorem val_incs : ∀ incs : List IncludeScript, valArr S (.user "IncludeScript") [] (incs.map incJ) = some (incs.map incW)
  | [] => by simp [valArr]
  | i :: r => by simp [valArr, val_incJ i, attrOk, val_incs r]

mutual
theorem val_stmtJ : ∀ s : Stmt, wfS s = true → val S (.user "ScriptStatement") (stmtJ s) = some (stmtW s)
  | .expr none e, _ => by
      simp [stmtJ, stmtW, val_obj def_ScriptStatement, msScriptStatement, val_obj def_ExpressionStatement, msExpressionStatement, mk,
        valKVs, findMember, val_exprJ e, attrOk, finishStruct, nodupKeys, hasKey, order, lookupKV]
  | .expr (some n) e, _ => by
      simp [stmtJ, stmtW, val_obj def_ScriptStatement, msScriptStatement, val_obj def_ExpressionStatement, msExpressionStatement, mk,
        valKVs, findMember, val_exprJ e, val_builtin, valBuiltin, attrOk, finishStruct, nodupKeys, hasKey, order, lookupKV]
  | .jump l none, _ => by
      simp [stmtJ, stmtW, val_obj def_ScriptStatement, msScriptStatement, val_obj def_JumpStatement, msJumpStatement, mk,
        valKVs, findMember, val_builtin, valBuiltin, attrOk, finishStruct, nodupKeys, hasKey, order, lookupKV]
  | .jump l (some c), _ => by
      simp [stmtJ, stmtW, val_obj def_ScriptStatement, msScriptStatement, val_obj def_JumpStatement, msJumpStatement, mk,
        valKVs, findMember, val_exprJ c, val_builtin, valBuiltin, attrOk, finishStruct, nodupKeys, hasKey, order, lookupKV]
  | .ret none, _ => by
      simp [stmtJ, stmtW, val_obj def_ScriptStatement, msScriptStatement, val_obj def_ReturnStatement, msReturnStatement, mk,
        valKVs, findMember, attrOk, finishStruct, nodupKeys, hasKey, order, lookupKV]
  | .ret (some e), _ => by
      simp [stmtJ, stmtW, val_obj def_ScriptStatement, msScriptStatement, val_obj def_ReturnStatement, msReturnStatement, mk,
        valKVs, findMember, val_exprJ e, attrOk, finishStruct, nodupKeys, hasKey, order, lookupKV]
  | .label l, _ => by
      simp [stmtJ, stmtW, val_obj def_ScriptStatement, msScriptStatement, mk,
        valKVs, findMember, val_builtin, valBuiltin, attrOk, finishStruct, nodupKeys, hasKey, order, lookupKV]
  | .include incs, h => by
      have hne : incs ≠ [] := by simpa [wfS] using h
      have hlen : 0 < incs.length := List.length_pos_iff.mpr hne
      simp [stmtJ, stmtW, val_obj def_ScriptStatement, msScriptStatement, val_obj def_IncludeStatement, msIncludeStatement, mk,
        valKVs, findMember, val_arr, val_incs incs, attrOk, attr1, jlen, hlen, finishStruct, nodupKeys, hasKey, order, lookupKV]
  | .function fid n args laa isAsync body, h => by
      have hb : wfL body = true := by simpa [wfS] using h
      have hbody := val_stmtsJ body hb
      cases args with
      | nil =>
        cases laa <;> cases isAsync <;>
          simp [stmtJ, stmtW, val_obj def_ScriptStatement, msScriptStatement, val_obj def_FunctionStatement, msFunctionStatement, mk,
            valKVs, findMember, val_arr, hbody, val_builtin, valBuiltin, attrOk, finishStruct, nodupKeys, hasKey, order, lookupKV]
      | cons a as =>
        have hn := val_names (a :: as)
        simp only [List.map_cons] at hn
        cases laa <;> cases isAsync <;>
          simp [stmtJ, stmtW, val_obj def_ScriptStatement, msScriptStatement, val_obj def_FunctionStatement, msFunctionStatement, mk,
            valKVs, findMember, val_arr, hbody, hn, val_builtin, valBuiltin, attrOk, attr1, jlen, finishStruct, nodupKeys, hasKey,
            order, lookupKV]
theorem val_stmtsJ : ∀ ss : List Stmt, wfL ss = true → valArr S (.user "ScriptStatement") [] (stmtsJ ss) = some (stmtsW ss)
  | [], _ => by simp [stmtsJ, stmtsW, valArr]
  | s :: r, h => by
      simp only [wfL, Bool.and_eq_true] at h
      simp [stmtsJ, stmtsW, valArr, val_stmtJ s h.1, val_stmtsJ r h.2, attrOk]
end

theorem val_scriptJ (P : List Stmt) (h : wfL P = true) : validate S "BareScript" (scriptJ P) = some (scriptW P) := by
  simp [validate, scriptJ, scriptW, val_obj def_BareScript, msBareScript, mk, valKVs, findMember, val_arr, val_stmtsJ P h, attrOk,
    finishStruct, nodupKeys, hasKey, order, lookupKV]

/-! ## converse: inversion of the validator -/

theorem lookupKV_cons (k' : String) (v : PJson) (r : List (String × PJson)) (k : String) :
    lookupKV ((k', v) :: r) k = if k' = k then some v else lookupKV r k := by
  by_cases h : k' = k <;> simp [lookupKV, List.find?_cons, h]

theorem hasKey_eq (kvs : List (String × PJson)) (k : String) : hasKey kvs k = (lookupKV kvs k).isSome := by
  induction kvs with
  | nil => simp [hasKey, lookupKV]
  | cons a r ih =>
    obtain ⟨k', v⟩ := a
    rw [lookupKV_cons]
    by_cases h : k' = k
    · simp [hasKey, h]
    · simp only [hasKey, List.any_cons] at ih ⊢
      simp [h, ih]

theorem mem_sizeOf {k : String} {v : PJson} : ∀ {kvs : List (String × PJson)}, (k, v) ∈ kvs → sizeOf v < sizeOf kvs
  | [], h => by simp at h
  | a :: r, h => by
      rcases List.mem_cons.mp h with h | h
      · subst h; simp; omega
      · have := mem_sizeOf h; simp; omega

theorem mem_sizeOf_list {x : PJson} : ∀ {xs : List PJson}, x ∈ xs → sizeOf x < sizeOf xs
  | [], h => by simp at h
  | a :: r, h => by
      rcases List.mem_cons.mp h with h | h
      · subst h; simp; omega
      · have := mem_sizeOf_list h; simp; omega

/-- every validated member came from a member of the input with that key, validated against the struct member of that name -/
theorem valKVs_lookup {S : List (String × SDef)} {ms : List SMember} :
    ∀ {kvs out : List (String × PJson)}, valKVs S ms kvs = some out → ∀ {k : String} {v' : PJson}, lookupKV out k = some v' →
      ∃ v m, (k, v) ∈ kvs ∧ findMember ms k = some m ∧ val S m.type v = some v' ∧ attrOk m.attr v' = true
  | [], out, h, k, v', hl => by
      simp [valKVs] at h; subst h; simp [lookupKV] at hl
  | (k0, v0) :: r, out, h, k, v', hl => by
      simp only [valKVs] at h
      cases hm : findMember ms k0 with
      | none => simp [hm] at h
      | some m =>
        simp only [hm] at h
        cases hv : val S m.type v0 with
        | none => simp [hv] at h
        | some w =>
          simp only [hv] at h
          by_cases ha : attrOk m.attr w = true
          · simp only [ha, if_true, Option.map_eq_some_iff] at h
            obtain ⟨out', hr, rfl⟩ := h
            rw [lookupKV_cons] at hl
            by_cases hk : k0 = k
            · subst hk
              simp only [if_true, Option.some.injEq] at hl
              subst hl
              exact ⟨v0, m, List.mem_cons_self, hm, hv, ha⟩
            · simp only [hk, if_false] at hl
              obtain ⟨v, m', hmem, h1, h2, h3⟩ := valKVs_lookup hr hl
              exact ⟨v, m', List.mem_cons_of_mem _ hmem, h1, h2, h3⟩
          · simp [ha] at h

theorem valKVs_length {S : List (String × SDef)} {ms : List SMember} :
    ∀ {kvs out : List (String × PJson)}, valKVs S ms kvs = some out → out.length = kvs.length
  | [], out, h => by simp [valKVs] at h; subst h; rfl
  | (k0, v0) :: r, out, h => by
      simp only [valKVs] at h
      cases hm : findMember ms k0 with
      | none => simp [hm] at h
      | some m =>
        simp only [hm] at h
        cases hv : val S m.type v0 with
        | none => simp [hv] at h
        | some w =>
          simp only [hv] at h
          by_cases ha : attrOk m.attr w = true
          · simp only [ha, if_true, Option.map_eq_some_iff] at h
            obtain ⟨out', hr, rfl⟩ := h
            simp [valKVs_length hr]
          · simp [ha] at h

/-- a validated struct value (not a union): where its members come from -/
theorem val_struct_inv {S : List (String × SDef)} {n : String} {ms : List SMember} {j j' : PJson}
    (hd : lookupDef S n = some (.struct false ms)) (h : val S (.user n) j = some j') :
    ∃ kvs out, valKVs S ms kvs = some out ∧ (∀ k v, (k, v) ∈ kvs → sizeOf v < sizeOf j) ∧
      (∀ m ∈ ms, m.optional = false → (lookupKV out m.name).isSome = true) ∧ j' = .obj (order ms out) := by
  cases j with
  | obj kvs =>
    rw [val_obj hd] at h
    cases ho : valKVs S ms kvs with
    | none => simp [ho] at h
    | some out =>
      simp only [ho, Option.bind_some, finishStruct] at h
      split at h
      · cases h
      · simp only [Bool.false_eq_true, if_false] at h
        split at h
        · rename_i hall
          refine ⟨kvs, out, ho, ?_, ?_, by simpa using h.symm⟩
          · intro k v hmem
            have := mem_sizeOf hmem
            simp; omega
          · intro m hm hopt
            have := List.all_eq_true.mp hall m hm
            simpa [hopt, hasKey_eq] using this
        · cases h
  | str s =>
    simp only [val, hd] at h
    split at h
    · simp only [finishStruct] at h
      split at h
      · cases h
      · simp only [Bool.false_eq_true, if_false] at h
        split at h
        · rename_i hall
          refine ⟨[], [], by simp [valKVs], by simp, ?_, by simpa using h.symm⟩
          intro m hm hopt
          have := List.all_eq_true.mp hall m hm
          simpa [hopt, hasKey_eq] using this
        · cases h
    · cases h
  | null => simp [val, hd] at h
  | bool b => simp [val, hd] at h
  | num n => simp [val, hd] at h
  | raw s => simp [val, hd] at h
  | arr xs => simp [val, hd] at h

/-- a validated union value: exactly one member, of a known name -/
theorem val_union_inv {S : List (String × SDef)} {n : String} {ms : List SMember} {j j' : PJson}
    (hd : lookupDef S n = some (.struct true ms)) (h : val S (.user n) j = some j') :
    ∃ k v v' m, j = .obj [(k, v)] ∧ findMember ms k = some m ∧ val S m.type v = some v' ∧ attrOk m.attr v' = true ∧
      j' = .obj (order ms [(k, v')]) := by
  cases j with
  | obj kvs =>
    rw [val_obj hd] at h
    cases ho : valKVs S ms kvs with
    | none => simp [ho] at h
    | some out =>
      have hlen := valKVs_length ho
      simp only [ho, Option.bind_some, finishStruct] at h
      split at h
      · cases h
      · simp only [if_true] at h
        split at h
        · rename_i h1
          have h1 : out.length = 1 := by simpa using h1
          match kvs, hlen, ho with
          | [(k, v)], _, ho =>
            simp only [valKVs] at ho
            cases hm : findMember ms k with
            | none => simp [hm] at ho
            | some m =>
              simp only [hm] at ho
              cases hv : val S m.type v with
              | none => simp [hv] at ho
              | some w =>
                simp only [hv] at ho
                by_cases ha : attrOk m.attr w = true
                · simp only [ha, if_true, Option.map_some, Option.some.injEq] at ho
                  subst ho
                  exact ⟨k, v, w, m, rfl, hm, hv, ha, by simpa using h.symm⟩
                · simp [ha] at ho
          | [], hlen, _ => simp [h1] at hlen
          | _ :: _ :: _, hlen, _ => simp [h1] at hlen
        · cases h
  | str s =>
    simp only [val, hd] at h
    split at h
    · simp [finishStruct, nodupKeys] at h
    · cases h
  | null => simp [val, hd] at h
  | bool b => simp [val, hd] at h
  | num n => simp [val, hd] at h
  | raw s => simp [val, hd] at h
  | arr xs => simp [val, hd] at h

/-- built-in `string`: the value is a string and is returned unchanged -/
theorem val_string_inv {S : List (String × SDef)} {j j' : PJson} (h : val S (.builtin "string") j = some j') :
    ∃ s, j = .str s ∧ j' = .str s := by
  rw [val_builtin] at h
  cases j <;> simp [valBuiltin] at h
  exact ⟨_, rfl, h.symm⟩

/-- built-in `bool`: the validated value is a bool -/
theorem val_bool_inv {S : List (String × SDef)} {j j' : PJson} (h : val S (.builtin "bool") j = some j') : ∃ b, j' = .bool b := by
  rw [val_builtin] at h
  cases j <;> simp [valBuiltin] at h
  · exact ⟨_, h.symm⟩
  · rename_i s
    by_cases h1 : s = "true"
    · simp [h1] at h; exact ⟨_, h.symm⟩
    · by_cases h2 : s = "false"
      · simp [h2] at h; exact ⟨_, h.symm⟩
      · simp [h1, h2] at h

/-- built-in `float`: the validated value is the wire form of a rational -/
theorem val_float_inv {S : List (String × SDef)} {j j' : PJson} (h : val S (.builtin "float") j = some j') :
    ∃ q : Rat, j' = Syntax.ratToJson q := by
  rw [val_builtin] at h
  simp only [valBuiltin] at h
  simp at h
  obtain ⟨q, _, hq⟩ := h
  exact ⟨q, hq.symm⟩

/-- array: the validated value is an array, element by element (an empty string counts as the empty array) -/
theorem val_array_inv {S : List (String × SDef)} {t : SType} {a : List (String × Int)} {j j' : PJson}
    (h : val S (.array t a) j = some j') :
    ∃ xs xs', valArr S t a xs = some xs' ∧ j' = .arr xs' ∧ (∀ x ∈ xs, sizeOf x < sizeOf j) := by
  cases j with
  | arr xs =>
    rw [val_arr] at h
    simp only [Option.map_eq_some_iff] at h
    obtain ⟨xs', h1, h2⟩ := h
    refine ⟨xs, xs', h1, h2.symm, ?_⟩
    intro x hx
    have := mem_sizeOf_list hx
    simp; omega
  | str s =>
    simp only [val] at h
    split at h
    · exact ⟨[], [], by simp [valArr], by simpa using h.symm, by simp⟩
    · cases h
  | null => simp [val] at h
  | bool b => simp [val] at h
  | num n => simp [val] at h
  | raw s => simp [val] at h
  | obj xs => simp [val] at h

theorem valArr_cons_inv {S : List (String × SDef)} {t : SType} {a : List (String × Int)} {x : PJson} {r ys : List PJson}
    (h : valArr S t a (x :: r) = some ys) :
    ∃ x' r', val S t x = some x' ∧ attrOk a x' = true ∧ valArr S t a r = some r' ∧ ys = x' :: r' := by
  simp only [valArr] at h
  cases hv : val S t x with
  | none => simp [hv] at h
  | some x' =>
    simp only [hv] at h
    by_cases ha : attrOk a x' = true
    · simp only [ha, if_true, Option.map_eq_some_iff] at h
      obtain ⟨r', h1, h2⟩ := h
      exact ⟨x', r', rfl, ha, h1, h2.symm⟩
    · simp [ha] at h

theorem valArr_length {S : List (String × SDef)} {t : SType} {a : List (String × Int)} :
    ∀ {xs ys : List PJson}, valArr S t a xs = some ys → ys.length = xs.length
  | [], ys, h => by simp [valArr] at h; subst h; rfl
  | x :: r, ys, h => by
      obtain ⟨x', r', _, _, h3, rfl⟩ := valArr_cons_inv h
      simp [valArr_length h3]

end C07Schema
