import BareProofs.C19Lemmas
import BareProofs.C13Lemmas

/-!
C19, dataJoin: the field-name maps, the unique-name search (fuel suffices), `joinRow` keeps the left row as a prefix, and the
bucketed loop is the relational join.
-/

namespace C19
open Compare Data

/-! ## field names -/

theorem mem_foldl_addName (n : String) : ∀ (row : Row) (acc : List String),
    n ∈ row.foldl (fun acc p => if acc.contains p.1 then acc else acc ++ [p.1]) acc ↔ n ∈ acc ∨ n ∈ row.map (·.1)
  | [], acc => by simp
  | p :: row, acc => by
    rw [List.foldl_cons, mem_foldl_addName n row]
    by_cases h : acc.contains p.1 = true
    · have hp : p.1 ∈ acc := by simpa using h
      simp only [h, if_true, List.map_cons, List.mem_cons]
      constructor
      · rintro (h1 | h1)
        · exact .inl h1
        · exact .inr (.inr h1)
      · rintro (h1 | h1 | h1)
        · exact .inl h1
        · exact .inl (h1 ▸ hp)
        · exact .inr h1
    · simp only [h, Bool.false_eq_true, if_false, List.map_cons, List.mem_cons, List.mem_append, List.not_mem_nil, or_false]
      constructor
      · rintro ((h1 | h1) | h1)
        · exact .inl h1
        · exact .inr (.inl h1)
        · exact .inr (.inr h1)
      · rintro (h1 | h1 | h1)
        · exact .inl (.inl h1)
        · exact .inl (.inr h1)
        · exact .inr h1

theorem mem_fieldNames_aux (n : String) : ∀ (data : Table) (acc : List String),
    n ∈ data.foldl (fun acc row => row.foldl (fun acc p => if acc.contains p.1 then acc else acc ++ [p.1]) acc) acc ↔
      n ∈ acc ∨ ∃ row ∈ data, n ∈ row.map (·.1)
  | [], acc => by simp
  | row :: data, acc => by
    rw [List.foldl_cons, mem_fieldNames_aux n data, mem_foldl_addName]
    constructor
    · rintro ((h | h) | ⟨r, hr, h⟩)
      · exact .inl h
      · exact .inr ⟨row, by simp, h⟩
      · exact .inr ⟨r, by simp [hr], h⟩
    · rintro (h | ⟨r, hr, h⟩)
      · exact .inl (.inl h)
      · rcases List.mem_cons.mp hr with e | e
        · subst e; exact .inl (.inr h)
        · exact .inr ⟨r, e, h⟩

/-- the field names of a table: exactly the keys occurring in some row -/
theorem mem_fieldNames (n : String) (data : Table) : n ∈ fieldNames data ↔ ∃ row ∈ data, n ∈ row.map (·.1) := by
  simpa [fieldNames] using mem_fieldNames_aux n data []

/-! ## `name ++ str(ix)` -/

theorem numStr_injective (a b : Nat) (h : numStr a = numStr b) : a = b := by
  have h' : NumText.natStr a = NumText.natStr b := by
    have := congrArg String.toList h
    simpa [numStr, String.toList_ofList] using this
  have := congrArg NumText.natOf h'
  simpa [C13.natOf_natStr] using this

theorem candidate_injective (name : String) (a b : Nat) (h : name ++ numStr a = name ++ numStr b) : a = b := by
  have := congrArg String.toList h
  simp only [String.toList_append] at this
  exact numStr_injective a b (String.toList_inj.mp (List.append_cancel_left this))

/-- what the `while` loop returns -/
theorem uniqueName_spec (taken : String → Bool) (name : String) : ∀ (fuel ix : Nat) (u : String), uniqueName taken name fuel ix = some u →
    ∃ k, ix ≤ k ∧ u = name ++ numStr k ∧ taken u = false ∧ ∀ j, ix ≤ j → j < k → taken (name ++ numStr j) = true
  | 0, _, _, h => by simp [uniqueName] at h
  | fuel + 1, ix, u, h => by
    simp only [uniqueName] at h
    by_cases ht : taken (name ++ numStr ix) = true
    · simp only [ht, if_true] at h
      obtain ⟨k, hk, hu, hf, hall⟩ := uniqueName_spec taken name fuel (ix + 1) u h
      refine ⟨k, by omega, hu, hf, fun j hj hjk => ?_⟩
      by_cases e : j = ix
      · subst e; exact ht
      · exact hall j (by omega) hjk
    · simp only [ht, Bool.false_eq_true, if_false, Option.some.injEq] at h
      subst h
      exact ⟨ix, Nat.le_refl _, rfl, by simpa using ht, fun j hj hjk => by omega⟩

theorem uniqueName_none (taken : String → Bool) (name : String) : ∀ (fuel ix : Nat), uniqueName taken name fuel ix = none →
    ∀ j, j < fuel → taken (name ++ numStr (ix + j)) = true
  | 0, _, _, j, hj => by omega
  | fuel + 1, ix, h, j, hj => by
    simp only [uniqueName] at h
    by_cases ht : taken (name ++ numStr ix) = true
    · simp only [ht, if_true] at h
      cases j with
      | zero => simpa using ht
      | succ j =>
        have := uniqueName_none taken name fuel (ix + 1) h j (by omega)
        rwa [show ix + 1 + j = ix + (j + 1) by omega] at this
    · simp [ht] at h

/-- the loop terminates within `|taken| + 1` steps: the candidates are pairwise different (pigeonhole) -/
theorem uniqueName_fuel (taken : String → Bool) (T : List String) (hT : ∀ u, taken u = true → u ∈ T) (name : String)
    (fuel ix : Nat) (hf : T.length < fuel) : ∃ u, uniqueName taken name fuel ix = some u := by
  cases h : uniqueName taken name fuel ix with
  | some u => exact ⟨u, rfl⟩
  | none =>
    exfalso
    have hall := uniqueName_none taken name fuel ix h
    let cands := (List.range fuel).map (fun j => name ++ numStr (ix + j))
    have hnd : cands.Nodup := by
      refine List.Pairwise.map _ (fun a b hab he => hab ?_) List.nodup_range
      have := candidate_injective name _ _ he
      omega
    have hsub : cands ⊆ T := by
      intro u hu
      obtain ⟨j, hj, rfl⟩ := List.mem_map.mp hu
      exact hT _ (hall j (by simpa using hj))
    have := hnd.length_le_of_subset hsub
    simp [cands] at this
    omega

/-! ## the `right_names` dict -/

theorem taken_iff (left raw : List String) (accKeys : List String) (hacc : ∀ k ∈ accKeys, k ∈ raw) (u : String) :
    (left.contains u || accKeys.contains u || raw.contains u) = true ↔ (u ∈ left ∨ u ∈ raw) := by
  simp only [Bool.or_eq_true, List.contains_eq_mem, decide_eq_true_eq]
  constructor
  · rintro ((h | h) | h)
    · exact .inl h
    · exact .inr (hacc u h)
    · exact .inr h
  · rintro (h | h)
    · exact .inl (.inl h)
    · exact .inr h

/-- the loop over the raw right names never gets stuck, maps exactly the raw names in order, each to its joined name -/
theorem rightNamesLoop_ok (left raw : List String) : ∀ (todo : List String) (acc : List (String × String)),
    acc.map (·.1) ++ todo = raw → (∀ p ∈ acc, IsJoinedName left raw p.1 p.2) →
    ∃ names, rightNamesLoop left raw todo acc = some names ∧ names.map (·.1) = raw ∧ ∀ p ∈ names, IsJoinedName left raw p.1 p.2
  | [], acc, hraw, hacc => ⟨acc, rfl, by simpa using hraw, hacc⟩
  | name :: todo, acc, hraw, hacc => by
    have hkeys : ∀ k ∈ acc.map (·.1), k ∈ raw := fun k hk => hraw ▸ List.mem_append_left _ hk
    by_cases hl : left.contains name = true
    · have hmem : name ∈ left := by simpa using hl
      let taken := fun u => left.contains u || (acc.map (·.1)).contains u || raw.contains u
      have hlen : (acc.map (·.1)).length ≤ raw.length := by rw [← hraw]; simp
      obtain ⟨u, hu⟩ := uniqueName_fuel taken (left ++ raw)
        (fun u hu => by
          rcases (taken_iff left raw _ hkeys u).mp hu with h | h
          · exact List.mem_append_left _ h
          · exact List.mem_append_right _ h)
        name (left.length + raw.length + raw.length + 1) 2 (by simp; omega)
      obtain ⟨k, hk, hue, hfree, hall⟩ := uniqueName_spec taken name _ 2 u hu
      have hj : IsJoinedName left raw name u := by
        unfold IsJoinedName
        simp only [hmem, if_true]
        have hfree' : ¬ (u ∈ left ∨ u ∈ raw) := fun h => by
          have := (taken_iff left raw _ hkeys u).mpr h
          simp [taken] at hfree
          simp [hfree] at this
        refine ⟨k, hk, hue, fun h => hfree' (.inl h), fun h => hfree' (.inr h), fun j hj hjk => ?_⟩
        exact (taken_iff left raw _ hkeys _).mp (hall j hj hjk)
      have ih := rightNamesLoop_ok left raw todo (acc ++ [(name, u)]) (by simpa using hraw)
        (fun p hp => by
          rcases List.mem_append.mp hp with h | h
          · exact hacc p h
          · have : p = (name, u) := by simpa using h
            subst this; exact hj)
      have e : rightNamesLoop left raw (name :: todo) acc = rightNamesLoop left raw todo (acc ++ [(name, u)]) := by
        simp only [rightNamesLoop, hl, Bool.not_true, Bool.false_eq_true, if_false]
        show (match uniqueName taken name _ 2 with
          | none => none
          | some u => rightNamesLoop left raw todo (acc ++ [(name, u)])) = _
        rw [hu]
      rw [e]; exact ih
    · have hl' : left.contains name = false := by simpa using hl
      have hnot : name ∉ left := by simpa using hl
      have hj : IsJoinedName left raw name name := by simp [IsJoinedName, hnot]
      have ih := rightNamesLoop_ok left raw todo (acc ++ [(name, name)]) (by simpa using hraw)
        (fun p hp => by
          rcases List.mem_append.mp hp with h | h
          · exact hacc p h
          · have : p = (name, name) := by simpa using h
            subst this; exact hj)
      have e : rightNamesLoop left raw (name :: todo) acc = rightNamesLoop left raw todo (acc ++ [(name, name)]) := by
        simp only [rightNamesLoop, hl', Bool.not_false, if_true]
      rw [e]; exact ih

/-- a joined name is never a left field name -/
theorem IsJoinedName.not_left {left raw : List String} {n u : String} (h : IsJoinedName left raw n u) : u ∉ left := by
  unfold IsJoinedName at h
  split at h
  · obtain ⟨_, _, _, h1, _⟩ := h; exact h1
  · subst h; assumption

/-! ## the joined row -/

/-- `right_names[n]` as a function (identity outside the dict) -/
def renameOf (names : List (String × String)) (n : String) : String := (bucketLookup n names).getD n

/-- SPEC of one joined row: the left row, then every right field assigned under its joined name -/
def mergeRow (rename : String → String) (left right : Row) : Row :=
  right.foldl (fun jr p => rowSet (rename p.1) p.2 jr) left

theorem bucketLookup_some_of_mem {β : Type} (n : String) : ∀ names : List (String × β), n ∈ names.map (·.1) → ∃ u, bucketLookup n names = some u
  | [], h => by simp at h
  | (k, v) :: rest, h => by
    by_cases e : k = n
    · exact ⟨v, by simp [bucketLookup, e]⟩
    · have : n ∈ rest.map (·.1) := by
        rw [List.map_cons, List.mem_cons] at h
        rcases h with h1 | h1
        · exact absurd h1.symm e
        · exact h1
      obtain ⟨u, hu⟩ := bucketLookup_some_of_mem n rest this
      exact ⟨u, by simp [bucketLookup, e, hu]⟩

theorem bucketLookup_mem {β : Type} (n : String) (u : β) : ∀ names : List (String × β), bucketLookup n names = some u → (n, u) ∈ names
  | [], h => by simp [bucketLookup] at h
  | (k, v) :: rest, h => by
    by_cases e : k = n
    · simp [bucketLookup, e] at h; subst e; subst h; simp
    · simp only [bucketLookup, e, if_false] at h
      exact List.mem_cons_of_mem _ (bucketLookup_mem n u rest h)

/-- no `KeyError`: every field of a right row is a key of the dict -/
theorem joinRow_eq (names : List (String × String)) : ∀ (right left : Row), (∀ p ∈ right, p.1 ∈ names.map (·.1)) →
    joinRow names left right = some (mergeRow (renameOf names) left right)
  | [], left, _ => rfl
  | (n, v) :: rest, left, h => by
    obtain ⟨u, hu⟩ := bucketLookup_some_of_mem n names (h (n, v) (by simp))
    have ih := joinRow_eq names rest (rowSet u v left) (fun p hp => h p (by simp [hp]))
    simp [joinRow, hu, ih, mergeRow, renameOf]

/-- the joined row extends the left row: nothing of the left row moves or changes -/
theorem mergeRow_prefix (rename : String → String) (left : Row) : ∀ (right ext : Row), (∀ p ∈ right, rename p.1 ∉ left.map (·.1)) →
    ∃ ext', right.foldl (fun jr p => rowSet (rename p.1) p.2 jr) (left ++ ext) = left ++ ext'
  | [], ext, _ => ⟨ext, rfl⟩
  | p :: rest, ext, h => by
    rw [List.foldl_cons, rowSet_append _ _ _ _ (h p (by simp))]
    exact mergeRow_prefix rename left rest _ (fun q hq => h q (by simp [hq]))

/-- every right field is found in the joined row under its joined name, unless a later right field was given the same name -/
theorem rowGet_mergeRow (rename : String → String) : ∀ (right left : Row) (n : String) (v : PValue),
    (right.map (·.1)).Nodup → (n, v) ∈ right → (∀ p ∈ right, p.1 ≠ n → rename p.1 ≠ rename n) →
    rowGet (rename n) (mergeRow rename left right) = v
  | [], _, _, _, _, h, _ => by simp at h
  | (k, w) :: rest, left, n, v, hnd, hmem, hinj => by
    have hnd0 : (k :: rest.map (·.1)).Nodup := hnd
    have ⟨hk, hnd'⟩ := List.nodup_cons.mp hnd0
    simp only [mergeRow, List.foldl_cons]
    rcases List.mem_cons.mp hmem with e | e
    · have e1 : n = k := (Prod.mk.inj e).1
      have e2 : v = w := (Prod.mk.inj e).2
      subst e1; subst e2
      -- the remaining right fields have other joined names: the value stays
      have : ∀ (rest' : Row) (cur : Row), (∀ p ∈ rest', rename p.1 ≠ rename n) → rowGet (rename n) cur = v →
          rowGet (rename n) (rest'.foldl (fun jr p => rowSet (rename p.1) p.2 jr) cur) = v := by
        intro rest'
        induction rest' with
        | nil => intro cur _ h; exact h
        | cons q rest' ih =>
          intro cur hq h
          rw [List.foldl_cons]
          refine ih _ (fun p hp => hq p (by simp [hp])) ?_
          rw [rowGet_rowSet_other _ _ _ _ (fun e => hq q (by simp) e.symm)]; exact h
      refine this rest _ (fun p hp => hinj p (by simp [hp]) (fun e => hk ?_)) (rowGet_rowSet_same _ _ _)
      rw [← e]; exact List.mem_map_of_mem hp
    · exact rowGet_mergeRow rename rest _ n v hnd' e (fun p hp => hinj p (by simp [hp]))

/-! ## the bucketed loop is the relational join -/

theorem bucketRowsM_total (kr : Row → PValue) : ∀ (rows : Table) (acc : List (Key × List Row)),
    bucketRowsM (fun r => some (kr r)) rows acc = some (rows.foldl (fun bs r => bucketAdd (bucketKey (kr r)) r bs) acc)
  | [], _ => rfl
  | r :: rows, acc => by simp [bucketRowsM, bucketRowsM_total kr rows]

theorem bucketRowsM_none (eval : Row → Option PValue) : ∀ (rows : Table) (acc : List (Key × List Row)),
    (∃ r ∈ rows, eval r = none) → bucketRowsM eval rows acc = none
  | [], _, h => by simp at h
  | row :: rest, acc, h => by
    cases he : eval row with
    | none => simp [bucketRowsM, he]
    | some v =>
      obtain ⟨r, hr, hn⟩ := h
      rcases List.mem_cons.mp hr with e | e
      · subst e; rw [he] at hn; cases hn
      · simp only [bucketRowsM, he]
        exact bucketRowsM_none eval rest _ ⟨r, e, hn⟩

/-- one left row of the relational join -/
def joinOne (kl kr : Row → PValue) (merge : Row → Row → Row) (keepUnmatched : Bool) (rightData : Table) (l : Row) : Table :=
  let partners := rightData.filter (fun r => bucketKey (kr r) = bucketKey (kl l))
  if partners.isEmpty then (if keepUnmatched then [l] else []) else partners.map (merge l)

theorem joinSpec_eq (kl kr : Row → PValue) (merge : Row → Row → Row) (keep : Bool) (L R : Table) :
    joinSpec kl kr merge keep L R = L.flatMap (joinOne kl kr merge keep R) := rfl

theorem joinRows_eq (names : List (String × String)) (l : Row) : ∀ rs : List Row, (∀ r ∈ rs, ∀ p ∈ r, p.1 ∈ names.map (·.1)) →
    joinRows names l rs = some (rs.map (mergeRow (renameOf names) l))
  | [], _ => rfl
  | r :: rs, h => by
    simp [joinRows, joinRow_eq names r l (h r (by simp)), joinRows_eq names l rs (fun r' hr' => h r' (by simp [hr']))]

theorem joinLoop_total (kl kr : Row → PValue) (names : List (String × String)) (R : Table) (flag : Bool)
    (hnames : ∀ r ∈ R, ∀ p ∈ r, p.1 ∈ names.map (·.1)) : ∀ (rows acc : Table),
    joinLoop (fun r => some (kl r)) names (groupSpec (fun r => bucketKey (kr r)) R) flag rows acc =
      some (acc ++ rows.flatMap (joinOne kl kr (mergeRow (renameOf names)) (!flag) R))
  | [], acc => by simp [joinLoop]
  | l :: rows, acc => by
    have ih := joinLoop_total kl kr names R flag hnames rows
    simp only [joinLoop, bucketLookup_groupSpec, List.flatMap_cons]
    by_cases hk : bucketKey (kl l) ∈ R.map (fun r => bucketKey (kr r))
    · have hne : (R.filter (fun r => decide (bucketKey (kr r) = bucketKey (kl l)))).isEmpty = false := by
        obtain ⟨r, hr, he⟩ := List.mem_map.mp hk
        have : r ∈ R.filter (fun r => decide (bucketKey (kr r) = bucketKey (kl l))) := List.mem_filter.mpr ⟨hr, by simp [he]⟩
        cases hf : R.filter (fun r => decide (bucketKey (kr r) = bucketKey (kl l))) with
        | nil => rw [hf] at this; simp at this
        | cons _ _ => rfl
      have hm := joinRows_eq names l (R.filter (fun r => decide (bucketKey (kr r) = bucketKey (kl l))))
        (fun r hr => hnames r (List.mem_filter.mp hr).1)
      simp only [hk, if_true, hm, ih, joinOne, hne, Bool.false_eq_true, if_false, List.append_assoc]
    · have he : (R.filter (fun r => decide (bucketKey (kr r) = bucketKey (kl l)))).isEmpty = true := by
        rw [List.isEmpty_iff]
        refine List.filter_eq_nil_iff.mpr (fun r hr hd => hk ?_)
        have : bucketKey (kr r) = bucketKey (kl l) := by simpa using hd
        exact this ▸ List.mem_map_of_mem (f := fun r => bucketKey (kr r)) hr
      simp only [hk, if_false, ih, joinOne, he, if_true]
      cases flag <;> simp

theorem joinLoop_none (evalL : Row → Option PValue) (names : List (String × String)) (buckets : List (Key × List Row)) (flag : Bool) :
    ∀ (rows acc : Table), (∃ r ∈ rows, evalL r = none) → joinLoop evalL names buckets flag rows acc = none
  | [], _, h => by simp at h
  | l :: rows, acc, h => by
    cases he : evalL l with
    | none => simp [joinLoop, he]
    | some v =>
      have hrest : ∃ r ∈ rows, evalL r = none := by
        obtain ⟨r, hr, hn⟩ := h
        rcases List.mem_cons.mp hr with e | e
        · subst e; rw [he] at hn; cases hn
        · exact ⟨r, e, hn⟩
      simp only [joinLoop, he]
      cases hb : bucketLookup (bucketKey v) buckets with
      | none => exact joinLoop_none evalL names buckets flag rows _ hrest
      | some rs =>
        cases hjr : joinRows names l rs with
        | none => simp [hjr]
        | some js => simpa [hjr] using joinLoop_none evalL names buckets flag rows _ hrest

end C19
