import BareProofs.C15MoreLemmas

/-!
# C15More — the extended library model `LibMore.effMore` (fewer `unmodelled` answers) keeps every C15 guarantee

Model: `BareModel/LibMore.lean` (`effMore T f args h`: `arrayJoin` over every element type, `stringNew`, `arraySort` without a
compare function; everything else falls back to `Lib.eff`).  `T : TextFns` is the text oracle for float `repr` and zoned datetime
text; every theorem holds for **every** `T`, every heap, argument list and history.

* `effMore_conservative`, `libMore_conservative`  the extension agrees with `Lib` wherever `Lib` answers at all
* `sig_table_more`, `fail_table_more` (Lemmas)     generated argument models / failure values of the three functions = documented
* `more_frame`, `more_frame_kind`, `more_length`  frame: only the first argument of a mutator (now incl. `arraySort`) changes
* `more_fresh`                                    allocators return new cells (unchanged list: the new functions never allocate)
* `more_fail_unchanged`, `more_invalid_fails`     failing calls: documented failure value, heap unchanged
* `lib_spec_more_eq`, `libMore_eq_specLibMore`    mirror = specification layer, all names / arguments / heaps
* `history_refines_more`, `history_frame_more`    lifted to histories
* (C15MoreShape)   `validate_pats`                 a validated argument list has the shape the bodies match on
* (C15MoreStill)   `unmodelled_iff`, `lib_spec_more`, `still_smaller`   the remaining unmodelled class is exactly `StillUnmodelled`
* (C15MoreSort)    `vcmp_reify`, `sortV_contract`, `arraySort_contract`   heap comparison = C11 comparison of the denoted trees;
                                                  ordered stable permutation, unique
* (C15MoreText)    `json_text_spec`                JSON text = C14 specification encoder of the tree read back
* (C15MoreAcyclic) `readable_of_ranked`, `toJ_not_cyc_of_ranked`   on acyclic heaps the fuel `|heap|+1` always suffices
* (C15MoreCore)    `still_core`                    on such heaps only call-backs, non-ASCII case mapping, surrogates, oracle gaps remain
-/

namespace C15More
open Lib LibMore

/-! ## conservativity -/

theorem arrayJoinM_conservative (T : TextFns) (va : List VArg) (h : Heap) (hne : arrayJoinB va h ≠ .unmodelled) :
    arrayJoinM T va h = arrayJoinB va h := by
  unfold arrayJoinM
  split
  · rename_i r sep
    simp only [arrayJoinB] at hne ⊢
    cases hx : getArr h r with
    | none => rfl
    | some xs =>
      simp only [hx] at hne ⊢
      cases hj : joinStrs sep xs with
      | none => simp [hj] at hne
      | some s => rfl
  · unfold arrayJoinB at hne
    split at hne
    · simp_all
    · exact absurd rfl hne

/-- **Conservativity.** Wherever the unextended model `Lib.eff` answers (`ret`, `fail`, `store`, `alloc`), the extended model gives
the very same effect — for every oracle `T`.  Everything proved about `Lib` (C15, the machine bridge) therefore transfers to the
calls it already covered; the extension only replaces `unmodelled` answers. -/
theorem effMore_conservative (T : TextFns) (f : String) (args : List Value) (h : Heap) (hne : eff f args h ≠ .unmodelled) :
    effMore T f args h = eff f args h := by
  rcases moreBodies_lookup T f with ⟨hb, _⟩ | ⟨rfl, hb⟩ | ⟨rfl, _⟩ | ⟨rfl, _⟩
  · exact effMore_old T hb args h
  · rw [effMore_new T hb (ms := [Spec.arrP "array", Spec.strP "separator"]) rfl, eff_arrayJoin]
    rw [eff_arrayJoin] at hne
    cases hv : validate h [Spec.arrP "array", Spec.strP "separator"] args with
    | none => rfl
    | some va =>
      simp only [hv] at hne ⊢
      exact arrayJoinM_conservative T va h hne
  · exact absurd (eff_arraySort args h) hne
  · exact absurd (eff_stringNew args h) hne

/-- the same through the call wrapper: same result, same heap -/
theorem libMore_conservative (T : TextFns) (f : String) (args : List Value) (h : Heap) (hne : (lib f args h).1 ≠ .unmodelled) :
    libMore T f args h = lib f args h := by
  unfold libMore lib
  rw [effMore_conservative T f args h]
  intro he
  apply hne
  unfold lib
  rw [he]
  rfl

/-- non-vacuity, and the extension is proper: `Lib` answers the first call (same answer), not the second and third -/
example : (lib "arrayJoin" [.arr 0, .str "-"] [.arr [numN 1, .str "a"]]).1 ≠ .unmodelled ∧
    libMore TextFns.none "arrayJoin" [.arr 0, .str "-"] [.arr [numN 1, .str "a"]] = (.ok (.str "1-a"), [.arr [numN 1, .str "a"]]) := by
  decide

/-! ## the cell a call may overwrite -/

theorem effMore_store (T : TextFns) (f : String) (args : List Value) (h : Heap) (r : Nat) (c : Cell) (v : Value)
    (he : effMore T f args h = .store r c v) :
    f ∈ mutatorsMore ∧ ((∃ as xs, args = .arr r :: as ∧ c = .arr xs) ∨ (∃ as kvs, args = .obj r :: as ∧ c = .obj kvs)) := by
  rcases effMore_cases T f args h with ⟨_, ho⟩ | ⟨_, hw⟩ | ⟨b, ms, va, hf, hb, hva, hbe⟩
  · rw [ho] at he
    obtain ⟨hm, hargs⟩ := C15.eff_store f args h r c v he
    exact ⟨mem_mutatorsMore_of_old hm, hargs⟩
  · rw [hw] at he; cases he
  · have hsh := moreBodies_shape T (f, b) hb va h
    simp only at hsh
    obtain ⟨hok, _, hpure⟩ := hsh
    rw [← hbe, he] at hok hpure
    refine ⟨?_, ?_⟩
    · by_cases hs : f = "arraySort"
      · subst hs; decide
      · exact absurd (hpure hs) (by simp [C15.PureLike])
    · rcases hok with ⟨rest, xs, rfl, rfl⟩ | ⟨rest, kvs, rfl, rfl⟩
      · obtain ⟨as, rfl⟩ := C15.validate_head_ref h ms args _ _ hva (by simp [C15.IsRef])
        exact Or.inl ⟨as, xs, rfl, rfl⟩
      · obtain ⟨as, rfl⟩ := C15.validate_head_ref h ms args _ _ hva (by simp [C15.IsRef])
        exact Or.inr ⟨as, kvs, rfl, rfl⟩

theorem effMore_no_alloc_new (T : TextFns) (f : String) (hf : f ∈ newNames) (args : List Value) (h : Heap) (c : Cell) :
    effMore T f args h ≠ .alloc c := by
  intro he
  rcases effMore_cases T f args h with ⟨hn, _⟩ | ⟨_, hw⟩ | ⟨b, ms, va, _, hb, hva, hbe⟩
  · rcases moreBodies_lookup T f with ⟨_, hnf⟩ | ⟨_, hs⟩ | ⟨_, hs⟩ | ⟨_, hs⟩
    · exact hnf hf
    all_goals (rw [hn] at hs; cases hs)
  · rw [hw] at he; cases he
  · have := (moreBodies_shape T (f, b) hb va h).2.1
    simp only at this
    rw [← hbe, he] at this
    exact this

theorem newNames_not_alloc : ∀ f ∈ newNames, f ∉ C15.allocators := by decide

/-! ## frame -/

/-- **Frame.** A call of the extended model changes no existing cell except — for the nine mutators of C15 and `arraySort` — the
cell of the container passed as first argument.  In particular `arrayJoin` and `stringNew` leave every container as it was, whatever
they read (nested containers included), and `arraySort` leaves every container other than the sorted array as it was. -/
theorem more_frame (T : TextFns) (f : String) (args : List Value) (h : Heap) (r : Nat) (hr : r < h.length)
    (hnot : ¬ (f ∈ mutatorsMore ∧ (args.head? = some (.arr r) ∨ args.head? = some (.obj r)))) :
    (libMore T f args h).2[r]? = h[r]? := by
  unfold libMore
  apply C15.run_frame _ _ _ hr
  intro r' c v he hrr
  subst hrr
  obtain ⟨hm, hargs⟩ := effMore_store T f args h r' c v he
  apply hnot
  refine ⟨hm, ?_⟩
  rcases hargs with ⟨as, xs, rfl, _⟩ | ⟨as, kvs, rfl, _⟩
  · exact Or.inl rfl
  · exact Or.inr rfl

/-- hypotheses inhabited: sorting array 0 leaves array 1 (which it reads: it is an element) untouched -/
example : ¬ ("arraySort" ∈ mutatorsMore ∧
    (([.arr 0] : List Value).head? = some (.arr 1) ∨ ([.arr 0] : List Value).head? = some (.obj 1))) := by decide

/-- a mutator keeps the kind of the cell it overwrites -/
theorem more_frame_kind (T : TextFns) (f : String) (args : List Value) (h : Heap) (r : Nat) (c : Cell) (v : Value)
    (he : effMore T f args h = .store r c v) :
    (args.head? = some (.arr r) ∧ ∃ xs, c = .arr xs) ∨ (args.head? = some (.obj r) ∧ ∃ kvs, c = .obj kvs) := by
  rcases (effMore_store T f args h r c v he).2 with ⟨as, xs, rfl, rfl⟩ | ⟨as, kvs, rfl, rfl⟩
  · exact Or.inl ⟨rfl, xs, rfl⟩
  · exact Or.inr ⟨rfl, kvs, rfl⟩

/-- the heap never shrinks and only the allocators of C15 grow it (the three new functions never do) -/
theorem more_length (T : TextFns) (f : String) (args : List Value) (h : Heap) :
    h.length ≤ (libMore T f args h).2.length ∧ (f ∉ C15.allocators → (libMore T f args h).2.length = h.length) := by
  refine ⟨C15.run_length_le _ _, fun hna => ?_⟩
  rcases moreBodies_lookup T f with ⟨hb, _⟩ | ⟨rfl, _⟩ | ⟨rfl, _⟩ | ⟨rfl, _⟩
  · unfold libMore
    rw [effMore_old T hb]
    exact (C15.lib_length f args h).2 hna
  all_goals
    unfold libMore
    cases he : effMore T _ args h with
    | alloc c => exact absurd he (effMore_no_alloc_new T _ (by decide) args h c)
    | store r c v => simp [Eff.run]
    | _ => simp [Eff.run]

/-! ## freshness -/

/-- **Freshness.** A successful allocator returns a reference that is not allocated before the call, the heap after the call is
the old heap plus exactly that cell.  (Same list of allocators as C15: `arrayJoin`/`stringNew` return strings, `arraySort` returns its
argument — see `arraySort_returns_argument`.) -/
theorem more_fresh (T : TextFns) (f : String) (hf : f ∈ C15.allocators) (args : List Value) (h h' : Heap) (v : Value)
    (hok : libMore T f args h = (.ok v, h')) :
    ∃ c, h' = h ++ [c] ∧ v = refOf c h.length ∧ h'[h.length]? = some c ∧ ∀ r, r < h.length → h'[r]? = h[r]? := by
  have hb : (moreBodies T).lookup f = none := by
    rcases moreBodies_lookup T f with ⟨hb, _⟩ | ⟨rfl, _⟩ | ⟨rfl, _⟩ | ⟨rfl, _⟩
    · exact hb
    all_goals exact absurd hf (by decide)
  unfold libMore at hok
  rw [effMore_old T hb] at hok
  exact C15.lib_fresh f hf args h h' v hok

/-- hypotheses inhabited: a copy of an array that holds a nested array is a new cell -/
example : "arrayCopy" ∈ C15.allocators ∧
    libMore TextFns.none "arrayCopy" [.arr 0] [.arr [numN 1, .arr 0]] = (.ok (.arr 1), [.arr [numN 1, .arr 0], .arr [numN 1, .arr 0]]) := by
  decide

/-- `arraySort` is not an allocator: on success it returns the very reference it was given, and the heap keeps its length -/
theorem arraySort_returns_argument (T : TextFns) (args : List Value) (h h' : Heap) (v : Value)
    (hok : libMore T "arraySort" args h = (.ok v, h')) :
    args.head? = some v ∧ h'.length = h.length ∧ ∃ r xs, v = .arr r ∧ h' = h.set r (.arr xs) := by
  unfold libMore at hok
  rw [effMore_new T (f := "arraySort") (b := arraySortM) rfl (ms := [Spec.arrP "array",
    { Spec.P "compareFn" (some "function") with nullable := true }]) rfl] at hok
  cases hv : validate h [Spec.arrP "array", { Spec.P "compareFn" (some "function") with nullable := true }] args with
  | none => rw [hv] at hok; simp [Eff.run] at hok
  | some va =>
    rw [hv] at hok
    simp only at hok
    unfold arraySortM at hok
    split at hok
    · rename_i r
      obtain ⟨as, rfl⟩ := C15.validate_head_ref h _ args _ _ hv (by simp [C15.IsRef])
      split at hok
      · split at hok
        · simp only [Eff.run, Prod.mk.injEq, Res.ok.injEq] at hok
          obtain ⟨rfl, rfl⟩ := hok
          exact ⟨rfl, by simp, r, _, rfl, rfl⟩
        · simp [Eff.run] at hok
      · simp [Eff.run] at hok
    · simp [Eff.run] at hok

/-! ## failing calls -/

theorem textEff_fail {t : TRes String} {v : Value} (h : textEff t = .fail v) : v = .null := by
  cases t <;> simp [textEff] at h
  exact h.symm

theorem moreBodies_fail (T : TextFns) : ∀ p ∈ moreBodies T, ∀ va h v, p.2 va h = .fail v → v = .null := by
  intro p hp va h v hv
  simp only [moreBodies, List.mem_cons, List.not_mem_nil, or_false] at hp
  rcases hp with rfl | rfl | rfl
  · simp only at hv
    unfold arrayJoinM at hv
    split at hv
    · split at hv
      · split at hv
        · cases hv
        · exact textEff_fail hv
      · cases hv
    · cases hv
  · simp only at hv
    unfold arraySortM at hv
    split at hv
    · split at hv
      · split at hv <;> cases hv
      · cases hv
    · cases hv
  · simp only at hv
    unfold stringNewM at hv
    split at hv
    · exact textEff_fail hv
    · cases hv

/-- **Failure.** A failing call of the extended model — wrong-typed, missing or surplus argument; out-of-range index; …; for the new
functions also a non-function `compareFn`, and a container that reaches itself handed to `stringNew`/`arrayJoin` (`json` raises
`ValueError`) — leaves the heap exactly as it was and evaluates to the documented failure value (`null` for the three new
functions). -/
theorem more_fail_unchanged (T : TextFns) (f : String) (args : List Value) (h : Heap) (v : Value)
    (hf : (libMore T f args h).1 = .fail v) : (libMore T f args h).2 = h ∧ v = Spec.docFail f args := by
  rcases effMore_cases T f args h with ⟨_, ho⟩ | ⟨hn, hw⟩ | ⟨b, ms, va, hn, hb, hva, hbe⟩
  · unfold libMore at hf ⊢
    rw [ho] at hf ⊢
    exact C15.lib_fail_unchanged f args h v hf
  · unfold libMore at hf ⊢
    rw [hw] at hf ⊢
    simp only [Eff.run, Res.fail.injEq] at hf
    exact ⟨rfl, by rw [docFail_new f hn, hf]⟩
  · unfold libMore at hf ⊢
    have he := C15.run_fail hf
    refine ⟨by rw [he]; rfl, ?_⟩
    rw [hbe] at he
    rw [docFail_new f hn]
    exact moreBodies_fail T (f, b) hb va h v he

/-- conversely, arguments that do not validate against the documented signature of a new function make the call fail -/
theorem more_invalid_fails (T : TextFns) (f : String) (hf : f ∈ newNames) (args : List Value) (h : Heap) (ms : List Gen.ArgModel)
    (hms : docSigMore.lookup f = some ms) (hbad : validate h ms args = none) :
    libMore T f args h = (.fail (Spec.docFail f args), h) := by
  obtain ⟨b, hb⟩ : ∃ b, (moreBodies T).lookup f = some b := by
    rcases moreBodies_lookup T f with ⟨_, hnf⟩ | ⟨_, hs⟩ | ⟨_, hs⟩ | ⟨_, hs⟩
    · exact absurd hf hnf
    all_goals exact ⟨_, hs⟩
  unfold libMore
  rw [effMore_new T hb hms, hbad, docFail_new f hf]
  rfl

/-- surplus, missing and wrong-typed arguments, a non-function comparator, a cyclic container: `null`, heap untouched -/
example : libMore TextFns.none "stringNew" [.null, .null] [] = (.fail .null, []) := by decide
example : libMore TextFns.none "arraySort" [] [] = (.fail .null, []) := by decide
example : libMore TextFns.none "arraySort" [.arr 0, numN 1] [.arr [numN 2, numN 1]] = (.fail .null, [.arr [numN 2, numN 1]]) := by decide
example : libMore TextFns.none "arrayJoin" [.arr 0] [.arr []] = (.fail .null, [.arr []]) := by decide
example : libMore TextFns.none "stringNew" [.arr 0] [.arr [.arr 0]] = (.fail .null, [.arr [.arr 0]]) := by decide

/-! ## mirror = specification -/

/-- **Specification (equation).** For every oracle, function name, argument list and heap the extended model — argument models
and failure values from the generated tables, Python-shaped bodies — is the specification layer `specMore`: documented signatures,
documented failure values, reference operations on natural indices (`Lib.Spec`), and for the three new functions the join of the
element texts / the JSON text / the stable sort.  (`lib_spec_more` in C15MoreStill adds: outside `StillUnmodelled` both sides are
not `unmodelled`.) -/
theorem lib_spec_more_eq (T : TextFns) (f : String) (args : List Value) (h : Heap) :
    effMore T f args h = specMore T f args h := by
  cases hb : (moreBodies T).lookup f with
  | none => rw [effMore_old T hb, specMore_old T hb]; exact C15.lib_spec_partial f args h
  | some b =>
    obtain ⟨ms, hms⟩ := docSigMore_some (moreBodies_some hb).1
    rw [effMore_new T hb hms, specMore_new T hb hms]

theorem libMore_eq_specLibMore (T : TextFns) : libMore T = specLibMore T := by
  funext f args h
  simp only [libMore, specLibMore, lib_spec_more_eq]

/-! ## histories -/

/-- **history_refines_more.** For every sequence of calls (any length, any arguments, any initial pool, any oracle) the state
reached by the extended Python-shaped model — all variables and the whole heap — is the fold of the specification operations. -/
theorem history_refines_more (T : TextFns) (cs : List Call) (s : St) :
    runHistory (libMore T) cs s = runHistory (specLibMore T) cs s := by
  rw [libMore_eq_specLibMore]

theorem history_heap_le_more (T : TextFns) (cs : List Call) (s : St) :
    s.heap.length ≤ (runHistory (libMore T) cs s).heap.length := by
  induction cs generalizing s with
  | nil => exact Nat.le_refl _
  | cons c cs ih =>
    simp only [runHistory, List.foldl_cons] at ih ⊢
    exact Nat.le_trans (more_length T c.fn _ s.heap).1 (ih (step (libMore T) s c))

/-- container `r` is never passed first to a mutator (incl. `arraySort`) along the history -/
def UntouchedMore (T : TextFns) (r : Nat) : List Call → St → Prop
  | [], _ => True
  | c :: cs, s =>
    ¬ (c.fn ∈ mutatorsMore ∧ ((c.args.map (evalArg s.env)).head? = some (.arr r) ∨ (c.args.map (evalArg s.env)).head? = some (.obj r))) ∧
    UntouchedMore T r cs (step (libMore T) s c)

/-- **history_frame_more.** Along any history of the extended model a container keeps its contents as long as it is not itself
passed first to a mutator — in particular a copy made before an `arraySort` of the original keeps the old order. -/
theorem history_frame_more (T : TextFns) (r : Nat) (cs : List Call) (s : St) (hr : r < s.heap.length)
    (hu : UntouchedMore T r cs s) : (runHistory (libMore T) cs s).heap[r]? = s.heap[r]? := by
  induction cs generalizing s with
  | nil => rfl
  | cons c cs ih =>
    obtain ⟨h1, h2⟩ := hu
    simp only [runHistory, List.foldl_cons] at ih ⊢
    have hlen : r < (step (libMore T) s c).heap.length := Nat.lt_of_lt_of_le hr (more_length T c.fn _ s.heap).1
    rw [ih (step (libMore T) s c) hlen h2]
    exact more_frame T c.fn _ s.heap r hr h1

/-- a history of the extended model in which `Lib` answers every call is the `Lib` history -/
def AllOld : List Call → St → Prop
  | [], _ => True
  | c :: cs, s => (lib c.fn (c.args.map (evalArg s.env)) s.heap).1 ≠ .unmodelled ∧ AllOld cs (step lib s c)

theorem history_conservative (T : TextFns) (cs : List Call) (s : St) (ho : AllOld cs s) :
    runHistory (libMore T) cs s = runHistory lib cs s := by
  induction cs generalizing s with
  | nil => rfl
  | cons c cs ih =>
    obtain ⟨h1, h2⟩ := ho
    simp only [runHistory, List.foldl_cons] at ih ⊢
    have : step (libMore T) s c = step lib s c := by
      simp only [step, libMore_conservative T _ _ _ h1]
    rw [this]
    exact ih _ h2

/-- hypotheses inhabited: a history of calls `Lib` already answers -/
example : AllOld [⟨"arrayPush", [.var 0, .lit (numN 4)]⟩, ⟨"arrayJoin", [.var 0, .lit (.str "+")]⟩] ⟨[.arr 0], [.arr [numN 3]]⟩ := by
  refine ⟨by decide, by decide, trivial⟩

/-! ## non-vacuity: a history with aliasing through the new functions -/

/-- pool: cell 0 = `[3, 1, 2]`; `a = v0`, `alias = v1`; then `c = arrayCopy(a)`, `arraySort(alias)`, `s = arrayJoin(a, ",")`,
`t = stringNew(c)`, `x = arrayGet(a, 0)` -/
def demo : List Call := [⟨"arrayCopy", [.var 0]⟩, ⟨"arraySort", [.var 1]⟩, ⟨"arrayJoin", [.var 0, .lit (.str ",")]⟩,
  ⟨"stringNew", [.var 2]⟩, ⟨"arrayGet", [.var 0, .lit (numN 0)]⟩]
def demo0 : St := ⟨[.arr 0, .arr 0], [.arr [numN 3, numN 1, numN 2]]⟩

/-- the sort through one alias is seen through the other, the copy keeps the old order, `arraySort` returns its argument -/
example : runHistory (libMore TextFns.none) demo demo0 =
    ⟨[.arr 0, .arr 0, .arr 1, .arr 0, .str "1,2,3", .str "[3,1,2]", numN 1],
     [.arr [numN 1, numN 2, numN 3], .arr [numN 3, numN 1, numN 2]]⟩ := by decide

/-- `history_frame_more` applies to the copy (cell 1) in the rest of that history -/
example : UntouchedMore TextFns.none 1 (demo.drop 1) (runHistory (libMore TextFns.none) (demo.take 1) demo0) :=
  ⟨by decide, by decide, by decide, by decide, trivial⟩

/-- nested containers, an object (keys sorted, `ensure_ascii`), a function and a regex inside JSON, oracle texts -/
example : libMore ⟨fun q => if q = mkRat 5 2 then some "2.5" else none, fun _ => some "2024-01-02T03:04:05+00:00"⟩ "stringNew" [.arr 0]
      [.arr [.num (mkRat 5 2), .obj 1, .dt 7, .fn 0, .regex 0], .obj [("é", .null), ("B", .bool true)]] =
    (.ok (.str "[2.5,{\"B\":true,\"\\u00e9\":null},\"2024-01-02T03:04:05+00:00\",\"<function>\",null]"),
      [.arr [.num (mkRat 5 2), .obj 1, .dt 7, .fn 0, .regex 0], .obj [("é", .null), ("B", .bool true)]]) := by decide

end C15More
