import BareProofs.C01Erase
import BareProofs.C18SemLemmas

/-!
# Helper lemmas for C01 on the concrete hosts (`C01Host.lean`)

`C01.ticked_erasure` / `parse_exec_structured` assume `HostNoReserved host`: no library interaction tree ever issues a
`globalGet` / `globalSet` request for a parser-generated name.  A host that exposes `systemGlobalGet` / `systemGlobalSet`
cannot satisfy it (`systemGlobalGet('__bareScriptValues0')`).  This file provides what is needed to apply the theorems to
such hosts anyway:

* tree surgery: `sanT` / `sanitize` (a reserved read is answered `none` without reading, a reserved write is dropped),
  `guardT` / `guard` (a reserved request ends the library call with the runtime error `reservedMsg`, which nothing in the
  machine catches: the whole run ends with it);  both satisfy `HostNoReserved`, change nothing but `lib` / `other`, and
  leave a `TreeOK` tree literally unchanged;
* `TreeSim tg t`: `tg` is `t` except that it may stop with the `reservedMsg` error where `t` goes on; `HostSim`, `CfgSim`,
  `SCfgSim`: two hosts / configurations that differ by `TreeSim` only;
* **the generic simulation**: under `CfgSim cg c` every run of `cg` either *equals* the run of `c` or ends with the
  `reservedMsg` error — for the expression evaluator (`evalExpr_g`), library trees (`runTree_g`), the cache-free machine
  (`machine_g`: `callValue₀`, `execM₀`, `execIncludes₀` by induction on the fuel, one statement at a time through
  `C18.stepStmt`), and the pure source-level reading (`pure_g`: `callS`, `execSS`, `execSB`, `execSE`, `forS`).
-/

set_option linter.unusedSimpArgs false
set_option linter.unusedSectionVars false
set_option linter.unusedVariables false

namespace C01
open StructuredS Machine Lower Structured

variable {W : Type}

/-! ## tree surgery -/

/-- the message of the runtime error with which a guarded host answers a request for a reserved global -/
def reservedMsg : String := "reserved __bareScript global requested by a library function"

/-- every `globalGet n` with a generated `n` is answered `none` without reading, every `globalSet n` with a generated `n`
is dropped -/
def sanT : LibTree W → LibTree W
  | .ret o w => .ret o w
  | .call f args w k => .call f args w fun v w' => sanT (k v w')
  | .globalGet n w k => if isGen n then sanT (k none w) else .globalGet n w fun ov w' => sanT (k ov w')
  | .globalSet n v w k => if isGen n then sanT (k w) else .globalSet n v w fun w' => sanT (k w')

/-- a request for a generated name ends the library call with the runtime error `reservedMsg` -/
def guardT : LibTree W → LibTree W
  | .ret o w => .ret o w
  | .call f args w k => .call f args w fun v w' => guardT (k v w')
  | .globalGet n w k => if isGen n then .ret (.rt reservedMsg) w else .globalGet n w fun ov w' => guardT (k ov w')
  | .globalSet n v w k => if isGen n then .ret (.rt reservedMsg) w else .globalSet n v w fun w' => guardT (k w')

/-- the host whose library functions cannot see or change the parser-generated globals -/
def sanitize (h : Host W) : Host W :=
  { h with lib := fun name args w => sanT (h.lib name args w), other := fun k args w => sanT (h.other k args w) }

/-- the host whose library functions fail (fatally) when they ask for a parser-generated global -/
def guard (h : Host W) : Host W :=
  { h with lib := fun name args w => guardT (h.lib name args w), other := fun k args w => guardT (h.other k args w) }

theorem treeOK_sanT : ∀ t : LibTree W, TreeOK (sanT t)
  | .ret o w => TreeOK.ret o w
  | .call f args w k => TreeOK.call _ _ _ _ fun v w' => treeOK_sanT (k v w')
  | .globalGet n w k => by
      simp only [sanT]
      split
      · exact treeOK_sanT (k none w)
      · rename_i h
        exact TreeOK.globalGet _ _ _ (by simpa using h) fun ov w' => treeOK_sanT (k ov w')
  | .globalSet n v w k => by
      simp only [sanT]
      split
      · exact treeOK_sanT (k w)
      · rename_i h
        exact TreeOK.globalSet _ _ _ _ (by simpa using h) fun w' => treeOK_sanT (k w')

theorem treeOK_guardT : ∀ t : LibTree W, TreeOK (guardT t)
  | .ret o w => TreeOK.ret o w
  | .call f args w k => TreeOK.call _ _ _ _ fun v w' => treeOK_guardT (k v w')
  | .globalGet n w k => by
      simp only [guardT]
      split
      · exact TreeOK.ret _ _
      · rename_i h
        exact TreeOK.globalGet _ _ _ (by simpa using h) fun ov w' => treeOK_guardT (k ov w')
  | .globalSet n v w k => by
      simp only [guardT]
      split
      · exact TreeOK.ret _ _
      · rename_i h
        exact TreeOK.globalSet _ _ _ _ (by simpa using h) fun w' => treeOK_guardT (k w')

/-- a tree that never names a reserved global is left literally unchanged -/
theorem sanT_of_treeOK {t : LibTree W} (ht : TreeOK t) : sanT t = t := by
  induction ht with
  | ret o w => rfl
  | call f args w k _ ih => simp only [sanT]; congr 1; funext v w'; exact ih v w'
  | globalGet n w k hn _ ih => simp only [sanT, hn, Bool.false_eq_true, if_false]; congr 1; funext v w'; exact ih v w'
  | globalSet n v w k hn _ ih => simp only [sanT, hn, Bool.false_eq_true, if_false]; congr 1; funext w'; exact ih w'

theorem guardT_of_treeOK {t : LibTree W} (ht : TreeOK t) : guardT t = t := by
  induction ht with
  | ret o w => rfl
  | call f args w k _ ih => simp only [guardT]; congr 1; funext v w'; exact ih v w'
  | globalGet n w k hn _ ih => simp only [guardT, hn, Bool.false_eq_true, if_false]; congr 1; funext v w'; exact ih v w'
  | globalSet n v w k hn _ ih => simp only [guardT, hn, Bool.false_eq_true, if_false]; congr 1; funext w'; exact ih w'

/-! ## trees / hosts / configurations that differ only by stopping with `reservedMsg` -/

/-- `tg` is `t`, except that `tg` may end with the error `reservedMsg` where `t` goes on (in any way) -/
inductive TreeSim : LibTree W → LibTree W → Prop
  | ret (o : LibOut) (w : W) : TreeSim (.ret o w) (.ret o w)
  | call (f : Value) (args : List Value) (w : W) (kg k : Value → W → LibTree W) :
      (∀ v w', TreeSim (kg v w') (k v w')) → TreeSim (.call f args w kg) (.call f args w k)
  | globalGet (n : Name) (w : W) (kg k : Option Value → W → LibTree W) :
      (∀ ov w', TreeSim (kg ov w') (k ov w')) → TreeSim (.globalGet n w kg) (.globalGet n w k)
  | globalSet (n : Name) (v : Value) (w : W) (kg k : W → LibTree W) :
      (∀ w', TreeSim (kg w') (k w')) → TreeSim (.globalSet n v w kg) (.globalSet n v w k)
  | abort (w : W) (t : LibTree W) : TreeSim (.ret (.rt reservedMsg) w) t

theorem TreeSim.refl : ∀ t : LibTree W, TreeSim t t
  | .ret o w => .ret o w
  | .call f args w k => .call _ _ _ _ _ fun v w' => TreeSim.refl (k v w')
  | .globalGet n w k => .globalGet _ _ _ _ fun ov w' => TreeSim.refl (k ov w')
  | .globalSet n v w k => .globalSet _ _ _ _ _ fun w' => TreeSim.refl (k w')

theorem treeSim_guard_self : ∀ t : LibTree W, TreeSim (guardT t) t
  | .ret o w => .ret o w
  | .call f args w k => .call _ _ _ _ _ fun v w' => treeSim_guard_self (k v w')
  | .globalGet n w k => by
      simp only [guardT]
      split
      · exact .abort _ _
      · exact .globalGet _ _ _ _ fun ov w' => treeSim_guard_self (k ov w')
  | .globalSet n v w k => by
      simp only [guardT]
      split
      · exact .abort _ _
      · exact .globalSet _ _ _ _ _ fun w' => treeSim_guard_self (k w')

theorem treeSim_guard_san : ∀ t : LibTree W, TreeSim (guardT t) (sanT t)
  | .ret o w => .ret o w
  | .call f args w k => .call _ _ _ _ _ fun v w' => treeSim_guard_san (k v w')
  | .globalGet n w k => by
      simp only [guardT, sanT]
      split
      · exact .abort _ _
      · exact .globalGet _ _ _ _ fun ov w' => treeSim_guard_san (k ov w')
  | .globalSet n v w k => by
      simp only [guardT, sanT]
      split
      · exact .abort _ _
      · exact .globalSet _ _ _ _ _ fun w' => treeSim_guard_san (k w')

/-- the two hosts differ only in their library trees, and those by `TreeSim` -/
structure HostSim (hg h : Host W) : Prop where
  truthy : hg.truthy = h.truthy
  binop : hg.binop = h.binop
  neg : hg.neg = h.neg
  notCallable : hg.notCallable = h.notCallable
  logFailure : hg.logFailure = h.logFailure
  newArray : hg.newArray = h.newArray
  builtin : hg.builtin = h.builtin
  lib : ∀ name args w, TreeSim (hg.lib name args w) (h.lib name args w)
  other : ∀ k args w, TreeSim (hg.other k args w) (h.other k args w)

structure CfgSim (cg c : Config W) : Prop where
  host : HostSim cg.host c.host
  funs : cg.funs = c.funs
  maxStatements : cg.maxStatements = c.maxStatements
  builtins : cg.builtins = c.builtins
  debug : cg.debug = c.debug
  resolve : cg.resolve = c.resolve
  fetch : cg.fetch = c.fetch

structure SCfgSim (sg s : SConfig W) : Prop where
  host : HostSim sg.host s.host
  sfuns : sg.sfuns = s.sfuns
  builtins : sg.builtins = s.builtins
  debug : sg.debug = s.debug

theorem SCfgSim.toConfig {sg s : SConfig W} (h : SCfgSim sg s) : CfgSim sg.toConfig s.toConfig :=
  ⟨h.host, rfl, rfl, h.builtins, h.debug, rfl, rfl⟩

theorem hostSim_guard_self (h : Host W) : HostSim (guard h) h :=
  ⟨rfl, rfl, rfl, rfl, rfl, rfl, rfl, fun _ _ _ => treeSim_guard_self _, fun _ _ _ => treeSim_guard_self _⟩

theorem hostSim_guard_san (h : Host W) : HostSim (guard h) (sanitize h) :=
  ⟨rfl, rfl, rfl, rfl, rfl, rfl, rfl, fun _ _ _ => treeSim_guard_san _, fun _ _ _ => treeSim_guard_san _⟩

/-! ## results that are equal, or the left one is the `reservedMsg` error -/

def OutG (og o : Out W) : Prop := og = o ∨ ∃ s, og = .err (.host reservedMsg) s
def ArgsG (og o : ArgsOut W) : Prop := og = o ∨ ∃ s, og = .err (.host reservedMsg) s
def ResG (rg r : Res W) : Prop := rg = r ∨ ∃ s, rg = .err (.host reservedMsg) s
def SOutG (og o : SOut W) : Prop := og = o ∨ ∃ s, og = .err (.host reservedMsg) s
def StepG (xg x : C18.Step W) : Prop := xg = x ∨ ∃ s, xg = .halt (.err (.host reservedMsg) s)

def CallG (callg call : CallFn W) : Prop := ∀ f args s, OutG (callg f args s) (call f args s)

theorem OutG.bind {og o : Out W} (h : OutG og o) {Fg F : Value → State W → Out W} (hF : ∀ v s, OutG (Fg v s) (F v s)) :
    OutG (og.bind Fg) (o.bind F) := by
  rcases h with rfl | ⟨s, rfl⟩
  · cases og with
    | ok v s => exact hF v s
    | err e s => exact Or.inl rfl
    | oof => exact Or.inl rfl
  · exact Or.inr ⟨s, rfl⟩

theorem OutG.bindA {og o : Out W} (h : OutG og o) {Fg F : Value → State W → ArgsOut W} (hF : ∀ v s, ArgsG (Fg v s) (F v s)) :
    ArgsG (og.bindA Fg) (o.bindA F) := by
  rcases h with rfl | ⟨s, rfl⟩
  · cases og with
    | ok v s => exact hF v s
    | err e s => exact Or.inl rfl
    | oof => exact Or.inl rfl
  · exact Or.inr ⟨s, rfl⟩

theorem ArgsG.bindO {og o : ArgsOut W} (h : ArgsG og o) {Fg F : List Value → State W → Out W} (hF : ∀ v s, OutG (Fg v s) (F v s)) :
    OutG (og.bindO Fg) (o.bindO F) := by
  rcases h with rfl | ⟨s, rfl⟩
  · cases og with
    | ok v s => exact hF v s
    | err e s => exact Or.inl rfl
    | oof => exact Or.inl rfl
  · exact Or.inr ⟨s, rfl⟩

theorem callLooked_g {callg call : CallFn W} (hc : CallG callg call) (n : Name) (r : Option Value) (vs : List Value)
    (s : State W) : OutG (callLooked callg n r vs s) (callLooked call n r vs s) := by
  cases r with
  | none => exact Or.inl rfl
  | some fv =>
    cases fv with
    | null => exact Or.inl rfl
    | _ => exact hc _ vs s

theorem lookupFunc_g {cg c : Config W} (hh : HostSim cg.host c.host) (hb : cg.builtins = c.builtins) (l : Option Env) (g : Env)
    (n : Name) : lookupFunc cg l g n = lookupFunc c l g n := by
  simp only [lookupFunc, hh.builtin, hb]

theorem bindArgs_g {hg h : Host W} (hn : hg.newArray = h.newArray) (laa : Bool) :
    ∀ (ps : List Name) (as : List Value) (env : Env) (w : W), bindArgs hg laa ps as env w = bindArgs h laa ps as env w
  | [], _, _, _ => rfl
  | [p], as, env, w => by simp only [bindArgs, hn]
  | p :: q :: ps, as, env, w => by
      rw [bindArgs, bindArgs]
      exact bindArgs_g hn laa (q :: ps) as.tail _ w

/-! ## the expression evaluator -/

section
variable {cg c : Config W} (hh : HostSim cg.host c.host) (hb : cg.builtins = c.builtins)
  {callg call : CallFn W} (hcall : CallG callg call) (l : Option Env)
include hh hb hcall

mutual
theorem evalExpr_g : ∀ (e : Expr) (st : State W), OutG (evalExpr cg callg l e st) (evalExpr c call l e st)
  | .number q, st => by simp only [evalExpr]; exact Or.inl rfl
  | .string q, st => by simp only [evalExpr]; exact Or.inl rfl
  | .variable n, st => by simp only [evalExpr]; exact Or.inl rfl
  | .function n args, st => by
      by_cases h : n = kwIf
      · simp only [evalExpr, h, if_true]
        exact evalIf_g args st
      · simp only [evalExpr_function _ _ _ n args _ h]
        refine ArgsG.bindO (evalArgs_g args st) ?_
        intro vs s
        rw [lookupFunc_g hh hb]
        exact callLooked_g hcall n _ vs s
  | .binary op a b, st => by
      by_cases h1 : op = .and
      · subst h1
        simp only [evalExpr_and, hh.truthy]
        refine OutG.bind (evalExpr_g a st) ?_
        intro v s
        split
        · exact evalExpr_g b s
        · exact Or.inl rfl
      · by_cases h2 : op = .or
        · subst h2
          simp only [evalExpr_or, hh.truthy]
          refine OutG.bind (evalExpr_g a st) ?_
          intro v s
          split
          · exact Or.inl rfl
          · exact evalExpr_g b s
        · simp only [evalExpr_binary _ _ _ op a b _ h1 h2, hh.binop]
          refine OutG.bind (evalExpr_g a st) ?_
          intro v s
          refine OutG.bind (evalExpr_g b s) ?_
          intro v2 s2
          exact Or.inl rfl
  | .unary .not a, st => by
      simp only [evalExpr_not, hh.truthy]
      refine OutG.bind (evalExpr_g a st) ?_
      intro v s
      exact Or.inl rfl
  | .unary .neg a, st => by
      simp only [evalExpr_neg, hh.neg]
      refine OutG.bind (evalExpr_g a st) ?_
      intro v s
      exact Or.inl rfl
  | .group a, st => by
      simp only [evalExpr]
      exact evalExpr_g a st

theorem evalArgs_g : ∀ (as : List Expr) (st : State W), ArgsG (evalArgs cg callg l as st) (evalArgs c call l as st)
  | [], st => by simp only [evalArgs]; exact Or.inl rfl
  | a :: as, st => by
      simp only [evalArgs_cons]
      refine OutG.bindA (evalExpr_g a st) ?_
      intro v s
      rcases evalArgs_g as s with h | ⟨s', h⟩
      · rw [h]; exact Or.inl rfl
      · rw [h]; exact Or.inr ⟨s', rfl⟩

theorem evalIf_g : ∀ (as : List Expr) (st : State W), OutG (evalIf cg callg l as st) (evalIf c call l as st)
  | [], st => by simp only [evalIf]; exact Or.inl rfl
  | [x], st => by
      simp only [evalIf_1]
      refine OutG.bind (evalExpr_g x st) ?_
      intro v s
      exact Or.inl rfl
  | [x, t], st => by
      simp only [evalIf_2, hh.truthy]
      refine OutG.bind (evalExpr_g x st) ?_
      intro v s
      split
      · exact evalExpr_g t s
      · exact Or.inl rfl
  | x :: t :: f :: r, st => by
      simp only [evalIf_3, hh.truthy]
      refine OutG.bind (evalExpr_g x st) ?_
      intro v s
      split
      · exact evalExpr_g t s
      · exact evalExpr_g f s
end
end

/-! ## library trees -/

theorem runTree_g {cg c : Config W} (hh : HostSim cg.host c.host) (hd : cg.debug = c.debug) {callg call : CallFn W}
    (hcall : CallG callg call) {tg t : LibTree W} (ht : TreeSim tg t) :
    ∀ st : State W, OutG (runTree cg callg tg st) (runTree c call t st) := by
  induction ht with
  | ret o w =>
    intro st
    cases o <;> simp only [runTree, hd, hh.logFailure] <;> exact Or.inl rfl
  | call f args w kg k _ ih =>
    intro st
    simp only [runTree_call]
    refine OutG.bind (hcall f args _) ?_
    intro v s
    exact ih v s.world s
  | globalGet n w kg k _ ih => intro st; simp only [runTree]; exact ih _ _ _
  | globalSet n v w kg k _ ih => intro st; simp only [runTree]; exact ih _ _
  | abort w t => intro st; simp only [runTree]; exact Or.inr ⟨_, rfl⟩

/-! ## the cache-free machine, one statement at a time -/

theorem stepStmt_g {cg c : Config W} (hh : HostSim cg.host c.host) (hb : cg.builtins = c.builtins) {callg call : CallFn W}
    (hcall : CallG callg call) {inclg incl : List IncludeScript → State W → Res W}
    (hi : ∀ incs s, ResG (inclg incs s) (incl incs s)) (l : Option Env) (s : Stmt) (st : State W) :
    StepG (C18.stepStmt cg callg inclg l s st) (C18.stepStmt c call incl l s st) := by
  cases s with
  | expr name e =>
    simp only [C18.stepStmt]
    rcases evalExpr_g hh hb hcall l e st with h | ⟨s', h⟩
    · rw [h]; exact Or.inl rfl
    · rw [h]; exact Or.inr ⟨s', rfl⟩
  | jump lab cnd =>
    cases cnd with
    | none => exact Or.inl rfl
    | some cnd =>
      simp only [C18.stepStmt, hh.truthy]
      rcases evalExpr_g hh hb hcall l cnd st with h | ⟨s', h⟩
      · rw [h]; exact Or.inl rfl
      · rw [h]; exact Or.inr ⟨s', rfl⟩
  | ret e =>
    cases e with
    | none => exact Or.inl rfl
    | some e =>
      simp only [C18.stepStmt]
      rcases evalExpr_g hh hb hcall l e st with h | ⟨s', h⟩
      · rw [h]; exact Or.inl rfl
      · rw [h]; exact Or.inr ⟨s', rfl⟩
  | label lab => exact Or.inl rfl
  | function fid name args laa isAsync body => exact Or.inl rfl
  | «include» incs =>
    simp only [C18.stepStmt]
    rcases hi incs st with h | ⟨s', h⟩
    · rw [h]; exact Or.inl rfl
    · rw [h]; exact Or.inr ⟨s', rfl⟩

theorem StepG.run {xg x : C18.Step W} (h : StepG xg x) (P : List Stmt) {kg k : Option Env → Nat → State W → Res W}
    (hk : ∀ l pc st, ResG (kg l pc st) (k l pc st)) (l : Option Env) (pc : Nat) : ResG (xg.run P kg l pc) (x.run P k l pc) := by
  rcases h with rfl | ⟨s, rfl⟩
  · cases xg with
    | next l1 st => exact hk _ _ _
    | goto lab st =>
      simp only [C18.Step.run]
      cases findLabel P lab with
      | none => exact Or.inl rfl
      | some i => exact hk _ _ _
    | halt r => exact Or.inl rfl
  · exact Or.inr ⟨s, rfl⟩

theorem resK_g {rg r : Res W} (h : ResG rg r) : OutG (resK rg) (resK r) := by
  rcases h with rfl | ⟨s, rfl⟩
  · exact Or.inl rfl
  · exact Or.inr ⟨s, rfl⟩

/-- **the generic simulation, machine side**: with configurations that differ by `TreeSim` only, the run of `cg` equals the
run of `c` or ends with the `reservedMsg` error -/
theorem machine_g {cg c : Config W} (hc : CfgSim cg c) : ∀ fuel : Nat,
    CallG (callValue₀ cg fuel) (callValue₀ c fuel) ∧
    (∀ P l base pc st, ResG (execM₀ cg fuel P l base pc st) (execM₀ c fuel P l base pc st)) ∧
    (∀ base incs st, ResG (execIncludes₀ cg fuel base incs st) (execIncludes₀ c fuel base incs st)) := by
  intro fuel
  induction fuel with
  | zero =>
    refine ⟨fun f args s => ?_, fun P l base pc st => ?_, fun base incs st => ?_⟩
    · rw [callValue₀, callValue₀]; exact Or.inl rfl
    · cases hs : P[pc]? with
      | none => rw [C18.execM₀_none _ _ _ _ _ _ _ hs, C18.execM₀_none _ _ _ _ _ _ _ hs]; exact Or.inl rfl
      | some s => rw [C18.execM₀_zero _ _ _ _ _ _ _ hs, C18.execM₀_zero _ _ _ _ _ _ _ hs]; exact Or.inl rfl
    · cases incs with
      | nil => rw [execIncludes₀, execIncludes₀]; exact Or.inl rfl
      | cons inc rest =>
        rw [execIncludes₀, execIncludes₀]
        simp only [hc.resolve, hc.fetch]
        exact Or.inl rfl
  | succ fuel ih =>
    obtain ⟨ihc, ihe, ihi⟩ := ih
    refine ⟨fun f args st => ?_, fun P l base pc st => ?_, fun base incs st => ?_⟩
    · -- calls
      have notFn : ∀ v : Value, (∀ fn, v ≠ .fn fn) →
          OutG (callValue₀ cg (fuel+1) v args st) (callValue₀ c (fuel+1) v args st) := by
        intro v hv
        have h1 : ∀ cfg : Config W, callValue₀ cfg (fuel+1) v args st = .ok .null { st with world := cfg.host.notCallable v st.world } := by
          intro cfg
          cases v <;> first | exact absurd rfl (hv _) | (rw [callValue₀] <;> (intro _ h; cases h))
        rw [h1, h1, hc.host.notCallable]; exact Or.inl rfl
      cases f with
      | fn fn =>
        cases fn with
        | script id =>
          cases hd : c.funs id with
          | none =>
            have h1 : ∀ cfg : Config W, cfg.funs id = none → callValue₀ cfg (fuel+1) (.fn (.script id)) args st =
                .ok .null { st with world := cfg.host.notCallable (.fn (.script id)) st.world } := by
              intro cfg hf; rw [callValue₀]; simp only [hf]
            rw [h1 cg (by rw [hc.funs, hd]), h1 c hd, hc.host.notCallable]; exact Or.inl rfl
          | some fd =>
            rw [callValue₀_script cg fuel id args st fd (by rw [hc.funs, hd]), callValue₀_script c fuel id args st fd hd,
              bindArgs_g hc.host.newArray]
            exact resK_g (ihe _ _ _ _ _)
        | lib name =>
          rw [callValue₀, callValue₀]
          exact runTree_g hc.host hc.debug ihc (hc.host.lib name args st.world) st
        | other j =>
          rw [callValue₀, callValue₀]
          exact runTree_g hc.host hc.debug ihc (hc.host.other j args st.world) st
      | null => exact notFn _ (by intro fn h; cases h)
      | bool b => exact notFn _ (by intro fn h; cases h)
      | num q => exact notFn _ (by intro fn h; cases h)
      | str q => exact notFn _ (by intro fn h; cases h)
      | dt q => exact notFn _ (by intro fn h; cases h)
      | arr q => exact notFn _ (by intro fn h; cases h)
      | obj q => exact notFn _ (by intro fn h; cases h)
      | regex q => exact notFn _ (by intro fn h; cases h)
    · -- statements
      cases hs : P[pc]? with
      | none => rw [C18.execM₀_none _ _ _ _ _ _ _ hs, C18.execM₀_none _ _ _ _ _ _ _ hs]; exact Or.inl rfl
      | some s =>
        rw [C18.execM₀_succ _ _ _ _ _ _ _ s hs, C18.execM₀_succ _ _ _ _ _ _ _ s hs, hc.maxStatements]
        split
        · exact Or.inl rfl
        · exact (stepStmt_g hc.host hc.builtins ihc (fun incs s => ihi base incs s) l s _).run P
            (fun l' pc' st' => ihe P l' base pc' st') l pc
    · -- includes
      cases incs with
      | nil => rw [execIncludes₀, execIncludes₀]; exact Or.inl rfl
      | cons inc rest =>
        rw [execIncludes₀, execIncludes₀]
        simp only [hc.resolve, hc.fetch]
        cases c.fetch (c.resolve base inc) with
        | missing => exact Or.inl rfl
        | broken => exact Or.inl rfl
        | script stmts =>
          simp only
          rcases ihe stmts none (some (c.resolve base inc)) 0 st with h | ⟨s', h⟩
          · rw [h]
            cases execM₀ c fuel stmts none (some (c.resolve base inc)) 0 st with
            | done st' => exact ihi base rest st'
            | ret v st' => exact ihi base rest st'
            | err e st' => exact Or.inl rfl
            | oof => exact Or.inl rfl
          · rw [h]; exact Or.inr ⟨s', rfl⟩

/-! ## the pure source-level reading -/

/-- a machine configuration that `Agree`s with a structured one (only used to reach the combinator forms of `execSS`) -/
def cfgOf (scfg : SConfig W) : Config W :=
  { scfg.toConfig with funs := fun id => (scfg.sfuns id).map (lowerDef 0) }

theorem agree_cfgOf (scfg : SConfig W) : Agree (cfgOf scfg) scfg (fun _ => 0) := ⟨rfl, rfl, rfl, fun _ => rfl⟩

theorem exprK_g (n : Option Name) (l : Option Env) {og o : Out W} (h : OutG og o) : SOutG (exprK n l og) (exprK n l o) := by
  rcases h with rfl | ⟨s, rfl⟩
  · exact Or.inl rfl
  · exact Or.inr ⟨s, rfl⟩

theorem retK_g {og o : Out W} (h : OutG og o) : SOutG (retK og) (retK o) := by
  rcases h with rfl | ⟨s, rfl⟩
  · exact Or.inl rfl
  · exact Or.inr ⟨s, rfl⟩

theorem condK_g {hg h : Host W} (hh : HostSim hg h) {Ag A Bg B : State W → SOut W} (hA : ∀ s, SOutG (Ag s) (A s))
    (hB : ∀ s, SOutG (Bg s) (B s)) {og o : Out W} (ho : OutG og o) : SOutG (condK hg Ag Bg og) (condK h A B o) := by
  rcases ho with rfl | ⟨s, rfl⟩
  · cases og with
    | ok v s =>
      simp only [condK, hh.truthy]
      split
      · exact hA s
      · exact hB s
    | err e s => exact Or.inl rfl
    | oof => exact Or.inl rfl
  · exact Or.inr ⟨s, rfl⟩

theorem seqK_g {Gg G : Option Env → State W → SOut W} (hG : ∀ l s, SOutG (Gg l s) (G l s)) {og o : SOut W} (ho : SOutG og o) :
    SOutG (seqK Gg og) (seqK G o) := by
  rcases ho with rfl | ⟨s, rfl⟩
  · cases og <;> first | exact hG _ _ | exact Or.inl rfl
  · exact Or.inr ⟨s, rfl⟩

theorem loopK_g {Gg G : Option Env → State W → SOut W} (hG : ∀ l s, SOutG (Gg l s) (G l s)) {og o : SOut W} (ho : SOutG og o) :
    SOutG (loopK Gg og) (loopK G o) := by
  rcases ho with rfl | ⟨s, rfl⟩
  · cases og <;> first | exact hG _ _ | exact Or.inl rfl
  · exact Or.inr ⟨s, rfl⟩

theorem bodyK_g {og o : SOut W} (h : SOutG og o) : OutG (bodyK og) (bodyK o) := by
  rcases h with rfl | ⟨s, rfl⟩
  · exact Or.inl rfl
  · exact Or.inr ⟨s, rfl⟩

section
variable {sg s : SConfig W} {hg h : Host W} (hh : HostSim hg h) (k : Nat)
  (ihB : ∀ B l st, SOutG (execSB sg k B l st) (execSB s k B l st))
  (ihF : ∀ v ix b a n c l st, SOutG (forS sg k v ix b a n c l st) (forS s k v ix b a n c l st))
include hh ihB ihF

theorem footerS_g (v : Name) (ix : Option Name) (b : List SStmt) (a n c : Value) (l2 : Option Env) (st2 : State W) :
    SOutG (footerS hg sg k v ix b a n c l2 st2) (footerS h s k v ix b a n c l2 st2) := by
  cases ix with
  | none =>
    simp only [footerS, hh.truthy, hh.binop]
    split
    · exact ihF _ _ _ _ _ _ _ _
    · exact Or.inl rfl
  | some xn =>
    simp only [footerS, hh.truthy, hh.binop]
    split
    · exact ihF _ _ _ _ _ _ _ _
    · exact Or.inl rfl

theorem forIterK_g (v : Name) (ix : Option Name) (b : List SStmt) (a n c : Value) (l : Option Env) {og o : Out W}
    (ho : OutG og o) : SOutG (forIterK hg sg k v ix b a n c l og) (forIterK h s k v ix b a n c l o) := by
  rcases ho with rfl | ⟨s', rfl⟩
  · cases og with
    | ok x st1 =>
      simp only [forIterK]
      exact loopK_g (fun l2 st2 => footerS_g hh k ihB ihF v ix b a n c l2 st2) (ihB _ _ _)
    | err e s => exact Or.inl rfl
    | oof => exact Or.inl rfl
  · exact Or.inr ⟨s', rfl⟩

theorem forLenK_g (v : Name) (ix : Option Name) (b : List SStmt) (a : Value) (l : Option Env) {og o : Out W}
    (ho : OutG og o) : SOutG (forLenK hg sg k v ix b a l og) (forLenK h s k v ix b a l o) := by
  rcases ho with rfl | ⟨s', rfl⟩
  · cases og with
    | ok n st2 =>
      simp only [forLenK, hh.truthy]
      split
      · exact ihF _ _ _ _ _ _ _ _
      · exact Or.inl rfl
    | err e s => exact Or.inl rfl
    | oof => exact Or.inl rfl
  · exact Or.inr ⟨s', rfl⟩
end

/-- **the generic simulation, pure side** -/
theorem pure_g {sg s : SConfig W} (hs : SCfgSim sg s) : ∀ k : Nat,
    CallG (callS sg k) (callS s k) ∧
    (∀ x l st, SOutG (execSS sg k x l st) (execSS s k x l st)) ∧
    (∀ B l st, SOutG (execSB sg k B l st) (execSB s k B l st)) ∧
    (∀ e l st, SOutG (execSE sg k e l st) (execSE s k e l st)) ∧
    (∀ v ix b a n c l st, SOutG (forS sg k v ix b a n c l st) (forS s k v ix b a n c l st)) := by
  have hh : HostSim (cfgOf sg).host (cfgOf s).host := hs.host
  have hb : (cfgOf sg).builtins = (cfgOf s).builtins := hs.builtins
  intro k
  induction k with
  | zero =>
    refine ⟨fun f args st => ?_, fun x l st => ?_, fun B l st => ?_, fun e l st => ?_, fun v ix b a n c l st => ?_⟩
    · rw [callS, callS]; exact Or.inl rfl
    · rw [execSS, execSS]; exact Or.inl rfl
    · rw [execSB, execSB]; exact Or.inl rfl
    · rw [execSE, execSE]; exact Or.inl rfl
    · rw [forS, forS]; exact Or.inl rfl
  | succ k ih =>
    obtain ⟨ihc, ihS, ihB, ihE, ihF⟩ := ih
    have hev : ∀ l e st, OutG (evalExpr (cfgOf sg) (callS sg k) l e st) (evalExpr (cfgOf s) (callS s k) l e st) :=
      fun l e st => evalExpr_g hh hb ihc l e st
    refine ⟨fun f args st => ?_, fun x l st => ?_, fun B l st => ?_, fun e l st => ?_, fun v ix b a n c l st => ?_⟩
    · -- calls
      have notFn : ∀ v : Value, (∀ fn, v ≠ .fn fn) → OutG (callS sg (k+1) v args st) (callS s (k+1) v args st) := by
        intro v hv
        have h1 : ∀ scfg : SConfig W, callS scfg (k+1) v args st = .ok .null { st with world := scfg.host.notCallable v st.world } := by
          intro scfg
          cases v <;> first | exact absurd rfl (hv _) | (rw [callS] <;> (intro _ h; cases h))
        rw [h1, h1, hs.host.notCallable]; exact Or.inl rfl
      cases f with
      | fn fn =>
        cases fn with
        | script id =>
          cases hd : s.sfuns id with
          | none =>
            have h1 : ∀ scfg : SConfig W, scfg.sfuns id = none → callS scfg (k+1) (.fn (.script id)) args st =
                .ok .null { st with world := scfg.host.notCallable (.fn (.script id)) st.world } := by
              intro scfg hf; rw [callS]; simp only [hf]
            rw [h1 sg (by rw [hs.sfuns, hd]), h1 s hd, hs.host.notCallable]; exact Or.inl rfl
          | some d =>
            rw [callS_script (agree_cfgOf sg) k id args st d (by rw [hs.sfuns, hd]), callS_script (agree_cfgOf s) k id args st d hd,
              bindArgs_g hh.newArray]
            exact bodyK_g (ihB _ _ _)
        | lib name =>
          rw [callS, callS]
          exact runTree_g hs.toConfig.host hs.toConfig.debug ihc (hs.host.lib name args st.world) st
        | other j =>
          rw [callS, callS]
          exact runTree_g hs.toConfig.host hs.toConfig.debug ihc (hs.host.other j args st.world) st
      | null => exact notFn _ (by intro fn h; cases h)
      | bool b => exact notFn _ (by intro fn h; cases h)
      | num q => exact notFn _ (by intro fn h; cases h)
      | str q => exact notFn _ (by intro fn h; cases h)
      | dt q => exact notFn _ (by intro fn h; cases h)
      | arr q => exact notFn _ (by intro fn h; cases h)
      | obj q => exact notFn _ (by intro fn h; cases h)
      | regex q => exact notFn _ (by intro fn h; cases h)
    · -- statements
      cases x with
      | expr n e => rw [execSS_expr (agree_cfgOf sg), execSS_expr (agree_cfgOf s)]; exact exprK_g n l (hev l e st)
      | ret e =>
        cases e with
        | none => rw [execSS, execSS]; exact Or.inl rfl
        | some e => rw [execSS_ret (agree_cfgOf sg), execSS_ret (agree_cfgOf s)]; exact retK_g (hev l e st)
      | label lab => rw [execSS, execSS]; exact Or.inl rfl
      | jump lab cnd => rw [execSS, execSS]; exact Or.inl rfl
      | «include» incs => rw [execSS, execSS]; exact Or.inl rfl
      | brk => rw [execSS, execSS]; exact Or.inl rfl
      | cont => rw [execSS, execSS]; exact Or.inl rfl
      | func fid n args laa isAsync body => rw [execSS, execSS]; exact Or.inl rfl
      | ite cnd t e =>
        rw [execSS_ite (agree_cfgOf sg), execSS_ite (agree_cfgOf s)]
        exact condK_g hh (fun s' => ihB t l s') (fun s' => ihE e l s') (hev l cnd st)
      | «while» cnd b =>
        rw [execSS_while (agree_cfgOf sg), execSS_while (agree_cfgOf s)]
        exact condK_g hh (fun s' => loopK_g (fun l1 s1 => ihS _ l1 s1) (ihB b l s')) (fun s' => Or.inl rfl) (hev l cnd st)
      | «for» v ix vals b =>
        rw [execSS_for (agree_cfgOf sg), execSS_for (agree_cfgOf s)]
        rcases hev l vals st with h | ⟨s', h⟩
        · rw [h]
          cases evalExpr (cfgOf s) (callS s k) l vals st with
          | ok a st1 =>
            simp only [forValsK]
            rw [lookupFunc_g hh hb]
            exact forLenK_g hh k ihB ihF v ix b a l (callLooked_g ihc _ _ _ _)
          | err e s' => exact Or.inl rfl
          | oof => exact Or.inl rfl
        · rw [h]; exact Or.inr ⟨s', rfl⟩
    · -- blocks
      cases B with
      | nil => rw [execSB, execSB]; exact Or.inl rfl
      | cons x xs =>
        rw [execSB_cons, execSB_cons]
        exact seqK_g (fun l1 s1 => ihB xs l1 s1) (ihS x l st)
    · -- else chains
      cases e with
      | none => rw [execSE, execSE]; exact Or.inl rfl
      | els b => rw [execSE, execSE]; exact ihB b l st
      | elif cnd t e =>
        rw [execSE_elif (agree_cfgOf sg), execSE_elif (agree_cfgOf s)]
        exact condK_g hh (fun s' => ihB t l s') (fun s' => ihE e l s') (hev l cnd st)
    · -- `for` iterations
      rw [forS_succ (agree_cfgOf sg), forS_succ (agree_cfgOf s), lookupFunc_g hh hb]
      exact forIterK_g hh k ihB ihF v ix b a n c l (callLooked_g ihc _ _ _ _)

end C01
