import BareModel.LibMore
import BareProofs.C14

/-!
# C15More — the JSON text of a container (`stringNew`, `arrayJoin` elements) is the C14 specification encoder

`LibMore.jsonText` runs the *mirror* encoder of C14 (`json.dumps` stage + the clean-up substitution) on the tree read back from the
heap.  `json_text_spec`: if the oracle's number texts are in the `repr` grammar and the objects of the heap have pairwise different
keys (every Python `dict` does), that text is the direct specification encoder `Json.specEncode` — sorted keys, `ensure_ascii`
escapes, integral numbers without fraction — so every C14 theorem (`json_roundtrip`, `keys_sorted`, `json_injective`) applies to
what `stringNew` returns.
-/

namespace C15More
open Lib LibMore

/-- the oracle's number texts are `repr`-shaped (assumption of the trusted base of C13/C14, here an explicit hypothesis on `T`) -/
def NumTextsOK (T : TextFns) : Prop := ∀ q s, T.num q = some s → Json.reprDec s.toList = true

/-- every object of the heap has pairwise different keys -/
def KeysUnique (h : Heap) : Prop := ∀ r kvs, getObj h r = some kvs → (kvs.map (·.1)).Nodup

/-- element-wise relation of two lists -/
inductive All2 {α β : Type} (R : α → β → Prop) : List α → List β → Prop
  | nil : All2 R [] []
  | cons {a b as bs} : R a b → All2 R as bs → All2 R (a :: as) (b :: bs)

theorem mapT_ok {α β} (f : α → TRes β) : ∀ (xs : List α) (ys : List β), mapT f xs = .ok ys →
    All2 (fun x y => f x = .ok y) xs ys
  | [], ys, h => by simp [mapT] at h; subst h; exact .nil
  | x :: xs, ys, h => by
    unfold mapT at h
    cases hx : f x with
    | ok y =>
      cases hr : mapT f xs with
      | ok r =>
        simp only [hx, hr, TRes.ok.injEq] at h
        subst h
        exact .cons hx (mapT_ok f xs r hr)
      | cyc => simp [hx, hr] at h
      | unk => simp [hx, hr] at h
    | cyc => simp [hx] at h
    | unk => simp [hx] at h

theorem mapKV_ok {β} (f : Value → TRes β) : ∀ (kvs : List (String × Value)) (ps : List (Json.Str × β)), mapKV f kvs = .ok ps →
    All2 (fun (p : String × Value) (q : Json.Str × β) => q.1 = p.1.toList ∧ f p.2 = .ok q.2) kvs ps
  | [], ps, h => by simp [mapKV] at h; subst h; exact .nil
  | (k, v) :: kvs, ps, h => by
    unfold mapKV at h
    cases hx : f v with
    | ok y =>
      cases hr : mapKV f kvs with
      | ok r =>
        simp only [hx, hr, TRes.ok.injEq] at h
        subst h
        exact .cons ⟨rfl, hx⟩ (mapKV_ok f kvs r hr)
      | cyc => simp [hx, hr] at h
      | unk => simp [hx, hr] at h
    | cyc => simp [hx] at h
    | unk => simp [hx] at h

theorem wfList_of_forall₂ {P : Value → Json.JValue → Prop} (hP : ∀ x j, P x j → Json.WF j) :
    ∀ (xs : List Value) (js : List Json.JValue), All2 P xs js → Json.WFList js
  | _, _, .nil => by simp [Json.WFList]
  | _, _, .cons hx hr => by
    simp only [Json.WFList]
    exact ⟨hP _ _ hx, wfList_of_forall₂ hP _ _ hr⟩

theorem wfMembers_of_forall₂ {P : String × Value → Json.Str × Json.JValue → Prop} (hP : ∀ p q, P p q → Json.WF q.2) :
    ∀ (kvs : List (String × Value)) (ps : List (Json.Str × Json.JValue)), All2 P kvs ps → Json.WFMembers ps
  | _, _, .nil => by simp [Json.WFMembers]
  | _, (k, j) :: _, .cons hx hr => by
    simp only [Json.WFMembers]
    exact ⟨hP _ _ hx, wfMembers_of_forall₂ hP _ _ hr⟩

theorem keys_of_forall₂ {β} {Q : String × Value → Json.Str × β → Prop} (hQ : ∀ p q, Q p q → q.1 = p.1.toList) :
    ∀ (kvs : List (String × Value)) (ps : List (Json.Str × β)), All2 Q kvs ps →
      ps.map Prod.fst = kvs.map (fun p => p.1.toList)
  | _, _, .nil => rfl
  | _, _, .cons hx hr => by
    simp only [List.map_cons, hQ _ _ hx, keys_of_forall₂ hQ _ _ hr]

theorem TRes.map_ok {α β} {f : α → β} {t : TRes α} {b : β} (h : t.map f = .ok b) : ∃ a, t = .ok a ∧ f a = b := by
  cases t <;> simp [TRes.map] at h
  exact ⟨_, rfl, h⟩

/-- the tree read back from a heap with unique keys, with `repr`-shaped number texts, is well formed in the sense of C14 -/
theorem toJ_wf (T : TextFns) (hT : NumTextsOK T) (h : Heap) (hk : KeysUnique h) :
    ∀ (n : Nat) (v : Value) (j : Json.JValue), toJ T n h v = .ok j → Json.WF j
  | 0, _, _, hj => by simp [toJ] at hj
  | n + 1, v, j, hj => by
    unfold toJ at hj
    cases v with
    | null => simp only [TRes.ok.injEq] at hj; subst hj; simp [Json.WF]
    | bool b => simp only [TRes.ok.injEq] at hj; subst hj; simp [Json.WF]
    | num q =>
      simp only at hj
      split at hj
      · simp only [TRes.ok.injEq] at hj; subst hj; simp [Json.WF]
      · obtain ⟨s, hs, rfl⟩ := TRes.map_ok hj
        cases hq : T.num q with
        | none => simp [hq, optT] at hs
        | some s' =>
          simp only [hq, optT, TRes.ok.injEq] at hs
          subst hs
          simp only [Json.WF]
          exact hT q s' hq
    | str s => simp only [TRes.ok.injEq] at hj; subst hj; simp [Json.WF]
    | dt ms =>
      simp only at hj
      obtain ⟨s, _, rfl⟩ := TRes.map_ok hj
      simp [Json.WF]
    | fn i => simp only [TRes.ok.injEq] at hj; subst hj; simp [Json.WF]
    | regex i => simp only [TRes.ok.injEq] at hj; subst hj; simp [Json.WF]
    | arr r =>
      simp only at hj
      cases hx : getArr h r with
      | none => simp [hx] at hj
      | some xs =>
        simp only [hx] at hj
        obtain ⟨js, hjs, rfl⟩ := TRes.map_ok hj
        simp only [Json.WF]
        exact wfList_of_forall₂ (fun x j hxj => toJ_wf T hT h hk n x j hxj) xs js (mapT_ok _ xs js hjs)
    | obj r =>
      simp only at hj
      cases hx : getObj h r with
      | none => simp [hx] at hj
      | some kvs =>
        simp only [hx] at hj
        obtain ⟨ps, hps, rfl⟩ := TRes.map_ok hj
        have hf := mapKV_ok _ kvs ps hps
        simp only [Json.WF]
        refine ⟨?_, wfMembers_of_forall₂ (fun p q hpq => toJ_wf T hT h hk n p.2 q.2 hpq.2) kvs ps hf⟩
        rw [keys_of_forall₂ (fun p q hpq => hpq.1) kvs ps hf]
        have : kvs.map (fun p => p.1.toList) = (kvs.map (·.1)).map String.toList := by simp [List.map_map]
        rw [this]
        exact List.Pairwise.map String.toList (fun a b hab hl => hab (String.toList_inj.mp hl)) (hk r kvs hx)

/-- **json_text_spec.** Under the two well-formedness hypotheses, the JSON text the extended model produces for any value
(`stringNew(container)`, a container element of `arrayJoin`) is the C14 *specification* encoding of the tree read back from the heap. -/
theorem json_text_spec (T : TextFns) (hT : NumTextsOK T) (h : Heap) (hk : KeysUnique h) (v : Value) (s : String)
    (hs : jsonText T h v = .ok s) :
    ∃ j, toJ T (h.length + 1) h v = .ok j ∧ Json.WF j ∧ s = String.ofList (Json.specEncode j 0) := by
  unfold jsonText at hs
  obtain ⟨j, hj, rfl⟩ := TRes.map_ok hs
  have hwf := toJ_wf T hT h hk _ v j hj
  exact ⟨j, hj, hwf, by rw [C14.cleanup_eq_spec j hwf 0]⟩

/-- non-vacuity: an oracle with a `repr`-shaped text, a heap with an object -/
example : NumTextsOK ⟨fun q => if q = mkRat 5 2 then some "2.5" else none, fun _ => none⟩ := by
  intro q s hs
  simp only at hs
  split at hs
  · simp only [Option.some.injEq] at hs; subst hs; decide
  · cases hs

/-- the text whose shape the theorem describes -/
example : jsonText ⟨fun q => if q = mkRat 5 2 then some "2.5" else none, fun _ => none⟩
    [.obj [("b", .num (mkRat 5 2)), ("a", .arr 1)], .arr []] (.obj 0) = .ok "{\"a\":[],\"b\":2.5}" := by rfl

example : KeysUnique [.obj [("b", numN 1), ("a", .arr 1)], .arr []] := by
  intro r kvs hr
  match r, hr with
  | 0, hr => simp [getObj] at hr; subst hr; decide
  | 1, hr => simp [getObj] at hr
  | n + 2, hr => simp [getObj] at hr

end C15More
