import BareProofs.C14Bridge
import BareProofs.C11BridgeHostLib

/-!
# C14Bridge, second host — `HostLib.hostLib` (world `LWorld`) and `Lib.valueString`

`hostLib` concatenates (`binop .add`) with HostImpl's code on the projection `LWorld.toImpl`, and `systemLog` — which `Lib` does
not model — is HostImpl's tree, lifted.  With `reifyL w v = reify w.toImpl v` the theorems of `C14Bridge` transfer:
`hostLib_add_str`, `hostLib_str_add`, `hostLib_systemLog`, `hostLib_json_roundtrip`, `hostLib_json_injective`,
`hostLib_keys_sorted`, `hostLib_integral_no_fraction`, `hostLib_text_cycle`.

`Lib.valueString` (the `value_string` of the `Lib` library model, used by `arrayJoin`) is defined on null / booleans / strings /
integral numbers / functions / regexes only; where it is defined it is `strOf` (`lib_valueString_agrees`), and it is defined
exactly on those kinds (`lib_valueString_defined`).
-/

namespace C14Bridge
open Machine HostImpl HostLib C11Bridge

theorem hostLib_valueString_bridge (w : LWorld) (v : Value) (p : Compare.PValue) (h : reifyL w v = some p) :
    HostImpl.valueString? w.toImpl v = some (strOf p) := valueString_bridge w.toImpl v p h

/-- `"s" + v` on the second host -/
theorem hostLib_add_str (w : LWorld) (s : String) (v : Value) (p : Compare.PValue) (h : reifyL w v = some p) :
    hostLib.binop .add (.str s) v w = .str (s ++ strOf p) := machine_add_str w.toImpl s v p h

theorem hostLib_str_add (w : LWorld) (s : String) (v : Value) (p : Compare.PValue) (h : reifyL w v = some p) :
    hostLib.binop .add v (.str s) w = .str (strOf p ++ s) := machine_str_add w.toImpl s v p h

theorem putBack_log (w : LWorld) (l : List String) :
    putBack w.heap { w.toImpl with log := l } = { w with log := l } := by cases w; rfl

/-- `systemLog(v)` on the second host: `Lib` answers `unmodelled`, the fallback is HostImpl's tree; the `Lib` heap is kept -/
theorem hostLib_systemLog (w : LWorld) (v : Value) (p : Compare.PValue) (h : reifyL w v = some p) :
    hostLib.lib "systemLog" [v] w = .ret (.ok .null) { w with log := w.log ++ [strOf p] } := by
  have hu : Lib.lib "systemLog" ([v].map toLib) w.heap = (.unmodelled, w.heap) := rfl
  have hk : hostKeeps.contains "systemLog" = true := by decide
  show HostLib.lib "systemLog" [v] w = _
  unfold HostLib.lib
  rw [hu]
  simp only [fallback, hk, if_true]
  have := machine_systemLog w.toImpl v p h
  rw [show HostImpl.lib "systemLog" [v] w.toImpl = _ from this]
  simp only [lift]
  exact congrArg _ (putBack_log w _)

/-- a self-containing container on the second host: `+` yields null, `systemLog` fails, world unchanged -/
theorem hostLib_text_cycle (w : LWorld) (s : String) (v : Value) (h : ∃ c, ReachesEq w.toImpl v c ∧ Reaches w.toImpl c c) :
    hostLib.binop .add (.str s) v w = .null ∧ hostLib.lib "systemLog" [v] w = .ret (.fail .null) w ∧ reifyL w v = none := by
  obtain ⟨h1, h2⟩ := machine_text_cycle w.toImpl s v h
  refine ⟨h1, ?_, (valueString_none_of_cycle w.toImpl v h).2⟩
  have hu : Lib.lib "systemLog" ([v].map toLib) w.heap = (.unmodelled, w.heap) := rfl
  have hk : hostKeeps.contains "systemLog" = true := by decide
  show HostLib.lib "systemLog" [v] w = _
  unfold HostLib.lib
  rw [hu]
  simp only [fallback, hk, if_true]
  rw [show HostImpl.lib "systemLog" [v] w.toImpl = _ from h2]
  simp only [lift, putBack_toImpl]

/-- round trip on the second host -/
theorem hostLib_json_roundtrip (w : LWorld) (s : String) (v : Value) (p : Compare.PValue) (h : reifyL w v = some p)
    (hcont : IsContainer p = true) (hc : JClass p = true) :
    ∃ t : String,
      hostLib.binop .add (.str s) v w = .str (s ++ t) ∧
      hostLib.lib "systemLog" [v] w = .ret (.ok .null) { w with log := w.log ++ [t] } ∧
      t.toList = Json.mirrorEncode (toJson p) 0 ∧
      ∃ j, Json.decode t.toList = some j ∧ Json.Equiv j (toJson p) ∧ j = Json.norm (toJson p) := by
  obtain ⟨t, h1, _, h3, h4⟩ := machine_json_roundtrip w.toImpl s v p h hcont hc
  have ht : t = strOf p := by
    rw [machine_add_str w.toImpl s v p h] at h1
    exact (str_append_cancel s _ _ (Value.str.inj h1)).symm
  subst ht
  exact ⟨_, h1, hostLib_systemLog w v p h, h3, h4⟩

theorem hostLib_json_injective (w₁ w₂ : LWorld) (s : String) (v₁ v₂ : Value) (p₁ p₂ : Compare.PValue)
    (h₁ : reifyL w₁ v₁ = some p₁) (h₂ : reifyL w₂ v₂ = some p₂) (hk₁ : IsContainer p₁ = true) (hk₂ : IsContainer p₂ = true)
    (hc₁ : JClass p₁ = true) (hc₂ : JClass p₂ = true)
    (heq : hostLib.binop .add (.str s) v₁ w₁ = hostLib.binop .add (.str s) v₂ w₂) :
    Json.Equiv (toJson p₁) (toJson p₂) ∧ (Plain p₁ = true → Plain p₂ = true → Compare.valueCompare p₁ p₂ = 0) :=
  machine_json_injective w₁.toImpl w₂.toImpl s v₁ v₂ p₁ p₂ h₁ h₂ hk₁ hk₂ hc₁ hc₂ heq

theorem hostLib_keys_sorted (w : LWorld) (s : String) (v : Value) (p : Compare.PValue) (h : reifyL w v = some p)
    (hcont : IsContainer p = true) (hc : JClass p = true) :
    ∃ t : String, hostLib.binop .add (.str s) v w = .str (s ++ t) ∧
      ∃ j, Json.decode t.toList = some j ∧ Json.KeysSorted j ∧ Json.WF j := by
  obtain ⟨t, h1, _, h3⟩ := machine_keys_sorted w.toImpl s v p h hcont hc
  exact ⟨t, h1, h3⟩

theorem hostLib_integral_no_fraction (w : LWorld) (s : String) (q : Rat) (hq : q.den = 1) :
    hostLib.binop .add (.str s) (.num q) w = .str (s ++ NumText.valueStringNum (.int q.num)) ∧
    hostLib.lib "systemLog" [.num q] w = .ret (.ok .null) { w with log := w.log ++ [NumText.valueStringNum (.int q.num)] } ∧
    '.' ∉ (NumText.valueStringNum (.int q.num)).toList := by
  obtain ⟨h1, _, h3, _⟩ := (machine_integral_no_fraction w.toImpl s).1 q hq
  refine ⟨h1, ?_, h3⟩
  have := hostLib_systemLog w (.num q) (.num q) rfl
  rw [(strOf_integral q hq).1] at this
  exact this

/-! ## `Lib.valueString` -/

/-- where the `value_string` of the `Lib` model is defined it is the machine's -/
theorem lib_valueString_agrees (w : LWorld) (v : Value) (p : Compare.PValue) (h : reifyL w v = some p) (s : String)
    (hs : Lib.valueString (toLib v) = some s) : s = strOf p ∧ HostImpl.valueString? w.toImpl v = some s := by
  have hb := hostLib_valueString_bridge w v p h
  have : s = strOf p := by
    cases v with
    | null => cases hs; simp only [reifyL, reify, reifyF, Option.some.injEq] at h; subst h; rfl
    | bool b => cases hs; simp only [reifyL, reify, reifyF, Option.some.injEq] at h; subst h; rfl
    | str x => cases hs; simp only [reifyL, reify, reifyF, Option.some.injEq] at h; subst h; rfl
    | fn f => cases hs; simp only [reifyL, reify, reifyF, Option.some.injEq] at h; subst h; rfl
    | regex r => cases hs; simp only [reifyL, reify, reifyF, Option.some.injEq] at h; subst h; rfl
    | num q =>
      simp only [reifyL, reify, reifyF, Option.some.injEq] at h; subst h
      simp only [toLib, Lib.valueString] at hs
      by_cases hq : q.den = 1
      · simp only [hq, beq_self_eq_true, if_true, Option.some.injEq] at hs
        simp only [strOf, ratText_integral q hq, ← hs]
      · simp [hq] at hs
    | dt t => simp [toLib, Lib.valueString] at hs
    | arr r => simp [toLib, Lib.valueString] at hs
    | obj r => simp [toLib, Lib.valueString] at hs
  exact ⟨this, by rw [hb, this]⟩

/-- … and it is defined exactly on null, booleans, strings, integral numbers, functions and regexes -/
theorem lib_valueString_defined (v : Value) :
    (Lib.valueString (toLib v)).isSome = true ↔
      (match v with | .null | .bool _ | .str _ | .fn _ | .regex _ => True | .num q => q.den = 1 | _ => False) := by
  cases v <;> simp [toLib, Lib.valueString]

/-- non-vacuity on the `LWorld` of the `C11Bridge` examples -/
example : hostLib.binop .add (.str "v=") (.arr 2) exLW = .str "v=[{\"a\":\"x\",\"b\":1},2]" ∧
    hostLib.lib "systemLog" [.arr 3] exLW = .ret (.ok .null) { exLW with log := ["[{\"a\":\"x\",\"b\":1},2]"] } ∧
    hostLib.binop .add (.str "v=") (.arr 5) exLW = .null := by
  refine ⟨?_, ?_, ?_⟩
  · rw [hostLib_add_str exLW _ _ _ exLW_reify.1, exP_text.1]; rfl
  · rw [hostLib_systemLog exLW _ _ exLW_reify.2.1, exP_text.2.1]; rfl
  · have hc : ∃ c, ReachesEq exLW.toImpl (.arr 5) c ∧ Reaches exLW.toImpl c c :=
      ⟨.arr 5, Or.inl rfl, .step (.arr (xs := [.arr 5]) rfl (by simp))⟩
    exact (hostLib_text_cycle exLW "v=" _ hc).1

example : Lib.valueString (toLib (.num 7)) = some "7" ∧ Lib.valueString (toLib (.num (1/2))) = none ∧
    Lib.valueString (toLib (.arr 0)) = none := by decide +kernel

end C14Bridge
