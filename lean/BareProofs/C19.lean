import BareModel.Data
import BareProofs.C11

namespace C19
end C19
