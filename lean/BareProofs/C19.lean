import BareProofs.C19Agg
import BareProofs.C19Join
import BareProofs.C19Csv

/-!
# C19 — data functions implement their relational meaning; CSV typing round-trips

All theorems are about the mirror layer of `BareModel/Data.lean` (data.py / library.py) and hold for **all** tables: any
number of rows and fields, any closed values.  Expression evaluation is the parameter `eval`/`ev` (property C03).

* dataFilter            `filter_spec`, `filter_raises_iff`
* dataCalculatedField   `calc_spec`, `calc_sets_field`, `calc_raise_partial_update`
* dataSort              `sort_spec` (via C11: sorted, permutation, stable, unique)
* the typed bucket key  `bucket_key_faithful`, `key_text_faithful`; buckets = groups: `bucketRows_eq_groupSpec`
* dataTop               `top_spec`, `top_first_n_of_each_category`
* dataAggregate         `aggregate_spec`, `aggregate_partition`, `agg_count`, `agg_sum_average_stddev`,
                        `agg_min_max_homogeneous`, `agg_mixed_types_fail`
* dataJoin              `right_names_spec`, `join_spec`, `join_pairs_equal_values`, `join_never_overwrites_left`, `join_raises`
* CSV                   `validate_column`, `csv_typing_roundtrip_partial`, `datelike_kept_string`
-/

namespace C19
open Compare Data

/-! ## dataFilter -/

/-- **dataFilter keeps exactly the rows whose expression value is truthy, in order** (the rows themselves: the result is
`List.filter` of the input). -/
theorem filter_spec (ev : Row → PValue) (data : Table) :
    filterData (fun r => some (ev r)) data = some (data.filter (fun r => truthy (ev r))) := by
  have := filterLoop_some (fun r => some (ev r)) data [] (fun _ _ => by simp)
  have hk : keeps (fun r => some (ev r)) = fun r => truthy (ev r) := by funext r; simp [keeps]
  simpa [filterData, hk] using this

/-- … for a partial evaluator: the call raises iff the evaluation raises on some row; otherwise it is the filter. -/
theorem filter_raises_iff (eval : Row → Option PValue) (data : Table) :
    (filterData eval data = none ↔ ∃ r ∈ data, eval r = none) ∧
    ((∀ r ∈ data, eval r ≠ none) → filterData eval data = some (data.filter (keeps eval))) := by
  refine ⟨⟨fun h => ?_, fun h => filterLoop_none eval data [] h⟩, fun h => by simpa [filterData] using filterLoop_some eval data [] h⟩
  by_cases hall : ∀ r ∈ data, eval r ≠ none
  · have := filterLoop_some eval data [] hall
    rw [filterData] at h; rw [h] at this; cases this
  · simpa using hall

example : filterData (fun r => some (rowGet "a" r)) [[("a", .num 1)], [("a", .null)], [("b", .num 2)], [("a", .str "x"), ("b", .null)], [("a", .num 0)]] =
    some [[("a", .num 1)], [("a", .str "x"), ("b", .null)]] := by decide +kernel

example : filterData (fun r => if rowGet "a" r = .null then none else some (rowGet "a" r)) [[("a", .num 1)], [("a", .null)]] = none := by
  decide +kernel

/-! ## dataCalculatedField -/

/-- **dataCalculatedField sets the expression value on every row** (same rows, updated: `row[field] = value`). -/
theorem calc_spec (field : String) (ev : Row → PValue) (data : Table) :
    calcField field (fun r => some (ev r)) data = (data.map (fun r => rowSet field (ev r) r), true) :=
  calcField_total field ev data

/-- what `row[field] = value` does to a row: the field now has the value, every other field keeps its value, the field
order is unchanged with a new field at the end, and keys stay pairwise different. -/
theorem calc_sets_field (field : String) (v : PValue) (r : Row) :
    rowGet field (rowSet field v r) = v ∧ (∀ k, k ≠ field → rowGet k (rowSet field v r) = rowGet k r) ∧
    (rowSet field v r).map (·.1) = (if rowHas field r then r.map (·.1) else r.map (·.1) ++ [field]) ∧
    ((r.map (·.1)).Nodup → ((rowSet field v r).map (·.1)).Nodup) :=
  ⟨rowGet_rowSet_same field v r, fun k hk => rowGet_rowSet_other field k v r hk, rowSet_keys field v r, rowSet_nodup field v r⟩

/-- when the evaluation raises at some row, the call raises after having updated exactly the rows before it (the update is
in place). -/
theorem calc_raise_partial_update (field : String) (eval : Row → Option PValue) (data : Table) :
    ((calcField field eval data).2 = true ↔ ∀ r ∈ data, eval r ≠ none) ∧
    (∀ pre row post, data = pre ++ row :: post → (∀ r ∈ pre, eval r ≠ none) → eval row = none →
      calcField field eval data = (pre.map (fun r => rowSet field ((eval r).getD .null) r) ++ row :: post, false)) :=
  ⟨calcField_done_iff field eval data, fun pre row post hd hp hn => hd ▸ calcField_raise field eval pre row post hp hn⟩

example : calcField "a2" (fun r => some (rowGet "a" r)) [[("a", .num 1), ("a2", .str "old"), ("a3", .null)], [("a", .null)]] =
    ([[("a", .num 1), ("a2", .num 1), ("a3", .null)], [("a", .null), ("a2", .null)]], true) := by decide +kernel

/-! ## dataSort -/

/-- **dataSort returns the rows stably ordered by the given keys and directions**: for `sorts` entries of the modelled
shape, the result is ordered w.r.t. the lexicographic multi-key comparator (each key ascending or descending, a missing
field is null), is a permutation of the input, keeps the relative order of rows that compare equal, and is the only list
with these three properties (so *any* stable sort — CPython's timsort — returns it). -/
theorem sort_spec (sorts : List PValue) (ss : List (String × Bool)) (h : sorts.mapM sortSpec = some ss) (data : Table) :
    sortData sorts data = some (dataSort ss data) ∧
    C11.Sorted (sortDataFn ss) (dataSort ss data) ∧ (dataSort ss data).Perm data ∧
    (∀ r, (dataSort ss data).filter (C11.eqv (sortDataFn ss) r) = data.filter (C11.eqv (sortDataFn ss) r)) ∧
    (∀ ys, C11.Sorted (sortDataFn ss) ys → (∀ r, ys.filter (C11.eqv (sortDataFn ss) r) = data.filter (C11.eqv (sortDataFn ss) r)) →
      ys = dataSort ss data) := by
  refine ⟨by simp [sortData, h], C11.dataSort_spec ss data⟩

/-- how a `sorts` entry is read: `[field]` is ascending, `[field, flag]` descending iff the flag is truthy *for Python*
(the empty object is falsy here although `value_boolean` calls it true). -/
theorem sort_entry (f : String) (d : PValue) (rest : List PValue) :
    sortSpec (.arr [.str f]) = some (f, false) ∧ sortSpec (.arr (.str f :: d :: rest)) = some (f, pyTruthy d) ∧
    pyTruthy (.obj []) = false ∧ truthy (.obj []) = true ∧ sortSpec (.arr []) = none := by
  simp [sortSpec, pyTruthy, truthy]

example : sortData [.arr [.str "a", .bool true], .arr [.str "b"]]
    [[("a", .num 1), ("b", .num 2)], [("a", .num 2)], [("b", .num 1), ("a", .num 1)], [("a", .num 2), ("c", .null)]] =
    some [[("a", .num 2)], [("a", .num 2), ("c", .null)], [("b", .num 1), ("a", .num 1)], [("a", .num 1), ("b", .num 2)]] := by
  decide +kernel

/-! ## the typed bucket key -/

/-- **The bucket key is faithful**: on the value fragment of the property (null, booleans, numbers — `1` and `1.0` are one
number —, strings, datetimes, arrays and objects of those, recursively) two values get the same `_bucket_key` exactly when
`value_compare` calls them equal — which happens only for values of the same type. -/
theorem bucket_key_faithful (a b : PValue) (ha : IsData a = true) (hb : IsData b = true) :
    (bucketKey a = bucketKey b ↔ valueCompare a b = 0) ∧ (valueCompare a b = 0 → typeName a = typeName b) := by
  simp only [IsData, Bool.and_eq_true] at ha hb
  refine ⟨faithful a ha.2 b hb.2, fun h => ?_⟩
  cases a <;> cases b <;> simp [valueCompare, typeName] at h ⊢ <;> exact absurd h (by decide)

/-- rows whose values are data values -/
def RowData (r : Row) : Prop := ∀ p ∈ r, IsData.noOpaque p.2 = true

theorem rowGet_noOpaque (f : String) : ∀ r : Row, RowData r → IsData.noOpaque (rowGet f r) = true
  | [], _ => rfl
  | (k, v) :: rest, h => by
    by_cases e : k = f
    · simpa [rowGet, e] using h (k, v) (by simp)
    · simpa [rowGet, e] using rowGet_noOpaque f rest (fun p hp => h p (by simp [hp]))

theorem noOpaqueList_map (r : Row) (h : RowData r) : ∀ fs : List String, IsData.noOpaqueList (fs.map (fun f => rowGet f r)) = true
  | [] => rfl
  | f :: fs => by simp [IsData.noOpaqueList, rowGet_noOpaque f r h, noOpaqueList_map r h fs]

/-- … lifted to category keys: two rows fall into the same bucket of `dataTop`/`dataAggregate` exactly when their lists of
category values compare equal (position by position equal values of equal types).  Strings containing JSON punctuation
(`a.0,` vs `a,`), `1` vs `'1'` vs `true`, a datetime vs its ISO text are all kept apart: the key is structural, not text. -/
theorem key_text_faithful (fields : List String) (r r' : Row) (h : RowData r) (h' : RowData r') :
    catKey (some fields) r = catKey (some fields) r' ↔
      valueCompare (.arr (fields.map (fun f => rowGet f r))) (.arr (fields.map (fun f => rowGet f r'))) = 0 := by
  simp only [catKey, Option.map_some, Option.some.injEq]
  exact faithful _ (by simpa [IsData.noOpaque] using noOpaqueList_map r h fields) _ (by simpa [IsData.noOpaque] using noOpaqueList_map r' h' fields)

example : bucketKey (.str "a.0,") ≠ bucketKey (.str "a,") ∧ bucketKey (.num 1) ≠ bucketKey (.str "1") ∧
    bucketKey (.num 1) ≠ bucketKey (.bool true) ∧ bucketKey (.dt 63713433600000000) ≠ bucketKey (.str "2020-01-01T00:00:00+00:00") ∧
    bucketKey (.obj [("x", .num 1), ("y", .arr [.null])]) = bucketKey (.obj [("y", .arr [.null]), ("x", .num 1)]) ∧
    IsData (.obj [("x", .num 1), ("y", .arr [.null])]) = true := by decide +kernel

/-- **Bucketing is grouping**: filling a dict of lists keyed by `keyOf` row by row gives one entry per distinct key in
first-appearance order, each with its rows in original order. -/
theorem bucketRows_eq_groupSpec {κ α : Type} [DecidableEq κ] (keyOf : α → κ) (rows : List α) :
    bucketRows keyOf rows = (dedup (rows.map keyOf)).map (fun k => (k, rows.filter (fun r => keyOf r = k))) :=
  bucketRows_groupSpec keyOf rows

/-! ## dataTop -/

theorem take_min_length {α : Type} (n : Nat) (l : List α) : l.take (min n l.length) = l.take n := by
  by_cases h : n ≤ l.length
  · rw [Nat.min_eq_left h]
  · rw [Nat.min_eq_right (by omega), List.take_length, List.take_of_length_le (by omega)]

/-- **dataTop keeps the first `n` rows of each category**, categories in first-appearance order, rows in original order; `n`
arrives as a number that must be integral and ≥ 1 (else the argument is rejected: null), and is used as `int(count)`. -/
theorem top_spec (data : Table) (count : Rat) (fields : Option (List String)) :
    dataTop data count fields =
      if ((pyInt count : Int) : Rat) = count ∧ 1 ≤ count then some (topSpec data (pyInt count).toNat fields) else none := by
  unfold dataTop topData topSpec
  rw [bucketRows_groupSpec]
  simp only [take_min_length]

/-- an integral float count is its integer: `int(2.0) = 2` -/
theorem pyInt_int (n : Int) : pyInt (n : Rat) = n := by
  simp [pyInt, Rat.num_intCast, Rat.den_intCast]

/-- … per category: for any row `r`, the rows of the result that are in `r`'s category are exactly the first `n` rows of the
data that are in `r`'s category. -/
theorem top_first_n_of_each_category (data : Table) (n : Nat) (fields : Option (List String)) (r : Row) :
    (topSpec data n fields).filter (fun x => catKey fields x = catKey fields r) =
      (data.filter (fun x => catKey fields x = catKey fields r)).take n := by
  unfold topSpec groupSpec
  rw [List.flatMap_map, List.filter_flatMap]
  have hg : ∀ k', (List.filter (fun x => decide (catKey fields x = catKey fields r))
      ((data.filter (fun x => decide (catKey fields x = k'))).take n)) =
      if k' = catKey fields r then (data.filter (fun x => decide (catKey fields x = catKey fields r))).take n else [] := by
    intro k'
    by_cases hk : k' = catKey fields r
    · subst hk
      simp only [if_true]
      refine List.filter_eq_self.mpr (fun x hx => ?_)
      have := (List.mem_filter.mp (List.mem_of_mem_take hx)).2
      simpa using this
    · simp only [hk, if_false]
      refine List.filter_eq_nil_iff.mpr (fun x hx hd => hk ?_)
      have h1 := (List.mem_filter.mp (List.mem_of_mem_take hx)).2
      have h1 : catKey fields x = k' := by simpa using h1
      have h2 : catKey fields x = catKey fields r := by simpa using hd
      rw [← h1, h2]
  simp only [hg]
  rw [flatMap_single _ (nodup_dedup _) (catKey fields r) (fun _ => (data.filter (fun x => decide (catKey fields x = catKey fields r))).take n)]
  split
  · rfl
  · rename_i hk
    have : data.filter (fun x => decide (catKey fields x = catKey fields r)) = [] := by
      refine List.filter_eq_nil_iff.mpr (fun x hx hd => hk ((mem_dedup _ _).mpr ?_))
      have : catKey fields x = catKey fields r := by simpa using hd
      exact this ▸ List.mem_map_of_mem hx
    simp [this]

example : dataTop [[("a", .num 1), ("b", .num 1)], [("a", .str "1"), ("b", .num 2)], [("a", .num 1), ("b", .num 3)], [("a", .num 1), ("b", .num 4)],
      [("b", .num 5)], [("a", .null), ("b", .num 6)], [("a", .str "1"), ("b", .num 7)]] 2 (some ["a"]) =
    some [[("a", .num 1), ("b", .num 1)], [("a", .num 1), ("b", .num 3)], [("a", .str "1"), ("b", .num 2)], [("a", .str "1"), ("b", .num 7)],
      [("b", .num 5)], [("a", .null), ("b", .num 6)]] ∧
    dataTop [[("a", .num 1)]] (3 / 2) none = none ∧ dataTop [[("a", .num 1)]] 0 none = none := by decide +kernel

/-! ## dataAggregate -/

/-- **dataAggregate partitions the rows by category values and computes the functions over the non-null measure values**:
for a valid aggregation whose output names are pairwise different and differ from the category fields, the two-pass mirror
(`aggregate_data`: lists collected inside the aggregate rows, then replaced) equals the specification: one row per distinct
category (first-appearance order) = the category fields of the category's first row followed by one cell per measure, the
cell being null when the category has no non-null value and the function over the non-null values otherwise; the first
failing cell (in row, then measure order) makes the whole call fail.  An invalid aggregation raises. -/
theorem aggregate_spec (F : HostFloat) (data : Table) (agg : Aggregation) :
    (agg.valid = true → agg.WF = true → aggregateData F data agg = aggregateSpec F data agg) ∧
    (agg.valid = false → aggregateData F data agg = .raised) :=
  ⟨aggregateData_eq_spec F data agg, fun h => by simp [aggregateData, h]⟩

/-- the category fields of a new aggregate row hold the row's category values -/
theorem aggNewRow_get (row : Row) : ∀ (cats : List String) (acc : Row) (c : String),
    (c ∈ cats ∨ (rowHas c acc = true ∧ rowGet c acc = rowGet c row)) →
    rowGet c (cats.foldl (fun r c => rowSet c (rowGet c row) r) acc) = rowGet c row
  | [], acc, c, h => by
    rcases h with h | h
    · simp at h
    · exact h.2
  | c' :: cats, acc, c, h => by
    refine aggNewRow_get row cats _ c ?_
    by_cases e : c = c'
    · subst e
      refine .inr ⟨?_, rowGet_rowSet_same _ _ _⟩
      rw [rowHas_iff, rowSet_keys]; split
      · rename_i hh; exact (rowHas_iff _ _).mp hh
      · simp
    · rcases h with h | h
      · rcases List.mem_cons.mp h with h | h
        · exact absurd h e
        · exact .inl h
      · refine .inr ⟨?_, by rw [rowGet_rowSet_other _ _ _ _ e]; exact h.2⟩
        rw [rowHas_iff, rowSet_keys]; split
        · exact (rowHas_iff _ _).mp h.1
        · exact List.mem_append_left _ ((rowHas_iff _ _).mp h.1)

/-- … consequences of `aggregate_spec` for a successful call: there is exactly one output row per distinct category, in
first-appearance order; the `i`-th output row starts with the category fields taken from the first row of the `i`-th category
(each category field holds that row's value) and continues with the measure cells computed from that category's rows. -/
theorem aggregate_partition (F : HostFloat) (data : Table) (agg : Aggregation) (hv : agg.valid = true) (hwf : agg.WF = true)
    (out : Table) (h : aggregateData F data agg = .ok out) :
    out.length = (dedup (data.map (catKey agg.categories))).length ∧
    (∀ (i : Nat) (g : Option Key × List Row), (groupSpec (catKey agg.categories) data)[i]? = some g →
      ∃ cells, out[i]? = some (aggNewRow agg.categories (g.2.headD []) ++ cells) ∧
        Res.mapM (fun (m : Measure) => (aggCell F m.fn ((g.2.map (rowGet m.field)).filter (fun v => v ≠ .null))).map (fun v => (m.out, v)))
          agg.measures = .ok cells ∧
        cells.map (·.1) = agg.measures.map Measure.out) ∧
    (∀ cats row c, agg.categories = some cats → c ∈ cats → rowGet c (aggNewRow agg.categories row) = rowGet c row) := by
  rw [aggregateData_eq_spec F data agg hv hwf] at h
  unfold aggregateSpec at h
  refine ⟨?_, fun i g hg => ?_, fun cats row c hc hm => ?_⟩
  · have := Res.mapM_length _ _ _ h
    simpa [groupSpec] using this
  · obtain ⟨b, hb, hf⟩ := Res.mapM_get _ _ _ h i g hg
    cases hc : Res.mapM (fun (m : Measure) =>
        (aggCell F m.fn ((g.2.map (rowGet m.field)).filter (fun v => v ≠ .null))).map (fun v => (m.out, v))) agg.measures with
    | ok cells =>
      rw [hc] at hf
      simp only [Res.map_ok, Res.ok.injEq] at hf
      refine ⟨cells, by rw [hb, hf], rfl, ?_⟩
      exact mapM_cells_names (fun m => aggCell F m.fn ((g.2.map (rowGet m.field)).filter (fun v => v ≠ .null))) _ _ hc
    | raised => rw [hc] at hf; simp at hf
    | unmodelled => rw [hc] at hf; simp at hf
  · simp only [aggNewRow, hc, Option.getD_some]
    exact aggNewRow_get row cats [] c (.inl hm)

/-- **count** = the number of non-null measure values (null when there is none). -/
theorem agg_count (F : HostFloat) (vs : List PValue) :
    aggCell F .count vs = .ok (if vs = [] then .null else .num (vs.length : Rat)) := by
  cases vs <;> simp [aggCell, aggApply]

theorem numsOf_nums : ∀ qs : List Rat, numsOf (qs.map PValue.num) = some qs
  | [] => rfl
  | q :: qs => by
    have := numsOf_nums qs
    simp only [numsOf] at this ⊢
    simp [List.mapM_cons, numOf, this]

/-- **sum / average / stddev** over number values are the defining formulas on the exact rational values: the sum
(`math.fsum`: the exact sum rounded once), the sum divided by the count, and the square root of the mean squared deviation
from the mean — all through the host's float conversion `F` (not modelled); when `F` is exact on the value at hand (the
exactly-representable case) the cell *is* the rational sum, the rational mean, resp. the rational whose square is the variance.  `_partial` on float rounding: `F.round`/`F.sqrt` are
assumptions about `statistics.mean`/`pstdev`, sampled by the correspondence. -/
theorem agg_sum_average_stddev (F : HostFloat) (qs : List Rat) (hne : qs ≠ []) :
    aggCell F .sum (qs.map .num) = .ok (.num (F.round (ratSum qs))) ∧
    (F.round (ratSum qs) = ratSum qs → aggCell F .sum (qs.map .num) = .ok (.num (ratSum qs))) ∧
    aggCell F .average (qs.map .num) = .ok (.num (F.round (ratSum qs / qs.length))) ∧
    aggCell F .stddev (qs.map .num) = .ok (.num (F.sqrt (ratPVariance qs))) ∧
    (F.round (ratMean qs) = ratMean qs → aggCell F .average (qs.map .num) = .ok (.num (ratMean qs))) ∧
    (∀ s, 0 ≤ s → s * s = ratPVariance qs → F.sqrt (s * s) = s → aggCell F .stddev (qs.map .num) = .ok (.num s)) := by
  have he : (qs.map PValue.num).isEmpty = false := by cases qs <;> simp at hne ⊢
  refine ⟨?_, fun h => ?_, ?_, ?_, fun h => ?_, fun s _ hs hF => ?_⟩ <;>
    simp only [aggCell, he, Bool.false_eq_true, if_false, aggApply, numsOf_nums, ratMean]
  · rw [h]
  · rw [← ratMean, h]
  · rw [← hs, hF]

example : ratSum [1, 2, 3, 6] = 12 ∧ ratMean [1, 2, 3, 6] = 3 ∧ ratPVariance [1, 2, 3, 6] = 7 / 2 ∧ ratPVariance [1, 3] = 1 * 1 := by
  decide +kernel

/-- the three classes of scalars Python can order among themselves -/
def Comparable (S : PValue → Prop) : Prop := ∀ a b, S a → S b → pyGt a b = .ok (decide (valueCompare a b > 0))

theorem comparable_num : Comparable (fun v => ∃ q, v = .num q) := by
  rintro _ _ ⟨x, rfl⟩ ⟨y, rfl⟩
  have := (C11.num_cmp x y).2.2
  simp only [pyGt, numOf]
  by_cases h : y < x
  · have hc : valueCompare (.num x) (.num y) > 0 := this.mpr h
    simp [h, hc]
  · have hc : ¬ valueCompare (.num x) (.num y) > 0 := fun hh => h (this.mp hh)
    simp [h, hc]

theorem comparable_str : Comparable (fun v => ∃ s, v = .str s) := by
  rintro _ _ ⟨x, rfl⟩ ⟨y, rfl⟩
  simp [pyGt, numOf, valueCompare]

theorem comparable_dt : Comparable (fun v => ∃ t, v = .dt t) := by
  rintro _ _ ⟨x, rfl⟩ ⟨y, rfl⟩
  simp only [pyGt, numOf, valueCompare, tri]
  by_cases h : y < x
  · have h1 : ¬ x < y := by omega
    have h2 : ¬ x = y := by omega
    simp [h, h1, h2]
  · by_cases h1 : x < y
    · simp [h, h1]
    · have : x = y := by omega
      simp [this]

theorem pyMaxGo_pick {S : PValue → Prop} (hS : Comparable S) : ∀ (xs : List PValue) (cur : PValue), S cur → (∀ x ∈ xs, S x) →
    pyMaxGo cur xs = .ok (C11.pick valueCompare cur xs)
  | [], _, _, _ => rfl
  | x :: xs, cur, hc, hx => by
    have h1 := hS x cur (hx x (by simp)) hc
    simp only [pyMaxGo, h1, Res.bind_ok, C11.pick, List.foldl_cons]
    by_cases hg : valueCompare x cur > 0
    · simpa [hg, C11.pick] using pyMaxGo_pick hS xs x (hx x (by simp)) (fun y hy => hx y (by simp [hy]))
    · simpa [hg, C11.pick] using pyMaxGo_pick hS xs cur hc (fun y hy => hx y (by simp [hy]))

theorem pyMinGo_pick {S : PValue → Prop} (hS : Comparable S) : ∀ (xs : List PValue) (cur : PValue), S cur → (∀ x ∈ xs, S x) →
    pyMinGo cur xs = .ok (C11.pick (fun a b => valueCompare b a) cur xs)
  | [], _, _, _ => rfl
  | x :: xs, cur, hc, hx => by
    have h1 := hS cur x hc (hx x (by simp))
    simp only [pyMinGo, h1, Res.bind_ok, C11.pick, List.foldl_cons]
    by_cases hg : valueCompare cur x > 0
    · simpa [hg, C11.pick] using pyMinGo_pick hS xs x (hx x (by simp)) (fun y hy => hx y (by simp [hy]))
    · simpa [hg, C11.pick] using pyMinGo_pick hS xs cur hc (fun y hy => hx y (by simp [hy]))

/-- all numbers, all strings, or all datetimes -/
def Homogeneous (vs : List PValue) : Prop :=
  (∀ v ∈ vs, ∃ q, v = .num q) ∨ (∀ v ∈ vs, ∃ s, v = .str s) ∨ (∀ v ∈ vs, ∃ t, v = .dt t)

/-- **min / max** over values of one orderable type (Python's `min`/`max`, not `value_compare`) agree with the
`value_compare` order: the result is `mathMax`/`mathMin` of the values — by C11 `min_max_spec` the first greatest / first
least value w.r.t. `value_compare`. -/
theorem agg_min_max_homogeneous (F : HostFloat) (v : PValue) (rest : List PValue) (h : Homogeneous (v :: rest)) :
    aggCell F .max (v :: rest) = .ok (mathMax (v :: rest)) ∧ aggCell F .min (v :: rest) = .ok (mathMin (v :: rest)) := by
  have hmax : mathMax (v :: rest) = C11.pick valueCompare v rest := by
    simp only [mathMax, List.foldl_cons, maxStep, if_true]; exact C11.foldl_maxStep v rest
  have hmin : mathMin (v :: rest) = C11.pick (fun a b => valueCompare b a) v rest := by
    simp only [mathMin, List.foldl_cons, minStep, if_true]; exact C11.foldl_minStep v rest
  simp only [aggCell, List.isEmpty_cons, Bool.false_eq_true, if_false, aggApply, hmax, hmin]
  rcases h with h | h | h
  · exact ⟨pyMaxGo_pick comparable_num rest v (h v (by simp)) (fun x hx => h x (by simp [hx])),
      pyMinGo_pick comparable_num rest v (h v (by simp)) (fun x hx => h x (by simp [hx]))⟩
  · exact ⟨pyMaxGo_pick comparable_str rest v (h v (by simp)) (fun x hx => h x (by simp [hx])),
      pyMinGo_pick comparable_str rest v (h v (by simp)) (fun x hx => h x (by simp [hx]))⟩
  · exact ⟨pyMaxGo_pick comparable_dt rest v (h v (by simp)) (fun x hx => h x (by simp [hx])),
      pyMinGo_pick comparable_dt rest v (h v (by simp)) (fun x hx => h x (by simp [hx]))⟩

example : aggCell ⟨id, id⟩ .max [.num 1, .num 3, .num 2, .num 3] = .ok (.num 3) ∧ aggCell ⟨id, id⟩ .min [.str "b", .str "a"] = .ok (.str "a") ∧
    aggCell ⟨id, id⟩ .min [] = .ok .null ∧ Homogeneous [.num 1, .num 3] := by
  refine ⟨by decide +kernel, by decide +kernel, by decide +kernel, .inl ?_⟩
  intro v hv; simp at hv; rcases hv with rfl | rfl <;> exact ⟨_, rfl⟩

/-- the class of a scalar for Python's ordering: numbers and booleans together, strings, datetimes -/
def cmpClass : PValue → Nat
  | .num _ => 0
  | .bool _ => 0
  | .str _ => 1
  | .dt _ => 2
  | _ => 3

theorem pyGt_class (a b : PValue) (ha : isScalar a = true ∧ a ≠ .null) (hb : isScalar b = true ∧ b ≠ .null) :
    (cmpClass a = cmpClass b → ∃ g, pyGt a b = .ok g) ∧ (cmpClass a ≠ cmpClass b → pyGt a b = .raised) := by
  cases a <;> cases b <;> simp [isScalar] at ha hb <;> simp [pyGt, numOf, cmpClass, isScalar]

theorem pyMaxGo_mixed (v : PValue) : ∀ (rest : List PValue) (cur : PValue), (isScalar cur = true ∧ cur ≠ .null) → cmpClass cur = cmpClass v →
    (∀ w ∈ rest, isScalar w = true ∧ w ≠ .null) → (∃ w ∈ rest, cmpClass w ≠ cmpClass v) →
    pyMaxGo cur rest = .raised ∧ pyMinGo cur rest = .raised
  | [], _, _, _, _, h => by simp at h
  | x :: xs, cur, hc, hcv, hs, hm => by
    have hx := hs x (by simp)
    by_cases hcl : cmpClass x = cmpClass cur
    · obtain ⟨g, hg⟩ := (pyGt_class x cur hx hc).1 hcl
      obtain ⟨g', hg'⟩ := (pyGt_class cur x hc hx).1 hcl.symm
      have hrest : ∃ w ∈ xs, cmpClass w ≠ cmpClass v := by
        obtain ⟨w, hw, hne⟩ := hm
        rcases List.mem_cons.mp hw with e | e
        · subst e; exact absurd (hcl.trans hcv) hne
        · exact ⟨w, e, hne⟩
      have hs' : ∀ w ∈ xs, isScalar w = true ∧ w ≠ .null := fun w hw => hs w (by simp [hw])
      simp only [pyMaxGo, pyMinGo, hg, hg', Res.bind_ok]
      constructor
      · cases g
        · exact (pyMaxGo_mixed v xs cur hc hcv hs' hrest).1
        · exact (pyMaxGo_mixed v xs x hx (hcl.trans hcv) hs' hrest).1
      · cases g'
        · exact (pyMaxGo_mixed v xs cur hc hcv hs' hrest).2
        · exact (pyMaxGo_mixed v xs x hx (hcl.trans hcv) hs' hrest).2
    · have h1 := (pyGt_class x cur hx hc).2 hcl
      have h2 := (pyGt_class cur x hc hx).2 (fun e => hcl e.symm)
      simp [pyMaxGo, pyMinGo, h1, h2]

/-- **mixed types fail**: `sum`, `average` and `stddev` raise as soon as one non-null value is not a number (or boolean, which
Python counts as 0/1); `min` and `max` raise when the non-null values are scalars of two different orderable classes
(number/boolean, string, datetime).  The library wrapper turns the raised exception into a null result for the whole call. -/
theorem agg_mixed_types_fail (F : HostFloat) (v : PValue) (rest : List PValue) :
    ((∃ w ∈ v :: rest, numOf w = none) →
      aggCell F .sum (v :: rest) = .raised ∧ aggCell F .average (v :: rest) = .raised ∧ aggCell F .stddev (v :: rest) = .raised) ∧
    ((∀ w ∈ v :: rest, isScalar w = true ∧ w ≠ .null) → (∃ w ∈ rest, cmpClass w ≠ cmpClass v) →
      aggCell F .max (v :: rest) = .raised ∧ aggCell F .min (v :: rest) = .raised) := by
  constructor
  · rintro ⟨w, hw, hn⟩
    have : numsOf (v :: rest) = none := by
      have key : ∀ l : List PValue, w ∈ l → numsOf l = none := by
        intro l
        induction l with
        | nil => intro h; simp at h
        | cons x xs ih =>
          intro h
          simp only [numsOf, List.mapM_cons] at ih ⊢
          rcases List.mem_cons.mp h with e | e
          · subst e; simp [hn]
          · cases numOf x <;> simp [ih e]
      exact key _ hw
    simp [aggCell, aggApply, this]
  · intro hs hm
    have := pyMaxGo_mixed v rest v (hs v (by simp)) rfl (fun w hw => hs w (by simp [hw])) hm
    simp [aggCell, aggApply, this.1, this.2]

example : aggregateData ⟨id, id⟩
    [[("k", .str "a.0,"), ("m", .num 1)], [("k", .str "a,"), ("m", .num 5)], [("k", .str "a.0,"), ("m", .null)], [("k", .str "a.0,"), ("m", .num 3)],
     [("m", .num 7)], [("k", .null), ("m", .str "x")]]
    { categories := some ["k"], measures := [⟨"m", .count, some "n"⟩, ⟨"m", .sum, none⟩, ⟨"z", .max, none⟩] } =
    .raised ∧
  aggregateData ⟨id, id⟩
    [[("k", .str "a.0,"), ("m", .num 1)], [("k", .str "a,"), ("m", .num 5)], [("k", .str "a.0,"), ("m", .null)], [("k", .str "a.0,"), ("m", .num 3)],
     [("m", .num 7)], [("k", .null), ("m", .null)]]
    { categories := some ["k"], measures := [⟨"m", .count, some "n"⟩, ⟨"m", .average, none⟩, ⟨"z", .max, none⟩] } =
    .ok [[("k", .str "a.0,"), ("n", .num 2), ("m", .num 2), ("z", .null)], [("k", .str "a,"), ("n", .num 1), ("m", .num 5), ("z", .null)],
         [("k", .null), ("n", .num 1), ("m", .num 7), ("z", .null)]] := by decide +kernel

/-! ## dataJoin -/

/-- **The renaming of right fields**: `right_names` maps exactly the right field names, in order; a right field keeps its name
unless a left field has it, and otherwise becomes `name2`, `name3`, … — the first of these that is neither a left nor a right
field name; the search never fails (pigeonhole: the fuel of the mirror suffices). -/
theorem right_names_spec (leftData rightData : Table) :
    ∃ names, rightNames leftData rightData = some names ∧ names.map (·.1) = fieldNames rightData ∧
      ∀ p ∈ names, IsJoinedName (fieldNames leftData) (fieldNames rightData) p.1 p.2 := by
  simpa [rightNames] using rightNamesLoop_ok (fieldNames leftData) (fieldNames rightData) (fieldNames rightData) [] (by simp) (by simp)

/-- **dataJoin pairs each left row with exactly the right rows whose key is equal**, left rows in order, partners in right
order; each pair is the left row followed by the right fields under their joined names.  A left row without partner is kept
iff `isLeftJoin` is **false** — this is what data.py:218 does and `test_join_data_left` pins (the doc comment of the flag
says the opposite). -/
theorem join_spec (kl kr : Row → PValue) (leftData rightData : Table) (isLeftJoin : Bool) :
    ∃ names, rightNames leftData rightData = some names ∧
      joinData (fun r => some (kl r)) (fun r => some (kr r)) leftData rightData isLeftJoin =
        some (joinSpec kl kr (mergeRow (renameOf names)) (!isLeftJoin) leftData rightData) := by
  obtain ⟨names, hn, hk, _⟩ := right_names_spec leftData rightData
  refine ⟨names, hn, ?_⟩
  have hnames : ∀ r ∈ rightData, ∀ p ∈ r, p.1 ∈ names.map (·.1) := fun r hr p hp =>
    hk ▸ (mem_fieldNames p.1 rightData).mpr ⟨r, hr, List.mem_map_of_mem hp⟩
  have hb : bucketRowsM (fun r => some (kr r)) rightData [] = some (groupSpec (fun r => bucketKey (kr r)) rightData) := by
    rw [bucketRowsM_total, ← bucketRows_groupSpec]; rfl
  simp only [joinData, hn, hb]
  rw [joinLoop_total kl kr names rightData isLeftJoin hnames leftData [], joinSpec_eq]
  simp

theorem flatMap_congr' {α β : Type} (f g : α → List β) : ∀ l : List α, (∀ a ∈ l, f a = g a) → l.flatMap f = l.flatMap g
  | [], _ => rfl
  | a :: l, h => by
    simp only [List.flatMap_cons, h a (by simp), flatMap_congr' f g l (fun b hb => h b (by simp [hb]))]

/-- … where "key is equal" means: equal values of the same type (for data values). -/
theorem join_pairs_equal_values (kl kr : Row → PValue) (merge : Row → Row → Row) (keep : Bool) (leftData rightData : Table)
    (hl : ∀ l ∈ leftData, IsData.noOpaque (kl l) = true) (hr : ∀ r ∈ rightData, IsData.noOpaque (kr r) = true) :
    joinSpec kl kr merge keep leftData rightData =
      leftData.flatMap (fun l =>
        let partners := rightData.filter (fun r => valueCompare (kr r) (kl l) = 0)
        if partners.isEmpty then (if keep then [l] else []) else partners.map (merge l)) := by
  unfold joinSpec
  refine flatMap_congr' _ _ _ (fun l hl' => ?_)
  have : rightData.filter (fun r => decide (bucketKey (kr r) = bucketKey (kl l))) = rightData.filter (fun r => decide (valueCompare (kr r) (kl l) = 0)) := by
    refine List.filter_congr (fun r hr' => ?_)
    have := faithful (kr r) (hr r hr') (kl l) (hl l hl')
    simp [this]
  simp only [this]

/-- **dataJoin never overwrites a left field**: the joined row *extends* the left row — every left field keeps its position
and value — and no joined name of a right field is a left field name of any row. -/
theorem join_never_overwrites_left (leftData rightData : Table) (names : List (String × String))
    (hn : rightNames leftData rightData = some names) (l r : Row) (hl : l ∈ leftData) (hr : r ∈ rightData) :
    (∃ ext, mergeRow (renameOf names) l r = l ++ ext) ∧
    (∀ k ∈ l.map (·.1), rowGet k (mergeRow (renameOf names) l r) = rowGet k l) ∧
    (∀ p ∈ names, p.2 ∉ fieldNames leftData) ∧ joinRow names l r = some (mergeRow (renameOf names) l r) := by
  obtain ⟨names', hn', hk, hj⟩ := right_names_spec leftData rightData
  rw [hn] at hn'; cases hn'
  have hnot : ∀ p ∈ names, p.2 ∉ fieldNames leftData := fun p hp => IsJoinedName.not_left (hj p hp)
  have hfield : ∀ p ∈ r, p.1 ∈ names.map (·.1) := fun p hp => hk ▸ (mem_fieldNames p.1 rightData).mpr ⟨r, hr, List.mem_map_of_mem hp⟩
  have hren : ∀ p ∈ r, renameOf names p.1 ∉ l.map (·.1) := by
    intro p hp hin
    obtain ⟨u, hu⟩ := bucketLookup_some_of_mem p.1 names (hfield p hp)
    have hmem := bucketLookup_mem p.1 u names hu
    have : renameOf names p.1 = u := by simp [renameOf, hu]
    rw [this] at hin
    exact hnot (p.1, u) hmem ((mem_fieldNames u leftData).mpr ⟨l, hl, hin⟩)
  obtain ⟨ext, hext⟩ := mergeRow_prefix (renameOf names) l r [] hren
  have hext' : mergeRow (renameOf names) l r = l ++ ext := by simpa [mergeRow] using hext
  exact ⟨⟨ext, hext'⟩, fun k hk' => by rw [hext', rowGet_append_left k l ext hk'], hnot, joinRow_eq names r l hfield⟩

/-- an evaluation that raises on some right or left row makes the whole call raise. -/
theorem join_raises (evalL evalR : Row → Option PValue) (leftData rightData : Table) (isLeftJoin : Bool)
    (h : (∃ r ∈ rightData, evalR r = none) ∨ (∃ l ∈ leftData, evalL l = none)) :
    joinData evalL evalR leftData rightData isLeftJoin = none := by
  obtain ⟨names, hn, _⟩ := right_names_spec leftData rightData
  simp only [joinData, hn]
  rcases h with h | h
  · rw [bucketRowsM_none evalR rightData [] h]
  · cases bucketRowsM evalR rightData [] with
    | none => rfl
    | some bs => exact joinLoop_none evalL names bs isLeftJoin leftData [] h

/-- non-vacuity: colliding names on both sides (`a`, `a2`, `a3`), duplicate keys, null keys, `1` vs `'1'`, both flag values -/
example :
    rightNames [[("a", .num 1), ("a2", .str "x")], [("a", .null), ("b", .num 0)]] [[("a", .num 1), ("a2", .num 5), ("a3", .bool true)], [("b", .null)]] =
      some [("a", "a4"), ("a2", "a22"), ("a3", "a3"), ("b", "b2")] ∧
    joinData (fun r => some (rowGet "a" r)) (fun r => some (rowGet "a" r))
      [[("a", .num 1), ("a2", .str "x")], [("a", .null), ("b", .num 0)], [("a", .str "1")], [("a", .num 1)]]
      [[("a", .num 1), ("a2", .num 5), ("a3", .bool true)], [("a", .num 1), ("b", .null)], [("a", .num 2)]] false =
      some [[("a", .num 1), ("a2", .str "x"), ("a4", .num 1), ("a22", .num 5), ("a3", .bool true)],
            [("a", .num 1), ("a2", .str "x"), ("a4", .num 1), ("b2", .null)],
            [("a", .null), ("b", .num 0)], [("a", .str "1")],
            [("a", .num 1), ("a4", .num 1), ("a22", .num 5), ("a3", .bool true)], [("a", .num 1), ("a4", .num 1), ("b2", .null)]] ∧
    joinData (fun r => some (rowGet "a" r)) (fun r => some (rowGet "a" r))
      [[("a", .num 1)], [("a", .null)]] [[("a", .num 1), ("c", .num 9)]] true = some [[("a", .num 1), ("a2", .num 1), ("c", .num 9)]] := by
  decide +kernel

/-- observation (not part of the property): the renaming need not be injective — with enough left fields two right fields
can be sent to the same joined name (`a` → `a12` because `a2 … a11` are taken, `a1` → `a12`); the later one then overwrites
the earlier *right* field.  Left fields are never affected. -/
example : rightNames [[("a", .null), ("a1", .null), ("a2", .null), ("a3", .null), ("a4", .null), ("a5", .null), ("a6", .null), ("a7", .null),
      ("a8", .null), ("a9", .null), ("a10", .null), ("a11", .null)]] [[("a", .num 1), ("a1", .num 2)]] = some [("a", "a12"), ("a1", "a12")] := by
  decide +kernel

/-! ## CSV typing -/

/-- **One CSV column**: the column gets the type of its first cell that is neither empty nor `null` (string if there is
none), and if every cell converts under that type the parse returns the converted cells (if one does not, the parse raises a
field error naming it: `convertCell`). -/
theorem validate_column (offU : Int → Int) (f : String) (cells : List String) (v : String → PValue)
    (hconv : ∀ c ∈ cells, convertCell true offU f (colType offU cells) (.str c) = .ok (v c)) :
    validateData true offU (cells.map (fun c => [(f, PValue.str c)])) = .ok (cells.map (fun c => [(f, v c)])) :=
  validate_column_eq offU f cells v hconv

/-- the type of a column all of whose determinable cells have type `t` -/
theorem colType_of_all (offU : Int → Int) (t : FieldType) : ∀ cells : List String,
    (∀ c ∈ cells, detectType true offU (.str c) = some none ∨ detectType true offU (.str c) = some (some t)) →
    ((∃ c ∈ cells, detectType true offU (.str c) = some (some t)) ∨ t = .string) → colType offU cells = t
  | [], _, h => by
    rcases h with ⟨c, hc, _⟩ | h
    · simp at hc
    · simp [colType, firstType, h]
  | c :: cells, hall, h => by
    rcases hall c (by simp) with hc | hc
    · have ih := colType_of_all offU t cells (fun c' hc' => hall c' (by simp [hc'])) (by
        rcases h with ⟨c', hc', hd⟩ | h
        · rcases List.mem_cons.mp hc' with e | e
          · subst e; rw [hc] at hd; cases hd
          · exact .inl ⟨c', e, hd⟩
        · exact .inr h)
      simpa [colType, firstType, hc] using ih
    · simp [colType, firstType, hc]

/-- the kind of a typed column -/
inductive ColKind where
  | number | boolean | datetime | string

def ColKind.fieldType : ColKind → FieldType
  | .number => .number | .boolean => .boolean | .datetime => .datetime | .string => .string

/-- the side conditions of the round trip, per column kind; `pv` is the value the cell must parse to -/
def CellOK (kind : ColKind) (offL offU : Int → Int) (nullText : String) (x : CsvVal) (pv : PValue) : Prop :=
  match x with
  | .null => pv = .null
  | .bool b => kind = .boolean ∧ pv = .bool b
  | .num (.int z) => kind = .number ∧ pv = .num z ∧ -NumText.overflowBound < (z : Rat) ∧ (z : Rat) < NumText.overflowBound ∧
      parseDatetime offU (csvText nullText offL x) = none
  | .num (.float r) => kind = .number ∧ ∃ q, pv = .num q ∧ NumText.IsRepr r ∧ NumText.decVal r = some q ∧
      -NumText.overflowBound < q ∧ q < NumText.overflowBound ∧ parseDatetime offU (csvText nullText offL x) = none
  | .dt t => kind = .datetime ∧ pv = .dt (Datetime.toLocalMs t * 1000) ∧ t.Valid ∧
      offL (Datetime.toLocalMs t) % 60 = 0 ∧ -86400 < offL (Datetime.toLocalMs t) ∧ offL (Datetime.toLocalMs t) < 86400 ∧
      offU (Datetime.toLocalMs t - offL (Datetime.toLocalMs t) * 1000) = offL (Datetime.toLocalMs t) ∧
      (Datetime.ofLocalMs (Datetime.toLocalMs t - offL (Datetime.toLocalMs t) * 1000)).isSome = true
  | .str s => kind = .string ∧ pv = .str s ∧ s ≠ "null"

theorem parseNumber_facts : parseNumber "" = none ∧ parseNumber "null" = none ∧ parseNumber "true" = none ∧ parseNumber "false" = none := by
  decide +kernel

/-- type detection and conversion of one canonical cell text -/
theorem cell_roundtrip (kind : ColKind) (offL offU : Int → Int) (nullText : String) (hnull : nullText = "" ∨ nullText = "null")
    (f : String) (x : CsvVal) (pv : PValue) (h : CellOK kind offL offU nullText x pv) :
    let c := csvText nullText offL x
    let t : FieldType := kind.fieldType
    (x = .null → detectType true offU (.str c) = some none) ∧
    (x ≠ .null → kind ≠ .string → detectType true offU (.str c) = some (some t)) ∧
    ((kind = .string → nullText = "null") → convertCell true offU f t (.str c) = .ok pv) := by
  intro c t
  obtain ⟨p1, p2, p3, p4⟩ := parseNumber_facts
  cases x with
  | null =>
    simp only [CellOK] at h
    subst h
    refine ⟨fun _ => ?_, fun hx => absurd rfl hx, fun hs => ?_⟩
    · rcases hnull with e | e <;> simp [c, csvText, e, detectType]
    · cases kind
      · rcases hnull with e | e <;> simp [c, t, ColKind.fieldType, csvText, e, convertCell]
      · rcases hnull with e | e <;> simp [c, t, ColKind.fieldType, csvText, e, convertCell]
      · rcases hnull with e | e <;> simp [c, t, ColKind.fieldType, csvText, e, convertCell]
      · simp [c, t, csvText, hs rfl, convertCell]
  | bool b =>
    simp only [CellOK] at h
    obtain ⟨hk, hp⟩ := h
    subst hk; subst hp
    refine ⟨fun hx => (by cases hx), fun _ _ => ?_, fun _ => ?_⟩
    · cases b <;> simp [c, t, ColKind.fieldType, csvText, detectType, parseDatetime_true, parseDatetime_false]
    · cases b <;> simp [c, t, ColKind.fieldType, csvText, convertCell]
  | num n =>
    have key : ∀ q, kind = .number → pv = .num q → parseNumber c = some (.num q) → parseDatetime offU c = none →
        (detectType true offU (.str c) = some (some .number)) ∧ convertCell true offU f .number (.str c) = .ok pv := by
      intro q _ hp hn hd
      have h1 : c ≠ "" := fun e => by rw [e, p1] at hn; cases hn
      have h2 : c ≠ "null" := fun e => by rw [e, p2] at hn; cases hn
      have h3 : c ≠ "true" := fun e => by rw [e, p3] at hn; cases hn
      have h4 : c ≠ "false" := fun e => by rw [e, p4] at hn; cases hn
      subst hp
      constructor
      · simp [detectType, h1, h2, h3, h4, hd, hn]
      · simp [convertCell, h1, h2, hn]
    cases n with
    | int z =>
      simp only [CellOK] at h
      obtain ⟨hk, hp, hlo, hhi, hd⟩ := h
      have := key z hk hp (by simpa [c, csvText] using parseNumber_int z hlo hhi) hd
      subst hk
      exact ⟨fun hx => (by cases hx), fun _ _ => this.1, fun _ => this.2⟩
    | float r =>
      simp only [CellOK] at h
      obtain ⟨hk, q, hp, hr, hq, hlo, hhi, hd⟩ := h
      have := key q hk hp (by simpa [c, csvText] using parseNumber_float r q hr hq hlo hhi) hd
      subst hk
      exact ⟨fun hx => (by cases hx), fun _ _ => this.1, fun _ => this.2⟩
  | dt d =>
    simp only [CellOK] at h
    obtain ⟨hk, hp, hv, hmin, hlo, hhi, hex, hutc⟩ := h
    subst hk; subst hp
    have hparse : parseDatetime offU c = some (.dt (Datetime.toLocalMs d * 1000)) := by
      simp [c, csvText, parseDatetime, String.toList_ofList, iso_roundtrip offL offU d hv hmin hlo hhi hex hutc]
    have h1 : c ≠ "" := fun e => by rw [e, parseDatetime_empty] at hparse; cases hparse
    have h2 : c ≠ "null" := fun e => by rw [e, parseDatetime_null] at hparse; cases hparse
    refine ⟨fun hx => (by cases hx), fun _ _ => ?_, fun _ => ?_⟩
    · simp [t, ColKind.fieldType, detectType, h1, h2, hparse]
    · simp [t, ColKind.fieldType, convertCell, h1, h2, hparse]
  | str s =>
    simp only [CellOK] at h
    obtain ⟨hk, hp, hs⟩ := h
    subst hk; subst hp
    refine ⟨fun hx => (by cases hx), fun _ hne => absurd rfl hne, fun _ => ?_⟩
    simp [c, t, ColKind.fieldType, csvText, convertCell, hs]

/-- **CSV typing round trip (`_partial`)**: a column holding the canonical texts of values of ONE type — numbers
(`value_string`: `str(int)`, or `repr(float)` without a trailing `.0`), booleans (`true`/`false`), datetimes (the ISO text
`datetimeISOFormat` produces) or strings — with nulls written as `nullText` (`""` or `"null"`), parses back to exactly those
values.  Side conditions (all needed; the correspondence exhibits each failure when dropped):
* per cell `CellOK`: an `int` lies inside the double range; a `float` is given by its `repr` text under C13's assumptions
  A1/A2 (`IsRepr`, the text denotes `q`, no overflow); a number text is not an ISO datetime (always true of `value_string`
  output — stated as a hypothesis, not proved here); a datetime satisfies the hypotheses of C16 `iso_roundtrip_partial` (valid
  fields, whole-minute offset, existing local time, UTC instant in range); a string value is not `"null"`;
* a typed (non-string) column written with `nullText = ""` contains at least one non-null value (a column of empty cells
  only is a column of empty strings);
* a string column writes nulls as `"null"`, and its first cell that is neither empty nor `"null"` is not parseable as a
  datetime, boolean or number (`hstr`: the column's detected type is string).
What is missing for the unqualified statement: `csv.DictReader` splitting/quoting is trusted base (the theorem starts from
the cells), several columns are typed independently (correspondence only), `repr`/`float()`/`astimezone()` are assumptions. -/
theorem csv_typing_roundtrip_partial (kind : ColKind) (offL offU : Int → Int) (nullText : String) (hnull : nullText = "" ∨ nullText = "null")
    (f : String) (xs : List CsvVal) (pv : CsvVal → PValue)
    (hcells : ∀ x ∈ xs, CellOK kind offL offU nullText x (pv x))
    (hsome : kind = .string ∨ nullText = "null" ∨ ∃ x ∈ xs, x ≠ .null)
    (hstr : kind = .string → nullText = "null" ∧ colType offU (xs.map (csvText nullText offL)) = .string) :
    validateData true offU (xs.map (fun x => [(f, PValue.str (csvText nullText offL x))])) = .ok (xs.map (fun x => [(f, pv x)])) := by
  let t : FieldType := kind.fieldType
  let cells := xs.map (csvText nullText offL)
  let v : String → PValue := fun c => match convertCell true offU f (colType offU cells) (.str c) with | .ok w => w | .error _ => .null
  -- the column type
  have hall : ∀ x ∈ xs, x ≠ .null ∨ nullText = "null" ∨ kind = .string → True := fun _ _ _ => trivial
  have hconvT : ∀ x ∈ xs, (kind = .string → nullText = "null") → convertCell true offU f t (.str (csvText nullText offL x)) = .ok (pv x) :=
    fun x hx => (cell_roundtrip kind offL offU nullText hnull f x (pv x) (hcells x hx)).2.2
  have hct : (∀ x ∈ xs, convertCell true offU f (colType offU cells) (.str (csvText nullText offL x)) = .ok (pv x)) := by
    by_cases hk : kind = .string
    · have ⟨hn, hc⟩ := hstr hk
      intro x hx
      have := hconvT x hx (fun _ => hn)
      rw [show colType offU cells = .string from hc]
      simpa [t, hk, ColKind.fieldType] using this
    · -- typed column: all determinable cells have type t
      have hdet : ∀ c ∈ cells, detectType true offU (.str c) = some none ∨ detectType true offU (.str c) = some (some t) := by
        intro c hc
        obtain ⟨x, hx, rfl⟩ := List.mem_map.mp hc
        have := cell_roundtrip kind offL offU nullText hnull f x (pv x) (hcells x hx)
        by_cases hxn : x = .null
        · exact .inl (this.1 hxn)
        · exact .inr (this.2.1 hxn hk)
      by_cases hex : ∃ x ∈ xs, x ≠ CsvVal.null
      · obtain ⟨x0, hx0, hne⟩ := hex
        have h0 := (cell_roundtrip kind offL offU nullText hnull f x0 (pv x0) (hcells x0 hx0)).2.1 hne hk
        have hc : colType offU cells = t := colType_of_all offU t cells hdet (.inl ⟨_, List.mem_map_of_mem hx0, h0⟩)
        intro x hx
        rw [hc]; exact hconvT x hx (fun e => absurd e hk)
      · -- every value is null: the texts are all `nullText`, which must be "null"
        have hnt : nullText = "null" := by
          rcases hsome with h | h | h
          · exact absurd h hk
          · exact h
          · exact absurd h hex
        have hallnull : ∀ x ∈ xs, x = CsvVal.null := fun x hx => Classical.byContradiction (fun hne => hex ⟨x, hx, hne⟩)
        have hc : colType offU cells = .string := by
          refine colType_of_all offU .string cells (fun c hc => ?_) (.inr rfl)
          obtain ⟨x, hx, rfl⟩ := List.mem_map.mp hc
          exact .inl ((cell_roundtrip kind offL offU nullText hnull f x (pv x) (hcells x hx)).1 (hallnull x hx))
        intro x hx
        have hxn := hallnull x hx
        have hp : pv x = .null := by
          have h1 := hcells x hx
          generalize pv x = w at h1 ⊢
          subst hxn
          simpa [CellOK] using h1
        rw [hc, hp, hxn]
        simp [csvText, hnt, convertCell]
  have hmain := validate_column_eq offU f cells v (fun c hc => by
    obtain ⟨x, hx, rfl⟩ := List.mem_map.mp hc
    simp only [v, hct x hx])
  have e1 : cells.map (fun c => [(f, PValue.str c)]) = xs.map (fun x => [(f, PValue.str (csvText nullText offL x))]) := by
    simp [cells, Function.comp_def]
  have e2 : cells.map (fun c => [(f, v c)]) = xs.map (fun x => [(f, pv x)]) := by
    simp only [cells, List.map_map, Function.comp_def]
    refine List.map_congr_left (fun x hx => ?_)
    simp only [v, hct x hx]
  rw [e1, e2] at hmain
  exact hmain

/-- the values the example columns must parse to -/
def exampleValue : CsvVal → PValue
  | .null => .null
  | .bool b => .bool b
  | .num (.int z) => .num z
  | .num (.float _) => .num (3 / 20000000)
  | .dt t => .dt (Datetime.toLocalMs t * 1000)
  | .str s => .str s

/-- non-vacuity of the round trip (the hypotheses are inhabited): a number column of ints and a float `repr` with nulls written
as empty cells, a datetime column in a UTC+05:45 zone with nulls written as `null`, a string column with a comma, a quote, an
empty string and date-like text -/
example :
    validateData true (fun _ => 0)
      ([CsvVal.num (.int 17), .null, .num (.float "1.5e-07"), .num (.int (-2))].map (fun x => [("n", PValue.str (csvText "" (fun _ => 0) x))])) =
      .ok [[("n", .num 17)], [("n", .null)], [("n", .num (3 / 20000000))], [("n", .num (-2))]] ∧
    validateData true (fun _ => 20700)
      ([CsvVal.dt ⟨2024, 2, 29, 1, 2, 3, 45⟩, .null].map (fun x => [("d", PValue.str (csvText "null" (fun _ => 20700) x))])) =
      .ok [[("d", .dt (Datetime.toLocalMs ⟨2024, 2, 29, 1, 2, 3, 45⟩ * 1000))], [("d", .null)]] ∧
    validateData true (fun _ => 0)
      ([CsvVal.str "2024-02-30", .str "a,b", .null, .str "", .str "say \"hi\"", .str "1"].map (fun x => [("s", PValue.str (csvText "null" (fun _ => 0) x))])) =
      .ok [[("s", .str "2024-02-30")], [("s", .str "a,b")], [("s", .null)], [("s", .str "")], [("s", .str "say \"hi\"")], [("s", .str "1")]] ∧
    csvText "" (fun _ => 20700) (.dt ⟨2024, 2, 29, 1, 2, 3, 45⟩) = "2024-02-29T01:02:03.045+05:45" := by
  refine ⟨?_, ?_, ?_, by decide +kernel⟩
  · refine csv_typing_roundtrip_partial .number (fun _ => 0) (fun _ => 0) "" (.inl rfl) "n" _ exampleValue ?_ (.inr (.inr ⟨.num (.int 17), by simp, by simp⟩))
      (fun h => by cases h)
    intro x hx
    simp only [List.mem_cons, List.not_mem_nil, or_false] at hx
    rcases hx with rfl | rfl | rfl | rfl
    · exact ⟨rfl, rfl, by decide +kernel, by decide +kernel, by decide +kernel⟩
    · rfl
    · exact ⟨rfl, 3 / 20000000, rfl, by decide +kernel, by decide +kernel, by decide +kernel, by decide +kernel, by decide +kernel⟩
    · exact ⟨rfl, rfl, by decide +kernel, by decide +kernel, by decide +kernel⟩
  · refine csv_typing_roundtrip_partial .datetime (fun _ => 20700) (fun _ => 20700) "null" (.inr rfl) "d" _ exampleValue ?_ (.inr (.inl rfl))
      (fun h => by cases h)
    intro x hx
    simp only [List.mem_cons, List.not_mem_nil, or_false] at hx
    rcases hx with rfl | rfl
    · exact ⟨rfl, rfl, by decide +kernel, by decide +kernel, by decide +kernel, by decide +kernel, rfl, by decide +kernel⟩
    · rfl
  · refine csv_typing_roundtrip_partial .string (fun _ => 0) (fun _ => 0) "null" (.inr rfl) "s" _ exampleValue ?_ (.inl rfl)
      (fun _ => ⟨rfl, ?_⟩)
    · intro x hx
      simp only [List.mem_cons, List.not_mem_nil, or_false] at hx
      rcases hx with rfl | rfl | rfl | rfl | rfl | rfl
      · exact ⟨rfl, rfl, by decide⟩
      · exact ⟨rfl, rfl, by decide⟩
      · rfl
      · exact ⟨rfl, rfl, by decide⟩
      · exact ⟨rfl, rfl, by decide⟩
      · exact ⟨rfl, rfl, by decide⟩
    · have h1 : parseDatetime (fun _ => 0) "2024-02-30" = none := rfl
      have h2 : parseNumber "2024-02-30" = none := by decide +kernel
      simp [colType, firstType, detectType, csvText, h1, h2]

/-- **Date-like text is kept as a string**: `2024-02-30`, `2024-13-01` and `2024-01-01T25:00:00Z` are not datetimes in any
zone (invalid calendar values parse to null, they do not raise), so a cell holding one is typed string and the parse goes
on: `dataParseCSV('a,b', '2024-02-30,1')` is `[{a: '2024-02-30', b: 1}]` (finding F10: it used to abort). -/
theorem datelike_kept_string (offU : Int → Int) :
    parseDatetime offU "2024-02-30" = none ∧ parseDatetime offU "2024-13-01" = none ∧ parseDatetime offU "2024-01-01T25:00:00Z" = none ∧
    detectType true offU (.str "2024-02-30") = some (some .string) ∧
    validateData true offU [[("a", .str "2024-02-30"), ("b", .str "1")]] = .ok [[("a", .str "2024-02-30"), ("b", .num 1)]] ∧
    validateData true offU [[("a", .str "2024-02-29")], [("a", .str "2024-02-30")]] matches .error ⟨"a", .datetime, .str "2024-02-30"⟩ := by
  have h1 : parseDatetime offU "2024-02-30" = none := rfl
  have h1' : parseDatetime offU "2024-13-01" = none := rfl
  have h1'' : parseDatetime offU "2024-01-01T25:00:00Z" = none := rfl
  have h2 : parseNumber "2024-02-30" = none := by decide +kernel
  have h3 : parseDatetime offU "1" = none := rfl
  have h4 : parseNumber "1" = some (.num 1) := by decide +kernel
  have h5 : (parseDatetime offU "2024-02-29").isSome = true := rfl
  refine ⟨h1, h1', h1'', ?_, ?_, ?_⟩
  · simp [detectType, h1, h2]
  · simp [validateData, detectTypes, detectCell, detectType, typesGet, typesSet, bucketLookup, convertRows, convertRow, convertCell,
      h1, h2, h3, h4, Except.map]
  · cases h6 : parseDatetime offU "2024-02-29" with
    | none => rw [h6] at h5; cases h5
    | some d =>
      simp [validateData, detectTypes, detectCell, detectType, typesGet, typesSet, bucketLookup, convertRows, convertRow, convertCell,
        h1, h6, Except.map]

end C19
