import BareProofs.C13BridgeLemmas
import BareProofs.C01Source
import BareProofs.C14Bridge
import BareModel.HostImpl

/-!
# C13Bridge — ONE number text: the literal scanner of the expression parser IS the C13 literal model

C13 (`BareProofs/C13.lean`) proves that the text produced for a finite number is, for `x ≥ 0`, a numeric literal of the source
grammar — about `NumText.literal`, C13's own model of `_R_EXPR_NUMBER.match` + `float(group 1)`.  The expression parser
model of C01/C02/C06/C10 (`ExprParse.parseExpr`) scans numbers with a different hand-written function,
`ExprScan.scanNumber`.  This module connects them, up to the script level:

1. **one scanner** — `scanNumber_eq_literal`: on EVERY string the two agree: both fail, or same value and same consumed
   length.  The white-space classes are the same set (`isPySpace_eq`), the digit classes are the same set with the same
   digit values (`isDigit_eq_isDig`, `digitVal_eq_digVal`: CPython's `\d` and `float()` accept every Unicode decimal digit —
   the real `parse_expression('\u0663')` is `{'number': 3.0}` — and both models have it, from two independently frozen
   tables), the values are the same rational (`val_bridge`); `float()` never raises on what the pattern matched
   (`literal_never_floatRaises`, no ASCII hypothesis; `scanners_agree_on_unicode_digit` are the former counterexamples).
2. **the parser** — `parseExpr_valueString`: the text of every number whose text does not start with `-` parses, as a WHOLE
   expression, to the number leaf with the denoted rational; `parseExpr_valueString_neg`: a text starting with `-` parses
   to the unary-minus NODE over the leaf of the absolute text (`_R_EXPR_UNARY_OP` is tried before `_R_EXPR_NUMBER`; the
   `[+-]?` of the number pattern never sees a `-` in operand position) — which is why C13's source-literal clause is about
   `x ≥ 0`; under C13's assumptions A1/A2 (`C13.PyFloat`): `literal_parse_roundtrip(_neg)`.
3. **the script** — `assign_literal_roundtrip`: `n = <text>` through `Parser.parseScript` and `Machine.execute` (any host,
   `HostImpl` included) leaves global `n` = the number; `assign_text_roundtrip` (negative texts too, given the host's unary
   minus), `assign_float_roundtrip` (A1/A2); the reverse direction through the machine's own stringification:
   `concat_integral_roundtrip` (`'' + <integral literal>` evaluates to the digits, no fraction).

`HostImpl` has no `numberParseFloat` / `numberParseInt` (item 4 of the task does not apply to it).
-/

set_option linter.unusedSimpArgs false
set_option linter.unusedVariables false

namespace C13Bridge
open NumText C13

/-! ## 1. one scanner -/

/-- the answer of the parser model's scanner `ExprScan.scanNumber` in the vocabulary of `NumText.LitRes` -/
def scanRes (s : String) : LitRes :=
  match ExprScan.scanNumber s.toList with
  | none => .noMatch
  | some (q, rest) => .number (s.length - rest.length) q

theorem literal_of_scanTok {s : String} {t : Tok} {rest : List Char}
    (hsc : scanTok true (s.toList.dropWhile isReSpace) = some (t, rest)) : literal s = .number (s.length - rest.length) t.val := by
  obtain ⟨hl, hw⟩ := scanTok_sound hsc
  unfold literal
  simp only [hsc, floatText_text_uni hw (tokWF_weaken hw)]

/-- **`scanNumber_eq_literal`** — for EVERY string, C13's literal model (`_R_EXPR_NUMBER.match` + `float(group 1)` +
`len(group 0)`) and the number scanner of the expression parser model agree: both fail, or equal value and equal consumed
length.  (In particular `float()` never raises.)  No hypothesis: Unicode decimal digits included. -/
theorem scanNumber_eq_literal (s : String) : literal s = scanRes s := by
  unfold scanRes
  rw [scanNumber_eq_numCore, numCore_eq_scanTok]
  cases hsc : scanTok true (s.toList.dropWhile isReSpace) with
  | none => simp [literal, hsc]
  | some p =>
    obtain ⟨t, rest⟩ := p
    simp [literal_of_scanTok hsc]

example : literal "  12.5e+3 rest" = .number 9 12500 ∧ scanRes "  12.5e+3 rest" = .number 9 12500 := by decide +kernel
example : literal "1e5" = scanRes "1e5" := scanNumber_eq_literal "1e5"

/-- the former counterexamples (the ASCII-only `ExprScan` stopped at a non-ASCII decimal digit): the real `re`/`float` give
`parse_expression('٣') == {'number': 3.0}`, `parse_expression('1٣') == {'number': 13.0}`,
`parse_expression('١٢.٥e+٣') == {'number': 12500.0}`, and so do both models -/
theorem scanners_agree_on_unicode_digit :
    ExprScan.scanNumber "٣".toList = some (3, []) ∧ literal "٣" = .number 1 3 ∧
    scanRes "1٣" = .number 2 13 ∧ literal "1٣" = .number 2 13 ∧
    scanRes "١٢.٥e+٣" = .number 7 12500 ∧ literal "١٢.٥e+٣" = .number 7 12500 := by decide +kernel

/-- `NumText.literal` never answers `.floatRaises`: CPython's `float()` accepts whatever `_R_EXPR_NUMBER` matched, Unicode
decimal digits included (`float('1٣') == 13.0`).  Strengthens `C13.literal_never_raises` (which assumes an ASCII text). -/
theorem literal_never_floatRaises (s : String) : literal s ≠ .floatRaises := by
  intro h
  rw [scanNumber_eq_literal s] at h
  unfold scanRes at h
  split at h <;> cases h

/-! ## 2. the parser -/

open ExprParse ExprScan

theorem scanNumber_head {cs rest : List Char} {q : Rat} (h : scanNumber cs = some (q, rest)) :
    ∃ c r, skipWs cs = c :: r ∧ (c = '+' ∨ c = '-' ∨ isDigit c = true) := by
  unfold scanNumber at h
  cases hs : skipWs cs with
  | nil => simp [hs, ExprScan.scanSign] at h
  | cons c r =>
    refine ⟨c, r, rfl, ?_⟩
    by_cases h1 : c = '+'
    · exact Or.inl h1
    · by_cases h2 : c = '-'
      · exact Or.inr (Or.inl h2)
      · right; right
        cases hd : isDigit c with
        | true => rfl
        | false => simp [hs, ExprScan.scanSign, h1, h2, hd] at h

theorem head_facts {c : Char} (h : c = '+' ∨ c = '-' ∨ isDigit c = true) : c ≠ '(' ∧ isIdStart c = false := by
  rcases h with h | h | h
  · subst h; decide
  · subst h; decide
  · constructor
    · intro e; subst e; revert h; decide
    · exact C02.digit_not_idStart h

theorem parseUnary_number {cs rest : List Char} {q : Rat} (h : scanNumber cs = some (q, rest)) (hu : scanUnaryOp cs = none)
    (fuel : Nat) : parseUnary fuel cs = .ok (.number q, rest) := by
  obtain ⟨c, r, hs, hc⟩ := scanNumber_head h
  obtain ⟨h1, h2⟩ := head_facts hc
  have hg : scanGroupOpen cs = none := by simp [scanGroupOpen, scanChar, hs, h1]
  have hf : scanFuncOpen cs = none := by simp [scanFuncOpen, hs, h2]
  cases fuel with
  | zero => simp [parseUnary, hg, hu, hf, parseAtom, h]
  | succ n => simp [parseUnary, hg, hu, hf, parseAtom, h]

theorem scanBinOp_blank {rest : List Char} (h : skipWs rest = []) : scanBinOp rest = none := by
  simp [scanBinOp, h, firstAlt, binOpAlts, stripPrefix?]

theorem chainLoop_blank (pu : List Char → Res (Expr × List Char)) (n : Nat) (l : Expr) {rest : List Char}
    (h : skipWs rest = []) : chainLoop pu n l rest = .ok (l, rest) := by
  cases n <;> simp [chainLoop, scanBinOp_blank h]

/-- a text that is one number literal (optionally behind white space and followed by white space) parses to the number leaf -/
theorem parseExprL_number {cs rest : List Char} {q : Rat} (h : scanNumber cs = some (q, rest)) (hu : scanUnaryOp cs = none)
    (hr : skipWs rest = []) : parseExprL cs = .ok (.number q) := by
  simp [parseExprL, parseBinary, binaryWith, parseUnary_number h hu, chainLoop_blank _ _ _ hr, hr]

/-- `-` in operand position is always the unary operator: `-<literal>` is the negation NODE over the literal's leaf -/
theorem parseExprL_neg_number {u rest : List Char} {q : Rat} (h : scanNumber u = some (q, rest)) (hu : scanUnaryOp u = none)
    (hr : skipWs rest = []) : parseExprL ('-' :: u) = .ok (.unary .neg (.number q)) := by
  have hsk : skipWs ('-' :: u) = '-' :: u := by
    have : ExprScan.isPySpace '-' = false := by decide
    simp [skipWs, List.dropWhile_cons, this]
  have hg : scanGroupOpen ('-' :: u) = none := by simp [scanGroupOpen, scanChar, hsk]
  have hun : scanUnaryOp ('-' :: u) = some (.neg, u) := by
    simp [scanUnaryOp, hsk, firstAlt, unOpAlts, stripPrefix?]
  simp [parseExprL, parseBinary, binaryWith, parseUnary, hg, hun, parseUnary_number h hu, chainLoop_blank _ _ _ hr, hr]


theorem numChar_not_reSpace {c : Char} (h : numChar c = true) : isReSpace c = false := by
  simp only [numChar, Bool.or_eq_true, beq_iff_eq] at h
  rcases h with ((((h | h) | h) | h) | h) | h
  · exact reSpace_ascii h
  all_goals (subst h; decide)

/-- the literal scanner of the parser model on the text of a literal of the source grammar with ASCII digits -/
theorem scanNumber_text {t : Tok} (hw : TokWF true t) (ha : TokAscii t) (rest : List Char) :
    scanNumber t.text = some (t.val, []) := by
  have hn := numChars_text ha
  rw [scanNumber_eq_numCore, dropWhile_none (fun c hc => numChar_not_reSpace (hn c hc)),
    numCore_eq_scanTok, scanTok_text hw]
  rfl

/-- the positive twin of a literal -/
def unsignedTok (t : Tok) : Tok := { t with sign := .none }

theorem head_of_unsigned {t : Tok} (hw : TokWF true t) :
    ∃ c r, (unsignedTok t).text = c :: r ∧ isDig c = true := by
  rcases hw.someDigit with hip | ⟨hh, _⟩
  · cases hi : t.ip with
    | nil => exact absurd hi hip
    | cons c r =>
      refine ⟨c, r ++ (fracText t.frac ++ expText t.exp), by simp [unsignedTok, Tok.text, Sign.text, hi], ?_⟩
      exact hw.ip c (by simp [hi])
  · simp at hh

theorem scanUnaryOp_head {c : Char} {r : List Char} (hs : ExprScan.isPySpace c = false) (h1 : c ≠ '!') (h2 : c ≠ '-') :
    scanUnaryOp (c :: r) = none := by
  simp [scanUnaryOp, skipWs, List.dropWhile_cons, hs, firstAlt, unOpAlts, stripPrefix?, h1.symm, h2.symm]

theorem scanUnaryOp_text {t : Tok} (hw : TokWF true t) (ha : TokAscii t) (hs : t.sign ≠ .minus) : scanUnaryOp t.text = none := by
  have hn := numChars_text ha
  cases hh : t.text with
  | nil => simp [scanUnaryOp, skipWs, firstAlt, unOpAlts, stripPrefix?]
  | cons c r =>
    have hc : numChar c = true := hn c (by simp [hh])
    have hsp : ExprScan.isPySpace c = false := by rw [isPySpace_eq]; exact numChar_not_reSpace hc
    refine scanUnaryOp_head hsp ?_ ?_
    · intro e; subst e; revert hc; decide
    · intro e; subst e
      obtain ⟨d, r', hd, hdig⟩ := head_of_unsigned hw
      cases hsg : t.sign with
      | minus => exact hs hsg
      | plus => simp [Tok.text, hsg, Sign.text] at hh
      | none =>
        have : t.text = (unsignedTok t).text := by simp [unsignedTok, Tok.text, hsg]
        rw [this, hd] at hh
        simp at hh
        rw [hh.1] at hdig; revert hdig; decide

theorem unsigned_wf {t : Tok} (hw : TokWF true t) : TokWF true (unsignedTok t) := ⟨hw.ip, hw.fp, hw.someDigit, hw.exp⟩
theorem unsigned_ascii {t : Tok} (ha : TokAscii t) : TokAscii (unsignedTok t) := ⟨ha.ip, ha.fp, ha.ex⟩

theorem val_unsigned {t : Tok} (hs : t.sign = .minus) : t.val = - (unsignedTok t).val := by
  simp only [Tok.val, unsignedTok, hs, signVal]
  simp
  grind

theorem text_unsigned {t : Tok} (hs : t.sign = .minus) : t.text = '-' :: (unsignedTok t).text := by
  simp [Tok.text, unsignedTok, hs, Sign.text]


/-- a literal without a minus sign, as a whole expression text, is the number leaf -/
theorem parseExprL_tok {t : Tok} (hw : TokWF true t) (ha : TokAscii t) (hs : t.sign ≠ .minus) :
    parseExprL t.text = .ok (.number t.val) :=
  parseExprL_number (scanNumber_text hw ha []) (scanUnaryOp_text hw ha hs) rfl

/-- a literal WITH a minus sign is the negation node over the leaf of its positive twin -/
theorem parseExprL_tok_neg {t : Tok} (hw : TokWF true t) (ha : TokAscii t) (hs : t.sign = .minus) :
    parseExprL t.text = .ok (.unary .neg (.number (unsignedTok t).val)) := by
  rw [text_unsigned hs]
  exact parseExprL_neg_number (scanNumber_text (unsigned_wf hw) (unsigned_ascii ha) [])
    (scanUnaryOp_text (unsigned_wf hw) (unsigned_ascii ha) (by simp [unsignedTok])) rfl

/-! ### the number-text model of C13 -/

/-- the rational a host number denotes (a float carrier is given by its `repr` text, A1) -/
def numDenote : PyNum → Option Rat
  | .int n => some (n : Rat)
  | .float r => NumText.decVal r

/-- the text the number-text model is about: any `int`, a float whose `repr` is in the `repr` grammar -/
def NumTextOK : PyNum → Prop
  | .int _ => True
  | .float r => IsRepr r

instance (x : PyNum) : Decidable (NumTextOK x) := by cases x <;> simp only [NumTextOK] <;> infer_instance

/-- anatomy of `value_string` on a number: the text is a literal of the SOURCE grammar with ASCII digits, never signed `+`,
denoting the number -/
theorem valueString_tok (x : PyNum) (hx : NumTextOK x) :
    ∃ t, (valueStringNum x).toList = t.text ∧ TokWF true t ∧ TokAscii t ∧ numDenote x = some t.val ∧ t.sign ≠ .plus := by
  cases x with
  | float r =>
    obtain ⟨t, hl, hw, hr⟩ := repr_tok hx
    obtain ⟨t', hs, hw', ha', hv, hsg, _⟩ := strip_tok hw hr
    refine ⟨t', by simp [valueStringNum, stripDotZeros, String.toList_ofList, hl, hs], hw', ha', ?_, ?_⟩
    · simp [numDenote, NumText.decVal, hl, decValL_text hw, hv]
    · rw [hsg]; exact (reprFacts hr).noPlus
  | int n =>
    have hasc := ascii_natStr n.natAbs
    have hrt := int_text_roundtrip n
    by_cases hn : n < 0
    · have hw : TokWF true ⟨.minus, natStr n.natAbs, none, none⟩ :=
        ⟨digs_of_ascii hasc, by simp, Or.inl (natStr_ne_nil _), by simp⟩
      have htext : (valueStringNum (.int n)).toList = Tok.text ⟨.minus, natStr n.natAbs, none, none⟩ := by
        simp [valueStringNum, intStr, intStrL, hn, String.toList_ofList, Tok.text, Sign.text, fracText, expText]
      refine ⟨_, htext, hw, ⟨hasc, by simp, by simp⟩, ?_, by simp⟩
      simp only [NumText.decVal, htext, decValL_text (tokWF_weaken hw), Option.some.injEq] at hrt
      simp [numDenote, hrt]
    · have hw : TokWF true ⟨.none, natStr n.natAbs, none, none⟩ :=
        ⟨digs_of_ascii hasc, by simp, Or.inl (natStr_ne_nil _), by simp⟩
      have htext : (valueStringNum (.int n)).toList = Tok.text ⟨.none, natStr n.natAbs, none, none⟩ := by
        simp [valueStringNum, intStr, intStrL, hn, String.toList_ofList, Tok.text, Sign.text, fracText, expText]
      refine ⟨_, htext, hw, ⟨hasc, by simp, by simp⟩, ?_, by simp⟩
      simp only [NumText.decVal, htext, decValL_text (tokWF_weaken hw), Option.some.injEq] at hrt
      simp [numDenote, hrt]

theorem head_minus_iff {t : Tok} (hw : TokWF true t) (hp : t.sign ≠ .plus) : t.text.head? = some '-' ↔ t.sign = .minus := by
  constructor
  · intro hh
    cases hsg : t.sign with
    | minus => rfl
    | plus => exact absurd hsg hp
    | none =>
      obtain ⟨d, r', hd, hdig⟩ := head_of_unsigned hw
      have : t.text = (unsignedTok t).text := by simp [unsignedTok, Tok.text, hsg]
      rw [this, hd] at hh
      simp at hh
      rw [hh] at hdig; revert hdig; decide
  · intro hs; simp [text_unsigned hs]


theorem repr_head_minus {r : String} (h : IsRepr r) :
    (stripDotZeros r).toList.head? = some '-' ↔ r.toList.head? = some '-' := by
  obtain ⟨t, hl, hw, hr⟩ := repr_tok h
  obtain ⟨t', hs, hw', ha', hv, hsg, _⟩ := strip_tok hw hr
  have f := reprFacts hr
  have h1 : (stripDotZeros r).toList = t'.text := by simp [stripDotZeros, String.toList_ofList, hl, hs]
  rw [h1, head_minus_iff hw' (by rw [hsg]; exact f.noPlus), hsg, hl]
  constructor
  · intro hm; simp [Tok.text, hm, Sign.text]
  · intro hh
    cases hsg' : t.sign with
    | minus => rfl
    | plus => exact absurd hsg' f.noPlus
    | none =>
      cases hi : t.ip with
      | nil => exact absurd hi f.ipNe
      | cons c rr =>
        have hc := f.ip c (by simp [hi])
        simp [Tok.text, hsg', Sign.text, hi] at hh
        subst hh; revert hc; decide

/-- **`parseExpr_valueString`** — the text `value_string` produces for a number whose text does not start with `-` (every
`int ≥ 0`, every float `≥ +0.0` with its `repr` in the `repr` grammar) is, as a WHOLE expression text for the expression
parser model `ExprParse.parseExpr` (the one C01/C02/C06/C10 are about), the number leaf carrying the denoted rational:
all of the text is consumed, nothing else is in the tree. -/
theorem parseExpr_valueString (x : PyNum) (hx : NumTextOK x) (hpos : (valueStringNum x).toList.head? ≠ some '-') :
    ∃ q, numDenote x = some q ∧ ExprParse.parseExpr (valueStringNum x) = .ok (.number q) := by
  obtain ⟨t, ht, hw, ha, hv, hp⟩ := valueString_tok x hx
  have hs : t.sign ≠ .minus := fun h => hpos (by rw [ht]; exact (head_minus_iff hw hp).mpr h)
  refine ⟨t.val, hv, ?_⟩
  simp only [ExprParse.parseExpr, ht]
  exact parseExprL_tok hw ha hs

/-- … and for a text that starts with `-` (negative numbers, and `-0.0` ↦ `-0`) the tree is the unary-minus NODE over the
number leaf of the absolute text: the parser tries `_R_EXPR_UNARY_OP` before `_R_EXPR_NUMBER`, so the `[+-]?` of the number
pattern never sees a `-` in operand position.  This is why C13 states the source-literal clause for `x ≥ 0` only: the text
of a negative number is not a literal but an operator application (which evaluates to the number, `assign_text_roundtrip`). -/
theorem parseExpr_valueString_neg (x : PyNum) (hx : NumTextOK x) (hneg : (valueStringNum x).toList.head? = some '-') :
    ∃ q, numDenote x = some (-q) ∧ ExprParse.parseExpr (valueStringNum x) = .ok (.unary .neg (.number q)) := by
  obtain ⟨t, ht, hw, ha, hv, hp⟩ := valueString_tok x hx
  have hs : t.sign = .minus := (head_minus_iff hw hp).mp (by rw [← ht]; exact hneg)
  refine ⟨(unsignedTok t).val, by rw [hv, val_unsigned hs], ?_⟩
  simp only [ExprParse.parseExpr, ht]
  exact parseExprL_tok_neg hw ha hs

/-- what a literal / negated-literal tree denotes -/
def litValue : Expr → Option Rat
  | .number q => some q
  | .unary .neg (.number q) => some (-q)
  | _ => none

/-- both cases at once: the number text always parses, to a tree denoting the number -/
theorem parseExpr_valueString_any (x : PyNum) (hx : NumTextOK x) :
    ∃ e q, ExprParse.parseExpr (valueStringNum x) = .ok e ∧ numDenote x = some q ∧ litValue e = some q := by
  by_cases hneg : (valueStringNum x).toList.head? = some '-'
  · obtain ⟨q, h1, h2⟩ := parseExpr_valueString_neg x hx hneg
    exact ⟨_, -q, h2, h1, rfl⟩
  · obtain ⟨q, h1, h2⟩ := parseExpr_valueString x hx hneg
    exact ⟨_, q, h2, h1, rfl⟩

/-- **`literal_parse_roundtrip`** (under A1/A2 of C13, structure `C13.PyFloat`): the stringified non-negative float is, as a
whole expression, the number leaf whose rational `float()` rounds back to `x`. -/
theorem literal_parse_roundtrip {F : Type} (P : PyFloat F) (x : F) (hpos : (P.repr x).toList.head? ≠ some '-') :
    ∃ q, P.ofRat q = x ∧ ExprParse.parseExpr (valueStringF P x) = .ok (.number q) := by
  obtain ⟨q, hq, _, _, hx⟩ := P.float_repr x
  have hpos' : (valueStringNum (.float (P.repr x))).toList.head? ≠ some '-' :=
    fun h => hpos ((repr_head_minus (P.repr_grammar x)).mp h)
  obtain ⟨q', h1, h2⟩ := parseExpr_valueString (.float (P.repr x)) (P.repr_grammar x) hpos'
  have : q' = q := by simp only [numDenote, hq, Option.some.injEq] at h1; exact h1.symm
  subst this
  exact ⟨q', hx, h2⟩

theorem literal_parse_roundtrip_neg {F : Type} (P : PyFloat F) (x : F) (hneg : (P.repr x).toList.head? = some '-') :
    ∃ q, P.ofRat (-q) = x ∧ ExprParse.parseExpr (valueStringF P x) = .ok (.unary .neg (.number q)) := by
  obtain ⟨q, hq, _, _, hx⟩ := P.float_repr x
  have hneg' : (valueStringNum (.float (P.repr x))).toList.head? = some '-' :=
    (repr_head_minus (P.repr_grammar x)).mpr hneg
  obtain ⟨q', h1, h2⟩ := parseExpr_valueString_neg (.float (P.repr x)) (P.repr_grammar x) hneg'
  have : -q' = q := by simp only [numDenote, hq, Option.some.injEq] at h1; exact h1.symm
  subst this
  exact ⟨q', hx, h2⟩

/-! ## 3. script level -/

open Machine in
/-- running the one-statement program `n = <number leaf>`: global `n` holds the number, nothing else changes, one statement
counted — for EVERY host, configuration (any statement limit) and start state. -/
theorem execute_assign_number {W : Type} (cfg : Config W) (fuel : Nat) (n : Name) (q : Rat) (base : Option String)
    (st : State W) :
    execute cfg (fuel + 1) [.expr (some n) (.number q)] base st =
      .done { globals := st.globals.set n (.num q), world := st.world, count := 1 } := by
  unfold execute
  rw [execM.eq_1]
  have hlim : ¬ (cfg.maxStatements > 0 ∧ 1 > cfg.maxStatements) := by omega
  simp [evalExpr, hlim]
  rw [execM.eq_1]
  simp
  omega

open Machine in
theorem execute_assign_neg_number {W : Type} (cfg : Config W) (fuel : Nat) (n : Name) (q : Rat) (base : Option String)
    (st : State W) :
    execute cfg (fuel + 1) [.expr (some n) (.unary .neg (.number q))] base st =
      .done { globals := st.globals.set n (cfg.host.neg (.num q)), world := st.world, count := 1 } := by
  unfold execute
  rw [execM.eq_1]
  have hlim : ¬ (cfg.maxStatements > 0 ∧ 1 > cfg.maxStatements) := by omega
  simp [evalExpr, hlim]
  rw [execM.eq_1]
  simp
  omega


/-! ### the one-line script `n = <text>` -/

theorem digit_textOK {c : Char} (h : isAsciiDigit c = true) :
    PrintScript.headOK c = true ∧ PrintScript.lastOK c = true ∧ c ≠ '\n' := by
  have hn : 48 ≤ c.toNat ∧ c.toNat ≤ 57 := by simpa [isAsciiDigit] using h
  have hs : Text.isSpace c = false := by
    simp [Text.isSpace, Text.isSpaceN]; omega
  have ne : ∀ d : Char, (d.toNat < 48 ∨ 57 < d.toNat) → c ≠ d := by
    intro d hd e; subst e; omega
  refine ⟨?_, ?_, ne _ (by decide)⟩
  · simp [PrintScript.headOK, hs, ne '=' (by decide), ne ':' (by decide), ne '#' (by decide)]
  · simp [PrintScript.lastOK, hs, ne '\\' (by decide)]

theorem numChar_textOK {c : Char} (h : numChar c = true) :
    PrintScript.headOK c = true ∧ PrintScript.lastOK c = true ∧ c ≠ '\n' := by
  simp only [numChar, Bool.or_eq_true, beq_iff_eq] at h
  rcases h with ((((h | h) | h) | h) | h) | h
  · exact digit_textOK h
  all_goals (subst h; decide)

/-- a non-empty text made of digits, signs, `.`, `e` can stand as the expression of a line (`PrintScript.ExprTextOK`) -/
theorem exprTextOK_numChars {l : List Char} (hne : l ≠ []) (h : ∀ c ∈ l, numChar c = true) :
    PrintScript.ExprTextOK l = true := by
  have h1 : l.contains '\n' = false := by
    cases hc : l.contains '\n' with
    | false => rfl
    | true =>
      have hm : '\n' ∈ l := by simpa using hc
      exact absurd rfl (numChar_textOK (h _ hm)).2.2
  unfold PrintScript.ExprTextOK
  rw [h1]
  cases l with
  | nil => exact absurd rfl hne
  | cons c r =>
    cases hl : (c :: r).getLast? with
    | none => exact absurd (List.getLast?_eq_none_iff.mp hl) hne
    | some d =>
      have a := (numChar_textOK (h c (List.mem_cons_self ..))).1
      have b := (numChar_textOK (h d (List.mem_of_getLast? hl))).2.1
      simp [a, b]

theorem eqL : " = ".toList = [' ', '=', ' '] := by decide

theorem printLines_assign (n : Name) (text : String) (e : Expr) :
    PrintScript.printLines (fun _ => text) [.assign n e] = n.render ++ " = " ++ text := by
  apply String.toList_inj.mp
  rw [C01.printLines_toList, String.toList_append, String.toList_append, eqL]
  show PrintScript.nameL n ++ (' ' :: '=' :: ' ' :: text.toList) = _
  simp [PrintScript.nameL]

/-- the text-level parser model on the one-line script `n = <text>` — for ANY expression text the expression parser accepts
that can stand in a line (instance of `C01.parseScript_printLines` with the constant printer) -/
theorem parseScript_assign (n : Name) (hn : PrintScript.NameOK n = true) (text : String) (e : Expr)
    (hp : ExprParse.parseExpr text = .ok e) (hok : PrintScript.ExprTextOK text.toList = true) (start : Nat := 1) :
    Parser.parseScript [n.render ++ " = " ++ text] start = .ok [.expr (some n) e] := by
  have hl : C01.LinesPrintable (fun _ => text) [.assign n e] := by
    constructor
    · intro l hl
      simp only [List.mem_singleton] at hl; subst hl
      simp [PrintScript.LineOK, PrintScript.names, PrintScript.exprs, hn, hok]
    · intro l hl e' he'
      simp only [List.mem_singleton] at hl; subst hl
      simp only [PrintScript.exprs, List.mem_singleton] at he'; subst he'
      exact hp
  have := C01.parseScript_printLines (fun _ => text) [.assign n e] hl (P := [.expr (some n) e]) rfl start
  rwa [printLines_assign] at this

theorem valueString_textOK (x : PyNum) (hx : NumTextOK x) : PrintScript.ExprTextOK (valueStringNum x).toList = true := by
  obtain ⟨t, ht, hw, ha, _, _⟩ := valueString_tok x hx
  rw [ht]
  refine exprTextOK_numChars ?_ (numChars_text ha)
  intro h0
  have := scanNumber_text hw ha []
  rw [h0] at this
  simp [ExprScan.scanNumber, ExprScan.skipWs, ExprScan.scanSign] at this

open Machine in
theorem get?_set_self (e : Env) (n : Name) (v : Value) : (e.set n v).get? n = some v := by
  induction e with
  | nil => simp [Env.set, Env.get?]
  | cons p r ih =>
    obtain ⟨k, x⟩ := p
    simp only [Env.set]
    cases hk : (k == n) with
    | true => simp [Env.get?, hk]
    | false => simpa [Env.get?, hk] using ih

open Machine in
/-- **`assign_literal_roundtrip`** — the number text as SOURCE: for a number whose text does not start with `-`, the one-line
script `n = <value_string of the number>` is accepted by the text-level parser model `Parser.parseScript`, and running the
parsed program with `Machine.execute` — on ANY host (the driver host `HostImpl.host` in particular), any statement limit, any
start state, any positive fuel — ends normally with global `n` holding exactly the denoted number, the world untouched and one
statement counted. -/
theorem assign_literal_roundtrip (x : PyNum) (hx : NumTextOK x) (hpos : (valueStringNum x).toList.head? ≠ some '-')
    (n : Name) (hn : PrintScript.NameOK n = true) {W : Type} (cfg : Config W) (fuel : Nat) (base : Option String) (st : State W) :
    ∃ q P, numDenote x = some q ∧ Parser.parseScript [n.render ++ " = " ++ valueStringNum x] = .ok P ∧
      execute cfg (fuel + 1) P base st = .done { globals := st.globals.set n (.num q), world := st.world, count := 1 } ∧
      (st.globals.set n (.num q)).get? n = some (.num q) := by
  obtain ⟨q, h1, h2⟩ := parseExpr_valueString x hx hpos
  exact ⟨q, _, h1, parseScript_assign n hn _ _ h2 (valueString_textOK x hx), execute_assign_number cfg fuel n q base st,
    get?_set_self _ _ _⟩

open Machine in
/-- the same for EVERY number text, negative ones included, on a host whose unary minus negates numbers (`HostImpl.host` does,
`hostImpl_neg`): the text of a negative number is not a literal but `-<literal>`, and evaluates to the number. -/
theorem assign_text_roundtrip (x : PyNum) (hx : NumTextOK x) (n : Name) (hn : PrintScript.NameOK n = true) {W : Type}
    (cfg : Config W) (hneg : ∀ q, cfg.host.neg (.num q) = .num (-q)) (fuel : Nat) (base : Option String) (st : State W) :
    ∃ q P, numDenote x = some q ∧ Parser.parseScript [n.render ++ " = " ++ valueStringNum x] = .ok P ∧
      execute cfg (fuel + 1) P base st = .done { globals := st.globals.set n (.num q), world := st.world, count := 1 } := by
  by_cases hm : (valueStringNum x).toList.head? = some '-'
  · obtain ⟨q, h1, h2⟩ := parseExpr_valueString_neg x hx hm
    refine ⟨-q, _, h1, parseScript_assign n hn _ _ h2 (valueString_textOK x hx), ?_⟩
    rw [execute_assign_neg_number, hneg]
  · obtain ⟨q, P, h1, h2, h3, _⟩ := assign_literal_roundtrip x hx hm n hn cfg fuel base st
    exact ⟨q, P, h1, h2, h3⟩

theorem hostImpl_neg : ∀ q, HostImpl.host.neg (.num q) = .num (-q) := fun _ => rfl

open Machine in
/-- under A1/A2 (C13's `PyFloat`): `v = <'' + x>` binds `v` to a rational that `float()` rounds to `x` -/
theorem assign_float_roundtrip {F : Type} (Pf : PyFloat F) (x : F) (n : Name) (hn : PrintScript.NameOK n = true) {W : Type}
    (cfg : Config W) (hneg : ∀ q, cfg.host.neg (.num q) = .num (-q)) (fuel : Nat) (base : Option String) (st : State W) :
    ∃ q P, Pf.ofRat q = x ∧ Parser.parseScript [n.render ++ " = " ++ valueStringF Pf x] = .ok P ∧
      execute cfg (fuel + 1) P base st = .done { globals := st.globals.set n (.num q), world := st.world, count := 1 } := by
  obtain ⟨q0, hq, _, _, hx⟩ := Pf.float_repr x
  obtain ⟨q, P, h1, h2, h3⟩ := assign_text_roundtrip (.float (Pf.repr x)) (Pf.repr_grammar x) n hn cfg hneg fuel base st
  have : q = q0 := by simp only [numDenote, hq, Option.some.injEq] at h1; exact h1.symm
  subst this
  exact ⟨q, P, hx, h2, h3⟩


/-! ### the reverse direction through the machine's own stringification: `'' + <integral literal>` -/

theorem scanNumber_blank (l : List Char) : scanNumber (' ' :: l) = scanNumber l := by
  have : isReSpace ' ' = true := by decide
  rw [scanNumber_eq_numCore, scanNumber_eq_numCore, List.dropWhile_cons, this]; rfl

theorem scanUnaryOp_blank (l : List Char) : scanUnaryOp (' ' :: l) = scanUnaryOp l := by
  have : ExprScan.isPySpace ' ' = true := by decide
  simp [scanUnaryOp, skipWs, List.dropWhile_cons, this]

theorem chainLoop_step (pu : List Char → Res (Expr × List Char)) (n : Nat) (l r : Expr) (op : BinOp) {t rt nt : List Char}
    (h1 : scanBinOp t = some (op, rt)) (h2 : pu rt = .ok (r, nt)) :
    chainLoop pu (n + 1) l t = chainLoop pu n (insR l op r) nt := by
  simp [chainLoop, h1, h2]

/-- `'' + <number literal>` is the addition node over the empty string and the number leaf -/
theorem parseExprL_concat_number {u rest : List Char} {q : Rat} (h : scanNumber u = some (q, rest)) (hu : scanUnaryOp u = none)
    (hr : skipWs rest = []) :
    parseExprL ('\'' :: '\'' :: ' ' :: '+' :: u) = .ok (.binary .add (.string "") (.number q)) := by
  have hq : ExprScan.isPySpace '\'' = false := by decide
  have hsp : ExprScan.isPySpace ' ' = true := by decide
  have hpl : ExprScan.isPySpace '+' = false := by decide
  have hsk : ∀ r, skipWs ('\'' :: r) = '\'' :: r := by intro r; simp [skipWs, List.dropWhile_cons, hq]
  have hg : ∀ r, scanGroupOpen ('\'' :: r) = none := by intro r; simp [scanGroupOpen, scanChar, hsk]
  have hun : ∀ r, scanUnaryOp ('\'' :: r) = none := by
    intro r; simp [scanUnaryOp, hsk, firstAlt, unOpAlts, stripPrefix?]
  have hf : ∀ r, scanFuncOpen ('\'' :: r) = none := by
    intro r
    have : isIdStart '\'' = false := by decide
    simp [scanFuncOpen, hsk, this]
  have hnum : ∀ r, scanNumber ('\'' :: r) = none := by
    intro r
    have : ExprScan.isDigit '\'' = false := by decide
    simp [scanNumber, hsk, ExprScan.scanSign, this]
  have hstr : scanString '\'' ('\'' :: '\'' :: ' ' :: '+' :: u) = some ([], ' ' :: '+' :: u) := by
    simp [scanString, hsk, strBody, unescape]
  have hbin : scanBinOp (' ' :: '+' :: u) = some (.add, u) := by
    simp [scanBinOp, skipWs, List.dropWhile_cons, hsp, hpl, firstAlt, binOpAlts, stripPrefix?]
  have hpu : ∀ fuel, parseUnary fuel ('\'' :: '\'' :: ' ' :: '+' :: u) = .ok (.string "", ' ' :: '+' :: u) := by
    intro fuel
    cases fuel with
    | zero => simp [parseUnary, hg, hun, hf, parseAtom, hnum, hstr]
    | succ k => simp [parseUnary, hg, hun, hf, parseAtom, hnum, hstr]
  have hlen : ('\'' :: '\'' :: ' ' :: '+' :: u).length = (u.length + 3) + 1 := by simp
  unfold parseExprL parseBinary binaryWith
  rw [hpu, hlen]
  simp only []
  rw [chainLoop_step _ _ _ _ _ hbin (parseUnary_number h hu _), chainLoop_blank _ _ _ hr]
  simp [hr, insR]

theorem concatL : "'' + ".toList = ['\'', '\'', ' ', '+', ' '] := by decide

open Machine in
/-- **the round trip text → number → text for integral values.**  For `n ≥ 0` let `t = str(n)` (the C13 number text of the
integer).  The expression text `'' + t` parses to `'' + <number leaf n>`, and evaluating that tree on the driver host
`HostImpl` — whose string concatenation uses the machine's own `value_string` (`HostImpl.valueString?`, bridged to the C13/C14
text by `C14Bridge.valueString_bridge` / `strOf_integral`) — gives back exactly the string `t`: digits only, no fraction. -/
theorem concat_integral_roundtrip (n : Int) (hn : 0 ≤ n) (cfg : Config HostImpl.World) (hh : cfg.host = HostImpl.host)
    (call : CallFn HostImpl.World) (locals : Option Env) (st : State HostImpl.World) :
    ∃ e, ExprParse.parseExpr ("'' + " ++ valueStringNum (.int n)) = .ok e ∧
      evalExpr cfg call locals e st = .ok (.str (valueStringNum (.int n))) st ∧
      '.' ∉ (valueStringNum (.int n)).toList := by
  obtain ⟨t, ht, hw, ha, hv, hp⟩ := valueString_tok (.int n) trivial
  have hs : t.sign ≠ .minus := by
    intro hm
    have := (head_minus_iff hw hp).mpr hm
    rw [← ht] at this
    simp [valueStringNum, intStr, intStrL, String.toList_ofList, show ¬ n < 0 by omega] at this
    obtain ⟨ds, hasc, hne, hds, _⟩ := int_prints_digits_only n
    simp [show ¬ n < 0 by omega, valueStringNum, intStr, intStrL, String.toList_ofList] at hds
    rw [hds] at this
    cases ds with
    | nil => exact hne rfl
    | cons c r =>
      simp at this; subst this
      exact absurd (hasc _ (List.mem_cons_self ..)) (by decide)
  have hq : t.val = (n : Rat) := by simp only [numDenote, Option.some.injEq] at hv; exact hv.symm
  refine ⟨.binary .add (.string "") (.number t.val), ?_, ?_, (int_prints_digits_only n).choose_spec.2.2.2⟩
  · simp only [ExprParse.parseExpr, String.toList_append, concatL, ht]
    show parseExprL ('\'' :: '\'' :: ' ' :: '+' :: ' ' :: t.text) = _
    apply parseExprL_concat_number (rest := [])
    · rw [scanNumber_blank]; exact scanNumber_text hw ha []
    · rw [scanUnaryOp_blank]; exact scanUnaryOp_text hw ha hs
    · rfl
  · have hden : (n : Rat).den = 1 := by simp
    have hnum : (n : Rat).num = n := by simp
    have htxt : HostImpl.ratText (n : Rat) = valueStringNum (.int n) := by
      rw [C14Bridge.ratText_integral _ hden, C14Bridge.toString_int_eq_intStr, hnum]; rfl
    simp [evalExpr, hh, HostImpl.host, HostImpl.binop, HostImpl.valueString?, hq, htxt]


/-! ## examples: the hypotheses are met by non-trivial instances -/

example : NumTextOK (.float "1.5e-07") ∧ NumTextOK (.float "1e+16") ∧ NumTextOK (.float "-0.0") ∧ NumTextOK (.int 42) ∧
    ¬ NumTextOK (.float "1e16") := by decide
example : ∃ q, numDenote (.float "1.5e-07") = some q ∧ ExprParse.parseExpr "1.5e-07" = .ok (.number q) :=
  parseExpr_valueString (.float "1.5e-07") (by decide) (by decide)
example : ∃ q, numDenote (.float "123.0") = some q ∧ ExprParse.parseExpr (valueStringNum (.float "123.0")) = .ok (.number q) :=
  parseExpr_valueString (.float "123.0") (by decide) (by decide)
example : ∃ q, numDenote (.int 9007199254740993) = some q ∧ ExprParse.parseExpr "9007199254740993" = .ok (.number q) :=
  parseExpr_valueString (.int 9007199254740993) trivial (by decide)
example : ∃ q, numDenote (.float "-2.5") = some (-q) ∧ ExprParse.parseExpr "-2.5" = .ok (.unary .neg (.number q)) :=
  parseExpr_valueString_neg (.float "-2.5") (by decide) (by decide)
/-- `-0.0` prints as `-0`, which is the negation node over the literal `0` -/
example : ∃ q, numDenote (.float "-0.0") = some (-q) ∧ ExprParse.parseExpr "-0" = .ok (.unary .neg (.number q)) :=
  parseExpr_valueString_neg (.float "-0.0") (by decide) (by decide)
example : ∃ q, toyFloats.ofRat q = 2 ∧ ExprParse.parseExpr "1e+16" = .ok (.number q) :=
  literal_parse_roundtrip toyFloats 2 (by decide)
example : PrintScript.NameOK (.user "v") = true := by decide
example (st : Machine.State HostImpl.World) :
    ∃ q P, numDenote (.float "1e+16") = some q ∧ Parser.parseScript ["v = 1e+16"] = .ok P ∧
      Machine.execute { host := HostImpl.host, funs := fun _ => none, maxStatements := 1 } 1 P none st =
        .done { globals := st.globals.set (.user "v") (.num q), world := st.world, count := 1 } ∧
      (st.globals.set (.user "v") (.num q)).get? (.user "v") = some (.num q) :=
  assign_literal_roundtrip (.float "1e+16") (by decide) (by decide) (.user "v") (by decide) _ 0 none st
example (st : Machine.State HostImpl.World) :
    ∃ q P, numDenote (.int (-5)) = some q ∧ Parser.parseScript ["v = -5"] = .ok P ∧
      Machine.execute { host := HostImpl.host, funs := fun _ => none, maxStatements := 0 } 7 P none st =
        .done { globals := st.globals.set (.user "v") (.num q), world := st.world, count := 1 } :=
  assign_text_roundtrip (.int (-5)) trivial (.user "v") (by decide) _ hostImpl_neg 6 none st
example (st : Machine.State HostImpl.World) :
    ∃ e, ExprParse.parseExpr "'' + 42" = .ok e ∧
      Machine.evalExpr { host := HostImpl.host, funs := fun _ => none, maxStatements := 0 } (fun _ _ _ => .oof) none e st =
        .ok (.str "42") st ∧ '.' ∉ "42".toList :=
  concat_integral_roundtrip 42 (by decide) _ rfl _ none st

end C13Bridge
