import BareModel.Gen.Regex

/-!
# C10 — the tie to the pattern sources

`Text` and `Scan` re-implement, by hand, the anchored patterns of parser.py:430-454.  This module pins the pattern
*sources* (and flags) they were written for against the table regenerated from the working tree on every run
(`Gen.regexes`).  It is a module of its own: a changed pattern breaks this obligation and nothing else; whether the
property still holds is then decided by the correspondence streams and the search.
-/

namespace C10

def patternOf (name : String) : Option (String × Nat) := (Gen.regexes.find? (·.1 == name)).map (·.2)

/-- the statement patterns (and the three text-layer patterns) `Text`/`Scan` were written for -/
def pinned : List (String × String × Nat) := [
  ("parser._R_EXPR_STRING_ESCAPE", "\\\\([\\\\\\'])", 32),
  ("parser._R_SCRIPT_ASSIGNMENT", "^\\s*(?P<name>[A-Za-z_]\\w*)\\s*=\\s*(?P<expr>.+)$", 32),
  ("parser._R_SCRIPT_BREAK", "^\\s*break\\s*$", 32),
  ("parser._R_SCRIPT_COMMENT", "^\\s*(?:#.*)?$", 32),
  ("parser._R_SCRIPT_CONTINUATION", "\\\\\\s*$", 32),
  ("parser._R_SCRIPT_CONTINUE", "^\\s*continue\\s*$", 32),
  ("parser._R_SCRIPT_FOR_BEGIN", "^\\s*for\\s+(?P<value>[A-Za-z_]\\w*)(?:\\s*,\\s*(?P<index>[A-Za-z_]\\w*))?\\s+in\\s+(?P<values>.+)\\s*:\\s*$", 32),
  ("parser._R_SCRIPT_FOR_END", "^\\s*endfor\\s*$", 32),
  ("parser._R_SCRIPT_FUNCTION_ARG_SPLIT", "\\s*,\\s*", 32),
  ("parser._R_SCRIPT_FUNCTION_BEGIN", "^(?P<async>\\s*async)?\\s*function\\s+(?P<name>[A-Za-z_]\\w*)\\s*\\(\\s*(?P<args>[A-Za-z_]\\w*(?:\\s*,\\s*[A-Za-z_]\\w*)*)?(?P<lastArgArray>\\s*\\.\\.\\.)?\\s*\\)\\s*:\\s*$", 32),
  ("parser._R_SCRIPT_FUNCTION_END", "^\\s*endfunction\\s*$", 32),
  ("parser._R_SCRIPT_IF_BEGIN", "^\\s*if\\s+(?P<expr>.+)\\s*:\\s*$", 32),
  ("parser._R_SCRIPT_IF_ELSE", "^\\s*else\\s*:\\s*$", 32),
  ("parser._R_SCRIPT_IF_ELSE_IF", "^\\s*elif\\s+(?P<expr>.+)\\s*:\\s*$", 32),
  ("parser._R_SCRIPT_IF_END", "^\\s*endif\\s*$", 32),
  ("parser._R_SCRIPT_INCLUDE", "^\\s*include\\s+(?P<delim>\\')(?P<url>(?:\\\\\\'|[^\\'])*)\\'\\s*$", 32),
  ("parser._R_SCRIPT_INCLUDE_SYSTEM", "^\\s*include\\s+(?P<delim><)(?P<url>[^>]*)>\\s*$", 32),
  ("parser._R_SCRIPT_JUMP", "^(?P<jump>\\s*(?:jump|jumpif\\s*\\((?P<expr>.+)\\)))\\s+(?P<name>[A-Za-z_]\\w*)\\s*$", 32),
  ("parser._R_SCRIPT_LABEL", "^\\s*(?P<name>[A-Za-z_]\\w*)\\s*:\\s*$", 32),
  ("parser._R_SCRIPT_LINE_SPLIT", "\\r?\\n", 32),
  ("parser._R_SCRIPT_RETURN", "^(?P<return>\\s*return(?:\\s+(?P<expr>\\S.*))?)\\s*$", 32),
  ("parser._R_SCRIPT_WHILE_BEGIN", "^\\s*while\\s+(?P<expr>.+)\\s*:\\s*$", 32),
  ("parser._R_SCRIPT_WHILE_END", "^\\s*endwhile\\s*$", 32)
]

/-- The patterns of the working tree are the pinned ones (a changed pattern breaks this obligation; the correspondence
streams and the search then decide whether the property still holds). -/
theorem patterns_pinned : pinned.all (fun p => patternOf p.1 == some p.2) = true := by decide +kernel

end C10
