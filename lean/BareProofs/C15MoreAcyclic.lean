import BareProofs.C15MoreSort
import BareProofs.C15MoreText

/-!
# C15More — acyclic well-formed heaps: the fuel `|heap| + 1` always suffices

A heap is *ranked* when some rank function strictly decreases from every container to the containers it holds (and those are
allocated, with the right kind): this is "acyclic and without dangling references", the only heaps a script can build without
storing a container into itself.  No bound on the rank is assumed; `denseRank` renumbers any rank into `0 .. |heap|-1`.

* `readable_of_ranked`     on a ranked heap with unique object keys every value reads back as a tree (`Readable`): the hypothesis
                            of `arraySort_contract` / `valueCompare_tree` holds, every comparison is defined
* `arraySort_modelled_of_ranked`  `arraySort(array)` is never `unmodelled` there
* `toJ_not_cyc_of_ranked`  on a ranked heap the JSON walk never reports a cycle: `stringNew` / `arrayJoin` fail with
                            "circular reference" only on heaps that are not ranked (i.e. contain a cycle)
-/

namespace C15More
open Lib LibMore Compare

/-- a held value is allocated (with the kind its tag says) and ranks strictly below its holder -/
def ChildOK (h : Heap) (ρ : Nat → Nat) (r : Nat) : Value → Prop
  | .arr r' => (getArr h r').isSome = true ∧ ρ r' < ρ r
  | .obj r' => (getObj h r').isSome = true ∧ ρ r' < ρ r
  | _ => True

/-- **acyclic, no dangling references**: the rank strictly decreases from a container to every container it holds -/
def Ranked (h : Heap) (ρ : Nat → Nat) : Prop :=
  (∀ r xs, getArr h r = some xs → ∀ v ∈ xs, ChildOK h ρ r v) ∧
  (∀ r kvs, getObj h r = some kvs → ∀ p ∈ kvs, ChildOK h ρ r p.2)

/-- a value handed to the library: its reference, if it is one, is allocated with the right kind -/
def TopOK (h : Heap) : Value → Prop
  | .arr r => (getArr h r).isSome = true
  | .obj r => (getObj h r).isSome = true
  | _ => True

/-! ## renumbering a rank into `0 .. |heap| - 1` -/

/-- the number of cells that rank strictly below `r` -/
def denseRank (h : Heap) (ρ : Nat → Nat) (r : Nat) : Nat :=
  ((List.range h.length).filter (fun x => decide (ρ x < ρ r))).length

theorem filter_length_le {α} (p q : α → Bool) (hpq : ∀ x, p x = true → q x = true) :
    ∀ l : List α, (l.filter p).length ≤ (l.filter q).length
  | [] => by simp
  | y :: l => by
    have ih := filter_length_le p q hpq l
    by_cases hy : p y = true
    · simp [hy, hpq y hy, ih]
    · by_cases hq' : q y = true
      · simp [hy, hq']; omega
      · simp [hy, hq', ih]

theorem filter_length_lt {α} (p q : α → Bool) (hpq : ∀ x, p x = true → q x = true) :
    ∀ (l : List α) (a : α), a ∈ l → q a = true → p a = false → (l.filter p).length < (l.filter q).length
  | [], a, ha, _, _ => by simp at ha
  | x :: l, a, ha, hq, hp => by
    rcases List.mem_cons.mp ha with rfl | ha'
    · have := filter_length_le p q hpq l
      simp [hq, hp]
      omega
    · have ih := filter_length_lt p q hpq l a ha' hq hp
      by_cases hx : p x = true
      · simp [hx, hpq x hx, ih]
      · by_cases hq' : q x = true
        · simp [hx, hq']; omega
        · simp [hx, hq', ih]

theorem denseRank_lt_length (h : Heap) (ρ : Nat → Nat) (r : Nat) (hr : r < h.length) : denseRank h ρ r < h.length := by
  unfold denseRank
  have := filter_length_lt (fun x => decide (ρ x < ρ r)) (fun _ => true) (fun _ _ => rfl) (List.range h.length) r
    (List.mem_range.mpr hr) rfl (by simp)
  have e : (List.range h.length).filter (fun _ => true) = List.range h.length := List.filter_eq_self.mpr (fun _ _ => rfl)
  rw [e, List.length_range] at this
  exact this

theorem denseRank_lt (h : Heap) (ρ : Nat → Nat) (a b : Nat) (ha : a < h.length) (hab : ρ a < ρ b) :
    denseRank h ρ a < denseRank h ρ b := by
  unfold denseRank
  exact filter_length_lt _ _ (fun x hx => by simp only [decide_eq_true_eq] at hx ⊢; omega) (List.range h.length) a
    (List.mem_range.mpr ha) (by simpa using hab) (by simp)

theorem getArr_lt {h : Heap} {r : Nat} (hs : (getArr h r).isSome = true) : r < h.length := by
  unfold getArr at hs
  cases hr : h[r]? with
  | none => simp [hr] at hs
  | some c => exact (List.getElem?_eq_some_iff.mp hr).1

theorem getObj_lt {h : Heap} {r : Nat} (hs : (getObj h r).isSome = true) : r < h.length := by
  unfold getObj at hs
  cases hr : h[r]? with
  | none => simp [hr] at hs
  | some c => exact (List.getElem?_eq_some_iff.mp hr).1

/-- any rank can be replaced by one that is bounded by the number of cells -/
theorem ranked_dense {h : Heap} {ρ : Nat → Nat} (hρ : Ranked h ρ) : Ranked h (denseRank h ρ) := by
  refine ⟨fun r xs hx v hv => ?_, fun r kvs hx p hp => ?_⟩
  · have := hρ.1 r xs hx v hv
    cases v <;> simp only [ChildOK] at this ⊢
    · exact ⟨this.1, denseRank_lt h ρ _ _ (getArr_lt this.1) this.2⟩
    · exact ⟨this.1, denseRank_lt h ρ _ _ (getObj_lt this.1) this.2⟩
  · have := hρ.2 r kvs hx p hp
    cases hv : p.2 <;> rw [hv] at this <;> simp only [ChildOK] at this ⊢
    · exact ⟨this.1, denseRank_lt h ρ _ _ (getArr_lt this.1) this.2⟩
    · exact ⟨this.1, denseRank_lt h ρ _ _ (getObj_lt this.1) this.2⟩

/-- the fuel a value needs, in terms of a rank -/
def rk (ρ : Nat → Nat) : Value → Nat
  | .arr r => ρ r + 1
  | .obj r => ρ r + 1
  | _ => 0

theorem child_top_rk {h : Heap} {ρ : Nat → Nat} {r : Nat} {v : Value} (hc : ChildOK h ρ r v) : TopOK h v ∧ rk ρ v ≤ ρ r := by
  cases v <;> simp only [ChildOK] at hc <;> simp only [TopOK, rk] <;> first | exact ⟨trivial, Nat.zero_le _⟩ | exact ⟨hc.1, hc.2⟩

theorem rk_le_length {h : Heap} {ρ : Nat → Nat} {v : Value} (ht : TopOK h v) : rk (denseRank h ρ) v ≤ h.length := by
  cases v <;> simp only [TopOK] at ht <;> simp only [rk] <;> first | exact Nat.zero_le _ | skip
  · exact denseRank_lt_length h ρ _ (getArr_lt ht)
  · exact denseRank_lt_length h ρ _ (getObj_lt ht)

/-! ## reading back succeeds -/

theorem mapM_isSome {α β} (f : α → Option β) : ∀ (xs : List α), (∀ x ∈ xs, ∃ y, f x = some y) → ∃ ys, xs.mapM f = some ys
  | [], _ => ⟨[], rfl⟩
  | x :: xs, hx => by
    obtain ⟨y, hy⟩ := hx x (by simp)
    obtain ⟨ys, hys⟩ := mapM_isSome f xs (fun z hz => hx z (by simp [hz]))
    exact ⟨y :: ys, by rw [List.mapM_cons]; simp [hy, hys]⟩

theorem reify_of_rank (h : Heap) (ρ : Nat → Nat) (hρ : Ranked h ρ) (hk : KeysUnique h) :
    ∀ (k : Nat) (v : Value), TopOK h v → rk ρ v ≤ k → ∃ p, reify (k + 1) h v = some p
  | k, .null, _, _ => ⟨_, rfl⟩
  | k, .bool _, _, _ => ⟨_, rfl⟩
  | k, .num _, _, _ => ⟨_, rfl⟩
  | k, .str _, _, _ => ⟨_, rfl⟩
  | k, .dt _, _, _ => ⟨_, rfl⟩
  | k, .fn _, _, _ => ⟨_, rfl⟩
  | k, .regex _, _, _ => ⟨_, rfl⟩
  | 0, .arr r, _, hr => by simp [rk] at hr
  | 0, .obj r, _, hr => by simp [rk] at hr
  | k + 1, .arr r, ht, hr => by
    simp only [TopOK] at ht
    simp only [rk] at hr
    cases hx : getArr h r with
    | none => simp [hx] at ht
    | some xs =>
      obtain ⟨ys, hys⟩ := mapM_isSome (reify (k + 1) h) xs (fun v hv => by
        obtain ⟨h1, h2⟩ := child_top_rk (hρ.1 r xs hx v hv)
        exact reify_of_rank h ρ hρ hk k v h1 (by omega))
      refine ⟨.arr ys, ?_⟩
      show (match getArr h r with
        | some xs => (xs.mapM (reify (k + 1) h)).map PValue.arr
        | none => none) = _
      rw [hx]
      simp only [hys, Option.map_some]
  | k + 1, .obj r, ht, hr => by
    simp only [TopOK] at ht
    simp only [rk] at hr
    cases hx : getObj h r with
    | none => simp [hx] at ht
    | some kvs =>
      obtain ⟨ys, hys⟩ := mapM_isSome (fun p : String × Value => (reify (k + 1) h p.2).map (fun t => (p.1, t))) kvs (fun p hp => by
        obtain ⟨h1, h2⟩ := child_top_rk (hρ.2 r kvs hx p hp)
        obtain ⟨t, ht⟩ := reify_of_rank h ρ hρ hk k p.2 h1 (by omega)
        exact ⟨(p.1, t), by simp [ht]⟩)
      refine ⟨.obj ys, ?_⟩
      show (match getObj h r with
        | some kvs =>
          if (kvs.map (fun (x : String × Value) => x.1)).Nodup then
            (kvs.mapM (fun (p : String × Value) => (reify (k + 1) h p.2).map (fun t => (p.1, t)))).map PValue.obj else none
        | none => none) = _
      rw [hx]
      simp only [if_pos (hk r kvs hx), hys, Option.map_some]

/-- **readable_of_ranked.** On an acyclic heap without dangling references whose objects have unique keys, every value (whose own
reference is allocated) reads back as a tree with the fuel the library comparison uses — however deep the nesting. -/
theorem readable_of_ranked (h : Heap) (ρ : Nat → Nat) (hρ : Ranked h ρ) (hk : KeysUnique h) (v : Value) (ht : TopOK h v) :
    Readable h v = true := by
  obtain ⟨p, hp⟩ := reify_of_rank h _ (ranked_dense hρ) hk h.length v ht (rk_le_length ht)
  simp [Readable, hp]

/-- the elements of an allocated array of a ranked heap are readable -/
theorem elements_readable (h : Heap) (ρ : Nat → Nat) (hρ : Ranked h ρ) (hk : KeysUnique h) (r : Nat) (xs : List Value)
    (hx : getArr h r = some xs) : ∀ x ∈ xs, Readable h x = true :=
  fun x hxm => readable_of_ranked h ρ hρ hk x (child_top_rk (hρ.1 r xs hx x hxm)).1

/-- **arraySort_modelled_of_ranked.** On such a heap `arraySort(array)` of an allocated array is modelled for every oracle, with the
contract of `arraySort_contract` (ordered stable permutation = the C11 sort of the denoted trees). -/
theorem arraySort_modelled_of_ranked (T : TextFns) (h : Heap) (ρ : Nat → Nat) (hρ : Ranked h ρ) (hk : KeysUnique h) (r : Nat)
    (xs : List Value) (hx : getArr h r = some xs) :
    libMore T "arraySort" [.arr r] h = (.ok (.arr r), h.set r (.arr (sortV h xs))) ∧
    (sortV h xs).Perm xs ∧ (sortV h xs).Pairwise (fun x y => cmpD h x y ≤ 0) ∧
    (sortV h xs).map (tree h) = Compare.arraySort (xs.map (tree h)) :=
  arraySort_contract T h r xs hx (elements_readable h ρ hρ hk r xs hx) [] (Or.inl rfl)

/-! ## the JSON walk reports a cycle only on heaps that have one -/

theorem mapT_not_cyc {α β} (f : α → TRes β) : ∀ (xs : List α), (∀ x ∈ xs, f x ≠ .cyc) → mapT f xs ≠ .cyc
  | [], _ => by simp [mapT]
  | x :: xs, hx => by
    have h1 := hx x (by simp)
    have h2 := mapT_not_cyc f xs (fun z hz => hx z (by simp [hz]))
    unfold mapT
    cases hf : f x with
    | ok y => cases hr : mapT f xs <;> simp_all
    | cyc => exact absurd hf h1
    | unk => simp

theorem mapKV_not_cyc {β} (f : Value → TRes β) : ∀ (kvs : List (String × Value)), (∀ p ∈ kvs, f p.2 ≠ .cyc) → mapKV f kvs ≠ .cyc
  | [], _ => by simp [mapKV]
  | (k, v) :: kvs, hx => by
    have h1 := hx (k, v) (by simp)
    have h2 := mapKV_not_cyc f kvs (fun z hz => hx z (by simp [hz]))
    unfold mapKV
    cases hf : f v with
    | ok y => cases hr : mapKV f kvs <;> simp_all
    | cyc => exact absurd hf h1
    | unk => simp

theorem TRes.map_ne_cyc {α β} (f : α → β) (t : TRes α) (h : t ≠ .cyc) : t.map f ≠ .cyc := by
  cases t <;> simp_all [TRes.map]

theorem toJ_not_cyc_of_rank (T : TextFns) (h : Heap) (ρ : Nat → Nat) (hρ : Ranked h ρ) :
    ∀ (k : Nat) (v : Value), rk ρ v ≤ k → toJ T (k + 1) h v ≠ .cyc
  | 0, .arr r, hr => by simp [rk] at hr
  | 0, .obj r, hr => by simp [rk] at hr
  | k + 1, .arr r, hr => by
    simp only [rk] at hr
    unfold toJ
    cases hx : getArr h r with
    | none => simp [hx]
    | some xs =>
      simp only [hx]
      exact TRes.map_ne_cyc _ _ (mapT_not_cyc _ xs (fun v hv =>
        toJ_not_cyc_of_rank T h ρ hρ k v (by have := (child_top_rk (hρ.1 r xs hx v hv)).2; omega)))
  | k + 1, .obj r, hr => by
    simp only [rk] at hr
    unfold toJ
    cases hx : getObj h r with
    | none => simp [hx]
    | some kvs =>
      simp only [hx]
      exact TRes.map_ne_cyc _ _ (mapKV_not_cyc _ kvs (fun p hp =>
        toJ_not_cyc_of_rank T h ρ hρ k p.2 (by have := (child_top_rk (hρ.2 r kvs hx p hp)).2; omega)))
  | k, .null, _ => by simp [toJ]
  | k, .bool _, _ => by simp [toJ]
  | k, .str _, _ => by simp [toJ]
  | k, .fn _, _ => by simp [toJ]
  | k, .regex _, _ => by simp [toJ]
  | k, .num q, _ => by
    unfold toJ
    simp only
    split
    · simp
    · cases T.num q <;> simp [optT, TRes.map]
  | k, .dt ms, _ => by
    unfold toJ
    simp only
    cases T.dt ms <;> simp [optT, TRes.map]

/-- **toJ_not_cyc_of_ranked.** On an acyclic heap the JSON walk with fuel `|heap| + 1` never runs out of fuel: `stringNew` and
`arrayJoin` answer `fail null` for "circular reference" only when the heap is not ranked, i.e. really contains a cycle. -/
theorem toJ_not_cyc_of_ranked (T : TextFns) (h : Heap) (ρ : Nat → Nat) (hρ : Ranked h ρ) (v : Value) (ht : TopOK h v) :
    toJ T (h.length + 1) h v ≠ .cyc ∧ jsonText T h v ≠ .cyc :=
  have h1 := toJ_not_cyc_of_rank T h _ (ranked_dense hρ) h.length v (rk_le_length ht)
  ⟨h1, TRes.map_ne_cyc _ _ h1⟩

/-- non-vacuity: a heap whose *later* cells are held by *earlier* ones and vice versa (no monotone allocation order), ranked by
an unbounded rank -/
example : Ranked [.arr [.arr 2, .obj 1], .obj [("k", .arr 2)], .arr [numN 1]] (fun r => if r = 0 then 50 else if r = 1 then 7 else 3) := by
  refine ⟨fun r xs hx v hv => ?_, fun r kvs hx p hp => ?_⟩
  · match r, hx with
    | 0, hx =>
      simp [getArr] at hx; subst hx
      simp at hv
      rcases hv with rfl | rfl <;> simp [ChildOK, getArr, getObj]
    | 1, hx => simp [getArr] at hx
    | 2, hx =>
      simp [getArr] at hx; subst hx
      simp at hv; subst hv; simp [ChildOK, numN]
    | n + 3, hx => simp [getArr] at hx
  · match r, hx with
    | 0, hx => simp [getObj] at hx
    | 1, hx =>
      simp [getObj] at hx; subst hx
      simp at hp; subst hp; simp [ChildOK, getArr]
    | 2, hx => simp [getObj] at hx
    | n + 3, hx => simp [getObj] at hx

end C15More
