import BareModel.MachineSpec
import BareModel.Structured

/-!
# Helper lemmas for C01 (exactness of the lowering, T2)

An algebra of "one lowered statement" combinators on the machine side (`mtick`, `mExpr`, `mCond`, `mSkip`) that
mirror `tick`, `stmtExpr`, `stmtCond`, `stmtSkip` of the ticked structured semantics, the one-step unfoldings of the
cache-free machine `execM₀`, label-range / freshness facts about the lowering, and fuel monotonicity of `execT`.
-/

namespace C01
open Machine Lower Structured

variable {W : Type}

/-! ## machine-side combinators -/

def mtick (cfg : Config W) (fuel : Nat) (st : State W) (k : Nat → State W → Res W) : Res W :=
  match fuel with
  | 0 => .oof
  | f+1 =>
    let st1 : State W := { st with count := st.count + 1 }
    if cfg.maxStatements > 0 && st1.count > cfg.maxStatements then .err (.exceeded cfg.maxStatements) st1
    else k f st1

def mExpr (cfg : Config W) (cv : CallAt W) (name : Option Name) (e : Expr) (fuel : Nat) (locals : Option Env) (st : State W)
    (k : Option Env → State W → Nat → Res W) : Res W :=
  mtick cfg fuel st fun f st1 =>
    match evalExpr cfg (cv f) locals e st1 with
    | .ok v st2 =>
        match name with
        | none => k locals st2 f
        | some n => k (assign locals st2 n v).1 (assign locals st2 n v).2 f
    | .err e st2 => .err e st2
    | .oof => .oof

def mCond (cfg : Config W) (cv : CallAt W) (c : Expr) (fuel : Nat) (locals : Option Env) (st : State W)
    (k : Bool → Nat → State W → Res W) : Res W :=
  mtick cfg fuel st fun f st1 =>
    match evalExpr cfg (cv f) locals c st1 with
    | .ok v st2 => k (cfg.host.truthy v st2.world) f st2
    | .err e st2 => .err e st2
    | .oof => .oof

def mSkip (cfg : Config W) (fuel : Nat) (locals : Option Env) (st : State W) (k : Option Env → State W → Nat → Res W) : Res W :=
  mtick cfg fuel st fun f st1 => k locals st1 f

/-- continue a structured outcome with explicit continuations for normal / break / continue exits -/
def _root_.Structured.TOut.bind (o : TOut W) (kn kb kc : Option Env → State W → Nat → Res W) : Res W :=
  match o with
  | .norm l st f => kn l st f
  | .brk l st f => kb l st f
  | .cont l st f => kc l st f
  | .ret v st => .ret v st
  | .err e st => .err e st
  | .oof => .oof

theorem bind_tick (cfg : Config W) (fuel : Nat) (st : State W) (k : Nat → State W → TOut W)
    (kn kb kc : Option Env → State W → Nat → Res W) :
    (tick cfg fuel st k).bind kn kb kc = mtick cfg fuel st (fun f st1 => (k f st1).bind kn kb kc) := by
  cases fuel with
  | zero => rfl
  | succ f => simp only [tick, mtick]; split <;> rfl

theorem bind_stmtExpr (cfg : Config W) (cv : CallAt W) (n : Option Name) (e : Expr) (fuel : Nat) (l : Option Env) (st : State W)
    (kn kb kc : Option Env → State W → Nat → Res W) :
    (stmtExpr cfg cv n e fuel l st).bind kn kb kc = mExpr cfg cv n e fuel l st kn := by
  unfold stmtExpr mExpr
  rw [bind_tick]; congr 1; funext f st1
  cases evalExpr cfg (cv f) l e st1 with
  | ok v st2 => cases n <;> rfl
  | err e st2 => rfl
  | oof => rfl

theorem bind_stmtCond (cfg : Config W) (cv : CallAt W) (c : Expr) (fuel : Nat) (l : Option Env) (st : State W)
    (k : Bool → Nat → State W → TOut W) (kn kb kc : Option Env → State W → Nat → Res W) :
    (stmtCond cfg cv c fuel l st k).bind kn kb kc = mCond cfg cv c fuel l st (fun t f st2 => (k t f st2).bind kn kb kc) := by
  unfold stmtCond mCond
  rw [bind_tick]; congr 1; funext f st1
  cases evalExpr cfg (cv f) l c st1 <;> rfl

theorem bind_stmtSkip (cfg : Config W) (fuel : Nat) (l : Option Env) (st : State W)
    (kn kb kc : Option Env → State W → Nat → Res W) :
    (stmtSkip cfg fuel l st).bind kn kb kc = mSkip cfg fuel l st kn := by
  unfold stmtSkip mSkip; rw [bind_tick]; rfl

/-- `bind` after a match that only re-wraps the non-normal outcomes -/
theorem bind_norm_then (o : TOut W) (g : Option Env → State W → Nat → TOut W)
    (kn kb kc : Option Env → State W → Nat → Res W) :
    (match o with | .norm l st f => g l st f | o' => o').bind kn kb kc
      = o.bind (fun l st f => (g l st f).bind kn kb kc) kb kc := by
  cases o <;> rfl

/-! ## one-step unfoldings of the cache-free machine -/

variable (cfg : Config W)

theorem execM₀_end (fuel : Nat) (P : List Stmt) (l : Option Env) (base : Option String) (pc : Nat) (st : State W)
    (h : P[pc]? = none) : execM₀ cfg fuel P l base pc st = .done st := by
  rw [execM₀]; simp only [h]

theorem exec_expr (fuel : Nat) (P : List Stmt) (l : Option Env) (base : Option String) (pc : Nat) (st : State W)
    (n : Option Name) (e : Expr) (h : P[pc]? = some (.expr n e)) :
    execM₀ cfg fuel P l base pc st =
      mExpr cfg (callValue₀ cfg) n e fuel l st (fun l' st' f => execM₀ cfg f P l' base (pc+1) st') := by
  rw [execM₀]; simp only [h]
  cases fuel with
  | zero => rfl
  | succ f =>
    simp only [mExpr, mtick]
    split
    · rfl
    · cases evalExpr cfg (callValue₀ cfg f) l e { st with count := st.count + 1 } with
      | ok v st2 =>
        cases n with
        | none => rfl
        | some n => cases l <;> rfl
      | err e st2 => rfl
      | oof => rfl

theorem exec_cond (fuel : Nat) (P : List Stmt) (l : Option Env) (base : Option String) (pc : Nat) (st : State W)
    (lab : Name) (c : Expr) (tgt : Nat) (h : P[pc]? = some (.jump lab (some c))) (hf : findLabel P lab = some tgt) :
    execM₀ cfg fuel P l base pc st =
      mCond cfg (callValue₀ cfg) c fuel l st (fun t f st2 =>
        if t then execM₀ cfg f P l base (tgt+1) st2 else execM₀ cfg f P l base (pc+1) st2) := by
  rw [execM₀]; simp only [h]
  cases fuel with
  | zero => rfl
  | succ f =>
    simp only [mCond, mtick]
    split
    · rfl
    · cases evalExpr cfg (callValue₀ cfg f) l c { st with count := st.count + 1 } with
      | ok v st2 => simp only [hf]
      | err e st2 => rfl
      | oof => rfl

theorem exec_jump (fuel : Nat) (P : List Stmt) (l : Option Env) (base : Option String) (pc : Nat) (st : State W)
    (lab : Name) (tgt : Nat) (h : P[pc]? = some (.jump lab none)) (hf : findLabel P lab = some tgt) :
    execM₀ cfg fuel P l base pc st = mSkip cfg fuel l st (fun l' st' f => execM₀ cfg f P l' base (tgt+1) st') := by
  rw [execM₀]; simp only [h]
  cases fuel with
  | zero => rfl
  | succ f => simp only [mSkip, mtick]; split <;> simp [hf]

theorem exec_label (fuel : Nat) (P : List Stmt) (l : Option Env) (base : Option String) (pc : Nat) (st : State W)
    (lab : Name) (h : P[pc]? = some (.label lab)) :
    execM₀ cfg fuel P l base pc st = mSkip cfg fuel l st (fun l' st' f => execM₀ cfg f P l' base (pc+1) st') := by
  rw [execM₀]; simp only [h]
  cases fuel with
  | zero => rfl
  | succ f => simp only [mSkip, mtick] <;> split <;> rfl

theorem exec_func (fuel : Nat) (P : List Stmt) (l : Option Env) (base : Option String) (pc : Nat) (st : State W)
    (fid : Nat) (n : Name) (args : List Name) (laa isAsync : Bool) (body : List Stmt)
    (h : P[pc]? = some (.function fid n args laa isAsync body)) :
    execM₀ cfg fuel P l base pc st =
      mtick cfg fuel st (fun f st1 => execM₀ cfg f P l base (pc+1) { st1 with globals := st1.globals.set n (.fn (.script fid)) }) := by
  rw [execM₀]; simp only [h]
  cases fuel with
  | zero => rfl
  | succ f => simp only [mtick] <;> split <;> rfl

theorem exec_ret_none (fuel : Nat) (P : List Stmt) (l : Option Env) (base : Option String) (pc : Nat) (st : State W)
    (h : P[pc]? = some (.ret none)) :
    execM₀ cfg fuel P l base pc st = mtick cfg fuel st (fun _ st1 => .ret .null st1) := by
  rw [execM₀]; simp only [h]
  cases fuel with
  | zero => rfl
  | succ f => simp only [mtick] <;> split <;> rfl

theorem exec_ret_some (fuel : Nat) (P : List Stmt) (l : Option Env) (base : Option String) (pc : Nat) (st : State W)
    (e : Expr) (h : P[pc]? = some (.ret (some e))) :
    execM₀ cfg fuel P l base pc st = mtick cfg fuel st (fun f st1 =>
      match evalExpr cfg (callValue₀ cfg f) l e st1 with
      | .ok v st2 => .ret v st2
      | .err e st2 => .err e st2
      | .oof => .oof) := by
  rw [execM₀]; simp only [h]
  cases fuel with
  | zero => rfl
  | succ f => simp only [mtick] <;> split <;> rfl

theorem exec_include (fuel : Nat) (P : List Stmt) (l : Option Env) (base : Option String) (pc : Nat) (st : State W)
    (incs : List IncludeScript) (h : P[pc]? = some (.include incs)) :
    execM₀ cfg fuel P l base pc st = mtick cfg fuel st (fun f st1 =>
      match execIncludes₀ cfg f base incs st1 with
      | .done st2 => execM₀ cfg f P l base (pc+1) st2
      | o => o) := by
  rw [execM₀]; simp only [h]
  cases fuel with
  | zero => rfl
  | succ f => simp only [mtick] <;> split <;> rfl

/-! ## positions in concatenated lists -/

theorem get_at {P A B : List Stmt} {x : Stmt} {n : Nat} (hP : P = A ++ x :: B) (hn : n = A.length) :
    P[n]? = some x := by subst hP; subst hn; simp

theorem findLabel_mid (A C : List Stmt) (l : Name) (h : Stmt.label l ∉ A) :
    findLabel (A ++ Stmt.label l :: C) l = some A.length := by
  unfold findLabel
  have hA : A.findIdx (isLabel l) = A.length := by
    apply List.findIdx_eq_length.mpr
    intro x hx
    cases x <;> simp [isLabel]
    rename_i l'
    intro hxe; subst hxe; exact h hx
  have h1 : (A ++ Stmt.label l :: C).findIdx (isLabel l) = A.length := by
    rw [List.findIdx_append, hA]; simp [List.findIdx_cons, isLabel]
  simp [h1]

theorem find_at {P A B : List Stmt} {l : Name} {n : Nat} (hP : P = A ++ Stmt.label l :: B) (hn : n = A.length)
    (hf : Stmt.label l ∉ A) : findLabel P l = some n := by
  subst hP; subst hn; exact findLabel_mid A B l hf

end C01

/-! ## label ranges of lowered code -/

namespace C01
open Machine Lower Structured

mutual
/-- no raw `label` / `jump` statements (they have no structured meaning; C01 quantifies over structured programs) -/
def NoRawS : SStmt → Prop
  | .label _ => False
  | .jump _ _ => False
  | .ite _ t e => NoRawB t ∧ NoRawE e
  | .while _ b => NoRawB b
  | .for _ _ _ b => NoRawB b
  | .func _ _ _ _ _ b => NoRawB b
  | _ => True
def NoRawB : List SStmt → Prop
  | [] => True
  | s :: ss => NoRawS s ∧ NoRawB ss
def NoRawE : SElse → Prop
  | .none => True
  | .els b => NoRawB b
  | .elif _ t e => NoRawB t ∧ NoRawE e
end

/-- every label of the (top-level) list is a generated one with index in `[i, j)` -/
def InRange (L : List Stmt) (i j : Nat) : Prop :=
  ∀ l, Stmt.label l ∈ L → ∃ K k, l = .gen K k ∧ i ≤ k ∧ k < j

/-- no generated label with index in `[i, j)` occurs in the (top-level) list -/
def Fresh (L : List Stmt) (i j : Nat) : Prop :=
  ∀ K k, i ≤ k → k < j → Stmt.label (.gen K k) ∉ L

theorem Fresh.mono {L : List Stmt} {i j i' j' : Nat} (h : Fresh L i j) (h1 : i ≤ i') (h2 : j' ≤ j) : Fresh L i' j' :=
  fun K k a b => h K k (by omega) (by omega)

theorem fresh_of_range {L : List Stmt} {a b i j : Nat} (h : InRange L a b) (hd : b ≤ i ∨ j ≤ a) : Fresh L i j := by
  intro K k h1 h2 hm
  obtain ⟨K', k', he, h3, h4⟩ := h _ hm
  cases he; omega

theorem Fresh.append {L M : List Stmt} {i j : Nat} (h1 : Fresh L i j) (h2 : Fresh M i j) : Fresh (L ++ M) i j := by
  intro K k a b hm; rcases List.mem_append.mp hm with h | h
  · exact h1 K k a b h
  · exact h2 K k a b h

theorem InRange.mono {L : List Stmt} {i j i' j' : Nat} (h : InRange L i j) (h1 : i' ≤ i) (h2 : j ≤ j') : InRange L i' j' := by
  intro l hl; obtain ⟨K, k, e, a, b⟩ := h l hl; exact ⟨K, k, e, by omega, by omega⟩

theorem InRange.append {L M : List Stmt} {i j : Nat} (h1 : InRange L i j) (h2 : InRange M i j) : InRange (L ++ M) i j := by
  intro l hl; rcases List.mem_append.mp hl with h | h
  · exact h1 l h
  · exact h2 l h

theorem inRange_nil (i j : Nat) : InRange [] i j := by intro l hl; simp at hl

theorem forHeader_labels (i : Nat) (v ixv : Name) (vals : Expr) (l : Name) :
    Stmt.label l ∈ forHeader i v ixv vals ↔ l = lLoop i := by
  simp [forHeader]

theorem forFooter_labels (i : Nat) (ixv : Name) (hc : Bool) (l : Name) :
    Stmt.label l ∈ forFooter i ixv hc → l = lCont i ∨ l = lDone i := by
  cases hc <;> simp [forFooter]
  intro h; exact Or.inr h

mutual
theorem lowerS_cnt (lp : Option (Name × Name)) : ∀ (s : SStmt) (i : Nat), (lowerS lp s i).2 = cntS s i
  | .expr _ _, _ => rfl
  | .ret _, _ => rfl
  | .label _, _ => rfl
  | .jump _ _, _ => rfl
  | .include _, _ => rfl
  | .brk, _ => rfl
  | .cont, _ => rfl
  | .ite c t e, i => by
      simp only [lowerS, cntS]; rw [lowerElse_cnt, lowerB_cnt]
  | .while c b, i => by simp only [lowerS, cntS]; rw [lowerB_cnt]
  | .for v ix vals b, i => by simp only [lowerS, cntS]; rw [lowerB_cnt]
  | .func _ _ _ _ _ b, i => by simp only [lowerS, cntS]; rw [lowerB_cnt]
theorem lowerB_cnt (lp : Option (Name × Name)) : ∀ (B : List SStmt) (i : Nat), (lowerB lp B i).2 = cntB B i
  | [], _ => rfl
  | s :: ss, i => by simp only [lowerB, cntB]; rw [lowerB_cnt, lowerS_cnt]
theorem lowerElse_cnt (lp : Option (Name × Name)) (cur done : Name) : ∀ (e : SElse) (i : Nat),
    (lowerElse lp cur done e i).2 = cntE e i
  | .none, _ => rfl
  | .els b, i => by simp only [lowerElse, cntE]; rw [lowerB_cnt]
  | .elif c t e, i => by simp only [lowerElse, cntE]; rw [lowerElse_cnt, lowerB_cnt]
end

mutual
theorem cntS_le : ∀ (s : SStmt) (i : Nat), i ≤ cntS s i
  | .expr _ _, _ => Nat.le_refl _
  | .ret _, _ => Nat.le_refl _
  | .label _, _ => Nat.le_refl _
  | .jump _ _, _ => Nat.le_refl _
  | .include _, _ => Nat.le_refl _
  | .brk, _ => Nat.le_refl _
  | .cont, _ => Nat.le_refl _
  | .ite c t e, i => by
      simp only [cntS]; have := cntB_le t (i+1); have := cntE_le e (cntB t (i+1)); omega
  | .while c b, i => by simp only [cntS]; have := cntB_le b (i+1); omega
  | .for v ix vals b, i => by simp only [cntS]; have := cntB_le b (i+1); omega
  | .func _ _ _ _ _ b, i => by simp only [cntS]; exact cntB_le b i
theorem cntB_le : ∀ (B : List SStmt) (i : Nat), i ≤ cntB B i
  | [], _ => Nat.le_refl _
  | s :: ss, i => by simp only [cntB]; have := cntS_le s i; have := cntB_le ss (cntS s i); omega
theorem cntE_le : ∀ (e : SElse) (i : Nat), i ≤ cntE e i
  | .none, _ => Nat.le_refl _
  | .els b, i => by simp only [cntE]; exact cntB_le b i
  | .elif c t e, i => by
      simp only [cntE]; have := cntB_le t (i+1); have := cntE_le e (cntB t (i+1)); omega
end

/-- an `if` chain strictly advances the counter -/
theorem cnt_ite_lt (t : List SStmt) (e : SElse) (i : Nat) : i < cntE e (cntB t (i+1)) := by
  have := cntB_le t (i+1); have := cntE_le e (cntB t (i+1)); omega

/-- labels of an else-chain: `cur`, `done`, or generated in `[i, cntE e i)` -/
def ElseRange (L : List Stmt) (cur done : Name) (i j : Nat) : Prop :=
  ∀ l, Stmt.label l ∈ L → l = cur ∨ l = done ∨ ∃ K k, l = .gen K k ∧ i ≤ k ∧ k < j

mutual
theorem lowerS_range (lp : Option (Name × Name)) : ∀ (s : SStmt) (i : Nat), NoRawS s →
    InRange (lowerS lp s i).1 i (cntS s i)
  | .expr _ _, i, _ => by intro l hl; simp [lowerS] at hl
  | .ret _, i, _ => by intro l hl; simp [lowerS] at hl
  | .label _, i, h => by simp [NoRawS] at h
  | .jump _ _, i, h => by simp [NoRawS] at h
  | .include _, i, _ => by intro l hl; simp [lowerS] at hl
  | .brk, i, _ => by intro l hl; cases lp <;> simp [lowerS] at hl
  | .cont, i, _ => by intro l hl; cases lp <;> simp [lowerS] at hl
  | .func _ _ _ _ _ b, i, _ => by intro l hl; simp [lowerS] at hl
  | .ite c t e, i, h => by
      obtain ⟨ht, he⟩ := h
      have h1 := lowerB_range lp t (i+1) ht
      have h2 := lowerElse_range lp (lIf i) (lDone i) e (cntB t (i+1)) he
      have hlt := cntB_le t (i+1)
      have hle := cntE_le e (cntB t (i+1))
      intro l hl
      simp only [lowerS, cntS, List.mem_append, List.mem_cons, List.not_mem_nil, or_false, reduceCtorEq, false_or] at hl ⊢
      rw [lowerB_cnt] at hl
      rcases hl with hl | hl
      · obtain ⟨K, k, rfl, a, b⟩ := h1 l hl; exact ⟨K, k, rfl, by omega, by omega⟩
      · rcases h2 l hl with rfl | rfl | ⟨K, k, rfl, a, b⟩
        · exact ⟨_, _, rfl, by omega, by omega⟩
        · exact ⟨_, _, rfl, by omega, by omega⟩
        · exact ⟨K, k, rfl, by omega, by omega⟩
  | .while c b, i, h => by
      have h1 := lowerB_range (some (lDone i, lLoop i)) b (i+1) h
      have hlt := cntB_le b (i+1)
      intro l hl
      simp only [lowerS, cntS, List.mem_append, List.mem_cons, List.not_mem_nil, or_false, reduceCtorEq, false_or,
        Stmt.label.injEq] at hl ⊢
      rcases hl with (hl | hl) | hl
      · subst hl; exact ⟨_, _, rfl, by omega, by omega⟩
      · obtain ⟨K, k, rfl, a, b⟩ := h1 l hl; exact ⟨K, k, rfl, by omega, by omega⟩
      · subst hl; exact ⟨_, _, rfl, by omega, by omega⟩
  | .for v ix vals b, i, h => by
      have h1 := lowerB_range (some (lDone i, lCont i)) b (i+1) h
      have hlt := cntB_le b (i+1)
      intro l hl
      simp only [lowerS, cntS, List.mem_append] at hl ⊢
      rcases hl with (hl | hl) | hl
      · rw [forHeader_labels] at hl; subst hl; exact ⟨_, _, rfl, by omega, by omega⟩
      · obtain ⟨K, k, rfl, a, b⟩ := h1 l hl; exact ⟨K, k, rfl, by omega, by omega⟩
      · rcases forFooter_labels _ _ _ _ hl with rfl | rfl
        · exact ⟨_, _, rfl, by omega, by omega⟩
        · exact ⟨_, _, rfl, by omega, by omega⟩
theorem lowerB_range (lp : Option (Name × Name)) : ∀ (B : List SStmt) (i : Nat), NoRawB B →
    InRange (lowerB lp B i).1 i (cntB B i)
  | [], i, _ => by intro l hl; simp [lowerB] at hl
  | s :: ss, i, h => by
      obtain ⟨hs, hss⟩ := h
      have h1 := lowerS_range lp s i hs
      have h2 := lowerB_range lp ss (cntS s i) hss
      have := cntS_le s i
      have := cntB_le ss (cntS s i)
      simp only [lowerB, cntB]
      rw [lowerS_cnt]
      exact (h1.mono (Nat.le_refl _) (by omega)).append (h2.mono (by omega) (Nat.le_refl _))
theorem lowerElse_range (lp : Option (Name × Name)) (cur done : Name) : ∀ (e : SElse) (i : Nat), NoRawE e →
    ElseRange (lowerElse lp cur done e i).1 cur done i (cntE e i)
  | .none, i, _ => by intro l hl; simp [lowerElse] at hl; exact Or.inr (Or.inl hl)
  | .els b, i, h => by
      have h1 := lowerB_range lp b i h
      intro l hl
      simp only [lowerElse, cntE, List.mem_append, List.mem_cons, List.not_mem_nil, or_false, reduceCtorEq, false_or,
        Stmt.label.injEq] at hl ⊢
      rcases hl with (hl | hl) | hl
      · exact Or.inl hl
      · exact Or.inr (Or.inr (h1 l hl))
      · exact Or.inr (Or.inl hl)
  | .elif c t e, i, h => by
      obtain ⟨ht, he⟩ := h
      have h1 := lowerB_range lp t (i+1) ht
      have h2 := lowerElse_range lp (lIf i) done e (cntB t (i+1)) he
      have hlt := cntB_le t (i+1)
      have hle := cntE_le e (cntB t (i+1))
      intro l hl
      simp only [lowerElse, cntE, List.mem_append, List.mem_cons, List.not_mem_nil, or_false, reduceCtorEq, false_or,
        Stmt.label.injEq] at hl ⊢
      rw [lowerB_cnt] at hl
      rcases hl with (hl | hl) | hl
      · exact Or.inl hl
      · obtain ⟨K, k, rfl, a, b⟩ := h1 l hl; exact Or.inr (Or.inr ⟨K, k, rfl, by omega, by omega⟩)
      · rcases h2 l hl with rfl | rfl | ⟨K, k, rfl, a, b⟩
        · exact Or.inr (Or.inr ⟨_, _, rfl, by omega, by omega⟩)
        · exact Or.inr (Or.inl rfl)
        · exact Or.inr (Or.inr ⟨K, k, rfl, by omega, by omega⟩)
end

end C01

/-! ## fuel monotonicity of the ticked semantics -/

namespace C01
open Machine Lower Structured
variable {W : Type}

/-- remaining fuel never exceeds the fuel given; `break` / `continue` cost at least one unit -/
def FuelOK (f : Nat) : TOut W → Prop
  | .norm _ _ f' => f' ≤ f
  | .brk _ _ f' => f' < f
  | .cont _ _ f' => f' < f
  | _ => True

/-- as `FuelOK`, but a normal exit also costs at least one unit -/
def StrictOK (f : Nat) : TOut W → Prop
  | .norm _ _ f' => f' < f
  | .brk _ _ f' => f' < f
  | .cont _ _ f' => f' < f
  | _ => True

/-- outcome of a loop: never `break` / `continue` -/
def LoopOK (f : Nat) : TOut W → Prop
  | .norm _ _ f' => f' ≤ f
  | .brk _ _ _ => False
  | .cont _ _ _ => False
  | _ => True

theorem FuelOK.mono {f f2 : Nat} {o : TOut W} (h : FuelOK f o) (h2 : f ≤ f2) : FuelOK f2 o := by
  cases o <;> simp_all [FuelOK] <;> omega

theorem StrictOK.mono {f f2 : Nat} {o : TOut W} (h : StrictOK f o) (h2 : f ≤ f2) : StrictOK f2 o := by
  cases o <;> simp_all [StrictOK] <;> omega

theorem StrictOK.toFuelOK {f : Nat} {o : TOut W} (h : StrictOK f o) : FuelOK f o := by
  cases o <;> simp_all [StrictOK, FuelOK] <;> omega

theorem FuelOK.strict_of_lt {f f2 : Nat} {o : TOut W} (h : FuelOK f o) (h2 : f < f2) : StrictOK f2 o := by
  cases o <;> simp_all [StrictOK, FuelOK] <;> omega

theorem LoopOK.toFuelOK {f : Nat} {o : TOut W} (h : LoopOK f o) : FuelOK f o := by
  cases o <;> simp_all [LoopOK, FuelOK]

theorem LoopOK.mono {f f2 : Nat} {o : TOut W} (h : LoopOK f o) (h2 : f ≤ f2) : LoopOK f2 o := by
  cases o <;> simp_all [LoopOK] <;> omega

theorem tick_strict (cfg : Config W) (f : Nat) (st : State W) (k : Nat → State W → TOut W)
    (h : ∀ f' st1, f' < f → FuelOK f' (k f' st1)) : StrictOK f (tick cfg f st k) := by
  cases f with
  | zero => simp [tick, StrictOK]
  | succ f =>
    simp only [tick]; split
    · simp [StrictOK]
    · exact (h f _ (Nat.lt_succ_self f)).strict_of_lt (Nat.lt_succ_self f)

theorem stmtExpr_strict (cfg : Config W) (cv : CallAt W) (n : Option Name) (e : Expr) (f : Nat) (l : Option Env) (st : State W) :
    StrictOK f (stmtExpr cfg cv n e f l st) := by
  unfold stmtExpr
  apply tick_strict; intro f' st1 _
  cases evalExpr cfg (cv f') l e st1 with
  | ok v st2 => cases n <;> simp [FuelOK]
  | err e st2 => simp [FuelOK]
  | oof => simp [FuelOK]

theorem stmtCond_strict (cfg : Config W) (cv : CallAt W) (c : Expr) (f : Nat) (l : Option Env) (st : State W)
    (k : Bool → Nat → State W → TOut W) (h : ∀ t f' st2, f' < f → FuelOK f' (k t f' st2)) :
    StrictOK f (stmtCond cfg cv c f l st k) := by
  unfold stmtCond
  apply tick_strict; intro f' st1 hlt
  cases evalExpr cfg (cv f') l c st1 with
  | ok v st2 => exact h _ f' st2 hlt
  | err e st2 => simp [FuelOK]
  | oof => simp [FuelOK]

theorem stmtSkip_strict (cfg : Config W) (f : Nat) (l : Option Env) (st : State W) : StrictOK f (stmtSkip cfg f l st) := by
  unfold stmtSkip; apply tick_strict; intro f' st1 _; simp [FuelOK]

/-- `match o with | .norm … => (a statement costing a tick) | o => o` keeps `FuelOK` -/
theorem fuelOK_then {f : Nat} {o : TOut W} (h : FuelOK f o) (g : Option Env → State W → Nat → TOut W)
    (hg : ∀ l st f', FuelOK f' (g l st f')) :
    FuelOK f (match o with | .norm l st f' => g l st f' | o' => o') := by
  cases o with
  | norm l st f' => simp only [FuelOK] at h; exact (hg l st f').mono h
  | brk l st f' => simpa using h
  | cont l st f' => simpa using h
  | ret v st => simp [FuelOK]
  | err e st => simp [FuelOK]
  | oof => simp [FuelOK]

theorem tick_loop (cfg : Config W) (f : Nat) (st : State W) (k : Nat → State W → TOut W)
    (h : ∀ f' st1, f' < f → LoopOK f' (k f' st1)) : LoopOK f (tick cfg f st k) := by
  cases f with
  | zero => simp [tick, LoopOK]
  | succ f =>
    simp only [tick]; split
    · simp [LoopOK]
    · exact (h f _ (Nat.lt_succ_self f)).mono (Nat.le_succ f)

theorem stmtCond_loop (cfg : Config W) (cv : CallAt W) (c : Expr) (f : Nat) (l : Option Env) (st : State W)
    (k : Bool → Nat → State W → TOut W) (h : ∀ t f' st2, f' < f → LoopOK f' (k t f' st2)) :
    LoopOK f (stmtCond cfg cv c f l st k) := by
  unfold stmtCond
  apply tick_loop; intro f' st1 hlt
  cases evalExpr cfg (cv f') l c st1 with
  | ok v st2 => exact h _ f' st2 hlt
  | err e st2 => simp [LoopOK]
  | oof => simp [LoopOK]

theorem stmtSkip_loop (cfg : Config W) (f : Nat) (l : Option Env) (st : State W) : LoopOK f (stmtSkip cfg f l st) := by
  unfold stmtSkip; apply tick_loop; intro f' st1 _; simp [LoopOK]

theorem loopOK_then {f : Nat} {o : TOut W} (h : StrictOK f o ∨ FuelOK f o) (hnb : ∀ l st f', o ≠ .brk l st f') (hnc : ∀ l st f', o ≠ .cont l st f')
    (g : Option Env → State W → Nat → TOut W) (hg : ∀ l st f', LoopOK f' (g l st f')) :
    LoopOK f (match o with | .norm l st f' => g l st f' | o' => o') := by
  cases o with
  | norm l st f' =>
    have : f' ≤ f := by rcases h with h | h <;> simp [StrictOK, FuelOK] at h <;> omega
    exact (hg l st f').mono this
  | brk l st f' => exact absurd rfl (hnb l st f')
  | cont l st f' => exact absurd rfl (hnc l st f')
  | ret v st => simp [LoopOK]
  | err e st => simp [LoopOK]
  | oof => simp [LoopOK]

theorem loopW_ok (cfg : Config W) (cv : CallAt W) (c : Expr) (body : Nat → Option Env → State W → TOut W)
    (hb : ∀ f l st, FuelOK f (body f l st)) :
    ∀ n f l st, LoopOK f (loopW cfg cv c body n f l st) := by
  intro n
  induction n with
  | zero => intro f l st; simp [loopW, LoopOK]
  | succ n ih =>
    intro f l st
    simp only [loopW]
    have hb1 := hb f l st
    cases hO : body f l st with
    | norm l1 st1 f1 =>
      simp only [hO, FuelOK] at hb1
      refine LoopOK.mono ?_ hb1
      apply stmtCond_loop; intro t f' st2 _
      cases t
      · simpa using stmtSkip_loop cfg f' l1 st2
      · simpa using ih f' l1 st2
    | brk l1 st1 f1 => simp only [hO, FuelOK] at hb1; simp [LoopOK]; omega
    | cont l1 st1 f1 => simp only [hO, FuelOK] at hb1; exact (ih f1 l1 st1).mono (by omega)
    | ret v st1 => simp [LoopOK]
    | err e st1 => simp [LoopOK]
    | oof => simp [LoopOK]

theorem stmtExpr_cases (cfg : Config W) (cv : CallAt W) (n : Option Name) (e : Expr) (f : Nat) (l : Option Env) (st : State W) :
    (∃ l' st' f', stmtExpr cfg cv n e f l st = .norm l' st' f' ∧ f' < f) ∨
    (∃ er st', stmtExpr cfg cv n e f l st = .err er st') ∨ stmtExpr cfg cv n e f l st = .oof := by
  unfold stmtExpr
  cases f with
  | zero => simp [tick]
  | succ f =>
    simp only [tick]; split
    · exact Or.inr (Or.inl ⟨_, _, rfl⟩)
    · cases evalExpr cfg (cv f) l e { st with count := st.count + 1 } with
      | ok v st2 =>
        cases n with
        | none => exact Or.inl ⟨_, _, _, rfl, Nat.lt_succ_self f⟩
        | some n => exact Or.inl ⟨_, _, _, rfl, Nat.lt_succ_self f⟩
      | err er st2 => exact Or.inr (Or.inl ⟨_, _, rfl⟩)
      | oof => exact Or.inr (Or.inr rfl)

theorem loopF_ok (cfg : Config W) (cv : CallAt W) (i : Nat) (v ixv : Name) (hc : Bool)
    (body : Nat → Option Env → State W → TOut W) (hb : ∀ f l st, FuelOK f (body f l st)) :
    ∀ n f l st, LoopOK f (loopF cfg cv i v ixv hc body n f l st) := by
  intro n
  induction n with
  | zero => intro f l st; simp [loopF, LoopOK]
  | succ n ih =>
    intro f l st
    simp only [loopF]
    rcases stmtExpr_cases cfg cv (some v) (.function fnArrayGet [.variable (vValues i), .variable ixv]) f l st with
      ⟨l0, st0, f0, h0, hlt⟩ | ⟨er, st', h0⟩ | h0
    · rw [h0]; simp only
      -- the part after `label continue`
      have hAfter : ∀ l2 st2 f2, LoopOK f2
          (match stmtExpr cfg cv (some ixv) (.binary .add (.variable ixv) (.number 1)) f2 l2 st2 with
          | .norm l3 st3 f3 =>
              stmtCond cfg cv (.binary .lt (.variable ixv) (.variable (vLength i))) f3 l3 st3 fun taken f4 st4 =>
                if taken then loopF cfg cv i v ixv hc body n f4 l3 st4 else stmtSkip cfg f4 l3 st4
          | o => o) := by
        intro l2 st2 f2
        rcases stmtExpr_cases cfg cv (some ixv) (.binary .add (.variable ixv) (.number 1)) f2 l2 st2 with
          ⟨l3, st3, f3, h3, hlt3⟩ | ⟨er, st', h3⟩ | h3
        · rw [h3]; simp only
          refine LoopOK.mono ?_ (Nat.le_of_lt hlt3)
          apply stmtCond_loop; intro t f' st4 _
          cases t
          · simpa using stmtSkip_loop cfg f' l3 st4
          · simpa using ih f' l3 st4
        · rw [h3]; simp [LoopOK]
        · rw [h3]; simp [LoopOK]
      have hFooter : ∀ (viaCont : Bool) l1 st1 f1, LoopOK f1
          (if hc && !viaCont then
            match stmtSkip cfg f1 l1 st1 with
            | .norm l2 st2 f2 =>
              (match stmtExpr cfg cv (some ixv) (.binary .add (.variable ixv) (.number 1)) f2 l2 st2 with
              | .norm l3 st3 f3 =>
                  stmtCond cfg cv (.binary .lt (.variable ixv) (.variable (vLength i))) f3 l3 st3 fun taken f4 st4 =>
                    if taken then loopF cfg cv i v ixv hc body n f4 l3 st4 else stmtSkip cfg f4 l3 st4
              | o => o)
            | o => o
          else
            (match stmtExpr cfg cv (some ixv) (.binary .add (.variable ixv) (.number 1)) f1 l1 st1 with
              | .norm l3 st3 f3 =>
                  stmtCond cfg cv (.binary .lt (.variable ixv) (.variable (vLength i))) f3 l3 st3 fun taken f4 st4 =>
                    if taken then loopF cfg cv i v ixv hc body n f4 l3 st4 else stmtSkip cfg f4 l3 st4
              | o => o)) := by
        intro viaCont l1 st1 f1
        split
        · have hs := stmtSkip_strict cfg f1 l1 st1
          cases hS : stmtSkip cfg f1 l1 st1 with
          | norm l2 st2 f2 =>
            rw [hS] at hs; simp only [StrictOK] at hs
            exact (hAfter l2 st2 f2).mono (Nat.le_of_lt hs)
          | brk l2 st2 f2 => unfold stmtSkip tick at hS; cases f1 <;> simp at hS; split at hS <;> simp at hS
          | cont l2 st2 f2 => unfold stmtSkip tick at hS; cases f1 <;> simp at hS; split at hS <;> simp at hS
          | ret v st2 => simp [LoopOK]
          | err e st2 => simp [LoopOK]
          | oof => simp [LoopOK]
        · exact hAfter l1 st1 f1
      have hb1 := hb f0 l0 st0
      cases hO : body f0 l0 st0 with
      | norm l1 st1 f1 =>
        simp only [hO, FuelOK] at hb1
        exact (hFooter false l1 st1 f1).mono (by omega)
      | cont l1 st1 f1 =>
        simp only [hO, FuelOK] at hb1
        exact (hFooter true l1 st1 f1).mono (by omega)
      | brk l1 st1 f1 => simp only [hO, FuelOK] at hb1; simp [LoopOK]; omega
      | ret v st1 => simp [LoopOK]
      | err e st1 => simp [LoopOK]
      | oof => simp [LoopOK]
    · rw [h0]; simp [LoopOK]
    · rw [h0]; simp [LoopOK]

end C01

namespace C01
open Machine Lower Structured
variable {W : Type}

theorem tick_fuelOK (cfg : Config W) (f : Nat) (st : State W) (k : Nat → State W → TOut W)
    (h : ∀ f' st1, f' < f → FuelOK f' (k f' st1)) : FuelOK f (tick cfg f st k) :=
  (tick_strict cfg f st k h).toFuelOK

mutual
theorem execTS_ok (cfg : Config W) (cv : CallAt W) (ei : InclAt W) (il : Bool) :
    ∀ (s : SStmt) (i f : Nat) (l : Option Env) (base : Option String) (st : State W),
      FuelOK f (execTS cfg cv ei il s i f l base st)
  | .expr n e, i, f, l, base, st => by rw [execTS]; exact (stmtExpr_strict ..).toFuelOK
  | .ret none, i, f, l, base, st => by rw [execTS]; apply tick_fuelOK; intros; simp [FuelOK]
  | .ret (some e), i, f, l, base, st => by
      rw [execTS]; apply tick_fuelOK; intro f' st1 _
      cases evalExpr cfg (cv f') l e st1 <;> simp [FuelOK]
  | .label _, i, f, l, base, st => by rw [execTS]; exact (stmtSkip_strict ..).toFuelOK
  | .jump _ _, i, f, l, base, st => by rw [execTS]; simp [FuelOK]
  | .include incs, i, f, l, base, st => by
      rw [execTS]; apply tick_fuelOK; intro f' st1 _
      cases ei f' base incs st1 <;> simp [FuelOK]
  | .brk, i, f, l, base, st => by
      rw [execTS]; split
      · cases f with
        | zero => simp [tick, FuelOK]
        | succ f => simp only [tick]; split <;> simp [FuelOK]
      · simp [FuelOK]
  | .cont, i, f, l, base, st => by
      rw [execTS]; split
      · cases f with
        | zero => simp [tick, FuelOK]
        | succ f => simp only [tick]; split <;> simp [FuelOK]
      · simp [FuelOK]
  | .func _ _ _ _ _ _, i, f, l, base, st => by rw [execTS]; apply tick_fuelOK; intros; simp [FuelOK]
  | .ite c t e, i, f, l, base, st => by
      rw [execTS]
      apply StrictOK.toFuelOK; apply stmtCond_strict; intro tk f' st1 _
      cases tk
      · simp only [Bool.false_eq_true, if_false]
        exact fuelOK_then (execTB_ok cfg cv ei il t (i+1) f' l base st1) _ (fun l2 st2 f2 => (stmtSkip_strict ..).toFuelOK)
      · simp only [if_true]; exact execTE_ok cfg cv ei il e _ f' l base st1
  | .while c b, i, f, l, base, st => by
      rw [execTS]
      apply StrictOK.toFuelOK; apply stmtCond_strict; intro tk f' st1 _
      cases tk
      · simp only [Bool.false_eq_true, if_false]
        refine fuelOK_then (stmtSkip_strict cfg f' l st1).toFuelOK _ ?_
        intro l2 st2 f2
        exact (loopW_ok cfg cv c _ (fun f l s => execTB_ok cfg cv ei true b (i+1) f l base s) (f2+1) f2 l2 st2).toFuelOK
      · simp [FuelOK]
  | .for v ix vals b, i, f, l, base, st => by
      rw [execTS]
      refine fuelOK_then (stmtExpr_strict ..).toFuelOK _ ?_
      intro l1 st1 f1
      refine fuelOK_then (stmtExpr_strict ..).toFuelOK _ ?_
      intro l2 st2 f2
      apply StrictOK.toFuelOK; apply stmtCond_strict; intro tk f3 st3 _
      cases tk
      · simp only [Bool.false_eq_true, if_false]
        refine fuelOK_then (stmtExpr_strict ..).toFuelOK _ ?_
        intro l4 st4 f4
        refine fuelOK_then (stmtSkip_strict ..).toFuelOK _ ?_
        intro l5 st5 f5
        exact (loopF_ok cfg cv i v _ _ _ (fun f l s => execTB_ok cfg cv ei true b (i+1) f l base s) (f5+1) f5 l5 st5).toFuelOK
      · simp [FuelOK]
theorem execTB_ok (cfg : Config W) (cv : CallAt W) (ei : InclAt W) (il : Bool) :
    ∀ (B : List SStmt) (i f : Nat) (l : Option Env) (base : Option String) (st : State W),
      FuelOK f (execTB cfg cv ei il B i f l base st)
  | [], i, f, l, base, st => by rw [execTB]; simp [FuelOK]
  | s :: ss, i, f, l, base, st => by
      rw [execTB]
      exact fuelOK_then (execTS_ok cfg cv ei il s i f l base st) _ (fun l1 st1 f1 => execTB_ok cfg cv ei il ss _ f1 l1 base st1)
theorem execTE_ok (cfg : Config W) (cv : CallAt W) (ei : InclAt W) (il : Bool) :
    ∀ (e : SElse) (i f : Nat) (l : Option Env) (base : Option String) (st : State W),
      FuelOK f (execTE cfg cv ei il e i f l base st)
  | .none, i, f, l, base, st => by rw [execTE]; simp [FuelOK]
  | .els b, i, f, l, base, st => by
      rw [execTE]
      exact fuelOK_then (execTB_ok cfg cv ei il b i f l base st) _ (fun l1 st1 f1 => (stmtSkip_strict ..).toFuelOK)
  | .elif c t e, i, f, l, base, st => by
      rw [execTE]
      apply StrictOK.toFuelOK; apply stmtCond_strict; intro tk f' st1 _
      cases tk
      · simp only [Bool.false_eq_true, if_false]
        exact fuelOK_then (execTB_ok cfg cv ei il t (i+1) f' l base st1) _ (fun l2 st2 f2 => (stmtSkip_strict ..).toFuelOK)
      · simp only [if_true]; exact execTE_ok cfg cv ei il e _ f' l base st1
end

end C01
