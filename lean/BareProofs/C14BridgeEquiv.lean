import BareProofs.C14BridgeLemmas

/-!
# C14Bridge — the equality of C14 (`Json.Equiv`: same canonical form) is the equality of C11 (`valueCompare = 0`)

* `equiv_of_cmp_zero`     closed values that compare equal have `Json.Equiv` JSON values (all values, no hypothesis): `==` values
                          print the same JSON text
* `cmp_zero_of_equiv`     conversely on *plain* values (`Plain`: no function, regex or datetime — which `value_json` collapses
                          into the string `<function>` / `null` / a string — and integral numbers only, HostImpl's text for
                          other numbers being a truncated expansion): equal canonical JSON ⇒ `valueCompare = 0`
-/

namespace C14Bridge
open Compare

/-! ## helper: the lexicographic loops at 0 -/

theorem cmpList_zero {γ : Type} (F : PValue → γ) : ∀ (xs ys : List PValue), cmpList xs ys = 0 →
    (∀ x ∈ xs, ∀ y, valueCompare x y = 0 → F x = F y) → xs.map F = ys.map F
  | [], [], _, _ => rfl
  | [], _ :: _, h, _ => by simp [cmpList] at h
  | _ :: _, [], h, _ => by simp [cmpList] at h
  | x :: xs, y :: ys, h, H => by
    simp only [cmpList, bne_iff_ne, ne_eq] at h
    by_cases h0 : valueCompare x y = 0
    · simp only [h0, not_true_eq_false, if_false] at h
      simp only [List.map_cons, H x (by simp) y h0, cmpList_zero F xs ys h (fun x' hx' => H x' (by simp [hx']))]
    · simp only [h0, not_false_eq_true, if_true] at h

theorem cmpItems_zero {γ : Type} (F : PValue → γ) : ∀ (xs ys : List (String × PValue)), cmpItems xs ys = 0 →
    (∀ p ∈ xs, ∀ y, valueCompare p.2 y = 0 → F p.2 = F y) →
    xs.map (fun kv => (kv.1.toList, F kv.2)) = ys.map (fun kv => (kv.1.toList, F kv.2))
  | [], [], _, _ => rfl
  | [], _ :: _, h, _ => by simp [cmpItems] at h
  | _ :: _, [], h, _ => by simp [cmpItems] at h
  | (k1, v1) :: xs, (k2, v2) :: ys, h, H => by
    simp only [cmpItems, bne_iff_ne, ne_eq] at h
    by_cases hk : strCompare k1 k2 = 0
    · simp only [hk, not_true_eq_false, if_false] at h
      by_cases h0 : valueCompare v1 v2 = 0
      · simp only [h0, not_true_eq_false, if_false] at h
        have ek := (C11.str_cmp_zero_iff k1 k2).mp hk
        simp only [List.map_cons, ek, H (k1, v1) (by simp) v2 h0,
          cmpItems_zero F xs ys h (fun p hp => H p (by simp [hp]))]
      · simp only [h0, not_false_eq_true, if_true] at h
    · simp only [hk, not_false_eq_true, if_true] at h

theorem cmpList_of_map_eq (F : PValue → Json.JValue) : ∀ (xs ys : List PValue), xs.map F = ys.map F →
    (∀ x ∈ xs, ∀ y ∈ ys, F x = F y → valueCompare x y = 0) → cmpList xs ys = 0
  | [], [], _, _ => by simp [cmpList]
  | [], _ :: _, h, _ => by simp at h
  | _ :: _, [], h, _ => by simp at h
  | x :: xs, y :: ys, h, H => by
    simp only [List.map_cons, List.cons.injEq] at h
    have h0 := H x (by simp) y (by simp) h.1
    simp only [cmpList, h0, bne_self_eq_false, Bool.false_eq_true, if_false]
    exact cmpList_of_map_eq F xs ys h.2 (fun x' hx' y' hy' => H x' (by simp [hx']) y' (by simp [hy']))

theorem cmpItems_of_map_eq (F : PValue → Json.JValue) : ∀ (xs ys : List (String × PValue)),
    xs.map (fun kv => (kv.1.toList, F kv.2)) = ys.map (fun kv => (kv.1.toList, F kv.2)) →
    (∀ p ∈ xs, ∀ q ∈ ys, F p.2 = F q.2 → valueCompare p.2 q.2 = 0) → cmpItems xs ys = 0
  | [], [], _, _ => by simp [cmpItems]
  | [], _ :: _, h, _ => by simp at h
  | _ :: _, [], h, _ => by simp at h
  | (k1, v1) :: xs, (k2, v2) :: ys, h, H => by
    simp only [List.map_cons, List.cons.injEq, Prod.mk.injEq] at h
    have ek : k1 = k2 := String.toList_inj.mp h.1.1
    have h0 := H (k1, v1) (by simp) (k2, v2) (by simp) h.1.2
    have hk : strCompare k1 k2 = 0 := (C11.str_cmp_zero_iff k1 k2).mpr ek
    simp only [cmpItems, hk, h0, bne_self_eq_false, Bool.false_eq_true, if_false]
    exact cmpItems_of_map_eq F xs ys h.2 (fun p hp q hq => H p (by simp [hp]) q (by simp [hq]))

/-! ## canonical JSON of a closed value -/

theorem norm_arr (xs : List PValue) : Json.norm (toJson (.arr xs)) = .arr (xs.map fun x => Json.norm (toJson x)) := by
  simp only [toJson, Json.norm, C14.normList_eq, toJsonList_eq, List.map_map]; rfl

theorem norm_obj (kvs : List (String × PValue)) :
    Json.norm (toJson (.obj kvs)) = .obj ((sortItems kvs).map fun kv => (kv.1.toList, Json.norm (toJson kv.2))) := by
  simp only [toJson, Json.norm, C14.normMembers_eq, toJsonItems_eq, List.map_map]
  rw [← sortKeys_map (fun kv : String × PValue => (kv.1.toList, Json.norm (toJson kv.2))) (fun _ => rfl)]
  rfl

theorem rank_eq_of_cmp_zero (a b : PValue) (h : valueCompare a b = 0) : C11.rank a = C11.rank b := by
  rcases Nat.lt_trichotomy (C11.rank a) (C11.rank b) with hr | hr | hr
  · rw [C11.cmp_rank_lt a b hr] at h; omega
  · exact hr
  · rw [C11.cmp_rank_gt a b hr] at h; omega

theorem tri_zero {lt eq : Bool} (h : tri lt eq = 0) : lt = false ∧ eq = true := by
  cases lt <;> cases eq <;> simp [tri] at h ⊢

/-! ## compare-equal ⇒ JSON-equivalent -/

/-- values the comparison finds equal have the same canonical JSON value (hence the same JSON text) -/
theorem equiv_of_cmp_zero : ∀ a b : PValue, valueCompare a b = 0 → Json.norm (toJson a) = Json.norm (toJson b)
  | .null, b, h => by
    have hr := rank_eq_of_cmp_zero _ b h
    cases b <;> simp [C11.rank] at hr; rfl
  | .bool x, b, h => by
    have hr := rank_eq_of_cmp_zero _ b h
    cases b <;> simp [C11.rank] at hr
    rename_i y
    simp only [valueCompare] at h
    have := (tri_zero h).2
    have : x = y := by simpa using this
    subst this; rfl
  | .num x, b, h => by
    have hr := rank_eq_of_cmp_zero _ b h
    cases b <;> simp [C11.rank] at hr
    rename_i y
    have := ((C11.num_cmp x y).2.1).mp h
    subst this; rfl
  | .str x, b, h => by
    have hr := rank_eq_of_cmp_zero _ b h
    cases b <;> simp [C11.rank] at hr
    rename_i y
    simp only [valueCompare] at h
    have := (C11.str_cmp_zero_iff x y).mp h
    subst this; rfl
  | .dt x, b, h => by
    have hr := rank_eq_of_cmp_zero _ b h
    cases b <;> simp [C11.rank] at hr
    rename_i y
    simp only [valueCompare] at h
    have := (tri_zero h).2
    have : x = y := by simpa using this
    subst this; rfl
  | .fn x, b, h => by
    have hr := rank_eq_of_cmp_zero _ b h
    cases b <;> simp [C11.rank] at hr; rfl
  | .regex x, b, h => by
    have hr := rank_eq_of_cmp_zero _ b h
    cases b <;> simp [C11.rank] at hr; rfl
  | .arr xs, b, h => by
    have hr := rank_eq_of_cmp_zero _ b h
    cases b <;> simp [C11.rank] at hr
    rename_i ys
    simp only [valueCompare] at h
    rw [norm_arr, norm_arr]
    congr 1
    exact cmpList_zero (fun v => Json.norm (toJson v)) xs ys h (fun x _ y hxy => equiv_of_cmp_zero x y hxy)
  | .obj kvs, b, h => by
    have hr := rank_eq_of_cmp_zero _ b h
    cases b <;> simp [C11.rank] at hr
    rename_i kvs'
    simp only [valueCompare] at h
    rw [norm_obj, norm_obj]
    congr 1
    exact cmpItems_zero (fun v => Json.norm (toJson v)) _ _ h (fun p hp y hxy =>
      have _hm : p ∈ kvs := (sortItems_perm kvs).mem_iff.mp hp
      equiv_of_cmp_zero p.2 y hxy)
termination_by a => sizeOf a
decreasing_by
  · simp_wf
    have := List.sizeOf_lt_of_mem ‹_ ∈ xs›
    omega
  · simp_wf
    have h1 := List.sizeOf_lt_of_mem _hm
    have h2 : sizeOf p.2 < sizeOf p := by cases p; simp_wf; omega
    omega


/-! ## compare-equal ⇒ the same text -/

/-- the compact text of an array from the texts of its elements -/
def arrBody : List Json.Str → Json.Str
  | [] => ['[', ']']
  | x :: xs => '[' :: Json.joinItems [','] (x :: xs) ++ [']']

theorem enc_arr (lvl : Nat) (xs : List PValue) : enc lvl (.arr xs) = arrBody (xs.map (enc (lvl+1))) := by
  cases xs with
  | nil => simp [enc, toJson, toJsonList, Json.encWith, arrBody]
  | cons x xs =>
    have hh : toJsonList (x :: xs) = toJson x :: toJsonList xs := by simp [toJsonList]
    simp only [enc, toJson]
    rw [hh, Json.encWith, ← hh, encList_eq, toJsonList_eq, List.map_map]
    simp only [Json.nl, if_true, List.append_nil, arrBody, List.map_cons]
    rfl

/-- values the comparison finds equal have the same compact JSON text (at every nesting level) … -/
theorem enc_eq_of_cmp_zero : ∀ (a b : PValue), valueCompare a b = 0 → ∀ lvl, enc lvl a = enc lvl b
  | .null, b, h, lvl => by
    have hr := rank_eq_of_cmp_zero _ b h
    cases b <;> simp [C11.rank] at hr; rfl
  | .bool x, b, h, lvl => by
    have hr := rank_eq_of_cmp_zero _ b h
    cases b <;> simp [C11.rank] at hr
    rename_i y
    simp only [valueCompare] at h
    have := (tri_zero h).2
    have : x = y := by simpa using this
    subst this; rfl
  | .num x, b, h, lvl => by
    have hr := rank_eq_of_cmp_zero _ b h
    cases b <;> simp [C11.rank] at hr
    rename_i y
    have := ((C11.num_cmp x y).2.1).mp h
    subst this; rfl
  | .str x, b, h, lvl => by
    have hr := rank_eq_of_cmp_zero _ b h
    cases b <;> simp [C11.rank] at hr
    rename_i y
    simp only [valueCompare] at h
    have := (C11.str_cmp_zero_iff x y).mp h
    subst this; rfl
  | .dt x, b, h, lvl => by
    have hr := rank_eq_of_cmp_zero _ b h
    cases b <;> simp [C11.rank] at hr
    rename_i y
    simp only [valueCompare] at h
    have := (tri_zero h).2
    have : x = y := by simpa using this
    subst this; rfl
  | .fn x, b, h, lvl => by
    have hr := rank_eq_of_cmp_zero _ b h
    cases b <;> simp [C11.rank] at hr; rfl
  | .regex x, b, h, lvl => by
    have hr := rank_eq_of_cmp_zero _ b h
    cases b <;> simp [C11.rank] at hr; rfl
  | .arr xs, b, h, lvl => by
    have hr := rank_eq_of_cmp_zero _ b h
    cases b <;> simp [C11.rank] at hr
    rename_i ys
    simp only [valueCompare] at h
    rw [enc_arr, enc_arr]
    congr 1
    exact cmpList_zero (enc (lvl+1)) xs ys h (fun x _ y hxy => enc_eq_of_cmp_zero x y hxy (lvl+1))
  | .obj kvs, b, h, lvl => by
    have hr := rank_eq_of_cmp_zero _ b h
    cases b <;> simp [C11.rank] at hr
    rename_i kvs'
    simp only [valueCompare] at h
    rw [enc_obj, enc_obj]
    have := cmpItems_zero (enc (lvl+1)) _ _ h (fun p hp y hxy =>
      have _hm : p ∈ kvs := (sortItems_perm kvs).mem_iff.mp hp
      enc_eq_of_cmp_zero p.2 y hxy (lvl+1))
    have := congrArg (List.map (Json.member 0)) this
    simp only [List.map_map] at this
    exact congrArg (fun l => '{' :: Json.joinItems [','] l ++ ['}']) this
termination_by a => sizeOf a
decreasing_by
  · simp_wf
    have := List.sizeOf_lt_of_mem ‹_ ∈ xs›
    omega
  · simp_wf
    have h1 := List.sizeOf_lt_of_mem _hm
    have h2 : sizeOf p.2 < sizeOf p := by cases p; simp_wf; omega
    omega

/-! ## JSON-equivalent ⇒ compare-equal, on plain values -/

mutual
/-- no function, regex or datetime anywhere, and every number integral -/
def Plain : PValue → Bool
  | .num q => q.den == 1
  | .dt _ => false
  | .fn _ => false
  | .regex _ => false
  | .arr xs => PlainList xs
  | .obj kvs => PlainItems kvs
  | _ => true
def PlainList : List PValue → Bool
  | [] => true
  | x :: xs => Plain x && PlainList xs
def PlainItems : List (String × PValue) → Bool
  | [] => true
  | (_, v) :: rest => Plain v && PlainItems rest
end

theorem plainList_mem : ∀ (xs : List PValue), PlainList xs = true → ∀ x ∈ xs, Plain x = true
  | [], _, _, h => by simp at h
  | y :: ys, hp, x, h => by
    simp only [PlainList, Bool.and_eq_true] at hp
    rcases List.mem_cons.mp h with rfl | h
    · exact hp.1
    · exact plainList_mem ys hp.2 x h

theorem plainItems_mem : ∀ (kvs : List (String × PValue)), PlainItems kvs = true → ∀ p ∈ kvs, Plain p.2 = true
  | [], _, _, h => by simp at h
  | (k, v) :: rest, hp, p, h => by
    simp only [PlainItems, Bool.and_eq_true] at hp
    rcases List.mem_cons.mp h with rfl | h
    · exact hp.1
    · exact plainItems_mem rest hp.2 p h

/-- on plain values, the same canonical JSON value means the comparison finds them equal -/
theorem cmp_zero_of_equiv : ∀ a b : PValue, Plain a = true → Plain b = true →
    Json.norm (toJson a) = Json.norm (toJson b) → valueCompare a b = 0
  | .dt _, _, ha, _, _ => by simp [Plain] at ha
  | .fn _, _, ha, _, _ => by simp [Plain] at ha
  | .regex _, _, ha, _, _ => by simp [Plain] at ha
  | .null, b, _, hb, h => by
    cases b <;> first | (simp [Plain] at hb; done) | (simp [toJson, Json.norm] at h; done) | exact C11.cmp_refl _
  | .bool x, b, _, hb, h => by
    cases b <;> first | (simp [Plain] at hb; done) | (simp [toJson, Json.norm] at h; done) | skip
    rename_i y
    have : x = y := by simpa [toJson, Json.norm] using h
    subst this; exact C11.cmp_refl _
  | .num x, b, ha, hb, h => by
    cases b <;> first | (simp [Plain] at hb; done) | (simp [toJson, Json.norm] at h; done) | skip
    rename_i y
    have hx : x.den = 1 := by simpa [Plain] using ha
    have hy : y.den = 1 := by simpa [Plain] using hb
    have hn : x.num = y.num := by simpa [toJson, Json.norm, numJ, hx, hy, Json.normNum] using h
    have : x = y := Rat.ext hn (by rw [hx, hy])
    subst this; exact C11.cmp_refl _
  | .str x, b, _, hb, h => by
    cases b <;> first | (simp [Plain] at hb; done) | (simp [toJson, Json.norm] at h; done) | skip
    rename_i y
    have : x = y := by
      have : x.toList = y.toList := by simpa [toJson, Json.norm] using h
      exact String.toList_inj.mp this
    subst this; exact C11.cmp_refl _
  | .arr xs, b, ha, hb, h => by
    cases b <;> first | (simp [Plain] at hb; done) | (simp [toJson, Json.norm] at h; done) | skip
    rename_i ys
    rw [norm_arr, norm_arr] at h
    simp only [Json.JValue.arr.injEq] at h
    simp only [valueCompare]
    have hpx := plainList_mem xs (by simpa [Plain] using ha)
    have hpy := plainList_mem ys (by simpa [Plain] using hb)
    exact cmpList_of_map_eq (fun v => Json.norm (toJson v)) xs ys h
      (fun x hx y hy hxy => cmp_zero_of_equiv x y (hpx x hx) (hpy y hy) hxy)
  | .obj kvs, b, ha, hb, h => by
    cases b <;> first | (simp [Plain] at hb; done) | (simp [toJson, Json.norm] at h; done) | skip
    rename_i kvs'
    rw [norm_obj, norm_obj] at h
    simp only [Json.JValue.obj.injEq] at h
    simp only [valueCompare]
    have hpx := plainItems_mem kvs (by simpa [Plain] using ha)
    have hpy := plainItems_mem kvs' (by simpa [Plain] using hb)
    exact cmpItems_of_map_eq (fun v => Json.norm (toJson v)) _ _ h (fun p hp q hq hpq =>
      have _hm : p ∈ kvs := (sortItems_perm kvs).mem_iff.mp hp
      cmp_zero_of_equiv p.2 q.2 (hpx p _hm) (hpy q ((sortItems_perm kvs').mem_iff.mp hq)) hpq)
termination_by a => sizeOf a
decreasing_by
  · simp_wf
    have := List.sizeOf_lt_of_mem ‹_ ∈ xs›
    omega
  · simp_wf
    have h1 := List.sizeOf_lt_of_mem _hm
    have h2 : sizeOf p.2 < sizeOf p := by cases p; simp_wf; omega
    omega

end C14Bridge
