import BareProofs.C11BridgeHostLib
import BareProofs.HostLibBridge

/-!
# C11Bridge, third comparison — `Lib.valueCompare` (the comparison inside the `Lib` library model)

`HostLib.hostLib` answers `arrayIndexOf` (value needle) with the `Lib` model, whose search compares with `Lib.valueCompare`
(`Lib.vcmp`, fuel `heap.length + 1`, `none` on dangling references) over `Lib.Value`s.  On the values of an `LWorld` that denote
*well-formed* closed values (`Compare.WFValue`: the keys of every object are pairwise different — `Lib.sortKV` is an insertion
sort from the right, `Compare.sortItems` one from the left; they agree exactly when no key repeats, which is always the case
for a Python `dict`) it is again `Compare.valueCompare`:

* `lib_compare_bridge`     `Lib.valueCompare w.heap (toLib a) (toLib b) = some (Compare.valueCompare pa pb)`
* `lib_compare_agrees`     … hence `Lib.valueCompare` and `HostImpl.compare?` (on the projection) give the same answer
* `hostLib_indexOf`, `hostLib_indexOf_agrees`, `hostLib_lastIndexOf`   the value-needle searches of `hostLib` (answered by `Lib`)
                           are `Compare.arrayIndexOf` / `Compare.arrayLastIndexOf` on the closed values
-/

namespace C11Bridge
open Machine HostLib

/-! ## primitive comparisons -/

theorem lib_strCmp : ∀ a b : List Char, Lib.strCmp a b = Compare.codeCmp (a.map Char.toNat) (b.map Char.toNat)
  | [], [] => rfl
  | [], _ :: _ => rfl
  | _ :: _, [] => rfl
  | x :: xs, y :: ys => by
    simp only [Lib.strCmp, List.map_cons, Compare.codeCmp, lib_strCmp xs ys]
    split
    · rfl
    · split
      · split
        · omega
        · rfl
      · have : x.toNat = y.toNat := by omega
        simp [this]

theorem lib_strCmp_str (x y : String) : Lib.strCmp x.toList y.toList = Compare.strCompare x y := lib_strCmp _ _

theorem lib_rcmp (x y : Rat) : Lib.rcmp x y = Compare.tri (x < y) (x = y) := by
  have e1 : Lib.rlt x y = decide (x < y) := by simp [Lib.rlt, Rat.lt_iff]
  have e2 : Lib.rlt y x = decide (y < x) := by simp [Lib.rlt, Rat.lt_iff]
  simp only [Lib.rcmp, e1, e2, Compare.tri, decide_eq_true_eq]
  by_cases h1 : x < y <;> by_cases h2 : y < x <;> by_cases h3 : x = y <;> simp only [h1, h2, h3, if_true, if_false] <;> grind

theorem lib_boolCmp (x y : Bool) : (if (x == y) = true then (0 : Int) else if x = true then 1 else -1) = Compare.tri (!x && y) (x == y) := by
  cases x <;> cases y <;> decide

theorem lib_dtCmp (x y : Int) : (if x < y then (-1 : Int) else if (x == y) = true then 0 else 1) = Compare.tri (x < y) (x = y) := by
  simp [Compare.tri]

theorem lib_typeName (v : Lib.Value) : Lib.typeName v = HostImpl.typeName (ofLib v) := by cases v <;> rfl

/-! ## cells of the projection -/

theorem toImpl_arr? (w : LWorld) (r : Nat) : w.toImpl.arr? r = (Lib.getArr w.heap r).map (·.map ofLib) := by
  simp only [HostImpl.World.arr?, LWorld.toImpl, Lib.getArr, List.getElem?_map]
  cases w.heap[r]? with
  | none => rfl
  | some c => cases c <;> rfl

theorem toImpl_obj? (w : LWorld) (r : Nat) :
    w.toImpl.obj? r = (Lib.getObj w.heap r).map (·.map fun kv => (kv.1, ofLib kv.2)) := by
  simp only [HostImpl.World.obj?, LWorld.toImpl, Lib.getObj, List.getElem?_map]
  cases w.heap[r]? with
  | none => rfl
  | some c => cases c <;> rfl

theorem mapOpt_map {α β γ : Type} (f : β → Option γ) (g : α → β) : ∀ l : List α, mapOpt f (l.map g) = mapOpt (fun x => f (g x)) l
  | [] => rfl
  | x :: xs => by simp only [List.map_cons, mapOpt, mapOpt_map f g xs]

/-! ## the two lexicographic loops -/

theorem lcmpWith_bridge (c : Lib.Value → Lib.Value → Option Int) (f g : Lib.Value → Option Compare.PValue)
    (H : ∀ x px y py, f x = some px → g y = some py → c x y = some (Compare.valueCompare px py)) :
    ∀ (xs : List Lib.Value) (pxs : List Compare.PValue) (ys : List Lib.Value) (pys : List Compare.PValue),
    mapOpt f xs = some pxs → mapOpt g ys = some pys → Lib.lcmpWith c xs ys = some (Compare.cmpList pxs pys)
  | [], pxs, [], pys, hx, hy => by
    rw [(mapOpt_nil_iff _ _).mp hx, (mapOpt_nil_iff _ _).mp hy]; simp [Lib.lcmpWith, Compare.cmpList]
  | [], pxs, y :: ys, pys, hx, hy => by
    obtain ⟨_, _, _, _, rfl⟩ := (mapOpt_cons_iff _ _ _ _).mp hy
    rw [(mapOpt_nil_iff _ _).mp hx]; simp [Lib.lcmpWith, Compare.cmpList]
  | x :: xs, pxs, [], pys, hx, hy => by
    obtain ⟨_, _, _, _, rfl⟩ := (mapOpt_cons_iff _ _ _ _).mp hx
    rw [(mapOpt_nil_iff _ _).mp hy]; simp [Lib.lcmpWith, Compare.cmpList]
  | x :: xs, pxs, y :: ys, pys, hx, hy => by
    obtain ⟨px, pxs', hx1, hx2, rfl⟩ := (mapOpt_cons_iff _ _ _ _).mp hx
    obtain ⟨py, pys', hy1, hy2, rfl⟩ := (mapOpt_cons_iff _ _ _ _).mp hy
    have ih := lcmpWith_bridge c f g H xs pxs' ys pys' hx2 hy2
    simp only [Lib.lcmpWith, Compare.cmpList, H x px y py hx1 hy1, ih]
    by_cases h0 : Compare.valueCompare px py = 0 <;> simp [h0]

/-- the item of a `Lib` object cell, value reified by `f` -/
def reifyItemL (f : Lib.Value → Option Compare.PValue) (kv : String × Lib.Value) : Option (String × Compare.PValue) :=
  (f kv.2).map fun p => (kv.1, p)

theorem reifyItemL_iff (f : Lib.Value → Option Compare.PValue) (kv : String × Lib.Value) (q : String × Compare.PValue) :
    reifyItemL f kv = some q ↔ q.1 = kv.1 ∧ f kv.2 = some q.2 := by
  obtain ⟨k, p⟩ := q
  simp only [reifyItemL]
  cases f kv.2 <;> simp [eq_comm]

theorem ocmpWith_bridge (c : Lib.Value → Lib.Value → Option Int) (f g : Lib.Value → Option Compare.PValue)
    (H : ∀ x px y py, f x = some px → g y = some py → c x y = some (Compare.valueCompare px py)) :
    ∀ (xs : List (String × Lib.Value)) (pxs : List (String × Compare.PValue)) (ys : List (String × Lib.Value))
      (pys : List (String × Compare.PValue)),
    mapOpt (reifyItemL f) xs = some pxs → mapOpt (reifyItemL g) ys = some pys →
    Lib.ocmpWith c xs ys = some (Compare.cmpItems pxs pys)
  | [], pxs, [], pys, hx, hy => by
    rw [(mapOpt_nil_iff _ _).mp hx, (mapOpt_nil_iff _ _).mp hy]; simp [Lib.ocmpWith, Compare.cmpItems]
  | [], pxs, y :: ys, pys, hx, hy => by
    obtain ⟨_, _, _, _, rfl⟩ := (mapOpt_cons_iff _ _ _ _).mp hy
    rw [(mapOpt_nil_iff _ _).mp hx]; simp [Lib.ocmpWith, Compare.cmpItems]
  | x :: xs, pxs, [], pys, hx, hy => by
    obtain ⟨_, _, _, _, rfl⟩ := (mapOpt_cons_iff _ _ _ _).mp hx
    rw [(mapOpt_nil_iff _ _).mp hy]; simp [Lib.ocmpWith, Compare.cmpItems]
  | (k1', x) :: xs, pxs, (k2', y) :: ys, pys, hx, hy => by
    obtain ⟨⟨k1, px⟩, pxs', hx1, hx2, rfl⟩ := (mapOpt_cons_iff _ _ _ _).mp hx
    obtain ⟨⟨k2, py⟩, pys', hy1, hy2, rfl⟩ := (mapOpt_cons_iff _ _ _ _).mp hy
    have ih := ocmpWith_bridge c f g H xs pxs' ys pys' hx2 hy2
    obtain ⟨e1, v1⟩ := (reifyItemL_iff _ _ _).mp hx1
    obtain ⟨e2, v2⟩ := (reifyItemL_iff _ _ _).mp hy1
    simp only at e1 e2 v1 v2
    subst e1 e2
    simp only [Lib.ocmpWith, Compare.cmpItems, lib_strCmp_str, H _ _ _ _ v1 v2, ih]
    by_cases hk : Compare.strCompare k1 k2 = 0
    · by_cases h0 : Compare.valueCompare px py = 0 <;> simp [hk, h0]
    · simp [hk]

/-! ## key sorting: `Lib.sortKV` (insertion from the right) against `Compare.sortItems` (from the left) -/

theorem insertKV_reify (f : Lib.Value → Option Compare.PValue) (kv : String × Lib.Value) (q : String × Compare.PValue)
    (hq : reifyItemL f kv = some q) : ∀ (kvs : List (String × Lib.Value)) (qs : List (String × Compare.PValue)),
    mapOpt (reifyItemL f) kvs = some qs → mapOpt (reifyItemL f) (Lib.insertKV kv kvs) = some (Compare.insertBy keyLt q qs)
  | [], qs, h => by
    rw [(mapOpt_nil_iff _ qs).mp h]
    exact (mapOpt_cons_iff _ _ _ _).mpr ⟨q, [], hq, rfl, rfl⟩
  | x :: xs, qs, h => by
    obtain ⟨y, ys, h1, h2, rfl⟩ := (mapOpt_cons_iff _ x xs qs).mp h
    have k1 := ((reifyItemL_iff f kv q).mp hq).1
    have k2 := ((reifyItemL_iff f x y).mp h1).1
    simp only [Lib.insertKV, Compare.insertBy, keyLt, k1, k2, lib_strCmp_str]
    by_cases hlt : Compare.strCompare kv.1 x.1 < 0
    · simp only [hlt, if_true, decide_true]
      exact (mapOpt_cons_iff _ _ _ _).mpr ⟨q, y :: ys, hq, h, rfl⟩
    · simp only [hlt, if_false, decide_false, Bool.false_eq_true]
      exact (mapOpt_cons_iff _ _ _ _).mpr ⟨y, _, h1, insertKV_reify f kv q hq xs ys h2, rfl⟩

/-- insertion from the right, on closed items -/
def sortItemsR (qs : List (String × Compare.PValue)) : List (String × Compare.PValue) :=
  qs.foldr (Compare.insertBy keyLt) []

theorem sortKV_reify (f : Lib.Value → Option Compare.PValue) : ∀ (kvs : List (String × Lib.Value))
    (qs : List (String × Compare.PValue)), mapOpt (reifyItemL f) kvs = some qs →
    mapOpt (reifyItemL f) (Lib.sortKV kvs) = some (sortItemsR qs)
  | [], qs, h => by rw [(mapOpt_nil_iff _ qs).mp h]; rfl
  | x :: xs, qs, h => by
    obtain ⟨y, ys, h1, h2, rfl⟩ := (mapOpt_cons_iff _ x xs qs).mp h
    exact insertKV_reify f x y h1 _ _ (sortKV_reify f xs ys h2)

theorem sortItemsR_perm : ∀ qs : List (String × Compare.PValue), (sortItemsR qs).Perm qs
  | [] => .refl _
  | q :: qs => (Compare.insertBy_perm keyLt q _).trans ((sortItemsR_perm qs).cons q)

theorem sortItemsR_sorted : ∀ qs : List (String × Compare.PValue), C11.Sorted C11.keyCmp (sortItemsR qs)
  | [] => List.Pairwise.nil
  | q :: qs => C11.insertBy_sorted C11.keyCmp_isPre q _ (sortItemsR_sorted qs)

/-- with pairwise different keys both insertion sorts return the same list -/
theorem sortItemsR_eq (qs : List (String × Compare.PValue)) (hk : (qs.map (·.1)).Nodup) : sortItemsR qs = Compare.sortItems qs := by
  have hp := sortItemsR_perm qs
  have hk' : ((sortItemsR qs).map (·.1)).Nodup := (hp.map (·.1)).nodup_iff.mpr hk
  -- sorting a sorted list changes nothing
  have hid : Compare.sortItems (sortItemsR qs) = sortItemsR qs :=
    C11.sorted_stable_unique C11.keyCmp_isPre _ _ (C11.sortBy_sorted C11.keyCmp_isPre _) (sortItemsR_sorted qs)
      (fun a => C11.sortBy_stable C11.keyCmp_isPre _ a)
  rw [← hid]
  exact C11.sortItems_canonical _ _ hp hk'

/-! ## reification of `Lib` values into well-formed closed values -/

/-- reify the `Lib` value `x` of the world `w` (through the projection) and keep the result only if it is well-formed -/
def rW (w : LWorld) (n : Nat) (x : Lib.Value) : Option Compare.PValue :=
  match reifyF w.toImpl n (ofLib x) with
  | some p => if Compare.WFValue p then some p else none
  | none => none

theorem rW_iff (w : LWorld) (n : Nat) (x : Lib.Value) (p : Compare.PValue) :
    rW w n x = some p ↔ reifyF w.toImpl n (ofLib x) = some p ∧ Compare.WFValue p = true := by
  unfold rW
  cases reifyF w.toImpl n (ofLib x) with
  | none => simp
  | some q => by_cases hq : Compare.WFValue q = true <;> simp [hq] <;> (intro h; subst h; simpa using hq)

theorem mapOpt_rW (w : LWorld) (n : Nat) : ∀ (lxs : List Lib.Value) (pxs : List Compare.PValue),
    mapOpt (reifyF w.toImpl n) (lxs.map ofLib) = some pxs → Compare.WFList pxs = true → mapOpt (rW w n) lxs = some pxs
  | [], pxs, h, _ => by simpa [mapOpt] using h
  | x :: xs, pxs, h, hw => by
    rw [List.map_cons] at h
    obtain ⟨y, ys, h1, h2, rfl⟩ := (mapOpt_cons_iff _ _ _ _).mp h
    simp only [Compare.WFList, Bool.and_eq_true] at hw
    exact (mapOpt_cons_iff _ _ _ _).mpr ⟨y, ys, (rW_iff w n x y).mpr ⟨h1, hw.1⟩, mapOpt_rW w n xs ys h2 hw.2, rfl⟩

theorem mapOpt_rW_items (w : LWorld) (n : Nat) : ∀ (lkvs : List (String × Lib.Value)) (pkvs : List (String × Compare.PValue)),
    mapOpt (reifyItem (reifyF w.toImpl n)) (lkvs.map fun kv => (kv.1, ofLib kv.2)) = some pkvs → Compare.WFItems pkvs = true →
    mapOpt (reifyItemL (rW w n)) lkvs = some pkvs
  | [], pkvs, h, _ => by simpa [mapOpt] using h
  | x :: xs, pkvs, h, hw => by
    rw [List.map_cons] at h
    obtain ⟨⟨k, y⟩, ys, h1, h2, rfl⟩ := (mapOpt_cons_iff _ _ _ _).mp h
    simp only [Compare.WFItems, Bool.and_eq_true] at hw
    obtain ⟨e, hv⟩ := (reifyItem_iff _ _ _).mp h1
    exact (mapOpt_cons_iff _ _ _ _).mpr ⟨(k, y), ys,
      (reifyItemL_iff _ _ _).mpr ⟨e, (rW_iff w n x.2 y).mpr ⟨hv, hw.1⟩⟩, mapOpt_rW_items w n xs ys h2 hw.2, rfl⟩

/-- shape of a reified array of a `Lib` world -/
theorem rW_arr (w : LWorld) (n r : Nat) (p : Compare.PValue) (h : rW w (n+1) (.arr r) = some p) :
    ∃ lxs pxs, Lib.getArr w.heap r = some lxs ∧ mapOpt (rW w n) lxs = some pxs ∧ p = .arr pxs := by
  obtain ⟨h1, hw⟩ := (rW_iff _ _ _ _).mp h
  obtain ⟨xs, pxs, hxs, hm, rfl⟩ := (reifyF_arr w.toImpl n r p).mp h1
  rw [toImpl_arr?] at hxs
  cases hg : Lib.getArr w.heap r with
  | none => simp [hg] at hxs
  | some lxs =>
    simp only [hg, Option.map_some, Option.some.injEq] at hxs
    subst hxs
    exact ⟨lxs, pxs, rfl, mapOpt_rW w n lxs pxs hm (by simpa [Compare.WFValue] using hw), rfl⟩

theorem rW_obj (w : LWorld) (n r : Nat) (p : Compare.PValue) (h : rW w (n+1) (.obj r) = some p) :
    ∃ lkvs pkvs, Lib.getObj w.heap r = some lkvs ∧ mapOpt (reifyItemL (rW w n)) lkvs = some pkvs ∧ p = .obj pkvs ∧
      (pkvs.map (·.1)).Nodup := by
  obtain ⟨h1, hw⟩ := (rW_iff _ _ _ _).mp h
  obtain ⟨xs, pxs, hxs, hm, rfl⟩ := (reifyF_obj w.toImpl n r p).mp h1
  rw [toImpl_obj?] at hxs
  cases hg : Lib.getObj w.heap r with
  | none => simp [hg] at hxs
  | some lkvs =>
    simp only [hg, Option.map_some, Option.some.injEq] at hxs
    subst hxs
    simp only [Compare.WFValue, Bool.and_eq_true, decide_eq_true_eq] at hw
    exact ⟨lkvs, pxs, rfl, mapOpt_rW_items w n lkvs pxs hm hw.2, rfl, hw.1⟩

/-- a `Lib` value other than a reference reifies like its machine counterpart -/
theorem rW_plain (w : LWorld) (n : Nat) (x : Lib.Value) (p : Compare.PValue) (h : rW w (n+1) x = some p) :
    reifyF w.toImpl (n+1) (ofLib x) = some p := ((rW_iff _ _ _ _).mp h).1

/-! ## the fuelled bridge for `Lib.vcmp` -/

macro "vcmp_close" : tactic =>
  `(tactic| (simp only [Lib.vcmp, lib_strCmp_str, lib_rcmp, lib_boolCmp, lib_dtCmp]
             simp [Compare.valueCompare, Lib.typeName, Compare.typeName]))

theorem vcmp_bridge (w : LWorld) : ∀ (n : Nat) (a : Lib.Value) (pa : Compare.PValue), rW w n a = some pa →
    ∀ (m : Nat) (b : Lib.Value) (pb : Compare.PValue), rW w m b = some pb → ∀ fuel, n ≤ fuel →
    Lib.vcmp fuel w.heap a b = some (Compare.valueCompare pa pb)
  | 0, _, _, ha, _, _, _, _, _, _ => by simp [rW, reifyF] at ha
  | _, _, _, _, 0, _, _, hb, _, _ => by simp [rW, reifyF] at hb
  | n+1, _, _, _, _, _, _, _, 0, hf => by omega
  | n+1, a, pa, ha, m+1, b, pb, hb, f+1, hf => by
    have IH : ∀ x px y py, rW w n x = some px → rW w m y = some py →
        Lib.vcmp f w.heap x y = some (Compare.valueCompare px py) :=
      fun x px y py hx hy => vcmp_bridge w n x px hx m y py hy f (by omega)
    cases a with
    | arr r =>
      obtain ⟨lxs, pxs, hgx, hmx, rfl⟩ := rW_arr w n r pa ha
      cases b with
      | arr s =>
        obtain ⟨lys, pys, hgy, hmy, rfl⟩ := rW_arr w m s pb hb
        simp only [Lib.vcmp, hgx, hgy, Compare.valueCompare]
        exact lcmpWith_bridge _ _ _ IH lxs pxs lys pys hmx hmy
      | obj s =>
        obtain ⟨lys, pys, hgy, hmy, rfl, _⟩ := rW_obj w m s pb hb
        vcmp_close
      | _ =>
        have hb1 := rW_plain w m _ pb hb
        simp only [ofLib, reifyF, Option.some.injEq] at hb1; subst hb1
        vcmp_close
    | obj r =>
      obtain ⟨lxs, pxs, hgx, hmx, rfl, hkx⟩ := rW_obj w n r pa ha
      cases b with
      | arr s =>
        obtain ⟨lys, pys, hgy, hmy, rfl⟩ := rW_arr w m s pb hb
        vcmp_close
      | obj s =>
        obtain ⟨lys, pys, hgy, hmy, rfl, hky⟩ := rW_obj w m s pb hb
        simp only [Lib.vcmp, hgx, hgy, Compare.valueCompare]
        rw [← sortItemsR_eq pxs hkx, ← sortItemsR_eq pys hky]
        exact ocmpWith_bridge _ _ _ IH _ _ _ _ (sortKV_reify _ lxs pxs hmx) (sortKV_reify _ lys pys hmy)
      | _ =>
        have hb1 := rW_plain w m _ pb hb
        simp only [ofLib, reifyF, Option.some.injEq] at hb1; subst hb1
        vcmp_close
    | _ =>
      have ha1 := rW_plain w n _ pa ha
      simp only [ofLib, reifyF, Option.some.injEq] at ha1; subst ha1
      cases b with
      | arr s =>
        obtain ⟨lys, pys, hgy, hmy, rfl⟩ := rW_arr w m s pb hb
        vcmp_close
      | obj s =>
        obtain ⟨lys, pys, hgy, hmy, rfl, _⟩ := rW_obj w m s pb hb
        vcmp_close
      | _ =>
        have hb1 := rW_plain w m _ pb hb
        simp only [ofLib, reifyF, Option.some.injEq] at hb1; subst hb1
        vcmp_close

/-- **Bridge for the `Lib` comparison.**  On values of an `LWorld` that denote well-formed closed values, `Lib.valueCompare`
(fuel `heap.length + 1`) is `Compare.valueCompare` of the closed values. -/
theorem lib_compare_bridge (w : LWorld) (a b : Value) (pa pb : Compare.PValue) (ha : reifyL w a = some pa)
    (hb : reifyL w b = some pb) (hwa : Compare.WFValue pa = true) (hwb : Compare.WFValue pb = true) :
    Lib.valueCompare w.heap (toLib a) (toLib b) = some (Compare.valueCompare pa pb) := by
  have hl : w.toImpl.heap.length = w.heap.length := by simp [LWorld.toImpl]
  unfold reifyL reify at ha hb
  rw [hl] at ha hb
  rw [← HostLib.ofLib_toLib a] at ha
  rw [← HostLib.ofLib_toLib b] at hb
  exact vcmp_bridge w _ _ pa ((rW_iff _ _ _ _).mpr ⟨ha, hwa⟩) _ _ pb ((rW_iff _ _ _ _).mpr ⟨hb, hwb⟩) _ (Nat.le_refl _)

/-- the three comparisons of the framework agree: the `Lib` comparison on the heap of an `LWorld` and the machine comparison on
its projection both compute `Compare.valueCompare` of the denoted closed values -/
theorem lib_compare_agrees (w : LWorld) (a b : Value) (pa pb : Compare.PValue) (ha : reifyL w a = some pa)
    (hb : reifyL w b = some pb) (hwa : Compare.WFValue pa = true) (hwb : Compare.WFValue pb = true) :
    Lib.valueCompare w.heap (toLib a) (toLib b) = HostImpl.compare? w.toImpl a b := by
  rw [lib_compare_bridge w a b pa pb ha hb hwa hwb, hostLib_compare_bridge w a b pa pb ha hb]

example : Compare.WFValue exP0 = true ∧ Compare.WFValue exP1 = true ∧
    Lib.valueCompare exLW.heap (.arr 2) (.arr 3) = some 0 := by
  have h0 : Compare.WFValue exP0 = true := by decide
  have h1 : Compare.WFValue exP1 = true := by decide
  refine ⟨h0, h1, ?_⟩
  have := lib_compare_bridge exLW (.arr 2) (.arr 3) _ _ exLW_reify.1 exLW_reify.2.1 h0 h1
  rw [exP_cmp.1] at this
  exact this

/-! ## `arrayIndexOf` (value needle) on the second host: the `Lib` model's search -/

theorem searchIdx_bridge (h : Lib.Heap) (lxs : List Lib.Value) (lv : Lib.Value) (pv : Compare.PValue)
    (f : Lib.Value → Option Compare.PValue)
    (H : ∀ x px, f x = some px → Lib.valueCompare h x lv = some (Compare.valueCompare px pv)) :
    ∀ (suf : List Lib.Value) (psuf : List Compare.PValue) (s : Nat),
    (∀ (j : Nat) x, suf[j]? = some x → lxs[s + j]? = some x) → mapOpt f suf = some psuf →
    Lib.searchRes (Lib.searchIdx h lxs lv ((List.range' s suf.length).map (fun (k : Nat) => (0 : Int) + (k : Int)))) =
      .ret (Lib.numI (Compare.scanFrom pv s psuf))
  | [], psuf, s, _, hm => by
    rw [(mapOpt_nil_iff _ _).mp hm]; rfl
  | x :: suf, psuf, s, hget, hm => by
    obtain ⟨px, psuf', h1, h2, rfl⟩ := (mapOpt_cons_iff _ _ _ _).mp hm
    have hx : lxs[s]? = some x := by simpa using hget 0 x rfl
    have hgi : Lib.pyGetItem lxs ((0 : Int) + (s : Int)) = some x := by
      simp [Lib.pyGetItem, hx]
    have ih := searchIdx_bridge h lxs lv pv f H suf psuf' (s + 1)
      (fun j y hy => by have := hget (j + 1) y (by simpa using hy); rw [← this]; congr 1; omega) h2
    simp only [List.length_cons, List.range'_succ, List.map_cons, Lib.searchIdx, hgi, H x px h1, Compare.scanFrom]
    by_cases h0 : Compare.valueCompare px pv = 0
    · simp [h0, Lib.searchRes]
    · simp only [h0, if_false, beq_iff_eq]; exact ih

theorem rle_len_zero (n : Nat) : Lib.rle (Lib.ofNat n) (Rat.ofInt ((0 : Nat) : Int)) = decide (n = 0) := by
  simp [Lib.rle, Lib.ofNat, Rat.ofInt]

/-- `arrayIndexOf(array, value)` on `hostLib` — answered by the `Lib` model, whose search uses `Lib.valueCompare` — is
`Compare.arrayIndexOf` on the denoted (well-formed) closed values, exactly as on the first host (`machine_indexOf`). -/
theorem hostLib_indexOf (w : LWorld) (r : Nat) (v : Value) (pxs : List Compare.PValue) (pv : Compare.PValue)
    (hr : reifyL w (.arr r) = some (.arr pxs)) (hv : reifyL w v = some pv) (hfn : ∀ f, v ≠ .fn f)
    (hwx : Compare.WFValue (.arr pxs) = true) (hwv : Compare.WFValue pv = true) :
    ∃ i, Compare.arrayIndexOf pxs pv 0 = some i ∧
      hostLib.lib "arrayIndexOf" [.arr r, v] w =
        .ret (if pxs.length = 0 then .fail (.num ((-1 : Int) : Rat)) else .ok (.num (i : Rat))) w := by
  have hl : w.toImpl.heap.length = w.heap.length := by simp [LWorld.toImpl]
  -- the cell and its elements
  have hr' : rW w (w.heap.length + 1) (.arr r) = some (.arr pxs) := by
    refine (rW_iff _ _ _ _).mpr ⟨?_, hwx⟩
    have := hr; unfold reifyL reify at this; rw [hl] at this; exact this
  obtain ⟨lxs, pxs', hgx, hmx, hp⟩ := rW_arr w _ r _ hr'
  cases hp
  have hlen := mapOpt_length _ lxs pxs hmx
  -- the needle
  have hv' : rW w (w.heap.length + 1) (toLib v) = some pv := by
    refine (rW_iff _ _ _ _).mpr ⟨?_, hwv⟩
    have := hv; unfold reifyL reify at this; rw [hl] at this; rw [HostLib.ofLib_toLib]; exact this
  have H : ∀ x px, rW w w.heap.length x = some px →
      Lib.valueCompare w.heap x (toLib v) = some (Compare.valueCompare px pv) := fun x px hx =>
    vcmp_bridge w _ x px hx _ (toLib v) pv hv' _ (Nat.le_succ _)
  have hnf : ∀ id, pv ≠ .fn id := by
    intro id hid; subst hid
    have ht := reify_typeName w.toImpl v _ hv
    cases v <;> first | exact absurd rfl (hfn _) | exact absurd ht (by simp only [Compare.typeName, HostImpl.typeName]; decide)
  have hidx : Compare.arrayIndexOf pxs pv 0 = some (if 0 ≥ pxs.length then -1 else Compare.scanFrom pv 0 pxs) := by
    cases pv <;> first | exact absurd rfl (hnf _) | simp [Compare.arrayIndexOf]
  refine ⟨_, hidx, ?_⟩
  have hlib : Lib.lib "arrayIndexOf" ([.arr r, v].map toLib) w.heap =
      (Lib.arrayIndexOfB [.one (.arr r), .one (toLib v), .one (Lib.numN 0)] w.heap).run w.heap := rfl
  have hsearch := searchIdx_bridge w.heap lxs (toLib v) pv _ H lxs pxs 0 (fun j x hx => by simpa using hx) hmx
  have hrange : Lib.pyRange (Lib.pyInt (Rat.ofInt ((0 : Nat) : Int))) (lxs.length : Int) =
      (List.range' 0 lxs.length).map (fun (k : Nat) => (0 : Int) + (k : Int)) := by
    simp [Lib.pyRange, Lib.pyInt, Rat.ofInt, List.range_eq_range']
  show HostLib.lib "arrayIndexOf" [.arr r, v] w = _
  unfold HostLib.lib
  rw [hlib]
  simp only [Lib.arrayIndexOfB, hgx, Lib.numN, rle_len_zero, hrange]
  by_cases h0 : lxs.length = 0
  · have h0' : pxs.length = 0 := by omega
    simp only [h0, h0', decide_true, if_true, Lib.Eff.run]
    rfl
  · have h0' : ¬ pxs.length = 0 := by omega
    have h0'' : ¬ 0 ≥ pxs.length := by omega
    simp only [h0, h0', h0'', decide_false, if_false, Bool.false_eq_true]
    cases v <;> first
      | exact absurd rfl (hfn _)
      | (simp only [toLib] at hsearch ⊢; rw [hsearch]; rfl)

/-- … so both hosts answer `arrayIndexOf(array, value)` identically (same outcome, each in its own unchanged world) although
they search with different comparison functions -/
theorem hostLib_indexOf_agrees (w : LWorld) (r : Nat) (v : Value) (pxs : List Compare.PValue) (pv : Compare.PValue)
    (hr : reifyL w (.arr r) = some (.arr pxs)) (hv : reifyL w v = some pv) (hfn : ∀ f, v ≠ .fn f)
    (hwx : Compare.WFValue (.arr pxs) = true) (hwv : Compare.WFValue pv = true) :
    ∃ o, hostLib.lib "arrayIndexOf" [.arr r, v] w = .ret o w ∧
      HostImpl.host.lib "arrayIndexOf" [.arr r, v] w.toImpl = .ret o w.toImpl := by
  obtain ⟨i, hi, h1⟩ := hostLib_indexOf w r v pxs pv hr hv hfn hwx hwv
  obtain ⟨i', hi', h2⟩ := machine_indexOf w.toImpl r v pxs pv hr hv hfn
  rw [hi] at hi'; cases hi'
  refine ⟨_, h1, ?_⟩
  rw [h2]
  have e : (((-1 : Int) : Rat)) = -1 := by rfl
  rw [e]

/-- in `exLW` cell 4 = `[a, a, copy]`: the copy `.arr 3` is found at position 0 by the `Lib` search as well -/
example : hostLib.lib "arrayIndexOf" [.arr 4, .arr 3] exLW = .ret (.ok (.num 0)) exLW := by
  have hw4 : Compare.WFValue (.arr [exP0, exP0, exP1]) = true := by decide
  have hw1 : Compare.WFValue exP1 = true := by decide
  obtain ⟨i, hi, h⟩ := hostLib_indexOf exLW 4 (.arr 3) _ _ exLW_reify.2.2.1 exLW_reify.2.1 (by simp) hw4 hw1
  have h01 : Compare.valueCompare exP0 (.arr [.obj [("a", .str "x"), ("b", .num 1)], .num 2]) = 0 := exP_cmp.1
  simp [Compare.arrayIndexOf, Compare.scanFrom, exP1, h01] at hi
  subst hi
  simpa using h

/-! ## `arrayLastIndexOf` (value needle, default start) on the second host -/

theorem rle_ofInt (n : Nat) (z : Int) : Lib.rle (Lib.ofNat n) (Rat.ofInt z) = decide ((n : Int) ≤ z) := by
  show decide ((n : Int) * ((1 : Nat) : Int) ≤ z * ((1 : Nat) : Int)) = _
  simp

theorem pyInt_ofInt (z : Int) : Lib.pyInt (Rat.ofInt z) = z := by
  show z.tdiv ((1 : Nat) : Int) = z
  simp

theorem mapOpt_append_singleton {α β : Type} (f : α → Option β) : ∀ (xs : List α) (x : α) (l : List β),
    mapOpt f (xs ++ [x]) = some l → ∃ ys y, mapOpt f xs = some ys ∧ f x = some y ∧ l = ys ++ [y]
  | [], x, l, h => by
    obtain ⟨y, ys, h1, h2, rfl⟩ := (mapOpt_cons_iff f x [] l).mp h
    rw [(mapOpt_nil_iff f ys).mp h2]
    exact ⟨[], y, rfl, h1, rfl⟩
  | x0 :: xs, x, l, h => by
    obtain ⟨y0, l', h1, h2, rfl⟩ := (mapOpt_cons_iff f x0 (xs ++ [x]) l).mp h
    obtain ⟨ys, y, h3, h4, rfl⟩ := mapOpt_append_singleton f xs x l' h2
    exact ⟨y0 :: ys, y, (mapOpt_cons_iff _ _ _ _).mpr ⟨y0, ys, h1, h3, rfl⟩, h4, rfl⟩

/-- the downward search of the `Lib` model over the positions `n-1, …, 0` of a prefix of length `n` = the downward scan of the
C11 model over the reversed closed prefix -/
theorem searchIdx_down_bridge (h : Lib.Heap) (lxs : List Lib.Value) (lv : Lib.Value) (pv : Compare.PValue)
    (f : Lib.Value → Option Compare.PValue)
    (H : ∀ x px, f x = some px → Lib.valueCompare h x lv = some (Compare.valueCompare px pv)) :
    ∀ (n : Nat) (pre : List Lib.Value) (ppre : List Compare.PValue), pre.length = n →
    (∀ (j : Nat) x, pre[j]? = some x → lxs[j]? = some x) → mapOpt f pre = some ppre →
    Lib.searchRes (Lib.searchIdx h lxs lv ((List.range n).map (fun (k : Nat) => ((n : Int) - 1) - (k : Int)))) =
      .ret (Lib.numI (Compare.scanDown pv (n - 1) ppre.reverse))
  | 0, pre, ppre, hn, _, hm => by
    have : pre = [] := List.eq_nil_of_length_eq_zero hn
    subst this
    rw [(mapOpt_nil_iff _ _).mp hm]; rfl
  | n+1, pre, ppre, hn, hget, hm => by
    -- split off the last element
    have hne : pre ≠ [] := fun h => by subst h; simp at hn
    obtain ⟨pre', x, rfl⟩ : ∃ pre' x, pre = pre' ++ [x] := ⟨pre.dropLast, pre.getLast hne, (List.dropLast_concat_getLast hne).symm⟩
    have hn' : pre'.length = n := by simpa using hn
    obtain ⟨ppre', px, h1, h2, rfl⟩ := mapOpt_append_singleton f pre' x ppre hm
    have hx : lxs[n]? = some x := hget n x (by simp [← hn'])
    have hgi : Lib.pyGetItem lxs (((n + 1 : Nat) : Int) - 1 - ((0 : Nat) : Int)) = some x := by
      have : (((n + 1 : Nat) : Int) - 1 - ((0 : Nat) : Int)) = (n : Int) := by omega
      rw [this]; simp [Lib.pyGetItem, hx]
    have ih := searchIdx_down_bridge h lxs lv pv f H n pre' ppre' hn'
      (fun j y hy => hget j y (by
        have hj : j < pre'.length := (List.getElem?_eq_some_iff.mp hy).1
        rw [List.getElem?_append_left hj]; exact hy)) h1
    have hidx : (List.range (n + 1)).map (fun (k : Nat) => (((n + 1 : Nat) : Int) - 1) - (k : Int)) =
        ((((n + 1 : Nat) : Int) - 1) - ((0 : Nat) : Int)) :: (List.range n).map (fun (k : Nat) => ((n : Int) - 1) - (k : Int)) := by
      rw [List.range_succ_eq_map, List.map_cons, List.map_map]
      congr 1
      apply List.map_congr_left
      intro k _
      simp only [Function.comp]
      omega
    rw [hidx]
    simp only [Lib.searchIdx, hgi, H x px h2, List.reverse_append, List.reverse_singleton, List.singleton_append,
      Compare.scanDown, Nat.add_sub_cancel]
    by_cases h0 : Compare.valueCompare px pv = 0
    · simp only [h0, if_true, Lib.searchRes, beq_self_eq_true]
      congr 2; omega
    · simp only [h0, if_false, beq_iff_eq]; exact ih

/-- `arrayLastIndexOf(array, value)` (value needle, default start = last position) on `hostLib` — answered by the `Lib` model
with `Lib.valueCompare` — is `Compare.arrayLastIndexOf` on the denoted (well-formed) closed values: always `ok`, the last
position whose element compares equal to the needle, or -1 (`C11.lastIndexOf_last`). -/
theorem hostLib_lastIndexOf (w : LWorld) (r : Nat) (v : Value) (pxs : List Compare.PValue) (pv : Compare.PValue)
    (hr : reifyL w (.arr r) = some (.arr pxs)) (hv : reifyL w v = some pv) (hfn : ∀ f, v ≠ .fn f)
    (hwx : Compare.WFValue (.arr pxs) = true) (hwv : Compare.WFValue pv = true) :
    ∃ i, Compare.arrayLastIndexOf pxs pv none = some i ∧
      hostLib.lib "arrayLastIndexOf" [.arr r, v] w = .ret (.ok (.num (i : Rat))) w := by
  have hl : w.toImpl.heap.length = w.heap.length := by simp [LWorld.toImpl]
  have hr' : rW w (w.heap.length + 1) (.arr r) = some (.arr pxs) := by
    refine (rW_iff _ _ _ _).mpr ⟨?_, hwx⟩
    have := hr; unfold reifyL reify at this; rw [hl] at this; exact this
  obtain ⟨lxs, pxs', hgx, hmx, hp⟩ := rW_arr w _ r _ hr'
  cases hp
  have hlen := mapOpt_length _ lxs pxs hmx
  have hv' : rW w (w.heap.length + 1) (toLib v) = some pv := by
    refine (rW_iff _ _ _ _).mpr ⟨?_, hwv⟩
    have := hv; unfold reifyL reify at this; rw [hl] at this; rw [HostLib.ofLib_toLib]; exact this
  have H : ∀ x px, rW w w.heap.length x = some px →
      Lib.valueCompare w.heap x (toLib v) = some (Compare.valueCompare px pv) := fun x px hx =>
    vcmp_bridge w _ x px hx _ (toLib v) pv hv' _ (Nat.le_succ _)
  have hnf : ∀ id, pv ≠ .fn id := by
    intro id hid; subst hid
    have ht := reify_typeName w.toImpl v _ hv
    cases v <;> first | exact absurd rfl (hfn _) | exact absurd ht (by simp only [Compare.typeName, HostImpl.typeName]; decide)
  have hidx : Compare.arrayLastIndexOf pxs pv none = some (Compare.scanDown pv (pxs.length - 1) pxs.reverse) := by
    cases pv <;> first | exact absurd rfl (hnf _) | simp [Compare.arrayLastIndexOf]
  refine ⟨_, hidx, ?_⟩
  have hlib : Lib.lib "arrayLastIndexOf" ([.arr r, v].map toLib) w.heap =
      (Lib.arrayLastIndexOfB [.one (.arr r), .one (toLib v), .one .null] w.heap).run w.heap := rfl
  have hsearch := searchIdx_down_bridge w.heap lxs (toLib v) pv _ H lxs.length lxs pxs rfl (fun j x hx => hx) hmx
  have hrange : Lib.pyRangeDown ((lxs.length : Int) - 1) =
      (List.range lxs.length).map (fun (k : Nat) => ((lxs.length : Int) - 1) - (k : Int)) := by
    simp [Lib.pyRangeDown]
  have hrle : decide ((lxs.length : Int) ≤ (lxs.length : Int) - 1) = false := by
    simp only [decide_eq_false_iff_not]; omega
  show HostLib.lib "arrayLastIndexOf" [.arr r, v] w = _
  unfold HostLib.lib
  rw [hlib]
  simp only [Lib.arrayLastIndexOfB, hgx, Lib.idxOr, rle_ofInt, pyInt_ofInt, hrange, hrle, Bool.false_eq_true, if_false]
  rw [hlen]
  cases v <;> first
    | exact absurd rfl (hfn _)
    | (simp only [toLib] at hsearch ⊢; rw [hsearch]; rfl)

/-- in `exLW` cell 4 = `[a, a, copy]`: searching for `a` from the end finds the copy at position 2 -/
example : hostLib.lib "arrayLastIndexOf" [.arr 4, .arr 2] exLW = .ret (.ok (.num 2)) exLW := by
  have hw4 : Compare.WFValue (.arr [exP0, exP0, exP1]) = true := by decide
  have hw0 : Compare.WFValue exP0 = true := by decide
  obtain ⟨i, hi, h⟩ := hostLib_lastIndexOf exLW 4 (.arr 2) _ _ exLW_reify.2.2.1 exLW_reify.1 (by simp) hw4 hw0
  have h10 : Compare.valueCompare exP1 (.arr [.obj [("b", .num 1), ("a", .str "x")], .num 2]) = 0 := by
    have := C11.cmp_antisymm exP1 exP0
    rw [exP_cmp.1] at this
    exact this
  simp [Compare.arrayLastIndexOf, Compare.scanDown, exP0, h10] at hi
  subst hi
  simpa using h

end C11Bridge
