import BareProofs.C13
import BareModel.ExprParse
import BareProofs.C02Lemmas

/-!
# C13Bridge — helper lemmas: the two number scanners, piece by piece

`ExprScan.scanNumber` (the literal scanner the expression parser model uses) and `NumText.scanTok true` (C13's model of
`_R_EXPR_NUMBER`) are compared component by component: white space class, digit class and digit value (two independently
frozen Unicode tables: the 64 runs of `Rx.digitRanges` against the 67 zero digits of `NumText.uniZeros`), sign, integer
digits, fraction, exponent, and the value (`ExprScan.decVal` against `NumText.Tok.val`); and `float()` on the text of a
literal with ANY Unicode decimal digits (`floatText_text_uni`).  The property theorems are in `BareProofs/C13Bridge.lean`.
-/
set_option linter.unusedSimpArgs false
set_option linter.unusedVariables false

namespace C13Bridge
open NumText C13

/-! ## character classes -/

/-- the two models of regex `\s` are the same set (29 code points) -/
theorem isPySpace_eq (c : Char) : ExprScan.isPySpace c = isReSpace c := by
  simp only [ExprScan.isPySpace, isReSpace, isUniSpace]
  rw [Bool.eq_iff_iff]
  simp
  omega

theorem isPySpace_fun : ExprScan.isPySpace = isReSpace := funext isPySpace_eq

/-- `NumText.decDigit?` on code points -/
def decDigitN? (n : Nat) : Option Nat :=
  if 48 ≤ n ∧ n ≤ 57 then some (n - 48)
  else if n < 128 then none
  else (uniZeros.find? (fun z => decide (z ≤ n ∧ n < z + 10))).map (fun z => n - z)

theorem decDigit?_eq (c : Char) : decDigit? c = decDigitN? c.toNat := by
  simp [decDigit?, decDigitN?, isAsciiDigit]

/-- table fact: every code point of every run of `Rx.digitRanges` is a `NumText` digit whose value is its offset in the run
modulo 10 (680 code points) -/
theorem runs_are_digits :
    Rx.digitRanges.all (fun r => (List.range (r.2 - r.1 + 1)).all (fun k => decDigitN? (r.1 + k) == some (k % 10))) = true := by
  decide +kernel

/-- table fact: the ten code points from `'0'` and from every zero digit of `NumText.uniZeros` lie in the runs of
`Rx.digitRanges` -/
theorem zeros_in_runs : ((48 : Nat) :: uniZeros).all (fun z => (List.range 10).all (fun k => Rx.isDigitN (z + k))) = true := by
  decide +kernel

theorem run_digit {r : Nat × Nat} (hr : r ∈ Rx.digitRanges) {n : Nat} (h1 : r.1 ≤ n) (h2 : n ≤ r.2) :
    decDigitN? n = some ((n - r.1) % 10) := by
  have h := List.all_eq_true.mp runs_are_digits r hr
  have h' := List.all_eq_true.mp h (n - r.1) (List.mem_range.mpr (by omega))
  have e : r.1 + (n - r.1) = n := by omega
  rw [e] at h'
  exact beq_iff_eq.mp h'

theorem decDigitN?_zero {n d : Nat} (h : decDigitN? n = some d) : ∃ z ∈ (48 : Nat) :: uniZeros, z ≤ n ∧ n < z + 10 ∧ d = n - z := by
  unfold decDigitN? at h
  split at h
  · rename_i ha
    exact ⟨48, by simp, by omega, by omega, by simpa using h.symm⟩
  · split at h
    · cases h
    · cases hf : uniZeros.find? (fun z => decide (z ≤ n ∧ n < z + 10)) with
      | none => rw [hf] at h; cases h
      | some z =>
        have hm := List.mem_of_find?_eq_some hf
        have hp := List.find?_some hf
        simp only [decide_eq_true_eq] at hp
        rw [hf] at h
        simp only [Option.map_some, Option.some.injEq] at h
        exact ⟨z, List.mem_cons_of_mem _ hm, hp.1, hp.2, h.symm⟩

/-- **one digit class**: `ExprScan.isDigit` (table `Rx.digitRanges`) and `NumText.isDig` (table `NumText.uniZeros`) are the same
set of characters -/
theorem isDigit_eq_isDig (c : Char) : ExprScan.isDigit c = isDig c := by
  cases hd : ExprScan.isDigit c with
  | true =>
    obtain ⟨r, hr, h1, h2⟩ := C02.isDigit_iff.mp hd
    simp [isDig, decDigit?_eq, run_digit hr h1 h2]
  | false =>
    cases hg : isDig c with
    | false => rfl
    | true =>
      exfalso
      unfold isDig at hg
      rw [decDigit?_eq] at hg
      obtain ⟨d, hd'⟩ := Option.isSome_iff_exists.mp hg
      obtain ⟨z, hz, h1, h2, _⟩ := decDigitN?_zero hd'
      have h := List.all_eq_true.mp zeros_in_runs z hz
      have h' := List.all_eq_true.mp h (c.toNat - z) (List.mem_range.mpr (by omega))
      have e : z + (c.toNat - z) = c.toNat := by omega
      rw [e] at h'
      simp only [ExprScan.isDigit, Rx.isDigitU] at hd
      rw [hd] at h'; cases h'

theorem isDigit_fun : ExprScan.isDigit = isDig := funext isDigit_eq_isDig

/-- **one digit value**: offset in the run modulo 10 = offset from the zero digit of the block -/
theorem digitVal_eq_digVal (c : Char) : ExprScan.digitVal c = digVal c := by
  unfold ExprScan.digitVal
  split
  · rename_i r hf
    have hm := List.mem_of_find?_eq_some hf
    have hp := List.find?_some hf
    simp only [Bool.and_eq_true, decide_eq_true_eq] at hp
    simp [digVal, decDigit?_eq, run_digit hm hp.1 hp.2]
  · rename_i hf
    have hd : ExprScan.isDigit c = false := by
      cases h : ExprScan.isDigit c with
      | false => rfl
      | true =>
        obtain ⟨r, hr, h1, h2⟩ := C02.isDigit_iff.mp h
        have := List.find?_eq_none.mp hf r hr
        simp [h1, h2] at this
    rw [isDigit_eq_isDig] at hd
    unfold isDig at hd
    unfold digVal
    cases h : decDigit? c with
    | none => rfl
    | some d => rw [h] at hd; cases hd

theorem tw_digits (l : List Char) : l.takeWhile ExprScan.isDigit = l.takeWhile isDig := by rw [isDigit_fun]

theorem dw_digits (l : List Char) : l.dropWhile ExprScan.isDigit = l.dropWhile isDig := by rw [isDigit_fun]

/-! ## digit values -/

theorem digitsVal_foldl (l : List Char) (a : Nat) :
    l.foldl (fun a c => 10 * a + ExprScan.digitVal c) a = l.foldl (fun a c => a * 10 + digVal c) a := by
  induction l generalizing a with
  | nil => rfl
  | cons c l ih =>
    simp only [List.foldl_cons]
    rw [digitVal_eq_digVal, Nat.mul_comm 10 a]
    exact ih _

/-- the two digit-string values are the same function -/
theorem digitsVal_eq_natOf (l : List Char) : ExprScan.digitsVal l = natOf l :=
  digitsVal_foldl l 0

theorem natOf_append (a b : List Char) : natOf (a ++ b) = natOf a * 10 ^ b.length + natOf b := by
  simp only [natOf, List.foldl_append]
  exact natOf_foldl b _

/-! ## `float()` on the text of a literal with Unicode decimal digits -/

theorem digVal_lt {c : Char} (h : isDig c = true) : digVal c < 10 ∧ decDigit? c = some (digVal c) := by
  unfold isDig at h
  obtain ⟨d, hd⟩ := Option.isSome_iff_exists.mp h
  have hd' := hd
  rw [decDigit?_eq] at hd'
  obtain ⟨z, _, h1, h2, e⟩ := decDigitN?_zero hd'
  simp only [digVal, hd, Option.getD_some]
  exact ⟨by omega, trivial⟩

/-- the ASCII digit `_PyUnicode_TransformDecimalAndSpaceToASCII` writes for a decimal digit -/
def ascOf (c : Char) : Char := Char.ofNat (48 + digVal c)

/-- what the transformation does to one character of a literal -/
def fixChar (c : Char) : Char := if isDig c then ascOf c else c

theorem ascOf_ascii {c : Char} (h : isDig c = true) : isAsciiDigit (ascOf c) = true ∧ digVal (ascOf c) = digVal c :=
  ⟨ascii_digitChar _ (digVal_lt h).1, digVal_digitChar _ (digVal_lt h).1⟩

theorem ascOf_of_ascii {c : Char} (h : isAsciiDigit c = true) : ascOf c = c := by
  have hv : digVal c = c.toNat - 48 := by simp [digVal, decDigit?, h]
  simp only [isAsciiDigit, decide_eq_true_eq] at h
  have e : 48 + (c.toNat - 48) = c.toNat := by omega
  simp only [ascOf, hv, e, Char.ofNat_toNat]

def uniSpaceCodes : List Nat :=
  [0x85, 0xa0, 0x1680, 0x2000, 0x2001, 0x2002, 0x2003, 0x2004, 0x2005, 0x2006, 0x2007, 0x2008, 0x2009, 0x200a, 0x2028, 0x2029,
   0x202f, 0x205f, 0x3000]

theorem uniSpaceCodes_not_digit : ∀ n ∈ uniSpaceCodes, decDigitN? n = none := by decide +kernel

theorem dig_not_uniSpace {c : Char} (h : isDig c = true) : isUniSpace c = false := by
  cases hs : isUniSpace c with
  | false => rfl
  | true =>
    exfalso
    have hm : c.toNat ∈ uniSpaceCodes := by
      simp only [isUniSpace, decide_eq_true_eq] at hs
      simp only [uniSpaceCodes, List.mem_cons, List.not_mem_nil, or_false]
      omega
    have := uniSpaceCodes_not_digit _ hm
    rw [← decDigit?_eq] at this
    simp [isDig, this] at h

theorem pyTransform_fix {l : List Char} (h : ∀ c ∈ l, isDig c = true ∨ c.toNat < 128) : pyTransform l = some (l.map fixChar) := by
  induction l with
  | nil => rfl
  | cons c cs ih =>
    have ih' := ih (fun d hd => h d (List.mem_cons_of_mem _ hd))
    by_cases ha : c.toNat < 128
    · have hf : fixChar c = c := by
        unfold fixChar
        split
        · rename_i hd; exact ascOf_of_ascii (ascii_of_isDig hd ha)
        · rfl
      simp [pyTransform, ha, ih', hf]
    · have hd : isDig c = true := by
        rcases h c (List.mem_cons_self ..) with hd | hd
        · exact hd
        · exact absurd hd ha
      simp [pyTransform, ha, ih', dig_not_uniSpace hd, (digVal_lt hd).2, fixChar, hd, ascOf]

/-- the literal `float()` sees: every digit replaced by its ASCII digit -/
def ascTok (t : Tok) : Tok :=
  ⟨t.sign, t.ip.map ascOf, t.frac.map (fun fp => fp.map ascOf), t.exp.map (fun e => ⟨e.upper, e.sign, e.digits.map ascOf⟩)⟩

theorem map_fix_digs {l : List Char} (h : Digs l) : l.map fixChar = l.map ascOf :=
  List.map_congr_left (fun c hc => by simp [fixChar, h c hc])

theorem map_fix_sign (s : Sign) : s.text.map fixChar = s.text := by
  cases s <;> simp [Sign.text, fixChar] <;> decide

theorem text_fix {strict : Bool} {t : Tok} (h : TokWF strict t) : t.text.map fixChar = (ascTok t).text := by
  obtain ⟨sign, ip, frac, exp⟩ := t
  have h1 : (fracText frac).map fixChar = fracText (frac.map (fun fp => fp.map ascOf)) := by
    cases frac with
    | none => rfl
    | some fp =>
      have : fixChar '.' = '.' := by decide
      simp [fracText, this, map_fix_digs (h.fp fp rfl)]
  have h2 : (expText exp).map fixChar = expText (exp.map (fun e => ⟨e.upper, e.sign, e.digits.map ascOf⟩)) := by
    cases exp with
    | none => rfl
    | some e =>
      have he : fixChar 'e' = 'e' := by decide
      have hE : fixChar 'E' = 'E' := by decide
      simp only [expText, ExpPart.text, Option.map_some, List.map_cons, List.map_append, map_fix_sign,
        map_fix_digs (h.exp e rfl).digs]
      cases e.upper <;> simp [he, hE]
  simp only [Tok.text, ascTok, List.map_append, map_fix_sign, map_fix_digs h.ip, h1, h2]

theorem digs_map_asc {l : List Char} (h : Digs l) : AsciiDigs (l.map ascOf) := by
  intro c hc
  obtain ⟨d, hd, rfl⟩ := List.mem_map.mp hc
  exact (ascOf_ascii (h d hd)).1

theorem natOf_foldl_asc {l : List Char} (h : Digs l) (a : Nat) :
    (l.map ascOf).foldl (fun a c => a * 10 + digVal c) a = l.foldl (fun a c => a * 10 + digVal c) a := by
  induction l generalizing a with
  | nil => rfl
  | cons c l ih =>
    simp only [List.map_cons, List.foldl_cons, (ascOf_ascii (h c (List.mem_cons_self ..))).2]
    exact ih (fun d hd => h d (List.mem_cons_of_mem _ hd)) _

theorem natOf_map_asc {l : List Char} (h : Digs l) : natOf (l.map ascOf) = natOf l := natOf_foldl_asc h 0

theorem ascTok_ascii {strict : Bool} {t : Tok} (h : TokWF strict t) : TokAscii (ascTok t) := by
  refine ⟨digs_map_asc h.ip, ?_, ?_⟩
  · intro fp hfp
    cases hf : t.frac with
    | none => simp [ascTok, hf] at hfp
    | some fp0 =>
      simp only [ascTok, hf, Option.map_some, Option.some.injEq] at hfp
      subst hfp; exact digs_map_asc (h.fp fp0 hf)
  · intro e he
    cases hx : t.exp with
    | none => simp [ascTok, hx] at he
    | some e0 =>
      simp only [ascTok, hx, Option.map_some, Option.some.injEq] at he
      subst he; exact digs_map_asc (h.exp e0 hx).digs

theorem ascTok_wf {strict : Bool} {t : Tok} (h : TokWF strict t) : TokWF strict (ascTok t) := by
  have ha := ascTok_ascii h
  refine ⟨digs_of_ascii ha.ip, fun fp hfp => digs_of_ascii (ha.fp fp hfp), ?_, ?_⟩
  · rcases h.someDigit with hh | ⟨hs, fp, hfp, hne⟩
    · left; simpa [ascTok] using hh
    · right; exact ⟨hs, fp.map ascOf, by simp [ascTok, hfp], by simpa using hne⟩
  · intro e he
    cases hx : t.exp with
    | none => simp [ascTok, hx] at he
    | some e0 =>
      simp only [ascTok, hx, Option.map_some, Option.some.injEq] at he
      have hw := h.exp e0 hx
      subst he
      exact ⟨digs_of_ascii (digs_map_asc hw.digs), by simpa using hw.ne, hw.strictE⟩

theorem ascTok_val {strict : Bool} {t : Tok} (h : TokWF strict t) : (ascTok t).val = t.val := by
  obtain ⟨sign, ip, frac, exp⟩ := t
  have h1 : fracVal (frac.map (fun fp => fp.map ascOf)) = fracVal frac := by
    cases frac with
    | none => rfl
    | some fp => simp [fracVal, natOf_map_asc (h.fp fp rfl)]
  have h2 : expVal (exp.map (fun e => (⟨e.upper, e.sign, e.digits.map ascOf⟩ : ExpPart))) = expVal exp := by
    cases exp with
    | none => rfl
    | some e => simp [expVal, ExpPart.val, natOf_map_asc (h.exp e rfl).digs]
  simp only [Tok.val, ascTok, natOf_map_asc h.ip, h1, h2]

/-- **`float()` never raises on what `_R_EXPR_NUMBER` matched**: on the text of a literal of the grammar — its digits any
Unicode decimal digits — `float()` sees exactly that literal (`float('١٢.٥e+٣') == 12500.0`).  Generalises
`C13.floatText_text` (ASCII digits). -/
theorem floatText_text_uni {strict : Bool} {t : Tok} (h : TokWF strict t) (hs : TokWF false t) :
    floatText (String.ofList t.text) = some (.fin t.val) := by
  have hcs : ∀ c ∈ t.text, isDig c = true ∨ c.toNat < 128 := by
    obtain ⟨sign, ip, frac, exp⟩ := t
    intro c hc
    simp only [Tok.text, List.mem_append] at hc
    rcases hc with hc | hc | hc | hc
    · right; cases sign <;> simp [Sign.text] at hc <;> (subst hc; decide)
    · exact Or.inl (h.ip c hc)
    · cases frac with
      | none => simp [fracText] at hc
      | some fp =>
        simp [fracText] at hc
        rcases hc with hc | hc
        · right; subst hc; decide
        · exact Or.inl (h.fp fp rfl c hc)
    · cases exp with
      | none => simp [expText] at hc
      | some e =>
        simp [expText, ExpPart.text] at hc
        rcases hc with hc | hc | hc
        · right; subst hc; cases e.upper <;> decide
        · right; cases hsg : e.sign <;> simp [hsg, Sign.text] at hc <;> (subst hc; decide)
        · exact Or.inl ((h.exp e rfl).digs c hc)
  have h1 : pyTransform t.text = some (ascTok t).text := by rw [pyTransform_fix hcs, text_fix h]
  have ha := ascTok_ascii h
  have h1' : pyTransform (ascTok t).text = some (ascTok t).text :=
    pyTransform_ascii (fun c hc => numChar_lt (numChars_text ha c hc))
  have e : floatText (String.ofList t.text) = floatText (String.ofList (ascTok t).text) := by
    simp only [floatText, floatBody, String.toList_ofList, h1, h1']
  rw [e, floatText_text (ascTok_wf h) (ascTok_wf hs) ha, ascTok_val h]

/-! ## the value -/

theorem arith (I F k : Nat) (z : Int) :
    ((I : Rat) + (F : Rat) / (10 : Rat) ^ k) * (10 : Rat) ^ z =
      (if 0 ≤ z - (k : Int) then ((((I * 10 ^ k + F : Nat) : Int) * (10 : Int) ^ (z - (k : Int)).toNat : Int) : Rat)
       else mkRat ((I * 10 ^ k + F : Nat) : Int) (10 ^ (-(z - (k : Int))).toNat)) := by
  have hA : (10 : Rat) ^ k ≠ 0 := by
    have := Rat.pow_pos (a := (10:Rat)) (n := k) (by decide); grind
  have h10 : (10 : Rat) ≠ 0 := by decide
  have c1 : (((I : Nat) : Int) : Rat) = (I : Rat) := rfl
  have c2 : (((F : Nat) : Int) : Rat) = (F : Rat) := rfl
  split
  · rename_i h
    obtain ⟨n, hn⟩ : ∃ n : Nat, z = (k : Int) + n := ⟨(z - k).toNat, by omega⟩
    subst hn
    have e : ((k : Int) + (n : Int) - (k : Int)).toNat = n := by omega
    rw [e, Rat.zpow_add h10, Rat.zpow_natCast, Rat.zpow_natCast]
    simp
    rw [c1, c2]
    generalize (10 : Rat) ^ k = A at hA ⊢
    generalize (10 : Rat) ^ n = B
    generalize (I : Rat) = x
    generalize (F : Rat) = y
    have : A * A⁻¹ = 1 := Rat.mul_inv_cancel A hA
    grind
  · rename_i h
    obtain ⟨n, hn⟩ : ∃ n : Nat, z = (k : Int) + -(n : Int) := ⟨(-(z - k)).toNat, by omega⟩
    subst hn
    have e : (-((k : Int) + -(n : Int) - (k : Int))).toNat = n := by omega
    rw [e, Rat.zpow_add h10, Rat.zpow_neg, Rat.zpow_natCast, Rat.zpow_natCast, Rat.mkRat_eq_div]
    simp
    rw [c1, c2]
    generalize (10 : Rat) ^ k = A at hA ⊢
    generalize (10 : Rat) ^ n = B
    generalize (I : Rat) = x
    generalize (F : Rat) = y
    have : A * A⁻¹ = 1 := Rat.mul_inv_cancel A hA
    grind

/-- **one value**: the rational `ExprScan.decVal` computes from the pieces of a literal is the value `NumText.Tok.val`
of the literal (any characters: both sides read a non-digit as 0) -/
theorem val_bridge (sg : Sign) (ip : List Char) (fr : Option (List Char)) (ex : Option ExpPart) :
    ExprScan.decVal (decide (sg = .minus)) ip (fr.getD []) (expVal ex) = Tok.val ⟨sg, ip, fr, ex⟩ := by
  have hfv : fracVal fr = (natOf (fr.getD []) : Rat) / (10 : Rat) ^ (fr.getD []).length := by
    cases fr with
    | none => simp [fracVal, natOf]; grind
    | some fp => rfl
  have hm : ExprScan.digitsVal (ip ++ fr.getD []) = natOf ip * 10 ^ (fr.getD []).length + natOf (fr.getD []) := by
    rw [digitsVal_eq_natOf, natOf_append]
  have key := arith (natOf ip) (natOf (fr.getD [])) (fr.getD []).length (expVal ex)
  simp only [Tok.val, hfv, ExprScan.decVal, hm]
  rw [← key]
  by_cases hs : sg = .minus
  · simp [hs, signVal]; grind
  · simp [hs, signVal]

/-! ## sign, fraction, exponent -/

theorem scanSign_bridge (l : List Char) :
    ExprScan.scanSign l = (decide ((NumText.scanSign l).1 = .minus), (NumText.scanSign l).2) := by
  cases l with
  | nil => rfl
  | cons c r =>
    simp only [ExprScan.scanSign, NumText.scanSign]
    by_cases h1 : c = '+'
    · simp [h1]
    · by_cases h2 : c = '-'
      · simp [h1, h2]
      · simp [h1, h2]

theorem scanFrac_bridge (l : List Char) :
    ExprScan.scanFrac l = (((NumText.scanFrac l).1).getD [], (NumText.scanFrac l).2) := by
  cases l with
  | nil => rfl
  | cons c r =>
    simp only [ExprScan.scanFrac, NumText.scanFrac]
    by_cases h1 : c = '.'
    · simp [h1, tw_digits, dw_digits]
    · simp [h1]

theorem scanExp_bridge (l : List Char) :
    ExprScan.scanExp l = (expVal (NumText.scanExp true l).1, (NumText.scanExp true l).2) := by
  match l with
  | [] => rfl
  | [c] =>
    simp only [ExprScan.scanExp, NumText.scanExp]
    by_cases hc : c = 'e'
    · simp [hc, NumText.scanSign, expVal]
    · simp [hc, expVal]
  | c :: s :: r =>
    simp only [ExprScan.scanExp, NumText.scanExp]
    by_cases hc : c = 'e'
    · subst hc
      by_cases hp : s = '+'
      · subst hp
        by_cases hne : r.takeWhile isDig = []
        · simp [NumText.scanSign, tw_digits, dw_digits, hne, expVal]
        · simp [NumText.scanSign, tw_digits, dw_digits, hne, expVal, ExpPart.val, digitsVal_eq_natOf]
      · by_cases hm : s = '-'
        · subst hm
          by_cases hne : r.takeWhile isDig = []
          · simp [NumText.scanSign, tw_digits, dw_digits, hne, expVal]
          · simp [NumText.scanSign, tw_digits, dw_digits, hne, expVal, ExpPart.val, digitsVal_eq_natOf]
        · simp [NumText.scanSign, hp, hm, expVal]
    · simp [hc, expVal]

/-! ## the whole literal -/

/-- `ExprScan.scanNumber` behind its leading white space -/
def numCore (t : List Char) : Option (Rat × List Char) :=
  let (neg, t1) := ExprScan.scanSign t
  let ip := t1.takeWhile ExprScan.isDigit
  if ip.isEmpty then none
  else
    let (fp, t3) := ExprScan.scanFrac (t1.dropWhile ExprScan.isDigit)
    let (ex, t4) := ExprScan.scanExp t3
    some (ExprScan.decVal neg ip fp ex, t4)

theorem scanNumber_eq_numCore (t : List Char) : ExprScan.scanNumber t = numCore (t.dropWhile isReSpace) := by
  show numCore (ExprScan.skipWs t) = _
  rw [ExprScan.skipWs, isPySpace_fun]

/-- **one scanner**: on EVERY text the hand-written number scanner of the expression parser model returns the value of the
literal C13's model of `_R_EXPR_NUMBER` matches, and the same rest -/
theorem numCore_eq_scanTok (l : List Char) :
    numCore l = (scanTok true l).map (fun p => (p.1.val, p.2)) := by
  unfold numCore scanTok
  rw [scanSign_bridge l]
  generalize NumText.scanSign l = sr
  obtain ⟨sg, t1⟩ := sr
  simp only
  rw [tw_digits, dw_digits, scanFrac_bridge]
  generalize NumText.scanFrac (t1.dropWhile isDig) = fr
  obtain ⟨fo, t3⟩ := fr
  simp only
  rw [scanExp_bridge]
  generalize NumText.scanExp true t3 = er
  obtain ⟨eo, t4⟩ := er
  simp only
  by_cases hip : t1.takeWhile isDig = []
  · simp [hip]
  · simp [hip, val_bridge sg _ fo eo]

end C13Bridge
