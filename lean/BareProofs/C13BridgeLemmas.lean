import BareProofs.C13
import BareModel.ExprParse

/-!
# C13Bridge — helper lemmas: the two number scanners, piece by piece

`ExprScan.scanNumber` (the literal scanner the expression parser model uses) and `NumText.scanTok true` (C13's model of
`_R_EXPR_NUMBER`) are compared component by component: white space class, sign, integer digits, fraction, exponent, and
the value (`ExprScan.decVal` against `NumText.Tok.val`).  The property theorems are in `BareProofs/C13Bridge.lean`.
-/
set_option linter.unusedSimpArgs false
set_option linter.unusedVariables false

namespace C13Bridge
open NumText C13

/-! ## character classes -/

/-- the two models of regex `\s` are the same set (29 code points) -/
theorem isPySpace_eq (c : Char) : ExprScan.isPySpace c = isReSpace c := by
  simp only [ExprScan.isPySpace, isReSpace, isUniSpace]
  rw [Bool.eq_iff_iff]
  simp
  omega

theorem isPySpace_fun : ExprScan.isPySpace = isReSpace := funext isPySpace_eq

/-- `ExprScan.isDigit` is the ASCII part of `\d` -/
theorem isDigit_eq_ascii (c : Char) : ExprScan.isDigit c = isAsciiDigit c := by
  simp [ExprScan.isDigit, isAsciiDigit]

/-- every character of the list that regex `\d` accepts is an ASCII digit (the domain on which the two scanners agree) -/
def DigitsAscii (l : List Char) : Prop := ∀ c ∈ l, isDig c = true → isAsciiDigit c = true

theorem DigitsAscii.tail {c : Char} {l : List Char} (h : DigitsAscii (c :: l)) : DigitsAscii l :=
  fun d hd => h d (List.mem_cons_of_mem _ hd)

theorem DigitsAscii.of_subset {l m : List Char} (h : DigitsAscii l) (hs : ∀ c ∈ m, c ∈ l) : DigitsAscii m :=
  fun d hd => h d (hs d hd)

theorem DigitsAscii.dropWhile {l : List Char} (h : DigitsAscii l) (p : Char → Bool) : DigitsAscii (l.dropWhile p) :=
  h.of_subset (fun c hc => (List.dropWhile_sublist p).subset hc)

theorem isDig_eq_isDigit {l : List Char} (h : DigitsAscii l) : ∀ c ∈ l, isDig c = ExprScan.isDigit c := by
  intro c hc
  rw [isDigit_eq_ascii]
  cases hd : isDig c with
  | true => exact (h c hc hd).symm
  | false =>
    cases ha : isAsciiDigit c with
    | false => rfl
    | true => rw [isDig_of_ascii ha] at hd; cases hd

theorem takeWhile_congr' {p q : Char → Bool} : ∀ {l : List Char}, (∀ c ∈ l, p c = q c) → l.takeWhile p = l.takeWhile q
  | [], _ => rfl
  | c :: l, h => by
    have hc := h c (List.mem_cons_self ..)
    have ih := takeWhile_congr' (l := l) (fun d hd => h d (List.mem_cons_of_mem _ hd))
    simp only [List.takeWhile_cons, hc, ih]

theorem dropWhile_congr' {p q : Char → Bool} : ∀ {l : List Char}, (∀ c ∈ l, p c = q c) → l.dropWhile p = l.dropWhile q
  | [], _ => rfl
  | c :: l, h => by
    have hc := h c (List.mem_cons_self ..)
    have ih := dropWhile_congr' (l := l) (fun d hd => h d (List.mem_cons_of_mem _ hd))
    simp only [List.dropWhile_cons, hc, ih]

theorem tw_digits {l : List Char} (h : DigitsAscii l) : l.takeWhile ExprScan.isDigit = l.takeWhile isDig :=
  (takeWhile_congr' (isDig_eq_isDigit h)).symm

theorem dw_digits {l : List Char} (h : DigitsAscii l) : l.dropWhile ExprScan.isDigit = l.dropWhile isDig :=
  (dropWhile_congr' (isDig_eq_isDigit h)).symm

theorem ascii_takeWhile {l : List Char} (h : DigitsAscii l) : AsciiDigs (l.takeWhile isDig) := by
  intro c hc
  exact h c ((List.takeWhile_sublist isDig).subset hc) (mem_takeWhile_imp c hc)

/-! ## digit values -/

theorem digVal_ascii {c : Char} (h : isAsciiDigit c = true) : digVal c = c.toNat - 48 := by
  simp [digVal, decDigit?, h]

theorem digitsVal_foldl {l : List Char} (h : AsciiDigs l) (a : Nat) :
    l.foldl (fun a c => 10 * a + (c.toNat - 48)) a = l.foldl (fun a c => a * 10 + digVal c) a := by
  induction l generalizing a with
  | nil => rfl
  | cons c l ih =>
    simp only [List.foldl_cons]
    rw [digVal_ascii (h c (List.mem_cons_self ..)), Nat.mul_comm 10 a]
    exact ih (fun d hd => h d (List.mem_cons_of_mem _ hd)) _

/-- on ASCII digits the two digit-string values are the same function -/
theorem digitsVal_eq_natOf {l : List Char} (h : AsciiDigs l) : ExprScan.digitsVal l = natOf l :=
  digitsVal_foldl h 0

theorem natOf_append (a b : List Char) : natOf (a ++ b) = natOf a * 10 ^ b.length + natOf b := by
  simp only [natOf, List.foldl_append]
  exact natOf_foldl b _

theorem asciiDigs_append {a b : List Char} (ha : AsciiDigs a) (hb : AsciiDigs b) : AsciiDigs (a ++ b) := by
  intro c hc
  rcases List.mem_append.mp hc with h | h
  · exact ha c h
  · exact hb c h

/-! ## the value -/

theorem arith (I F k : Nat) (z : Int) :
    ((I : Rat) + (F : Rat) / (10 : Rat) ^ k) * (10 : Rat) ^ z =
      (if 0 ≤ z - (k : Int) then ((((I * 10 ^ k + F : Nat) : Int) * (10 : Int) ^ (z - (k : Int)).toNat : Int) : Rat)
       else mkRat ((I * 10 ^ k + F : Nat) : Int) (10 ^ (-(z - (k : Int))).toNat)) := by
  have hA : (10 : Rat) ^ k ≠ 0 := by
    have := Rat.pow_pos (a := (10:Rat)) (n := k) (by decide); grind
  have h10 : (10 : Rat) ≠ 0 := by decide
  have c1 : (((I : Nat) : Int) : Rat) = (I : Rat) := rfl
  have c2 : (((F : Nat) : Int) : Rat) = (F : Rat) := rfl
  split
  · rename_i h
    obtain ⟨n, hn⟩ : ∃ n : Nat, z = (k : Int) + n := ⟨(z - k).toNat, by omega⟩
    subst hn
    have e : ((k : Int) + (n : Int) - (k : Int)).toNat = n := by omega
    rw [e, Rat.zpow_add h10, Rat.zpow_natCast, Rat.zpow_natCast]
    simp
    rw [c1, c2]
    generalize (10 : Rat) ^ k = A at hA ⊢
    generalize (10 : Rat) ^ n = B
    generalize (I : Rat) = x
    generalize (F : Rat) = y
    have : A * A⁻¹ = 1 := Rat.mul_inv_cancel A hA
    grind
  · rename_i h
    obtain ⟨n, hn⟩ : ∃ n : Nat, z = (k : Int) + -(n : Int) := ⟨(-(z - k)).toNat, by omega⟩
    subst hn
    have e : (-((k : Int) + -(n : Int) - (k : Int))).toNat = n := by omega
    rw [e, Rat.zpow_add h10, Rat.zpow_neg, Rat.zpow_natCast, Rat.zpow_natCast, Rat.mkRat_eq_div]
    simp
    rw [c1, c2]
    generalize (10 : Rat) ^ k = A at hA ⊢
    generalize (10 : Rat) ^ n = B
    generalize (I : Rat) = x
    generalize (F : Rat) = y
    have : A * A⁻¹ = 1 := Rat.mul_inv_cancel A hA
    grind

/-- **one value**: the rational `ExprScan.decVal` computes from the pieces of a literal is the value `NumText.Tok.val`
of the literal (ASCII digits) -/
theorem val_bridge (sg : Sign) (ip : List Char) (fr : Option (List Char)) (ex : Option ExpPart)
    (hip : AsciiDigs ip) (hfp : ∀ fp, fr = some fp → AsciiDigs fp) :
    ExprScan.decVal (decide (sg = .minus)) ip (fr.getD []) (expVal ex) = Tok.val ⟨sg, ip, fr, ex⟩ := by
  have hfa : AsciiDigs (fr.getD []) := by
    cases fr with
    | none => intro c hc; simp at hc
    | some fp => exact hfp fp rfl
  have hfv : fracVal fr = (natOf (fr.getD []) : Rat) / (10 : Rat) ^ (fr.getD []).length := by
    cases fr with
    | none => simp [fracVal, natOf]; grind
    | some fp => rfl
  have hm : ExprScan.digitsVal (ip ++ fr.getD []) = natOf ip * 10 ^ (fr.getD []).length + natOf (fr.getD []) := by
    rw [digitsVal_eq_natOf (asciiDigs_append hip hfa), natOf_append]
  have key := arith (natOf ip) (natOf (fr.getD [])) (fr.getD []).length (expVal ex)
  simp only [Tok.val, hfv, ExprScan.decVal, hm]
  rw [← key]
  by_cases hs : sg = .minus
  · simp [hs, signVal]; grind
  · simp [hs, signVal]

/-! ## sign, fraction, exponent -/

theorem scanSign_bridge (l : List Char) :
    ExprScan.scanSign l = (decide ((NumText.scanSign l).1 = .minus), (NumText.scanSign l).2) := by
  cases l with
  | nil => rfl
  | cons c r =>
    simp only [ExprScan.scanSign, NumText.scanSign]
    by_cases h1 : c = '+'
    · simp [h1]
    · by_cases h2 : c = '-'
      · simp [h1, h2]
      · simp [h1, h2]

theorem scanSign_subset (l : List Char) : ∀ c ∈ (NumText.scanSign l).2, c ∈ l := by
  intro c hc
  generalize hsr : NumText.scanSign l = sr at hc
  obtain ⟨s, r⟩ := sr
  have := scanSign_sound hsr
  rw [this]; simp at hc ⊢; exact Or.inr hc

theorem scanFrac_bridge {l : List Char} (h : DigitsAscii l) :
    ExprScan.scanFrac l = (((NumText.scanFrac l).1).getD [], (NumText.scanFrac l).2) := by
  cases l with
  | nil => rfl
  | cons c r =>
    simp only [ExprScan.scanFrac, NumText.scanFrac]
    by_cases h1 : c = '.'
    · simp [h1, tw_digits h.tail, dw_digits h.tail]
    · simp [h1]

theorem scanFrac_ascii {l : List Char} (h : DigitsAscii l) : ∀ fp, (NumText.scanFrac l).1 = some fp → AsciiDigs fp := by
  cases l with
  | nil => intro fp hfp; simp [NumText.scanFrac] at hfp
  | cons c r =>
    intro fp hfp
    simp only [NumText.scanFrac] at hfp
    by_cases h1 : c = '.'
    · simp [h1] at hfp; subst hfp; exact ascii_takeWhile h.tail
    · simp [h1] at hfp

theorem scanFrac_subset (l : List Char) : ∀ c ∈ (NumText.scanFrac l).2, c ∈ l := by
  cases l with
  | nil => intro c hc; simp [NumText.scanFrac] at hc
  | cons d r =>
    intro c hc
    simp only [NumText.scanFrac] at hc
    by_cases h1 : d = '.'
    · simp [h1] at hc
      exact List.mem_cons_of_mem _ ((List.dropWhile_sublist isDig).subset hc)
    · simpa [h1] using hc

theorem scanExp_bridge {l : List Char} (h : DigitsAscii l) :
    ExprScan.scanExp l = (expVal (NumText.scanExp true l).1, (NumText.scanExp true l).2) := by
  match l, h with
  | [], _ => rfl
  | [c], _ =>
    simp only [ExprScan.scanExp, NumText.scanExp]
    by_cases hc : c = 'e'
    · simp [hc, NumText.scanSign, expVal]
    · simp [hc, expVal]
  | c :: s :: r, h =>
    have hr : DigitsAscii r := h.tail.tail
    simp only [ExprScan.scanExp, NumText.scanExp]
    by_cases hc : c = 'e'
    · subst hc
      by_cases hp : s = '+'
      · subst hp
        have hasc := ascii_takeWhile hr
        by_cases hne : r.takeWhile isDig = []
        · simp [NumText.scanSign, tw_digits hr, dw_digits hr, hne, expVal]
        · simp [NumText.scanSign, tw_digits hr, dw_digits hr, hne, expVal, ExpPart.val, digitsVal_eq_natOf hasc]
      · by_cases hm : s = '-'
        · subst hm
          have hasc := ascii_takeWhile hr
          by_cases hne : r.takeWhile isDig = []
          · simp [NumText.scanSign, tw_digits hr, dw_digits hr, hne, expVal]
          · simp [NumText.scanSign, tw_digits hr, dw_digits hr, hne, expVal, ExpPart.val, digitsVal_eq_natOf hasc]
        · simp [NumText.scanSign, hp, hm, expVal]
    · simp [hc, expVal]

theorem scanExp_ascii {l : List Char} (h : DigitsAscii l) : ∀ e, (NumText.scanExp true l).1 = some e → AsciiDigs e.digits := by
  intro e he
  generalize hsr : NumText.scanExp true l = sr at he
  obtain ⟨eo, r⟩ := sr
  simp only at he; subst he
  obtain ⟨hl, hw⟩ := scanExp_sound hsr
  intro c hc
  apply h c _ ((hw e rfl).digs c hc)
  rw [hl]; simp [expText, ExpPart.text, hc]

/-! ## the whole literal -/

/-- `ExprScan.scanNumber` behind its leading white space -/
def numCore (t : List Char) : Option (Rat × List Char) :=
  let (neg, t1) := ExprScan.scanSign t
  let ip := t1.takeWhile ExprScan.isDigit
  if ip.isEmpty then none
  else
    let (fp, t3) := ExprScan.scanFrac (t1.dropWhile ExprScan.isDigit)
    let (ex, t4) := ExprScan.scanExp t3
    some (ExprScan.decVal neg ip fp ex, t4)

theorem scanNumber_eq_numCore (t : List Char) : ExprScan.scanNumber t = numCore (t.dropWhile isReSpace) := by
  show numCore (ExprScan.skipWs t) = _
  rw [ExprScan.skipWs, isPySpace_fun]

/-- **one scanner**: on a text whose `\d` characters are ASCII digits the hand-written number scanner of the expression
parser model returns the value of the literal C13's model of `_R_EXPR_NUMBER` matches, and the same rest -/
theorem numCore_eq_scanTok {l : List Char} (h : DigitsAscii l) :
    numCore l = (scanTok true l).map (fun p => (p.1.val, p.2)) := by
  unfold numCore scanTok
  rw [scanSign_bridge l]
  have h1 : DigitsAscii (NumText.scanSign l).2 := h.of_subset (scanSign_subset l)
  generalize NumText.scanSign l = sr at h1
  obtain ⟨sg, t1⟩ := sr
  simp only at h1 ⊢
  have h2 : DigitsAscii (t1.dropWhile isDig) := h1.dropWhile _
  rw [tw_digits h1, dw_digits h1, scanFrac_bridge h2]
  have hfa := scanFrac_ascii h2
  have h3 : DigitsAscii (NumText.scanFrac (t1.dropWhile isDig)).2 := h2.of_subset (scanFrac_subset _)
  generalize NumText.scanFrac (t1.dropWhile isDig) = fr at hfa h3
  obtain ⟨fo, t3⟩ := fr
  simp only at hfa h3 ⊢
  rw [scanExp_bridge h3]
  have hea := scanExp_ascii h3
  generalize NumText.scanExp true t3 = er at hea
  obtain ⟨eo, t4⟩ := er
  simp only at hea ⊢
  by_cases hip : t1.takeWhile isDig = []
  · simp [hip]
  · simp [hip, val_bridge sg _ fo eo (ascii_takeWhile h1) hfa]

end C13Bridge
