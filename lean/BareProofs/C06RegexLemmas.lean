import BareModel.RxPatterns
import BareProofs.C10Lemmas

/-!
# C06RegexLemmas — general facts about the backtracking matcher `Rx.m`

* `star_atom_backoff`   a greedy star over a one-character matcher followed by ANY continuation `k` = take the longest
                        run, then give characters back one at a time until `k` accepts (`backoff`)
* `star_atom_det`       … and when `k` cannot start with a character of the run (disjoint follow set) the star is the
                        deterministic `takeWhile / dropWhile`
* `kw_match`            a literal word = `List.isPrefixOf`
* `ws_eol`, `ident_det`, `lead` …  the building blocks shared by the statement patterns
-/

namespace C06Regex
open Rx Text Scan

/-! ## advancing a state, backing off -/

/-- `j` more characters consumed -/
def adv (st : St) (j : Nat) : St := ⟨st.pos + j, st.rest.drop j, st.caps⟩

@[simp] theorem adv_zero (st : St) : adv st 0 = st := by simp [adv]

theorem adv_adv (st : St) (i j : Nat) : adv (adv st i) j = adv st (i + j) := by
  simp [adv, List.drop_drop, Nat.add_assoc]

/-- try `k` after `n` characters, then after `n - 1`, …, then after none: the first success -/
def backoff (k : K) (st : St) : Nat → Option St
  | 0 => k st
  | j + 1 => k (adv st (j + 1)) <|> backoff k st j

theorem backoff_shift (k : K) (st : St) : ∀ m, backoff k st (m + 1) = (backoff k (adv st 1) m <|> k st)
  | 0 => by simp [backoff]
  | m + 1 => by
    rw [backoff, backoff_shift k st m]
    simp only [backoff, adv_adv]
    rw [show 1 + (m + 1) = m + 1 + 1 from by omega]
    simp [Option.or_assoc]

theorem backoff_det (k : K) (st : St) : ∀ n, (∀ j, j < n → k (adv st j) = none) → backoff k st n = k (adv st n)
  | 0, _ => by simp [backoff]
  | n + 1, h => by
    rw [backoff, backoff_det k st n (fun j hj => h j (by omega)), h n (by omega)]
    simp

theorem one_m (a : Atom) : (Rx.one a).m = step a := by
  funext st k; simp [Rx.m]

/-- the greedy loop over a one-character matcher -/
theorem loop_step (a : Atom) (k : K) : ∀ (n : Nat) (st : St), st.rest.length ≤ n →
    loop (step a) n st k = backoff k st (st.rest.takeWhile a.test).length
  | 0, st, h => by
    have : st.rest = [] := List.length_eq_zero_iff.mp (by omega)
    simp [loop, this, backoff]
  | n + 1, ⟨pos, rest, caps⟩, h => by
    cases rest with
    | nil => simp [loop, step, backoff]
    | cons c r =>
      by_cases hc : a.test c = true
      · have ih := loop_step a k n ⟨pos + 1, r, caps⟩ (by simpa using h)
        simp only [loop, step, hc, if_true, List.length_cons, Nat.lt_add_one, List.takeWhile_cons]
        rw [ih, backoff_shift]
        simp [adv]
      · simp [loop, step, hc, backoff]

/-- **greedy star over a class, followed by a continuation = longest run, then back off** -/
theorem star_atom_backoff (a : Atom) (st : St) (k : K) :
    (Rx.star (.one a)).m st k = backoff k st (st.rest.takeWhile a.test).length := by
  simp only [Rx.m, one_m]; exact loop_step a k _ st (Nat.le_refl _)

theorem drop_takeWhile_head (p : Char → Bool) : ∀ (l : List Char) (j : Nat), j < (l.takeWhile p).length →
    ∃ c r, l.drop j = c :: r ∧ p c = true
  | [], j, h => by simp at h
  | c :: l, j, h => by
    by_cases hc : p c = true
    · cases j with
      | zero => exact ⟨c, l, rfl, hc⟩
      | succ j =>
        simp only [List.takeWhile_cons, hc, if_true, List.length_cons] at h
        simpa using drop_takeWhile_head p l j (by omega)
    · simp [List.takeWhile_cons, hc] at h

theorem drop_length_takeWhile (p : Char → Bool) : ∀ (l : List Char), l.drop (l.takeWhile p).length = l.dropWhile p
  | [] => rfl
  | c :: l => by
    by_cases hc : p c = true
    · simp [List.takeWhile_cons, List.dropWhile_cons, hc, drop_length_takeWhile p l]
    · simp [List.takeWhile_cons, List.dropWhile_cons, hc]

/-- the state after the longest run of `p` -/
def skip (p : Char → Bool) (st : St) : St := ⟨st.pos + (st.rest.takeWhile p).length, st.rest.dropWhile p, st.caps⟩

theorem adv_takeWhile (p : Char → Bool) (st : St) : adv st (st.rest.takeWhile p).length = skip p st := by
  simp [adv, skip, drop_length_takeWhile]

/-- a continuation that cannot start with a character accepted by `p` -/
def RejectsHead (p : Char → Bool) (k : K) : Prop := ∀ st : St, (∃ c r, st.rest = c :: r ∧ p c = true) → k st = none

/-- disjoint follow set, local form: `k` rejects each of the states inside the run -/
theorem star_atom_det' (a : Atom) (st : St) (k : K)
    (hk : ∀ j c r, (adv st j).rest = c :: r → a.test c = true → k (adv st j) = none) :
    (Rx.star (.one a)).m st k = k (skip a.test st) := by
  rw [star_atom_backoff, backoff_det, adv_takeWhile]
  intro j hj
  obtain ⟨c, r, h1, h2⟩ := drop_takeWhile_head a.test st.rest j hj
  exact hk j c r (by simpa [adv] using h1) h2

/-- **disjoint follow set: the greedy star is the deterministic span** -/
theorem star_atom_det (a : Atom) (st : St) (k : K) (hk : RejectsHead a.test k) :
    (Rx.star (.one a)).m st k = k (skip a.test st) :=
  star_atom_det' a st k (fun j c r h1 h2 => hk _ ⟨c, r, h1, h2⟩)

/-- `a+` over a one-character matcher with a disjoint follow set -/
theorem plus_atom_det (a : Atom) (st : St) (k : K) (hk : RejectsHead a.test k) :
    (Rx.plus (.one a)).m st k =
      match st.rest with
      | c :: r => if a.test c then k (skip a.test ⟨st.pos + 1, r, st.caps⟩) else none
      | [] => none := by
  have h := fun st' => star_atom_det a st' k hk
  simp only [Rx.m, one_m] at h
  simp only [Rx.m, one_m, step]
  cases hr : st.rest with
  | nil => rfl
  | cons c r =>
    by_cases hc : a.test c = true
    · simp only [hc, if_true]; exact h ⟨st.pos + 1, r, st.caps⟩
    · simp [hc]

/-! ## literal words -/

theorem step_lit (e : Bool) (c : Char) (st : St) (k : K) :
    step (.lit e c) st k = match st.rest with
      | x :: r => if x = c then k ⟨st.pos + 1, r, st.caps⟩ else none
      | [] => none := by
  unfold step; cases st.rest <;> simp [Atom.test]

/-- a literal word matches exactly when it is a prefix of the remaining input -/
theorem word1_m : ∀ (cs : List Char) (c : Char) (st : St) (k : K),
    (word1 c cs).m st k = if (c :: cs).isPrefixOf st.rest then k (adv st (cs.length + 1)) else none
  | [], c, st, k => by
    simp only [word1, Rx.lit, Rx.m, step_lit]
    cases hr : st.rest with
    | nil => simp
    | cons x r =>
      by_cases hx : x = c
      · subst hx; simp [adv, hr]
      · have : ¬ c = x := fun h => hx h.symm
        simp [hx, this]
  | d :: ds, c, st, k => by
    simp only [word1, Rx.lit, Rx.m, step_lit]
    cases hr : st.rest with
    | nil => simp
    | cons x r =>
      by_cases hx : x = c
      · subst hx
        have ih := word1_m ds d ⟨st.pos + 1, r, st.caps⟩ k
        simp only [Rx.lit] at ih
        simp only [if_true, ih, List.isPrefixOf, beq_self_eq_true, Bool.true_and]
        simp [adv, hr, Nat.add_assoc, Nat.add_comm 1]
      · have : ¬ c = x := fun h => hx h.symm
        simp [hx, List.isPrefixOf, this]

/-- **a literal keyword = `Scan.keyword?`** -/
theorem kw_match (w : String) (c : Char) (cs : List Char) (hw : w.toList = c :: cs) (st : St) (k : K) :
    (kw w.toList).m st k = match keyword? w st.rest with
      | some r => k ⟨st.pos + w.length, r, st.caps⟩
      | none => none := by
  rw [hw]; simp only [kw, word1_m, keyword?, hw]
  have hl : w.length = cs.length + 1 := by rw [← String.length_toList, hw]; rfl
  by_cases h : (c :: cs).isPrefixOf st.rest = true
  · simp [h, adv, hl]
  · simp [h]

/-! ## end of line, blanks -/

theorem atEnd_noNL : ∀ (r : List Char), '\n' ∉ r → atEnd r = r.isEmpty
  | [], _ => rfl
  | [c], h => by
    have : c ≠ '\n' := fun e => h (by simp [e])
    simp [atEnd, this]
  | _ :: _ :: _, _ => rfl

theorem eol_m (st : St) (k : K) (h : '\n' ∉ st.rest) :
    Rx.eol.m st k = match st.rest with | [] => k st | _ :: _ => none := by
  simp only [Rx.m, atEnd_noNL _ h]; cases st.rest <;> simp

theorem space_test : Atom.space.test = isSpace := by funext c; rfl

theorem takeWhile_length_of_all (p : Char → Bool) : ∀ l : List Char, l.all p = true → (l.takeWhile p).length = l.length
  | [], _ => rfl
  | c :: l, h => by
    simp only [List.all_cons, Bool.and_eq_true] at h
    simp [List.takeWhile_cons, h.1, takeWhile_length_of_all p l h.2]

theorem dropWhile_nil_iff_all (p : Char → Bool) : ∀ l : List Char, l.dropWhile p = [] ↔ l.all p = true
  | [] => by simp
  | c :: l => by
    by_cases hc : p c = true
    · simp [List.dropWhile_cons, hc, dropWhile_nil_iff_all p l]
    · simp [List.dropWhile_cons, hc]

theorem not_mem_dropWhile {x : Char} {p : Char → Bool} {l : List Char} (h : x ∉ l) : x ∉ l.dropWhile p :=
  fun hm => h ((List.dropWhile_sublist p).subset hm)

theorem not_mem_drop {x : Char} {n : Nat} {l : List Char} (h : x ∉ l) : x ∉ l.drop n :=
  fun hm => h ((List.drop_sublist n l).subset hm)

/-- `\s*$` on the rest of a line: everything left is blank -/
theorem ws_eol (st : St) (k : K) (h : '\n' ∉ st.rest) :
    ws.m st (fun st' => Rx.eol.m st' k) =
      if allSpace st.rest then k ⟨st.pos + st.rest.length, [], st.caps⟩ else none := by
  simp only [ws, sp]
  rw [star_atom_det']
  · rw [eol_m _ _ (by simpa [skip] using not_mem_dropWhile h)]
    simp only [skip, space_test]
    by_cases ha : allSpace st.rest = true
    · have h1 := (dropWhile_nil_iff_all isSpace st.rest).mpr ha
      simp [ha, h1, takeWhile_length_of_all isSpace st.rest ha]
    · have h1 : st.rest.dropWhile isSpace ≠ [] := fun e => ha ((dropWhile_nil_iff_all isSpace st.rest).mp e)
      cases hd : st.rest.dropWhile isSpace with
      | nil => exact absurd hd h1
      | cons c r => simp [ha]
  · intro j c r hr _
    rw [eol_m _ _ (by simpa [adv] using not_mem_drop h), hr]

/-! ## unfolding one constructor at a time -/

theorem seq_m (a b : Rx) (st : St) (k : K) : (a ⬝ b).m st k = a.m st (fun st' => b.m st' k) := by simp [Rx.m]
theorem bol_m (st : St) (k : K) : Rx.bol.m st k = if st.pos = 0 then k st else none := by simp [Rx.m]
theorem alt_m (a b : Rx) (st : St) (k : K) : (Rx.alt a b).m st k = (a.m st k <|> b.m st k) := by simp [Rx.m]
theorem opt_m (a : Rx) (st : St) (k : K) : (Rx.opt a).m st k = (a.m st k <|> k st) := by simp [Rx.m]
theorem ncg_m (a : Rx) (st : St) (k : K) : (Rx.ncg a).m st k = a.m st k := by simp [Rx.m]
theorem cap_m (i : Nat) (nm : Option String) (a : Rx) (st : St) (k : K) :
    (Rx.cap i nm a).m st k = a.m st (fun st' => k { st' with caps := (i, st.pos, st'.pos) :: st'.caps }) := by simp [Rx.m]
theorem plus_m (a : Rx) (st : St) (k : K) : (Rx.plus a).m st k = a.m st (fun st' => (Rx.star a).m st' k) := by simp [Rx.m]
theorem one_m' (a : Atom) (st : St) (k : K) : (Rx.one a).m st k = step a st k := by simp [Rx.m]

/-! ## leading blanks, identifiers, `\s*` before a literal -/

theorem skip_space_rest (st : St) : (skip isSpace st).rest = lstripL st.rest := rfl

/-- `^\s*R` when `R` cannot start with a blank: `R` runs on the stripped line -/
theorem lead (R : Rx) (line : Chars) (k : K) (hR : RejectsHead isSpace (fun st => R.m st k)) :
    (Rx.bol ⬝ ws ⬝ R).m ⟨0, line, []⟩ k = R.m ⟨(line.takeWhile isSpace).length, lstripL line, []⟩ k := by
  rw [seq_m, bol_m, seq_m]
  simp only [ws, sp, if_true]
  rw [star_atom_det _ _ _ (by simpa [space_test] using hR)]
  simp [skip, space_test, lstripL]

theorem idStart_test (c : Char) : idStart.test c = isIdStart c := by
  have e : (c = '_') ↔ c.toNat = 95 := by rw [← Char.toNat_inj]; rfl
  simp only [idStart, Atom.test, Item.test, List.any_cons, List.any_nil, isIdStart, Bool.or_false, bne_iff_ne, ne_eq,
    show 'A'.toNat = 65 from rfl, show 'Z'.toNat = 90 from rfl, show 'a'.toNat = 97 from rfl, show 'z'.toNat = 122 from rfl]
  rw [Bool.eq_iff_iff]
  simp [e, Bool.or_assoc]

theorem word_test : Atom.word.test = isWord := by funext c; rfl

theorem ident?_eq_append {s name r : Chars} (h : ident? s = some (name, r)) : s = name ++ r := by
  cases s with
  | nil => simp [ident?] at h
  | cons c cs =>
    by_cases hc : isIdStart c = true
    · simp only [ident?, hc, if_true, Option.some.injEq, Prod.mk.injEq] at h
      rw [← h.1, ← h.2]; simp
    · simp [ident?, hc] at h

/-- `[A-Za-z_]\w*` before a continuation that cannot start with a word character = `Scan.ident?` -/
theorem ident_det (st : St) (k : K) (hk : RejectsHead isWord k) :
    ident.m st k = match ident? st.rest with
      | some (name, r) => k ⟨st.pos + name.length, r, st.caps⟩
      | none => none := by
  simp only [ident, seq_m, one_m', step, idStart_test]
  cases hr : st.rest with
  | nil => simp [ident?]
  | cons c cs =>
    by_cases hc : isIdStart c = true
    · simp only [hc, if_true, ident?]
      rw [star_atom_det _ _ _ (by simpa [word_test] using hk)]
      simp [skip, word_test, Nat.add_assoc, Nat.add_comm 1]
    · simp [hc, ident?]

theorem rejects_caps (p : Char → Bool) (k : K) (f : St → List (Nat × Nat × Nat)) (hk : RejectsHead p k) :
    RejectsHead p (fun st => k { st with caps := f st }) := by
  intro st h; exact hk _ h

/-- a captured identifier -/
theorem cap_ident_det (i : Nat) (nm : Option String) (st : St) (k : K) (hk : RejectsHead isWord k) :
    (Rx.cap i nm ident).m st k = match ident? st.rest with
      | some (name, r) => k ⟨st.pos + name.length, r, (i, st.pos, st.pos + name.length) :: st.caps⟩
      | none => none := by
  rw [cap_m, ident_det _ _ (rejects_caps isWord k _ hk)]

/-- an identifier cannot start with a character that is not `[A-Za-z_]` -/
theorem rejects_cap_ident (p : Char → Bool) (hp : ∀ x, p x = true → isIdStart x = false) (i : Nat) (nm : Option String) (R : Rx)
    (k : K) : RejectsHead p (fun st => (Rx.cap i nm ident ⬝ R).m st k) := by
  intro st ⟨c, r, hr, hc⟩
  simp only [seq_m, cap_m, ident, one_m', step, hr, idStart_test, hp c hc]
  simp

theorem rejects_ident (p : Char → Bool) (hp : ∀ x, p x = true → isIdStart x = false) (R : Rx)
    (k : K) : RejectsHead p (fun st => (ident ⬝ R).m st k) := by
  intro st ⟨c, r, hr, hc⟩
  simp only [seq_m, ident, one_m', step, hr, idStart_test, hp c hc]
  simp

/-- a literal word cannot start with a character different from its first -/
theorem rejects_kw (p : Char → Bool) (w : String) (c : Char) (cs : List Char) (hw : w.toList = c :: cs) (hp : p c = false)
    (R : Rx) (k : K) : RejectsHead p (fun st => (kw w.toList ⬝ R).m st k) := by
  intro st ⟨x, r, hr, hx⟩
  have hne : ¬ c = x := fun e => by rw [e, hx] at hp; exact Bool.noConfusion hp
  show (kw w.toList ⬝ R).m st k = none
  rw [seq_m, kw_match w c cs hw]
  simp [keyword?, hw, hr, List.isPrefixOf, hne]

/-- `\s*` then a non-blank literal: the star takes all blanks -/
theorem ws_lit_det (e : Bool) (c : Char) (hc : isSpace c = false) (R : Rx) (st : St) (k : K) :
    (ws ⬝ Rx.one (.lit e c) ⬝ R).m st k = match lstripL st.rest with
      | x :: r => if x = c then R.m ⟨st.pos + (st.rest.takeWhile isSpace).length + 1, r, st.caps⟩ k else none
      | [] => none := by
  rw [seq_m]; simp only [ws, sp]
  rw [star_atom_det]
  · simp only [seq_m, one_m', step_lit, skip, space_test, lstripL]
    rfl
  · intro st' ⟨x, r, hr, hx⟩
    have : ¬ x = c := fun e => by rw [space_test, e, hc] at hx; exact Bool.noConfusion hx
    simp [seq_m, one_m', step_lit, hr, this]

/-- `\s*lit…` cannot start with a character that is neither blank nor the literal -/
theorem rejects_ws_lit (p : Char → Bool) (e : Bool) (c : Char) (hp : ∀ x, p x = true → isSpace x = false ∧ x ≠ c) (R : Rx) (k : K) :
    RejectsHead p (fun st => (ws ⬝ Rx.one (.lit e c) ⬝ R).m st k) := by
  intro st ⟨x, r, hr, hx⟩
  show (ws ⬝ Rx.one (.lit e c) ⬝ R).m st k = none
  rw [seq_m]; simp only [ws, sp]
  rw [star_atom_backoff]
  simp [hr, space_test, (hp x hx).1, backoff, seq_m, one_m', step_lit, (hp x hx).2]

theorem word_not_space {c : Char} (h : isWord c = true) : isSpace c = false := by
  cases hs : isSpace c with
  | false => rfl
  | true => have := C10.space_not_word hs; simp [h] at this

theorem space_not_idStart {c : Char} (h : isSpace c = true) : isIdStart c = false := by
  cases hs : isIdStart c with
  | false => rfl
  | true => have := C10.space_not_word h; simp [C10.idStart_isWord hs] at this

theorem lstrip_length (line : Chars) : line.length - (lstripL line).length = (line.takeWhile isSpace).length := by
  have := congrArg List.length (List.takeWhile_append_dropWhile (p := isSpace) (l := line))
  simp only [List.length_append] at this
  simp only [lstripL]; omega

theorem drop_ind (line : Chars) : line.drop (line.takeWhile isSpace).length = lstripL line := drop_length_takeWhile _ _

theorem slice_prefix (line : Chars) (a n : Nat) (name r : Chars) (h : line.drop a = name ++ r) (hn : name.length = n) :
    slice line (a, a + n) = name := by
  simp [slice, h, ← hn]

theorem ws_eol_seq (st : St) (k : K) (h : '\n' ∉ st.rest) :
    (ws ⬝ Rx.eol).m st k = if allSpace st.rest then k ⟨st.pos + st.rest.length, [], st.caps⟩ else none := by
  rw [seq_m]; exact ws_eol st k h

theorem noNL_lstrip_tail {r r2 : Chars} {x : Char} (h : '\n' ∉ r) (e : lstripL r = x :: r2) : '\n' ∉ r2 := by
  have h1 : '\n' ∉ lstripL r := not_mem_dropWhile h
  rw [e] at h1; exact fun hm => h1 (List.mem_cons_of_mem _ hm)

theorem lstrip_split_length (r : Chars) : (r.takeWhile isSpace).length + (lstripL r).length = r.length := by
  have := congrArg List.length (List.takeWhile_append_dropWhile (p := isSpace) (l := r))
  rw [List.length_append] at this
  exact this

/-- `\s*:\s*$` on the rest of a line -/
theorem colon_tail (st : St) (k : K) (h : '\n' ∉ st.rest) :
    (ws ⬝ lit ':' ⬝ ws ⬝ Rx.eol).m st k = match lstripL st.rest with
      | ':' :: r2 => if allSpace r2 then k ⟨st.pos + st.rest.length, [], st.caps⟩ else none
      | _ => none := by
  unfold lit
  rw [ws_lit_det false ':' (by decide)]
  have hl := lstrip_split_length st.rest
  cases hr : lstripL st.rest with
  | nil => rfl
  | cons x r2 =>
    rw [hr] at hl
    by_cases hx : x = ':'
    · subst hx
      simp only [if_true]
      rw [ws_eol_seq _ _ (by exact noNL_lstrip_tail h hr)]
      simp only [List.length_cons] at hl
      rw [show st.pos + (List.takeWhile isSpace st.rest).length + 1 + r2.length = st.pos + st.rest.length from by omega]
    · simp only [hx, if_false]
      split
      · rename_i heq; cases heq; exact absurd rfl hx
      · rfl

/-! ## `.`-runs to the end of the line -/

theorem backoff_some (k : K) (st : St) (v : St) : ∀ n, k (adv st n) = some v → backoff k st n = some v
  | 0, h => by simpa [backoff] using h
  | n + 1, h => by simp [backoff, h]

theorem dot_test_of_noNL {l : List Char} (h : '\n' ∉ l) : ∀ x ∈ l, Atom.dot.test x = true := by
  intro x hx
  have : x ≠ '\n' := fun e => h (e ▸ hx)
  simp [Atom.test, this]

theorem takeWhile_dot_length {l : List Char} (h : '\n' ∉ l) : (l.takeWhile Atom.dot.test).length = l.length :=
  takeWhile_length_of_all _ _ (by simpa [List.all_eq_true] using dot_test_of_noNL h)

/-- the greedy run of `.` goes to the end of the line when the continuation refuses everything before it -/
theorem dotstar_end (st : St) (K' : K) (h : '\n' ∉ st.rest) (hK : ∀ j, j < st.rest.length → K' (adv st j) = none) :
    (Rx.star (.one .dot)).m st K' = K' ⟨st.pos + st.rest.length, [], st.caps⟩ := by
  rw [star_atom_backoff, backoff_det, takeWhile_dot_length h]
  · simp [adv]
  · intro j hj
    rw [takeWhile_dot_length h] at hj
    exact hK j hj

theorem eol_none_of_ne (st : St) (k : K) (h : '\n' ∉ st.rest) (hne : st.rest ≠ []) : Rx.eol.m st k = none := by
  rw [eol_m _ _ h]
  cases hr : st.rest with
  | nil => exact absurd hr hne
  | cons _ _ => rfl

theorem drop_ne_nil {l : List Char} {j : Nat} (hj : j < l.length) : l.drop j ≠ [] := by
  intro e
  have := congrArg List.length e
  simp at this; omega

/-- `.*$` -/
theorem dotstar_eol (st : St) (k : K) (h : '\n' ∉ st.rest) :
    (Rx.star (.one .dot)).m st (fun st' => Rx.eol.m st' k) = k ⟨st.pos + st.rest.length, [], st.caps⟩ := by
  rw [dotstar_end _ _ h]
  · rw [eol_m _ _ (by simp)]
  · intro j hj
    exact eol_none_of_ne _ _ (by simpa [adv] using not_mem_drop h) (by simpa [adv] using drop_ne_nil hj)

/-- `(?P<g>.+)$` -/
theorem dotplus_eol (i : Nat) (nm : Option String) (st : St) (k : K) (h : '\n' ∉ st.rest) :
    (Rx.cap i nm (.plus (.one .dot)) ⬝ Rx.eol).m st k = match st.rest with
      | [] => none
      | _ :: _ => k ⟨st.pos + st.rest.length, [], (i, st.pos, st.pos + st.rest.length) :: st.caps⟩ := by
  rw [seq_m, cap_m, plus_m, one_m']
  cases hr : st.rest with
  | nil => simp [step, hr]
  | cons c r =>
    have hc : Atom.dot.test c = true := dot_test_of_noNL h c (by simp [hr])
    have hr' : '\n' ∉ r := fun hm => h (by rw [hr]; exact List.mem_cons_of_mem _ hm)
    simp only [step, hr, hc, if_true]
    rw [dotstar_end _ _ (by exact hr')]
    · rw [eol_m _ _ (by simp)]
      simp [Nat.add_assoc, Nat.add_comm 1]
    · intro j hj
      exact eol_none_of_ne _ _ (by simpa [adv] using not_mem_drop hr') (by simpa [adv] using drop_ne_nil hj)

/-- `\s*(?P<g>.+)$` at the top level: the blanks are skipped, but the last one is given back when nothing else is left -/
theorem ws_dotplus_eol (i : Nat) (nm : Option String) (st : St) (h : '\n' ∉ st.rest) :
    (ws ⬝ Rx.cap i nm (.plus (.one .dot)) ⬝ Rx.eol).m st some =
      if st.rest = [] then none
      else some ⟨st.pos + st.rest.length, [],
        (i, st.pos + min (st.rest.takeWhile isSpace).length (st.rest.length - 1), st.pos + st.rest.length) :: st.caps⟩ := by
  rw [seq_m]; simp only [ws, sp]
  rw [star_atom_backoff, space_test]
  have hK : ∀ j, j < st.rest.length → (Rx.cap i nm (.plus (.one .dot)) ⬝ Rx.eol).m (adv st j) some =
      some ⟨st.pos + st.rest.length, [], (i, st.pos + j, st.pos + st.rest.length) :: st.caps⟩ := by
    intro j hj
    rw [dotplus_eol _ _ _ _ (by simpa [adv] using not_mem_drop h)]
    cases hr : (adv st j).rest with
    | nil =>
      have := congrArg List.length hr
      simp [adv] at this; omega
    | cons c r =>
      have := congrArg List.length hr
      simp only [adv, List.length_drop, List.length_cons] at this
      simp only [adv, Option.some.injEq, St.mk.injEq, true_and, List.length_cons]
      rw [show st.pos + j + (r.length + 1) = st.pos + st.rest.length from by omega]
      exact ⟨rfl, rfl⟩
  have hle : (st.rest.takeWhile isSpace).length ≤ st.rest.length := (List.takeWhile_sublist _).length_le
  by_cases he : st.rest = []
  · simp [he, backoff, dotplus_eol, adv]
  · have hpos : 0 < st.rest.length := List.length_pos_iff.mpr he
    simp only [he, if_false]
    by_cases hlt : (st.rest.takeWhile isSpace).length < st.rest.length
    · rw [backoff_some _ _ _ _ (hK _ hlt), Nat.min_eq_left (by omega)]
    · have hn : (st.rest.takeWhile isSpace).length = (st.rest.length - 1) + 1 := by omega
      rw [hn, backoff]
      have h0 : (Rx.cap i nm (.plus (.one .dot)) ⬝ Rx.eol).m (adv st (st.rest.length - 1 + 1)) some = none := by
        rw [dotplus_eol _ _ _ _ (by simpa [adv] using not_mem_drop h)]
        have : (adv st (st.rest.length - 1 + 1)).rest = [] := by
          simp only [adv]; exact List.drop_eq_nil_of_le (by omega)
        rw [this]
      rw [h0, backoff_some _ _ _ _ (hK _ (by omega))]
      simp [Nat.min_eq_right (show st.rest.length - 1 ≤ st.rest.length - 1 + 1 from by omega)]

/-- `line.drop p = a ++ b` — the position bookkeeping of a state -/
theorem drop_add_of_drop (line a b : Chars) (p : Nat) (h : line.drop p = a ++ b) : line.drop (p + a.length) = b := by
  rw [← List.drop_drop, h]; simp

theorem length_of_drop (line r : Chars) (p : Nat) (h : line.drop p = r) (hr : r ≠ []) : p + r.length = line.length := by
  have := congrArg List.length h
  simp only [List.length_drop] at this
  have : 0 < r.length := List.length_pos_iff.mpr hr
  omega

/-- `^\s*R`, local form: `R` refuses each of the states inside the indentation -/
theorem lead' (R : Rx) (line : Chars) (k : K)
    (hR : ∀ j c r, line.drop j = c :: r → isSpace c = true → R.m ⟨j, line.drop j, []⟩ k = none) :
    (Rx.bol ⬝ ws ⬝ R).m ⟨0, line, []⟩ k = R.m ⟨(line.takeWhile isSpace).length, lstripL line, []⟩ k := by
  rw [seq_m, bol_m, seq_m]
  simp only [ws, sp, if_true]
  rw [star_atom_det']
  · simp [skip, space_test, lstripL]
  · intro j c r h1 h2
    have := hR j c r (by simpa [adv] using h1) (by simpa [space_test] using h2)
    simpa [adv] using this

theorem drop_last : ∀ (l : List Char) (c : Char), l.getLast? = some c → l.drop (l.length - 1) = [c]
  | [], c, h => by simp at h
  | [x], c, h => by simp at h; simp [h]
  | x :: y :: l, c, h => by
    have := drop_last (y :: l) c (by simpa [List.getLast?_cons_cons] using h)
    simpa using this

/-- the text of a group that ends where the rest `r` of the line ends -/
theorem slice_suffix (line r : Chars) (P m : Nat) (hd : line.drop P = r) (hm : m ≤ r.length) :
    slice line (P + m, P + r.length) = r.drop m := by
  simp only [slice]
  rw [← List.drop_drop, hd, show P + r.length - (P + m) = r.length - m from by omega]
  exact List.take_of_length_le (by simp)

end C06Regex
