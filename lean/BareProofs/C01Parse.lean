import BareProofs.C01ParseLemmas

/-!
# T1 `parseLines_render`: the stack/counter algorithm of `parse_script` computes the recursive lowering
-/

namespace C01
open Lower

/-! ## facts about the spec lowering -/

mutual
theorem lowerS_snd : ∀ (s : SStmt) (lp : Option (Name × Name)) (i : Nat), (lowerS lp s i).2 = cntS s i
  | .expr .., _, _ => rfl
  | .ret .., _, _ => rfl
  | .label .., _, _ => rfl
  | .jump .., _, _ => rfl
  | .include .., _, _ => rfl
  | .brk, _, _ => rfl
  | .cont, _, _ => rfl
  | .ite c t e, lp, i => by simp [lowerS, cntS, lowerB_snd t, lowerE_snd e]
  | .while c b, lp, i => by simp [lowerS, cntS, lowerB_snd b]
  | .for v ix vals b, lp, i => by simp [lowerS, cntS, lowerB_snd b]
  | .func fid n a l y b, lp, i => by simp [lowerS, cntS, lowerB_snd b]
theorem lowerB_snd : ∀ (B : List SStmt) (lp : Option (Name × Name)) (i : Nat), (lowerB lp B i).2 = cntB B i
  | [], _, _ => rfl
  | s :: ss, lp, i => by simp [lowerB, cntB, lowerS_snd s, lowerB_snd ss]
theorem lowerE_snd : ∀ (e : SElse) (lp : Option (Name × Name)) (cur done : Name) (i : Nat),
    (lowerElse lp cur done e i).2 = cntE e i
  | .none, _, _, _, _ => rfl
  | .els b, lp, _, _, i => by simp [lowerElse, cntE, lowerB_snd b]
  | .elif c t e, lp, _, _, i => by simp [lowerElse, cntE, lowerB_snd t, lowerE_snd e]
end

mutual
/-- outside a loop a well-nested block has no `continue` binding outwards -/
theorem wnS_noCont : ∀ (s : SStmt) (f : Bool), wnS false f s = true → usesContS s = false
  | .expr .., _, _ => rfl
  | .ret .., _, _ => rfl
  | .label .., _, _ => rfl
  | .jump .., _, _ => rfl
  | .include .., _, _ => rfl
  | .brk, _, _ => rfl
  | .cont, _, h => by simp [wnS] at h
  | .ite c t e, f, h => by
      simp only [wnS, Bool.and_eq_true] at h
      simp [usesContS, wnB_noCont t f h.1, wnE_noCont e f h.2]
  | .while .., _, _ => rfl
  | .for .., _, _ => rfl
  | .func .., _, _ => rfl
theorem wnB_noCont : ∀ (B : List SStmt) (f : Bool), wnB false f B = true → usesContB B = false
  | [], _, _ => rfl
  | s :: ss, f, h => by
      simp only [wnB, Bool.and_eq_true] at h
      simp [usesContB, wnS_noCont s f h.1, wnB_noCont ss f h.2]
theorem wnE_noCont : ∀ (e : SElse) (f : Bool), wnE false f e = true → usesContE e = false
  | .none, _, _ => rfl
  | .els b, f, h => by
      simp only [wnE] at h
      simp [usesContE, wnB_noCont b f h]
  | .elif c t e, f, h => by
      simp only [wnE, Bool.and_eq_true] at h
      simp [usesContE, wnB_noCont t f h.1, wnE_noCont e f h.2]
end

theorem p_lowerElse_last : ∀ (e : SElse) (lp : Option (Name × Name)) (cur done : Name) (i : Nat),
    ((lowerElse lp cur done e i).1).getLast? = some (.label done)
  | .none, _, _, _, _ => rfl
  | .els b, lp, cur, done, i => by rw [← List.head?_reverse]; simp [lowerElse]
  | .elif c t e, lp, cur, done, i => by
      have ih := p_lowerElse_last e lp (lIf i) done (lowerB lp t (i+1)).2
      rw [← List.head?_reverse]; simp [lowerElse, List.head?_append, ih]

/-- after a statement other than `include` the current list does not end with an include statement -/
theorem endsInc_lowerS (s : SStmt) (lp : Option (Name × Name)) (i : Nat) (pre : List Stmt) (il ifn : Bool)
    (hs : isInc s = false) (hw : wnS il ifn s = true) (hl : il = true → lp.isSome = true) :
    endsInc (pre ++ (lowerS lp s i).1) = false := by
  cases s with
  | expr n e => exact endsInc_append_of_last _ _ (.expr n e) rfl (by simp)
  | ret e => exact endsInc_append_of_last _ _ (.ret e) rfl (by simp)
  | label l => exact endsInc_append_of_last _ _ (.label l) rfl (by simp)
  | jump l c => exact endsInc_append_of_last _ _ (.jump l c) rfl (by simp)
  | «include» incs => simp [isInc] at hs
  | brk =>
      simp only [wnS] at hw
      obtain ⟨⟨b, c⟩, h⟩ := Option.isSome_iff_exists.mp (hl hw)
      subst h
      exact endsInc_append_of_last _ _ (.jump b none) rfl (by simp)
  | cont =>
      simp only [wnS] at hw
      obtain ⟨⟨b, c⟩, h⟩ := Option.isSome_iff_exists.mp (hl hw)
      subst h
      exact endsInc_append_of_last _ _ (.jump c none) rfl (by simp)
  | ite c t e =>
      have ih := p_lowerElse_last e lp (lIf i) (lDone i) (lowerB lp t (i+1)).2
      refine endsInc_append_of_last _ _ (.label (lDone i)) ?_ (by simp)
      rw [← List.head?_reverse]; simp [lowerS, List.head?_append, ih]
  | «while» c b =>
      refine endsInc_append_of_last _ _ (.label (lDone i)) ?_ (by simp)
      rw [← List.head?_reverse]; simp [lowerS]
  | «for» v ix vals b =>
      refine endsInc_append_of_last _ _ (.label (lDone i)) ?_ (by simp)
      rw [← List.head?_reverse]; simp [lowerS, forFooter]
  | func fid n a l y b =>
      exact endsInc_append_of_last _ _ (.function fid n a l y (lowerB none b i).1) (by simp [lowerS]) (by simp)

/-! ## include lines -/

/-- consecutive include lines are merged into the include statement that ends the current list -/
theorem includes_merge : ∀ (more : List IncludeScript) (st : PState) (c : List Stmt) (acc : List IncludeScript)
    (rest : List Line), st.cur = c ++ [.include acc] →
    parseLinesFrom st (more.map (fun i => Line.include i.url i.system) ++ rest) =
      parseLinesFrom (upd st (c ++ [.include (acc ++ more)]) st.defs st.idx st.nextFid) rest
  | [], st, c, acc, rest, h => by simp [← h, upd_self]
  | i :: more, st, c, acc, rest, h => by
      have hs : stepLine st (.include i.url i.system) =
          .ok (upd st (c ++ [.include (acc ++ [i])]) st.defs st.idx st.nextFid) := by
        simp [stepLine, h, setCur_eq_upd]
      simp only [List.map_cons, List.cons_append]
      rw [pl_cons _ hs, includes_merge more _ c (acc ++ [i]) rest (by simp)]
      simp

theorem includes_first (st : PState) (i : IncludeScript) (more : List IncludeScript) (rest : List Line)
    (h : endsInc st.cur = false) :
    parseLinesFrom st ((i :: more).map (fun i => Line.include i.url i.system) ++ rest) =
      parseLinesFrom (upd st (st.cur ++ [.include (i :: more)]) st.defs st.idx st.nextFid) rest := by
  have hs : stepLine st (.include i.url i.system) =
      .ok (upd st (st.cur ++ [.include [i]]) st.defs st.idx st.nextFid) := by
    simp only [stepLine]
    split
    · rename_i incs hh; simp [endsInc, hh] at h
    · simp [emit_eq_upd]
  simp only [List.map_cons, List.cons_append]
  rw [pl_cons _ hs, includes_merge more _ st.cur [i] rest (by simp)]
  simp

/-! ## the block invariant -/

/-- closes the goal `parseLinesFrom (upd st …) rest = parseLinesFrom (upd st …) rest` component by component -/
macro "finish_upd" " [" ls:Lean.Parser.Tactic.simpLemma,* "]" : tactic =>
  `(tactic| ((try simp only [upd_upd, upd_cur, upd_defs, upd_idx, upd_nextFid]); congr 1; apply upd_congr <;>
      (try simp [lowerS, lowerB, lowerElse, usesContS, usesContB, usesContE, cntS, cntB, cntE, nfS, nfB, nfE,
        lowerB_snd, lowerS_snd, lowerE_snd, $ls,*]) <;> (try omega)))

/-!
The three mutually recursive lemmas (structural recursion on `SStmt` / `List SStmt` / `SElse`), parser state universally
quantified, continuation-passing in the remaining lines `rest`.  `st.defs = sc ++ below` splits the `label_defs` stack
into the entries of the current scope (`sc = st.scopeDefs`, above the function floor) and the rest.  After the rendered
lines of a block `B` the state is `st` with

* the current statement list extended by `(lowerB (loopOf sc) B st.idx).1`,
* `defs = markCont (usesContB B) sc ++ below` (only `hasContinue` of the innermost loop entry may have been set),
* `idx = cntB B st.idx`, `nextFid = st.nextFid + nfB B`, everything else (open function's static fields, the other
  statement list) unchanged – that is what `upd` expresses.

`stepE` is the `if`-chain lemma: the open `ifD` entry remembers position `at_ = pre.length` of the conditional jump
`jump curL c0` inside the current list `pre ++ jump curL c0 :: mid`; later lines only append, and at `endif` without
`else` that position is re-targeted to `done` (`retarget_mid`), which is what `lowerS`/`lowerElse` emit up front.
-/

mutual
theorem stepS : ∀ (s : SStmt) (st : PState) (sc below : List LabelDef) (il ifn : Bool) (rest : List Line),
    st.defs = sc ++ below → below.length = st.floor →
    (il = true → (loopOf sc).isSome = true) → (ifn = false → st.func = none) →
    wnS il ifn s = true → fidsS st.nextFid s = true → incS s = true →
    (isInc s = true → endsInc st.cur = false) →
    parseLinesFrom st (renderS s ++ rest) =
      parseLinesFrom (upd st (st.cur ++ (lowerS (loopOf sc) s st.idx).1) (markCont (usesContS s) sc ++ below)
        (cntS s st.idx) (st.nextFid + nfS s)) rest
  | .expr none e, st, sc, below, il, ifn, rest, hd, hfl, hl, hfn, hw, hfi, hi, he => by
      simp only [renderS, List.cons_append, List.nil_append]
      rw [pl_cons _ (step_exprStmt st e)]
      finish_upd [hd]
  | .expr (some n) e, st, sc, below, il, ifn, rest, hd, hfl, hl, hfn, hw, hfi, hi, he => by
      simp only [renderS, List.cons_append, List.nil_append]
      rw [pl_cons _ (step_assign st n e)]
      finish_upd [hd]
  | .ret e, st, sc, below, il, ifn, rest, hd, hfl, hl, hfn, hw, hfi, hi, he => by
      simp only [renderS, List.cons_append, List.nil_append]
      rw [pl_cons _ (step_ret st e)]
      finish_upd [hd]
  | .label l, st, sc, below, il, ifn, rest, hd, hfl, hl, hfn, hw, hfi, hi, he => by
      simp only [renderS, List.cons_append, List.nil_append]
      rw [pl_cons _ (p_step_label st l)]
      finish_upd [hd]
  | .jump l c, st, sc, below, il, ifn, rest, hd, hfl, hl, hfn, hw, hfi, hi, he => by
      simp only [renderS, List.cons_append, List.nil_append]
      rw [pl_cons _ (p_step_jump st l c)]
      finish_upd [hd]
  | .include incs, st, sc, below, il, ifn, rest, hd, hfl, hl, hfn, hw, hfi, hi, he => by
      cases incs with
      | nil => simp [incS] at hi
      | cons i more =>
          simp only [renderS]
          rw [includes_first st i more rest (he rfl)]
          finish_upd [hd]
  | .brk, st, sc, below, il, ifn, rest, hd, hfl, hl, hfn, hw, hfi, hi, he => by
      have hsd := scopeDefs_of st sc below hd hfl
      have hsome := hl (by simpa [wnS] using hw)
      simp only [renderS, List.cons_append, List.nil_append]
      cases hfind : findLoop sc with
      | none => simp [loopOf, hfind] at hsome
      | some x =>
          obtain ⟨pre, l, post⟩ := x
          have hspec := findLoop_spec sc hfind
          cases l with
          | ifD => exact hspec.2.elim
          | whileD loop done c =>
              have hs : stepLine st .break_ = .ok (upd st (st.cur ++ [.jump done none]) st.defs st.idx st.nextFid) := by
                simp [stepLine, hsd, hfind, emit_eq_upd]
              rw [pl_cons _ hs]
              finish_upd [hd, loopOf, hfind]
          | forD i ix h =>
              have hs : stepLine st .break_ = .ok (upd st (st.cur ++ [.jump (lDone i) none]) st.defs st.idx st.nextFid) := by
                simp [stepLine, hsd, hfind, emit_eq_upd]
              rw [pl_cons _ hs]
              finish_upd [hd, loopOf, hfind]
  | .cont, st, sc, below, il, ifn, rest, hd, hfl, hl, hfn, hw, hfi, hi, he => by
      have hsd := scopeDefs_of st sc below hd hfl
      have hsome := hl (by simpa [wnS] using hw)
      simp only [renderS, List.cons_append, List.nil_append]
      cases hfind : findLoop sc with
      | none => simp [loopOf, hfind] at hsome
      | some x =>
          obtain ⟨pre, l, post⟩ := x
          have hspec := findLoop_spec sc hfind
          cases l with
          | ifD => exact hspec.2.elim
          | whileD loop done c =>
              have hs : stepLine st .continue_ = .ok (upd st (st.cur ++ [.jump loop none]) st.defs st.idx st.nextFid) := by
                simp [stepLine, hsd, hfind, emit_eq_upd]
              rw [pl_cons _ hs]
              have h2 : markCont true sc = sc := hspec.2
              finish_upd [hd, loopOf, hfind, h2]
          | forD i ix h =>
              have hs : stepLine st .continue_ = .ok (upd st (st.cur ++ [.jump (lCont i) none])
                  (pre ++ [.forD i ix true] ++ st.defs.drop (pre.length + 1)) st.idx st.nextFid) := by
                simp [stepLine, hsd, hfind, emit_eq_upd, with_defs_eq_upd]
              rw [pl_cons _ hs]
              have h2 : markCont true sc = pre ++ .forD i ix true :: post := hspec.2
              have h1 : sc = pre ++ .forD i ix h :: post := hspec.1
              have h3 : st.defs.drop (pre.length + 1) = post ++ below := by
                rw [hd, h1]; simp [List.drop_append]
              finish_upd [loopOf, hfind, h2, h3]
  | .while c b, st, sc, below, il, ifn, rest, hd, hfl, hl, hfn, hw, hfi, hi, he => by
      simp only [wnS, fidsS, incS] at hw hfi hi
      simp only [renderS, List.cons_append, List.nil_append, List.append_assoc]
      rw [pl_cons _ (step_whileBegin st c)]
      refine (stepB b _ (.whileD (lLoop st.idx) (lDone st.idx) c :: sc) below true ifn _ (by simp [hd])
        (by simpa using hfl) (by simp) (fun h => upd_func_none _ _ _ _ _ (hfn h)) hw (by simpa using hfi) hi ?_).trans ?_
      · intro _; simp only [upd_cur]
        exact endsInc_append_of_last _ _ (.label (lLoop st.idx)) rfl (by simp)
      · simp only [upd_upd, upd_cur, upd_idx, upd_nextFid, markCont_whileD, List.cons_append]
        rw [pl_cons _ (step_endwhile _ (scopeDefs_of _ (.whileD (lLoop st.idx) (lDone st.idx) c :: sc) below (by simp) (by simpa using hfl)))]
        finish_upd []
  | .for v ix vals b, st, sc, below, il, ifn, rest, hd, hfl, hl, hfn, hw, hfi, hi, he => by
      simp only [wnS, fidsS, incS] at hw hfi hi
      simp only [renderS, List.cons_append, List.nil_append, List.append_assoc]
      rw [pl_cons _ (step_forBegin st v ix vals)]
      refine (stepB b _ (.forD st.idx (ix.getD (vIndex st.idx)) false :: sc) below true ifn _ (by simp [hd])
        (by simpa using hfl) (by simp) (fun h => upd_func_none _ _ _ _ _ (hfn h)) hw (by simpa using hfi) hi ?_).trans ?_
      · intro _; simp only [upd_cur]
        exact endsInc_append_of_last _ _ (.expr (some v) (.function fnArrayGet [.variable (vValues st.idx), .variable (ix.getD (vIndex st.idx))]))
          rfl (by simp)
      · simp only [upd_upd, upd_cur, upd_idx, upd_nextFid, markCont_forD, List.cons_append]
        rw [pl_cons _ (step_endfor _ (scopeDefs_of _ (.forD st.idx (ix.getD (vIndex st.idx)) (usesContB b) :: sc) below (by simp) (by simpa using hfl)))]
        finish_upd []
  | .func fid n args laa isAsync b, st, sc, below, il, ifn, rest, hd, hfl, hl, hfn, hw, hfi, hi, he => by
      simp only [wnS, fidsS, incS, Bool.and_eq_true, Bool.not_eq_true', beq_iff_eq] at hw hfi hi
      have hnone := hfn hw.1
      obtain ⟨stmts, func, defs, idx, nf⟩ := st
      simp only at hnone hd hfi
      subst hnone
      subst hd
      have hfid : fid = nf := hfi.1
      subst hfid
      simp only [renderS, List.cons_append, List.nil_append, List.append_assoc]
      have hs : stepLine ⟨stmts, none, sc ++ below, idx, fid⟩ (.funcBegin n args laa isAsync) =
          .ok ⟨stmts, some ⟨fid, n, args, laa, isAsync, [], (sc ++ below).length⟩, sc ++ below, idx, fid + 1⟩ := by
        simp [stepLine]
      rw [pl_cons _ hs]
      refine (stepB b _ [] (sc ++ below) false true _ (by simp) (by simp [PState.floor]) (by simp) (by simp)
        hw.2 hfi.2 hi ?_).trans ?_
      · intro _; simp [PState.cur]
      · have hnc := wnB_noCont b true hw.2
        have hs2 : stepLine (upd ⟨stmts, some ⟨fid, n, args, laa, isAsync, [], (sc ++ below).length⟩, sc ++ below, idx, fid + 1⟩
              ((lowerB none b idx).1) (sc ++ below) (cntB b idx) (fid + 1 + nfB b)) .funcEnd =
            .ok ⟨stmts ++ [.function fid n args laa isAsync (lowerB none b idx).1], none, sc ++ below, cntB b idx, fid + 1 + nfB b⟩ := by
          simp [stepLine, upd, PState.setCur]
        simp only [hnc, markCont_false, loopOf_nil, List.nil_append, PState.cur]
        rw [pl_cons _ hs2]
        congr 1
        simp [upd, PState.setCur, lowerS, usesContS, cntS, nfS]
        omega
  | .ite c t e, st, sc, below, il, ifn, rest, hd, hfl, hl, hfn, hw, hfi, hi, he => by
      simp only [wnS, fidsS, incS, Bool.and_eq_true] at hw hfi hi
      simp only [renderS, List.cons_append, List.nil_append, List.append_assoc]
      rw [pl_cons _ (step_ifBegin st c)]
      refine (stepB t _ (.ifD st.cur.length (lIf st.idx) (lDone st.idx) false :: sc) below il ifn _ (by simp [hd])
        (by simpa using hfl) (by simpa using hl) (fun h => upd_func_none _ _ _ _ _ (hfn h)) hw.1 (by simpa using hfi.1) hi.1 ?_).trans ?_
      · intro _; simp only [upd_cur]
        exact endsInc_append_of_last _ _ (.jump (lIf st.idx) (some (notE c))) rfl (by simp)
      · simp only [upd_upd, upd_cur, upd_idx, upd_nextFid, markCont_ifD, List.cons_append, loopOf_ifD]
        refine (stepE e _ (markCont (usesContB t) sc) below il ifn _ st.cur.length st.cur (lowerB (loopOf sc) t (st.idx + 1)).1
          (lIf st.idx) (lDone st.idx) (some (notE c)) (by simp) (by simpa using hfl) rfl (by simp) (by simpa using hl)
          (fun h => upd_func_none _ _ _ _ _ (hfn h)) hw.2 (by simpa using hfi.2) hi.2).trans ?_
        cases e <;> finish_upd []
theorem stepB : ∀ (B : List SStmt) (st : PState) (sc below : List LabelDef) (il ifn : Bool) (rest : List Line),
    st.defs = sc ++ below → below.length = st.floor →
    (il = true → (loopOf sc).isSome = true) → (ifn = false → st.func = none) →
    wnB il ifn B = true → fidsB st.nextFid B = true → incB B = true →
    (startsInc B = true → endsInc st.cur = false) →
    parseLinesFrom st (renderB B ++ rest) =
      parseLinesFrom (upd st (st.cur ++ (lowerB (loopOf sc) B st.idx).1) (markCont (usesContB B) sc ++ below)
        (cntB B st.idx) (st.nextFid + nfB B)) rest
  | [], st, sc, below, il, ifn, rest, hd, hfl, hl, hfn, hw, hfi, hi, he => by
      simp [renderB, lowerB, usesContB, cntB, nfB, ← hd, upd_self]
  | s :: ss, st, sc, below, il, ifn, rest, hd, hfl, hl, hfn, hw, hfi, hi, he => by
      simp only [wnB, fidsB, incB, Bool.and_eq_true] at hw hfi hi
      simp only [renderB, List.append_assoc]
      refine (stepS s st sc below il ifn _ hd hfl hl hfn hw.1 hfi.1 hi.1.1 (fun h => he (by simpa [startsInc] using h))).trans ?_
      refine (stepB ss _ (markCont (usesContS s) sc) below il ifn _ (by simp) (by simpa using hfl) (by simpa using hl)
        (fun h => upd_func_none _ _ _ _ _ (hfn h)) hw.2 (by simpa using hfi.2) hi.2 ?_).trans ?_
      · intro h
        have hs : isInc s = false := by
          have := hi.1.2; simp [h] at this; exact this
        simpa using endsInc_lowerS s (loopOf sc) st.idx st.cur il ifn hs hw.1 hl
      · finish_upd []
theorem stepE : ∀ (e : SElse) (st : PState) (sc below : List LabelDef) (il ifn : Bool) (rest : List Line)
    (at_ : Nat) (pre mid : List Stmt) (curL done : Name) (c0 : Option Expr),
    st.defs = .ifD at_ curL done false :: (sc ++ below) → below.length = st.floor →
    at_ = pre.length → st.cur = pre ++ .jump curL c0 :: mid →
    (il = true → (loopOf sc).isSome = true) → (ifn = false → st.func = none) →
    wnE il ifn e = true → fidsE st.nextFid e = true → incE e = true →
    parseLinesFrom st (renderE e ++ rest) =
      parseLinesFrom (upd st (pre ++ .jump (match e with | .none => done | _ => curL) c0 :: mid ++
          (lowerElse (loopOf sc) curL done e st.idx).1)
        (markCont (usesContE e) sc ++ below) (cntE e st.idx) (st.nextFid + nfE e)) rest
  | .none, st, sc, below, il, ifn, rest, at_, pre, mid, curL, done, c0, hd, hfl, hat, hc, hl, hfn, hw, hfi, hi => by
      have hsd := scopeDefs_of st (.ifD at_ curL done false :: sc) below (by simp [hd]) hfl
      simp only [renderE, List.cons_append, List.nil_append]
      rw [pl_cons _ (step_endif st hsd)]
      finish_upd [hd, hc, retarget_mid _ _ _ _ _ _ hat]
  | .els b, st, sc, below, il, ifn, rest, at_, pre, mid, curL, done, c0, hd, hfl, hat, hc, hl, hfn, hw, hfi, hi => by
      have hsd := scopeDefs_of st (.ifD at_ curL done false :: sc) below (by simp [hd]) hfl
      simp only [wnE, fidsE, incE] at hw hfi hi
      simp only [renderE, List.cons_append, List.nil_append, List.append_assoc]
      rw [pl_cons _ (step_else st hsd)]
      refine (stepB b _ (.ifD at_ curL done true :: sc) below il ifn _ (by simp [hd])
        (by simpa using hfl) (by simpa using hl) (fun h => upd_func_none _ _ _ _ _ (hfn h)) hw (by simpa using hfi) hi ?_).trans ?_
      · intro _; simp only [upd_cur]
        exact endsInc_append_of_last _ _ (.label curL) rfl (by simp)
      · simp only [upd_upd, upd_cur, upd_idx, upd_nextFid, markCont_ifD, List.cons_append, loopOf_ifD]
        rw [pl_cons _ (step_endif _
          (scopeDefs_of _ (.ifD at_ curL done true :: markCont (usesContB b) sc) below (by simp) (by simpa using hfl)))]
        finish_upd [hc]
  | .elif c t e, st, sc, below, il, ifn, rest, at_, pre, mid, curL, done, c0, hd, hfl, hat, hc, hl, hfn, hw, hfi, hi => by
      have hsd := scopeDefs_of st (.ifD at_ curL done false :: sc) below (by simp [hd]) hfl
      simp only [wnE, fidsE, incE, Bool.and_eq_true] at hw hfi hi
      simp only [renderE, List.cons_append, List.nil_append, List.append_assoc]
      rw [pl_cons _ (step_elif st c hsd)]
      refine (stepB t _ (.ifD (st.cur.length + 2) (lIf st.idx) done false :: sc) below il ifn _ (by simp [hd])
        (by simpa using hfl) (by simpa using hl) (fun h => upd_func_none _ _ _ _ _ (hfn h)) hw.1 (by simpa using hfi.1) hi.1 ?_).trans ?_
      · intro _; simp only [upd_cur]
        exact endsInc_append_of_last _ _ (.jump (lIf st.idx) (some (notE c))) rfl (by simp)
      · simp only [upd_upd, upd_cur, upd_idx, upd_nextFid, markCont_ifD, List.cons_append, loopOf_ifD]
        refine (stepE e _ (markCont (usesContB t) sc) below il ifn _ (st.cur.length + 2)
          (st.cur ++ [.jump done none, .label curL]) (lowerB (loopOf sc) t (st.idx + 1)).1
          (lIf st.idx) done (some (notE c)) (by simp) (by simpa using hfl) (by simp) (by simp) (by simpa using hl)
          (fun h => upd_func_none _ _ _ _ _ (hfn h)) hw.2 (by simpa using hfi.2) hi.2).trans ?_
        cases e <;> finish_upd [hc]
end

/-! ## the theorem -/

/-- **T1.** For a structured program `B` of any nesting depth and length that is well nested (every `break`/`continue`
inside a loop of the same function, no function definition inside a function body), whose function identifiers are
numbered in source order and whose `include` nodes are non-empty and never adjacent, the line-at-a-time parser
(`label_defs` stack, label counter, per-function stack floor, in-place re-targeting of the last conditional jump at
`endif`, "continue label only when used" flag, merging of consecutive include lines) applied to the rendered lines
returns exactly the recursive lowering. -/
theorem parseLines_render (B : List SStmt) (h : WellNested B) (hf : FidsInOrder B) (hi : NoAdjacentIncludes B) :
    parseLines (renderB B) = .ok (lowerProgram B) := by
  have hnc : usesContB B = false := wnB_noCont B false h
  have := stepB B PState.init [] [] false false [] rfl rfl (by simp) (fun _ => rfl) h hf hi (fun _ => rfl)
  simp only [List.append_nil] at this
  unfold parseLines
  rw [this]
  simp [parseLinesFrom, finish, lowerProgram, upd, PState.init, PState.setCur, PState.cur, hnc]

/-- the hypotheses are inhabited by a non-trivial program: a global loop and a function containing
`for` in `while` in `elif`, with `break` and `continue` at several levels, includes, and a second function -/
def demo : List SStmt :=
  [ .include [⟨"a.bare", false⟩, ⟨"b.bare", true⟩],
    .expr (some (.user "n")) (.number 0),
    .func 0 (.user "f") [.user "xs", .user "k"] false false
      [ .ite (.variable (.user "k")) [.ret (some (.number 1))]
          (.elif (.variable (.user "xs"))
            [ .while (.binary .lt (.variable (.user "k")) (.number 10))
                [ .for (.user "x") (some (.user "ix")) (.variable (.user "xs"))
                    [ .ite (.variable (.user "x")) [.cont] (.elif (.variable (.user "ix")) [.brk] .none),
                      .expr (some (.user "k")) (.binary .add (.variable (.user "k")) (.variable (.user "x"))) ],
                  .ite (.binary .gt (.variable (.user "k")) (.number 5)) [.brk] (.els [.cont]),
                  .for (.user "y") none (.variable (.user "xs")) [.expr none (.variable (.user "y"))] ] ]
            (.els [.include [⟨"c.bare", false⟩], .ret none])),
        .ret (some (.variable (.user "k"))) ],
    .while (.variable (.user "n"))
      [ .func 1 (.user "g") [] true true [.label (.user "l"), .jump (.user "l") none],
        .ite (.variable (.user "n")) [.brk] .none ],
    .include [⟨"d.bare", false⟩] ]

example : parseLines (renderB demo) = .ok (lowerProgram demo) :=
  parseLines_render demo (by decide) (by decide) (by decide)

/-! why `NoAdjacentIncludes` and `FidsInOrder` are needed: the parser merges consecutive include lines, produces no
statement for an empty include node, and numbers the functions itself -/
example : parseLines (renderB [.include [⟨"a", false⟩], .include [⟨"b", true⟩]]) =
    .ok [.include [⟨"a", false⟩, ⟨"b", true⟩]] := rfl
example : lowerProgram [.include [⟨"a", false⟩], .include [⟨"b", true⟩]] =
    [.include [⟨"a", false⟩], .include [⟨"b", true⟩]] := rfl
example : parseLines (renderB [.include []]) = .ok [] := rfl
example : parseLines (renderB [.func 7 (.user "f") [] false false []]) =
    .ok [.function 0 (.user "f") [] false false []] := rfl

/-! ## converse: the parser rejects exactly the ill-nested programs -/

/-- the part of a state that decides acceptance: function open?, stack floor, which stack entries are loops -/
def isLoopD : LabelDef → Bool
  | .ifD .. => false
  | _ => true

def skel (ds : List LabelDef) : List Bool := ds.map isLoopD

def shape (st : PState) : Bool × Nat × List Bool := (st.func.isSome, st.floor, skel st.defs)

def inLoopK (k : List Bool) (floor : Nat) : Bool := (k.take (k.length - floor)).any id

theorem shape_upd (st c d i n) : shape (upd st c d i n) = (st.func.isSome, st.floor, skel d) := by
  simp [shape, upd_func_isSome]

theorem findLoop_isSome : ∀ ds : List LabelDef, (findLoop ds).isSome = (skel ds).any id
  | [] => rfl
  | .ifD .. :: rest => by simp [findLoop, findLoop_isSome rest, skel, isLoopD]
  | .whileD .. :: rest => by simp [findLoop, skel, isLoopD]
  | .forD .. :: rest => by simp [findLoop, skel, isLoopD]

theorem inLoop_eq (st : PState) : (findLoop st.scopeDefs).isSome = inLoopK (skel st.defs) st.floor := by
  simp [findLoop_isSome, PState.scopeDefs, inLoopK, skel, List.map_take]

theorem inLoopK_cons (b : Bool) (k : List Bool) (fl : Nat) (h : fl ≤ k.length) :
    inLoopK (b :: k) fl = (b || inLoopK k fl) := by
  have : k.length + 1 - fl = (k.length - fl) + 1 := by omega
  simp [inLoopK, this]

theorem inLoopK_floor (k : List Bool) : inLoopK k k.length = false := by simp [inLoopK]

def Errs (r : Except LowerErr PState) : Prop := ∃ e, r = .error e

theorem pl_err {s : PState} {l : Line} {e} (ls : List Line) (h : stepLine s l = .error e) :
    Errs (parseLinesFrom s (l :: ls)) := ⟨e, by simp [parseLinesFrom, h]⟩

theorem endif_shape {st st' : PState} (h : stepLine st .endif = .ok st') :
    shape st' = (st.func.isSome, st.floor, (skel st.defs).tail) := by
  cases hsd : st.scopeDefs with
  | nil => simp [stepLine, hsd] at h
  | cons d r =>
    cases d with
    | ifD a l dn he =>
        rw [step_endif st hsd] at h; injection h with h; subst h; simp [shape_upd, skel]
    | whileD => simp [stepLine, hsd] at h
    | forD => simp [stepLine, hsd] at h

theorem endwhile_shape {st st' : PState} (h : stepLine st .endwhile = .ok st') :
    shape st' = (st.func.isSome, st.floor, (skel st.defs).tail) := by
  cases hsd : st.scopeDefs with
  | nil => simp [stepLine, hsd] at h
  | cons d r =>
    cases d with
    | whileD a l dn =>
        rw [step_endwhile st hsd] at h; injection h with h; subst h; simp [shape_upd, skel]
    | ifD => simp [stepLine, hsd] at h
    | forD => simp [stepLine, hsd] at h

theorem endfor_shape {st st' : PState} (h : stepLine st .endfor = .ok st') :
    shape st' = (st.func.isSome, st.floor, (skel st.defs).tail) := by
  cases hsd : st.scopeDefs with
  | nil => simp [stepLine, hsd] at h
  | cons d r =>
    cases d with
    | forD a l dn =>
        rw [step_endfor st hsd] at h; injection h with h; subst h; simp [shape_upd, skel]
    | ifD => simp [stepLine, hsd] at h
    | whileD => simp [stepLine, hsd] at h

theorem eq_cons_of_take {α} : ∀ (n : Nat) (l : List α) {d r}, l.take n = d :: r → l = d :: l.tail
  | 0, _, _, _, h => by simp at h
  | _+1, [], _, _, h => by simp at h
  | _+1, a :: t, _, _, h => by simp at h; simp [h.1]

theorem defs_of_scope {st : PState} {d r} (h : st.scopeDefs = d :: r) : st.defs = d :: st.defs.tail :=
  eq_cons_of_take _ _ h

theorem else_shape {st st' : PState} (h : stepLine st .else_ = .ok st') : shape st' = shape st := by
  cases hsd : st.scopeDefs with
  | nil => simp [stepLine, hsd] at h
  | cons d r =>
    cases d with
    | ifD a l dn he =>
        cases he with
        | true => simp [stepLine, hsd] at h
        | false =>
            rw [step_else st hsd] at h; injection h with h; subst h
            rw [shape_upd, shape, defs_of_scope hsd]; simp [skel, isLoopD]
    | whileD => simp [stepLine, hsd] at h
    | forD => simp [stepLine, hsd] at h

theorem elif_shape {st st' : PState} {c} (h : stepLine st (.elif c) = .ok st') : shape st' = shape st := by
  cases hsd : st.scopeDefs with
  | nil => simp [stepLine, hsd] at h
  | cons d r =>
    cases d with
    | ifD a l dn he =>
        cases he with
        | true => simp [stepLine, hsd] at h
        | false =>
            rw [step_elif st c hsd] at h; injection h with h; subst h
            rw [shape_upd, shape, defs_of_scope hsd]; simp [skel, isLoopD]
    | whileD => simp [stepLine, hsd] at h
    | forD => simp [stepLine, hsd] at h

theorem break_shape {st st' : PState} (h : stepLine st .break_ = .ok st') :
    shape st' = shape st ∧ (findLoop st.scopeDefs).isSome = true := by
  simp only [stepLine] at h
  split at h
  · rename_i heq; injection h with h; subst h; simp [emit_eq_upd, shape, upd_func_isSome, heq]
  · rename_i heq; injection h with h; subst h; simp [emit_eq_upd, shape, upd_func_isSome, heq]
  · simp at h

theorem continue_shape {st st' : PState} (h : stepLine st .continue_ = .ok st') :
    shape st' = shape st ∧ (findLoop st.scopeDefs).isSome = true := by
  simp only [stepLine] at h
  split at h
  · rename_i heq; injection h with h; subst h; simp [emit_eq_upd, shape, upd_func_isSome, heq]
  · rename_i pre i ixv hc post heq
    injection h with h; subst h
    have hsp := (findLoop_spec _ heq).1
    obtain ⟨X, hdefs⟩ : ∃ X, st.defs = pre ++ .forD i ixv hc :: (post ++ X) :=
      ⟨st.defs.drop (st.defs.length - st.floor), by
        conv => lhs; rw [← List.take_append_drop (st.defs.length - st.floor) st.defs]
        unfold PState.scopeDefs at hsp; rw [hsp]; simp⟩
    refine ⟨?_, by simp [heq]⟩
    simp only [emit_eq_upd, with_defs_eq_upd, shape, upd_func_isSome, upd_floor]
    rw [hdefs]; simp [skel, isLoopD, List.drop_append]
  · simp at h

theorem simple_shape (st : PState) (l : Line)
    (hl : match l with
      | .assign .. | .exprStmt .. | .label .. | .jump .. | .ret .. | .include .. => True
      | _ => False) :
    ∃ st', stepLine st l = .ok st' ∧ shape st' = shape st := by
  cases l <;> simp only at hl
  case assign n e => exact ⟨_, step_assign st n e, by simp [shape_upd]; rfl⟩
  case exprStmt e => exact ⟨_, step_exprStmt st e, by simp [shape_upd]; rfl⟩
  case label n => exact ⟨_, p_step_label st n, by simp [shape_upd]; rfl⟩
  case jump n c => exact ⟨_, p_step_jump st n c, by simp [shape_upd]; rfl⟩
  case ret e => exact ⟨_, step_ret st e, by simp [shape_upd]; rfl⟩
  case «include» u sy =>
    simp only [stepLine]
    split
    · exact ⟨_, rfl, by simp [setCur_eq_upd, shape_upd]; rfl⟩
    · exact ⟨_, rfl, by simp [emit_eq_upd, shape_upd]; rfl⟩

/-- a run of include lines never fails and keeps the shape -/
theorem includes_shape : ∀ (incs : List IncludeScript) (st : PState) (rest : List Line),
    ∃ st', parseLinesFrom st (incs.map (fun i => Line.include i.url i.system) ++ rest) = parseLinesFrom st' rest ∧
      shape st' = shape st
  | [], st, rest => ⟨st, rfl, rfl⟩
  | i :: more, st, rest => by
      obtain ⟨st1, h1, hs1⟩ := simple_shape st (.include i.url i.system) trivial
      obtain ⟨st2, h2, hs2⟩ := includes_shape more st1 rest
      exact ⟨st2, by simp only [List.map_cons, List.cons_append]; rw [pl_cons _ h1, h2], hs2.trans hs1⟩

theorem shape_split {st st' : PState} : shape st' = shape st ↔
    st'.func.isSome = st.func.isSome ∧ st'.floor = st.floor ∧ skel st'.defs = skel st.defs := by simp [shape]

theorem shape_split' {st' : PState} {f fl k} : shape st' = (f, fl, k) ↔
    st'.func.isSome = f ∧ st'.floor = fl ∧ skel st'.defs = k := by simp [shape]

theorem skel_length (ds : List LabelDef) : (skel ds).length = ds.length := by simp [skel]

theorem floor_le_of_shape {st st' : PState} (h : shape st' = shape st) (hf : st.floor ≤ st.defs.length) :
    st'.floor ≤ st'.defs.length := by
  obtain ⟨_, h2, h3⟩ := shape_split.mp h
  have := congrArg List.length h3
  simp only [skel_length] at this
  omega

theorem inLoop_of_shape {st st' : PState} (h : shape st' = shape st) :
    (findLoop st'.scopeDefs).isSome = (findLoop st.scopeDefs).isSome := by
  obtain ⟨_, h2, h3⟩ := shape_split.mp h
  rw [inLoop_eq, inLoop_eq, h2, h3]

theorem func_of_shape {st st' : PState} (h : shape st' = shape st) : st'.func.isSome = st.func.isSome :=
  (shape_split.mp h).1

/-- a state with one more stack entry (of loop-ness `b`) on top of `st` -/
theorem pushed {st st1 : PState} {b : Bool} (hf : st.floor ≤ st.defs.length)
    (h : shape st1 = (st.func.isSome, st.floor, b :: skel st.defs)) :
    st1.floor ≤ st1.defs.length ∧ st1.func.isSome = st.func.isSome ∧
    (findLoop st1.scopeDefs).isSome = (b || (findLoop st.scopeDefs).isSome) := by
  obtain ⟨h1, h2, h3⟩ := shape_split'.mp h
  have hl := congrArg List.length h3
  simp only [skel_length, List.length_cons] at hl
  refine ⟨by omega, h1, ?_⟩
  rw [inLoop_eq, inLoop_eq, h2, h3, inLoopK_cons _ _ _ (by simpa [skel_length] using hf)]

theorem funcEnd_shape {st st' : PState} (h : stepLine st .funcEnd = .ok st') :
    shape st' = (false, 0, skel st.defs) := by
  simp only [stepLine] at h
  split at h
  · simp at h
  · split at h
    · simp at h
    · injection h with h; subst h; simp [shape, PState.floor]

mutual
theorem rejS : ∀ (s : SStmt) (st : PState) (rest : List Line), st.floor ≤ st.defs.length →
    Errs (parseLinesFrom st (renderS s ++ rest)) ∨
    (wnS (findLoop st.scopeDefs).isSome st.func.isSome s = true ∧
      ∃ st', parseLinesFrom st (renderS s ++ rest) = parseLinesFrom st' rest ∧ shape st' = shape st)
  | .expr none e, st, rest, hf => by
      obtain ⟨st1, h1, hs1⟩ := simple_shape st (.exprStmt e) trivial
      exact .inr ⟨rfl, st1, pl_cons _ h1, hs1⟩
  | .expr (some n) e, st, rest, hf => by
      obtain ⟨st1, h1, hs1⟩ := simple_shape st (.assign n e) trivial
      exact .inr ⟨rfl, st1, pl_cons _ h1, hs1⟩
  | .ret e, st, rest, hf => by
      obtain ⟨st1, h1, hs1⟩ := simple_shape st (.ret e) trivial
      exact .inr ⟨rfl, st1, pl_cons _ h1, hs1⟩
  | .label l, st, rest, hf => by
      obtain ⟨st1, h1, hs1⟩ := simple_shape st (.label l) trivial
      exact .inr ⟨rfl, st1, pl_cons _ h1, hs1⟩
  | .jump l c, st, rest, hf => by
      obtain ⟨st1, h1, hs1⟩ := simple_shape st (.jump l c) trivial
      exact .inr ⟨rfl, st1, pl_cons _ h1, hs1⟩
  | .include incs, st, rest, hf => by
      obtain ⟨st1, h1, hs1⟩ := includes_shape incs st rest
      exact .inr ⟨rfl, st1, h1, hs1⟩
  | .brk, st, rest, hf => by
      simp only [renderS, List.cons_append, List.nil_append]
      cases h : stepLine st .break_ with
      | error e => exact .inl (pl_err _ h)
      | ok st1 =>
          have := break_shape h
          exact .inr ⟨by simpa [wnS] using this.2, st1, pl_cons _ h, this.1⟩
  | .cont, st, rest, hf => by
      simp only [renderS, List.cons_append, List.nil_append]
      cases h : stepLine st .continue_ with
      | error e => exact .inl (pl_err _ h)
      | ok st1 =>
          have := continue_shape h
          exact .inr ⟨by simpa [wnS] using this.2, st1, pl_cons _ h, this.1⟩
  | .while c b, st, rest, hf => by
      simp only [renderS, List.cons_append, List.nil_append, List.append_assoc]
      rw [pl_cons _ (step_whileBegin st c)]
      have hsh1 := shape_upd st (st.cur ++ [.jump (lDone st.idx) (some (notE c)), .label (lLoop st.idx)])
        (.whileD (lLoop st.idx) (lDone st.idx) c :: st.defs) (st.idx + 1) st.nextFid
      generalize upd st _ _ _ _ = st1 at hsh1
      have hsh1' : shape st1 = (st.func.isSome, st.floor, true :: skel st.defs) := hsh1
      obtain ⟨hf1, hfn1, hil1⟩ := pushed hf hsh1'
      rcases rejB b st1 (.endwhile :: rest) hf1 with herr | ⟨hw, st2, h2, hsh2⟩
      · exact .inl herr
      · rw [h2]
        cases h : stepLine st2 .endwhile with
        | error e => exact .inl (pl_err _ h)
        | ok st3 =>
            refine .inr ⟨?_, st3, pl_cons _ h, ?_⟩
            · rw [hil1, hfn1] at hw; simpa [wnS] using hw
            · rw [endwhile_shape h]
              obtain ⟨a1, a2, a3⟩ := shape_split.mp hsh2
              obtain ⟨b1, b2, b3⟩ := shape_split'.mp hsh1'
              simp [shape, a1, a2, a3, b1, b2, b3]
  | .for v ix vals b, st, rest, hf => by
      simp only [renderS, List.cons_append, List.nil_append, List.append_assoc]
      rw [pl_cons _ (step_forBegin st v ix vals)]
      have hsh1 := shape_upd st (st.cur ++ forHeader st.idx v (ix.getD (vIndex st.idx)) vals)
        (.forD st.idx (ix.getD (vIndex st.idx)) false :: st.defs) (st.idx + 1) st.nextFid
      generalize upd st _ _ _ _ = st1 at hsh1
      have hsh1' : shape st1 = (st.func.isSome, st.floor, true :: skel st.defs) := hsh1
      obtain ⟨hf1, hfn1, hil1⟩ := pushed hf hsh1'
      rcases rejB b st1 (.endfor :: rest) hf1 with herr | ⟨hw, st2, h2, hsh2⟩
      · exact .inl herr
      · rw [h2]
        cases h : stepLine st2 .endfor with
        | error e => exact .inl (pl_err _ h)
        | ok st3 =>
            refine .inr ⟨?_, st3, pl_cons _ h, ?_⟩
            · rw [hil1, hfn1] at hw; simpa [wnS] using hw
            · rw [endfor_shape h]
              obtain ⟨a1, a2, a3⟩ := shape_split.mp hsh2
              obtain ⟨b1, b2, b3⟩ := shape_split'.mp hsh1'
              simp [shape, a1, a2, a3, b1, b2, b3]
  | .ite c t e, st, rest, hf => by
      simp only [renderS, List.cons_append, List.nil_append, List.append_assoc]
      rw [pl_cons _ (step_ifBegin st c)]
      have hsh1 := shape_upd st (st.cur ++ [.jump (lIf st.idx) (some (notE c))])
        (.ifD st.cur.length (lIf st.idx) (lDone st.idx) false :: st.defs) (st.idx + 1) st.nextFid
      generalize upd st _ _ _ _ = st1 at hsh1
      have hsh1' : shape st1 = (st.func.isSome, st.floor, false :: skel st.defs) := hsh1
      obtain ⟨hf1, hfn1, hil1⟩ := pushed hf hsh1'
      rcases rejB t st1 (renderE e ++ rest) hf1 with herr | ⟨hw, st2, h2, hsh2⟩
      · exact .inl herr
      · rw [h2]
        rcases rejE e st2 rest (floor_le_of_shape hsh2 hf1) with herr | ⟨hwe, st3, h3, c1, c2, c3⟩
        · exact .inl herr
        · refine .inr ⟨?_, st3, h3, ?_⟩
          · rw [inLoop_of_shape hsh2, func_of_shape hsh2] at hwe
            rw [hil1, hfn1] at hw hwe
            simp only [Bool.false_or] at hw hwe
            simp [wnS, hw, hwe]
          · obtain ⟨a1, a2, a3⟩ := shape_split.mp hsh2
            obtain ⟨b1, b2, b3⟩ := shape_split'.mp hsh1'
            simp [shape, c1, c2, c3, a1, a2, a3, b1, b2, b3]
  | .func fid n args laa isAsync b, st, rest, hf => by
      simp only [renderS, List.cons_append, List.nil_append, List.append_assoc]
      obtain ⟨stmts, func, defs, idx, nf⟩ := st
      cases func with
      | some f => exact .inl (pl_err _ (e := .nestedFunction) (by simp [stepLine]))
      | none =>
          have hs : stepLine ⟨stmts, none, defs, idx, nf⟩ (.funcBegin n args laa isAsync) =
              .ok ⟨stmts, some ⟨nf, n, args, laa, isAsync, [], defs.length⟩, defs, idx, nf + 1⟩ := by
            simp [stepLine]
          rw [pl_cons _ hs]
          have hil1 : (findLoop (PState.scopeDefs ⟨stmts, some ⟨nf, n, args, laa, isAsync, [], defs.length⟩, defs, idx, nf + 1⟩)).isSome
              = false := by simp [PState.scopeDefs, PState.floor, findLoop]
          rcases rejB b ⟨stmts, some ⟨nf, n, args, laa, isAsync, [], defs.length⟩, defs, idx, nf + 1⟩ (.funcEnd :: rest)
            (by simp [PState.floor]) with herr | ⟨hw, st2, h2, hsh2⟩
          · exact .inl herr
          · rw [h2]
            cases h : stepLine st2 .funcEnd with
            | error e => exact .inl (pl_err _ h)
            | ok st3 =>
                refine .inr ⟨?_, st3, pl_cons _ h, ?_⟩
                · rw [hil1] at hw; simpa [wnS] using hw
                · rw [funcEnd_shape h]
                  obtain ⟨a1, a2, a3⟩ := shape_split.mp hsh2
                  simp [shape, a3, PState.floor]
theorem rejB : ∀ (B : List SStmt) (st : PState) (rest : List Line), st.floor ≤ st.defs.length →
    Errs (parseLinesFrom st (renderB B ++ rest)) ∨
    (wnB (findLoop st.scopeDefs).isSome st.func.isSome B = true ∧
      ∃ st', parseLinesFrom st (renderB B ++ rest) = parseLinesFrom st' rest ∧ shape st' = shape st)
  | [], st, rest, hf => .inr ⟨rfl, st, rfl, rfl⟩
  | s :: ss, st, rest, hf => by
      simp only [renderB, List.append_assoc]
      rcases rejS s st (renderB ss ++ rest) hf with herr | ⟨hw, st1, h1, hsh1⟩
      · exact .inl herr
      · rw [h1]
        rcases rejB ss st1 rest (floor_le_of_shape hsh1 hf) with herr | ⟨hw2, st2, h2, hsh2⟩
        · exact .inl herr
        · rw [inLoop_of_shape hsh1, func_of_shape hsh1] at hw2
          exact .inr ⟨by simp [wnB, hw, hw2], st2, h2, hsh2.trans hsh1⟩
theorem rejE : ∀ (e : SElse) (st : PState) (rest : List Line), st.floor ≤ st.defs.length →
    Errs (parseLinesFrom st (renderE e ++ rest)) ∨
    (wnE (findLoop st.scopeDefs).isSome st.func.isSome e = true ∧
      ∃ st', parseLinesFrom st (renderE e ++ rest) = parseLinesFrom st' rest ∧
        st'.func.isSome = st.func.isSome ∧ st'.floor = st.floor ∧ skel st'.defs = (skel st.defs).tail)
  | .none, st, rest, hf => by
      simp only [renderE, List.cons_append, List.nil_append]
      cases h : stepLine st .endif with
      | error e => exact .inl (pl_err _ h)
      | ok st1 => exact .inr ⟨rfl, st1, pl_cons _ h, shape_split'.mp (endif_shape h)⟩
  | .els b, st, rest, hf => by
      simp only [renderE, List.cons_append, List.nil_append, List.append_assoc]
      cases h : stepLine st .else_ with
      | error e => exact .inl (pl_err _ h)
      | ok st1 =>
          rw [pl_cons _ h]
          have hsh1 := else_shape h
          rcases rejB b st1 (.endif :: rest) (floor_le_of_shape hsh1 hf) with herr | ⟨hw, st2, h2, hsh2⟩
          · exact .inl herr
          · rw [h2]
            cases h3 : stepLine st2 .endif with
            | error e => exact .inl (pl_err _ h3)
            | ok st3 =>
                refine .inr ⟨?_, st3, pl_cons _ h3, ?_⟩
                · rw [inLoop_of_shape hsh1, func_of_shape hsh1] at hw; simpa [wnE] using hw
                · obtain ⟨a1, a2, a3⟩ := shape_split.mp hsh2
                  obtain ⟨b1, b2, b3⟩ := shape_split.mp hsh1
                  obtain ⟨c1, c2, c3⟩ := shape_split'.mp (endif_shape h3)
                  simp [c1, c2, c3, a1, a2, a3, b1, b2, b3]
  | .elif c t e, st, rest, hf => by
      simp only [renderE, List.cons_append, List.nil_append, List.append_assoc]
      cases h : stepLine st (.elif c) with
      | error e => exact .inl (pl_err _ h)
      | ok st1 =>
          rw [pl_cons _ h]
          have hsh1 := elif_shape h
          have hf1 := floor_le_of_shape hsh1 hf
          rcases rejB t st1 (renderE e ++ rest) hf1 with herr | ⟨hw, st2, h2, hsh2⟩
          · exact .inl herr
          · rw [h2]
            rcases rejE e st2 rest (floor_le_of_shape hsh2 hf1) with herr | ⟨hwe, st3, h3, c1, c2, c3⟩
            · exact .inl herr
            · refine .inr ⟨?_, st3, h3, ?_⟩
              · rw [inLoop_of_shape hsh2, func_of_shape hsh2] at hwe
                rw [inLoop_of_shape hsh1, func_of_shape hsh1] at hw hwe
                simp [wnE, hw, hwe]
              · obtain ⟨a1, a2, a3⟩ := shape_split.mp hsh2
                obtain ⟨b1, b2, b3⟩ := shape_split.mp hsh1
                simp [c1, c2, c3, a1, a2, a3, b1, b2, b3]
end

/-- the parser rejects every program that is not well nested (so, with `parseLines_render`, it accepts exactly the
well-nested ones; no hypothesis on function identifiers or include statements is needed here) -/
theorem parse_rejects_ill_nested (B : List SStmt) (h : ¬ WellNested B) :
    ∃ e, parseLines (renderB B) = .error e := by
  rcases rejB B PState.init [] (Nat.le_refl _) with ⟨e, he⟩ | ⟨hw, st', h', hsh⟩
  · simp only [List.append_nil] at he
    exact ⟨e, by simp [parseLines, he]⟩
  · exact absurd hw h

/-- contrapositive: whatever the parser accepts is well nested -/
theorem wellNested_of_parse_ok (B : List SStmt) {r : List Stmt} (h : parseLines (renderB B) = .ok r) :
    WellNested B := by
  refine Decidable.byContradiction fun hn => ?_
  obtain ⟨e, he⟩ := parse_rejects_ill_nested B hn
  rw [he] at h; cases h

/-- `break` inside a function inside a global loop is rejected; so is a nested function definition -/
example : ∃ e, parseLines (renderB
    [.while (.variable (.user "c")) [.func 0 (.user "f") [] false false [.brk]]]) = .error e :=
  parse_rejects_ill_nested _ (by decide)
example : ∃ e, parseLines (renderB
    [.func 0 (.user "f") [] false false [.ite (.variable (.user "c")) [.func 1 (.user "g") [] false false []] .none]])
      = .error e :=
  parse_rejects_ill_nested _ (by decide)

end C01

-- #print axioms C01.parseLines_render            -- [propext, Quot.sound]
-- #print axioms C01.parse_rejects_ill_nested     -- [propext, Quot.sound]
