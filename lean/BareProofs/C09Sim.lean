import BareProofs.C09Good
open Machine
namespace C09
variable {W : Type}

/-! ## the limited run against the unlimited run -/

/-- final counter within `L` -/
def LeF (L : Nat) : Fin W → Prop
  | .ok s => s.count ≤ L
  | .err _ s => s.count ≤ L
  | .oof => True

/-- the unlimited run went beyond `L` statements, and its effects extend those of the aborted state `s'` -/
def Beyond (E : Ext W) (L : Nat) (s' : State W) : Fin W → Prop
  | .ok s => L < s.count ∧ E.le s'.world s.world
  | .err _ s => L < s.count ∧ E.le s'.world s.world
  | .oof => True

/-- the limited run was aborted exactly when statement `L + 1` would start -/
def Abort (E : Ext W) (L : Nat) (fa fb : Fin W) : Prop :=
  ∃ s', fb = .err (.exceeded L) s' ∧ s'.count = L + 1 ∧ Beyond E L s' fa

/-- `a`: outcome under no limit, `b`: outcome under limit `L`, same start -/
def SimF (E : Ext W) (L : Nat) (fa fb : Fin W) (same : Prop) : Prop := (same ∧ LeF L fa) ∨ Abort E L fa fb

def SimO (E : Ext W) (L : Nat) (a b : Out W) : Prop := SimF E L a.fin b.fin (b = a)
def SimA (E : Ext W) (L : Nat) (a b : ArgsOut W) : Prop := SimF E L a.fin b.fin (b = a)
def SimR (E : Ext W) (L : Nat) (a b : Res W) : Prop := SimF E L a.fin b.fin (b = a)

theorem Out.eq_of_fin_err {o : Out W} {e s} (h : o.fin = .err e s) : o = .err e s := by
  cases o <;> simp only [Out.fin] at h <;> first | cases h; rfl | cases h
theorem ArgsOut.eq_of_fin_err {o : ArgsOut W} {e s} (h : o.fin = .err e s) : o = .err e s := by
  cases o <;> simp only [ArgsOut.fin] at h <;> first | cases h; rfl | cases h
theorem Res.eq_of_fin_err {o : Res W} {e s} (h : o.fin = .err e s) : o = .err e s := by
  cases o <;> simp only [Res.fin] at h <;> first | cases h; rfl | cases h

theorem Beyond.trans {E : Ext W} {L : Nat} {s' s1 : State W} {o : Fin W}
    (h : Beyond E L s' (.ok s1)) (g : Good E 0 s1 o) : Beyond E L s' o := by
  cases o with
  | ok s => exact ⟨Nat.lt_of_lt_of_le h.1 g.1.1, E.trans h.2 g.1.2⟩
  | err e s => exact ⟨Nat.lt_of_lt_of_le h.1 g.1.1, E.trans h.2 g.1.2⟩
  | oof => trivial

section EvalSim
variable (E : Ext W) (L : Nat) (c0 cL : Config W) (hh : cL.host = c0.host) (hbi : cL.builtins = c0.builtins)
  (cA cB : CallFn W) (hG : CallGood E 0 cA) (hS : ∀ f a s, s.count ≤ L → SimO E L (cA f a s) (cB f a s))
  (locals : Option Env)

theorem lookupFunc_congr (g : Env) (n : Name) (hh : cL.host = c0.host) (hbi : cL.builtins = c0.builtins) :
    lookupFunc cL locals g n = lookupFunc c0 locals g n := by
  simp only [lookupFunc, hh, hbi]

/-- what the recursion knows about a sub-expression -/
def SubOK (e : Expr) : Prop :=
  ∀ st : State W, st.count ≤ L → SimO E L (evalExpr c0 cA locals e st) (evalExpr cL cB locals e st)

include hG hh in
theorem sim_unary (op : UnOp) (e : Expr) (ih : SubOK E L c0 cL cA cB locals e) :
    SubOK E L c0 cL cA cB locals (.unary op e) := by
  intro st hst
  have g1 := evalExpr_good E 0 c0 cA hG locals e st
  cases op <;> simp only [evalExpr, hh] <;>
  · rcases ih st hst with ⟨hb, hle⟩ | ⟨s', hb, hcnt, hbey⟩
    · rw [hb]
      generalize evalExpr c0 cA locals e st = a1 at g1 hle
      cases a1 with
      | err e s1 => exact .inl ⟨rfl, hle⟩
      | oof => exact .inl ⟨rfl, trivial⟩
      | ok v s1 => exact .inl ⟨rfl, hle⟩
    · rw [Out.eq_of_fin_err hb]
      refine .inr ⟨s', rfl, hcnt, ?_⟩
      generalize evalExpr c0 cA locals e st = a1 at g1 hbey
      cases a1 with
      | err e s1 => exact hbey
      | oof => trivial
      | ok v s1 => exact hbey

include hG hh in
/-- the two-chain pattern of a strict binary operator, `&&` and `||` -/
theorem sim_binary (op : BinOp) (l r : Expr) (ihl : SubOK E L c0 cL cA cB locals l)
    (ihr : SubOK E L c0 cL cA cB locals r) : SubOK E L c0 cL cA cB locals (.binary op l r) := by
  intro st hst
  have g1 := evalExpr_good E 0 c0 cA hG locals l st
  cases op <;> simp only [evalExpr, hh] <;>
  · rcases ihl st hst with ⟨hb, hle⟩ | ⟨s', hb, hcnt, hbey⟩
    · rw [hb]
      generalize evalExpr c0 cA locals l st = a1 at g1 hle
      cases a1 with
      | err e s1 => exact .inl ⟨rfl, hle⟩
      | oof => exact .inl ⟨rfl, trivial⟩
      | ok lv s1 =>
        simp only
        first
        | (split
           · exact ihr s1 hle
           · exact .inl ⟨rfl, hle⟩)
        | (split
           · exact .inl ⟨rfl, hle⟩
           · exact ihr s1 hle)
        | (have g2 := evalExpr_good E 0 c0 cA hG locals r s1
           rcases ihr s1 hle with ⟨hb2, hle2⟩ | ⟨s2', hb2, hcnt2, hbey2⟩
           · rw [hb2]
             generalize evalExpr c0 cA locals r s1 = a2 at g2 hle2
             cases a2 with
             | err e s2 => exact .inl ⟨rfl, hle2⟩
             | oof => exact .inl ⟨rfl, trivial⟩
             | ok rv s2 => exact .inl ⟨rfl, hle2⟩
           · rw [Out.eq_of_fin_err hb2]
             refine .inr ⟨s2', rfl, hcnt2, ?_⟩
             generalize evalExpr c0 cA locals r s1 = a2 at g2 hbey2
             cases a2 with
             | err e s2 => exact hbey2
             | oof => trivial
             | ok rv s2 => exact hbey2)
    · rw [Out.eq_of_fin_err hb]
      refine .inr ⟨s', rfl, hcnt, ?_⟩
      generalize evalExpr c0 cA locals l st = a1 at g1 hbey
      cases a1 with
      | err e s1 => exact hbey
      | oof => trivial
      | ok lv s1 =>
        simp only
        have g2 := evalExpr_good E 0 c0 cA hG locals r s1
        first
        | (split
           · exact hbey.trans g2
           · exact hbey)
        | (split
           · exact hbey
           · exact hbey.trans g2)
        | (generalize evalExpr c0 cA locals r s1 = a2 at g2
           cases a2 <;> exact hbey.trans g2)

def ArgsOK (es : List Expr) : Prop :=
  ∀ st : State W, st.count ≤ L → SimA E L (evalArgs c0 cA locals es st) (evalArgs cL cB locals es st)

def IfOK (es : List Expr) : Prop :=
  ∀ st : State W, st.count ≤ L → SimO E L (evalIf c0 cA locals es st) (evalIf cL cB locals es st)

include hG hS hh hbi in
theorem sim_function (n : Name) (args : List Expr) (ihA : ArgsOK E L c0 cL cA cB locals args)
    (ihI : IfOK E L c0 cL cA cB locals args) : SubOK E L c0 cL cA cB locals (.function n args) := by
  intro st hst
  simp only [evalExpr]
  split
  · exact ihI st hst
  · have g1 := evalArgs_good E 0 c0 cA hG locals args st
    rcases ihA st hst with ⟨hb, hle⟩ | ⟨s', hb, hcnt, hbey⟩
    · rw [hb]
      generalize evalArgs c0 cA locals args st = a1 at g1 hle
      cases a1 with
      | err e s1 => exact .inl ⟨rfl, hle⟩
      | oof => exact .inl ⟨rfl, trivial⟩
      | ok vs s1 =>
        simp only [lookupFunc_congr c0 cL locals s1.globals n hh hbi]
        split
        · exact .inl ⟨rfl, hle⟩
        · exact hS _ _ _ hle
        · exact .inl ⟨rfl, hle⟩
    · rw [ArgsOut.eq_of_fin_err hb]
      refine .inr ⟨s', rfl, hcnt, ?_⟩
      generalize evalArgs c0 cA locals args st = a1 at g1 hbey
      cases a1 with
      | err e s1 => exact hbey
      | oof => trivial
      | ok vs s1 =>
        simp only
        split
        · exact hbey
        · exact hbey.trans (hG _ _ _)
        · exact hbey

include hG in
theorem sim_args_cons (a : Expr) (as : List Expr) (ihE : SubOK E L c0 cL cA cB locals a)
    (ihA : ArgsOK E L c0 cL cA cB locals as) : ArgsOK E L c0 cL cA cB locals (a :: as) := by
  intro st hst
  simp only [evalArgs]
  have g1 := evalExpr_good E 0 c0 cA hG locals a st
  rcases ihE st hst with ⟨hb, hle⟩ | ⟨s', hb, hcnt, hbey⟩
  · rw [hb]
    generalize evalExpr c0 cA locals a st = a1 at g1 hle
    cases a1 with
    | err e s1 => exact .inl ⟨rfl, hle⟩
    | oof => exact .inl ⟨rfl, trivial⟩
    | ok v s1 =>
      simp only
      have g2 := evalArgs_good E 0 c0 cA hG locals as s1
      rcases ihA s1 hle with ⟨hb2, hle2⟩ | ⟨s2', hb2, hcnt2, hbey2⟩
      · rw [hb2]
        generalize evalArgs c0 cA locals as s1 = a2 at g2 hle2
        cases a2 with
        | err e s2 => exact .inl ⟨rfl, hle2⟩
        | oof => exact .inl ⟨rfl, trivial⟩
        | ok vs s2 => exact .inl ⟨rfl, hle2⟩
      · rw [ArgsOut.eq_of_fin_err hb2]
        refine .inr ⟨s2', rfl, hcnt2, ?_⟩
        generalize evalArgs c0 cA locals as s1 = a2 at g2 hbey2
        cases a2 with
        | err e s2 => exact hbey2
        | oof => trivial
        | ok vs s2 => exact hbey2
  · rw [Out.eq_of_fin_err hb]
    refine .inr ⟨s', rfl, hcnt, ?_⟩
    generalize evalExpr c0 cA locals a st = a1 at g1 hbey
    cases a1 with
    | err e s1 => exact hbey
    | oof => trivial
    | ok v s1 =>
      simp only
      have g2 := evalArgs_good E 0 c0 cA hG locals as s1
      generalize evalArgs c0 cA locals as s1 = a2 at g2
      cases a2 <;> exact hbey.trans g2

include hG in
theorem sim_if1 (c : Expr) (ihc : SubOK E L c0 cL cA cB locals c) : IfOK E L c0 cL cA cB locals [c] := by
  intro st hst
  simp only [evalIf]
  have g1 := evalExpr_good E 0 c0 cA hG locals c st
  rcases ihc st hst with ⟨hb, hle⟩ | ⟨s', hb, hcnt, hbey⟩
  · rw [hb]
    generalize evalExpr c0 cA locals c st = a1 at g1 hle
    cases a1 with
    | err e s1 => exact .inl ⟨rfl, hle⟩
    | oof => exact .inl ⟨rfl, trivial⟩
    | ok v s1 => exact .inl ⟨rfl, hle⟩
  · rw [Out.eq_of_fin_err hb]
    refine .inr ⟨s', rfl, hcnt, ?_⟩
    generalize evalExpr c0 cA locals c st = a1 at g1 hbey
    cases a1 with
    | err e s1 => exact hbey
    | oof => trivial
    | ok v s1 => exact hbey

include hG hh in
theorem sim_if2 (c t : Expr) (ihc : SubOK E L c0 cL cA cB locals c) (iht : SubOK E L c0 cL cA cB locals t) :
    IfOK E L c0 cL cA cB locals [c, t] := by
  intro st hst
  simp only [evalIf, hh]
  have g1 := evalExpr_good E 0 c0 cA hG locals c st
  rcases ihc st hst with ⟨hb, hle⟩ | ⟨s', hb, hcnt, hbey⟩
  · rw [hb]
    generalize evalExpr c0 cA locals c st = a1 at g1 hle
    cases a1 with
    | err e s1 => exact .inl ⟨rfl, hle⟩
    | oof => exact .inl ⟨rfl, trivial⟩
    | ok v s1 =>
      simp only
      split
      · exact iht s1 hle
      · exact .inl ⟨rfl, hle⟩
  · rw [Out.eq_of_fin_err hb]
    refine .inr ⟨s', rfl, hcnt, ?_⟩
    generalize evalExpr c0 cA locals c st = a1 at g1 hbey
    cases a1 with
    | err e s1 => exact hbey
    | oof => trivial
    | ok v s1 =>
      simp only
      split
      · exact hbey.trans (evalExpr_good E 0 c0 cA hG locals t s1)
      · exact hbey

include hG hh in
theorem sim_if3 (c t f : Expr) (rest : List Expr) (ihc : SubOK E L c0 cL cA cB locals c)
    (iht : SubOK E L c0 cL cA cB locals t) (ihf : SubOK E L c0 cL cA cB locals f) :
    IfOK E L c0 cL cA cB locals (c :: t :: f :: rest) := by
  intro st hst
  simp only [evalIf, hh]
  have g1 := evalExpr_good E 0 c0 cA hG locals c st
  rcases ihc st hst with ⟨hb, hle⟩ | ⟨s', hb, hcnt, hbey⟩
  · rw [hb]
    generalize evalExpr c0 cA locals c st = a1 at g1 hle
    cases a1 with
    | err e s1 => exact .inl ⟨rfl, hle⟩
    | oof => exact .inl ⟨rfl, trivial⟩
    | ok v s1 =>
      simp only
      split
      · exact iht s1 hle
      · exact ihf s1 hle
  · rw [Out.eq_of_fin_err hb]
    refine .inr ⟨s', rfl, hcnt, ?_⟩
    generalize evalExpr c0 cA locals c st = a1 at g1 hbey
    cases a1 with
    | err e s1 => exact hbey
    | oof => trivial
    | ok v s1 =>
      simp only
      split
      · exact hbey.trans (evalExpr_good E 0 c0 cA hG locals t s1)
      · exact hbey.trans (evalExpr_good E 0 c0 cA hG locals f s1)

set_option linter.unusedSectionVars false in
include hG hS hh hbi in
mutual
theorem evalExpr_sim : ∀ (e : Expr), SubOK E L c0 cL cA cB locals e
  | .number q => by intro st hst; simp only [evalExpr]; exact .inl ⟨rfl, hst⟩
  | .string s => by intro st hst; simp only [evalExpr]; exact .inl ⟨rfl, hst⟩
  | .variable n => by
      intro st hst
      refine .inl ⟨by simp only [evalExpr], ?_⟩
      simp only [evalExpr]
      repeat' split
      all_goals exact hst
  | .function n args => sim_function E L c0 cL hh hbi cA cB hG hS locals n args (evalArgs_sim args) (evalIf_sim args)
  | .binary op l r => sim_binary E L c0 cL hh cA cB hG locals op l r (evalExpr_sim l) (evalExpr_sim r)
  | .unary op e => sim_unary E L c0 cL hh cA cB hG locals op e (evalExpr_sim e)
  | .group e => by intro st hst; simp only [evalExpr]; exact evalExpr_sim e st hst

theorem evalArgs_sim : ∀ (es : List Expr), ArgsOK E L c0 cL cA cB locals es
  | [] => by intro st hst; simp only [evalArgs]; exact .inl ⟨rfl, hst⟩
  | a :: as => sim_args_cons E L c0 cL cA cB hG locals a as (evalExpr_sim a) (evalArgs_sim as)

theorem evalIf_sim : ∀ (es : List Expr), IfOK E L c0 cL cA cB locals es
  | [] => by intro st hst; simp only [evalIf]; exact .inl ⟨rfl, hst⟩
  | [c] => sim_if1 E L c0 cL cA cB hG locals c (evalExpr_sim c)
  | [c, t] => sim_if2 E L c0 cL hh cA cB hG locals c t (evalExpr_sim c) (evalExpr_sim t)
  | c :: t :: f :: rest =>
      sim_if3 E L c0 cL hh cA cB hG locals c t f rest (evalExpr_sim c) (evalExpr_sim t) (evalExpr_sim f)
end

include hG hS in
theorem runTree_sim (hdb : cL.debug = c0.debug) (hh : cL.host = c0.host) (hlf : ∀ w, E.le w (c0.host.logFailure w)) :
    ∀ (t : LibTree W) (st : State W), st.count ≤ L → TreeExt E st.world t →
      SimO E L (runTree c0 cA t st) (runTree cL cB t st)
  | .ret (.ok v) w, st, hst, _ => by simp only [runTree]; exact .inl ⟨rfl, hst⟩
  | .ret (.fail v) w, st, hst, _ => by simp only [runTree, hdb, hh]; exact .inl ⟨rfl, hst⟩
  | .ret (.rt msg) w, st, hst, _ => by simp only [runTree]; exact .inl ⟨rfl, hst⟩
  | .call f args w k, st, hst, ht => by
      cases ht with | call hw hk =>
      simp only [runTree]
      have g1 := hG f args { st with world := w }
      rcases hS f args { st with world := w } hst with ⟨hb, hle⟩ | ⟨s', hb, hcnt, hbey⟩
      · rw [hb]
        generalize cA f args { st with world := w } = a1 at g1 hle
        cases a1 with
        | err e s1 => exact .inl ⟨rfl, hle⟩
        | oof => exact .inl ⟨rfl, trivial⟩
        | ok v s1 => exact runTree_sim hdb hh hlf (k v s1.world) s1 hle (hk v s1.world g1.1.2)
      · rw [Out.eq_of_fin_err hb]
        refine .inr ⟨s', rfl, hcnt, ?_⟩
        generalize cA f args { st with world := w } = a1 at g1 hbey
        cases a1 with
        | err e s1 => exact hbey
        | oof => trivial
        | ok v s1 => exact hbey.trans (runTree_good E 0 c0 cA hG hlf (k v s1.world) s1 (hk v s1.world g1.1.2))
  | .globalGet n w k, st, hst, ht => by
      cases ht with | globalGet hw hk =>
      simp only [runTree]
      exact runTree_sim hdb hh hlf _ { st with world := w } hst (hk _)
  | .globalSet n v w k, st, hst, ht => by
      cases ht with | globalSet hw hk =>
      simp only [runTree]
      exact runTree_sim hdb hh hlf _ { st with globals := st.globals.set n v, world := w } hst hk
end EvalSim
/-! ## the machine under limit `L > 0` against the machine under no limit -/

/-- `cL` is `c0` with the limit `L` instead of "unlimited" -/
structure SameBut (c0 cL : Config W) (L : Nat) : Prop where
  max0 : c0.maxStatements = 0
  maxL : cL.maxStatements = L
  pos : 0 < L
  host : cL.host = c0.host
  funs : cL.funs = c0.funs
  builtins : cL.builtins = c0.builtins
  debug : cL.debug = c0.debug
  resolve : cL.resolve = c0.resolve
  fetch : cL.fetch = c0.fetch

def SimM (E : Ext W) (L : Nat) (c0 cL : Config W) (fuel : Nat) : Prop :=
  (∀ f a s, s.count ≤ L → SimO E L (callValue₀ c0 fuel f a s) (callValue₀ cL fuel f a s)) ∧
  (∀ P locals base pc st, st.count ≤ L →
      SimR E L (execM₀ c0 fuel P locals base pc st) (execM₀ cL fuel P locals base pc st)) ∧
  (∀ base incs st, st.count ≤ L →
      SimR E L (execIncludes₀ c0 fuel base incs st) (execIncludes₀ cL fuel base incs st))

theorem Beyond.ofGood {E : Ext W} {L : Nat} {s1 : State W} {o : Fin W} (h : L < s1.count) (g : Good E 0 s1 o) :
    Beyond E L s1 o :=
  Beyond.trans (s1 := s1) ⟨h, E.refl _⟩ g

theorem simM (E : Ext W) (L : Nat) (c0 cL : Config W) (hE : HostExt E c0.host) (hs : SameBut c0 cL L) :
    ∀ fuel, SimM E L c0 cL fuel
  | 0 => by
    refine ⟨?_, ?_, ?_⟩
    · intro f a s _; rw [callValue₀.eq_1, callValue₀.eq_1]; exact .inl ⟨rfl, trivial⟩
    · intro P locals base pc st hst
      rw [execM₀.eq_1, execM₀.eq_1 cL]
      cases P[pc]? with
      | none => exact .inl ⟨rfl, hst⟩
      | some s => exact .inl ⟨rfl, trivial⟩
    · intro base incs st hst
      cases incs with
      | nil => rw [execIncludes₀.eq_1, execIncludes₀.eq_1]; exact .inl ⟨rfl, hst⟩
      | cons i r =>
        rw [execIncludes₀.eq_2, execIncludes₀.eq_2]
        simp only [hs.resolve, hs.fetch]
        cases c0.fetch (c0.resolve base i) with
        | missing => exact .inl ⟨rfl, hst⟩
        | broken => exact .inl ⟨rfl, hst⟩
        | script ss => exact .inl ⟨rfl, trivial⟩
  | fuel+1 => by
    obtain ⟨ihC, ihE, ihI⟩ := simM E L c0 cL hE hs fuel
    have gM := goodM E c0 hE fuel
    rw [GoodM, hs.max0] at gM
    obtain ⟨gC, gE, gI⟩ := gM
    refine ⟨?_, ?_, ?_⟩
    · intro f a s hst
      rw [callValue₀.eq_def, callValue₀.eq_def cL]
      simp only [hs.host, hs.funs]
      split
      · split
        · next fd _ =>
          have hw := bindArgs_ext E c0.host hE.newArray fd.lastArgArray fd.args a [] s.world
          generalize bindArgs c0.host fd.lastArgArray fd.args a [] s.world = bw at hw
          obtain ⟨loc, w1⟩ := bw
          simp only at hw ⊢
          have g1 := gE fd.body (some loc) none 0 { s with world := w1 }
          rcases ihE fd.body (some loc) none 0 { s with world := w1 } hst with ⟨hb, hle⟩ | ⟨s', hb, hcnt, hbey⟩
          · rw [hb]
            generalize execM₀ c0 fuel fd.body (some loc) none 0 { s with world := w1 } = a1 at g1 hle
            cases a1 with
            | done s1 => exact .inl ⟨rfl, hle⟩
            | ret v s1 => exact .inl ⟨rfl, hle⟩
            | err e s1 => exact .inl ⟨rfl, hle⟩
            | oof => exact .inl ⟨rfl, trivial⟩
          · rw [Res.eq_of_fin_err hb]
            refine .inr ⟨s', rfl, hcnt, ?_⟩
            generalize execM₀ c0 fuel fd.body (some loc) none 0 { s with world := w1 } = a1 at g1 hbey
            cases a1 with
            | done s1 => exact hbey
            | ret v s1 => exact hbey
            | err e s1 => exact hbey
            | oof => trivial
        · exact .inl ⟨rfl, hst⟩
      · exact runTree_sim E L c0 cL _ _ gC ihC hs.debug hs.host hE.logFailure _ s hst (hE.lib _ _ _)
      · exact runTree_sim E L c0 cL _ _ gC ihC hs.debug hs.host hE.logFailure _ s hst (hE.other _ _ _)
      · exact .inl ⟨rfl, hst⟩
    · intro P locals base pc st hst
      cases hP : P[pc]? with
      | none => rw [execM₀.eq_1, execM₀.eq_1 cL, hP]; exact .inl ⟨rfl, hst⟩
      | some s =>
        have hb0 : ¬ ((decide (c0.maxStatements > 0) && decide (st.count + 1 > c0.maxStatements)) = true) := by
          simp [hs.max0]
        have gT := execM₀_tick_good E c0 hE (fuel+1) P locals base pc st s hP hb0
        rw [hs.max0] at gT
        by_cases hbL : (decide (cL.maxStatements > 0) && decide (st.count + 1 > cL.maxStatements)) = true
        · -- statement L+1 would start: the limited run aborts here, the unlimited run goes on from count L+1
          rw [execM₀.eq_1 cL, hP]
          simp only
          rw [if_pos hbL]
          simp only [hs.maxL, Bool.and_eq_true, decide_eq_true_eq] at hbL
          refine .inr ⟨{ st with count := st.count + 1 }, by rw [hs.maxL]; rfl, by simp only; omega, ?_⟩
          exact Beyond.ofGood (by simp only; omega) gT
        · rw [execM₀.eq_1, execM₀.eq_1 cL, hP]
          simp only
          rw [if_neg hb0, if_neg hbL]
          simp only [hs.maxL, hs.pos, Bool.and_eq_true, decide_eq_true_eq, true_and, Nat.not_lt, gt_iff_lt] at hbL
          have hst1 : (st.count + 1) ≤ L := hbL
          generalize hst1' : ({ st with count := st.count + 1 } : State W) = st1
          have hst1c : st1.count ≤ L := by rw [← hst1']; exact hst1
          clear hst1' gT
          cases s with
          | expr name e =>
            simp only
            have g1 := evalExpr_good E 0 c0 _ gC locals e st1
            rcases evalExpr_sim E L c0 cL hs.host hs.builtins _ _ gC ihC locals e st1 hst1c with
              ⟨hb, hle⟩ | ⟨s', hb, hcnt, hbey⟩
            · rw [hb]
              generalize evalExpr c0 (callValue₀ c0 fuel) locals e st1 = a1 at g1 hle
              cases a1 with
              | err e s1 => exact .inl ⟨rfl, hle⟩
              | oof => exact .inl ⟨rfl, trivial⟩
              | ok v s1 => cases name <;> cases locals <;> exact ihE _ _ _ _ _ hle
            · rw [Out.eq_of_fin_err hb]
              refine .inr ⟨s', rfl, hcnt, ?_⟩
              generalize evalExpr c0 (callValue₀ c0 fuel) locals e st1 = a1 at g1 hbey
              cases a1 with
              | err e s1 => exact hbey
              | oof => trivial
              | ok v s1 =>
                cases name <;> cases locals <;> simp only
                · exact hbey.trans (gE ..)
                · exact hbey.trans (gE ..)
                · exact Beyond.trans (s1 := { s1 with globals := _ }) hbey (gE ..)
                · exact hbey.trans (gE ..)
          | jump l c =>
            cases c with
            | none =>
              simp only
              cases findLabel P l with
              | none => exact .inl ⟨rfl, hst1c⟩
              | some i => exact ihE _ _ _ _ _ hst1c
            | some c =>
              simp only [hs.host]
              have g1 := evalExpr_good E 0 c0 _ gC locals c st1
              rcases evalExpr_sim E L c0 cL hs.host hs.builtins _ _ gC ihC locals c st1 hst1c with
                ⟨hb, hle⟩ | ⟨s', hb, hcnt, hbey⟩
              · rw [hb]
                generalize evalExpr c0 (callValue₀ c0 fuel) locals c st1 = a1 at g1 hle
                cases a1 with
                | err e s1 => exact .inl ⟨rfl, hle⟩
                | oof => exact .inl ⟨rfl, trivial⟩
                | ok v s1 =>
                  simp only
                  split
                  · cases findLabel P l with
                    | none => exact .inl ⟨rfl, hle⟩
                    | some i => exact ihE _ _ _ _ _ hle
                  · exact ihE _ _ _ _ _ hle
              · rw [Out.eq_of_fin_err hb]
                refine .inr ⟨s', rfl, hcnt, ?_⟩
                generalize evalExpr c0 (callValue₀ c0 fuel) locals c st1 = a1 at g1 hbey
                cases a1 with
                | err e s1 => exact hbey
                | oof => trivial
                | ok v s1 =>
                  simp only
                  split
                  · cases findLabel P l with
                    | none => exact hbey
                    | some i => exact hbey.trans (gE ..)
                  · exact hbey.trans (gE ..)
          | ret e =>
            cases e with
            | none => exact .inl ⟨rfl, hst1c⟩
            | some e =>
              simp only
              have g1 := evalExpr_good E 0 c0 _ gC locals e st1
              rcases evalExpr_sim E L c0 cL hs.host hs.builtins _ _ gC ihC locals e st1 hst1c with
                ⟨hb, hle⟩ | ⟨s', hb, hcnt, hbey⟩
              · rw [hb]
                generalize evalExpr c0 (callValue₀ c0 fuel) locals e st1 = a1 at g1 hle
                cases a1 with
                | err e s1 => exact .inl ⟨rfl, hle⟩
                | oof => exact .inl ⟨rfl, trivial⟩
                | ok v s1 => exact .inl ⟨rfl, hle⟩
              · rw [Out.eq_of_fin_err hb]
                refine .inr ⟨s', rfl, hcnt, ?_⟩
                generalize evalExpr c0 (callValue₀ c0 fuel) locals e st1 = a1 at g1 hbey
                cases a1 with
                | err e s1 => exact hbey
                | oof => trivial
                | ok v s1 => exact hbey
          | label l => exact ihE _ _ _ _ _ hst1c
          | function fid name args laa isAsync body => exact ihE _ _ _ _ _ hst1
          | «include» incs =>
            simp only
            have g1 := gI base incs st1
            rcases ihI base incs st1 hst1c with ⟨hb, hle⟩ | ⟨s', hb, hcnt, hbey⟩
            · rw [hb]
              generalize execIncludes₀ c0 fuel base incs st1 = a1 at g1 hle
              cases a1 with
              | done s1 => exact ihE _ _ _ _ _ hle
              | ret v s1 => exact .inl ⟨rfl, hle⟩
              | err e s1 => exact .inl ⟨rfl, hle⟩
              | oof => exact .inl ⟨rfl, trivial⟩
            · rw [Res.eq_of_fin_err hb]
              refine .inr ⟨s', rfl, hcnt, ?_⟩
              generalize execIncludes₀ c0 fuel base incs st1 = a1 at g1 hbey
              cases a1 with
              | done s1 => exact hbey.trans (gE ..)
              | ret v s1 => exact hbey
              | err e s1 => exact hbey
              | oof => trivial
    · intro base incs st hst
      cases incs with
      | nil => rw [execIncludes₀.eq_1, execIncludes₀.eq_1]; exact .inl ⟨rfl, hst⟩
      | cons i r =>
        rw [execIncludes₀.eq_2, execIncludes₀.eq_2]
        simp only [hs.resolve, hs.fetch]
        cases c0.fetch (c0.resolve base i) with
        | missing => exact .inl ⟨rfl, hst⟩
        | broken => exact .inl ⟨rfl, hst⟩
        | script ss =>
          simp only
          have g1 := gE ss none (some (c0.resolve base i)) 0 st
          rcases ihE ss none (some (c0.resolve base i)) 0 st hst with ⟨hb, hle⟩ | ⟨s', hb, hcnt, hbey⟩
          · rw [hb]
            generalize execM₀ c0 fuel ss none (some (c0.resolve base i)) 0 st = a1 at g1 hle
            cases a1 with
            | done s1 => exact ihI _ _ _ hle
            | ret v s1 => exact ihI _ _ _ hle
            | err e s1 => exact .inl ⟨rfl, hle⟩
            | oof => exact .inl ⟨rfl, trivial⟩
          · rw [Res.eq_of_fin_err hb]
            refine .inr ⟨s', rfl, hcnt, ?_⟩
            generalize execM₀ c0 fuel ss none (some (c0.resolve base i)) 0 st = a1 at g1 hbey
            cases a1 with
            | done s1 => exact hbey.trans (gI ..)
            | ret v s1 => exact hbey.trans (gI ..)
            | err e s1 => exact hbey
            | oof => trivial

end C09
