import Std.Data.String.ToNat
import Mathlib.Tactic.Ring
import BareModel.Print
import BareProofs.C02Lemmas

/-!
# C02 — print/parse round trip: scanner lemmas

For every kind of token the canonical printer (`BareModel/Print.lean`) writes, the corresponding scanner of
`BareModel/ExprScan.lean` reads it back — value and rest — whatever follows (under the side conditions `Sep` / `OpSafe`
on the following text, which the printer's layout guarantees), and the scanners that `_parse_unary_expression` tries
*earlier* do not match there.  Used by `BareProofs/C02Print.lean`.
-/

namespace C02
open ExprParse ExprScan Print


theorem ne_of_space {c d : Char} (h : isPySpace c = true) (hd : isPySpace d = false) : c ≠ d := by
  rintro rfl; simp_all

theorem isDigit_digitChar : ∀ d, d < 10 → isDigit (digitChar d) = true := by decide
theorem digitChar_val : ∀ d, d < 10 → digitVal (digitChar d) = d := by decide

theorem digitsVal_foldl (ds : List Char) (a : Nat) :
    ds.foldl (fun a c => 10 * a + digitVal c) a = a * 10 ^ ds.length + digitsVal ds := by
  induction ds generalizing a with
  | nil => simp [digitsVal]
  | cons c t ih =>
    simp only [List.foldl_cons, digitsVal, List.length_cons]
    rw [ih, ih (10 * 0 + _)]
    ring

theorem digitsVal_append (a b : List Char) : digitsVal (a ++ b) = digitsVal a * 10 ^ b.length + digitsVal b := by
  simp only [digitsVal, List.foldl_append]
  exact digitsVal_foldl b _

/-- the recursion equation of `natDigits` (core: `Nat.toDigits_eq_if`) -/
theorem natDigits_eq (n : Nat) :
    natDigits n = if n < 10 then [digitChar n] else natDigits (n / 10) ++ [digitChar (n % 10)] :=
  Nat.toDigits_eq_if (by decide)

theorem digitsVal_natDigits (n : Nat) : digitsVal (natDigits n) = n := by
  induction n using Nat.strongRecOn with
  | _ n ih =>
    rw [natDigits_eq]
    split
    · rename_i h; simp [digitsVal, digitChar_val n h]
    · rw [digitsVal_append, ih (n / 10) (by omega)]
      simp [digitsVal, digitChar_val (n % 10) (Nat.mod_lt _ (by omega))]
      omega




/-- the text behind a number / identifier must not continue it -/
def Sep (rest : List Char) : Prop := ∀ c t, rest = c :: t → isWord c = false ∧ c ≠ '.'

theorem takeWhile_append_sep {p : Char → Bool} {a b : List Char} (ha : ∀ c ∈ a, p c = true)
    (hb : ∀ c t, b = c :: t → p c = false) : (a ++ b).takeWhile p = a ∧ (a ++ b).dropWhile p = b := by
  induction a with
  | nil =>
    cases b with
    | nil => simp
    | cons c t => simp [hb c t rfl]
  | cons x xs ih =>
    have hx := ha x (List.mem_cons_self ..)
    have := ih (fun c hc => ha c (List.mem_cons_of_mem _ hc))
    simp [hx, this.1, this.2]

theorem allDigits_natDigits (n : Nat) : AllDigits (natDigits n) := by
  induction n using Nat.strongRecOn with
  | _ n ih =>
    rw [natDigits_eq]
    split
    · rename_i h; intro c hc; simp at hc; subst hc; exact isDigit_digitChar n h
    · intro c hc
      simp only [List.mem_append, List.mem_singleton] at hc
      rcases hc with hc | hc
      · exact ih (n / 10) (by omega) c hc
      · subst hc; exact isDigit_digitChar _ (Nat.mod_lt _ (by omega))

theorem natDigits_ne_nil (n : Nat) : natDigits n ≠ [] := Nat.toDigits_ne_nil

theorem allDigits_fixDigits (k x : Nat) : AllDigits (fixDigits k x) := by
  induction k generalizing x with
  | zero => intro c hc; simp [fixDigits] at hc
  | succ k ih =>
    intro c hc
    simp only [fixDigits, List.mem_append, List.mem_singleton] at hc
    rcases hc with hc | hc
    · exact ih _ c hc
    · subst hc; exact isDigit_digitChar _ (Nat.mod_lt _ (by omega))

theorem length_fixDigits (k x : Nat) : (fixDigits k x).length = k := by
  induction k generalizing x with
  | zero => rfl
  | succ k ih => simp [fixDigits, ih]

theorem digit_ne {c d : Char} (h : isDigit c = true) (hd : isDigit d = false) : c ≠ d := by
  rintro rfl; simp_all

theorem sep_scanExp {rest : List Char} (h : Sep rest) : scanExp rest = (0, rest) := by
  match rest with
  | [] => rfl
  | [c] => rfl
  | c :: s :: r =>
    have : c ≠ 'e' := by rintro rfl; exact absurd (h _ _ rfl).1 (by decide)
    simp [scanExp, this]

theorem sep_scanFrac {rest : List Char} (h : Sep rest) : scanFrac rest = ([], rest) := by
  match rest with
  | [] => rfl
  | c :: r =>
    have : c ≠ '.' := (h _ _ rfl).2
    simp [scanFrac, this]

theorem sep_not_digit {rest : List Char} (h : Sep rest) : ∀ c t, rest = c :: t → isDigit c = false := by
  intro c t hc
  have := (h c t hc).1
  cases hd : isDigit c with
  | false => rfl
  | true => rw [digit_word hd] at this; cases this

theorem scanNumber_int (ip rest : List Char) (hne : ip ≠ []) (hip : AllDigits ip) (hr : Sep rest) :
    scanNumber (ip ++ rest) = some (decVal false ip [] 0, rest) := by
  obtain ⟨d, ip', rfl⟩ := List.exists_cons_of_ne_nil hne
  have hd := hip d (List.mem_cons_self ..)
  have hsk : skipWs (d :: ip' ++ rest) = d :: ip' ++ rest := by
    simp [skipWs, digit_not_space hd]
  have hsg : scanSign (d :: ip' ++ rest) = (false, d :: ip' ++ rest) := by
    simp [scanSign, digit_ne hd (d := '+') (by decide), digit_ne hd (d := '-') (by decide)]
  have htw := takeWhile_append_sep (p := isDigit) (a := d :: ip') (b := rest) hip (sep_not_digit hr)
  unfold scanNumber
  rw [hsk, hsg]
  simp only [htw.1, htw.2, sep_scanFrac hr, sep_scanExp hr]
  simp

theorem scanNumber_frac (ip fp rest : List Char) (hne : ip ≠ []) (hip : AllDigits ip) (hfp : AllDigits fp) (hr : Sep rest) :
    scanNumber (ip ++ '.' :: (fp ++ rest)) = some (decVal false ip fp 0, rest) := by
  obtain ⟨d, ip', rfl⟩ := List.exists_cons_of_ne_nil hne
  have hd := hip d (List.mem_cons_self ..)
  have hsk : skipWs (d :: ip' ++ '.' :: (fp ++ rest)) = d :: ip' ++ '.' :: (fp ++ rest) := by
    simp [skipWs, digit_not_space hd]
  have hsg : scanSign (d :: ip' ++ '.' :: (fp ++ rest)) = (false, d :: ip' ++ '.' :: (fp ++ rest)) := by
    simp [scanSign, digit_ne hd (d := '+') (by decide), digit_ne hd (d := '-') (by decide)]
  have htw := takeWhile_append_sep (p := isDigit) (a := d :: ip') (b := '.' :: (fp ++ rest)) hip
    (by intro c t h; cases h; decide)
  have htw2 := takeWhile_append_sep (p := isDigit) (a := fp) (b := rest) hfp (sep_not_digit hr)
  unfold scanNumber
  rw [hsk, hsg]
  simp only [htw.1, htw.2, scanFrac, htw2.1, htw2.2]
  simp [sep_scanExp hr]



theorem digitsVal_fixDigits (k x : Nat) : digitsVal (fixDigits k x) = x % 10 ^ k := by
  induction k generalizing x with
  | zero => simp [fixDigits, digitsVal, Nat.mod_one]
  | succ k ih =>
    simp only [fixDigits]
    rw [digitsVal_append, ih]
    simp only [digitsVal, List.foldl_cons, List.foldl_nil, List.length_singleton, digitChar_val (x % 10) (Nat.mod_lt _ (by omega))]
    have e1 : 10 ^ (k + 1) = 10 * 10 ^ k := by ring
    rw [e1, Nat.mod_mul]
    omega

theorem decExpFrom_sound (den : Nat) : ∀ f k j, decExpFrom den f k = some j → 10 ^ j % den = 0 := by
  intro f
  induction f with
  | zero => intro k j h; simp only [decExpFrom] at h; split at h <;> simp_all
  | succ f ih =>
    intro k j h
    simp only [decExpFrom] at h
    split at h
    · simp_all
    · exact ih _ _ h

theorem decExp_sound {q : Rat} {k : Nat} (h : decExp q = some k) : 0 ≤ q.num ∧ q.den ∣ 10 ^ k := by
  simp only [decExp] at h
  split at h
  · cases h
  · exact ⟨by omega, Nat.dvd_of_mod_eq_zero (decExpFrom_sound _ _ _ _ h)⟩

theorem decVal_int (q : Rat) (h : decExp q = some 0) : decVal false (natDigits q.num.toNat) [] 0 = q := by
  obtain ⟨hn, hd⟩ := decExp_sound h
  have hden : q.den = 1 := by simpa using hd
  simp only [decVal, List.append_nil, digitsVal_natDigits, List.length_nil]
  simp
  apply Rat.ext
  · simp [Rat.num_intCast]
    exact Rat.num_nonneg.mp hn
  · simp [Rat.den_intCast, hden]

theorem decVal_frac (q : Rat) (k : Nat) (h : decExp q = some (k + 1)) :
    decVal false (natDigits (q.num.toNat * (10 ^ (k + 1) / q.den) / 10 ^ (k + 1)))
      (fixDigits (k + 1) (q.num.toNat * (10 ^ (k + 1) / q.den) % 10 ^ (k + 1))) 0 = q := by
  obtain ⟨hn, hd⟩ := decExp_sound h
  obtain ⟨c, hc⟩ := hd
  have hcpos : c ≠ 0 := by rintro rfl; simp at hc
  have hdiv : 10 ^ (k + 1) / q.den = c := by rw [hc]; exact Nat.mul_div_cancel_left c (Nat.pos_of_ne_zero q.den_nz)
  rw [hdiv]
  simp only [decVal, digitsVal_append, digitsVal_natDigits, digitsVal_fixDigits, length_fixDigits, Nat.mod_mod,
    Nat.div_add_mod']
  have hneg : ¬ (0 : Int) ≤ 0 - ((k + 1 : Nat) : Int) := by omega
  simp only [hneg, if_false, Bool.false_eq_true]
  have he : (-(0 - ((k + 1 : Nat) : Int))).toNat = k + 1 := by omega
  rw [he, hc]
  have : ((q.num.toNat * c : Nat) : Int) = q.num * (c : Int) := by
    rw [Int.natCast_mul, Int.toNat_of_nonneg hn]
  rw [this, Rat.mkRat_mul_right hcpos, Rat.mkRat_self]




theorem unescape_escape (q : Char) : ∀ s : List Char, unescape q (escape q s) = s
  | [] => rfl
  | c :: t => by
    by_cases h : c = '\\' ∨ c = q
    · have : (c = '\\' || c = q) = true := by simpa using h
      simp only [escape, this, if_true]
      rw [unescape.eq_def]
      simp [this, unescape_escape q t]
    · have h1 : c ≠ '\\' := fun e => h (Or.inl e)
      have h2 : c ≠ q := fun e => h (Or.inr e)
      simp only [escape, h1, h2, decide_false, Bool.or_self, Bool.false_eq_true, if_false]
      rw [unescape.eq_def]
      simp [h1, unescape_escape q t]

theorem strBody_escape (q : Char) (hq : q ≠ '\\') (rest : List Char) :
    ∀ s : List Char, strBody q (escape q s ++ q :: rest) = some (escape q s, rest)
  | [] => by rw [strBody.eq_def]; simp [escape]
  | c :: t => by
    have ih := strBody_escape q hq rest t
    by_cases h : c = '\\' ∨ c = q
    · have hc : (c = '\\' || c = q) = true := by simpa using h
      have hbs : ('\\' : Char) ≠ q := fun e => hq e.symm
      simp only [escape, hc, if_true, List.cons_append]
      rw [strBody.eq_def]
      simp [hbs, hc, ih]
    · have h1 : c ≠ '\\' := fun e => h (Or.inl e)
      have h2 : c ≠ q := fun e => h (Or.inr e)
      simp only [escape, h1, h2, decide_false, Bool.or_self, Bool.false_eq_true, if_false, List.cons_append]
      rw [strBody.eq_def]
      simp [h1, h2, ih]

theorem scanString_printStr (s : String) (rest : List Char) :
    scanString '\'' (printStr s ++ rest) = some (s.toList, rest) := by
  have hsk : skipWs (printStr s ++ rest) = '\'' :: (escape '\'' s.toList ++ '\'' :: rest) := by
    simp [printStr, skipWs, isPySpace]
  simp only [scanString, hsk]
  simp [strBody_escape '\'' (by decide) rest s.toList, unescape_escape]



/-! ### head-character facts: which scanners cannot start at a given character -/

theorem skipWs_cons {c : Char} (h : isPySpace c = false) (t : List Char) : skipWs (c :: t) = c :: t := by
  simp [skipWs, h]

theorem skipWs_append {w : List Char} (hw : AllSpace w) (t : List Char) : skipWs (w ++ t) = skipWs t := by
  induction w with
  | nil => rfl
  | cons c w ih =>
    have hc := hw c (List.mem_cons_self ..)
    simp only [skipWs, List.cons_append, List.dropWhile_cons, hc, if_true]
    exact ih (fun d hd => hw d (List.mem_cons_of_mem _ hd))

theorem scanChar_ne {d c : Char} (hs : isPySpace c = false) (h : c ≠ d) (t : List Char) : scanChar d (c :: t) = none := by
  simp [scanChar, skipWs_cons hs, h]

theorem scanChar_eq (d : Char) (hs : isPySpace d = false) (t : List Char) : scanChar d (d :: t) = some t := by
  simp [scanChar, skipWs_cons hs]

theorem scanUnaryOp_ne {c : Char} (hs : isPySpace c = false) (h1 : c ≠ '!') (h2 : c ≠ '-') (t : List Char) :
    scanUnaryOp (c :: t) = none := by
  simp [scanUnaryOp, skipWs_cons hs, unOpAlts, firstAlt, stripPrefix?, h1.symm, h2.symm]

theorem scanFuncOpen_ne {c : Char} (hs : isPySpace c = false) (h : isIdStart c = false) (t : List Char) :
    scanFuncOpen (c :: t) = none := by
  simp [scanFuncOpen, skipWs_cons hs, h]

theorem scanVariable_ne {c : Char} (hs : isPySpace c = false) (h : isIdStart c = false) (t : List Char) :
    scanVariable (c :: t) = none := by
  simp [scanVariable, skipWs_cons hs, h]

theorem scanNumber_ne {c : Char} (hs : isPySpace c = false) (h : isDigit c = false) (h1 : c ≠ '+') (h2 : c ≠ '-')
    (t : List Char) : scanNumber (c :: t) = none := by
  simp [scanNumber, skipWs_cons hs, scanSign, h1, h2, h]

theorem scanString_ne {q c : Char} (hs : isPySpace c = false) (h : c ≠ q) (t : List Char) :
    scanString q (c :: t) = none := by
  simp [scanString, skipWs_cons hs, h]

/-! ### identifiers -/

theorem isIdent_shape {cs : List Char} (h : isIdent cs = true) :
    ∃ c w, cs = c :: w ∧ isIdStart c = true ∧ ∀ d ∈ w, isWord d = true := by
  cases cs with
  | nil => simp [isIdent] at h
  | cons c w =>
    simp only [isIdent, Bool.and_eq_true, List.all_eq_true] at h
    exact ⟨c, w, rfl, h.1, h.2⟩

theorem idStart_ne {c d : Char} (h : isIdStart c = true) (hd : isIdStart d = false) : c ≠ d := by
  rintro rfl; simp_all

theorem sep_not_word {rest : List Char} (h : Sep rest) : ∀ c t, rest = c :: t → isWord c = false :=
  fun c t hc => (h c t hc).1

theorem scanVariable_ident {c : Char} {w : List Char} (hc : isIdStart c = true) (hw : ∀ d ∈ w, isWord d = true)
    {rest : List Char} (hr : Sep rest) : scanVariable (c :: w ++ rest) = some (c :: w, rest) := by
  have hs := word_not_space (idStart_word hc)
  have htw := takeWhile_append_sep (p := isWord) hw (sep_not_word hr)
  simp [scanVariable, skipWs_cons hs, hc, htw.1, htw.2]

theorem scanFuncOpen_ident_none {c : Char} {w : List Char} (hc : isIdStart c = true) (hw : ∀ d ∈ w, isWord d = true)
    {rest : List Char} (hr : Sep rest) (hp : ∀ t, skipWs rest ≠ '(' :: t) : scanFuncOpen (c :: w ++ rest) = none := by
  have hs := word_not_space (idStart_word hc)
  have htw := takeWhile_append_sep (p := isWord) hw (sep_not_word hr)
  simp only [scanFuncOpen, List.cons_append, skipWs_cons hs, hc, if_true, htw.2]
  cases hsk : skipWs rest with
  | nil => rfl
  | cons d r2 =>
    have : d ≠ '(' := by rintro rfl; exact hp _ hsk
    simp [this]

theorem scanFuncOpen_ident {c : Char} {w w1 : List Char} (hc : isIdStart c = true) (hw : ∀ d ∈ w, isWord d = true)
    (hw1 : AllSpace w1) (body : List Char) : scanFuncOpen (c :: w ++ (w1 ++ '(' :: body)) = some (c :: w, body) := by
  have hs := word_not_space (idStart_word hc)
  have htw := takeWhile_append_sep (p := isWord) (b := w1 ++ '(' :: body) hw (by
    intro d t hd
    cases w1 with
    | nil => simp at hd; rw [← hd.1]; decide
    | cons x xs =>
      simp at hd
      have := hw1 x (List.mem_cons_self ..)
      rw [← hd.1]
      cases hx : isWord x with
      | false => rfl
      | true => rw [word_not_space hx] at this; cases this)
  simp only [scanFuncOpen, List.cons_append, skipWs_cons hs, hc, if_true, htw.1, htw.2, skipWs_append hw1]
  simp [skipWs_cons (by decide : isPySpace '(' = false)]



/-- head of an escaped non-empty text: never the delimiter itself -/
theorem escape_cons_head (q c : Char) (t : List Char) (hq : q ≠ '\\') :
    ∃ d r, escape q (c :: t) = d :: r ∧ d ≠ q ∧ (d = c ∨ d = '\\') := by
  by_cases h : c = '\\' ∨ c = q
  · have hc : (c = '\\' || c = q) = true := by simpa using h
    exact ⟨'\\', c :: escape q t, by simp [escape, hc], fun e => hq e.symm, Or.inr rfl⟩
  · have h1 : c ≠ '\\' := fun e => h (Or.inl e)
    have h2 : c ≠ q := fun e => h (Or.inr e)
    exact ⟨c, escape q t, by simp [escape, h1, h2], h2, Or.inl rfl⟩

theorem bracketBody_escape (rest : List Char) :
    ∀ s : List Char, s.getLast? ≠ some '\\' → bracketBody (escape ']' s ++ ']' :: rest) = some (escape ']' s, rest)
  | [] => by intro _; rw [bracketBody.eq_def]; simp [escape]
  | c :: t => by
    intro hl
    have hl' : t.getLast? ≠ some '\\' := by
      cases t with
      | nil => simp
      | cons x xs => simpa [List.getLast?_cons_cons] using hl
    have ih := bracketBody_escape rest t hl'
    by_cases hb : c = '\\'
    · subst hb
      cases t with
      | nil => simp at hl
      | cons x xs =>
        obtain ⟨d, r, hd, hdq, _⟩ := escape_cons_head ']' x xs (by decide)
        have e1 : escape ']' ('\\' :: x :: xs) = '\\' :: '\\' :: (d :: r) := by
          rw [← hd]; simp [escape]
        have ih' : bracketBody (d :: (r ++ ']' :: rest)) = some (d :: r, rest) := by
          rw [hd] at ih; simpa using ih
        rw [e1]
        have step : ∀ y : List Char, bracketBody ('\\' :: d :: y) = (bracketBody (d :: y)).map (fun p => ('\\' :: p.1, p.2)) := by
          intro y
          rw [bracketBody.eq_def]
          simp [hdq]
        have step2 : ∀ y : List Char, bracketBody ('\\' :: '\\' :: y) = (bracketBody ('\\' :: y)).map (fun p => ('\\' :: p.1, p.2)) := by
          intro y
          rw [bracketBody.eq_def]
          simp
        simp only [List.cons_append]
        rw [step2, step, ih']
        rfl
    · by_cases hq : c = ']'
      · subst hq
        simp only [escape]
        rw [bracketBody.eq_def]
        simp [ih]
      · simp only [escape, hb, hq, decide_false, Bool.or_self, Bool.false_eq_true, if_false, List.cons_append]
        rw [bracketBody.eq_def]
        simp [hb, hq, ih]

theorem bracketOk_cases {cs : List Char} (h : bracketOk cs = true) :
    (∃ w, cs = [w] ∧ isPySpace w = true) ∨
    (∃ c t, cs = c :: t ∧ isPySpace c = false ∧ cs.getLast? ≠ some '\\') := by
  match cs, h with
  | [c], h =>
    simp only [bracketOk, bne_iff_ne, ne_eq] at h
    cases hs : isPySpace c with
    | true => exact Or.inl ⟨c, rfl, hs⟩
    | false => exact Or.inr ⟨c, [], rfl, hs, by simpa using h⟩
  | c :: x :: xs, h =>
    simp only [bracketOk, Bool.and_eq_true, Bool.not_eq_true', bne_iff_ne, ne_eq] at h
    exact Or.inr ⟨c, x :: xs, rfl, h.1, by simpa [List.getLast?_cons_cons] using h.2⟩

theorem space_not_special {w : Char} (h : isPySpace w = true) : w ≠ '\\' ∧ w ≠ ']' := by
  constructor <;> (rintro rfl; revert h; decide)

theorem scanVariableEx_bracket {cs : List Char} (h : bracketOk cs = true) (rest : List Char) :
    scanVariableEx ('[' :: (escape ']' cs ++ ']' :: rest)) = some (cs, rest) := by
  have hsk : skipWs ('[' :: (escape ']' cs ++ ']' :: rest)) = '[' :: (escape ']' cs ++ ']' :: rest) :=
    skipWs_cons (by decide) _
  simp only [scanVariableEx, hsk, if_true]
  rcases bracketOk_cases h with ⟨w, rfl, hw⟩ | ⟨c, t, rfl, hc, hl⟩
  · obtain ⟨h1, h2⟩ := space_not_special hw
    simp [escape, h1, h2, hw, show isPySpace ']' = false by decide]
  · obtain ⟨d, r, hd, hdq, hdc⟩ := escape_cons_head ']' c t (by decide)
    have hds : isPySpace d = false := by
      rcases hdc with rfl | rfl
      · exact hc
      · decide
    have hbb := bracketBody_escape rest (c :: t) hl
    rw [hd] at hbb ⊢
    simp only [List.cons_append, List.dropWhile_cons, hds, Bool.false_eq_true, if_false, hdq]
    simp only [List.cons_append] at hbb
    rw [hbb]
    simp [← hd, unescape_escape]



/-- the text behind a binary operator must not extend it (`*` + `*`, `<` + `=`, `>` + `=`) -/
def OpSafe (s : List Char) : Prop := ∀ c t, s = c :: t → c ≠ '*' ∧ c ≠ '='

theorem scanBinOp_text (op : BinOp) (s : List Char) (hs : OpSafe s) : scanBinOp (op.text.toList ++ s) = some (op, s) := by
  cases s with
  | nil => cases op <;> rfl
  | cons c t =>
    obtain ⟨h1, h2⟩ := hs c t rfl
    cases op <;> simp [scanBinOp, BinOp.text, skipWs, isPySpace, binOpAlts, firstAlt, stripPrefix?, h1.symm, h2.symm]

theorem scanUnaryOp_text (op : UnOp) (s : List Char) : scanUnaryOp (op.text.toList ++ s) = some (op, s) := by
  cases op <;> simp [scanUnaryOp, UnOp.text, skipWs, isPySpace, unOpAlts, firstAlt, stripPrefix?]

theorem scanGroupOpen_unText (op : UnOp) (s : List Char) : scanGroupOpen (op.text.toList ++ s) = none := by
  cases op <;> simp [scanGroupOpen, scanChar, UnOp.text, skipWs, isPySpace]

theorem scanBinOp_close (t : List Char) : scanBinOp (')' :: t) = none := by
  simp [scanBinOp, skipWs, isPySpace, binOpAlts, firstAlt, stripPrefix?]
theorem scanBinOp_comma (t : List Char) : scanBinOp (',' :: t) = none := by
  simp [scanBinOp, skipWs, isPySpace, binOpAlts, firstAlt, stripPrefix?]
theorem scanBinOp_nil : scanBinOp [] = none := by
  simp [scanBinOp, skipWs, binOpAlts, firstAlt, stripPrefix?]

/-! ### what may follow an operand -/

/-- the text behind an operand: it does not continue a number or identifier (`Sep`), and it does not turn an identifier
into a call (`name \s* (`) -/
def Follow (rest : List Char) : Prop := Sep rest ∧ ∀ t, skipWs rest ≠ '(' :: t

/-- the text behind a complete binary chain: additionally no binary operator follows -/
def Stop (rest : List Char) : Prop := Follow rest ∧ scanBinOp rest = none

theorem skipWs_allSpace {w : List Char} (hw : AllSpace w) : skipWs w = [] := by
  have := skipWs_append hw []
  simpa [skipWs] using this

theorem sep_nil : Sep [] := by intro c t h; cases h

theorem sep_cons {c : Char} (h1 : isWord c = false) (h2 : c ≠ '.') (t : List Char) : Sep (c :: t) := by
  intro d r h; cases h; exact ⟨h1, h2⟩

theorem sep_ws_append {w : List Char} (hw : AllSpace w) {t : List Char} (ht : Sep t) : Sep (w ++ t) := by
  cases w with
  | nil => simpa using ht
  | cons x xs =>
    have hx := hw x (List.mem_cons_self ..)
    exact sep_cons (space_not_word hx) (ne_of_space hx (by decide)) _

theorem follow_ws_append {w : List Char} (hw : AllSpace w) {t : List Char} (ht : Follow t) : Follow (w ++ t) :=
  ⟨sep_ws_append hw ht.1, by rw [skipWs_append hw]; exact ht.2⟩

theorem follow_nil : Follow [] := ⟨sep_nil, by intro t; simp [skipWs]⟩

theorem follow_cons {c : Char} (hs : isPySpace c = false) (h1 : isWord c = false) (h2 : c ≠ '.') (h3 : c ≠ '(')
    (t : List Char) : Follow (c :: t) :=
  ⟨sep_cons h1 h2 t, by intro r; rw [skipWs_cons hs]; intro h; cases h; exact h3 rfl⟩

theorem scanBinOp_ws {w : List Char} (hw : AllSpace w) (t : List Char) : scanBinOp (w ++ t) = scanBinOp t := by
  simp only [scanBinOp, skipWs_append hw]

theorem stop_ws_append {w : List Char} (hw : AllSpace w) {t : List Char} (ht : Stop t) : Stop (w ++ t) :=
  ⟨follow_ws_append hw ht.1, by rw [scanBinOp_ws hw]; exact ht.2⟩

theorem stop_nil : Stop [] := ⟨follow_nil, scanBinOp_nil⟩
theorem stop_close (t : List Char) : Stop (')' :: t) :=
  ⟨follow_cons (by decide) (by decide) (by decide) (by decide) t, scanBinOp_close t⟩
theorem stop_comma (t : List Char) : Stop (',' :: t) :=
  ⟨follow_cons (by decide) (by decide) (by decide) (by decide) t, scanBinOp_comma t⟩

/-- a binary operator's text may follow an operand -/
theorem follow_binText (op : BinOp) (s : List Char) : Follow (op.text.toList ++ s) := by
  cases op <;> exact follow_cons (by decide) (by decide) (by decide) (by decide) _

/-! ### leading white space is skipped by every scanner -/

theorem scanChar_ws {w : List Char} (hw : AllSpace w) (d : Char) (t : List Char) : scanChar d (w ++ t) = scanChar d t := by
  simp only [scanChar, skipWs_append hw]
theorem scanUnaryOp_ws {w : List Char} (hw : AllSpace w) (t : List Char) : scanUnaryOp (w ++ t) = scanUnaryOp t := by
  simp only [scanUnaryOp, skipWs_append hw]
theorem scanFuncOpen_ws {w : List Char} (hw : AllSpace w) (t : List Char) : scanFuncOpen (w ++ t) = scanFuncOpen t := by
  simp only [scanFuncOpen, skipWs_append hw]
theorem scanNumber_ws {w : List Char} (hw : AllSpace w) (t : List Char) : scanNumber (w ++ t) = scanNumber t := by
  simp only [scanNumber, skipWs_append hw]
theorem scanString_ws {w : List Char} (hw : AllSpace w) (q : Char) (t : List Char) : scanString q (w ++ t) = scanString q t := by
  simp only [scanString, skipWs_append hw]
theorem scanVariable_ws {w : List Char} (hw : AllSpace w) (t : List Char) : scanVariable (w ++ t) = scanVariable t := by
  simp only [scanVariable, skipWs_append hw]
theorem scanVariableEx_ws {w : List Char} (hw : AllSpace w) (t : List Char) : scanVariableEx (w ++ t) = scanVariableEx t := by
  simp only [scanVariableEx, skipWs_append hw]

theorem parseAtom_ws {w : List Char} (hw : AllSpace w) {t : List Char} {r : Expr × List Char} (h : parseAtom t = .ok r) :
    parseAtom (w ++ t) = .ok r := by
  unfold parseAtom at h ⊢
  simp only [scanNumber_ws hw, scanString_ws hw, scanVariable_ws hw, scanVariableEx_ws hw]
  split at h
  · simpa using h
  · split at h
    · simpa using h
    · split at h
      · simpa using h
      · split at h
        · simpa using h
        · split at h
          · simpa using h
          · cases h

/-- at a character where neither `(`, a unary operator nor a call starts, `_parse_unary_expression` falls through to the
atoms -/
theorem parseUnary_atom {w : List Char} (hw : AllSpace w) {t : List Char} (hg : scanGroupOpen t = none)
    (hu : scanUnaryOp t = none) (hf : scanFuncOpen t = none) {r : Expr × List Char} (h : parseAtom t = .ok r)
    (fuel : Nat) : parseUnary fuel (w ++ t) = .ok r := by
  have hg' : scanGroupOpen (w ++ t) = none := by rw [scanGroupOpen, scanChar_ws hw]; exact hg
  have hu' : scanUnaryOp (w ++ t) = none := by rw [scanUnaryOp_ws hw]; exact hu
  have hf' : scanFuncOpen (w ++ t) = none := by rw [scanFuncOpen_ws hw]; exact hf
  cases fuel with
  | zero => simp [parseUnary, hg', hu', hf', parseAtom_ws hw h]
  | succ n => simp [parseUnary, hg', hu', hf', parseAtom_ws hw h]


/-! ### the atoms -/

theorem head_digit {ds : List Char} (hne : ds ≠ []) (hd : AllDigits ds) : ∃ d r, ds = d :: r ∧ isDigit d = true := by
  obtain ⟨d, r, rfl⟩ := List.exists_cons_of_ne_nil hne
  exact ⟨d, r, rfl, hd d (List.mem_cons_self ..)⟩

theorem printNum_scan {q : Rat} (h : numOk q = true) :
    (∃ d r, printNum q = d :: r ∧ isDigit d = true) ∧
    ∀ rest, Sep rest → scanNumber (printNum q ++ rest) = some (q, rest) := by
  simp only [numOk, Option.isSome_iff_exists] at h
  obtain ⟨k, hk⟩ := h
  cases k with
  | zero =>
    have hp : printNum q = natDigits q.num.toNat := by simp [printNum, hk]
    rw [hp]
    refine ⟨head_digit (natDigits_ne_nil _) (allDigits_natDigits _), fun rest hr => ?_⟩
    rw [scanNumber_int _ _ (natDigits_ne_nil _) (allDigits_natDigits _) hr, decVal_int q hk]
  | succ k =>
    have hp : printNum q = natDigits (q.num.toNat * (10 ^ (k + 1) / q.den) / 10 ^ (k + 1)) ++
        '.' :: fixDigits (k + 1) (q.num.toNat * (10 ^ (k + 1) / q.den) % 10 ^ (k + 1)) := by simp [printNum, hk]
    rw [hp]
    constructor
    · obtain ⟨d, r, hd, hdd⟩ := head_digit (natDigits_ne_nil (q.num.toNat * (10 ^ (k + 1) / q.den) / 10 ^ (k + 1)))
        (allDigits_natDigits _)
      exact ⟨d, r ++ '.' :: fixDigits (k + 1) (q.num.toNat * (10 ^ (k + 1) / q.den) % 10 ^ (k + 1)), by rw [hd]; simp, hdd⟩
    · intro rest hr
      have := scanNumber_frac _ (fixDigits (k + 1) (q.num.toNat * (10 ^ (k + 1) / q.den) % 10 ^ (k + 1))) rest
        (natDigits_ne_nil (q.num.toNat * (10 ^ (k + 1) / q.den) / 10 ^ (k + 1))) (allDigits_natDigits _)
        (allDigits_fixDigits _ _) hr
      rw [decVal_frac q k hk] at this
      simpa using this

/-- **number**: `parseUnary` reads a printed number back -/
theorem parseUnary_number {q : Rat} (h : numOk q = true) {w : List Char} (hw : AllSpace w) {rest : List Char}
    (hr : Follow rest) (fuel : Nat) : parseUnary fuel (w ++ (printNum q ++ rest)) = .ok (.number q, rest) := by
  obtain ⟨⟨d, r, hd, hdd⟩, hscan⟩ := printNum_scan h
  have hs := digit_not_space hdd
  have e : printNum q ++ rest = d :: (r ++ rest) := by rw [hd]; rfl
  refine parseUnary_atom hw ?_ ?_ ?_ ?_ fuel
  · rw [e]; exact scanChar_ne hs (digit_ne hdd (by decide)) _
  · rw [e]; exact scanUnaryOp_ne hs (digit_ne hdd (by decide)) (digit_ne hdd (by decide)) _
  · rw [e]; exact scanFuncOpen_ne hs (digit_not_idStart hdd) _
  · simp [parseAtom, hscan rest hr.1]

/-- **string** -/
theorem parseUnary_string (s : String) {w : List Char} (hw : AllSpace w) (rest : List Char) (fuel : Nat) :
    parseUnary fuel (w ++ (printStr s ++ rest)) = .ok (.string s, rest) := by
  have e : printStr s ++ rest = '\'' :: (escape '\'' s.toList ++ '\'' :: rest) := by simp [printStr]
  have hs : isPySpace '\'' = false := by decide
  refine parseUnary_atom hw ?_ ?_ ?_ ?_ fuel
  · rw [e]; exact scanChar_ne hs (by decide) _
  · rw [e]; exact scanUnaryOp_ne hs (by decide) (by decide) _
  · rw [e]; exact scanFuncOpen_ne hs (by decide) _
  · have hn : scanNumber (printStr s ++ rest) = none := by
      rw [e]; exact scanNumber_ne hs (by decide) (by decide) (by decide) _
    simp [parseAtom, hn, scanString_printStr, String.ofList_toList]

/-- **variable** (identifier or bracketed) -/
theorem parseUnary_variable {n : Name} (h : varOk n = true) {w : List Char} (hw : AllSpace w) {rest : List Char}
    (hr : Follow rest) (fuel : Nat) : parseUnary fuel (w ++ (printVar n ++ rest)) = .ok (.variable n, rest) := by
  simp only [varOk, nameOk, Bool.and_eq_true, decide_eq_true_eq, Bool.or_eq_true] at h
  obtain ⟨hname, hshape⟩ := h
  have hback : Name.ofString (String.ofList n.render.toList) = n := by rw [String.ofList_toList]; exact hname
  by_cases hid : isIdent n.render.toList = true
  · obtain ⟨c, x, hcx, hc, hx⟩ := isIdent_shape hid
    have hp : printVar n = c :: x := by
      show (if isIdent n.render.toList then n.render.toList else _) = _
      rw [if_pos hid, hcx]
    have hs := word_not_space (idStart_word hc)
    rw [hcx] at hback
    rw [hp]
    refine parseUnary_atom hw ?_ ?_ ?_ ?_ fuel
    · exact scanChar_ne hs (idStart_ne hc (by decide)) _
    · exact scanUnaryOp_ne hs (idStart_ne hc (by decide)) (idStart_ne hc (by decide)) _
    · exact scanFuncOpen_ident_none hc hx hr.1 hr.2
    · have hn : scanNumber (c :: (x ++ rest)) = none :=
        scanNumber_ne hs (idStart_not_digit hc) (idStart_ne hc (by decide)) (idStart_ne hc (by decide)) _
      have h1 : scanString '\'' (c :: (x ++ rest)) = none := scanString_ne hs (idStart_ne hc (by decide)) _
      have h2 : scanString '"' (c :: (x ++ rest)) = none := scanString_ne hs (idStart_ne hc (by decide)) _
      have h3 : scanVariable (c :: (x ++ rest)) = some (c :: x, rest) := scanVariable_ident hc hx hr.1
      simp only [parseAtom, List.cons_append, hn, h1, h2, h3, hback]
  · have hbr : bracketOk n.render.toList = true := by
      rcases hshape with h | h
      · exact absurd h hid
      · exact h
    have hp : printVar n ++ rest = '[' :: (escape ']' n.render.toList ++ ']' :: rest) := by simp [printVar, hid]
    have hs : isPySpace '[' = false := by decide
    rw [hp]
    refine parseUnary_atom hw ?_ ?_ ?_ ?_ fuel
    · exact scanChar_ne hs (by decide) _
    · exact scanUnaryOp_ne hs (by decide) (by decide) _
    · exact scanFuncOpen_ne hs (by decide) _
    · have hn : scanNumber ('[' :: (escape ']' n.render.toList ++ ']' :: rest)) = none :=
        scanNumber_ne hs (by decide) (by decide) (by decide) _
      have h1 : scanString '\'' ('[' :: (escape ']' n.render.toList ++ ']' :: rest)) = none := scanString_ne hs (by decide) _
      have h2 : scanString '"' ('[' :: (escape ']' n.render.toList ++ ']' :: rest)) = none := scanString_ne hs (by decide) _
      have h3 : scanVariable ('[' :: (escape ']' n.render.toList ++ ']' :: rest)) = none := scanVariable_ne hs (by decide) _
      simp only [parseAtom, hn, h1, h2, h3, scanVariableEx_bracket hbr, hback]



/-! ### identifiers: `Name.ofString` and `Name.render` -/


theorem digitChar_ofNat : ∀ k, k < 10 → Nat.digitChar k = Char.ofNat (48 + k) := by decide

theorem isDigit_toNat {c : Char} (h : c.isDigit = true) : 48 ≤ c.toNat ∧ c.toNat ≤ 57 := by
  simp only [Char.isDigit, Bool.and_eq_true, decide_eq_true_eq] at h
  constructor
  · have := h.1; exact UInt32.le_iff_toNat_le.mp this
  · have := h.2; exact UInt32.le_iff_toNat_le.mp this

theorem digitChar_of_isDigit {c : Char} (h : c.isDigit = true) : Nat.digitChar (c.toNat - 48) = c := by
  obtain ⟨h1, h2⟩ := isDigit_toNat h
  rw [digitChar_ofNat _ (by omega)]
  have : 48 + (c.toNat - 48) = c.toNat := by omega
  rw [this, Char.ofNat_toNat]

/-- a canonical decimal numeral is the `toDigits` of its value -/
theorem toDigits_ofDigitChars : ∀ (n : Nat) (ds : List Char), ds.length = n → ds ≠ [] → (∀ c ∈ ds, c.isDigit = true) →
    (ds.length = 1 ∨ ds.head? ≠ some '0') → Nat.toDigits 10 (Nat.ofDigitChars 10 ds 0) = ds := by
  intro n
  induction n with
  | zero => intro ds hl hne; simp at hl; exact absurd hl hne
  | succ n ih =>
    intro ds hl hne hall hcan
    rcases List.eq_nil_or_concat ds with h | ⟨init, d, rfl⟩
    · exact absurd h hne
    · have hd : d.isDigit = true := hall d (by simp)
      obtain ⟨hd1, hd2⟩ := isDigit_toNat hd
      have hinit : ∀ c ∈ init, c.isDigit = true := fun c hc => hall c (by simp [hc])
      simp only [List.concat_eq_append, Nat.ofDigitChars_append, Nat.ofDigitChars_cons, Nat.ofDigitChars_nil]
      by_cases hi : init = []
      · subst hi
        simp only [Nat.ofDigitChars_nil, Nat.mul_zero, Nat.zero_add, List.nil_append]
        rw [Nat.toDigits_of_lt_base (by simp; omega)]
        simp only [Char.reduceToNat]
        rw [digitChar_of_isDigit hd]
      · have hlen : init.length = n := by simpa using hl
        have hhead : init.head? ≠ some '0' := by
          rcases hcan with h | h
          · simp at h; exact absurd h hi
          · cases init with
            | nil => exact absurd rfl hi
            | cons x xs => simpa using h
        have ihi := ih init hlen hi hinit (Or.inr hhead)
        have hpos : 0 < Nat.ofDigitChars 10 init 0 := by
          rcases Nat.eq_zero_or_pos (Nat.ofDigitChars 10 init 0) with h0 | h0
          · rw [h0, Nat.toDigits_zero] at ihi
            rw [← ihi] at hhead; simp at hhead
          · exact h0
        have := Nat.toDigits_append_toDigits (b := 10) (n := Nat.ofDigitChars 10 init 0) (d := d.toNat - '0'.toNat) (by decide) hpos
          (by simp; omega)
        rw [← this, ihi, Nat.toDigits_of_lt_base (by simp; omega)]
        simp only [Char.reduceToNat]
        rw [digitChar_of_isDigit hd]



theorem canonDigits_spec {ds : List Char} {n : Nat} (h : canonDigits ds = some n) : Nat.toDigits 10 n = ds := by
  simp only [canonDigits] at h
  split at h
  · cases h
  · rename_i h1
    split at h
    · cases h
    · rename_i h2
      simp only [Bool.or_eq_true, List.isEmpty_iff, Bool.not_eq_true', not_or, Bool.not_eq_false] at h1
      obtain ⟨hne, hall⟩ := h1
      have hall' : ∀ c ∈ ds, c.isDigit = true := List.all_eq_true.mp hall
      have hnat := String.isNat_of_toNat?_eq_some h
      rw [String.toNat?_eq_some_ofDigitChars hnat] at h
      simp only [Option.some.injEq, String.toList_ofList] at h
      have hfil : ds.filter (fun c => c != '_') = ds := by
        apply List.filter_eq_self.mpr
        intro c hc
        have := hall' c hc
        simp only [bne_iff_ne, ne_eq]
        rintro rfl; simp at this
      rw [hfil] at h
      subst h
      refine toDigits_ofDigitChars ds.length ds rfl hne hall' ?_
      simp only [Bool.and_eq_true, decide_eq_true_eq, beq_iff_eq, not_and] at h2
      by_cases hl : ds.length > 1
      · exact Or.inr (h2 hl)
      · left
        have : ds.length ≠ 0 := by simpa [List.length_eq_zero_iff] using hne
        omega

theorem isPrefixOf_split {p l : List Char} (h : p.isPrefixOf l = true) : l = p ++ l.drop p.length := by
  obtain ⟨t, rfl⟩ := List.isPrefixOf_iff_prefix.mp h
  simp

/-- rendering a parsed identifier gives the identifier back (a generated name is recognised only in its canonical spelling) -/
theorem render_ofString (s : String) : (Name.ofString s).render = s := by
  unfold Name.ofString
  simp only
  split
  · rename_i hpre
    split
    · rename_i nm hfind
      obtain ⟨k, _, hk⟩ := List.exists_of_findSome?_eq_some hfind
      split at hk
      · rename_i hkt
        simp only [Option.map_eq_some_iff] at hk
        obtain ⟨n, hcd, rfl⟩ := hk
        have h1 := isPrefixOf_split hpre
        have h2 := isPrefixOf_split hkt
        have h3 := canonDigits_spec hcd
        apply String.toList_inj.mp
        simp only [Name.render, String.toList_append, Nat.toString_eq_repr, Nat.toList_repr]
        rw [h3, List.append_assoc, ← h2, ← h1]
      · cases hk
    · rfl
  · rfl

theorem ofString_render_ofString (s : String) : Name.ofString (Name.ofString s).render = Name.ofString s := by
  rw [render_ofString]


/-! ### completeness of `numOk`: every value of an unsigned literal is printable -/

/-- if `d` divides a power of ten at all, it divides `10 ^ log₂ d` -/
theorem dvd_pow_log2 : ∀ (n d : Nat), d ≤ n → d ≠ 0 → (∃ j, d ∣ 10 ^ j) → d ∣ 10 ^ d.log2 := by
  intro n
  induction n with
  | zero => intro d hd h0; omega
  | succ n ih =>
    intro d hd h0 ⟨j, hj⟩
    by_cases h1 : d = 1
    · subst h1; exact Nat.one_dvd _
    · have hg : 2 ≤ Nat.gcd d 10 := by
        rcases Nat.lt_or_ge (Nat.gcd d 10) 2 with hlt | hge
        · exfalso
          have hpos : 0 < Nat.gcd d 10 := Nat.gcd_pos_of_pos_right _ (by decide)
          have hc : Nat.Coprime d 10 := by unfold Nat.Coprime; omega
          have hc' : Nat.Coprime d (10 ^ j) := Nat.Coprime.pow_right j hc
          exact h1 (Nat.Coprime.eq_one_of_dvd hc' hj)
        · exact hge
      obtain ⟨d', hd'⟩ := Nat.gcd_dvd_left d 10
      have hd'pos : d' ≠ 0 := by rintro rfl; simp at hd'; exact h0 hd'
      have hlt : 2 * d' ≤ d := by
        calc 2 * d' ≤ Nat.gcd d 10 * d' := Nat.mul_le_mul_right _ hg
          _ = d := hd'.symm
      have hd'dvd : d' ∣ d := ⟨Nat.gcd d 10, by rw [Nat.mul_comm]; exact hd'⟩
      have ih' := ih d' (by omega) hd'pos ⟨j, Nat.dvd_trans hd'dvd hj⟩
      have hlog : d'.log2 + 1 ≤ d.log2 := by
        have hlt2 : d'.log2 < d.log2 := by
          rw [Nat.log2_lt hd'pos]
          have := Nat.log2_self_le h0
          have h3 : d < 2 ^ (d.log2 + 1) := Nat.lt_log2_self
          rw [Nat.pow_succ] at h3
          omega
        omega
      have h10 : Nat.gcd d 10 ∣ 10 := Nat.gcd_dvd_right d 10
      have : d ∣ 10 ^ (d'.log2 + 1) := by
        rw [Nat.pow_succ, Nat.mul_comm, hd']
        exact Nat.mul_dvd_mul h10 ih'
      exact Nat.dvd_trans this (Nat.pow_dvd_pow 10 hlog)

theorem decExpFrom_complete (den : Nat) : ∀ (f k j : Nat), k ≤ j → j ≤ k + f → 10 ^ j % den = 0 →
    (decExpFrom den f k).isSome = true := by
  intro f
  induction f with
  | zero =>
    intro k j h1 h2 h3
    have : j = k := by omega
    subst this
    simp [decExpFrom, h3]
  | succ f ih =>
    intro k j h1 h2 h3
    simp only [decExpFrom]
    split
    · rfl
    · rename_i hk
      have : k ≠ j := by rintro rfl; exact hk h3
      exact ih (k + 1) j (by omega) (by omega) h3

/-- `numOk` is complete: a non-negative rational whose denominator divides a power of ten is printable -/
theorem numOk_of_dvd {q : Rat} (hn : 0 ≤ q.num) (hd : ∃ j, q.den ∣ 10 ^ j) : numOk q = true := by
  have h := dvd_pow_log2 q.den q.den (Nat.le_refl _) q.den_nz hd
  simp only [numOk, decExp, show ¬ q.num < 0 by omega, if_false]
  exact decExpFrom_complete q.den q.den.log2 0 q.den.log2 (Nat.zero_le _) (by omega) (Nat.mod_eq_zero_of_dvd h)

/-- every value an unsigned number literal can denote is printable -/
theorem numOk_decVal (ip fp : List Char) (ex : Int) : numOk (decVal false ip fp ex) = true := by
  simp only [decVal, Bool.false_eq_true, if_false]
  split
  · apply numOk_of_dvd
    · rw [Rat.num_intCast]
      exact Int.mul_nonneg (Int.natCast_nonneg _) (Int.pow_nonneg (by decide))
    · exact ⟨0, by rw [Rat.den_intCast]; exact Nat.one_dvd _⟩
  · apply numOk_of_dvd
    · rw [Rat.num_mkRat]
      split
      · exact Int.le_refl 0
      · exact Int.ediv_nonneg (Int.natCast_nonneg _) (Int.natCast_nonneg _)
    · refine ⟨(-(ex - (fp.length : Int))).toNat, ?_⟩
      rw [Rat.den_mkRat]
      split
      · exact Nat.one_dvd _
      · exact Nat.div_dvd_of_dvd (Nat.gcd_dvd_left _ _)


end C02
