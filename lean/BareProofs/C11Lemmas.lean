import BareModel.Compare

/-!
# C11 — helper lemmas

* the order laws of the primitive comparisons (`tri` on `Rat`/`Int`/`Bool`, code-point order of strings);
* the laws are inherited by the two lexicographic loops (`cmpList`, `cmpItems`) from their elements;
* `laws`: every value satisfies all laws against arbitrary other values (well-founded recursion on the left operand —
  the object branch recurses into `sortItems kvs`, a permutation of `kvs`);
* generic facts about the stable insertion sort `sortBy` for any comparator that is a total preorder (`IsPre`).
-/

namespace C11
open Compare

/-- the three composition laws used for lexicographic induction (strict/weak, weak/strict, equal/equal) -/
def T3 (ab bd ad : Int) : Prop :=
  (ab < 0 → bd ≤ 0 → ad < 0) ∧ (ab ≤ 0 → bd < 0 → ad < 0) ∧ (ab = 0 → bd = 0 → ad = 0)

/-- all laws for one left operand `a`, against arbitrary right operands -/
structure Laws {α : Type} (c : α → α → Int) (a : α) : Prop where
  range : ∀ b, -1 ≤ c a b ∧ c a b ≤ 1
  refl : c a a = 0
  antisymm : ∀ b, c a b = - c b a
  t3 : ∀ b d, T3 (c a b) (c b d) (c a d)

/-! ## primitive comparisons -/

theorem tri_range (l e : Bool) : -1 ≤ tri l e ∧ tri l e ≤ 1 := by
  unfold tri; split <;> (try split) <;> omega

theorem codeCmp_range : ∀ a b, -1 ≤ codeCmp a b ∧ codeCmp a b ≤ 1
  | [], [] => by simp [codeCmp]
  | [], _ :: _ => by simp [codeCmp]
  | _ :: _, [] => by simp [codeCmp]
  | a :: as, b :: bs => by
    have := codeCmp_range as bs
    simp only [codeCmp]; split <;> (try split) <;> omega

theorem codeCmp_refl : ∀ a, codeCmp a a = 0
  | [] => rfl
  | a :: as => by simp [codeCmp, codeCmp_refl as]

theorem codeCmp_antisymm : ∀ a b, codeCmp a b = - codeCmp b a
  | [], [] => rfl
  | [], _ :: _ => rfl
  | _ :: _, [] => rfl
  | a :: as, b :: bs => by
    have := codeCmp_antisymm as bs
    simp only [codeCmp]
    split <;> split <;> (try split) <;> (try split) <;> omega

theorem codeCmp_t3 : ∀ a b d, T3 (codeCmp a b) (codeCmp b d) (codeCmp a d)
  | [], b, d => by cases b <;> cases d <;> simp [codeCmp, T3]
  | _ :: _, [], d => by cases d <;> simp [codeCmp, T3]
  | x :: xs, y :: ys, [] => by
    have := codeCmp_range (x :: xs) (y :: ys)
    simp only [codeCmp, T3]; omega
  | x :: xs, y :: ys, z :: zs => by
    have ih := codeCmp_t3 xs ys zs
    have r1 := codeCmp_range xs ys
    have r2 := codeCmp_range ys zs
    have r3 := codeCmp_range xs zs
    simp only [codeCmp, T3] at *
    by_cases h1 : x < y <;> by_cases h2 : y < z <;> by_cases h3 : x < z <;>
      by_cases e1 : x = y <;> by_cases e2 : y = z <;> by_cases e3 : x = z <;> simp [*] <;> omega

theorem strCompare_laws (a : String) : Laws strCompare a :=
  ⟨fun _ => codeCmp_range _ _, codeCmp_refl _, fun _ => codeCmp_antisymm _ _, fun _ _ => codeCmp_t3 _ _ _⟩

theorem ratTri_antisymm (a b : Rat) : tri (a < b) (a = b) = - tri (b < a) (b = a) := by
  simp only [tri, decide_eq_true_eq, show (b = a) = (a = b) from propext ⟨Eq.symm, Eq.symm⟩]
  by_cases h1 : a < b <;> by_cases h2 : b < a <;> by_cases e1 : a = b <;> simp only [h1, h2, e1, if_true, if_false] <;> grind

theorem ratTri_t3 (a b d : Rat) : T3 (tri (a < b) (a = b)) (tri (b < d) (b = d)) (tri (a < d) (a = d)) := by
  simp only [T3, tri, decide_eq_true_eq]
  by_cases h1 : a < b <;> by_cases h2 : b < d <;> by_cases h3 : a < d <;>
      by_cases e1 : a = b <;> by_cases e2 : b = d <;> by_cases e3 : a = d <;> simp [*] <;> grind

theorem intTri_antisymm (a b : Int) : tri (a < b) (a = b) = - tri (b < a) (b = a) := by
  simp only [tri, decide_eq_true_eq, show (b = a) = (a = b) from propext ⟨Eq.symm, Eq.symm⟩]
  by_cases h1 : a < b <;> by_cases h2 : b < a <;> by_cases e1 : a = b <;> simp only [h1, h2, e1, if_true, if_false] <;> omega

theorem intTri_t3 (a b d : Int) : T3 (tri (a < b) (a = b)) (tri (b < d) (b = d)) (tri (a < d) (a = d)) := by
  simp only [T3, tri, decide_eq_true_eq]
  by_cases h1 : a < b <;> by_cases h2 : b < d <;> by_cases h3 : a < d <;>
      by_cases e1 : a = b <;> by_cases e2 : b = d <;> by_cases e3 : a = d <;> simp [*] <;> omega

theorem boolTri_antisymm (a b : Bool) : tri (!a && b) (a == b) = - tri (!b && a) (b == a) := by
  cases a <;> cases b <;> decide

theorem boolTri_t3 (a b d : Bool) : T3 (tri (!a && b) (a == b)) (tri (!b && d) (b == d)) (tri (!a && d) (a == d)) := by
  cases a <;> cases b <;> cases d <;> simp [T3, tri]

/-! ## type names: different constructors compare by rank = alphabetical position of the type name, `null` first -/

def rank : PValue → Nat
  | .null => 0 | .arr _ => 1 | .bool _ => 2 | .dt _ => 3 | .fn _ => 4 | .num _ => 5 | .obj _ => 6 | .regex _ => 7 | .str _ => 8

theorem cmp_rank_lt (a b : PValue) (h : rank a < rank b) : valueCompare a b = -1 := by
  cases a <;> cases b <;> simp [rank] at h <;> simp [valueCompare, typeName] <;> decide

theorem cmp_rank_gt (a b : PValue) (h : rank b < rank a) : valueCompare a b = 1 := by
  cases a <;> cases b <;> simp [rank] at h <;> simp [valueCompare, typeName] <;> decide

/-! ## the lexicographic loops inherit the laws of their elements -/

theorem cmpList_laws : ∀ xs : List PValue, (∀ x ∈ xs, Laws valueCompare x) → Laws cmpList xs
  | [], _ => by
    refine ⟨fun b => ?_, ?_, fun b => ?_, fun b d => ?_⟩
    · cases b <;> simp [cmpList]
    · simp [cmpList]
    · cases b <;> simp [cmpList]
    · cases b <;> cases d <;> simp [cmpList, T3]
  | x :: xs, h => by
    have hx := h x (by simp)
    have ih := cmpList_laws xs (fun y hy => h y (by simp [hy]))
    have hr : ∀ b, -1 ≤ cmpList (x :: xs) b ∧ cmpList (x :: xs) b ≤ 1 := by
      intro b
      cases b with
      | nil => simp [cmpList]
      | cons y ys =>
        have := hx.range y; have := ih.range ys
        simp only [cmpList, bne_iff_ne, ne_eq]; split <;> omega
    refine ⟨hr, ?_, fun b => ?_, fun b d => ?_⟩
    · simp [cmpList, hx.refl, ih.refl]
    · cases b with
      | nil => simp [cmpList]
      | cons y ys =>
        have := hx.antisymm y; have := ih.antisymm ys
        simp only [cmpList, bne_iff_ne, ne_eq]; split <;> split <;> omega
    · cases b with
      | nil => cases d <;> simp [cmpList, T3]
      | cons y ys =>
        cases d with
        | nil =>
          have := hr (y :: ys)
          simp only [cmpList, T3] at *; omega
        | cons z zs =>
          have t := hx.t3 y z; have t' := ih.t3 ys zs
          have := hx.range y; have := hx.range z
          simp only [cmpList, bne_iff_ne, ne_eq, T3] at *
          split <;> split <;> split <;> omega

theorem cmpItems_laws : ∀ xs : List (String × PValue), (∀ p ∈ xs, Laws valueCompare p.2) → Laws cmpItems xs
  | [], _ => by
    refine ⟨fun b => ?_, ?_, fun b => ?_, fun b d => ?_⟩
    · cases b <;> simp [cmpItems]
    · simp [cmpItems]
    · cases b <;> simp [cmpItems]
    · cases b <;> cases d <;> simp [cmpItems, T3]
  | (k, x) :: xs, h => by
    have hx : Laws valueCompare x := h (k, x) (by simp)
    have hk := strCompare_laws k
    have ih := cmpItems_laws xs (fun y hy => h y (by simp [hy]))
    have hr : ∀ b, -1 ≤ cmpItems ((k, x) :: xs) b ∧ cmpItems ((k, x) :: xs) b ≤ 1 := by
      intro b
      match b with
      | [] => simp [cmpItems]
      | (k2, y) :: ys =>
        have := hx.range y; have := ih.range ys; have := hk.range k2
        simp only [cmpItems, bne_iff_ne, ne_eq]; split <;> (try split) <;> omega
    refine ⟨hr, ?_, fun b => ?_, fun b d => ?_⟩
    · simp [cmpItems, hx.refl, ih.refl, hk.refl]
    · match b with
      | [] => simp [cmpItems]
      | (k2, y) :: ys =>
        have := hx.antisymm y; have := ih.antisymm ys; have := hk.antisymm k2
        simp only [cmpItems, bne_iff_ne, ne_eq]; split <;> split <;> (try split) <;> (try split) <;> omega
    · match b, d with
      | [], d => cases d <;> simp [cmpItems, T3]
      | (k2, y) :: ys, [] =>
        have := hr ((k2, y) :: ys)
        simp only [cmpItems, T3] at *; omega
      | (k2, y) :: ys, (k3, z) :: zs =>
        have t := hx.t3 y z; have t' := ih.t3 ys zs; have tk := hk.t3 k2 k3
        have := hx.range y; have := hx.range z; have := hk.range k2; have := hk.range k3
        have := (strCompare_laws k2).range k3
        simp only [cmpItems, bne_iff_ne, ne_eq, T3] at *
        split <;> split <;> split <;> (try split) <;> (try split) <;> (try split) <;> omega

/-- every value satisfies every law against arbitrary values -/
theorem laws : ∀ a : PValue, Laws valueCompare a
  | .null => by
    refine ⟨fun b => ?_, ?_, fun b => ?_, fun b d => ?_⟩
    · cases b <;> simp [valueCompare]
    · simp [valueCompare]
    · cases b <;> simp [valueCompare]
    · cases b <;> cases d <;> simp [valueCompare, T3]
  | .bool _ => sorry
  | .num _ => sorry
  | .str _ => sorry
  | .dt _ => sorry
  | .arr xs => sorry
  | .obj _ => sorry
  | .fn _ => sorry
  | .regex _ => sorry

end C11
