import BareModel.Compare

/-!
# C11 — helper lemmas

* the order laws of the primitive comparisons (`tri` on `Rat`/`Int`/`Bool`, code-point order of strings);
* the laws are inherited by the two lexicographic loops (`cmpList`, `cmpItems`) from their elements;
* `laws`: every value satisfies all laws against arbitrary other values (well-founded recursion on the left operand —
  the object branch recurses into `sortItems kvs`, a permutation of `kvs`);
* generic facts about the stable insertion sort `sortBy` for any comparator that is a total preorder (`IsPre`).
-/

namespace C11
open Compare

/-- the three composition laws used for lexicographic induction (strict/weak, weak/strict, equal/equal) -/
def T3 (ab bd ad : Int) : Prop :=
  (ab < 0 → bd ≤ 0 → ad < 0) ∧ (ab ≤ 0 → bd < 0 → ad < 0) ∧ (ab = 0 → bd = 0 → ad = 0)

/-- all laws for one left operand `a`, against arbitrary right operands -/
structure Laws {α : Type} (c : α → α → Int) (a : α) : Prop where
  range : ∀ b, -1 ≤ c a b ∧ c a b ≤ 1
  refl : c a a = 0
  antisymm : ∀ b, c a b = - c b a
  t3 : ∀ b d, T3 (c a b) (c b d) (c a d)

/-! ## primitive comparisons -/

theorem tri_range (l e : Bool) : -1 ≤ tri l e ∧ tri l e ≤ 1 := by
  unfold tri; split <;> (try split) <;> omega

theorem codeCmp_range : ∀ a b, -1 ≤ codeCmp a b ∧ codeCmp a b ≤ 1
  | [], [] => by simp [codeCmp]
  | [], _ :: _ => by simp [codeCmp]
  | _ :: _, [] => by simp [codeCmp]
  | a :: as, b :: bs => by
    have := codeCmp_range as bs
    simp only [codeCmp]; split <;> (try split) <;> omega

theorem codeCmp_refl : ∀ a, codeCmp a a = 0
  | [] => rfl
  | a :: as => by simp [codeCmp, codeCmp_refl as]

theorem codeCmp_antisymm : ∀ a b, codeCmp a b = - codeCmp b a
  | [], [] => rfl
  | [], _ :: _ => rfl
  | _ :: _, [] => rfl
  | a :: as, b :: bs => by
    have := codeCmp_antisymm as bs
    simp only [codeCmp]
    split <;> split <;> (try split) <;> (try split) <;> omega

theorem codeCmp_t3 : ∀ a b d, T3 (codeCmp a b) (codeCmp b d) (codeCmp a d)
  | [], b, d => by cases b <;> cases d <;> simp [codeCmp, T3]
  | _ :: _, [], d => by cases d <;> simp [codeCmp, T3]
  | x :: xs, y :: ys, [] => by
    have := codeCmp_range (x :: xs) (y :: ys)
    simp only [codeCmp, T3]; omega
  | x :: xs, y :: ys, z :: zs => by
    have ih := codeCmp_t3 xs ys zs
    have r1 := codeCmp_range xs ys
    have r2 := codeCmp_range ys zs
    have r3 := codeCmp_range xs zs
    simp only [codeCmp, T3] at *
    by_cases h1 : x < y <;> by_cases h2 : y < z <;> by_cases h3 : x < z <;>
      by_cases e1 : x = y <;> by_cases e2 : y = z <;> by_cases e3 : x = z <;> simp [*] <;> omega

theorem strCompare_laws (a : String) : Laws strCompare a :=
  ⟨fun _ => codeCmp_range _ _, codeCmp_refl _, fun _ => codeCmp_antisymm _ _, fun _ _ => codeCmp_t3 _ _ _⟩

theorem ratTri_antisymm (a b : Rat) : tri (a < b) (a = b) = - tri (b < a) (b = a) := by
  simp only [tri, decide_eq_true_eq, show (b = a) = (a = b) from propext ⟨Eq.symm, Eq.symm⟩]
  by_cases h1 : a < b <;> by_cases h2 : b < a <;> by_cases e1 : a = b <;> simp only [h1, h2, e1, if_true, if_false] <;> grind

theorem ratTri_t3 (a b d : Rat) : T3 (tri (a < b) (a = b)) (tri (b < d) (b = d)) (tri (a < d) (a = d)) := by
  simp only [T3, tri, decide_eq_true_eq]
  by_cases h1 : a < b <;> by_cases h2 : b < d <;> by_cases h3 : a < d <;>
      by_cases e1 : a = b <;> by_cases e2 : b = d <;> by_cases e3 : a = d <;> simp [*] <;> grind

theorem intTri_antisymm (a b : Int) : tri (a < b) (a = b) = - tri (b < a) (b = a) := by
  simp only [tri, decide_eq_true_eq, show (b = a) = (a = b) from propext ⟨Eq.symm, Eq.symm⟩]
  by_cases h1 : a < b <;> by_cases h2 : b < a <;> by_cases e1 : a = b <;> simp only [h1, h2, e1, if_true, if_false] <;> omega

theorem intTri_t3 (a b d : Int) : T3 (tri (a < b) (a = b)) (tri (b < d) (b = d)) (tri (a < d) (a = d)) := by
  simp only [T3, tri, decide_eq_true_eq]
  by_cases h1 : a < b <;> by_cases h2 : b < d <;> by_cases h3 : a < d <;>
      by_cases e1 : a = b <;> by_cases e2 : b = d <;> by_cases e3 : a = d <;> simp [*] <;> omega

theorem boolTri_antisymm (a b : Bool) : tri (!a && b) (a == b) = - tri (!b && a) (b == a) := by
  cases a <;> cases b <;> decide

theorem boolTri_t3 (a b d : Bool) : T3 (tri (!a && b) (a == b)) (tri (!b && d) (b == d)) (tri (!a && d) (a == d)) := by
  cases a <;> cases b <;> cases d <;> simp [T3, tri]

/-! ## type names: different constructors compare by rank = alphabetical position of the type name, `null` first -/

def rank : PValue → Nat
  | .null => 0 | .arr _ => 1 | .bool _ => 2 | .dt _ => 3 | .fn _ => 4 | .num _ => 5 | .obj _ => 6 | .regex _ => 7 | .str _ => 8

theorem cmp_rank_lt (a b : PValue) (h : rank a < rank b) : valueCompare a b = -1 := by
  cases a <;> cases b <;> simp [rank] at h <;> simp [valueCompare, typeName] <;> decide

theorem cmp_rank_gt (a b : PValue) (h : rank b < rank a) : valueCompare a b = 1 := by
  cases a <;> cases b <;> simp [rank] at h <;> simp [valueCompare, typeName] <;> decide

/-! ## the lexicographic loops inherit the laws of their elements -/

theorem cmpList_laws : ∀ xs : List PValue, (∀ x ∈ xs, Laws valueCompare x) → Laws cmpList xs
  | [], _ => by
    refine ⟨fun b => ?_, ?_, fun b => ?_, fun b d => ?_⟩
    · cases b <;> simp [cmpList]
    · simp [cmpList]
    · cases b <;> simp [cmpList]
    · cases b <;> cases d <;> simp [cmpList, T3]
  | x :: xs, h => by
    have hx := h x (by simp)
    have ih := cmpList_laws xs (fun y hy => h y (by simp [hy]))
    have hr : ∀ b, -1 ≤ cmpList (x :: xs) b ∧ cmpList (x :: xs) b ≤ 1 := by
      intro b
      cases b with
      | nil => simp [cmpList]
      | cons y ys =>
        have := hx.range y; have := ih.range ys
        simp only [cmpList, bne_iff_ne, ne_eq]; split <;> omega
    refine ⟨hr, ?_, fun b => ?_, fun b d => ?_⟩
    · simp [cmpList, hx.refl, ih.refl]
    · cases b with
      | nil => simp [cmpList]
      | cons y ys =>
        have := hx.antisymm y; have := ih.antisymm ys
        simp only [cmpList, bne_iff_ne, ne_eq]; split <;> split <;> omega
    · cases b with
      | nil => cases d <;> simp [cmpList, T3]
      | cons y ys =>
        cases d with
        | nil =>
          have := hr (y :: ys)
          simp only [cmpList, T3] at *; omega
        | cons z zs =>
          have t := hx.t3 y z; have t' := ih.t3 ys zs
          have := hx.range y; have := hx.range z
          simp only [cmpList, bne_iff_ne, ne_eq, T3] at *
          split <;> split <;> split <;> omega

theorem cmpItems_laws : ∀ xs : List (String × PValue), (∀ p ∈ xs, Laws valueCompare p.2) → Laws cmpItems xs
  | [], _ => by
    refine ⟨fun b => ?_, ?_, fun b => ?_, fun b d => ?_⟩
    · cases b <;> simp [cmpItems]
    · simp [cmpItems]
    · cases b <;> simp [cmpItems]
    · cases b <;> cases d <;> simp [cmpItems, T3]
  | (k, x) :: xs, h => by
    have hx : Laws valueCompare x := h (k, x) (by simp)
    have hk := strCompare_laws k
    have ih := cmpItems_laws xs (fun y hy => h y (by simp [hy]))
    have hr : ∀ b, -1 ≤ cmpItems ((k, x) :: xs) b ∧ cmpItems ((k, x) :: xs) b ≤ 1 := by
      intro b
      match b with
      | [] => simp [cmpItems]
      | (k2, y) :: ys =>
        have := hx.range y; have := ih.range ys; have := hk.range k2
        simp only [cmpItems, bne_iff_ne, ne_eq]; split <;> (try split) <;> omega
    refine ⟨hr, ?_, fun b => ?_, fun b d => ?_⟩
    · simp [cmpItems, hx.refl, ih.refl, hk.refl]
    · match b with
      | [] => simp [cmpItems]
      | (k2, y) :: ys =>
        have := hx.antisymm y; have := ih.antisymm ys; have := hk.antisymm k2
        simp only [cmpItems, bne_iff_ne, ne_eq]; split <;> split <;> (try split) <;> (try split) <;> omega
    · match b, d with
      | [], d => cases d <;> simp [cmpItems, T3]
      | (k2, y) :: ys, [] =>
        have := hr ((k2, y) :: ys)
        simp only [cmpItems, T3] at *; omega
      | (k2, y) :: ys, (k3, z) :: zs =>
        have t := hx.t3 y z; have t' := ih.t3 ys zs; have tk := hk.t3 k2 k3
        have := hx.range y; have := hx.range z; have := hk.range k2; have := hk.range k3
        have := (strCompare_laws k2).range k3
        simp only [cmpItems, bne_iff_ne, ne_eq, T3] at *
        split <;> split <;> split <;> (try split) <;> (try split) <;> (try split) <;> omega

/-- it is enough to establish the laws against operands of the same type: different types are decided by `rank` -/
theorem laws_of_sameRank (a : PValue)
    (hrange : ∀ b, rank b = rank a → -1 ≤ valueCompare a b ∧ valueCompare a b ≤ 1)
    (hrefl : valueCompare a a = 0)
    (hanti : ∀ b, rank b = rank a → valueCompare a b = - valueCompare b a)
    (ht3 : ∀ b d, rank b = rank a → rank d = rank a →
      T3 (valueCompare a b) (valueCompare b d) (valueCompare a d)) : Laws valueCompare a := by
  refine ⟨fun b => ?_, hrefl, fun b => ?_, fun b d => ?_⟩
  · rcases Nat.lt_trichotomy (rank a) (rank b) with h | h | h
    · rw [cmp_rank_lt a b h]; omega
    · exact hrange b h.symm
    · rw [cmp_rank_gt a b h]; omega
  · rcases Nat.lt_trichotomy (rank a) (rank b) with h | h | h
    · rw [cmp_rank_lt a b h, cmp_rank_gt b a h]
    · exact hanti b h.symm
    · rw [cmp_rank_gt a b h, cmp_rank_lt b a h]; omega
  · rcases Nat.lt_trichotomy (rank a) (rank b) with h | h | h
    · rcases Nat.lt_trichotomy (rank b) (rank d) with h' | h' | h'
      · rw [cmp_rank_lt a b h, cmp_rank_lt b d h', cmp_rank_lt a d (by omega)]; simp [T3]
      · rw [cmp_rank_lt a b h, cmp_rank_lt a d (by omega)]; simp [T3]
      · rw [cmp_rank_lt a b h, cmp_rank_gt b d h']; simp [T3]
    · rcases Nat.lt_trichotomy (rank b) (rank d) with h' | h' | h'
      · rw [cmp_rank_lt b d h', cmp_rank_lt a d (by omega)]; simp [T3]
      · exact ht3 b d h.symm (by omega)
      · rw [cmp_rank_gt b d h']; simp [T3]
    · rw [cmp_rank_gt a b h]; simp [T3]

/-- every value satisfies every law against arbitrary values -/
theorem laws : ∀ a : PValue, Laws valueCompare a
  | .null => by
    refine ⟨fun b => ?_, ?_, fun b => ?_, fun b d => ?_⟩
    · cases b <;> simp [valueCompare]
    · simp [valueCompare]
    · cases b <;> simp [valueCompare]
    · cases b <;> cases d <;> simp [valueCompare, T3]
  | .bool x => by
    refine laws_of_sameRank _ (fun b h => ?_) ?_ (fun b h => ?_) (fun b d h h' => ?_)
    · cases b <;> simp [rank] at h; simp only [valueCompare]; exact tri_range _ _
    · cases x <;> simp [valueCompare, tri]
    · cases b <;> simp [rank] at h; simp only [valueCompare]; exact boolTri_antisymm _ _
    · cases b <;> simp [rank] at h; cases d <;> simp [rank] at h'; simp only [valueCompare]; exact boolTri_t3 _ _ _
  | .num x => by
    refine laws_of_sameRank _ (fun b h => ?_) ?_ (fun b h => ?_) (fun b d h h' => ?_)
    · cases b <;> simp [rank] at h; simp only [valueCompare]; exact tri_range _ _
    · simp [valueCompare, tri, Rat.lt_irrefl]
    · cases b <;> simp [rank] at h; simp only [valueCompare]; exact ratTri_antisymm _ _
    · cases b <;> simp [rank] at h; cases d <;> simp [rank] at h'; simp only [valueCompare]; exact ratTri_t3 _ _ _
  | .dt x => by
    refine laws_of_sameRank _ (fun b h => ?_) ?_ (fun b h => ?_) (fun b d h h' => ?_)
    · cases b <;> simp [rank] at h; simp only [valueCompare]; exact tri_range _ _
    · simp [valueCompare, tri]
    · cases b <;> simp [rank] at h; simp only [valueCompare]; exact intTri_antisymm _ _
    · cases b <;> simp [rank] at h; cases d <;> simp [rank] at h'; simp only [valueCompare]; exact intTri_t3 _ _ _
  | .str x => by
    have l := strCompare_laws x
    refine laws_of_sameRank _ (fun b h => ?_) ?_ (fun b h => ?_) (fun b d h h' => ?_)
    · cases b <;> simp [rank] at h; simp only [valueCompare]; exact l.range _
    · simp only [valueCompare]; exact l.refl
    · cases b <;> simp [rank] at h; simp only [valueCompare]; exact l.antisymm _
    · cases b <;> simp [rank] at h; cases d <;> simp [rank] at h'; simp only [valueCompare]; exact l.t3 _ _
  | .fn x => by
    refine laws_of_sameRank _ (fun b h => ?_) ?_ (fun b h => ?_) (fun b d h h' => ?_)
    · cases b <;> simp [rank] at h; simp [valueCompare, typeName]; decide
    · simp [valueCompare, typeName]; decide
    · cases b <;> simp [rank] at h; simp only [valueCompare, typeName]; decide
    · cases b <;> simp [rank] at h; cases d <;> simp [rank] at h'; simp only [valueCompare, typeName, T3]; decide
  | .regex x => by
    refine laws_of_sameRank _ (fun b h => ?_) ?_ (fun b h => ?_) (fun b d h h' => ?_)
    · cases b <;> simp [rank] at h; simp [valueCompare, typeName]; decide
    · simp [valueCompare, typeName]; decide
    · cases b <;> simp [rank] at h; simp only [valueCompare, typeName]; decide
    · cases b <;> simp [rank] at h; cases d <;> simp [rank] at h'; simp only [valueCompare, typeName, T3]; decide
  | .arr xs => by
    have l := cmpList_laws xs (fun x _ => laws x)
    refine laws_of_sameRank _ (fun b h => ?_) ?_ (fun b h => ?_) (fun b d h h' => ?_)
    · cases b <;> simp [rank] at h; simp only [valueCompare]; exact l.range _
    · simp only [valueCompare]; exact l.refl
    · cases b <;> simp [rank] at h; simp only [valueCompare]; exact l.antisymm _
    · cases b <;> simp [rank] at h; cases d <;> simp [rank] at h'; simp only [valueCompare]; exact l.t3 _ _
  | .obj kvs => by
    have l := cmpItems_laws (sortItems kvs) (fun p hp =>
      have _hm : p ∈ kvs := (sortItems_perm kvs).mem_iff.mp hp
      laws p.2)
    refine laws_of_sameRank _ (fun b h => ?_) ?_ (fun b h => ?_) (fun b d h h' => ?_)
    · cases b <;> simp [rank] at h; simp only [valueCompare]; exact l.range _
    · simp only [valueCompare]; exact l.refl
    · cases b <;> simp [rank] at h; simp only [valueCompare]; exact l.antisymm _
    · cases b <;> simp [rank] at h; cases d <;> simp [rank] at h'; simp only [valueCompare]; exact l.t3 _ _
termination_by a => sizeOf a
decreasing_by
  · simp_wf
    have := List.sizeOf_lt_of_mem ‹_ ∈ xs›
    omega
  · simp_wf
    have h1 := List.sizeOf_lt_of_mem _hm
    have h2 : sizeOf p.2 < sizeOf p := by cases p; simp_wf; omega
    omega

/-! ## total preorders and the stable insertion sort -/

/-- a comparator that is a total preorder: exactly the three laws of the property -/
structure IsPre {α : Type} (c : α → α → Int) : Prop where
  refl : ∀ a, c a a = 0
  antisymm : ∀ a b, c a b = - c b a
  trans : ∀ a b d, c a b ≤ 0 → c b d ≤ 0 → c a d ≤ 0

namespace IsPre
variable {α : Type} {c : α → α → Int}

theorem lt_le (h : IsPre c) {a b d : α} (h1 : c a b < 0) (h2 : c b d ≤ 0) : c a d < 0 := by
  have := h.antisymm a d; have := h.antisymm a b
  have := h.trans b d a h2
  omega

theorem le_lt (h : IsPre c) {a b d : α} (h1 : c a b ≤ 0) (h2 : c b d < 0) : c a d < 0 := by
  have := h.antisymm a d; have := h.antisymm b d
  have := h.trans d a b
  omega

theorem eq_eq (h : IsPre c) {a b d : α} (h1 : c a b = 0) (h2 : c b d = 0) : c a d = 0 := by
  have := h.antisymm a d; have := h.antisymm a b; have := h.antisymm b d
  have := h.trans a b d; have := h.trans d b a
  omega

theorem flip (h : IsPre c) : IsPre (fun a b => c b a) :=
  ⟨fun a => h.refl a, fun a b => h.antisymm b a, fun a b d h1 h2 => h.trans d b a h2 h1⟩

theorem comap {β : Type} (h : IsPre c) (g : β → α) : IsPre (fun a b => c (g a) (g b)) :=
  ⟨fun _ => h.refl _, fun _ _ => h.antisymm _ _, fun _ _ _ => h.trans _ _ _⟩

/-- "first comparator decides unless it says equal" -/
theorem lex {c₂ : α → α → Int} (h : IsPre c) (h₂ : IsPre c₂) :
    IsPre (fun a b => if c a b != 0 then c a b else c₂ a b) := by
  refine ⟨fun x => by simp [h.refl, h₂.refl], fun a b => ?_, fun a b d => ?_⟩
  · have := h.antisymm a b; have := h₂.antisymm a b
    simp only [bne_iff_ne, ne_eq]; split <;> split <;> omega
  · have t1 := h.lt_le (a := a) (b := b) (d := d); have t2 := h.le_lt (a := a) (b := b) (d := d)
    have t3 := h.eq_eq (a := a) (b := b) (d := d)
    have := h₂.trans a b d
    simp only [bne_iff_ne, ne_eq]; split <;> split <;> split <;> omega
end IsPre

theorem valueCompare_isPre : IsPre valueCompare := by
  refine ⟨fun a => (laws a).refl, fun a b => (laws a).antisymm b, fun a b d h1 h2 => ?_⟩
  have ⟨t1, t2, t3⟩ := (laws a).t3 b d
  have := (laws a).range b; have := (laws b).range d
  omega

section Sorting
variable {α : Type} {c : α → α → Int}

/-- the `<` that `functools.cmp_to_key(c)` gives the sort -/
abbrev ltOf (c : α → α → Int) : α → α → Bool := fun a b => decide (c a b < 0)

/-- ordered: no element is greater than a later one -/
abbrev Sorted (c : α → α → Int) (l : List α) : Prop := l.Pairwise (fun x y => c x y ≤ 0)

/-- the class of `a`: the elements that compare equal to it -/
abbrev eqv (c : α → α → Int) (a : α) : α → Bool := fun x => c x a == 0

theorem insertBy_sorted (h : IsPre c) (x : α) : ∀ ys, Sorted c ys → Sorted c (insertBy (ltOf c) x ys)
  | [], _ => by simp [insertBy]
  | y :: ys, hs => by
    have ⟨hy, hys⟩ := List.pairwise_cons.mp hs
    unfold insertBy
    by_cases hxy : c x y < 0
    · simp only [ltOf, hxy, decide_true, if_true]
      refine List.pairwise_cons.mpr ⟨fun z hz => ?_, hs⟩
      rcases List.mem_cons.mp hz with rfl | hz
      · omega
      · exact Int.le_of_lt (h.lt_le hxy (hy z hz))
    · simp only [ltOf, hxy, decide_false, Bool.false_eq_true, if_false]
      refine List.pairwise_cons.mpr ⟨fun z hz => ?_, insertBy_sorted h x ys hys⟩
      rcases List.mem_cons.mp ((insertBy_perm _ x ys).mem_iff.mp hz) with rfl | hz
      · have := h.antisymm y z; omega
      · exact hy z hz

theorem foldl_insertBy_sorted (h : IsPre c) : ∀ (xs acc : List α), Sorted c acc →
    Sorted c (xs.foldl (fun acc x => insertBy (ltOf c) x acc) acc)
  | [], _, ha => ha
  | x :: xs, acc, ha => foldl_insertBy_sorted h xs _ (insertBy_sorted h x acc ha)

theorem insertBy_filter (h : IsPre c) (a x : α) : ∀ ys, Sorted c ys →
    (insertBy (ltOf c) x ys).filter (eqv c a) = ys.filter (eqv c a) ++ [x].filter (eqv c a)
  | [], _ => by simp [insertBy]
  | y :: ys, hs => by
    have ⟨hy, hys⟩ := List.pairwise_cons.mp hs
    unfold insertBy
    by_cases hxy : c x y < 0
    · simp only [ltOf, hxy, decide_true, if_true]
      by_cases hxa : c x a = 0
      · have hnil : (y :: ys).filter (eqv c a) = [] := by
          refine List.filter_eq_nil_iff.mpr (fun z hz hza => ?_)
          have hxz : c x z < 0 := by
            rcases List.mem_cons.mp hz with rfl | hz
            · exact hxy
            · exact h.lt_le hxy (hy z hz)
          have hza : c z a = 0 := by simpa using hza
          have hax : c a x = 0 := by have := h.antisymm a x; omega
          have := h.eq_eq hza hax
          have := h.antisymm x z
          omega
        rw [List.filter_cons, hnil]; simp [hxa]
      · simp [List.filter_cons, hxa]
    · simp only [ltOf, hxy, decide_false, Bool.false_eq_true, if_false]
      rw [List.filter_cons, insertBy_filter h a x ys hys, List.filter_cons (x := y)]
      split <;> simp

theorem foldl_insertBy_filter (h : IsPre c) (a : α) : ∀ (xs acc : List α), Sorted c acc →
    (xs.foldl (fun acc x => insertBy (ltOf c) x acc) acc).filter (eqv c a) = acc.filter (eqv c a) ++ xs.filter (eqv c a)
  | [], _, _ => by simp
  | x :: xs, acc, ha => by
    rw [List.foldl_cons, foldl_insertBy_filter h a xs _ (insertBy_sorted h x acc ha), insertBy_filter h a x acc ha,
      List.filter_cons (x := x)]
    split <;> simp [*]

theorem sortBy_sorted (h : IsPre c) (xs : List α) : Sorted c (sortBy (ltOf c) xs) :=
  foldl_insertBy_sorted h xs [] List.Pairwise.nil

theorem sortBy_stable (h : IsPre c) (xs : List α) (a : α) :
    (sortBy (ltOf c) xs).filter (eqv c a) = xs.filter (eqv c a) := by
  simpa [sortBy] using foldl_insertBy_filter h a xs [] List.Pairwise.nil

/-- an ordered list is determined by its equivalence classes taken in order of appearance -/
theorem sorted_stable_unique (h : IsPre c) : ∀ ys zs : List α, Sorted c ys → Sorted c zs →
    (∀ a, ys.filter (eqv c a) = zs.filter (eqv c a)) → ys = zs
  | [], [], _, _, _ => rfl
  | [], z :: zs, _, _, hf => by have := hf z; simp [h.refl] at this
  | y :: ys, [], _, _, hf => by have := hf y; simp [h.refl] at this
  | y :: ys, z :: zs, hy, hz, hf => by
    have ⟨hy1, hy2⟩ := List.pairwise_cons.mp hy
    have ⟨hz1, hz2⟩ := List.pairwise_cons.mp hz
    -- membership is the same on both sides
    have mem_l : ∀ w, w ∈ z :: zs → w ∈ y :: ys := fun w hw => by
      have : w ∈ (z :: zs).filter (eqv c w) := List.mem_filter.mpr ⟨hw, by simp [h.refl]⟩
      rw [← hf w] at this; exact (List.mem_filter.mp this).1
    have mem_r : ∀ w, w ∈ y :: ys → w ∈ z :: zs := fun w hw => by
      have : w ∈ (y :: ys).filter (eqv c w) := List.mem_filter.mpr ⟨hw, by simp [h.refl]⟩
      rw [hf w] at this; exact (List.mem_filter.mp this).1
    have hyz : c y z ≤ 0 := by
      rcases List.mem_cons.mp (mem_l z (by simp)) with e | hm
      · rw [e, h.refl]; omega
      · exact hy1 z hm
    have hzy : c z y ≤ 0 := by
      rcases List.mem_cons.mp (mem_r y (by simp)) with e | hm
      · rw [e, h.refl]; omega
      · exact hz1 y hm
    have hzy0 : c z y = 0 := by have := h.antisymm y z; omega
    have hhead := hf y
    simp only [List.filter_cons, eqv, h.refl, hzy0, beq_self_eq_true, if_true] at hhead
    have hyz_eq : y = z := (List.cons.inj hhead).1
    subst hyz_eq
    have htail : ∀ a, ys.filter (eqv c a) = zs.filter (eqv c a) := fun a => by
      have := hf a
      simp only [List.filter_cons] at this
      split at this
      · exact (List.cons.inj this).2
      · exact this
    rw [sorted_stable_unique h ys zs hy2 hz2 htail]

end Sorting

end C11
