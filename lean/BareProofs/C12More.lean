import BareProofs.C12MoreLemmas

/-!
# C12More — one number type, more of library.py / runtime.py (extension of `C12`)

`LibH2` (host level: `PyNum = int | float`, partial Python-typed primitives, `int()` exactly where library.py has it) refines the
one-number-type functions over `Rat` for 21 further library functions, for **all** arguments and whatever argument-model table
`extract.py` regenerates:

* numbers only stored / moved / compared: `arrayCopy arrayExtend arrayLength arrayNew arrayPop arrayPush arrayShift stringLength
  systemCompare mathMax mathMin` — unconditional;
* host-typed use of a number: `jsonStringify` (`' ' * indent`), `datetimeNew` (`calendar.monthrange`, `datetime.datetime` want ints;
  the carries run in int or float arithmetic depending on the spelling), `mathAbs mathCeil mathFloor mathSign` (result host type
  differs, value does not) — unconditional;
* text of a number: `stringNew arrayJoin` — for host ints inside the quantifier (|n| < 1e15), given that such an integer prints the
  same as a float and as an int (`Sane.text_int`);
* `value_round_number`: `mathRound numberToFixed` (the latter also `f'{x:.{int(digits)}f}'`) — for a value that is a double / small
  int and an integral digit count 0..22 (the F15 boundary), over an abstract rounding function.

Operators: unary `-`, `+`, `-`, `/`, `%` (`opNeg_refines` … `opMod_refines`; the int/int cases of `+ - %` need the exact integer
result to be a double — true inside the quantifier |n| < 1e15, false beyond 2^53: `opAdd_unbounded_not_refines`).

The `for` loop as lowered by the parser (index variable, `arrayLength`, `!length`, `arrayGet`, `index + 1`, `index < length`):
`forLoop_visits` (every element once, in order, whatever the spelling of the `0`/`1` nodes and of the array's numbers) and
`forLoop_spelling_irrelevant`; these two use the argument models of arrayGet / arrayLength as generated now (`getTable`, `lenTable`).

`datetimeNew_int_tuple` ties the host-level `datetimeNew` to the integer mirror of C16.

Excluded refactorings (witness theorems): `jsonStringifyNoInt_not_refines`, `datetimeNewNoInt_not_refines`.
-/

namespace C12More
open LibH LibH2 C12

set_option linter.unusedSimpArgs false

/-- what a body needs to know about the (validated) argument list it receives; `True` for all functions except the four that print or
    round a number -/
def PreBody (E : Env) : String → List HVal → Prop
  | "stringNew", v => ∀ a, list1 v = some a → TextOk a
  | "arrayJoin", v => ∀ a s xs, list2 v = some (a, s) → a.asArr? = some xs → ∀ x ∈ xs, TextOk x
  | "mathRound", v => ∀ a d x dg, list2 v = some (a, d) → a.asNum? = some x → d.asNum? = some dg → NumOk E x ∧ DigitsOk dg
  | "numberToFixed", v =>
      ∀ a d t x dg, list3 v = some (a, d, t) → a.asNum? = some x → d.asNum? = some dg → NumOk E x ∧ DigitsOk dg
  | _, _ => True

/-- the functions whose refinement needs `PreBody` -/
def conditional : List String := ["stringNew", "arrayJoin", "mathRound", "numberToFixed"]

theorem preBody_trivial (E : Env) (name : String) (h : name ∉ conditional) (v : List HVal) : PreBody E name v := by
  unfold PreBody
  split <;> trivial

/-- every body of `LibH2` refines its one-number-type version: same value, same failure (class and failure value), same new contents of
    a mutated array. -/
theorem body2_refines (E : Env) (hE : Sane E) (name : String) (v : List HVal) (hpre : PreBody E name v) :
    absB (bodyH2 E name v) = bodyA2 E name (v.map absV) := by
  unfold bodyH2 bodyA2
  split <;> first
    | exact arrayCopy_ref v | exact arrayExtend_ref v | exact arrayJoin_ref E hE v hpre | exact arrayLength_ref v
    | exact arrayNew_ref v | exact arrayPop_ref v | exact arrayPush_ref v | exact arrayShift_ref v | exact stringLength_ref v
    | exact stringNew_ref E hE v hpre | exact systemCompare_ref v | exact jsonStringify_ref E v | exact mathAbs_ref v
    | exact mathCeil_ref v | exact mathFloor_ref v | exact mathSign_ref v | exact extremum_ref 1 v | exact extremum_ref (-1) v
    | exact mathRound_ref E hE v hpre | exact numberToFixed_ref E hE v hpre | exact datetimeNew_ref v | rfl


/-- the argument list the body receives -/
def validatedWith (table : Option (List Gen.ArgModel)) (args : List HVal) : Option (List HVal) :=
  match table with
  | none => some args
  | some ms => validateH ms args

theorem validated2_eq (name : String) (args : List HVal) :
    validated2 name args = validatedWith ((modelName2 name).map argModel) args := rfl

/-- the call wrapper commutes with forgetting the spelling, given that the body does on the validated argument list -/
theorem callWith_abs (fH : HVal) (table : Option (List Gen.ArgModel))
    (bH : List HVal → Except (Fail PyNum) (BodyR PyNum)) (bA : List AVal → Except (Fail Rat) (BodyR Rat)) (args : List HVal)
    (hb : ∀ v, validatedWith table args = some v → absB (bH v) = bA (v.map absV)) :
    absOut (callWith validateH fH table bH args) = callWith validateA (absV fH) table bA (args.map absV) := by
  unfold callWith
  cases table with
  | none => simp only [wrap_abs, hb args rfl]
  | some ms =>
    simp only [← validate_refines]
    cases hv : validateH ms args with
    | none => simp [absOut]
    | some vargs => simp only [Option.map_some, wrap_abs, hb vargs hv]

/-- **T `libH2_refines_lib`**: for every function of the `LibH2` table (any name: unmodelled names are the trivially failing body on
    both sides) and ALL argument lists, the wrapped host-level call with spellings forgotten afterwards equals the one-number-type call
    on the abstracted arguments — the value of the call expression (including the failure values null / 0 produced by the call wrapper
    for `ValueArgsError` and for swallowed host exceptions such as the `TypeError` of `' ' * 2.0`) and the post-call contents of the
    argument objects.  `hpre` speaks about the validated argument list the body receives and is `True` except for
    `stringNew`/`arrayJoin` (host ints printed directly must be below 1e15) and `mathRound`/`numberToFixed` (the value is a double or a
    small int, the digit count an integer 0..22: the F15 boundary). -/
theorem libH2_refines_lib (E : Env) (hE : Sane E) (name : String) (args : List HVal)
    (hpre : ∀ v, validated2 name args = some v → PreBody E name v) :
    absOut (callH2 E name args) = callA2 E name (args.map absV) := by
  unfold callH2 callA2
  have h := callWith_abs (if failZero name then .num (.int 0) else .null) ((modelName2 name).map argModel) (bodyH2 E name)
    (bodyA2 E name) args (fun v hv => body2_refines E hE name v (hpre v ((validated2_eq name args).trans hv)))
  rw [h]
  by_cases hz : failZero name = true <;> simp [hz, ofI]

/-- **T `libH2_refines_lib_exact`**: for the 17 functions that neither print nor round a number the refinement is unconditional — no
    hypothesis on the abstract host functions, on the arguments or on the argument-model tables. -/
theorem libH2_refines_lib_exact (E : Env) (name : String) (hn : name ∉ conditional) (args : List HVal) :
    absOut (callH2 E name args) = callA2 E name (args.map absV) := by
  unfold callH2 callA2
  have hb : ∀ v, absB (bodyH2 E name v) = bodyA2 E name (v.map absV) := by
    intro v
    unfold bodyH2 bodyA2
    split <;> first
      | exact arrayCopy_ref v | exact arrayExtend_ref v | exact arrayLength_ref v
      | exact arrayNew_ref v | exact arrayPop_ref v | exact arrayPush_ref v | exact arrayShift_ref v | exact stringLength_ref v
      | exact systemCompare_ref v | exact jsonStringify_ref E v | exact mathAbs_ref v
      | exact mathCeil_ref v | exact mathFloor_ref v | exact mathSign_ref v | exact extremum_ref 1 v | exact extremum_ref (-1) v
      | exact datetimeNew_ref v | rfl | (exfalso; exact hn (by simp [conditional]))
  have h := callWith_abs (if failZero name then .num (.int 0) else .null) ((modelName2 name).map argModel) (bodyH2 E name)
    (bodyA2 E name) args (fun v _ => hb v)
  rw [h]
  by_cases hz : failZero name = true <;> simp [hz, ofI]

/-- **T `spelling_irrelevant2`**: two argument lists that are equal up to the int/float spelling of their numbers (at every depth) give
    the same result and the same post-call arguments, up to spelling. -/
theorem spelling_irrelevant2 (E : Env) (hE : Sane E) (name : String) (args args' : List HVal)
    (h : args.map absV = args'.map absV)
    (hpre : ∀ v, validated2 name args = some v → PreBody E name v)
    (hpre' : ∀ v, validated2 name args' = some v → PreBody E name v) :
    absOut (callH2 E name args) = absOut (callH2 E name args') := by
  rw [libH2_refines_lib E hE name args hpre, libH2_refines_lib E hE name args' hpre', h]

/-- the unconditional form for the functions that neither print nor round a number: in particular a script literal (always a float) works
    as `jsonStringify` indent and as any `datetimeNew` field exactly like the int. -/
theorem spelling_irrelevant2_exact (E : Env) (name : String) (hn : name ∉ conditional) (args args' : List HVal)
    (h : args.map absV = args'.map absV) :
    absOut (callH2 E name args) = absOut (callH2 E name args') := by
  rw [libH2_refines_lib_exact E name hn, libH2_refines_lib_exact E name hn, h]


/-- **T `datetimeNew_int_tuple`**: whatever spelling each of the seven integral fields has, the host-level body of `datetimeNew` — carries
    and month normalisation in int *or* float arithmetic, `int()` before `calendar.monthrange` and `datetime.datetime` — computes the
    integer mirror of C16 (`Datetime.datetimeNewCore`, about which `C16` proves the calendar facts) on the integer tuple; a `ValueError` of
    the constructor is the same `ValueError`. -/
theorem datetimeNew_int_tuple (v : List HVal) (y mo d h mi s ms : Int)
    (hv : v.map absV = [ofI y, ofI mo, ofI d, ofI h, ofI mi, ofI s, ofI ms]) :
    absB (datetimeNewH v) = ofCore (Datetime.datetimeNewCore y mo d h mi s ms) := by
  rw [datetimeNew_ref, hv]
  simp only [datetimeNewA, datetimeUnpack, list7, req, ofI, Val.asNum?, bind, Except.bind]
  exact datetimeCoreA_int y mo d h mi s ms

/-! ### operators -/

/-- unary `-`: exact in both spellings. -/
theorem opNeg_refines (a : PyNum) : (opNegH a).abs = -a.abs := by
  cases a <;> simp [opNegH]

/-- the operator `+` (`left_value + right_value`): for operands that are doubles (a float always; an int when |n| < 2^53) the sum depends
    only on the values, **provided the exact sum of two host ints is a double** (`hsum`; true inside the quantifier |n| < 1e15 — beyond
    2^53 the int spelling keeps the exact sum, see `opAdd_unbounded_not_refines`). -/
theorem opAdd_refines (rnd : Rat → Rat) (a b : PyNum) (ha : rnd a.abs = a.abs) (hb : rnd b.abs = b.abs)
    (hsum : ∀ m n, a = .int m → b = .int n → rnd (((m + n : Int)) : Rat) = ((m + n : Int) : Rat)) :
    (opAddH rnd a b).abs = opAddA rnd a.abs b.abs := by
  cases a <;> cases b <;> simp_all [opAddH, opAddA, toFloatH]

/-- the operator `-` on two numbers. -/
theorem opSub_refines (rnd : Rat → Rat) (a b : PyNum) (ha : rnd a.abs = a.abs) (hb : rnd b.abs = b.abs)
    (hdiff : ∀ m n, a = .int m → b = .int n → rnd (((m - n : Int)) : Rat) = ((m - n : Int) : Rat)) :
    (opSubH rnd a b).abs = opSubA rnd a.abs b.abs := by
  cases a <;> cases b <;> simp_all [opSubH, opSubA, toFloatH]

/-- the operator `/` (true division; `none` = ZeroDivisionError → null): int / int is the correctly rounded exact quotient, which is the
    one-number-type quotient when both ints are doubles. -/
theorem opDiv_refines (rnd : Rat → Rat) (a b : PyNum) (ha : rnd a.abs = a.abs) (hb : rnd b.abs = b.abs) :
    opDivH rnd a b = opDivA rnd a.abs b.abs := by
  cases a <;> cases b <;> simp_all [opDivH, opDivA, toFloatH]


/-- the operator `%` (`none` = ZeroDivisionError → null): int % int is the exact remainder with the sign of the divisor, the float path is
    C `fmod` (exact) plus one rounded sign-adjusting addition; they agree when that adjusted remainder — an integer of magnitude below the
    divisor's — is a double (`hI`; always true inside the quantifier |n| < 1e15). -/
theorem opMod_refines (rnd : Rat → Rat) (a b : PyNum) (ha : rnd a.abs = a.abs) (hb : rnd b.abs = b.abs)
    (hI : ∀ m n, a = .int m → b = .int n → rnd (((Int.tmod m n + n : Int)) : Rat) = ((Int.tmod m n + n : Int) : Rat)) :
    (opModH rnd a b).map PyNum.abs = opModA rnd a.abs b.abs := by
  cases a with
  | float p => cases b <;> simp_all [opModH, opModA, toFloatH] <;> split <;> simp
  | int m =>
    cases b with
    | float q => simp_all [opModH, opModA, toFloatH]; split <;> simp
    | int n =>
      simp only [abs_int] at ha hb
      simp only [opModH, opModA, abs_int, ha, hb]
      by_cases hn : n = 0
      · simp [hn]
      · have hq : ¬ ((n : Rat) = 0) := by exact_mod_cast hn
        simp [hn, hq, floatMod_int rnd m n hn (hI m n rfl rfl)]


/-! ### the `for` loop as lowered by the parser -/

theorem arrayGet_result_abs (values : HVal) (index : PyNum) :
    absV (callH "arrayGet" [values, .num index]).result = (callA "arrayGet" [absV values, .num index.abs]).result := by
  have h := congrArg Out.result (libH_refines_lib "arrayGet" [values, .num index])
  simpa [absOut] using h

theorem lengthCall_abs (values : HVal) : absV (lengthCallH values) = lengthCallA (absV values) := by
  have h := callWith_abs (.num (.int 0)) (some (argModel "_ARRAY_LENGTH_ARGS")) (arrayLengthG PyNum.int)
    (arrayLengthG (fun (n : Int) => (n : Rat))) [values] (fun v _ => arrayLength_ref v)
  have h2 := congrArg Out.result h
  simpa [absOut, lengthCallH, lengthCallA, ofI] using h2

theorem forIter_ref (rnd : Rat → Rat) (one : PyNum) (values length : HVal)
    (hadd : ∀ a : PyNum, (opAddH rnd a one).abs = opAddA rnd a.abs one.abs) :
    ∀ (f : Nat) (index : PyNum),
      (forIterH rnd one values length f index).map absP = forIterA rnd one.abs (absV values) (absV length) f index.abs := by
  intro f
  induction f with
  | zero => intro index; rfl
  | succ f ih =>
    intro index
    simp only [forIterH, forIterA, List.map_cons, absP, absV_num, arrayGet_result_abs, cmp_abs, hadd]
    congr 1
    split
    · exact ih _ ▸ (by rw [hadd])
    · rfl

/-- **T `forLoop_refines_partial`** (partial: `hadd` quantifies over ALL index values, which exact rounding satisfies but IEEE rounding only
    below 2^53 — the full statement for IEEE rounding is `forLoop_visits` / `forLoop_spelling_irrelevant` below, which need the rounding to be
    exact only on 0 … length): the bindings `(index, value)` a `for` loop body sees do not depend on the spelling of the `0` and `1` number
    nodes the parser emits, of the array length (`arrayLength` yields a host int) or of the numbers in the array: the host-level execution
    of the lowered statements (arrayLength, `!length`, arrayGet through the call wrapper, `index + 1`, `index < length`) refines the
    one-number-type execution.  `hadd`: adding the increment is spelling-blind (`opAdd_refines`; immediate for exact rounding). -/
theorem forLoop_refines_partial (rnd : Rat → Rat) (zero one : PyNum) (values : HVal)
    (hadd : ∀ a : PyNum, (opAddH rnd a one).abs = opAddA rnd a.abs one.abs) :
    (forLoopH rnd zero one values).map absP = forLoopA rnd zero.abs one.abs (absV values) := by
  simp only [forLoopH, forLoopA, ← lengthCall_abs, ← truthy_abs]
  split
  · rfl
  · rw [forIter_ref rnd one values _ hadd]
    cases values <;> simp


/-- the argument model of arrayGet as `extract.py` generates it now (the proof breaks, visibly, if library.py changes it) -/
theorem getTable : argModel "_ARRAY_GET_ARGS" =
    [{ name := "array", type := some "array", nullable := false, default := none, lastArgArray := false, integer := false, lt := none, lte := none, gt := none, gte := none },
     { name := "index", type := some "number", nullable := false, default := none, lastArgArray := false, integer := true, lt := none, lte := none, gt := none, gte := some 0 }] := by
  decide +kernel

/-- the argument model of arrayLength -/
theorem lenTable : argModel "_ARRAY_LENGTH_ARGS" =
    [{ name := "array", type := some "array", nullable := false, default := none, lastArgArray := false, integer := false, lt := none, lte := none, gt := none, gte := none }] := by
  decide +kernel

theorem lengthCallA_arr (xs : List AVal) : lengthCallA (.arr xs) = ofI xs.length := by
  simp [lengthCallA, callWith, lenTable, validateA, validate, checkArg, typeOk, typeName, arrayLengthG, list1, req, Val.asArr?, wrap, bind, Except.bind, pure, Except.pure, Option.bind, ofI]

theorem arrayGetA_nat (xs : List AVal) (k : Nat) (hk : k < xs.length) :
    (callA "arrayGet" [.arr xs, .num (k : Rat)]).result = xs[k] := by
  have h0 : ¬ ((k : Rat) < 0) := by
    have : (0 : Rat) ≤ (k : Rat) := by exact_mod_cast Nat.zero_le k
    exact not_lt.mpr this
  have h1 : ratTrunc (k : Rat) = (k : Int) := by
    have := ratTrunc_intCast (k : Int); simpa using this
  have h2 : (k : Rat) < (xs.length : Rat) := by exact_mod_cast hk
  simp [callA, callWith, modelName, bodyA, getTable, validateA, validate, checkArg, typeOk, typeName, numOkA, h0, h1, h2, arrayGetA, list2, req,
    Val.asArr?, Val.asNum?, wrap, bind, Except.bind, pure, Except.pure, Option.bind, geLenA, idxA, normIndex, hk]

theorem valCmp_num (a b : Rat) : valCmp ratCmp (.num a) (.num b) = ratCmp a b := by
  simp [valCmp, Val.size, cmpFuel]

theorem ratCmp_neg (a b : Rat) : (ratCmp a b < 0) ↔ a < b := by
  unfold ratCmp tri
  by_cases h : a < b
  · simp [h]
  · by_cases h2 : a = b <;> simp [h, h2]

/-- what the loop body sees from index `k` on -/
def visits (xs : List AVal) (k f : Nat) : List (AVal × AVal) :=
  (List.range' k f).map (fun (j : Nat) => ((Val.num (j : Rat) : AVal), xs[j]?.getD .null))

theorem forIterA_visits (rnd : Rat → Rat) (xs : List AVal) (hr : ∀ k : Nat, k ≤ xs.length → rnd (k : Rat) = (k : Rat)) :
    ∀ (f k : Nat), k + f = xs.length →
      forIterA rnd 1 (.arr xs) (ofI xs.length) f (k : Rat) = visits xs k f := by
  intro f
  induction f with
  | zero => intro k _; rfl
  | succ f ih =>
    intro k hk
    have hk1 : k < xs.length := by omega
    have e1 : opAddA rnd (k : Rat) 1 = ((k + 1 : Nat) : Rat) := by
      have h1 := hr 1 (by omega)
      have h2 := hr k (by omega)
      have h3 := hr (k + 1) (by omega)
      simp only [Nat.cast_one] at h1
      simp only [opAddA, h1, h2]
      rw [← h3]; push_cast; rfl
    simp only [forIterA, arrayGetA_nat xs k hk1, e1, ofI, valCmp_num, ratCmp_neg, visits, List.range'_succ, List.map_cons,
      List.getElem?_eq_getElem hk1, Option.getD_some]
    congr 1
    by_cases hlt : ((k + 1 : Nat) : Rat) < ((xs.length : Int) : Rat)
    · simp only [hlt, if_true]
      exact ih (k + 1) (by omega)
    · have hf : f = 0 := by
        have : ¬ (k + 1 < xs.length) := by
          intro hc; apply hlt; exact_mod_cast hc
        omega
      subst hf
      simp [hlt, forIterA]

theorem forLoopA_visits (rnd : Rat → Rat) (xs : List AVal) (hr : ∀ k : Nat, k ≤ xs.length → rnd (k : Rat) = (k : Rat)) :
    forLoopA rnd 0 1 (.arr xs) = visits xs 0 xs.length := by
  simp only [forLoopA, lengthCallA_arr]
  cases xs with
  | nil => simp [truthy, ofI, visits]
  | cons x t =>
    have hne : (((((x :: t).length : Nat) : Int) : Rat) != 0) = true := by
      simp only [List.length_cons, bne_iff_ne, ne_eq]
      have : (0 : Rat) < (((t.length + 1 : Nat) : Int) : Rat) := by exact_mod_cast Nat.succ_pos _
      exact ne_of_gt this
    simp only [truthy, ofI, hne, Bool.not_true, Bool.false_eq_true, if_false]
    have := forIterA_visits rnd (x :: t) hr (x :: t).length 0 (by simp)
    simpa [ofI] using this

/-- a host number spelled as the natural number `k` -/
theorem opAdd_nat (rnd : Rat → Rat) (idx one : PyNum) (k n : Nat) (hi : idx.abs = (k : Rat)) (ho : one.abs = 1) (hk : k + 1 ≤ n)
    (hr : ∀ j : Nat, j ≤ n → rnd (j : Rat) = (j : Rat)) : (opAddH rnd idx one).abs = opAddA rnd (k : Rat) 1 := by
  have h1 := hr 1 (by omega)
  simp only [Nat.cast_one] at h1
  have h := opAdd_refines rnd idx one (by rw [hi]; exact hr k (by omega)) (by rw [ho]; exact h1) ?_
  · rw [h, hi, ho]
  · intro m n' hm hn
    subst hm hn
    simp only [abs_int] at hi ho
    have hm : m = (k : Int) := by exact_mod_cast hi
    have hn : n' = 1 := by exact_mod_cast ho
    subst hm hn
    have := hr (k + 1) hk
    push_cast at this ⊢
    exact this

theorem forIterH_visits (rnd : Rat → Rat) (one : PyNum) (ho : one.abs = 1) (xs : List HVal)
    (hr : ∀ k : Nat, k ≤ xs.length → rnd (k : Rat) = (k : Rat)) :
    ∀ (f k : Nat) (idx : PyNum), idx.abs = (k : Rat) → k + f = xs.length →
      (forIterH rnd one (.arr xs) (.num (.int xs.length)) f idx).map absP = visits (xs.map absV) k f := by
  intro f
  induction f with
  | zero => intro k idx _ _; rfl
  | succ f ih =>
    intro k idx hi hk
    have hk1 : k < (xs.map absV).length := by simp only [List.length_map]; omega
    have e1 := opAdd_nat rnd idx one k xs.length hi ho (by omega) hr
    have e2 : opAddA rnd (k : Rat) 1 = ((k + 1 : Nat) : Rat) := by
      have h1 := hr 1 (by omega)
      have h2 := hr k (by omega)
      have h3 := hr (k + 1) (by omega)
      simp only [Nat.cast_one] at h1
      simp only [opAddA, h1, h2]
      rw [← h3]; push_cast; rfl
    rw [e2] at e1
    simp only [forIterH, List.map_cons, absP, absV_num, arrayGet_result_abs, cmp_abs, absV_arr, hi, e1, abs_int, valCmp_num,
      ratCmp_neg, arrayGetA_nat _ k hk1, visits, List.range'_succ, List.getElem?_eq_getElem hk1, Option.getD_some]
    congr 1
    by_cases hlt : ((k + 1 : Nat) : Rat) < ((xs.length : Int) : Rat)
    · simp only [hlt, if_true]
      exact ih (k + 1) _ e1 (by omega)
    · have hf : f = 0 := by
        have : ¬ (k + 1 < xs.length) := by
          intro hc; apply hlt; exact_mod_cast hc
        omega
      subst hf
      simp only [hlt, if_false, List.map_nil, List.range'_zero]

theorem lengthCallH_arr (xs : List HVal) : lengthCallH (.arr xs) = .num (.int xs.length) := by
  simp [lengthCallH, callWith, lenTable, validateH, validate, checkArg, typeOk, typeName, arrayLengthG, list1, req, Val.asArr?, wrap,
    bind, Except.bind, pure, Except.pure, Option.bind]

/-- for a non-array `arrayLength` fails (failure value 0, or null for the unpacking failure): `!length` is true -/
theorem lengthCallH_other : ∀ (v : HVal), (∀ xs, v ≠ .arr xs) → truthy pyNonzero (lengthCallH v) = false
  | .arr xs, h => absurd rfl (h xs)
  | .null, _ => by simp [lengthCallH, callWith, lenTable, validateH, validate, checkArg, typeOk, typeName, truthy, pyNonzero]
  | .bool _, _ => by simp [lengthCallH, callWith, lenTable, validateH, validate, checkArg, typeOk, typeName, truthy, pyNonzero]
  | .num _, _ => by simp [lengthCallH, callWith, lenTable, validateH, validate, checkArg, typeOk, typeName, truthy, pyNonzero]
  | .str _, _ => by simp [lengthCallH, callWith, lenTable, validateH, validate, checkArg, typeOk, typeName, truthy, pyNonzero]
  | .obj _, _ => by simp [lengthCallH, callWith, lenTable, validateH, validate, checkArg, typeOk, typeName, truthy, pyNonzero]
  | .opaque k i, _ => by
    by_cases hk : k = "array"
    · subst hk
      simp [lengthCallH, callWith, lenTable, validateH, validate, checkArg, typeOk, typeName, truthy, pyNonzero, arrayLengthG, list1, req,
        Val.asArr?, wrap, bind, Except.bind, Option.bind]
    · simp [lengthCallH, callWith, lenTable, validateH, validate, checkArg, typeOk, typeName, truthy, pyNonzero, hk]

theorem forLoopH_other (rnd : Rat → Rat) (zero one : PyNum) (v : HVal) (h : ∀ xs, v ≠ .arr xs) : forLoopH rnd zero one v = [] := by
  simp [forLoopH, lengthCallH_other v h]

/-- what a `for` loop over `values` shows its body: every element once, in order, with its index; nothing for a non-array -/
def visitsAll : AVal → List (AVal × AVal)
  | .arr xs => visits xs 0 xs.length
  | _ => []

def arrLenA : AVal → Nat
  | .arr xs => xs.length
  | _ => 0

/-- **T `forLoop_visits`**: the lowered `for` loop, executed at host level with the `0` / `1` number nodes in either spelling (host ints
    from the parser, floats from a JSON-loaded script model) over an array whose numbers have any spelling, binds `(k, values[k])` for
    `k = 0 … len-1` in order — and nothing when `values` is not an array (arrayLength's failure value 0) — provided the naturals up to
    the array length are doubles (`hr`; true of IEEE rounding for every array that fits in memory). -/
theorem forLoop_visits (rnd : Rat → Rat) (zero one : PyNum) (values : HVal) (hz : zero.abs = 0) (ho : one.abs = 1)
    (hr : ∀ k : Nat, k ≤ arrLenA (absV values) → rnd (k : Rat) = (k : Rat)) :
    (forLoopH rnd zero one values).map absP = visitsAll (absV values) := by
  cases values with
  | arr xs =>
    simp only [absV_arr, arrLenA, List.length_map] at hr
    simp only [forLoopH, lengthCallH_arr, absV_arr, visitsAll, List.length_map]
    cases xs with
    | nil => simp [truthy, pyNonzero, visits]
    | cons x t =>
      have hne : (truthy pyNonzero (Val.num (PyNum.int ((x :: t).length : Nat)) : HVal)) = true := by
        simp only [truthy, pyNonzero, List.length_cons, bne_iff_ne, ne_eq]
        omega
      simp only [hne, Bool.not_true, Bool.false_eq_true, if_false]
      exact forIterH_visits rnd one ho (x :: t) hr (x :: t).length 0 zero (by simpa using hz) (by simp)
  | _ => rw [forLoopH_other _ _ _ _ (by intro xs h; cases h)]; simp [visitsAll]

/-- **T `forLoop_spelling_irrelevant`**: the bindings a `for` loop body sees do not depend on the spelling of the loop's `0` and `1`
    nodes nor on the spelling of the numbers in the iterated value. -/
theorem forLoop_spelling_irrelevant (rnd : Rat → Rat) (zero zero' one one' : PyNum) (values values' : HVal)
    (hz : zero.abs = 0) (hz' : zero'.abs = 0) (ho : one.abs = 1) (ho' : one'.abs = 1) (hv : absV values = absV values')
    (hr : ∀ k : Nat, k ≤ arrLenA (absV values) → rnd (k : Rat) = (k : Rat)) :
    (forLoopH rnd zero one values).map absP = (forLoopH rnd zero' one' values').map absP := by
  rw [forLoop_visits rnd zero one values hz ho hr, forLoop_visits rnd zero' one' values' hz' ho' (hv ▸ hr), hv]

/-! ### the theorems exclude realistic refactorings -/

/-- `jsonStringify` without the `int(indent)`: a float indent makes `' ' * indent` a TypeError, the call evaluates to null. -/
theorem jsonStringifyNoInt_not_refines (E : Env) :
    ∃ v : List HVal, absB (jsonStringifyNoIntH E v) ≠ jsonStringifyA E (v.map absV) := by
  refine ⟨[.null, .num (.float 2)], ?_⟩
  have h02 : (0 : Rat) < 2 := by decide
  simp [absB, jsonStringifyNoIntH, jsonStringifyA, list2, req, Val.asOptNum?, bind, Except.bind, jsonH, hostE, h02, absE, absFail,
    pure, Except.pure]

/-- did the body produce a value? -/
def isOkR : Except (Fail Rat) (BodyR Rat) → Bool
  | .ok _ => true
  | .error _ => false

/-- `datetimeNew` without the final `int()` conversions: float fields make `datetime.datetime(...)` a TypeError. -/
theorem datetimeNewNoInt_not_refines :
    ∃ v : List HVal, absB (datetimeNewNoIntH v) ≠ datetimeNewA (v.map absV) := by
  refine ⟨[.num (.float 2020), .num (.float 1), .num (.float 1), .num (.float 0), .num (.float 0), .num (.float 0), .num (.float 0)], ?_⟩
  intro h
  have h2 := congrArg isOkR h
  revert h2
  decide +kernel

/-- `+` on two host ints whose exact sum is not a double does not refine the one-number-type sum (the reason for `hsum`): with a rounding
    function that moves 6 (standing for an integer above 2^53) the int spelling keeps 6, the one-number-type sum is the rounded 8. -/
theorem opAdd_unbounded_not_refines : ∃ (rnd : Rat → Rat) (a b : Int), (∀ q, rnd (rnd q) = rnd q) ∧
    rnd (a : Rat) = (a : Rat) ∧ rnd (b : Rat) = (b : Rat) ∧ (opAddH rnd (.int a) (.int b)).abs ≠ opAddA rnd a b := by
  refine ⟨fun q => if q = 6 then 8 else q, 2, 4, ?_, ?_, ?_, ?_⟩
  · intro q
    by_cases h : q = 6
    · simp only [h, if_true]; decide +kernel
    · simp [h]
  · decide +kernel
  · decide +kernel
  · simp only [opAddH, opAddA, abs_int]; decide +kernel


/-! ### non-vacuity: concrete instances -/

/-- a concrete environment: exact arithmetic, integral floats print like ints -/
def E0 : Env where
  rnd := id
  floatText := fun q => if q.den = 1 then intText q.num else "?"
  jsonText := fun _ i => match i with | some _ => "indented" | none => "compact"
  fixedText := fun _ d => intText d
  opaqueText := fun k _ => k
  cleanup := id

/-- the hypotheses on the abstract host functions are satisfiable -/
theorem sane_E0 : Sane E0 := ⟨fun _ => rfl, fun _ => rfl, fun _ _ => rfl, fun _ _ => rfl, fun n _ => by simp [E0]⟩

/-- jsonStringify with a float indent (a script literal) is indented, exactly like the int -/
example : (match callH2 E0 "jsonStringify" [.obj [("a", .num (.int 1))], .num (.float 2)] with
    | ⟨.str "indented", _⟩ => true
    | _ => false) = true := by decide +kernel

/-- a non-integral indent is rejected by validation (failure value null) -/
example : (match callH2 E0 "jsonStringify" [.obj [("a", .num (.int 1))], .num (.float (3 / 2))] with
    | ⟨.null, _⟩ => true
    | _ => false) = true := by decide +kernel

/-- datetimeNew with mixed spellings and every carry active: 2020-13-32 25:61:61.1001 is 2021-02-02 02:02:02.001 -/
example : (match callH2 E0 "datetimeNew" [.num (.float 2020), .num (.int 13), .num (.float 32), .num (.int 25), .num (.float 61),
      .num (.int 61), .num (.float 1001)] with
    | ⟨.opaque "datetime" 63747828122001, _⟩ => true
    | _ => false) = true := by decide +kernel

/-- arrayPush mutates its first argument and collects the rest, whatever the spellings -/
example : (match callH2 E0 "arrayPush" [.arr [.num (.int 1)], .num (.float 2), .str "x"] with
    | ⟨.arr [.num (.int 1), .num (.float 2), .str "x"], [.arr [.num (.int 1), .num (.float 2), .str "x"], _, _]⟩ => true
    | _ => false) = true := by decide +kernel

/-- `libH2_refines_lib_exact` / `spelling_irrelevant2_exact`: the hypotheses are inhabited by a non-trivial pair (numbers at depth 2) -/
example : absOut (callH2 E0 "mathMax" [.arr [.num (.int 1), .arr [.num (.float 2)]], .num (.float 0)])
    = absOut (callH2 E0 "mathMax" [.arr [.num (.float 1), .arr [.num (.int 2)]], .num (.int 0)]) :=
  spelling_irrelevant2_exact E0 "mathMax" (by decide) _ _ (by simp [abs_int, abs_float])

/-- `libH2_refines_lib` on `mathRound(1.25, 1.0)`: the precondition holds of the validated argument list -/
example : absOut (callH2 E0 "mathRound" [.num (.float (5 / 4)), .num (.float 1)])
    = callA2 E0 "mathRound" ([.num (.float (5 / 4)), .num (.float 1)].map absV) := by
  refine libH2_refines_lib E0 sane_E0 "mathRound" _ ?_
  intro v hv
  have hval : validated2 "mathRound" [.num (.float (5 / 4)), .num (.float 1)] = some [.num (.float (5 / 4)), .num (.float 1)] := by
    rfl
  rw [hval] at hv
  cases hv
  intro a d x dg h1 h2 h3
  simp only [list2, Option.some.injEq, Prod.mk.injEq] at h1
  obtain ⟨rfl, rfl⟩ := h1
  simp only [Val.asNum?, Option.some.injEq] at h2 h3
  subst h2 h3
  exact ⟨rfl, by decide +kernel⟩

/-- `libH2_refines_lib` on `arrayJoin`: host ints below 1e15 -/
example : absOut (callH2 E0 "arrayJoin" [.arr [.num (.float 5), .num (.int 5), .null], .str "-"])
    = callA2 E0 "arrayJoin" ([.arr [.num (.float 5), .num (.int 5), .null], .str "-"].map absV) := by
  refine libH2_refines_lib E0 sane_E0 "arrayJoin" _ ?_
  intro v hv
  have hval : validated2 "arrayJoin" [.arr [.num (.float 5), .num (.int 5), .null], .str "-"]
      = some [.arr [.num (.float 5), .num (.int 5), .null], .str "-"] := by rfl
  rw [hval] at hv
  cases hv
  intro a s xs h1 h2 x hx
  simp only [list2, Option.some.injEq, Prod.mk.injEq] at h1
  obtain ⟨rfl, rfl⟩ := h1
  simp only [Val.asArr?, Option.some.injEq] at h2
  subst h2
  simp only [List.mem_cons, List.not_mem_nil, or_false] at hx
  rcases hx with rfl | rfl | rfl
  · trivial
  · show smallInt 5; decide
  · trivial

/-- `datetimeNew_int_tuple`: mixed spellings of 2020-13-32 25:61:61.1001 -/
example : absB (datetimeNewH [.num (.float 2020), .num (.int 13), .num (.float 32), .num (.int 25), .num (.float 61), .num (.int 61),
      .num (.float 1001)]) = ofCore (Datetime.datetimeNewCore 2020 13 32 25 61 61 1001) :=
  datetimeNew_int_tuple _ 2020 13 32 25 61 61 1001 (by simp [ofI, abs_int, abs_float])

/-- the operator hypotheses are inhabited: `2 + 0.5` under exact rounding -/
example : (opAddH id (.int 2) (.float (1 / 2))).abs = opAddA id 2 (1 / 2) :=
  opAdd_refines id (.int 2) (.float (1 / 2)) rfl rfl (fun _ _ _ h => by cases h)

/-- `-7 % 3` is 2 in both spellings -/
example : (opModH id (.int (-7)) (.int 3)).map PyNum.abs = opModA id (-7) 3 :=
  opMod_refines id (.int (-7)) (.int 3) rfl rfl (fun _ _ _ _ => rfl)

/-- the for loop with a float `0` node and an int `1` node visits both elements -/
example : (match forLoopH id (.float 0) (.int 1) (.arr [.str "a", .str "b"]) with
    | [(.num (.float 0), .str "a"), (.num (.float 1), .str "b")] => true
    | _ => false) = true := by decide +kernel

example : (forLoopH id (.float 0) (.int 1) (.arr [.str "a", .str "b"])).map absP
    = forLoopA id 0 1 (absV (.arr [.str "a", .str "b"])) :=
  forLoop_refines_partial id (.float 0) (.int 1) _ (fun a => opAdd_refines id a (.int 1) rfl rfl (fun _ _ _ _ => rfl))


/-- `forLoop_visits` / `forLoop_spelling_irrelevant`: a rounding function that is exact on 0..3 only (it moves everything else to 0) is enough
    for a 2-element array -/
example : (forLoopH (fun q => if q = 0 ∨ q = 1 ∨ q = 2 ∨ q = 3 then q else 0) (.float 0) (.int 1) (.arr [.num (.int 7), .str "b"])).map absP
    = (forLoopH (fun q => if q = 0 ∨ q = 1 ∨ q = 2 ∨ q = 3 then q else 0) (.int 0) (.float 1) (.arr [.num (.float 7), .str "b"])).map absP :=
  forLoop_spelling_irrelevant _ _ _ _ _ _ _ rfl rfl rfl rfl (by simp [abs_int, abs_float]) (by
    intro k hk
    simp only [absV_arr, arrLenA, List.length_map, List.length_cons, List.length_nil] at hk
    have : k = 0 ∨ k = 1 ∨ k = 2 := by omega
    rcases this with rfl | rfl | rfl <;> simp)

end C12More
