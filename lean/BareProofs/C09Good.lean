import BareModel.MachineSpec
open Machine
namespace C09
variable {W : Type}

/-! ## observable-effect preorder on worlds -/

/-- a preorder "the effects of `w'` extend those of `w`" on the abstract world -/
structure Ext (W : Type) where
  le : W → W → Prop
  refl : ∀ w, le w w
  trans : ∀ {a b c}, le a b → le b c → le a c

/-- the trivial preorder (used when only the counter matters) -/
def Ext.triv (W : Type) : Ext W := ⟨fun _ _ => True, fun _ => trivial, fun _ _ => trivial⟩

/-- every world a library interaction tree mentions extends the world it was started in -/
inductive TreeExt (E : Ext W) : W → LibTree W → Prop where
  | ret {w0 w out} : E.le w0 w → TreeExt E w0 (.ret out w)
  | call {w0 w f args k} : E.le w0 w → (∀ v w1, E.le w w1 → TreeExt E w1 (k v w1)) → TreeExt E w0 (.call f args w k)
  | globalGet {w0 w n k} : E.le w0 w → (∀ v, TreeExt E w (k v w)) → TreeExt E w0 (.globalGet n w k)
  | globalSet {w0 w n v k} : E.le w0 w → TreeExt E w (k w) → TreeExt E w0 (.globalSet n v w k)

/-- host law: no host operation loses observable effects -/
structure HostExt (E : Ext W) (host : Host W) : Prop where
  lib : ∀ name args w, TreeExt E w (host.lib name args w)
  other : ∀ k args w, TreeExt E w (host.other k args w)
  notCallable : ∀ v w, E.le w (host.notCallable v w)
  logFailure : ∀ w, E.le w (host.logFailure w)
  newArray : ∀ xs w, E.le w (host.newArray xs w).2

theorem treeExt_triv : ∀ (w0 : W) (t : LibTree W), TreeExt (Ext.triv W) w0 t
  | _, .ret _ _ => .ret trivial
  | _, .call _ _ _ k => .call trivial fun v w1 _ => treeExt_triv w1 (k v w1)
  | _, .globalGet _ w k => .globalGet trivial fun v => treeExt_triv w (k v w)
  | _, .globalSet _ _ w k => .globalSet trivial (treeExt_triv w (k w))

theorem hostExt_triv (host : Host W) : HostExt (Ext.triv W) host :=
  ⟨fun _ _ w => treeExt_triv w _, fun _ _ w => treeExt_triv w _, fun _ _ => trivial, fun _ => trivial, fun _ _ => trivial⟩

/-! ## the unary invariant: progress of counter and world, and the bound under a positive limit -/

/-- the counter is within the budget `L` (`L = 0`: unlimited) -/
def Pre (L : Nat) (st : State W) : Prop := 0 < L → st.count ≤ L

/-- the counter did not decrease and the world was only extended -/
def Step (E : Ext W) (s s' : State W) : Prop := s.count ≤ s'.count ∧ E.le s.world s'.world

theorem Step.refl (E : Ext W) (s : State W) : Step E s s := ⟨Nat.le_refl _, E.refl _⟩
theorem Step.trans {E : Ext W} {a b c : State W} (h1 : Step E a b) (h2 : Step E b c) : Step E a c :=
  ⟨Nat.le_trans h1.1 h2.1, E.trans h1.2 h2.2⟩

/-- an error state: the budget error is raised with the counter at exactly `L + 1`; any other error within the budget -/
def ErrOk (L : Nat) (e : RtErr) (s' : State W) : Prop :=
  match e with
  | .exceeded m => 0 < L ∧ m = L ∧ s'.count = L + 1
  | _ => Pre L s'

/-- final view of an outcome: what the invariants talk about -/
inductive Fin (W : Type) where
  | ok (st : State W)
  | err (e : RtErr) (st : State W)
  | oof

def _root_.Machine.Out.fin : Out W → Fin W
  | .ok _ st => .ok st
  | .err e st => .err e st
  | .oof => .oof

def _root_.Machine.ArgsOut.fin : ArgsOut W → Fin W
  | .ok _ st => .ok st
  | .err e st => .err e st
  | .oof => .oof

def _root_.Machine.Res.fin : Res W → Fin W
  | .done st => .ok st
  | .ret _ st => .ok st
  | .err e st => .err e st
  | .oof => .oof

def Good (E : Ext W) (L : Nat) (st : State W) : Fin W → Prop
  | .ok s' => Step E st s' ∧ (Pre L st → Pre L s')
  | .err e s' => Step E st s' ∧ (Pre L st → ErrOk L e s')
  | .oof => True

theorem Good.trans {E : Ext W} {L : Nat} {st s1 : State W} {o : Fin W}
    (h1 : Good E L st (.ok s1)) (h2 : Good E L s1 o) : Good E L st o := by
  cases o with
  | ok s' => exact ⟨h1.1.trans h2.1, fun h => h2.2 (h1.2 h)⟩
  | err e s' => exact ⟨h1.1.trans h2.1, fun h => h2.2 (h1.2 h)⟩
  | oof => trivial

theorem Good.refl (E : Ext W) (L : Nat) (st : State W) : Good E L st (.ok st) := ⟨Step.refl E st, id⟩

/-- an error raised without touching the state, other than the budget error -/
theorem Good.errHere (E : Ext W) (L : Nat) (st : State W) (e : RtErr) (h : ∀ m, e ≠ .exceeded m) :
    Good E L st (.err e st) := by
  refine ⟨Step.refl E st, fun hp => ?_⟩
  cases e <;> first | exact hp | exact absurd rfl (h _)

def CallGood (E : Ext W) (L : Nat) (call : CallFn W) : Prop := ∀ f a s, Good E L s (call f a s).fin

section Eval
set_option linter.unusedSectionVars false
variable (E : Ext W) (L : Nat) (cfg : Config W) (call : CallFn W) (hc : CallGood E L call) (locals : Option Env)
include hc

mutual
theorem evalExpr_good : ∀ (e : Expr) (st : State W), Good E L st (evalExpr cfg call locals e st).fin
  | .number q, st => by simp only [evalExpr, Out.fin]; exact Good.refl ..
  | .string s, st => by simp only [evalExpr, Out.fin]; exact Good.refl ..
  | .variable n, st => by
      simp only [evalExpr]
      repeat' split
      all_goals exact Good.refl ..
  | .function n args, st => by
      simp only [evalExpr]
      split
      · exact evalIf_good args st
      · have ih := evalArgs_good args st
        generalize evalArgs cfg call locals args st = r at ih
        cases r with
        | ok vs st1 =>
          simp only
          split
          · exact ih.trans (Good.errHere E L st1 _ (by intro m h; cases h))
          · exact ih.trans (hc _ _ _)
          · exact ih.trans (Good.errHere E L st1 _ (by intro m h; cases h))
        | err e st1 => exact ih
        | oof => exact ih
  | .binary op l r, st => by
      have ih1 := evalExpr_good l st
      cases op <;> simp only [evalExpr] <;> generalize evalExpr cfg call locals l st = r1 at ih1 <;>
        cases r1 with
        | err e st1 => exact ih1
        | oof => exact ih1
        | ok lv st1 =>
          simp only
          have ih2 := evalExpr_good r st1
          first
          | (split
             · exact ih1.trans ih2
             · exact ih1)
          | (split
             · exact ih1
             · exact ih1.trans ih2)
          | (generalize evalExpr cfg call locals r st1 = r2 at ih2
             cases r2 with
             | err e st2 => exact ih1.trans ih2
             | oof => exact ih1.trans ih2
             | ok rv st2 => exact ih1.trans ih2)
  | .unary op e, st => by
      have ih := evalExpr_good e st
      cases op <;> simp only [evalExpr] <;> generalize evalExpr cfg call locals e st = r at ih <;>
        cases r <;> exact ih
  | .group e, st => by simp only [evalExpr]; exact evalExpr_good e st

theorem evalArgs_good : ∀ (es : List Expr) (st : State W), Good E L st (evalArgs cfg call locals es st).fin
  | [], st => by simp only [evalArgs, ArgsOut.fin]; exact Good.refl ..
  | a :: as, st => by
      simp only [evalArgs]
      have ih1 := evalExpr_good a st
      generalize evalExpr cfg call locals a st = r1 at ih1
      cases r1 with
      | err e st1 => exact ih1
      | oof => exact ih1
      | ok v st1 =>
        simp only
        have ih2 := evalArgs_good as st1
        generalize evalArgs cfg call locals as st1 = r2 at ih2
        cases r2 <;> exact ih1.trans ih2

theorem evalIf_good : ∀ (es : List Expr) (st : State W), Good E L st (evalIf cfg call locals es st).fin
  | [], st => by simp only [evalIf, Out.fin]; exact Good.refl ..
  | [c], st => by
      simp only [evalIf]
      have ih1 := evalExpr_good c st
      generalize evalExpr cfg call locals c st = r1 at ih1
      cases r1 <;> exact ih1
  | [c, t], st => by
      simp only [evalIf]
      have ih1 := evalExpr_good c st
      generalize evalExpr cfg call locals c st = r1 at ih1
      cases r1 with
      | err e st1 => exact ih1
      | oof => exact ih1
      | ok v st1 =>
        simp only
        split
        · exact ih1.trans (evalExpr_good t st1)
        · exact ih1
  | c :: t :: f :: _, st => by
      simp only [evalIf]
      have ih1 := evalExpr_good c st
      generalize evalExpr cfg call locals c st = r1 at ih1
      cases r1 with
      | err e st1 => exact ih1
      | oof => exact ih1
      | ok v st1 =>
        simp only
        split
        · exact ih1.trans (evalExpr_good t st1)
        · exact ih1.trans (evalExpr_good f st1)
end

/-- library interaction trees: call-backs go through `call`; the tree itself cannot touch the counter -/
theorem runTree_good (hlf : ∀ w, E.le w (cfg.host.logFailure w)) :
    ∀ (t : LibTree W) (st : State W), TreeExt E st.world t → Good E L st (runTree cfg call t st).fin
  | .ret (.ok v) w, st, h => by
      cases h with | ret hw => simp only [runTree, Out.fin]; exact ⟨⟨Nat.le_refl _, hw⟩, id⟩
  | .ret (.fail v) w, st, h => by
      cases h with | ret hw =>
      simp only [runTree, Out.fin]
      refine ⟨⟨Nat.le_refl _, ?_⟩, id⟩
      split
      · exact E.trans hw (hlf w)
      · exact hw
  | .ret (.rt msg) w, st, h => by
      cases h with | ret hw => simp only [runTree, Out.fin]; exact ⟨⟨Nat.le_refl _, hw⟩, id⟩
  | .call f args w k, st, h => by
      cases h with | call hw hk =>
      simp only [runTree]
      have h0 : Good E L st (.ok { st with world := w }) := ⟨⟨Nat.le_refl _, hw⟩, id⟩
      have h1 := hc f args { st with world := w }
      generalize call f args { st with world := w } = r at h1
      cases r with
      | err e st1 => exact h0.trans h1
      | oof => trivial
      | ok v st1 =>
        simp only
        exact (h0.trans h1).trans (runTree_good hlf (k v st1.world) st1 (hk v st1.world h1.1.2))
  | .globalGet n w k, st, h => by
      cases h with | globalGet hw hk =>
      simp only [runTree]
      have h0 : Good E L st (.ok { st with world := w }) := ⟨⟨Nat.le_refl _, hw⟩, id⟩
      exact h0.trans (runTree_good hlf (k (st.globals.get? n) w) { st with world := w } (hk _))
  | .globalSet n v w k, st, h => by
      cases h with | globalSet hw hk =>
      simp only [runTree]
      have h0 : Good E L st (.ok { st with globals := st.globals.set n v, world := w }) := ⟨⟨Nat.le_refl _, hw⟩, id⟩
      exact h0.trans (runTree_good hlf (k w) { st with globals := st.globals.set n v, world := w } hk)
end Eval

theorem bindArgs_ext (E : Ext W) (host : Host W) (hna : ∀ xs w, E.le w (host.newArray xs w).2) (laa : Bool) :
    ∀ (ps : List Name) (as : List Value) (env : Env) (w : W), E.le w (bindArgs host laa ps as env w).2
  | [], _, _, w => by simp only [bindArgs]; exact E.refl w
  | [p], as, env, w => by
      simp only [bindArgs]
      split
      · exact hna as w
      · exact E.refl w
  | p :: q :: ps, as, env, w => by
      simp only [bindArgs]
      exact bindArgs_ext E host hna laa (q :: ps) as.tail _ w

/-! ## the machine: counter progress and bound, for every fuel -/

def GoodM (E : Ext W) (cfg : Config W) (fuel : Nat) : Prop :=
  CallGood E cfg.maxStatements (callValue₀ cfg fuel) ∧
  (∀ P locals base pc st, Good E cfg.maxStatements st (execM₀ cfg fuel P locals base pc st).fin) ∧
  (∀ base incs st, Good E cfg.maxStatements st (execIncludes₀ cfg fuel base incs st).fin)

theorem Good.sameCW {E : Ext W} {L : Nat} {s s' : State W} (hcnt : s'.count = s.count) (hw : s'.world = s.world) :
    Good E L s (.ok s') := by
  refine ⟨⟨by omega, by rw [hw]; exact E.refl _⟩, ?_⟩
  intro hp h0; have := hp h0; omega

/-- one statement that starts within the budget: everything that follows progresses from the *ticked* state -/
theorem execM₀_step_good (E : Ext W) (cfg : Config W) (fuel : Nat) (ih : GoodM E cfg fuel) (P : List Stmt)
    (locals : Option Env) (base : Option String) (pc : Nat) (st : State W) (s : Stmt) (hs : P[pc]? = some s)
    (hb : ¬ ((decide (cfg.maxStatements > 0) && decide (st.count + 1 > cfg.maxStatements)) = true)) :
    Good E cfg.maxStatements { st with count := st.count + 1 } (execM₀ cfg (fuel+1) P locals base pc st).fin := by
  obtain ⟨ihC, ihE, ihI⟩ := ih
  rw [execM₀.eq_1, hs]
  simp only
  rw [if_neg hb]
  cases s with
    | expr name e =>
      simp only
      have h1 := evalExpr_good E _ cfg _ ihC locals e { st with count := st.count + 1 }
      generalize evalExpr cfg _ locals e _ = r at h1
      cases r with
      | err e st2 => exact h1
      | oof => trivial
      | ok v st2 =>
        cases name <;> cases locals <;> simp only
        · exact h1.trans (ihE ..)
        · exact h1.trans (ihE ..)
        · exact ((h1).trans (Good.sameCW (s' := { st2 with globals := _ }) rfl rfl)).trans (ihE ..)
        · exact h1.trans (ihE ..)
    | jump l c =>
      cases c with
      | none =>
        simp only
        cases findLabel P l with
        | none => exact Good.errHere E _ _ _ (by intro m h; cases h)
        | some i => exact ihE ..
      | some c =>
        simp only
        have h1 := evalExpr_good E _ cfg _ ihC locals c { st with count := st.count + 1 }
        generalize evalExpr cfg _ locals c _ = r at h1
        cases r with
        | err e st2 => exact h1
        | oof => trivial
        | ok v st2 =>
          simp only
          split
          · cases findLabel P l with
            | none => exact h1.trans (Good.errHere E _ _ _ (by intro m h; cases h))
            | some i => exact h1.trans (ihE ..)
          · exact h1.trans (ihE ..)
    | ret e =>
      cases e with
      | none => exact Good.refl ..
      | some e =>
        simp only
        have h1 := evalExpr_good E _ cfg _ ihC locals e { st with count := st.count + 1 }
        generalize evalExpr cfg _ locals e _ = r at h1
        cases r <;> exact h1
    | label l => exact ihE ..
    | function fid name args laa isAsync body =>
      exact ((Good.sameCW (s' := { globals := _, world := st.world, count := st.count + 1 }) rfl rfl)).trans (ihE ..)
    | «include» incs =>
      simp only
      have h1 := ihI base incs { st with count := st.count + 1 }
      generalize execIncludes₀ cfg fuel base incs _ = r at h1
      cases r with
      | done st2 => exact h1.trans (ihE ..)
      | ret v st2 => exact h1
      | err e st2 => exact h1
      | oof => trivial

theorem goodM (E : Ext W) (cfg : Config W) (hE : HostExt E cfg.host) : ∀ fuel, GoodM E cfg fuel
  | 0 => by
    refine ⟨?_, ?_, ?_⟩
    · intro f a s; rw [callValue₀.eq_1]; trivial
    · intro P locals base pc st
      rw [execM₀.eq_1]
      cases P[pc]? with
      | none => exact Good.refl ..
      | some s => trivial
    · intro base incs st
      cases incs with
      | nil => rw [execIncludes₀.eq_1]; exact Good.refl ..
      | cons i r =>
        rw [execIncludes₀.eq_2]
        cases cfg.fetch (cfg.resolve base i) with
        | missing => exact Good.errHere E _ st _ (by intro m h; cases h)
        | broken => exact Good.errHere E _ st _ (by intro m h; cases h)
        | script ss => trivial
  | fuel+1 => by
    obtain ⟨ihC, ihE, ihI⟩ := goodM E cfg hE fuel
    refine ⟨?_, ?_, ?_⟩
    · intro f a s
      rw [callValue₀.eq_def]
      simp only
      split
      · split
        · next fd _ =>
          have hw := bindArgs_ext E cfg.host hE.newArray fd.lastArgArray fd.args a [] s.world
          generalize bindArgs cfg.host fd.lastArgArray fd.args a [] s.world = bw at hw
          obtain ⟨loc, w1⟩ := bw
          simp only at hw ⊢
          have h0 : Good E cfg.maxStatements s (.ok { s with world := w1 }) := ⟨⟨Nat.le_refl _, hw⟩, id⟩
          have h1 := ihE fd.body (some loc) none 0 { s with world := w1 }
          generalize execM₀ cfg fuel fd.body (some loc) none 0 { s with world := w1 } = r at h1
          cases r <;> exact h0.trans h1
        · exact ⟨⟨Nat.le_refl _, hE.notCallable _ _⟩, id⟩
      · exact runTree_good E _ cfg _ ihC hE.logFailure _ s (hE.lib _ _ _)
      · exact runTree_good E _ cfg _ ihC hE.logFailure _ s (hE.other _ _ _)
      · exact ⟨⟨Nat.le_refl _, hE.notCallable _ _⟩, id⟩
    · intro P locals base pc st
      cases hs : P[pc]? with
      | none => rw [execM₀.eq_1, hs]; exact Good.refl ..
      | some s =>
        by_cases hb : (decide (cfg.maxStatements > 0) && decide (st.count + 1 > cfg.maxStatements)) = true
        · rw [execM₀.eq_1, hs]
          simp only
          rw [if_pos hb]
          simp only [Bool.and_eq_true, decide_eq_true_eq] at hb
          refine ⟨⟨Nat.le_succ _, E.refl _⟩, fun hp => ?_⟩
          have := hp hb.1
          exact ⟨hb.1, rfl, by simp only; omega⟩
        · have h0 : Good E cfg.maxStatements st (.ok { st with count := st.count + 1 }) := by
            simp only [Bool.and_eq_true, decide_eq_true_eq] at hb
            refine ⟨⟨Nat.le_succ _, E.refl _⟩, fun _ h0 => ?_⟩
            simp only; omega
          exact h0.trans (execM₀_step_good E cfg fuel ⟨ihC, ihE, ihI⟩ P locals base pc st s hs hb)
    · intro base incs st
      cases incs with
      | nil => rw [execIncludes₀.eq_1]; exact Good.refl ..
      | cons i r =>
        rw [execIncludes₀.eq_2]
        simp only
        cases cfg.fetch (cfg.resolve base i) with
        | missing => exact Good.errHere E _ st _ (by intro m h; cases h)
        | broken => exact Good.errHere E _ st _ (by intro m h; cases h)
        | script ss =>
          simp only
          have h1 := ihE ss none (some (cfg.resolve base i)) 0 st
          generalize execM₀ cfg fuel ss none _ 0 st = r at h1
          cases r with
          | done st2 => exact h1.trans (ihI ..)
          | ret v st2 => exact h1.trans (ihI ..)
          | err e st2 => exact h1
          | oof => trivial

/-- a statement that starts within the budget: the final state is reached from the *ticked* state (so the counter
strictly increases over a started statement), for every fuel -/
theorem execM₀_tick_good (E : Ext W) (cfg : Config W) (hE : HostExt E cfg.host) (fuel : Nat) (P : List Stmt)
    (locals : Option Env) (base : Option String) (pc : Nat) (st : State W) (s : Stmt) (hs : P[pc]? = some s)
    (hb : ¬ ((decide (cfg.maxStatements > 0) && decide (st.count + 1 > cfg.maxStatements)) = true)) :
    Good E cfg.maxStatements { st with count := st.count + 1 } (execM₀ cfg fuel P locals base pc st).fin := by
  cases fuel with
  | zero => rw [execM₀.eq_1, hs]; trivial
  | succ fuel => exact execM₀_step_good E cfg fuel (goodM E cfg hE fuel) P locals base pc st s hs hb

end C09
