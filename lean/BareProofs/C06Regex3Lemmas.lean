import BareProofs.C06Regex2Lemmas

/-!
# C06Regex3Lemmas — pieces for `jump` / `jumpif`, `include`, `function`
-/

namespace C06Regex
open Rx Text Scan RxPatterns

/-! ## `\s+(?P<name>[A-Za-z_]\w*)\s*$` -/

theorem rejects_kw' (p : Char → Bool) (w : String) (c : Char) (cs : List Char) (hw : w.toList = c :: cs) (hp : p c = false)
    (k : K) : RejectsHead p (fun st => (kw w.toList).m st k) := by
  intro st ⟨x, r, hr, hx⟩
  have hne : ¬ c = x := fun e => by rw [e, hx] at hp; exact Bool.noConfusion hp
  show (kw w.toList).m st k = none
  rw [kw_match w c cs hw]
  simp [keyword?, hw, hr, List.isPrefixOf, hne]

theorem rejects_ws_eol_word (k : K) : RejectsHead isWord (fun st => (ws ⬝ Rx.eol).m st k) := by
  intro st ⟨c, r, hr, hc⟩
  show (ws ⬝ Rx.eol).m st k = none
  have hs : isSpace c = false := word_not_space hc
  have hn : c ≠ '\n' := fun e => by rw [e] at hs; exact absurd hs (by decide)
  rw [seq_m]; simp only [ws, sp]
  rw [star_atom_backoff]
  cases r with
  | nil => simp [hr, space_test, hs, backoff, Rx.m, atEnd, hn]
  | cons d r' => simp [hr, space_test, hs, backoff, Rx.m, atEnd]

/-- where the name found by `wsNameEnd?` starts -/
def nameOff (r : Chars) : Nat := 1 + (r.tail.takeWhile isSpace).length

theorem name_tail (p : Nat) (r : Chars) (caps : List (Nat × Nat × Nat)) (h : '\n' ∉ r) :
    (ws1 ⬝ Rx.cap 3 (some "name") ident ⬝ ws ⬝ Rx.eol).m ⟨p, r, caps⟩ some =
      match wsNameEnd? r with
      | some name => some ⟨p + r.length, [], (3, p + nameOff r, p + nameOff r + name.length) :: caps⟩
      | none => none := by
  rw [ws1_det _ _ _ (rejects_cap_ident isSpace (fun x => space_not_idStart) _ _ _ _)]
  cases r with
  | nil => simp [wsNameEnd?, ws1?]
  | cons c r0 =>
    have h0 : '\n' ∉ r0 := fun hm => h (List.mem_cons_of_mem _ hm)
    by_cases hc : isSpace c = true
    · simp only [hc, if_true]
      rw [seq_m, cap_ident_det _ _ _ _ (rejects_ws_eol_word _)]
      unfold wsNameEnd?
      simp only [ws1?, hc, if_true]
      cases hi : ident? (lstripL r0) with
      | none => rfl
      | some nr =>
        obtain ⟨name, r''⟩ := nr
        have hr'' : '\n' ∉ r'' := by
          have := ident?_eq_append hi
          have h1 : '\n' ∉ lstripL r0 := not_mem_dropWhile h0
          rw [this] at h1; exact fun hm => h1 (List.mem_append_right _ hm)
        have hl := lstrip_split_length r0
        have hl2 := congrArg List.length (ident?_eq_append hi)
        simp only [List.length_append] at hl2
        simp only []
        rw [ws_eol_seq _ _ (by exact hr'')]
        by_cases ha : allSpace r'' = true
        · simp only [ha, if_true, nameOff, List.tail_cons, List.length_cons, Option.some.injEq, St.mk.injEq, true_and,
            List.cons.injEq, Prod.mk.injEq, and_true]
          omega
        · simp [ha]
    · simp [hc, wsNameEnd?, ws1?]

/-- the name stands at `nameOff` -/
theorem wsNameEnd?_drop {r name : Chars} (h : wsNameEnd? r = some name) : ∃ tl, r.drop (nameOff r) = name ++ tl := by
  unfold wsNameEnd? at h
  cases r with
  | nil => simp [ws1?] at h
  | cons c r0 =>
    by_cases hc : isSpace c = true
    · simp only [ws1?, hc, if_true] at h
      cases hi : ident? (lstripL r0) with
      | none => rw [hi] at h; cases h
      | some nr =>
        obtain ⟨nm, r''⟩ := nr
        rw [hi] at h
        simp only [] at h
        split at h
        · cases h
          refine ⟨r'', ?_⟩
          simp only [nameOff, List.tail_cons, Nat.add_comm 1, List.drop_succ_cons, drop_length_takeWhile]
          exact ident?_eq_append hi
        · cases h
    · simp [ws1?, hc] at h

theorem mem_takeWhile_p (p : Char → Bool) : ∀ (l : List Char) (x : Char), x ∈ l.takeWhile p → p x = true
  | [], x, h => by simp at h
  | c :: l, x, h => by
    by_cases hc : p c = true
    · simp only [List.takeWhile_cons, hc, if_true, List.mem_cons] at h
      rcases h with rfl | h
      · exact hc
      · exact mem_takeWhile_p p l x h
    · simp [List.takeWhile_cons, hc] at h

theorem ident?_word {s name r : Chars} (h : ident? s = some (name, r)) : ∀ x ∈ name, isWord x = true := by
  cases s with
  | nil => simp [ident?] at h
  | cons c cs =>
    by_cases hc : isIdStart c = true
    · simp only [ident?, hc, if_true, Option.some.injEq, Prod.mk.injEq] at h
      intro x hx
      rw [← h.1] at hx
      rcases List.mem_cons.mp hx with rfl | hx
      · exact C10.idStart_isWord hc
      · exact mem_takeWhile_p _ _ _ hx
    · simp [ident?, hc] at h

/-- the text `wsNameEnd?` accepts is blanks, word characters, blanks: no `)` in it -/
theorem wsNameEnd?_chars {r name : Chars} (h : wsNameEnd? r = some name) : ∀ x ∈ r, isSpace x = true ∨ isWord x = true := by
  unfold wsNameEnd? at h
  cases r with
  | nil => simp [ws1?] at h
  | cons c r0 =>
    by_cases hc : isSpace c = true
    · simp only [ws1?, hc, if_true] at h
      cases hi : ident? (lstripL r0) with
      | none => rw [hi] at h; cases h
      | some nr =>
        obtain ⟨nm, r''⟩ := nr
        rw [hi] at h
        simp only [] at h
        split at h
        · rename_i ha
          intro x hx
          rcases List.mem_cons.mp hx with rfl | hx
          · exact Or.inl hc
          · have e := List.takeWhile_append_dropWhile (p := isSpace) (l := r0)
            rw [← e] at hx
            rcases List.mem_append.mp hx with h1 | h1
            · exact Or.inl (mem_takeWhile_p _ _ _ h1)
            · rw [show r0.dropWhile isSpace = nm ++ r'' from ident?_eq_append hi] at h1
              rcases List.mem_append.mp h1 with h2 | h2
              · exact Or.inr (ident?_word hi x h2)
              · simp only [allSpace, List.all_eq_true] at ha; exact Or.inl (ha x h2)
        · cases h
    · simp [ws1?, hc] at h

theorem wsNameEnd?_no_paren {r name : Chars} (h : wsNameEnd? r = some name) : ')' ∉ r := by
  intro hm
  rcases wsNameEnd?_chars h _ hm with h1 | h1
  · exact absurd h1 (by decide)
  · exact absurd h1 (by decide)

/-! ## the last `)` -/

theorem head_dropWhile_false (p : Char → Bool) : ∀ (l : List Char) (y : Char) (t : List Char), l.dropWhile p = y :: t → p y = false
  | [], _, _, h => by simp at h
  | c :: l, y, t, h => by
    by_cases hc : p c = true
    · exact head_dropWhile_false p l y t (by simpa [List.dropWhile_cons, hc] using h)
    · simp only [List.dropWhile_cons, hc] at h
      have : c = y := (List.cons.inj h).1
      rw [← this]; simpa using hc


theorem splitLastParen_some {r e after : Chars} (h : splitLastParen r = some (e, after)) :
    r = e ++ ')' :: after ∧ ')' ∉ after := by
  unfold splitLastParen at h
  simp only [] at h
  have e1 := List.takeWhile_append_dropWhile (p := fun x : Char => x != ')') (l := r.reverse)
  cases hd : r.reverse.dropWhile (fun x : Char => x != ')') with
  | nil => rw [hd] at h; cases h
  | cons y br =>
    rw [hd] at h e1
    simp only [Option.some.injEq, Prod.mk.injEq] at h
    have hy : y = ')' := by
      have := head_dropWhile_false _ _ _ _ hd
      simpa using this
    subst hy
    refine ⟨?_, ?_⟩
    · have e2 := congrArg List.reverse e1
      simp only [List.reverse_append, List.reverse_cons, List.reverse_reverse, List.append_assoc, List.singleton_append] at e2
      rw [← h.1, ← h.2]; exact e2.symm
    · rw [← h.2]
      intro hm
      have := mem_takeWhile_p _ _ _ (List.mem_reverse.mp hm)
      simp at this

theorem splitLastParen_none {r : Chars} (h : splitLastParen r = none) : ')' ∉ r := by
  unfold splitLastParen at h
  simp only [] at h
  cases hd : r.reverse.dropWhile (fun x : Char => x != ')') with
  | cons y br => rw [hd] at h; cases h
  | nil =>
    intro hm
    have := (dropWhile_nil_iff_all _ _).mp hd
    rw [List.all_eq_true] at this
    have := this ')' (List.mem_reverse.mpr hm)
    simp at this

/-! ## `jumpif (…)`: `.+\)` backing off to the last `)` in front of `\s+name\s*$` -/

/-- after group `jump` closes: `\s+(?P<name>…)\s*$` -/
def jumpK : K := fun st' =>
  (ws1 ⬝ Rx.cap 3 (some "name") ident ⬝ ws ⬝ Rx.eol).m ⟨st'.pos, st'.rest, (1, 0, st'.pos) :: st'.caps⟩ some

/-- after `(?P<expr>.+)`: close the group, `\)`, then `jumpK` -/
def parenK (q : Nat) : K := fun st' => (elit ')').m ⟨st'.pos, st'.rest, (2, q, st'.pos) :: st'.caps⟩ jumpK

theorem parenK_eval (q : Nat) (st' : St) (h : '\n' ∉ st'.rest) :
    parenK q st' = match st'.rest with
      | x :: tail =>
        if x = ')' then
          match wsNameEnd? tail with
          | some name =>
            some ⟨st'.pos + 1 + tail.length, [],
              (3, st'.pos + 1 + nameOff tail, st'.pos + 1 + nameOff tail + name.length) :: (1, 0, st'.pos + 1) :: (2, q, st'.pos) :: st'.caps⟩
          | none => none
        else none
      | [] => none := by
  unfold parenK elit
  rw [one_m', step_lit]
  cases hr : st'.rest with
  | nil => rfl
  | cons x tail =>
    by_cases hx : x = ')'
    · simp only [hx, if_true, jumpK]
      rw [name_tail _ _ _ (fun hm => h (by rw [hr]; exact List.mem_cons_of_mem _ hm))]
    · simp [hx]

theorem paren_unfold (st : St) (h : '\n' ∉ st.rest) :
    (Rx.cap 2 (some "expr") dotPlus ⬝ elit ')').m st jumpK = match st.rest with
      | [] => none
      | _ :: rest' => backoff (parenK st.pos) ⟨st.pos + 1, rest', st.caps⟩ rest'.length := by
  unfold dotPlus
  rw [seq_m, cap_m, plus_m, one_m']
  cases hr : st.rest with
  | nil => simp [step, hr]
  | cons x rest' =>
    have hx : Atom.dot.test x = true := dot_test_of_noNL h x (by simp [hr])
    have hr' : '\n' ∉ rest' := fun hm => h (by rw [hr]; exact List.mem_cons_of_mem _ hm)
    simp only [step, hr, hx, if_true]
    rw [star_atom_backoff, takeWhile_dot_length (by exact hr')]
    rfl

theorem parenK_none_of_head (q : Nat) (st' : St) (h : '\n' ∉ st'.rest) (hh : ∀ x tail, st'.rest = x :: tail → x ≠ ')') :
    parenK q st' = none := by
  rw [parenK_eval _ _ h]
  cases hr : st'.rest with
  | nil => rfl
  | cons x tail => simp [hh x tail hr]

/-- **`(?P<expr>.+)\)` in front of `\s+name\s*$`** = `Scan.splitLastParen`: the group ends before the LAST `)` of the line -/
theorem paren_rx (p2 : Nat) (r2 : Chars) (h : '\n' ∉ r2) :
    (Rx.cap 2 (some "expr") dotPlus ⬝ elit ')').m ⟨p2, r2, []⟩ jumpK =
      match splitLastParen r2 with
      | some (e, after) =>
        if e = [] then none
        else match wsNameEnd? after with
          | some name =>
            some ⟨p2 + r2.length, [],
              [(3, p2 + e.length + 1 + nameOff after, p2 + e.length + 1 + nameOff after + name.length),
               (1, 0, p2 + e.length + 1), (2, p2, p2 + e.length)]⟩
          | none => none
      | none => none := by
  rw [paren_unfold _ h]
  cases hs : splitLastParen r2 with
  | none =>
    have hp := splitLastParen_none hs
    cases r2 with
    | nil => rfl
    | cons y rest' =>
      simp only []
      apply backoff_none
      intro j _
      apply parenK_none_of_head
      · exact not_mem_drop (fun hm => h (List.mem_cons_of_mem _ hm))
      · intro x tail hr e
        have : x ∈ rest'.drop j := by simp only [adv] at hr; rw [hr]; simp
        exact hp (List.mem_cons_of_mem _ (e ▸ (List.drop_sublist j rest').subset this))
  | some ea =>
    obtain ⟨e, after⟩ := ea
    obtain ⟨rfl, hna⟩ := splitLastParen_some hs
    have hafter : ∀ (k : Nat) x tail, after.drop k = x :: tail → x ≠ ')' := by
      intro k x tail hr e
      have : x ∈ after.drop k := by rw [hr]; simp
      exact hna (e ▸ (List.drop_sublist k after).subset this)
    cases e with
    | nil =>
      simp only [List.nil_append, if_true]
      apply backoff_none
      intro j _
      apply parenK_none_of_head
      · exact not_mem_drop (fun hm => h (by simp [hm]))
      · intro x tail hr; exact hafter j x tail (by simpa [adv] using hr)
    | cons y e' =>
      have hn' : '\n' ∉ e' ++ ')' :: after := fun hm => h (by rw [List.cons_append]; exact List.mem_cons_of_mem _ hm)
      have hbeyond : ∀ k, (e' ++ ')' :: after).drop (e'.length + (k + 1)) = after.drop k := by
        intro k; rw [← List.drop_drop]; simp
      simp only [List.cons_append, reduceCtorEq, if_false]
      cases hw : wsNameEnd? after with
      | some name =>
        apply backoff_first _ _ _ e'.length
        · simp
        · rw [parenK_eval _ _ (by simpa [adv] using (fun hm => hn' (by simp [hm])))]
          simp only [adv, List.drop_left', if_true, hw, List.length_cons, List.length_append, Option.some.injEq, St.mk.injEq,
            true_and, List.cons.injEq, Prod.mk.injEq, and_true]
          omega
        · intro j h1 h2
          obtain ⟨k, rfl⟩ : ∃ k, j = e'.length + (k + 1) := ⟨j - e'.length - 1, by omega⟩
          apply parenK_none_of_head
          · exact not_mem_drop hn'
          · intro x tail hr; exact hafter k x tail (by simpa [adv, hbeyond] using hr)
      | none =>
        simp only []
        apply backoff_none
        intro j _
        have hnj : '\n' ∉ (adv ⟨p2 + 1, e' ++ ')' :: after, []⟩ j).rest := not_mem_drop hn'
        rw [parenK_eval _ _ hnj]
        cases hr : (adv ⟨p2 + 1, e' ++ ')' :: after, []⟩ j).rest with
        | nil => rfl
        | cons x tail =>
          by_cases hx : x = ')'
          · subst hx
            simp only [if_true]
            cases hwt : wsNameEnd? tail with
            | none => rfl
            | some nm =>
              exfalso
              have hnp := wsNameEnd?_no_paren hwt
              simp only [adv] at hr
              rcases Nat.lt_trichotomy j e'.length with hlt | heq | hgt
              · rw [List.drop_append_of_le_length (by omega)] at hr
                have : tail = (e'.drop j).tail ++ ')' :: after := by
                  cases hd : e'.drop j with
                  | nil => exact absurd hd (drop_ne_nil hlt)
                  | cons z zs => rw [hd] at hr; simp at hr; simp [hr.2]
                exact hnp (by rw [this]; simp)
              · subst heq
                simp only [List.drop_left'] at hr
                rw [← (List.cons.inj hr).2, hw] at hwt; cases hwt
              · obtain ⟨k, rfl⟩ : ∃ k, j = e'.length + (k + 1) := ⟨j - e'.length - 1, by omega⟩
                rw [hbeyond] at hr
                exact hafter k _ _ hr rfl
          · simp [hx]

/-! ## `include`: the common prefix, the `<…>` form -/

theorem cls_neg1_test (e : Bool) (c x : Char) : (Atom.cls true [.ch e c]).test x = (x != c) := by
  simp only [Atom.test, Item.test, List.any_cons, List.any_nil, Bool.or_false]
  show ((x == c) != true) = !(x == c)
  cases (x == c) <;> rfl

/-- `\s+(?P<delim>d)R` for a non-blank delimiter `d` -/
theorem delim_prefix (e : Bool) (d : Char) (hd : isSpace d = false) (R : Rx) (p0 : Nat) (r : Chars) :
    (ws1 ⬝ Rx.cap 1 (some "delim") (.one (.lit e d)) ⬝ R).m ⟨p0, r, []⟩ some =
      match ws1? r with
      | some (x :: t) =>
        if x = d then R.m ⟨p0 + nameOff r + 1, t, [(1, p0 + nameOff r, p0 + nameOff r + 1)]⟩ some else none
      | _ => none := by
  rw [ws1_det]
  · cases r with
    | nil => simp [ws1?]
    | cons c r0 =>
      by_cases hc : isSpace c = true
      · simp only [hc, if_true, ws1?, seq_m, cap_m, one_m', step_lit, nameOff, List.tail_cons]
        cases lstripL r0 with
        | nil => rfl
        | cons x t => simp only [Nat.add_assoc]
      · simp [hc, ws1?]
  · intro st ⟨x, t, hr, hx⟩
    have : ¬ x = d := fun e' => by rw [e', hd] at hx; exact Bool.noConfusion hx
    simp [seq_m, cap_m, one_m', step_lit, hr, this]

/-- `(?P<url>[^>]*)>\s*$` -/
theorem system_tail (q : Nat) (t : Chars) (caps : List (Nat × Nat × Nat)) (h : '\n' ∉ t) :
    (Rx.cap 2 (some "url") (.star (.one (.cls true [.ch false '>']))) ⬝ lit '>' ⬝ ws ⬝ Rx.eol).m ⟨q, t, caps⟩ some =
      match t.dropWhile (· != '>') with
      | _ :: tail =>
        if allSpace tail then some ⟨q + t.length, [], (2, q, q + (t.takeWhile (· != '>')).length) :: caps⟩ else none
      | [] => none := by
  have htest : (Atom.cls true [.ch false '>']).test = (· != '>') := by funext x; exact cls_neg1_test _ _ _
  rw [seq_m, cap_m, star_atom_det]
  · simp only [skip, htest, seq_m, lit, one_m', step_lit]
    have hl : (t.takeWhile (· != '>')).length + (t.dropWhile (· != '>')).length = t.length := by
      have := congrArg List.length (List.takeWhile_append_dropWhile (p := (· != '>')) (l := t))
      rwa [List.length_append] at this
    cases hd : t.dropWhile (· != '>') with
    | nil => rfl
    | cons x tail =>
      have hx : x = '>' := by simpa using head_dropWhile_false _ _ _ _ hd
      have htl : '\n' ∉ tail := by
        have : '\n' ∉ t.dropWhile (· != '>') := not_mem_dropWhile h
        rw [hd] at this; exact fun hm => this (List.mem_cons_of_mem _ hm)
      rw [hd] at hl
      simp only [hx, if_true]
      rw [ws_eol _ _ (by exact htl)]
      by_cases ha : allSpace tail = true
      · simp only [ha, if_true, List.length_cons, Option.some.injEq, St.mk.injEq, true_and, and_true] at hl ⊢
        omega
      · simp [ha]
  · intro st ⟨x, r, hr, hx⟩
    rw [htest] at hx
    have : ¬ x = '>' := by simpa using hx
    simp [seq_m, lit, one_m', step_lit, hr, this]

/-! ## `include '…'`: the star over `\\'|[^']` -/

/-- mirror of the engine on `(?:\\'|[^'])*'\s*$`: the length of the url of the FIRST match in priority order
(an escaped quote is taken as a pair first; if the rest then fails, the backslash is taken alone) -/
def quoteEnd : Chars → Option Nat
  | [] => none
  | c :: t =>
    if c = '\'' then (if allSpace t then some 0 else none)
    else if c = '\\' then
      ((match t with
        | d :: t' => if d = '\'' then (quoteEnd t').map (· + 2) else none
        | [] => none) <|> (quoteEnd t).map (· + 1))
    else (quoteEnd t).map (· + 1)

/-- `(?:\\'|[^'])` -/
def quoteB : Rx := .ncg (.alt (elit '\\' ⬝ elit '\'') (.one (.cls true [.ch true '\''])))

/-- after the url: close the group, `'`, `\s*$` -/
def qK (q : Nat) : K := fun st' => (elit '\'' ⬝ ws ⬝ Rx.eol).m ⟨st'.pos, st'.rest, (2, q, st'.pos) :: st'.caps⟩ some

theorem qK_eval (q : Nat) (st' : St) (h : '\n' ∉ st'.rest) :
    qK q st' = match st'.rest with
      | x :: tail =>
        if x = '\'' then
          (if allSpace tail then some ⟨st'.pos + 1 + tail.length, [], (2, q, st'.pos) :: st'.caps⟩ else none)
        else none
      | [] => none := by
  unfold qK elit
  rw [seq_m, one_m', step_lit]
  cases hr : st'.rest with
  | nil => rfl
  | cons x tail =>
    by_cases hx : x = '\''
    · simp only [hx, if_true]
      rw [ws_eol_seq _ _ (fun hm => h (by rw [hr]; exact List.mem_cons_of_mem _ hm))]
    · simp [hx]

theorem quoteB_m (st : St) (K'' : K) :
    quoteB.m st K'' = match st.rest with
      | c :: t =>
        if c = '\\' then
          ((match t with
            | d :: t' => if d = '\'' then K'' ⟨st.pos + 2, t', st.caps⟩ else none
            | [] => none) <|> K'' ⟨st.pos + 1, t, st.caps⟩)
        else if c = '\'' then none
        else K'' ⟨st.pos + 1, t, st.caps⟩
      | [] => none := by
  unfold quoteB elit
  rw [ncg_m, alt_m, seq_m, one_m', step_lit, one_m']
  unfold step
  cases hr : st.rest with
  | nil => rfl
  | cons c t =>
    simp only [cls_neg1_test]
    by_cases hc : c = '\\'
    · subst hc
      simp only [if_true, one_m', step_lit, show ('\\' != '\'') = true from by decide]
      cases t with
      | nil => rfl
      | cons d t' => by_cases hd : d = '\'' <;> simp [hd, Nat.add_assoc]
    · by_cases hq : c = '\''
      · subst hq; simp
      · have : (c != '\'') = true := by simpa using hq
        simp [hc, hq, this]

theorem map_orElse' {α β} (f : α → β) (a b : Option α) : (a <|> b).map f = (a.map f <|> b.map f) := by
  cases a <;> simp

theorem orElse_none' {α} (a : Option α) : (a <|> none) = a := by cases a <;> simp

theorem quoteEnd_quote (t : Chars) : quoteEnd ('\'' :: t) = if allSpace t then some 0 else none := by
  rw [quoteEnd.eq_def]; simp

theorem quoteEnd_bs_quote (t' : Chars) :
    quoteEnd ('\\' :: '\'' :: t') = ((quoteEnd t').map (· + 2) <|> (quoteEnd ('\'' :: t')).map (· + 1)) := by
  rw [quoteEnd]; simp

theorem quoteEnd_bs_other (d : Char) (t' : Chars) (hd : ¬ d = '\'') :
    quoteEnd ('\\' :: d :: t') = (quoteEnd (d :: t')).map (· + 1) := by
  rw [quoteEnd]; simp [hd]

theorem quoteEnd_bs_nil : quoteEnd ['\\'] = none := by
  rw [quoteEnd]; simp [quoteEnd]

theorem quoteEnd_other (c : Char) (t : Chars) (hq : ¬ c = '\'') (hc : ¬ c = '\\') :
    quoteEnd (c :: t) = (quoteEnd t).map (· + 1) := by
  rw [quoteEnd.eq_def]; simp [hq, hc]

/-- **the star over `\\'|[^']` in front of `'\s*$` = `quoteEnd`** -/
theorem quote_loop (q : Nat) : ∀ (fuel pos : Nat) (u : Chars) (caps : List (Nat × Nat × Nat)), u.length ≤ fuel → '\n' ∉ u →
    loop quoteB.m fuel ⟨pos, u, caps⟩ (qK q) =
      (quoteEnd u).map (fun n => ⟨pos + u.length, [], (2, q, pos + n) :: caps⟩)
  | 0, pos, u, caps, hl, hn => by
    have : u = [] := List.length_eq_zero_iff.mp (by omega)
    subst this
    simp [loop, qK_eval, quoteEnd]
  | n + 1, pos, [], caps, hl, hn => by
    simp [loop, quoteB_m, qK_eval, quoteEnd]
  | n + 1, pos, c :: t, caps, hl, hn => by
    have ht : '\n' ∉ t := fun hm => hn (List.mem_cons_of_mem _ hm)
    have iht := quote_loop q n (pos + 1) t caps (by simpa using hl) ht
    rw [loop, quoteB_m, qK_eval _ _ hn]
    simp only []
    by_cases hq : c = '\''
    · subst hq
      rw [quoteEnd_quote]
      simp only [show ¬ ('\'' = '\\') from by decide, if_false, if_true]
      by_cases ha : allSpace t = true <;> simp [ha, Nat.add_assoc, Nat.add_comm 1]
    · by_cases hc : c = '\\'
      · subst hc
        simp only [if_true, hq, if_false, List.length_cons, Nat.lt_add_one, iht, orElse_none']
        cases t with
        | nil => simp [quoteEnd_bs_nil, quoteEnd]
        | cons d t' =>
          by_cases hd : d = '\''
          · subst hd
            have ht' : '\n' ∉ t' := fun hm => ht (List.mem_cons_of_mem _ hm)
            have iht' := quote_loop q n (pos + 2) t' caps (by simp at hl; omega) ht'
            rw [quoteEnd_bs_quote]
            simp only [if_true, List.length_cons, show t'.length < t'.length + 1 + 1 from by omega, iht']
            cases quoteEnd t' with
            | some a => simp; omega
            | none =>
              cases quoteEnd ('\'' :: t') with
              | some b => simp; omega
              | none => simp
          · rw [quoteEnd_bs_other d t' hd]
            simp only [hd, if_false]
            cases quoteEnd (d :: t') with
            | some b => simp; omega
            | none => simp
      · rw [quoteEnd_other c t hq hc]
        simp only [hc, hq, if_false, List.length_cons, Nat.lt_add_one, if_true, iht, orElse_none']
        cases quoteEnd t with
        | some b => simp; omega
        | none => simp

end C06Regex
