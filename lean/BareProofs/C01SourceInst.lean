import BareProofs.C01Source
import BareProofs.C02Print
import BareProofs.C10Ws

/-!
# C01 from source text, with the concrete expression printer

`C01.parseScript_print` (BareProofs/C01Source.lean) is parametric in the expression printer `pr`; here `pr` is
`Print.printExpr` (BareModel/Print.lean), whose round trip through `ExprParse.parseExpr` is `C02.parse_print`
(BareProofs/C02Print.lean) for every tree of the class `C02.Printable`.  The remaining hypothesis is one decidable
predicate on the structured program, `SourcePrintable`:

* every expression of the program is `C02.Printable` (`PrintScript.ProgExprsOK Print.printable`), and
* `PrintScript.ProgPrintable Print.printExpr`: identifiers are identifiers, expression *statements* are calls, no
  expression text contains a line feed (a string literal may: `Print.printExpr` prints it verbatim) or starts/ends
  with a character the line layer would misread, include URLs have no line feed (and no `>` in the `<…>` form), no label
  is named `else`.
-/

namespace C01
open Text Scan PrintScript Lower Parser Machine Structured

/-- the decidable hypothesis of `parseScript_printExpr` -/
def SourcePrintable (B : List SStmt) : Bool :=
  ProgPrintable Print.printExpr B && ProgExprsOK Print.printable B

theorem progRoundTrips_printExpr {B : List SStmt} (h : ProgExprsOK Print.printable B = true) :
    ProgRoundTrips Print.printExpr B := by
  simp only [ProgExprsOK, List.all_eq_true] at h
  exact fun l hl e he => C02.parse_print e (h l hl e he)

/-- **C01 from source text, concrete printer**: for every structured program `B` (any depth, any length) that is well
nested, has its functions numbered in source order, no adjacent include nodes, and is `SourcePrintable`, the
text-level parser model applied to the source text of `B` — expressions printed by `Print.printExpr` — returns exactly
the recursive lowering of `B`.  No hypothesis about the expression parser is left. -/
theorem parseScript_printExpr (B : List SStmt) (hw : WellNested B) (hf : FidsInOrder B) (hi : NoAdjacentIncludes B)
    (hp : SourcePrintable B = true) (start : Nat := 1) :
    parseScript [printScript Print.printExpr B] start = .ok (lowerProgram B) := by
  simp only [SourcePrintable, Bool.and_eq_true] at hp
  exact parseScript_print _ B hw hf hi hp.1 (progRoundTrips_printExpr hp.2) start

/-- an ill-nested program is rejected, from its text -/
theorem parseScript_printExpr_rejects (B : List SStmt) (hw : ¬ WellNested B) (hp : SourcePrintable B = true)
    (start : Nat := 1) : ∃ pe, parseScript [printScript Print.printExpr B] start = .error pe := by
  simp only [SourcePrintable, Bool.and_eq_true] at hp
  exact parseScript_print_rejects _ B hw hp.1 (progRoundTrips_printExpr hp.2) start

/-- **C01 (machine level) from source text, concrete printer** -/
theorem source_then_run_printExpr {W : Type} (cfg : Config W) (base : Option String) (B : List SStmt)
    (hw : WellNested B) (hf : FidsInOrder B) (hi : NoAdjacentIncludes B) (hr : NoRawB B)
    (hp : SourcePrintable B = true) (fuel : Nat) (st : State W) :
    ∃ P, parseScript [printScript Print.printExpr B] = .ok P ∧
      execute₀ cfg fuel P base st =
        toRes (execTB cfg (callValue₀ cfg) (execIncludes₀ cfg) false B 0 fuel none base { st with count := 0 }) := by
  simp only [SourcePrintable, Bool.and_eq_true] at hp
  exact source_then_run cfg base _ B hw hf hi hr hp.1 (progRoundTrips_printExpr hp.2) fuel st

/-- **C01 from indented source text**: the usual layout (`n` blanks per nesting level) of the same program parses to
the same lowering — `C10.parseExpr_skips_leading_blanks` discharges the hypothesis about the expression parser. -/
theorem parseScript_printPretty_printExpr (n : Nat) (B : List SStmt) (hw : WellNested B) (hf : FidsInOrder B)
    (hi : NoAdjacentIncludes B) (hp : SourcePrintable B = true) (start : Nat := 1) :
    parseScript [printPretty Print.printExpr n B] start = .ok (lowerProgram B) := by
  simp only [SourcePrintable, Bool.and_eq_true] at hp
  exact parseScript_printPretty C10.parseExpr_skips_leading_blanks _ n B hw hf hi hp.1 (progRoundTrips_printExpr hp.2) start

example : parseScript [printPretty Print.printExpr 4 SourceDemo.prog] = .ok (lowerProgram SourceDemo.prog) :=
  parseScript_printPretty_printExpr 4 _ SourceDemo.prog_structure.1 SourceDemo.prog_structure.2.1
    SourceDemo.prog_structure.2.2 (by decide +kernel)

/-- the hypotheses are inhabited by `SourceDemo.prog` (function, nested if/elif/else, while with break, for with index
and continue, returns, includes, call statements) -/
example : SourcePrintable SourceDemo.prog = true := by decide +kernel

example : parseScript [printScript Print.printExpr SourceDemo.prog] = .ok (lowerProgram SourceDemo.prog) :=
  parseScript_printExpr _ SourceDemo.prog_structure.1 SourceDemo.prog_structure.2.1 SourceDemo.prog_structure.2.2
    (by decide +kernel)

/-- what excludes a program: a string literal with a line feed, an expression statement that is not a call -/
example : SourcePrintable [.expr (some (.user "s")) (.string "a\nb")] = false ∧
    SourcePrintable [.expr none (.binary .eq (.variable (.user "a")) (.variable (.user "b")))] = false ∧
    SourcePrintable [.label (.user "else")] = false := by decide +kernel

end C01
